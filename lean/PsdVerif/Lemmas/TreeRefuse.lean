/-
Layer-tree model: refused operations leave the tree unchanged.
`Ref s r`: if the result `r` is an exception other than RecursionError, the state of `r` has the
same tree as `s` (caches may have been filled by the formatting of the message, `del g[k]` has
already set the dirty flag).
-/
import PsdVerif.Lemmas.TreeStep2

namespace PsdVerif.TreeSt

/-! ### the only exception a traversal can raise is RecursionError -/

theorem descList_err {s : State} (r : Id → Except Err (List Id))
    (hr : ∀ c e, r c = .error e → e = .recursionError) (l : List Id) (e : Err)
    (h : descList r s l = .error e) : e = .recursionError := by
  induction l with
  | nil => simp [descList] at h
  | cons c cs ih =>
    simp only [descList] at h
    split at h
    · rename_i e' he'
      cases h
      split at he'
      · exact hr c _ he'
      · cases he'
    · split at h
      · rename_i e' he'; cases h; exact ih he'
      · cases h

theorem descF_err {s : State} (f : Nat) (g : Id) (e : Err) (h : descF s f g = .error e) : e = .recursionError := by
  induction f generalizing g e with
  | zero => simp only [descF] at h; cases h; rfl
  | succ f ih =>
    simp only [descF] at h
    exact descList_err (descF s f) (fun c e' h' => ih c e' h') _ e h

theorem desc_err {s : State} {g : Id} {e : Err} (h : desc s g = .error e) : e = .recursionError := descF_err _ g e h

theorem isVisF_err {s : State} (f : Nat) (x : Id) (e : Err) (h : isVisF s f x = .error e) : e = .recursionError := by
  induction f generalizing x with
  | zero => simp only [isVisF] at h; cases h; rfl
  | succ f ih =>
    simp only [isVisF] at h
    split at h
    · cases h
    · split at h
      · cases h
      · split at h
        · cases h
        · exact ih _ h

theorem extList_err {s : State} (r : Id → Except Err BBox) (hr : ∀ c e, r c = .error e → e = .recursionError)
    (l : List Id) (e : Err) (h : extList r s l = .error e) : e = .recursionError := by
  induction l with
  | nil => simp [extList] at h
  | cons c cs ih =>
    simp only [extList] at h
    split at h
    · rename_i e' he'; cases h; exact isVisF_err _ _ _ he'
    · exact ih h
    · split at h
      · rename_i e' he'
        cases h
        split at he'
        · exact hr c _ he'
        · cases he'
      · split at h
        · rename_i e' he'; cases h; exact ih he'
        · cases h

theorem extF_err {s : State} (f : Nat) (g : Id) (e : Err) (h : extF s f g = .error e) : e = .recursionError := by
  induction f generalizing g e with
  | zero => simp only [extF] at h; cases h; rfl
  | succ f ih =>
    simp only [extF] at h
    split at h
    · rename_i e' he'; cases h
      exact extList_err (extF s f) (fun c e'' h' => ih c e'' h') _ _ he'
    · cases h

theorem readCache_err {s : State} {x : Id} {e : Err} (h : (readCache s x).2 = .error e) : e = .recursionError := by
  unfold readCache at h
  split at h
  · cases h
  · split at h
    · cases h
    · split at h
      · rename_i e' he'; cases h; exact extF_err _ _ _ he'
      · cases h

theorem obsBbox_err {s : State} {x : Id} {e : Err} (h : (obsBbox s x).2 = .error e) : e = .recursionError := by
  unfold obsBbox at h
  split at h
  · cases h
  · split at h
    · rename_i s1 e' he'
      cases h
      have := readCache_err (s := s) (x := x) (e := e) (by rw [he'])
      exact this
    · cases h

theorem reprAll_err {s : State} (l : List Id) {e : Err} (h : (reprAll s l).2 = some e) : e = .recursionError := by
  induction l generalizing s with
  | nil => simp [reprAll] at h
  | cons x xs ih =>
    simp only [reprAll] at h
    split at h
    · exact ih h
    · split at h
      · rename_i s1 e' he'
        cases h
        exact obsBbox_err (s := s) (x := x) (by rw [he'])
      · exact ih h

theorem refuse_out {s : State} {r : Err × List Id} {e : Err} (h : (refuse s r).2 = .error e) :
    e = r.1 ∨ e = .recursionError := by
  unfold refuse at h
  split at h
  · cases h; exact .inl rfl
  · rename_i s1 e' he'
    cases h
    exact .inr (reprAll_err r.2 (by rw [he']))

theorem warnRepr_err {s : State} {x : Id} {e : Err} (h : (warnRepr s x).2 = .error e) : e = .recursionError := by
  unfold warnRepr at h
  split at h
  · cases h
  · rename_i s1 e' he'
    cases h
    exact reprAll_err [x] (by rw [he'])

/-! ### refusals of `_check_valid_layers` -/

/-- a check that fails although the arguments are layers, differ from the container and do not
contain it, can only have hit the recursion limit -/
theorem checkValid_ok_of {cfg : Cfg} {s : State} {g : Id} (hc : ∀ c, s.children c ≠ [] → s.cont c = true)
    (xs : List Id) (hall : ∀ x, x ∈ xs → s.isLayer x = true ∧ x ≠ g ∧ ¬ Reach s x g) (e : Err) (ids : List Id)
    (h : checkValid cfg s g xs = some (e, ids)) : e = .recursionError ∧ ids = [] := by
  induction xs with
  | nil => simp [checkValid] at h
  | cons a as ih =>
    have ha := hall a (List.mem_cons_self ..)
    have ih' := ih (fun x hx => hall x (List.mem_cons_of_mem _ hx))
    simp only [checkValid, ha.1, Bool.not_true, Bool.false_eq_true, if_false] at h
    split at h
    · rename_i hself
      simp only [Bool.and_eq_true, beq_iff_eq] at hself
      exact absurd hself.2 ha.2.1
    · split at h
      · split at h
        · rename_i e' he'
          cases h
          exact ⟨desc_err he', rfl⟩
        · rename_i ds hds
          split at h
          · rename_i hmem
            exact absurd ((mem_desc_iff hc hds g).mp hmem) ha.2.2
          · exact ih' h
      · exact ih' h

theorem finishInsert_err {cfg : Cfg} {s : State} {g : Id} {o : Out} {e : Err}
    (h : (finishInsert cfg s g o).2 = .error e) (ho : o.isError = false) : e = .recursionError := by
  unfold finishInsert at h
  split at h
  · cases h; rfl
  · simp only at h
    rw [h] at ho
    cases ho

/-! ### `Ref` -/

def Ref (s : State) (r : State × Out) : Prop := ∀ e, r.2 = .error e → e ≠ .recursionError → SameTree s r.1

theorem Ref.same {s : State} {r : State × Out} (h : SameTree s r.1) : Ref s r := fun _ _ _ => h

theorem Ref.of_not_error {s : State} {r : State × Out} (h : r.2.isError = false) : Ref s r := by
  intro e he _
  rw [he] at h
  cases h

theorem Ref.of_only_rec {s : State} {r : State × Out} (h : ∀ e, r.2 = .error e → e = .recursionError) : Ref s r :=
  fun e he hne => absurd (h e he) hne

theorem finishInsert_ref (cfg : Cfg) (s s' : State) (g : Id) (o : Out) (ho : o.isError = false) :
    Ref s (finishInsert cfg s' g o) := Ref.of_only_rec (fun _ he => finishInsert_err he ho)

theorem opExtend_ref (cfg : Cfg) (s : State) (g : Id) (xs : List Id) : Ref s (opExtend cfg s g xs) := by
  unfold opExtend
  split
  · exact Ref.same (refuse_same s _)
  · exact finishInsert_ref cfg s _ g _ rfl

theorem opAppend_ref (cfg : Cfg) (s : State) (g x : Id) : Ref s (opAppend cfg s g x) := by
  unfold opAppend
  split
  · exact Ref.same (SameTree.refl s)
  · exact opExtend_ref cfg s g [x]

theorem opInsert_ref (cfg : Cfg) (s : State) (g : Id) (k : Int) (x : Id) : Ref s (opInsert cfg s g k x) := by
  unfold opInsert
  split
  · exact Ref.same (refuse_same s _)
  · exact finishInsert_ref cfg s _ g _ rfl

theorem opSetitem_ref (cfg : Cfg) (s : State) (g : Id) (k : Int) (x : Id) : Ref s (opSetitem cfg s g k x) := by
  unfold opSetitem
  split
  · exact Ref.same (refuse_same s _)
  · simp only
    split
    · exact Ref.same (SameTree.refl s)
    · exact finishInsert_ref cfg s _ g _ rfl

theorem opSetslice_ref (cfg : Cfg) (s : State) (g : Id) (a b : Option Int) (xs : List Id) :
    Ref s (opSetslice cfg s g a b xs) := by
  unfold opSetslice
  split
  · exact Ref.same (refuse_same s _)
  · exact finishInsert_ref cfg s _ g _ rfl

theorem opRemove_ref (cfg : Cfg) (s : State) (g x : Id) : Ref s (opRemove cfg s g x) := by
  unfold opRemove finishRemove
  split
  · exact Ref.of_not_error rfl
  · exact Ref.same (SameTree.refl s)

theorem opRemove_not_error_of_mem (cfg : Cfg) (s : State) (g x : Id) (h : x ∈ s.children g) :
    (opRemove cfg s g x).2.isError = false := by
  unfold opRemove finishRemove
  rw [if_pos h]
  rfl

theorem opPop_ref (cfg : Cfg) (s : State) (g : Id) (k : Int) : Ref s (opPop cfg s g k) := by
  unfold opPop finishRemove
  simp only
  split
  · exact Ref.same (SameTree.refl s)
  · split
    · exact Ref.same (SameTree.refl s)
    · exact Ref.of_not_error rfl

theorem opDelitem_ref (cfg : Cfg) (s : State) (g : Id) (k : Int) : Ref s (opDelitem cfg s g k) := by
  unfold opDelitem finishRemove
  simp only
  split
  · exact Ref.same (SameTree.refl s)
  · exact Ref.of_not_error rfl

theorem detach_not_error (cfg : Cfg) (s : State) (x p : Id) : (detach cfg s x p).2.isError = false := by
  unfold detach
  split
  · rename_i h; exact opRemove_not_error_of_mem cfg s p x h
  · rfl

/-! ### operations that mutate before a second check: the second check cannot refuse -/

theorem opAppend_norefuse {cfg : Cfg} {s : State} (i : Inv s) {g x : Id} (hl : s.isLayer x = true) (hxg : x ≠ g)
    (hnr : ¬ Reach s x g) (e : Err) (h : (opAppend cfg s g x).2 = .error e) : e = .recursionError := by
  unfold opAppend opExtend at h
  rw [if_neg hxg] at h
  split at h
  · rename_i r hr
    obtain ⟨e', ids⟩ := r
    have := checkValid_ok_of i.contOnly [x] (fun y hy => by rw [List.mem_singleton.mp hy]; exact ⟨hl, hxg, hnr⟩) e' ids hr
    obtain ⟨h1, h2⟩ := this
    subst h1 h2
    rcases refuse_out h with h' | h'
    · exact h'
    · exact h'
  · exact finishInsert_err h rfl

theorem opInsert_norefuse {cfg : Cfg} {s : State} (i : Inv s) {g x : Id} (k : Int) (hl : s.isLayer x = true)
    (hxg : x ≠ g) (hnr : ¬ Reach s x g) (e : Err) (h : (opInsert cfg s g k x).2 = .error e) :
    e = .recursionError := by
  unfold opInsert checkSingle at h
  rw [if_neg hxg] at h
  split at h
  · rename_i r hr
    obtain ⟨e', ids⟩ := r
    have := checkValid_ok_of i.contOnly [x] (fun y hy => by rw [List.mem_singleton.mp hy]; exact ⟨hl, hxg, hnr⟩) e' ids hr
    obtain ⟨h1, h2⟩ := this
    subst h1 h2
    rcases refuse_out h with h' | h'
    · exact h'
    · exact h'
  · exact finishInsert_err h rfl

/-- the shape `r1 ; append` where `r1` is not an error -/
theorem then_append_only_rec {cfg : Cfg} (r1 : State × Out) (g x : Id) (o : Out) (h1 : r1.2.isError = false)
    (ho : o.isError = false)
    (ha : ∀ e, (opAppend cfg r1.1 g x).2 = .error e → e = .recursionError) (e : Err)
    (h : (if r1.2.isError = true then r1
      else if (opAppend cfg r1.1 g x).2.isError = true then opAppend cfg r1.1 g x
      else ((opAppend cfg r1.1 g x).1, o)).2 = .error e) : e = .recursionError := by
  rw [h1] at h
  simp only [Bool.false_eq_true, if_false] at h
  split at h
  · exact ha e h
  · simp only at h
    rw [h] at ho
    cases ho

theorem opMoveToGroup_after_checks {cfg : Cfg} {s : State} (i : Inv s) {x g : Id} (hl : s.isLayer x = true)
    (hne : g ≠ x) (hnr : ¬ Reach s x g) (e : Err)
    (h : (let r1 := match s.parent x with
            | some p => if s.cont p = true then detach cfg s x p else (s, Out.none)
            | none => (s, Out.none)
          if r1.2.isError = true then r1
          else
            let r2 := opAppend cfg r1.1 g x
            if r2.2.isError = true then r2 else (r2.1, Out.id x)).2 = .error e) : e = .recursionError := by
  simp only at h
  have key : ∀ (r1 : State × Out), Inv r1.1 → KindFrame s r1.1 → Adds s r1.1 g [] → r1.2.isError = false →
      (if r1.2.isError = true then r1
        else if (opAppend cfg r1.1 g x).2.isError = true then opAppend cfg r1.1 g x
        else ((opAppend cfg r1.1 g x).1, Out.id x)).2 = .error e → e = .recursionError := by
    intro r1 i1 hf hadd hne1 h'
    refine then_append_only_rec r1 g x _ hne1 rfl ?_ e h'
    intro e' he'
    refine opAppend_norefuse i1 (by rw [hf.isLayer]; exact hl) (Ne.symm hne) ?_ e' he'
    intro r
    apply hnr
    refine Reach.mono ?_ r
    intro c y hy
    exact hadd.subset hy (fun hh => by cases hh.2)
  cases hp : s.parent x with
  | none =>
    simp only [hp] at h
    exact key (s, Out.none) i (KindFrame.refl s) (Adds.refl s _ _) rfl h
  | some p =>
    simp only [hp] at h
    by_cases hcp : s.cont p = true
    · simp only [hcp, if_true] at h
      exact key (detach cfg s x p) (inv_detach i x p) (detach_frame cfg s x p) (detach_adds cfg s x p g [])
        (detach_not_error cfg s x p) h
    · simp only [hcp] at h
      exact key (s, Out.none) i (KindFrame.refl s) (Adds.refl s _ _) rfl h

/-- `move_to_group` of a layer into a group that is neither the layer nor below it is not refused -/
theorem opMoveToGroup_norefuse {cfg : Cfg} {s : State} (i : Inv s) {x g : Id} (hl : s.isLayer x = true)
    (hg : s.isGroup g = true) (hne : g ≠ x) (hnr : ¬ Reach s x g) (e : Err)
    (h : (opMoveToGroup cfg s x g).2 = .error e) : e = .recursionError := by
  unfold opMoveToGroup at h
  simp only [hl, hg, Bool.not_true, Bool.false_eq_true, if_false, hne] at h
  cases hd : (if s.cont x = true then desc s x else Except.ok []) with
  | error e' =>
    simp only [hd] at h
    cases h
    split at hd
    · exact desc_err hd
    · cases hd
  | ok ds =>
    simp only [hd] at h
    have hmem : g ∉ ds := by
      intro hm
      apply hnr
      split at hd
      · exact (mem_desc_iff i.contOnly hd g).mp hm
      · cases hd; cases hm
    rw [if_neg hmem] at h
    exact opMoveToGroup_after_checks i hl hne hnr e h

theorem opMoveToGroup_ref {cfg : Cfg} {s : State} (i : Inv s) (x g : Id) : Ref s (opMoveToGroup cfg s x g) := by
  unfold opMoveToGroup
  split
  · exact Ref.same (SameTree.refl s)
  · rename_i hl
    split
    · exact Ref.same (SameTree.refl s)
    · split
      · exact Ref.same (SameTree.refl s)
      · rename_i hne
        cases hd : (if s.cont x = true then desc s x else Except.ok []) with
        | error e' => simp only [hd]; exact Ref.same (SameTree.refl s)
        | ok ds =>
          simp only [hd]
          split
          · exact Ref.same (refuse_same s _)
          · rename_i hmem
            have hnr : ¬ Reach s x g := by
              intro r
              apply hmem
              split at hd
              · exact (mem_desc_iff i.contOnly hd g).mpr r
              · rename_i hcont; exact absurd (reach_cont i.contOnly r) hcont
            apply Ref.of_only_rec
            intro e he
            exact opMoveToGroup_after_checks i (by simpa using hl) hne hnr e he

theorem wrap_only_rec (r2 : State × Out) (o : Out) (ho : o.isError = false)
    (h2 : ∀ e, r2.2 = .error e → e = .recursionError) (e : Err)
    (h : (if r2.2.isError = true then r2 else (r2.1, o)).2 = .error e) : e = .recursionError := by
  split at h
  · exact h2 e h
  · simp only at h
    rw [h] at ho
    cases ho

theorem opMoveUp_ref {cfg : Cfg} {s : State} (i : Inv s) (x : Id) (k : Int) : Ref s (opMoveUp cfg s x k) := by
  unfold opMoveUp
  split
  · exact Ref.same (SameTree.refl s)
  · rename_i hl
    split
    · exact Ref.same (SameTree.refl s)
    · rename_i p hp
      split
      · exact Ref.same (SameTree.refl s)
      · simp only
        split
        · rename_i hx
          have hx' : x ∈ s.children p := hx
          apply Ref.of_only_rec
          intro e he
          rw [opRemove_not_error_of_mem cfg s p x hx'] at he
          simp only [Bool.false_eq_true, if_false] at he
          have i1 : Inv (opRemove cfg s p x).1 := inv_opRemove i p x
          have hins : ∀ n e', (opInsert cfg (opRemove cfg s p x).1 p n x).2 = .error e' → e' = .recursionError := by
            intro n e' he'
            refine opInsert_norefuse i1 n (by rw [(opRemove_frame cfg s p x).isLayer]; simpa using hl)
              (i.not_self hx') ?_ e' he'
            intro r
            have r' : Reach s x p := by
              refine Reach.mono ?_ r
              intro c y hy
              exact (opRemove_adds cfg s p x p []).subset hy (fun hh => by cases hh.2)
            exact i.no_cycle p (.step hx' r')
          exact wrap_only_rec _ _ rfl (hins _) e he
        · exact Ref.same (refuse_same s _)

theorem opDeleteLayer_ref {cfg : Cfg} {s : State} (x : Id) : Ref s (opDeleteLayer cfg s x) := by
  unfold opDeleteLayer
  split
  · exact Ref.same (SameTree.refl s)
  · split
    · exact Ref.of_only_rec (fun e he => warnRepr_err he)
    · split
      · exact Ref.of_only_rec (fun e he => warnRepr_err he)
      · simp only
        rw [detach_not_error]
        simp only [Bool.false_eq_true, if_false]
        unfold finishRemove
        exact Ref.of_not_error rfl

/-- nothing is listed below a layer that lists nothing -/
theorem no_reach_of_no_children {s : State} {x y : Id} (h : s.children x = []) : ¬ Reach s x y := by
  intro r
  cases r with
  | edge hx => rw [h] at hx; cases hx
  | step hx _ => rw [h] at hx; cases hx

theorem opNewGroup_ref {cfg : Cfg} {s : State} (i : Inv s) (p : Option Id) : Ref s (opNewGroup cfg s p) := by
  unfold opNewGroup
  cases p with
  | none => exact Ref.of_not_error rfl
  | some p =>
    simp only
    split
    · rename_i hg
      have hg' := isGroup_iff.mp hg
      have hpn : p ≠ s.next := Nat.ne_of_lt hg'.1
      have i1 := inv_alloc i .group none BBox.zero
      apply Ref.of_only_rec
      intro e he
      have hmv : ∀ e', (opMoveToGroup cfg (alloc s .group none BBox.zero) s.next p).2 = .error e' →
          e' = .recursionError := by
        intro e' he'
        refine opMoveToGroup_norefuse i1 ?_ ?_ hpn ?_ e' he'
        · simp [State.isLayer, State.live, alloc, upd]
        · apply isGroup_iff.mpr
          refine ⟨Nat.lt_succ_of_lt hg'.1, ?_⟩
          simpa [alloc, State.cont, upd, hpn] using hg'.2
        · apply no_reach_of_no_children
          simp [alloc, upd]
      split at he
      · exact hmv e he
      · cases he
    · exact Ref.of_not_error rfl

/-! ### `group_layers`: after the validation nothing can be refused -/

/-- a path that does not start at a node listed nowhere does not use the memberships added to it -/
theorem reach_old_of_adds {s s' : State} {n : Id} {xs : List Id} (hadd : Adds s s' n xs) (hdet : Detached s' n)
    {a b : Id} (r : Reach s' a b) (ha : a ≠ n) : Reach s a b := by
  induction r with
  | edge hx => exact .edge (hadd.subset hx (fun hh => ha hh.1))
  | @step c x y hx _ ih =>
    have hxn : x ≠ n := by
      intro e; subst e; exact hdet c hx
    exact .step (hadd.subset hx (fun hh => ha hh.1)) (ih hxn)

theorem moveAll_only_rec {cfg : Cfg} (n : Id) (s : State) (i : Inv s) (xs : List Id)
    (hn : s.isGroup n = true) (hdet : Detached s n) (hall : ∀ x, x ∈ xs → s.isLayer x = true ∧ x ≠ n)
    (hself : cfg.itemSelfCheck = true) (e : Err)
    (h : (moveAll cfg n s xs).2 = .error e) : e = .recursionError := by
  induction xs generalizing s with
  | nil => simp [moveAll] at h
  | cons x xs ih =>
    simp only [moveAll] at h
    have hx := hall x (List.mem_cons_self ..)
    have hnr : ¬ Reach s x n := by
      intro r
      obtain ⟨c, hc, _⟩ := r.last
      exact hdet c hc
    have hmv := opMoveToGroup_norefuse (cfg := cfg) i hx.1 hn (Ne.symm hx.2) hnr
    split at h
    · exact hmv e h
    · rename_i hok
      have hok' : (opMoveToGroup cfg s x n).2 ≠ recErr := ne_rec_of_not_isError hok
      have i1 := inv_opMoveToGroup i hself x n hok'
      have hf := opMoveToGroup_frame cfg s x n
      refine ih _ i1 (by rw [hf.isGroup]; exact hn) ?_ ?_ h
      · intro c hc
        rcases opMoveToGroup_adds cfg s x n c n hc with h' | h'
        · exact hdet c h'
        · exact hx.2 (List.mem_singleton.mp h'.2).symm
      · intro y hy
        have := hall y (List.mem_cons_of_mem _ hy)
        exact ⟨by rw [hf.isLayer]; exact this.1, this.2⟩

theorem glBody_only_rec {cfg : Cfg} {s : State} (i : Inv s) (hself : cfg.itemSelfCheck = true) (par : Option Id)
    (xs : List Id) (hall : ∀ x, x ∈ xs → s.isLayer x = true)
    (hpar : ∀ q, par = some q → s.isGroup q = true → ∀ x, x ∈ xs → x ≠ q ∧ ¬ Reach s x q) (e : Err)
    (h : (glBody cfg s par xs).2 = .error e) : e = .recursionError := by
  unfold glBody at h
  simp only at h
  have i1 := inv_alloc i .group none BBox.zero
  have hn1 : (alloc s .group none BBox.zero).isGroup s.next = true := by
    simp [State.isGroup, State.live, State.cont, alloc, upd, isCont]
  have hall1 : ∀ x, x ∈ xs → (alloc s .group none BBox.zero).isLayer x = true ∧ x ≠ s.next := by
    intro x hx
    have := isLayer_iff.mp (hall x hx)
    have hne : x ≠ s.next := Nat.ne_of_lt this.1
    refine ⟨?_, hne⟩
    apply isLayer_iff.mpr
    refine ⟨Nat.lt_succ_of_lt this.1, ?_⟩
    simpa [alloc, upd, hne] using this.2
  have hmv := moveAll_only_rec (cfg := cfg) s.next _ i1 xs hn1 (alloc_detached i _ _ _) hall1 hself
  split at h
  · exact hmv e h
  · rename_i hok
    have i2 := inv_moveAll hself s.next _ i1 xs (ne_rec_of_not_isError hok)
    have hadd := moveAll_adds cfg s.next (alloc s .group none BBox.zero) xs
    have hf := moveAll_frame cfg s.next (alloc s .group none BBox.zero) xs
    have hdet : Detached (moveAll cfg s.next (alloc s .group none BBox.zero) xs).1 s.next := by
      intro c hc
      rcases hadd c _ hc with h' | h'
      · exact alloc_detached i .group none BBox.zero c h'
      · exact (hall1 _ h'.2).2 rfl
    cases par with
    | none => cases h
    | some q =>
      simp only at h
      split at h
      · rename_i hq
        have hq' := isGroup_iff.mp hq
        have hqn : q ≠ s.next := Nat.ne_of_lt hq'.1
        have hchk := hpar q rfl hq
        -- the new group is a layer of the final state, differs from the parent, and does not contain it
        have hnr : ¬ Reach (moveAll cfg s.next (alloc s .group none BBox.zero) xs).1 s.next q := by
          intro r
          obtain ⟨y, hy, hyq⟩ := reach_iff_head.mp r
          have hyxs : y ∈ xs := by
            rcases hadd _ _ hy with h' | h'
            · simp [alloc, upd] at h'
            · exact h'.2
          have hy1 := hall1 y hyxs
          -- below `y` only old memberships are used
          have hold : ∀ b, Reach (moveAll cfg s.next (alloc s .group none BBox.zero) xs).1 y b → Reach s y b := by
            intro b rb
            have r1 := reach_old_of_adds hadd hdet rb hy1.2
            refine Reach.mono ?_ r1
            intro c z hz
            simp only [alloc, upd] at hz
            split at hz
            · cases hz
            · exact hz
          rcases hyq with e' | r'
          · exact (hchk y hyxs).1 e'.symm
          · exact (hchk y hyxs).2 (hold q r')
        have happ : ∀ e', (opAppend cfg (moveAll cfg s.next (alloc s .group none BBox.zero) xs).1 q s.next).2 = .error e' →
            e' = .recursionError := by
          intro e' he'
          refine opAppend_norefuse i2 ?_ (Ne.symm hqn) hnr e' he'
          rw [hf.isLayer]
          simp [State.isLayer, State.live, alloc, upd]
        split at h
        · exact happ e h
        · cases h
      · cases h

theorem glPre_none_checks {cfg : Cfg} {s : State} (i : Inv s) {par : Option Id} {xs : List Id}
    (hpre : cfg.groupLayersPrecheck = true) (hself : cfg.itemSelfCheck = true) (h : glPre cfg s par xs = none) :
    ∀ q, par = some q → s.isGroup q = true → ∀ x, x ∈ xs → x ≠ q ∧ ¬ Reach s x q := by
  intro q hq hg x hx
  unfold glPre at h
  rw [if_pos hpre] at h
  split at h
  · cases h
  · subst hq
    simp only [hg, if_true] at h
    have := checkValid_none i.contOnly hself xs h x hx
    exact this.2

theorem opGroupLayers_ref {cfg : Cfg} {s : State} (i : Inv s) (hself : cfg.itemSelfCheck = true)
    (hpre : cfg.groupLayersPrecheck = true) (xs : List Id) (p : Option Id) : Ref s (opGroupLayers cfg s xs p) := by
  unfold opGroupLayers
  cases xs with
  | nil => exact Ref.same (SameTree.refl s)
  | cons x0 rest =>
    simp only
    split
    · exact Ref.same (SameTree.refl s)
    · cases hp : glPre cfg s (glParent cfg s p x0) (x0 :: rest) with
      | some r => simp only [hp]; exact Ref.same (refuse_same s _)
      | none =>
        simp only [hp]
        exact Ref.of_only_rec (fun e he => glBody_only_rec i hself _ _ (glPre_none_layers hpre hp)
          (glPre_none_checks i hpre hself hp) e he)

theorem opSetVisible_ref (cfg : Cfg) (s : State) (x : Id) (v : Bool) : Ref s (opSetVisible cfg s x v) := by
  unfold opSetVisible
  split
  · exact Ref.same (SameTree.refl s)
  · simp only
    split
    · split
      · exact Ref.same (invUp_same cfg s x)
      · exact Ref.of_not_error rfl
    · exact Ref.of_not_error rfl

theorem opSetOffset_ref (cfg : Cfg) (s : State) (x : Id) (h : Bool) (v : Int) : Ref s (opSetOffset cfg s x h v) := by
  unfold opSetOffset
  split
  · exact Ref.same (SameTree.refl s)
  · exact Ref.of_not_error rfl

end PsdVerif.TreeSt
