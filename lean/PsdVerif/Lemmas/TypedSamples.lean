/-
C01 (typed documents) — sample values for the non-vacuity statements of Props/C01Typed.lean: a PSB whose main layer info
holds two records with typed blocks (unicode name, `TySh` with its engine data parsed, section divider, levels, vector mask,
effects, an unknown key; filter effects under an 8-byte-length key, a layer id), whose document-level blocks are an `Lr16`
with a nested record that has typed blocks of its own (and an `Lr32` without records below that), the `Txt2` engine data,
patterns, linked layers and an unknown key, and whose resources are typed.
-/
import PsdVerif.Lemmas.Payload3Samples
import PsdVerif.Lemmas.TypedDoc

namespace PsdVerif.Typed.Samples
open PsdVerif PsdVerif.Codec PsdVerif.Psd PsdVerif.Payload PsdVerif.Payload3 PsdVerif.Psd.Samples

def rtb : Descriptor.Tables := Descriptor.realTables

def kFXid : B := [70, 88, 105, 100]      -- "FXid"
def kPatt : B := [80, 97, 116, 116]      -- "Patt"
def kTxt2 : B := [84, 120, 116, 50]      -- "Txt2"
def kTySh : B := [84, 121, 83, 104]      -- "TySh"
def kBrit : B := [98, 114, 105, 116]      -- "brit"
def kLevl : B := [108, 101, 118, 108]      -- "levl"
def kLnk2 : B := [108, 110, 107, 50]      -- "lnk2"
def kLrfx : B := [108, 114, 70, 88]      -- "lrFX"
def kLsct : B := [108, 115, 99, 116]      -- "lsct"
def kLuni : B := [108, 117, 110, 105]      -- "luni"
def kLyid : B := [108, 121, 105, 100]      -- "lyid"
def kVmsk : B := [118, 109, 115, 107]      -- "vmsk"
def kZzzz : B := [122, 122, 122, 122]      -- "zzzz"

/-- a string ending in a backslash, a dictionary-first list with an integer and a decimal, a nested dictionary -/
def tree : Tree :=
  [([0x61], .sc (.str [0x61, 0x5C])),
   ([0x62, 0x5F, 0x31], .list [.dict [([0x63], .sc (.int (-12)))], .sc (.int 3), .sc (.flt ⟨true, 5, 1⟩)]),
   ([0x5A], .dict [([0x73], .sc (.str [0x28, 0x5C5C, 0x29, 0x1F600])), ([0x7A], .sc (.bool true))])]

def engineItem (b : B) : Descriptor.Key × Descriptor.DVal := (⟨engineKey, false⟩, .raw .rawData b)

def typeToolBase (b : B) : TypeToolObjectSetting :=
  { Payload.Samples.typeTool with
    textData := { Payload.Samples.typeTool.textData with items := Payload.Samples.typeTool.textData.items ++ [engineItem b] } }

/-- `TySh` whose engine data is an `EngineData` object -/
def typeTool : TypeToolTyped := ⟨typeToolBase [], some tree⟩
/-- `TySh` whose engine data the parser rejects (an unknown token): the bytes stay -/
def typeToolBytes : TypeToolTyped := ⟨typeToolBase [0x7A, 0x7A, 0x20, 0x29, 0x28], none⟩
/-- (iii) bytes that parse under the engine-data key -/
def typeToolParsable : TypeToolTyped := ⟨typeToolBase [0x2F, 0x61, 0x20, 0x31], none⟩

section
variable {P : Type}

def blk (key : B) (c : TClass) (v : c.Val) : Blk (Pay P) := ⟨s8BIM, key, .cls c v⟩

def textRecord : Rec (Pay P) :=
  ⟨⟨0, 0, 4, 4, [⟨0, 6⟩, ⟨-1, 3⟩], s8BIM, kNorm, 128, 0, flagsDefault, some maskWithParameters, rangesDefault, [84], []⟩,
   [blk kLuni .stringElement [0x54, 0x1F600],
    blk kTySh .typeToolObjectSetting typeTool,
    blk kLsct .sectionDividerSetting Payload.Samples.dividerSub,
    blk kLevl .levels Payload3.Samples.levels31,
    blk kVmsk .vectorMaskSetting Payload3.Samples.vectorMask,
    blk kLrfx .effectsLayer Payload.Samples.effects,
    ⟨s8BIM, kZzzz, .raw [1, 2, 3]⟩]⟩

def fxRecord : Rec (Pay P) :=
  ⟨⟨1, 1, 2, 2, [⟨0, 3⟩], s8BIM, kNorm, 255, 0, flagsDefault, none, rangesDefault, [], []⟩,
   [⟨s8B64, kFXid, .cls .filterEffects Payload3.Samples.effects⟩, blk kLyid .integerElement (7 : Nat),
    blk kBrit .brightnessContrast (Payload3.Samples.ri [10, 20, 127, 0])]⟩

end

/-- the innermost level: an `Lr32` payload whose record has no blocks -/
def innermost : Info (Below 0) :=
  ⟨1, some [⟨⟨0, 0, 0, 0, [⟨0, 2⟩], s8BIM, kNorm, 255, 0, flagsDefault, none, rangesDefault, [], []⟩, []⟩], some [[⟨0, [7, 7]⟩]]⟩

/-- the records of the document-level `Lr16`: typed blocks, one of them an `Lr32` again -/
def nested : Info (Below 1) :=
  ⟨-2, some [fxRecord, ⟨⟨0, 0, 1, 1, [⟨0, 77⟩], s8BIM, kNorm, 255, 1, flagsDefault, none, rangesDefault, [78], []⟩,
      [blk kLyid .integerElement (9 : Nat), ⟨s8BIM, Payload.Samples.kLr32, .info innermost⟩]⟩],
   some [[⟨1, [5]⟩], [⟨0, [1, 2, 3]⟩]]⟩

/-- an `Lr16` payload with one record that has one typed block -/
def smallNested : Info (Below 1) :=
  ⟨1, some [⟨⟨0, 0, 1, 1, [⟨0, 4⟩], s8BIM, kNorm, 255, 0, flagsDefault, none, rangesDefault, [78], []⟩,
      [blk kLyid .integerElement (9 : Nat)]⟩], some [[⟨0, [1, 2]⟩]]⟩

def doc : TPSDN 1 :=
  { header := ⟨s8BPS, 2, 3, 4, 4, 16, 3⟩
    colorModeData := []
    resources := Payload3.Samples.typedResources
    layerAndMask :=
      { layerInfo := some ⟨2, some [textRecord, fxRecord], some [[⟨0, [1, 2, 3, 4]⟩, ⟨1, [5]⟩], [⟨0, [9]⟩]]⟩
        globalMask := some ⟨some [0, 65535, 0, 0, 0], 50, 128⟩
        taggedBlocks := some [⟨s8BIM, Payload.Samples.kLr16, .info nested⟩,
          blk kTxt2 .engineData2 tree,
          blk kPatt .patterns Payload.Samples.patterns,
          ⟨s8B64, kLnk2, .cls .linkedLayers Payload.Samples.linkedAll⟩,
          ⟨s8BIM, kZzzz, .raw [9, 9, 9]⟩] }
    imageData := ⟨0, [1, 2, 3, 4, 5, 6]⟩ }

/-- raw bytes under a registered key / a payload of another class than the key's -/
def rawUnderRegisteredKey : Blk (PayN 0) := ⟨s8BIM, kLyid, .raw [0, 0, 0, 1]⟩
def classUnderOtherKey : Blk (PayN 0) := ⟨s8BIM, kLsct, .cls .integerElement (7 : Nat)⟩
/-- an `Lr16` below the last level the reader has -/
def tooDeep : Blk (PayN 0) := ⟨s8BIM, Payload.Samples.kLr16, .info innermost⟩

end PsdVerif.Typed.Samples
