/-
C06 — concrete byte strings for the non-vacuity examples of `Props/C06.lean`.
-/
import PsdVerif.Model.Psd

namespace PsdVerif.Safe
open PsdVerif PsdVerif.Codec PsdVerif.Psd

/-- `8BPS`, version 1, 1 channel, 1 × 1, depth 8, RGB -/
def headerBytes : B :=
  [0x38, 0x42, 0x50, 0x53, 0, 1, 0, 0, 0, 0, 0, 0, 0, 1, 0, 0, 0, 1, 0, 0, 0, 1, 0, 8, 0, 3]

def headerVal : Header := ⟨[0x38, 0x42, 0x50, 0x53], 1, 1, 1, 1, 8, 3⟩

/-- a minimal valid file: header, three empty sections, raw image data of one byte (41 bytes) -/
def minimalPsd : B :=
  headerBytes ++ [0, 0, 0, 0] ++ [0, 0, 0, 0] ++ [0, 0, 0, 0] ++ [0, 0, 7]

def minimalVal : PSD := ⟨headerVal, [], [], ⟨none, none, none⟩, ⟨0, [7]⟩⟩

/-- the same with a layer-and-mask section that declares 5 bytes and holds 4 (an empty layer info) -/
def overrunPsd : B :=
  headerBytes ++ [0, 0, 0, 0] ++ [0, 0, 0, 0] ++ [0, 0, 0, 5, 0, 0, 0, 0]

/-- a header with version 3 -/
def badVersionPsd : B :=
  [0x38, 0x42, 0x50, 0x53, 0, 3, 0, 0, 0, 0, 0, 0, 0, 1, 0, 0, 0, 1, 0, 0, 0, 1, 0, 8, 0, 3] ++
  [0, 0, 0, 0] ++ [0, 0, 0, 0] ++ [0, 0, 0, 0] ++ [0, 0, 7]

/-- an image-resource block whose pascal string declares 9 bytes and holds 1: `AssertionError` -/
def shortPascalPsd : B :=
  headerBytes ++ [0, 0, 0, 0] ++ [0, 0, 0, 8, 0x38, 0x42, 0x49, 0x4d, 0, 1, 9, 0] ++ [0, 0, 0, 0] ++ [0, 0, 7]

/-- a PSB whose layer-and-mask section declares `2^63` bytes (an empty layer info, an empty global mask
inside): `fp.seek(end_pos)` raises `OverflowError` -/
def overflowPsd : B :=
  [0x38, 0x42, 0x50, 0x53, 0, 2, 0, 0, 0, 0, 0, 0, 0, 1, 0, 0, 0, 1, 0, 0, 0, 1, 0, 8, 0, 3] ++
  [0, 0, 0, 0] ++ [0, 0, 0, 0] ++ [0x80, 0, 0, 0, 0, 0, 0, 0] ++ [0, 0, 0, 0, 0, 0, 0, 0] ++ [0, 0, 0, 0]

/-- a layer record without channels: rectangle, `8BIM` `norm`, opacity 255, an extra block of 12 bytes
(empty mask, empty blending ranges, empty name) — 46 bytes -/
def recordBytes : B :=
  [0, 0, 0, 0, 0, 0, 0, 0, 0, 0, 0, 0, 0, 0, 0, 0] ++ [0, 0] ++ [0x38, 0x42, 0x49, 0x4d] ++ [0x6e, 0x6f, 0x72, 0x6d] ++
  [255, 0, 0] ++ [0, 0, 0, 0, 12] ++ [0, 0, 0, 0] ++ [0, 0, 0, 0] ++ [0, 0, 0, 0]

end PsdVerif.Safe
