/-
C06 — the `Lr16` / `Lr32` recursion, and the bound for the whole typed reader.

`plOf h D` with `D` nesting levels left costs, on a block of `L` bytes,

    (ab + (13 + q) · min D (L / 12 + 1)) · L + max bb 113

(`ab`, `bb`: the registered payload classes; `q`: twelve header bytes pay for `max bb 113`): every nesting level copies
the block once more (`io.BytesIO(data)` in `frombytes`, the extra data of the layer record), so the coefficient grows by
the CONSTANT `13 + q` per level, and a level needs at least twelve bytes of its enclosing block, so at most `L / 12 + 1`
levels exist — quadratic in `L` when the recursion limit `D` is ignored, linear with it.
-/
import PsdVerif.Lemmas.OpenCost2

namespace PsdVerif.OpenCost
open PsdVerif PsdVerif.Codec PsdVerif.Psd PsdVerif.PsdCost PsdVerif.PayloadCost PsdVerif.Safe PsdVerif.SafeCost

/-- the registered payload classes cost at most `ab · len + bb` (tagged blocks), `(ar + sq · len) · len + br` (resources:
`Slices` re-reads the rest of its block once per slice — the speculative descriptor read of `SliceV6.read` — and is
only quadratic: `sq`) -/
def Hooks.Bound (h : Hooks) (ab bb ar br sq : Nat) : Prop :=
  (∀ v key f data, h.blk v key = some f → (f data).2.w ≤ ab * data.length + bb) ∧
  (∀ key f data, h.res key = some f → (f data).2.w ≤ (ar + sq * data.length) * data.length + br)

theorem runOpt_w {o : Option (B → CE Unit)} {a b : Nat} (ho : ∀ f data, o = some f → (f data).2.w ≤ a * data.length + b)
    (data : B) : (runOpt o data).2.w ≤ a * data.length + b := by
  unfold runOpt
  cases o with
  | none => show (0 : Nat) ≤ _; omega
  | some f => exact ho f data rfl

theorem coef_mono {ab c m₁ m₂ L bp : Nat} (h : m₁ ≤ m₂) : (ab + c * m₁) * L + bp ≤ (ab + c * m₂) * L + bp :=
  Nat.add_le_add_right (Nat.mul_le_mul_right _ (Nat.add_le_add_left (Nat.mul_le_mul_left _ h) _)) _

theorem plOf_cost {h : Hooks} {ab bb ar br sq q : Nat} (hh : h.Ok) (hbnd : h.Bound ab bb ar br sq)
    (hq : max bb 113 ≤ 12 * q) (D : Nat) (v : Nat) (key data : B) :
    (plOf h D v key data).2.w ≤ (ab + (13 + q) * min D (data.length / 12 + 1)) * data.length + max bb 113 := by
  induction D generalizing v key data with
  | zero =>
    unfold plOf
    split
    · show (0 : Nat) ≤ _; omega
    · have := runOpt_w (fun f data hf => hbnd.1 v key f data hf) data
      have e : (ab + (13 + q) * min 0 (data.length / 12 + 1)) * data.length = ab * data.length := by
        rw [Nat.zero_min, Nat.mul_zero, Nat.add_zero]
      omega
  | succ D ih =>
    unfold plOf
    split
    · -- the nested layer info: one more copy, then the body reader with `D` levels left
      let M := min D (data.length / 12)
      have hb : HB (plOf h D) (ab + (13 + q) * M) (max bb 113) data.length := by
        intro v' key' data' hd
        refine Nat.le_trans (ih v' key' data') (coef_mono ?_)
        have : data'.length / 12 + 1 ≤ data.length / 12 := by
          have h1 : (data'.length + 12) / 12 ≤ data.length / 12 := Nat.div_le_div_right hd
          have h2 : (data'.length + 12) / 12 = data'.length / 12 + 1 := Nat.add_div_right _ (by decide)
          omega
        show min D (data'.length / 12 + 1) ≤ min D (data.length / 12)
        omega
      have hbody := (layerInfoBodyT_pays (plOf_ok hh D) v data 0 hb hq).w_le
      have e1 : min (D + 1) (data.length / 12 + 1) = M + 1 := by show _ = min D (data.length / 12) + 1; omega
      have e2 : ab + (13 + q) * (M + 1) = (12 + (ab + (13 + q) * M) + q) + 1 := by rw [Nat.mul_succ]; omega
      rw [e1, e2, Nat.add_mul, Nat.one_mul]
      rw [bind_ok' (enterBlock_fst data)]
      dsimp only
      cases h1 : (LayerInfo.bodyDecT (plOf h D) v data 0).1 with
      | error e =>
        rw [bind_err' h1]
        show ((enterBlock data).2 + (LayerInfo.bodyDecT (plOf h D) v data 0).2).w ≤ _
        rw [w_add, enterBlock_w]
        omega
      | ok x =>
        rw [bind_ok' h1]
        show ((enterBlock data).2 + ((LayerInfo.bodyDecT (plOf h D) v data 0).2 + (CE.ok () : CE Unit).2)).w ≤ _
        rw [w_add, w_add, enterBlock_w, ok_w]
        omega
    · have := runOpt_w (fun f data hf => hbnd.1 v key f data hf) data
      have : ab * data.length ≤ (ab + (13 + q) * min (D + 1) (data.length / 12 + 1)) * data.length :=
        Nat.mul_le_mul_right _ (Nat.le_add_right _ _)
      omega

/-- the payload hook of the whole file: blocks sit behind a 12-byte header, so at most `n / 12` levels -/
theorem plOf_HB {h : Hooks} {ab bb ar br sq q : Nat} (hh : h.Ok) (hbnd : h.Bound ab bb ar br sq)
    (hq : max bb 113 ≤ 12 * q) (D N : Nat) : HB (plOf h D) (ab + (13 + q) * min D (N / 12)) (max bb 113) N := by
  intro v key data hd
  refine Nat.le_trans (plOf_cost hh hbnd hq D v key data) (coef_mono ?_)
  have h1 : (data.length + 12) / 12 ≤ N / 12 := Nat.div_le_div_right hd
  have h2 : (data.length + 12) / 12 = data.length / 12 + 1 := Nat.add_div_right _ (by decide)
  omega

theorem rsOf_HR {h : Hooks} {ab bb ar br sq : Nat} (hbnd : h.Bound ab bb ar br sq) (N : Nat) :
    HR (rsOf h) (ar + sq * N) br N := by
  intro key data hd
  unfold rsOf runOpt
  cases ho : h.res key with
  | none => show (0 : Nat) ≤ _; omega
  | some f =>
    have h1 := hbnd.2 key f data ho
    have : (ar + sq * data.length) * data.length ≤ (ar + sq * N) * data.length :=
      Nat.mul_le_mul_right _ (Nat.add_le_add_left (Nat.mul_le_mul_left _ hd) _)
    show (f data).2.w ≤ _
    omega

/-- ticks + bytes of `PSDImage.open` on the model, for EVERY byte string `b` and EVERY outcome, with at most `D`
nested layer-info blocks before `RecursionError` -/
theorem open_cost {h : Hooks} {ab bb ar br sq q j : Nat} (hh : h.Ok) (hbnd : h.Bound ab bb ar br sq)
    (hq : max bb 113 ≤ 12 * q) (hj : 15 + br ≤ j * 11) (D : Nat) (b : B) :
    (open_ h D b).2.w ≤
      (13 + ab + q + ar + j + sq * b.length + (13 + q) * min D (b.length / 12)) * b.length + (224 + br) := by
  have := psdT_spend (pl := plOf h D) (rs := rsOf h) b (plOf_ok hh D) (rsOf_ok hh) (plOf_HB hh hbnd hq D b.length) hq
    (rsOf_HR hbnd b.length) hj
  have e : 13 + (ab + (13 + q) * min D (b.length / 12)) + q + (ar + sq * b.length) + j =
      13 + ab + q + ar + j + sq * b.length + (13 + q) * min D (b.length / 12) := by omega
  rw [e] at this
  exact this

/-- without the recursion limit: at most quadratic -/
theorem open_cost_quadratic {h : Hooks} {ab bb ar br sq q j : Nat} (hh : h.Ok) (hbnd : h.Bound ab bb ar br sq)
    (hq : max bb 113 ≤ 12 * q) (hj : 15 + br ≤ j * 11) (D : Nat) (b : B) :
    (open_ h D b).2.w ≤ (13 + q + sq) * b.length * b.length + (13 + ab + q + ar + j) * b.length + (224 + br) := by
  have h1 := open_cost hh hbnd hq hj D b
  have h2 : (13 + q) * min D (b.length / 12) ≤ (13 + q) * b.length :=
    Nat.mul_le_mul_left _ (Nat.le_trans (Nat.min_le_right _ _) (Nat.div_le_self _ _))
  have h3 : (13 + ab + q + ar + j + sq * b.length + (13 + q) * min D (b.length / 12)) * b.length ≤
      (13 + ab + q + ar + j + (13 + q + sq) * b.length) * b.length := by
    refine Nat.mul_le_mul_right _ ?_
    have e : (13 + q + sq) * b.length = (13 + q) * b.length + sq * b.length := Nat.add_mul ..
    omega
  have e := Nat.add_mul (13 + ab + q + ar + j) ((13 + q + sq) * b.length) b.length
  rw [e] at h3
  omega

/-- with the recursion limit: the nesting contributes a constant per level; what stays quadratic is `sq` (`Slices`) -/
theorem open_cost_limit {h : Hooks} {ab bb ar br sq q j : Nat} (hh : h.Ok) (hbnd : h.Bound ab bb ar br sq)
    (hq : max bb 113 ≤ 12 * q) (hj : 15 + br ≤ j * 11) (D : Nat) (b : B) :
    (open_ h D b).2.w ≤ (13 + ab + q + ar + j + sq * b.length + (13 + q) * D) * b.length + (224 + br) := by
  have h1 := open_cost hh hbnd hq hj D b
  have h3 : (13 + ab + q + ar + j + sq * b.length + (13 + q) * min D (b.length / 12)) * b.length ≤
      (13 + ab + q + ar + j + sq * b.length + (13 + q) * D) * b.length :=
    Nat.mul_le_mul_right _ (Nat.add_le_add_left (Nat.mul_le_mul_left _ (Nat.min_le_left _ _)) _)
  omega

end PsdVerif.OpenCost
