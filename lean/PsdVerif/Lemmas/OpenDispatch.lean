/-
C06 — every runner of Model/OpenDispatch.lean is bounded: `(a + 1) · len + (b + 1)` from the `Cost` judgement of its
class (`runCC_bound`), uniformly `1867 · len + 1853` for the classes of `tagged_blocks.TYPES` and
`(62 + 4 · len) · len + 63` for those of `image_resources.TYPES` (`Slices` is the quadratic one), and none reports
`Err.other`. Hence `mkHooks` satisfies `Hooks.Ok` and `Hooks.Bound`.
-/
import PsdVerif.Model.OpenDispatch
import PsdVerif.Lemmas.OpenCost3
import PsdVerif.Lemmas.PayloadCostResources
import PsdVerif.Lemmas.PayloadCostPatterns
import PsdVerif.Lemmas.PayloadCostAdjust
import PsdVerif.Lemmas.PayloadCostFilter
import PsdVerif.Lemmas.PayloadCostVector
import PsdVerif.Lemmas.PayloadCostDesc

namespace PsdVerif.OpenCost
open PsdVerif PsdVerif.Codec PsdVerif.PsdCost PsdVerif.PayloadCost PsdVerif.Safe PsdVerif.SafeCost

/-- linear runner -/
def RB (a b : Nat) (f : B → CE Unit) : Prop := ∀ data, (f data).2.w ≤ a * data.length + b ∧ (f data).1 ≠ .error .other

/-- runner that may be quadratic -/
def RQ (ar br sq : Nat) (f : B → CE Unit) : Prop :=
  ∀ data, (f data).2.w ≤ (ar + sq * data.length) * data.length + br ∧ (f data).1 ≠ .error .other

theorem RB.mono {a b a' b' : Nat} {f : B → CE Unit} (h : RB a' b' f) (ha : a' ≤ a) (hb : b' ≤ b) : RB a b f := by
  intro data
  have h1 := h data
  have : a' * data.length ≤ a * data.length := Nat.mul_le_mul_right _ ha
  exact ⟨by omega, h1.2⟩

theorem RB.toRQ {a b sq : Nat} {f : B → CE Unit} (h : RB a b f) : RQ a b sq f := by
  intro data
  have h1 := h data
  have : a * data.length ≤ (a + sq * data.length) * data.length := Nat.mul_le_mul_right _ (Nat.le_add_right _ _)
  exact ⟨by omega, h1.2⟩

theorem RQ.mono {ar br sq ar' br' : Nat} {f : B → CE Unit} (h : RQ ar' br' sq f) (ha : ar' ≤ ar) (hb : br' ≤ br) : RQ ar br sq f := by
  intro data
  have h1 := h data
  have : (ar' + sq * data.length) * data.length ≤ (ar + sq * data.length) * data.length :=
    Nat.mul_le_mul_right _ (by omega)
  exact ⟨by omega, h1.2⟩

/-- `X.frombytes(data)` from the `Cost` judgement of `X` -/
theorem runD_bound {α : Type} {decC : RC α} {a b k : Nat} (hc : CostR a b k decC) : RB (a + 1) (b + 1) (runD decC) := by
  intro data
  have h := hc data 0 (Nat.zero_le _)
  have hw := h.w_le
  simp only [Nat.sub_zero] at hw
  unfold runD
  rw [bind_ok' (enterBlock_fst data)]
  dsimp only
  have e : (a + 1) * data.length = a * data.length + data.length := by rw [Nat.add_mul, Nat.one_mul]
  cases h1 : (decC data 0).1 with
  | error e1 =>
    rw [bind_err' h1]
    refine ⟨?_, fun he => (h.of_error h1).1 (by cases he; rfl)⟩
    show ((enterBlock data).2 + (decC data 0).2).w ≤ _
    rw [w_add, enterBlock_w]
    omega
  | ok y =>
    rw [bind_ok' h1]
    refine ⟨?_, fun he => by cases he⟩
    show ((enterBlock data).2 + ((decC data 0).2 + (CE.ok () : CE Unit).2)).w ≤ _
    rw [w_add, w_add, enterBlock_w, ok_w]
    omega

theorem runCC_bound {α : Type} {x : CC α} (hs : x.Sound) (hp : x.sh.bodyProgress = true) :
    RB (x.sh.a + 1) (x.sh.b + 1) (runCC x) := runD_bound (hs hp).2

/-! ### association lists of runners -/

def AllR (P : (B → CE Unit) → Prop) : Runners → Prop
  | [] => True
  | e :: es => P e.2 ∧ AllR P es

theorem AllR.lookup {P : (B → CE Unit) → Prop} {l : Runners} (h : AllR P l) {n : String} {f : B → CE Unit}
    (hf : List.lookup n l = some f) : P f := by
  induction l with
  | nil => cases hf
  | cons e es ih =>
    obtain ⟨m, g⟩ := e
    unfold List.lookup at hf
    split at hf
    · cases hf; exact h.1
    · exact ih h.2 hf

section
variable (tb : Descriptor.Tables) {engine tysh : B → CE Unit}

/-- the cost of every class of `tagged_blocks.TYPES`, uniformly -/
theorem blockRunners_bound (he : RB 1867 1853 engine) (ht : RB 1867 1853 tysh) :
    AllR (RB 1867 1853) (blockRunners tb engine tysh) := by
  unfold blockRunners
  refine ⟨(runCC_bound Annotations.cc_sound rfl).mono (by decide) (by decide),
    (runCC_bound BrightnessContrast.cc_sound rfl).mono (by decide) (by decide),
    (runCC_bound ByteElement.cc_sound rfl).mono (by decide) (by decide),
    (runCC_bound BytesElement.cc_sound rfl).mono (by decide) (by decide),
    (runCC_bound ChannelBlendingRestrictionsSetting.cc_sound rfl).mono (by decide) (by decide),
    (runCC_bound ChannelMixer.cc_sound rfl).mono (by decide) (by decide),
    (runCC_bound ColorBalance.cc_sound rfl).mono (by decide) (by decide),
    (runCC_bound (ColorLookup.cc_sound tb 4) rfl).mono (Nat.le_of_ble_eq_true rfl) (Nat.le_of_ble_eq_true rfl),
    (runCC_bound Curves.cc_sound rfl).mono (by decide) (by decide),
    (runCC_bound (DescriptorPayload.cc_sound tb 4) rfl).mono (Nat.le_of_ble_eq_true rfl) (Nat.le_of_ble_eq_true rfl),
    (runCC_bound (Descriptor2Payload.cc_sound tb 4) rfl).mono (Nat.le_of_ble_eq_true rfl) (Nat.le_of_ble_eq_true rfl),
    (runCC_bound EffectsLayer.cc_sound rfl).mono (by decide) (by decide),
    (runCC_bound EmptyElement.cc_sound rfl).mono (by decide) (by decide),
    he,
    (runCC_bound (Exposure.cc_sound 4) rfl).mono (by decide) (by decide),
    (runCC_bound FilterEffects.cc_sound rfl).mono (by decide) (by decide),
    (runCC_bound FilterMask.cc_sound rfl).mono (by decide) (by decide),
    (runCC_bound GradientMap.cc_sound rfl).mono (by decide) (by decide),
    (runCC_bound HueSaturation.cc_sound rfl).mono (by decide) (by decide),
    (runCC_bound IntegerElement.cc_sound rfl).mono (by decide) (by decide),
    (runCC_bound Levels.cc_sound rfl).mono (by decide) (by decide),
    (runCC_bound (LinkedLayers.cc_sound tb) rfl).mono (Nat.le_of_ble_eq_true rfl) (Nat.le_of_ble_eq_true rfl),
    (runCC_bound (MetadataSettings.cc_sound tb) rfl).mono (Nat.le_of_ble_eq_true rfl) (Nat.le_of_ble_eq_true rfl),
    (runCC_bound Patterns.cc_sound rfl).mono (by decide) (by decide),
    (runCC_bound PhotoFilter.cc_sound rfl).mono (by decide) (by decide),
    (runCC_bound (PixelSourceData2.cc_sound 4) rfl).mono (by decide) (by decide),
    (runCC_bound (PlacedLayerData.cc_sound tb 4) rfl).mono (Nat.le_of_ble_eq_true rfl) (Nat.le_of_ble_eq_true rfl),
    (runCC_bound IntegerElement.cc_sound rfl).mono (by decide) (by decide),
    (runCC_bound ReferencePoint.cc_sound rfl).mono (by decide) (by decide),
    (runCC_bound SectionDividerSetting.cc_sound rfl).mono (by decide) (by decide),
    (runCC_bound SelectiveColor.cc_sound rfl).mono (by decide) (by decide),
    (runCC_bound SheetColorSetting.cc_sound rfl).mono (by decide) (by decide),
    (runCC_bound ShortIntegerElement.cc_sound rfl).mono (by decide) (by decide),
    (runCC_bound (SmartObjectLayerData.cc_sound tb 4) rfl).mono (Nat.le_of_ble_eq_true rfl) (Nat.le_of_ble_eq_true rfl),
    (runCC_bound (StringElement.cc_sound 4 1 (by decide)) rfl).mono (by decide) (by decide),
    ht,
    (runCC_bound UserMask.cc_sound rfl).mono (by decide) (by decide),
    (runCC_bound VectorMaskSetting.cc_sound rfl).mono (by decide) (by decide),
    (runCC_bound (VectorStrokeContentSetting.cc_sound tb 4) rfl).mono (Nat.le_of_ble_eq_true rfl) (Nat.le_of_ble_eq_true rfl),
    trivial⟩

/-- `Slices.frombytes(data)`: quadratic -/
theorem slices_runner (tb : Descriptor.Tables) : RQ 58 54 4 (runD (Slices.decC tb)) := by
  intro data
  have h := Slices.decC_left tb data 0 (Nat.zero_le _)
  simp only [Nat.sub_zero] at h
  unfold runD
  rw [bind_ok' (enterBlock_fst data)]
  dsimp only
  have e : (58 + 4 * data.length) * data.length + 54 =
      (1 + data.length) + (data.length + 1) * (4 * data.length + 53) := by
    rw [Nat.add_mul, Nat.add_mul, Nat.mul_add, Nat.mul_add]
    have : 4 * data.length * data.length = data.length * (4 * data.length) := Nat.mul_comm ..
    omega
  rw [e]
  cases h1 : (Slices.decC tb data 0).1 with
  | error e1 =>
    rw [bind_err' h1]
    refine ⟨?_, fun he => h.2 (by rw [h1]; cases he; rfl)⟩
    show ((enterBlock data).2 + (Slices.decC tb data 0).2).w ≤ _
    rw [w_add, enterBlock_w]
    omega
  | ok y =>
    rw [bind_ok' h1]
    refine ⟨?_, fun he => by cases he⟩
    show ((enterBlock data).2 + ((Slices.decC tb data 0).2 + (CE.ok () : CE Unit).2)).w ≤ _
    rw [w_add, w_add, enterBlock_w, ok_w]
    omega

theorem resourceRunners_bound : AllR (RQ 62 63 4) (resourceRunners tb) := by
  unfold resourceRunners
  refine ⟨((runCC_bound AlphaIdentifiers.cc_sound rfl).mono (by decide) (by decide)).toRQ,
    ((runCC_bound AlphaNamesPascal.cc_sound rfl).mono (by decide) (by decide)).toRQ,
    ((runCC_bound AlphaNamesUnicode.cc_sound rfl).mono (by decide) (by decide)).toRQ,
    ((runCC_bound ResByte.cc_sound rfl).mono (by decide) (by decide)).toRQ,
    ((runCC_bound Color.cc_sound rfl).mono (by decide) (by decide)).toRQ,
    ((runCC_bound (DescriptorResource.cc_sound tb) rfl).mono (Nat.le_of_ble_eq_true rfl) (Nat.le_of_ble_eq_true rfl)).toRQ,
    ((runCC_bound DisplayInfo.cc_sound rfl).mono (by decide) (by decide)).toRQ,
    ((runCC_bound GridGuidesInfo.cc_sound rfl).mono (by decide) (by decide)).toRQ,
    ((runCC_bound HalftoneScreens.cc_sound rfl).mono (by decide) (by decide)).toRQ,
    ((runCC_bound ResInteger.cc_sound rfl).mono (by decide) (by decide)).toRQ,
    ((runCC_bound LayerGroupEnabledIDs.cc_sound rfl).mono (by decide) (by decide)).toRQ,
    ((runCC_bound LayerGroupInfo.cc_sound rfl).mono (by decide) (by decide)).toRQ,
    ((runCC_bound LayerSelectionIDs.cc_sound rfl).mono (by decide) (by decide)).toRQ,
    ((runCC_bound PascalString.cc_sound rfl).mono (by decide) (by decide)).toRQ,
    ((runCC_bound PixelAspectRatio.cc_sound rfl).mono (by decide) (by decide)).toRQ,
    ((runCC_bound PrintFlags.cc_sound rfl).mono (by decide) (by decide)).toRQ,
    ((runCC_bound PrintFlagsInfo.cc_sound rfl).mono (by decide) (by decide)).toRQ,
    ((runCC_bound PrintScale.cc_sound rfl).mono (by decide) (by decide)).toRQ,
    ((runCC_bound ResolutionInfo.cc_sound rfl).mono (by decide) (by decide)).toRQ,
    ((runCC_bound ResShortInteger.cc_sound rfl).mono (by decide) (by decide)).toRQ,
    (slices_runner tb).mono (by decide) (by decide),
    ((runCC_bound (StringElement.cc_sound 1 1 (by decide)) rfl).mono (by decide) (by decide)).toRQ,
    ((runCC_bound Thumbnail.cc_sound rfl).mono (by decide) (by decide)).toRQ,
    ((runCC_bound Thumbnail.cc_sound rfl).mono (by decide) (by decide)).toRQ,
    ((runCC_bound TransferFunctions.cc_sound rfl).mono (by decide) (by decide)).toRQ,
    ((runCC_bound URLList.cc_sound rfl).mono (by decide) (by decide)).toRQ,
    ((runCC_bound VersionInfo.cc_sound rfl).mono (by decide) (by decide)).toRQ,
    trivial⟩

theorem mkHooks_ok (he : RB 1867 1853 engine) (ht : RB 1867 1853 tysh) : (mkHooks tb engine tysh).Ok := by
  constructor
  · intro v key f data hf
    unfold mkHooks at hf
    dsimp only at hf
    cases hn : List.lookup key Generated.OpenRegistry.taggedTypes with
    | none => rw [hn] at hf; cases hf
    | some n =>
      rw [hn] at hf
      exact ((blockRunners_bound tb he ht).lookup (n := n) hf data).2
  · intro key f data hf
    unfold mkHooks at hf
    dsimp only at hf
    cases hn : List.lookup key Generated.OpenRegistry.resourceTypes with
    | none => rw [hn] at hf; cases hf
    | some n =>
      rw [hn] at hf
      exact ((resourceRunners_bound tb).lookup (n := n) hf data).2

theorem mkHooks_bound (he : RB 1867 1853 engine) (ht : RB 1867 1853 tysh) :
    (mkHooks tb engine tysh).Bound 1867 1853 62 63 4 := by
  constructor
  · intro v key f data hf
    unfold mkHooks at hf
    dsimp only at hf
    cases hn : List.lookup key Generated.OpenRegistry.taggedTypes with
    | none => rw [hn] at hf; cases hf
    | some n =>
      rw [hn] at hf
      exact ((blockRunners_bound tb he ht).lookup (n := n) hf data).1
  · intro key f data hf
    unfold mkHooks at hf
    dsimp only at hf
    cases hn : List.lookup key Generated.OpenRegistry.resourceTypes with
    | none => rw [hn] at hf; cases hf
    | some n =>
      rw [hn] at hf
      exact ((resourceRunners_bound tb).lookup (n := n) hf data).1

end

/-! ### ties: every registered class has a runner -/

def blockRunnerNames : List String := ["Annotations", "BrightnessContrast", "ByteElement", "Bytes",
  "ChannelBlendingRestrictionsSetting", "ChannelMixer", "ColorBalance", "ColorLookup", "Curves", "DescriptorBlock",
  "DescriptorBlock2", "EffectsLayer", "EmptyElement", "EngineData2", "Exposure", "FilterEffects", "FilterMask",
  "GradientMap", "HueSaturation", "IntegerElement", "Levels", "LinkedLayers", "MetadataSettings", "Patterns",
  "PhotoFilter", "PixelSourceData2", "PlacedLayerData", "ProtectedSetting", "ReferencePoint", "SectionDividerSetting",
  "SelectiveColor", "SheetColorSetting", "ShortIntegerElement", "SmartObjectLayerData", "StringElement",
  "TypeToolObjectSetting", "UserMask", "VectorMaskSetting", "VectorStrokeContentSetting"]

def resourceRunnerNames : List String := ["AlphaIdentifiers", "AlphaNamesPascal", "AlphaNamesUnicode", "Byte", "Color",
  "DescriptorBlock", "DisplayInfo", "GridGuidesInfo", "HalftoneScreens", "Integer", "LayerGroupEnabledIDs",
  "LayerGroupInfo", "LayerSelectionIDs", "PascalString", "PixelAspectRatio", "PrintFlags", "PrintFlagsInfo", "PrintScale",
  "ResoulutionInfo", "ShortInteger", "Slices", "StringElement", "ThumbnailResource", "ThumbnailResourceV4",
  "TransferFunctions", "URLList", "VersionInfo"]

theorem blockRunners_names (tb : Descriptor.Tables) (engine tysh : B → CE Unit) :
    (blockRunners tb engine tysh).map (·.1) = blockRunnerNames := rfl

theorem resourceRunners_names (tb : Descriptor.Tables) : (resourceRunners tb).map (·.1) = resourceRunnerNames := rfl

end PsdVerif.OpenCost
