/-
C03 (`lengths_truthful`) — the regions the specification walker reports: layer records, channel image
data, layer info.
-/
import PsdVerif.Lemmas.C03PixelsTrace1

namespace PsdVerif.Walker
open PsdVerif PsdVerif.Codec PsdVerif.Psd

/-! ### layer records -/

/-- a layer record up to its tagged blocks: rectangle, channel infos, blend signature / key / opacity /
clipping / flags / filler, the length of the extra data, mask data, blending ranges, name -/
def recordHeadT (v : Nat) (r : LayerRecord) : B :=
  i32T r.top ++ i32T r.left ++ i32T r.bottom ++ i32T r.right ++ beBytes 2 r.channelInfo.length ++
  listT (ChannelInfo.encT v) r.channelInfo ++ r.fixedT ++ beBytes 1 r.flags.toNat ++ zeros 1 ++
  beBytes 4 (r.extraT v).length ++ maskT r.maskData ++ r.blendingRanges.encT ++ pascalT 4 r.name

/-- a record = head, tagged blocks (padding 1), filler to an even size of the extra data -/
theorem recordT_split (v : Nat) (r : LayerRecord) :
    r.encT v = recordHeadT v r ++ (taggedBlocksT v 1 r.taggedBlocks ++ zeros (padAmount (r.extraUnpaddedT v).length 2)) := by
  simp only [LayerRecord.encT, recordHeadT, lenBlockT, LayerRecord.extraT, LayerRecord.extraUnpaddedT, padAmount_one,
    zeros, List.replicate_zero, List.append_nil, List.append_assoc]

/-- the spans of one layer record at `p`: the record, then its tagged blocks -/
def recordSpans (v : Nat) (p : Nat) (r : LayerRecord) : List Span :=
  ⟨⟨p, (r.encT v).length, "layer-record"⟩, r.encT v⟩ ::
    seqSpans "tagged-block" (TaggedBlock.encT v 1) (p + (recordHeadT v r).length) r.taggedBlocks

theorem recordSpans_hold (v : Nat) (r : LayerRecord) {d : B} {p : Nat} {rest : B} (hat : At d p (r.encT v ++ rest)) :
    ∀ s ∈ recordSpans v p r, s.Holds d := by
  intro s hs
  simp only [recordSpans, List.mem_cons] at hs
  rcases hs with rfl | hs
  · exact ⟨rfl, hat.left⟩
  · rw [recordT_split, List.append_assoc, List.append_assoc] at hat
    exact seqSpans_hold _ _ r.taggedBlocks (by unfold taggedBlocksT at hat; exact hat.right) s hs

theorem walkRecord_full {v : Nat} (hv : v = 1 ∨ v = 2) {r : LayerRecord} (hwf : r.WF v) (hsh : RecordShaped v r)
    {d : B} {p : Nat} {rest : B} (hat : At d p (r.encT v ++ rest)) :
    walkRecord v d p = .ok ((r.channelInfo.map ChannelInfo.length, regionsOf (recordSpans v p r)), p + (r.encT v).length) ∧
      At d (p + (r.encT v).length) rest := by
  have hright := hat.right
  refine ⟨?_, hright⟩
  obtain ⟨hvalid, hfits, _, _, _, ht⟩ := hwf
  obtain ⟨f1, f2, f3, f4, f5, f6, f7, f8, f9, f10, f11, f12, f13⟩ := hfits
  obtain ⟨v1, v2, _, _⟩ := hvalid
  have hl : ∀ s ∈ G.recordSignatures, s.length = 4 ∧ (s == Spec.layerSignature) = true := by decide
  have hb : ∀ s ∈ G.blendModes, s.length = 4 := by decide
  have hs : pack4s r.signature = r.signature := pack4s_of_length (hl _ v1).1
  obtain ⟨mbody, hm, hmf⟩ := maskT_shape r.maskData f9
  have hrg : r.blendingRanges.encT = beBytes 4 r.blendingRanges.bodyT.length ++ r.blendingRanges.bodyT := by
    simp [BlendingRanges.encT, lenBlockT_simple]
  have hrf : r.blendingRanges.bodyT.length < 256 ^ 4 := f10.2.2
  have hlen := LayerRecord.length_encT v r
  rw [length_lenBlockT, padAmount_one] at hlen
  have hk : padAmount ((r.extraUnpaddedT v).length) 2 < 2 := padAmount_lt _ 2 (by decide)
  have hxl : (r.extraT v).length = (r.extraUnpaddedT v).length + padAmount ((r.extraUnpaddedT v).length) 2 := by
    simp only [LayerRecord.extraT, List.length_append, length_zeros]
  have hul : (r.extraUnpaddedT v).length = (4 + mbody.length) + (4 + r.blendingRanges.bodyT.length) +
      (1 + (r.name.length + padAmount (1 + r.name.length) 4)) + (taggedBlocksT v 1 r.taggedBlocks).length := by
    simp only [LayerRecord.extraUnpaddedT, List.length_append, hm, hrg, length_beBytes, length_pascalT]; omega
  have hhead : (recordHeadT v r).length = 16 + 2 + (listT (ChannelInfo.encT v) r.channelInfo).length + 4 + 8 + 4 + 4 +
      mbody.length + 4 + r.blendingRanges.bodyT.length + 1 + (r.name.length + padAmount (1 + r.name.length) 4) := by
    simp only [recordHeadT, LayerRecord.fixedT, List.length_append, length_i32T, length_beBytes, length_pack4s,
      length_zeros, hm, hrg, length_pascalT]
    omega
  -- the byte string, regrouped the way the walker consumes it
  have hbytes : r.encT v ++ rest =
      (i32T r.top ++ i32T r.left ++ i32T r.bottom ++ i32T r.right) ++ (beBytes 2 r.channelInfo.length ++
      (listT (ChannelInfo.encT v) r.channelInfo ++ (r.signature ++
      ((pack4s r.blendMode ++ beBytes 1 r.opacity ++ beBytes 1 r.clipping ++ beBytes 1 r.flags.toNat ++ zeros 1) ++
      (beBytes 4 (r.extraT v).length ++
      (beBytes 4 mbody.length ++ (mbody ++ (beBytes 4 r.blendingRanges.bodyT.length ++ (r.blendingRanges.bodyT ++
      (beBytes 1 r.name.length ++ ((r.name ++ zeros (padAmount (1 + r.name.length) 4)) ++
      (taggedBlocksT v 1 r.taggedBlocks ++ (zeros (padAmount ((r.extraUnpaddedT v).length) 2) ++ rest))))))))))))) := by
    simp only [LayerRecord.encT, LayerRecord.fixedT, lenBlockT, LayerRecord.extraT, LayerRecord.extraUnpaddedT, hm, hrg,
      pascalT, hs, padAmount_one, zeros, List.replicate_zero, List.append_nil, List.append_assoc]
  rw [hbytes] at hat
  obtain ⟨e1, hat⟩ := skip_step (sect := "layer-record") (n := 16) hat (by simp [length_i32T])
  obtain ⟨e2, hat⟩ := wU_step (sect := "layer-record") hat f5
  obtain ⟨e3, hat⟩ := walkChannelInfos_step hv r.channelInfo f6 hat
  obtain ⟨e4, hat⟩ := wBytes_step (sect := "layer-record") hat (hl _ v1).1
  obtain ⟨e5, hat⟩ := skip_step (sect := "layer-record") (n := 8) hat
    (by simp [length_pack4s, length_beBytes, length_zeros])
  obtain ⟨e6, hat⟩ := wU_step (sect := "layer-record") hat f13
  have hb6 := hat.bound
  simp only [List.length_append, length_beBytes, length_zeros] at hb6
  obtain ⟨e8, hat⟩ := wU_step (sect := "layer-mask-data") hat hmf
  obtain ⟨e9, hat⟩ := skip_step (sect := "layer-mask-data") hat rfl
  obtain ⟨e10, hat⟩ := wU_step (sect := "layer-blending-ranges") hat hrf
  obtain ⟨e11, hat⟩ := skip_step (sect := "layer-blending-ranges") hat rfl
  obtain ⟨e12, hat⟩ := wU_step (sect := "layer-name") hat (by simpa using f11)
  obtain ⟨e13, hat⟩ := skip_step (sect := "layer-name") (n := r.name.length + padAmount (1 + r.name.length) 4) hat
    (by simp [length_zeros])
  have hcount : r.taggedBlocks.length < (r.extraT v).length + 1 := by
    have := length_listT_le (TaggedBlock.encT v 1) r.taggedBlocks 1 (fun t _ => by have := t.length_ge v 1; omega)
    unfold taggedBlocksT at hul; omega
  have e14 := walkBlocksLoop_full (sect := "layer-tagged-blocks") (v := v) (align := 1) (even := true) (Or.inl rfl)
    r.taggedBlocks ht.1 (fun t ht' => (hsh t ht').1) (fun _ t ht' => (hsh t ht').2) hat
    (p + 16 + 2 + (listT (ChannelInfo.encT v) r.channelInfo).length + 4 + 8 + 4 + (r.extraT v).length)
    (by omega) (by omega) ((r.extraT v).length + 1) hcount
  have e7 : skip "layer-record" (r.extraT v).length d
      (p + 16 + 2 + (listT (ChannelInfo.encT v) r.channelInfo).length + 4 + 8 + 4) =
      .ok ((), p + 16 + 2 + (listT (ChannelInfo.encT v) r.channelInfo).length + 4 + 8 + 4 + (r.extraT v).length) := by
    unfold skip
    rw [if_pos (by omega)]
  simp only [walkRecord, bind, Except.bind, e1, e2, e3, e4, (hl _ v1).2, e5, e6, e7, e8, e9, e10, e11,
    e12, e13, check_eq, decide_eq_true_eq, if_true]
  have c1 : p + 16 + 2 + (listT (ChannelInfo.encT v) r.channelInfo).length + 4 + 8 + 4 + 4 + mbody.length ≤
      p + 16 + 2 + (listT (ChannelInfo.encT v) r.channelInfo).length + 4 + 8 + 4 + (r.extraT v).length := by omega
  have c2 : p + 16 + 2 + (listT (ChannelInfo.encT v) r.channelInfo).length + 4 + 8 + 4 + 4 + mbody.length + 4 +
      r.blendingRanges.bodyT.length ≤
      p + 16 + 2 + (listT (ChannelInfo.encT v) r.channelInfo).length + 4 + 8 + 4 + (r.extraT v).length := by omega
  have c3 : p + 16 + 2 + (listT (ChannelInfo.encT v) r.channelInfo).length + 4 + 8 + 4 + 4 + mbody.length + 4 +
      r.blendingRanges.bodyT.length + 1 + (r.name.length + padAmount (1 + r.name.length) 4) ≤
      p + 16 + 2 + (listT (ChannelInfo.encT v) r.channelInfo).length + 4 + 8 + 4 + (r.extraT v).length := by omega
  simp only [if_pos c1, if_pos c2, if_pos c3]
  simp only [e14]
  have hq : p + 16 + 2 + (listT (ChannelInfo.encT v) r.channelInfo).length + 4 + 8 + 4 + 4 + mbody.length + 4 +
      r.blendingRanges.bodyT.length + 1 + (r.name.length + padAmount (1 + r.name.length) 4) =
      p + (recordHeadT v r).length := by omega
  have hstop : p + 16 + 2 + (listT (ChannelInfo.encT v) r.channelInfo).length + 4 + 8 + 4 + (r.extraT v).length =
      p + (r.encT v).length := by omega
  rw [hq, hstop, Nat.add_sub_cancel_left]
  rfl

/-- the spans of a list of layer records: record, its tagged blocks, next record, … -/
def recordsSpans (v : Nat) : Nat → List LayerRecord → List Span
  | _, [] => []
  | p, r :: rs => recordSpans v p r ++ recordsSpans v (p + (r.encT v).length) rs

theorem recordsSpans_hold (v : Nat) (rs : List LayerRecord) {d : B} {p : Nat} {rest : B}
    (hat : At d p (listT (LayerRecord.encT v) rs ++ rest)) : ∀ s ∈ recordsSpans v p rs, s.Holds d := by
  induction rs generalizing p with
  | nil => intro s hs; simp [recordsSpans] at hs
  | cons r rs ih =>
    intro s hs
    simp only [listT, List.append_assoc] at hat
    simp only [recordsSpans, List.mem_append] at hs
    rcases hs with hs | hs
    · exact recordSpans_hold v r hat s hs
    · exact ih hat.right s hs

theorem walkRecords_full {v : Nat} (hv : v = 1 ∨ v = 2) (rs : List LayerRecord) (hwf : ∀ r ∈ rs, r.WF v)
    (hsh : ∀ r ∈ rs, RecordShaped v r) {d : B} {p : Nat} {rest : B}
    (hat : At d p (listT (LayerRecord.encT v) rs ++ rest)) :
    walkRecords v rs.length d p =
        .ok ((rs.map (fun r => r.channelInfo.map ChannelInfo.length), regionsOf (recordsSpans v p rs)),
          p + (listT (LayerRecord.encT v) rs).length) ∧
      At d (p + (listT (LayerRecord.encT v) rs).length) rest := by
  induction rs generalizing p with
  | nil => exact ⟨by simp [walkRecords, listT, recordsSpans, regionsOf], by simpa [listT] using hat⟩
  | cons r rs ih =>
    simp only [listT, List.append_assoc] at hat
    obtain ⟨e1, hat⟩ := walkRecord_full hv (hwf r (by simp)) (hsh r (by simp)) hat
    obtain ⟨e2, hat⟩ := ih (fun x hx => hwf x (by simp [hx])) (fun x hx => hsh x (by simp [hx])) hat
    refine ⟨?_, by simpa only [listT, List.length_append, Nat.add_assoc] using hat⟩
    simp only [List.length_cons, walkRecords, e1, e2, List.map_cons, listT, List.length_append, Nat.add_assoc,
      recordsSpans, regionsOf_append]

/-! ### channel image data -/

theorem walkChannels_full (cs : List ChannelData) (hwf : ∀ c ∈ cs, ChannelData.WF c) {d : B} {p : Nat} {rest : B}
    (hat : At d p (listT ChannelData.encT cs ++ rest)) :
    walkChannels (cs.map (fun c => 2 + c.data.length)) d p =
        .ok (regionsOf (seqSpans "channel-data" ChannelData.encT p cs), p + (listT ChannelData.encT cs).length) ∧
      At d (p + (listT ChannelData.encT cs).length) rest := by
  have hc : ∀ x ∈ G.compressions, x < 256 ^ 2 ∧ ¬ x > 3 := by decide
  induction cs generalizing p with
  | nil => exact ⟨by simp [walkChannels, listT, seqSpans, regionsOf], by simpa [listT] using hat⟩
  | cons c cs ih =>
    simp only [listT, ChannelData.encT, List.append_assoc] at hat
    obtain ⟨e1, hat⟩ := wU_step (sect := "channel-image-data") hat (hc _ (hwf c (by simp))).1
    obtain ⟨e2, hat⟩ := skip_step (sect := "channel-image-data") hat rfl
    obtain ⟨e3, hat⟩ := ih (fun x hx => hwf x (by simp [hx])) hat
    have hlt : ¬ (2 + c.data.length < 2) := by omega
    have hsub : 2 + c.data.length - 2 = c.data.length := by omega
    refine ⟨?_, by simpa only [listT, ChannelData.encT, List.length_append, length_beBytes, Nat.add_assoc] using hat⟩
    simp only [Nat.add_assoc] at e3
    simp only [List.map_cons, walkChannels, if_neg hlt, e1, if_neg (hc _ (hwf c (by simp))).2, hsub, e2, e3,
      listT, ChannelData.encT, List.length_append, length_beBytes, seqSpans, regionsOf_cons, Nat.add_assoc]

/-! ### layer info -/

/-- the spans of the layer info section: the section; then (unless it is the empty section written for
`layer_count = 0`) the records of the refreshed object with their tagged blocks, then one span per
stored channel -/
def layerInfoSpans (v pad p : Nat) (li : LayerInfo) : List Span :=
  ⟨⟨p, (li.encT v pad).length, "layer-info"⟩, li.encT v pad⟩ ::
    (if li.layerCount = 0 then [] else
      match li.refresh.records, li.refresh.channels with
      | some rs, some css =>
        recordsSpans v (p + secW v + 2) rs ++
          seqSpans "channel-data" ChannelData.encT (p + secW v + 2 + (listT (LayerRecord.encT v) rs).length) css.flatten
      | _, _ => [])

/-- the body of a non-empty layer info section: count, records, channel data, filler -/
theorem layerInfo_body (v pad : Nat) (n : Int) (R : List LayerRecord) (css : List (List ChannelData)) :
    LayerInfo.bodyT v pad ⟨n, some R, some css⟩ =
      beBytes 2 (i16ToNat n) ++ (listT (LayerRecord.encT v) R ++ (listT ChannelData.encT css.flatten ++
        zeros (padAmount (LayerInfo.bodyUnpaddedT v ⟨n, some R, some css⟩).length pad))) := by
  cases R <;> cases css <;>
    simp only [LayerInfo.bodyT, LayerInfo.bodyUnpaddedT, optListT, List.append_assoc, i16T, flatten_channelImageT,
      listT, List.flatten_nil, List.nil_append, List.append_nil]

theorem layerInfoSpans_hold (v pad : Nat) (li : LayerInfo) {d : B} {p : Nat} {rest : B}
    (hat : At d p (li.encT v pad ++ rest)) : ∀ s ∈ layerInfoSpans v pad p li, s.Holds d := by
  intro s hs
  simp only [layerInfoSpans, List.mem_cons] at hs
  rcases hs with rfl | hs
  · exact ⟨rfl, hat.left⟩
  · by_cases h0 : li.layerCount = 0
    · simp [h0] at hs
    · simp only [h0, if_false] at hs
      unfold LayerInfo.encT at hat
      simp only [h0, if_false] at hat
      cases hrf : li.refresh with
      | mk n rs css =>
        rw [hrf] at hs hat
        cases rs with
        | none => simp at hs
        | some rs =>
          cases css with
          | none => simp at hs
          | some css =>
            simp only [List.mem_append] at hs
            rw [lenBlockT_simple, layerInfo_body] at hat
            simp only [List.append_assoc] at hat
            have hat := hat.right
            rw [length_beBytes] at hat
            have hat := hat.right
            rw [length_beBytes] at hat
            rcases hs with hs | hs
            · exact recordsSpans_hold v rs hat s hs
            · exact seqSpans_hold _ _ css.flatten hat.right s hs

theorem walkLayerInfo_full {v pad : Nat} (hv : v = 1 ∨ v = 2) (hp : pad = 1 ∨ pad = 2 ∨ pad = 4) {li : LayerInfo}
    (hwf : li.WF v pad) (hsh : optRecordsShaped v li.records) {d : B} {p : Nat} {rest : B}
    (hat : At d p (li.encT v pad ++ rest)) :
    walkLayerInfo v d p = .ok (regionsOf (layerInfoSpans v pad p li), p + (li.encT v pad).length) ∧
      At d (p + (li.encT v pad).length) rest := by
  refine ⟨?_, hat.right⟩
  have hat := hat.left
  have hw := secW_pos v
  have hlw := lenW_eq_secW hv
  unfold LayerInfo.WF at hwf
  unfold layerInfoSpans
  unfold LayerInfo.encT at hat ⊢
  by_cases h0 : li.layerCount = 0
  · simp only [h0, if_true] at hwf hat ⊢
    have hpos : (0 : Nat) < 256 ^ secW v := Nat.pow_pos (by decide)
    rw [← hlw] at hat hpos
    obtain ⟨e1, hat'⟩ := wU_step (sect := "layer-info") hat.nil_right hpos
    have e2 : skip "layer-info" 0 d (p + lenW v) = .ok ((), p + lenW v + 0) := by
      have := hat.bound; rw [length_beBytes] at this
      unfold skip; rw [if_pos (by omega)]
    simp only [walkLayerInfo, bind, Except.bind, e1, e2, if_true, length_beBytes, regionsOf, List.map_cons,
      List.map_nil]
    rw [hlw]
  · simp only [h0, if_false] at hwf hat ⊢
    obtain ⟨n, rs, css⟩ := li
    simp only at h0 hwf hat hsh ⊢
    cases rs with
    | none => simp at hwf
    | some rs =>
      cases css with
      | none => simp at hwf
      | some css =>
        simp only at hwf
        obtain ⟨hcount, hshape, hrecs, hch, hfits⟩ := hwf
        have hrs : rs ≠ [] := by
          intro h; subst h; simp at hcount; exact h0 hcount
        obtain ⟨r0, rs0, rfl⟩ := List.exists_cons_of_ne_nil hrs
        cases css with
        | nil => simp [shapesAgree] at hshape
        | cons c0 css0 =>
          have href : (LayerInfo.mk n (some (r0 :: rs0)) (some (c0 :: css0))).refresh =
              ⟨n, some (refreshRecords (r0 :: rs0) (c0 :: css0)), some (c0 :: css0)⟩ := by
            simp [LayerInfo.refresh, h0]
          rw [href] at hat hfits ⊢
          obtain ⟨g1, _, _, g4⟩ := hfits
          simp only at g1 ⊢
          -- refreshed records keep their tagged blocks
          have hshR : ∀ r ∈ refreshRecords (r0 :: rs0) (c0 :: css0), RecordShaped v r := by
            have key : ∀ (rs : List LayerRecord) (css : List (List ChannelData)),
                (∀ r ∈ rs, RecordShaped v r) → ∀ r ∈ refreshRecords rs css, RecordShaped v r := by
              intro rs
              induction rs with
              | nil => intro css _ r hr; cases css <;> simp [refreshRecords] at hr
              | cons r1 rs ih =>
                intro css h r hr
                cases css with
                | nil => exact h r (by simpa [refreshRecords] using hr)
                | cons c css =>
                  simp only [refreshRecords, List.mem_cons] at hr
                  rcases hr with rfl | hr
                  · exact h r1 (by simp)
                  · exact ih css (fun x hx => h x (by simp [hx])) r hr
            exact key _ _ hsh
          have hdecl := declared_lengths (r0 :: rs0) (c0 :: css0) hshape
          generalize hR : refreshRecords (r0 :: rs0) (c0 :: css0) = R at *
          have hRlen : R.length = n.natAbs := by
            rw [← hR, length_refreshRecords]; exact hcount.symm
          have hRne : R ≠ [] := by
            intro h; rw [h] at hRlen; simp at hRlen; omega
          have hpl := padAmount_lt (LayerInfo.bodyUnpaddedT v ⟨n, some R, some (c0 :: css0)⟩).length pad
            (by rcases hp with h | h | h <;> omega)
          have hple : pad ≤ 4 := by rcases hp with h | h | h <;> omega
          have hbody := layerInfo_body v pad n R (c0 :: css0)
          have hul : (LayerInfo.bodyUnpaddedT v ⟨n, some R, some (c0 :: css0)⟩).length =
              2 + (listT (LayerRecord.encT v) R).length + (listT ChannelData.encT (c0 :: css0).flatten).length := by
            obtain ⟨r1, R1, rfl⟩ := List.exists_cons_of_ne_nil hRne
            simp only [LayerInfo.bodyUnpaddedT, optListT, List.length_append, length_i16T, flatten_channelImageT]
          generalize hBody : LayerInfo.bodyT v pad ⟨n, some R, some (c0 :: css0)⟩ = body at *
          have hbl : body.length = 2 + (listT (LayerRecord.encT v) R).length +
              (listT ChannelData.encT (c0 :: css0).flatten).length +
              padAmount (LayerInfo.bodyUnpaddedT v ⟨n, some R, some (c0 :: css0)⟩).length pad := by
            rw [hbody]; simp only [List.length_append, length_beBytes, length_zeros]; omega
          have hne : ¬ body.length = 0 := by omega
          rw [lenBlockT_simple] at hat
          have hat := hat.nil_right
          rw [List.append_assoc] at hat
          rw [← hlw] at hat g4
          have hb0 := hat.bound
          simp only [List.length_append, length_beBytes, List.length_nil] at hb0
          obtain ⟨e1, hat⟩ := wU_step (sect := "layer-info") hat g4
          have e2 : skip "layer-info" body.length d (p + lenW v) = .ok ((), p + lenW v + body.length) := by
            unfold skip; rw [if_pos (by omega)]
          rw [hbody] at hat
          simp only [List.append_assoc] at hat
          obtain ⟨e3, hat⟩ := wU_step (sect := "layer-info") hat (i16ToNat_lt n)
          have e4' := walkRecords_full hv R hrecs hshR hat
          rw [hRlen, ← i16abs_i16ToNat n g1] at e4'
          obtain ⟨e4, hat⟩ := e4'
          have e5' := walkChannels_full (c0 :: css0).flatten
            (fun c hc => by
              obtain ⟨cs, hcs, hc'⟩ := List.mem_flatten.mp hc
              exact hch cs hcs c hc') hat
          rw [← hdecl] at e5'
          obtain ⟨e5, _⟩ := e5'
          have c1 : p + lenW v + 2 + (listT (LayerRecord.encT v) R).length +
              (listT ChannelData.encT (c0 :: css0).flatten).length ≤ p + lenW v + body.length := by omega
          have c2 : p + lenW v + body.length < p + lenW v + 2 + (listT (LayerRecord.encT v) R).length +
              (listT ChannelData.encT (c0 :: css0).flatten).length + 4 := by omega
          simp only [walkLayerInfo, bind, Except.bind, e1, e2, if_neg hne, e3, e4, e5, check_eq, decide_eq_true_eq,
            if_pos c1, if_pos c2, lenBlockT_simple, List.length_append, length_beBytes, regionsOf_cons, regionsOf_append]
          rw [hlw]
          simp only [List.cons_append, Nat.add_assoc]

end PsdVerif.Walker
