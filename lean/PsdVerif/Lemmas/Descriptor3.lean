/-
C01 descriptors — `DescriptorBlock` / `DescriptorBlock2`, the `pre ++ bs ++ post` forms, and the samples
used by the non-vacuity statements of Props/C01Descriptor.lean.
-/
import PsdVerif.Lemmas.Descriptor2
import PsdVerif.Model.DescriptorTables

namespace PsdVerif.Descriptor
open PsdVerif PsdVerif.Codec

/-! ### writers: success, failure class -/

theorem enc_ok {tb : Tables} {v : DVal} {bs : B} (h : enc tb v = .ok bs) : Fits tb v ∧ bs = encT tb v := by
  unfold enc at h
  split at h
  · exact ⟨‹_›, by cases h; rfl⟩
  · cases h

theorem Block.enc_ok {tb : Tables} {pad : Nat} {b : Block} {bs : B} (h : b.enc tb pad = .ok bs) :
    b.Fits tb ∧ bs = b.encT tb pad := by
  unfold Block.enc at h
  split at h
  · exact ⟨‹_›, by cases h; rfl⟩
  · cases h

theorem Block2.enc_ok {tb : Tables} {pad : Nat} {b : Block2} {bs : B} (h : b.enc tb pad = .ok bs) :
    b.Fits tb ∧ bs = b.encT tb pad := by
  unfold Block2.enc at h
  split at h
  · exact ⟨‹_›, by cases h; rfl⟩
  · cases h

/-! ### blocks -/

theorem Block.length_encT (tb : Tables) (pad : Nat) (b : Block) :
    (b.encT tb pad).length = b.bodyLen tb + padAmount (b.bodyLen tb) pad := by
  simp only [Block.encT, Block.bodyLen, List.length_append, length_u32T, length_zeros]; omega

theorem Block2.length_encT (tb : Tables) (pad : Nat) (b : Block2) :
    (b.encT tb pad).length = b.bodyLen tb + padAmount (b.bodyLen tb) pad := by
  simp only [Block2.encT, Block2.bodyLen, List.length_append, length_u32T, length_zeros]; omega

/-- the reader returns the block and stops before the filler `write_padding` appended -/
theorem Block.dec_at {tb : Tables} {pad : Nat} {b : Block} (hwf : b.WF tb) (hf : b.Fits tb) {d : B} {p : Nat}
    (h : At d p (b.encT tb pad)) : Block.dec tb d p = .ok (b, p + b.bodyLen tb) := by
  obtain ⟨hv, hnm, hcid, hnd, hitems⟩ := hwf
  obtain ⟨fv, fnm, fcid, flen, fitems⟩ := hf
  unfold Block.encT at h
  obtain ⟨r0, h, hz⟩ := readU32_step h fv
  obtain ⟨r1, _⟩ := readBody_at hnm fnm hcid fcid flen hnd hitems fitems h
  unfold Block.dec
  rw [rbind_ok r0, rbind_ok r1]
  have h16 : b.version.toNat = 16 := by omega
  simp only [h16, if_true, rpure_eq, Block.bodyLen]
  obtain ⟨ver, nm, cid, items⟩ := b
  simp only at hv
  subst hv
  simp only [Nat.add_assoc]
  rfl

theorem Block2.dec_at {tb : Tables} {pad : Nat} {b : Block2} (hwf : b.WF tb) (hf : b.Fits tb) {d : B} {p : Nat}
    (h : At d p (b.encT tb pad)) : Block2.dec tb d p = .ok (b, p + b.bodyLen tb) := by
  obtain ⟨hv, hnm, hcid, hnd, hitems⟩ := hwf
  obtain ⟨fv, fdv, fnm, fcid, flen, fitems⟩ := hf
  unfold Block2.encT at h
  obtain ⟨r0, h, hz⟩ := readU32_step h fv
  obtain ⟨r0', h, hz'⟩ := readU32_step h fdv
  obtain ⟨r1, _⟩ := readBody_at hnm fnm hcid fcid flen hnd hitems fitems h
  unfold Block2.dec
  rw [rbind_ok r0, rbind_ok r0', rbind_ok r1]
  have h16 : b.dataVersion.toNat = 16 := by omega
  simp only [h16, if_true, rpure_eq, Block2.bodyLen]
  obtain ⟨ver, dv, nm, cid, items⟩ := b
  simp only at hv hz
  subst hv
  simp only [hz, Nat.add_assoc]
  have e : ∀ n : Nat, p + (4 + (4 + n)) = p + (8 + n) := by intro n; omega
  rw [e]; rfl

theorem Block.encW_eq (tb : Tables) (pad : Nat) (b : Block) :
    b.encW tb pad = (b.encT tb pad, (b.encT tb pad).length) := by
  simp only [Block.encW, bodyW_eq, wBytes_eq, wSeq_eq, wPad_eq]
  simp only [Block.encT, Block.bodyLen, List.length_append, length_u32T, List.append_assoc]

theorem Block2.encW_eq (tb : Tables) (pad : Nat) (b : Block2) :
    b.encW tb pad = (b.encT tb pad, (b.encT tb pad).length) := by
  simp only [Block2.encW, bodyW_eq, wBytes_eq, wSeq_eq, wPad_eq]
  simp only [Block2.encT, Block2.bodyLen, List.length_append, length_u32T, List.append_assoc]
  have e : ∀ n : Nat, 4 + (4 + n) = 8 + n := by intro n; omega
  rw [e]

/-! ### observers used by the witness theorems (results hold `DVal`, which has no decidable equality) -/

def errorOf {α : Type} : Except Err α → Option Err
  | .error e => some e
  | .ok _ => none

def stringOf : Except Err (DVal × Nat) → Option Str
  | .ok (.string s, _) => some s
  | _ => none

/-! ### samples -/

namespace Samples

def k (b : List UInt8) : Key := ⟨b, false⟩
def kNm : Key := k [78, 109, 32, 32]                        -- b"Nm  "    known term: length field 0
def kClr : Key := k [67, 108, 114, 32]                      -- b"Clr "    known term
def kNull : Key := k [110, 117, 108, 108]                   -- b"null"    known term
def kRedFloat : Key := k [114, 101, 100, 70, 108, 111, 97, 116]  -- b"redFloat"  length field 8
def kAbcd : Key := k [97, 98, 99, 100]                      -- b"abcd"    4 bytes, not a term: length field 4
def kWxyz : Key := ⟨[119, 120, 121, 122], true⟩             -- _ImplicitKey(b"wxyz"): length field 0
def kLyr : Key := k [76, 121, 114, 32]
def kOrdn : Key := k [79, 114, 100, 110]
def kTrgt : Key := k [84, 114, 103, 116]
def kOpct : Key := k [79, 112, 99, 116]
def kTxt : Key := k [84, 120, 116, 32]
def kX : Key := k [120]                                      -- b"x"
def kLong : Key := k [108, 97, 121, 101, 114, 67, 111, 110, 99, 97, 116]   -- b"layerConcat"

def uPxl : UnitRef := ⟨true, [35, 80, 120, 108]⟩            -- Unit.Pixels  b"#Pxl"
def uAdd : UnitRef := ⟨false, [65, 100, 100, 32]⟩           -- Enum.Add     b"Add "

/-- a reference holding every reference-only class -/
def reference : DVal := .list .reference [
  .property [80] kLyr kOpct,
  .klass .class3 [] kLyr,
  .enumRef [] kLyr kOrdn kTrgt,
  .offset [0x1F600] kLyr 4294967295,
  .int .identifier (-2147483648),
  .int .index 2147483647,
  .name [] kLyr [76, 0x10FFFF, 0xDC00, 0xD800]]

/-- level 3 -/
def inner : DVal := .objArray 3 [79] kNull [
  (kX, .unitFloats uAdd [0, 18446744073709551615, 4607182418800017408]),
  (kClr, .unitFloats uPxl [])]

/-- level 2 -/
def middle : DVal := .desc .globalObject [] kAbcd [
  (kLong, inner),
  (kNm, .list .list []),
  (kTxt, reference)]

/-- level 1: a descriptor three container levels deep that uses every one of the 25 classes -/
def sample : DVal := .desc .descriptor [0x41, 0x1F600, 0xD7FF] kNull [
  (kNm, .string [72, 0x1F600]),
  (kRedFloat, .double 4609434218613702656),
  (kAbcd, .int .integer (-5)),
  (kWxyz, .large (-9223372036854775808)),
  (kClr, .bool true),
  (kOpct, .unitFloat uPxl 9221120237041090561),              -- a NaN with a payload: kept bit for bit
  (kOrdn, .enumerated kOrdn kTrgt),
  (kTrgt, .raw .rawData [1, 2, 3]),
  (kX, .raw .alias []),
  (kLong, .raw .path [0]),
  (kLyr, .klass .class1 [84] kLyr),
  (k [49], .klass .class2 [] kAbcd),
  (kTxt, .list .list [middle, .bool false, .desc .descriptor [] kNull []])]

def tagsVal : DVal → List Tag
  | .list t items => t.tag :: tagsList items
  | .desc t _ _ items => t.tag :: tagsItems items
  | .objArray _ _ _ items => .objectArray :: tagsItems items
  | v => [v.tag]
where
  tagsList : List DVal → List Tag
    | [] => []
    | v :: vs => tagsVal v ++ tagsList vs
  tagsItems : Items → List Tag
    | [] => []
    | (_, v) :: r => tagsVal v ++ tagsItems r

def block : Block := ⟨16, [], kNull, [(kTxt, sample), (kNm, .bool true)]⟩
def block2 : Block2 := ⟨1, 16, [66], kAbcd, [(kTxt, sample)]⟩

end Samples

end PsdVerif.Descriptor
