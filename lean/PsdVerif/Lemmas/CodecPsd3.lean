/-
Round-trip and count laws: channel data, layer info, global layer mask info, the layer and
mask information section, image data, the whole file.
-/
import PsdVerif.Lemmas.CodecPsd2

namespace PsdVerif.Psd
open PsdVerif PsdVerif.Codec

/-! ## channel data -/

theorem readPy_refreshed (n : Nat) {d : B} {p : Nat} (h : p + n ≤ d.length) :
    readPy (((2 + n : Nat) : Int) - 2) d p = readUpTo n d p := by
  have e : (((2 + n : Nat) : Int) - 2) = (n : Int) := by omega
  rw [e]
  unfold readPy
  have : ¬ ((n : Int) < 0) := by omega
  rw [if_neg this]
  simp only [Int.toNat_natCast]
  rw [if_neg (not_overflows_of_le (by omega))]

theorem ChannelData.length_encT (c : ChannelData) : c.encT.length = 2 + c.data.length := by
  simp [ChannelData.encT, length_beBytes]

theorem ChannelData.dec_at {c : ChannelData} (hwf : c.WF) {d : B} {p : Nat} (hat : At d p c.encT) :
    ChannelData.dec (2 + c.data.length) d p = .ok (c, p + c.encT.length) := by
  have hc : ∀ x ∈ G.compressions, x < 256 ^ 2 := by decide
  rw [ChannelData.length_encT]
  simp only [ChannelData.encT] at hat
  obtain ⟨e1, hat⟩ := readU_step hat (hc _ hwf)
  have e2 := readUpTo_at hat
  have hwf' : c.compression ∈ G.compressions := hwf
  have e2' := readPy_refreshed c.data.length (d := d) (p := p + 2) hat.bound
  simp only [ChannelData.dec, bind, Except.bind, e1, e2', e2, Nat.add_assoc]
  rw [if_pos hwf']

theorem ChannelData.encP_eq (c : ChannelData) : c.encP = (c.encT, c.encT.length) := by
  simp only [ChannelData.encP, ChannelData.encT, wBytes_eq, wSeq_eq]

theorem channelImageP_eq (css : List (List ChannelData)) :
    channelImageP css = (channelImageT css, (channelImageT css).length) := by
  unfold channelImageP channelImageT
  apply wList_eq
  intro cs _
  exact wList_eq ChannelData.encP ChannelData.encT cs (fun c _ => c.encP_eq)

/-! ### `_update_channel_length` -/

theorem length_refreshCI (cis : List ChannelInfo) (cs : List ChannelData) : (refreshCI cis cs).length = cis.length := by
  induction cis generalizing cs with
  | nil => cases cs <;> simp [refreshCI]
  | cons ci cis ih => cases cs <;> simp [refreshCI, ih]

theorem length_refreshRecords (rs : List LayerRecord) (css : List (List ChannelData)) :
    (refreshRecords rs css).length = rs.length := by
  induction rs generalizing css with
  | nil => cases css <;> simp [refreshRecords]
  | cons r rs ih => cases css <;> simp [refreshRecords, ih]

theorem refreshCI_idem (cis : List ChannelInfo) (cs : List ChannelData) :
    refreshCI (refreshCI cis cs) cs = refreshCI cis cs := by
  induction cis generalizing cs with
  | nil => cases cs <;> simp [refreshCI]
  | cons ci cis ih => cases cs <;> simp [refreshCI, ih]

theorem refreshRecords_idem (rs : List LayerRecord) (css : List (List ChannelData)) :
    refreshRecords (refreshRecords rs css) css = refreshRecords rs css := by
  induction rs generalizing css with
  | nil => cases css <;> simp [refreshRecords]
  | cons r rs ih => cases css <;> simp [refreshRecords, ih, refreshCI_idem]

theorem LayerInfo.refresh_idem (li : LayerInfo) : li.refresh.refresh = li.refresh := by
  obtain ⟨n, rs, css⟩ := li
  unfold LayerInfo.refresh
  by_cases h0 : n = 0
  · simp [h0]
  · simp only [h0, if_false]
    cases rs with
    | none => simp [h0]
    | some rs =>
      cases css with
      | none => simp [h0]
      | some css =>
        cases rs with
        | nil => simp [h0]
        | cons r rs =>
          cases css with
          | nil => simp [h0]
          | cons c cs =>
            simp only [h0, if_false, refreshRecords]
            have := refreshRecords_idem (r :: rs) (c :: cs)
            simp only [refreshRecords] at this
            simp only [LayerInfo.mk.injEq, true_and, and_true, Option.some.injEq]
            exact this

theorem channelListDec_at (cis : List ChannelInfo) (cs : List ChannelData) (hl : cis.length = cs.length)
    (hwf : ∀ c ∈ cs, ChannelData.WF c) {d : B} {p : Nat} (hat : At d p (channelListT cs)) :
    channelListDec (refreshCI cis cs) d p = .ok (cs, p + (channelListT cs).length) := by
  unfold channelListDec channelListT at *
  apply readFor_at _ ChannelData.encT _ cs (by rw [length_refreshCI, hl]) _ hat
  intro x c hm d' p' h'
  have key : ∀ (cis : List ChannelInfo) (cs : List ChannelData), cis.length = cs.length →
      ∀ x c, (x, c) ∈ (refreshCI cis cs).zip cs → x.length = 2 + c.data.length ∧ c ∈ cs := by
    intro cis
    induction cis with
    | nil => intro cs _ x c hm; cases cs <;> simp [refreshCI] at hm
    | cons ci cis ih =>
      intro cs hl x c hm
      cases cs with
      | nil => simp at hl
      | cons c0 cs =>
        simp only [refreshCI, List.zip_cons_cons, List.mem_cons, Prod.mk.injEq] at hm
        rcases hm with ⟨rfl, rfl⟩ | hm
        · exact ⟨rfl, by simp⟩
        · obtain ⟨h1, h2⟩ := ih cs (by simpa using hl) x c hm
          exact ⟨h1, by simp [h2]⟩
  obtain ⟨h1, h2⟩ := key cis cs hl x c hm
  simp only [h1]
  exact ChannelData.dec_at (hwf c h2) h'

theorem channelImageDec_at (rs : List LayerRecord) (css : List (List ChannelData)) (hs : shapesAgree rs css)
    (hwf : ∀ cs ∈ css, ∀ c ∈ cs, ChannelData.WF c) {d : B} {p : Nat} (hat : At d p (channelImageT css)) :
    channelImageDec (refreshRecords rs css) d p = .ok (css, p + (channelImageT css).length) := by
  have hlen : ∀ (rs : List LayerRecord) (css : List (List ChannelData)), shapesAgree rs css → rs.length = css.length := by
    intro rs
    induction rs with
    | nil => intro css h; cases css <;> simp_all [shapesAgree]
    | cons r rs ih => intro css h; cases css with
      | nil => simp [shapesAgree] at h
      | cons c cs => simp only [shapesAgree] at h; simp [ih cs h.2]
  unfold channelImageDec channelImageT at *
  apply readFor_at _ channelListT _ css (by rw [length_refreshRecords, hlen rs css hs]) _ hat
  intro x cs hm d' p' h'
  have key : ∀ (rs : List LayerRecord) (css : List (List ChannelData)), shapesAgree rs css →
      ∀ x cs, (x, cs) ∈ (refreshRecords rs css).zip css →
        (∃ cis, x.channelInfo = refreshCI cis cs ∧ cis.length = cs.length) ∧ cs ∈ css := by
    intro rs
    induction rs with
    | nil => intro css _ x cs hm; cases css <;> simp [refreshRecords] at hm
    | cons r rs ih =>
      intro css hs x cs hm
      cases css with
      | nil => simp [shapesAgree] at hs
      | cons c0 css =>
        simp only [shapesAgree] at hs
        simp only [refreshRecords, List.zip_cons_cons, List.mem_cons, Prod.mk.injEq] at hm
        rcases hm with ⟨rfl, rfl⟩ | hm
        · exact ⟨⟨r.channelInfo, rfl, hs.1⟩, by simp⟩
        · obtain ⟨h1, h2⟩ := ih css hs.2 x cs hm
          exact ⟨h1, by simp [h2]⟩
  obtain ⟨⟨cis, h1, h2⟩, h3⟩ := key rs css hs x cs hm
  simp only [h1]
  exact channelListDec_at cis cs h2 (hwf cs h3) h'

/-! ## layer info -/

theorem secW_pos (v : Nat) : 4 ≤ secW v := by unfold secW; split <;> omega

theorem LayerInfo.bodyP_eq (v pad : Nat) (li : LayerInfo) : li.bodyP v pad = (li.bodyT v pad, (li.bodyT v pad).length) := by
  obtain ⟨n, rs, css⟩ := li
  have h1 : optListP (wList (LayerRecord.encP v)) rs =
      (optListT (listT (LayerRecord.encT v)) rs, (optListT (listT (LayerRecord.encT v)) rs).length) := by
    cases rs with
    | none => rfl
    | some rs =>
      cases rs with
      | nil => rfl
      | cons r rs =>
        simp only [optListP, optListT]
        exact wList_eq _ _ _ (fun r _ => r.encP_eq v)
  have h2 : optListP channelImageP css = (optListT channelImageT css, (optListT channelImageT css).length) := by
    cases css with
    | none => rfl
    | some css =>
      cases css with
      | nil => rfl
      | cons c cs => simp only [optListP, optListT, channelImageP_eq]
  simp only [LayerInfo.bodyP, LayerInfo.bodyT, LayerInfo.bodyUnpaddedT, h1, h2, wBytes_eq, wSeq_eq, wPad_eq]

theorem LayerInfo.encP_eq (v pad : Nat) (li : LayerInfo) : li.encP v pad = (li.encT v pad, (li.encT v pad).length) := by
  unfold LayerInfo.encP LayerInfo.encT
  split
  · rfl
  · simp only [LayerInfo.bodyP_eq, wLenBlock_eq]

theorem LayerInfo.length_encT_ge (v pad : Nat) (li : LayerInfo) : 4 ≤ (li.encT v pad).length := by
  have := secW_pos v
  unfold LayerInfo.encT
  split
  · rw [length_beBytes]; exact this
  · rw [length_lenBlockT]; omega

/-- What `LayerInfo.read` returns for what `LayerInfo.write` wrote: the object as the writer left it
(channel lengths refreshed), cursor at the end of the section. -/
theorem LayerInfo.dec_step {v pad : Nat} {li : LayerInfo} (hwf : li.WF v pad) {d : B} {p : Nat} {rest : B}
    (hat : At d p (li.encT v pad ++ rest)) :
    LayerInfo.dec v d p = .ok (li.refresh, p + (li.encT v pad).length) ∧ At d (p + (li.encT v pad).length) rest := by
  refine ⟨?_, hat.right⟩
  have hat := hat.left
  have hw := secW_pos v
  unfold LayerInfo.WF at hwf
  unfold LayerInfo.encT at hat ⊢
  by_cases h0 : li.layerCount = 0
  · simp only [h0, if_true] at hwf hat ⊢
    have hpos : (0 : Nat) < 256 ^ secW v := Nat.pow_pos (by decide)
    have e1 := readU_at hat hpos
    have hno : ¬ overflows (p + secW v) d :=
      not_overflows_of_le (by have := hat.bound; simp only [length_beBytes] at this; omega)
    obtain ⟨n, rs, css⟩ := li
    simp only at h0 hwf
    obtain ⟨rfl, rfl⟩ := hwf
    subst h0
    simp only [LayerInfo.dec, bind, Except.bind, e1, if_true, LayerInfo.refresh, length_beBytes, Nat.add_zero,
      Nat.le_refl, if_neg hno]
  · simp only [h0, if_false] at hwf hat ⊢
    obtain ⟨n, rs, css⟩ := li
    simp only at h0 hwf hat ⊢
    cases rs with
    | none => simp at hwf
    | some rs =>
      cases css with
      | none => simp at hwf
      | some css =>
        simp only at hwf
        obtain ⟨hcount, hshape, hrecs, hch, hfits⟩ := hwf
        -- both lists are non-empty
        have hrs : rs ≠ [] := by
          intro h; subst h; simp at hcount; exact h0 hcount
        obtain ⟨r0, rs0, rfl⟩ := List.exists_cons_of_ne_nil hrs
        cases css with
        | nil => simp [shapesAgree] at hshape
        | cons c0 css0 =>
          have href : (LayerInfo.mk n (some (r0 :: rs0)) (some (c0 :: css0))).refresh =
              ⟨n, some (refreshRecords (r0 :: rs0) (c0 :: css0)), some (c0 :: css0)⟩ := by
            simp [LayerInfo.refresh, h0]
          rw [href] at hat hfits ⊢
          obtain ⟨g1, g2, g3, g4⟩ := hfits
          simp only at g1
          generalize hR : refreshRecords (r0 :: rs0) (c0 :: css0) = R at *
          have hRne : R ≠ [] := by
            intro h
            have := length_refreshRecords (r0 :: rs0) (c0 :: css0)
            rw [hR, h] at this; simp at this
          obtain ⟨r1, R1, rfl⟩ := List.exists_cons_of_ne_nil hRne
          have hRlen : (r1 :: R1).length = n.natAbs := by
            rw [← hR, length_refreshRecords]; exact hcount.symm
          have hbody : LayerInfo.bodyT v pad ⟨n, some (r1 :: R1), some (c0 :: css0)⟩ =
              i16T n ++ (listT (LayerRecord.encT v) (r1 :: R1) ++ (channelImageT (c0 :: css0) ++
                zeros (padAmount (LayerInfo.bodyUnpaddedT v ⟨n, some (r1 :: R1), some (c0 :: css0)⟩).length pad))) := by
            simp only [LayerInfo.bodyT, LayerInfo.bodyUnpaddedT, optListT, List.append_assoc]
          generalize hBody : LayerInfo.bodyT v pad ⟨n, some (r1 :: R1), some (c0 :: css0)⟩ = body at *
          have hne : ¬ body.length = 0 := by
            rw [hbody]; simp only [List.length_append, length_i16T]; omega
          unfold lenBlockT at hat
          simp only [zeros, List.replicate_zero, List.nil_append, List.append_assoc] at hat
          obtain ⟨e1, hat⟩ := readU_step hat g4
          have hat := hat.left
          have hno : ¬ overflows (p + secW v + body.length) d :=
            not_overflows_of_le (by have := hat.bound; omega)
          rw [hbody] at hat
          obtain ⟨e2, hat⟩ := readI16_step hat g1
          obtain ⟨e3, hat⟩ := readCount_step (LayerRecord.dec v) (LayerRecord.encT v) (r1 :: R1)
            (fun r hr d p h => (LayerRecord.dec_step (hrecs r hr) h.nil_right).1) hat
          rw [hRlen] at e3
          have e4 := channelImageDec_at (r0 :: rs0) (c0 :: css0) hshape hch hat.left
          rw [hR] at e4
          have hnc : LayerInfo.normCount0 ⟨n, some (r1 :: R1), some (c0 :: css0)⟩ =
              ⟨n, some (r1 :: R1), some (c0 :: css0)⟩ := by simp [LayerInfo.normCount0, h0]
          simp only [LayerInfo.dec, LayerInfo.bodyDec, bind, Except.bind, e1, if_neg hne, e2, e3, e4, hnc]
          have hle : p + secW v + 2 + (listT (LayerRecord.encT v) (r1 :: R1)).length +
              (channelImageT (c0 :: css0)).length ≤ p + secW v + body.length := by
            rw [hbody]; simp only [List.length_append, length_i16T]; omega
          rw [if_pos hle, if_neg hno]
          simp only [length_lenBlockT, padAmount_one]
          congr 2
          omega

/-! ## global layer mask info -/

theorem GlobalLayerMaskInfo.bodyP_eq (g : GlobalLayerMaskInfo) : g.bodyP = (g.bodyT, g.bodyT.length) := by
  obtain ⟨o, op, k⟩ := g
  cases o with
  | none => rfl
  | some cs =>
    simp only [GlobalLayerMaskInfo.bodyP, GlobalLayerMaskInfo.bodyT, wBytes_eq, wSeq_eq, wPad_eq, List.append_assoc]

theorem GlobalLayerMaskInfo.encP_eq (g : GlobalLayerMaskInfo) : g.encP = (g.encT, g.encT.length) := by
  simp only [GlobalLayerMaskInfo.encP, GlobalLayerMaskInfo.encT, GlobalLayerMaskInfo.bodyP_eq, wLenBlock_eq]

theorem length_listT_be2 (cs : List Nat) : (listT (beBytes 2) cs).length = 2 * cs.length := by
  induction cs with
  | nil => rfl
  | cons c cs ih => simp only [listT, List.length_append, length_beBytes, ih, List.length_cons]; omega

theorem GlobalLayerMaskInfo.length_encT (g : GlobalLayerMaskInfo) (hf : g.Fits) :
    g.encT.length = if g.overlayColor.isSome then 20 else 4 := by
  obtain ⟨o, op, k⟩ := g
  cases o with
  | none => simp [GlobalLayerMaskInfo.encT, GlobalLayerMaskInfo.bodyT, length_lenBlockT, padAmount_one]
  | some cs =>
    obtain ⟨h5, _⟩ := hf
    simp [GlobalLayerMaskInfo.encT, GlobalLayerMaskInfo.bodyT, length_lenBlockT, padAmount_one, length_listT_be2,
      length_beBytes, length_zeros, h5, padAmount]

theorem GlobalLayerMaskInfo.dec_step {g : GlobalLayerMaskInfo} (hwf : g.WF) {d : B} {p : Nat} {rest : B}
    (hat : At d p (g.encT ++ rest)) :
    GlobalLayerMaskInfo.dec d p = .ok (g, p + g.encT.length) ∧ At d (p + g.encT.length) rest := by
  refine ⟨?_, hat.right⟩
  have hat := hat.left
  obtain ⟨hk, hf, hdef⟩ := hwf
  obtain ⟨o, op, k⟩ := g
  simp only at hk hf hdef
  cases o with
  | none =>
    obtain ⟨rfl, rfl⟩ := hdef rfl
    have e := readLenBlock_at (skip := 0) (w := 4) (pad := 1) (body := []) (d := d) (p := p)
      (by simpa [GlobalLayerMaskInfo.encT, GlobalLayerMaskInfo.bodyT] using hat) (by decide) (by decide)
    simp only [GlobalLayerMaskInfo.dec, bind, Except.bind, e]
    simp [glmDefault, GlobalLayerMaskInfo.encT, GlobalLayerMaskInfo.bodyT]
  | some cs =>
    obtain ⟨h5, hcs, hop, hkf⟩ := hf
    have hbl : (GlobalLayerMaskInfo.bodyT ⟨some cs, op, k⟩).length = 16 := by
      simp [GlobalLayerMaskInfo.bodyT, length_listT_be2, length_beBytes, length_zeros, h5, padAmount]
    have e := readLenBlock_at (skip := 0) (w := 4) (pad := 1) hat (by rw [hbl]; decide) (by decide)
    have hself := At.self (GlobalLayerMaskInfo.bodyT ⟨some cs, op, k⟩)
    generalize hD : GlobalLayerMaskInfo.bodyT ⟨some cs, op, k⟩ = D at *
    have hD' : D = listT (beBytes 2) cs ++ (beBytes 2 op ++ (beBytes 1 k ++
        zeros (padAmount (listT (beBytes 2) cs ++ beBytes 2 op ++ beBytes 1 k).length 4))) := by
      rw [← hD]; simp only [GlobalLayerMaskInfo.bodyT, List.append_assoc]
    rw [hD'] at hself
    rw [← hD'] at hself
    have hself' : At D 0 (listT (beBytes 2) cs ++ (beBytes 2 op ++ (beBytes 1 k ++
        zeros (padAmount (listT (beBytes 2) cs ++ beBytes 2 op ++ beBytes 1 k).length 4)))) := by
      rw [← hD']; exact At.self D
    obtain ⟨e1, h1⟩ := readCount_step (readU 2) (beBytes 2) cs
      (fun c hc d p h => by rw [readU_at h (hcs c hc), length_beBytes]) hself'
    rw [h5] at e1
    obtain ⟨e2, h2⟩ := readU_step h1 hop
    obtain ⟨e3, _⟩ := readU_step h2 hkf
    have hne : ¬ D.length = 0 := by omega
    have hge : ¬ D.length < 13 := by omega
    simp only [GlobalLayerMaskInfo.dec, bind, Except.bind, e, if_neg hne, if_neg hge, e1, e2, e3]
    rw [if_pos hk]
    simp only [GlobalLayerMaskInfo.encT, hD]

/-! ## image data -/

theorem ImageData.encP_eq (i : ImageData) : i.encP = (i.encT, i.encT.length) := by
  simp only [ImageData.encP, ImageData.encT, wBytes_eq, wSeq_eq]

theorem ImageData.length_encT (i : ImageData) : i.encT.length = 2 + i.data.length := by
  simp [ImageData.encT, length_beBytes]

theorem ImageData.dec_at_end {i : ImageData} (hwf : i.WF) {d : B} {p : Nat} (hat : At d p i.encT)
    (hend : p + i.encT.length = d.length) :
    ImageData.dec d p = .ok (i, p + i.encT.length) := by
  have hc : ∀ x ∈ G.imageCompressions, x < 256 ^ 2 := by decide
  have hwf' : i.compression ∈ G.imageCompressions := hwf
  rw [ImageData.length_encT] at hend ⊢
  simp only [ImageData.encT] at hat
  obtain ⟨e1, hat⟩ := readU_step hat (hc _ hwf)
  have e2 := readAll_at_end hat (by omega)
  simp only [ImageData.dec, bind, Except.bind, e1, e2, Nat.add_assoc]
  rw [if_pos hwf']

/-! ## layer and mask information -/

theorem LayerAndMask.bodyP_eq (v pad : Nat) (x : LayerAndMask) :
    x.bodyP v pad = (x.bodyT v pad, (x.bodyT v pad).length) := by
  obtain ⟨li, g, ts⟩ := x
  cases li <;> cases g <;> cases ts <;>
    simp [LayerAndMask.bodyP, LayerAndMask.bodyT, optP, optT', LayerInfo.encP_eq, GlobalLayerMaskInfo.encP_eq,
      taggedBlocksP_eq, wNil, W.seq, Nat.add_assoc]

theorem LayerAndMask.encP_eq (v pad : Nat) (x : LayerAndMask) :
    x.encP v pad = (x.encT v pad, (x.encT v pad).length) := by
  simp only [LayerAndMask.encP, LayerAndMask.encT, LayerAndMask.bodyP_eq, wLenBlock_eq]

/-- the object after `write()` -/
def LayerAndMask.refresh (x : LayerAndMask) : LayerAndMask := { x with layerInfo := x.layerInfo.map LayerInfo.refresh }

theorem LayerAndMask.length_encT (v pad : Nat) (x : LayerAndMask) :
    (x.encT v pad).length = secW v + (x.bodyT v pad).length := by
  simp only [LayerAndMask.encT, length_lenBlockT, padAmount_one]; omega

/-- `LayerAndMaskInformation.read` on the main stream, wherever the section sits: the reader's gates look at
the section only (`fp.tell() + 4 <= end_pos`, `fp.tell() < end_pos`). -/
theorem LayerAndMask.dec_at {v pad : Nat} {x : LayerAndMask} (hwf : x.WF v pad) {d : B} {p : Nat}
    (hat : At d p (x.encT v pad)) :
    LayerAndMask.dec v d p = .ok (x.refresh, p + (x.encT v pad).length) := by
  have hw := secW_pos v
  obtain ⟨⟨_, _, _, hfb⟩, hrest⟩ := hwf
  rw [LayerAndMask.length_encT]
  unfold LayerAndMask.encT lenBlockT at hat
  simp only [zeros, List.replicate_zero, List.nil_append, List.append_assoc] at hat
  obtain ⟨e1, hat⟩ := readU_step hat hfb
  have hat := hat.left
  have hno : ¬ overflows (p + secW v + (x.bodyT v pad).length) d :=
    not_overflows_of_le (by have := hat.bound; omega)
  obtain ⟨li, g, ts⟩ := x
  simp only at hrest
  cases li with
  | none =>
    obtain ⟨rfl, rfl⟩ := hrest
    simp only [LayerAndMask.dec, bind, Except.bind, e1, if_neg hno]
    simp [LayerAndMask.bodyT, optT', LayerAndMask.refresh]
  | some li =>
    simp only at hrest
    obtain ⟨hli, hg, hts, hgt⟩ := hrest
    have hbody : LayerAndMask.bodyT v pad ⟨some li, g, ts⟩ =
        li.encT v pad ++ (optT' GlobalLayerMaskInfo.encT g ++ optT' (taggedBlocksT v 4) ts) := by
      simp only [LayerAndMask.bodyT, optT', List.append_assoc]
    generalize hB : LayerAndMask.bodyT v pad ⟨some li, g, ts⟩ = body at *
    have hne : ¬ body.length = 0 := by
      have := li.length_encT_ge v pad
      rw [hbody]; simp only [List.length_append]; omega
    rw [hbody] at hat
    have hblen : body.length = (li.encT v pad).length + (optT' GlobalLayerMaskInfo.encT g).length +
        (optT' (taggedBlocksT v 4) ts).length := by
      rw [hbody]; simp only [List.length_append]; omega
    obtain ⟨e2, hat⟩ := LayerInfo.dec_step hli hat
    cases ts with
    | none => simp at hts
    | some ts =>
      simp only at hts
      simp only [optT'] at hat hblen
      cases g with
      | none =>
        have : ts = [] := by simpa using hgt rfl
        subst this
        simp only [optT', taggedBlocksT, listT, List.length_nil, Nat.add_zero] at hat hblen
        have hgate : ¬ (p + secW v + (li.encT v pad).length + 4 ≤ p + secW v + body.length) := by omega
        simp only [LayerAndMask.dec, LayerAndMask.bodyDec, bind, Except.bind, e1, if_neg hne, e2, if_neg hgate,
          if_neg hno]
        simp [LayerAndMask.refresh, Nat.add_assoc]
      | some g =>
        simp only [optProp] at hg
        simp only [optT'] at hat hblen
        have hgl := g.length_encT hg.2.1
        have hgate : p + secW v + (li.encT v pad).length + 4 ≤ p + secW v + body.length := by
          have : 4 ≤ g.encT.length := by rw [hgl]; split <;> omega
          omega
        obtain ⟨e3, hat⟩ := GlobalLayerMaskInfo.dec_step hg hat
        have hpe : p + secW v + (li.encT v pad).length + g.encT.length + (taggedBlocksT v 4 ts).length =
            p + secW v + body.length := by omega
        have e4 : taggedBlocksDec v 4 (some (p + secW v + body.length)) d
            (p + secW v + (li.encT v pad).length + g.encT.length) =
            .ok (ts, p + secW v + (li.encT v pad).length + g.encT.length + (taggedBlocksT v 4 ts).length) := by
          apply taggedBlocksDec_at (Or.inr (Or.inr rfl)) hts (some _) hat.nil_right.left
          · intro e he; cases he; omega
          · simp only [taggedCond, hpe]; simp
        simp only [LayerAndMask.dec, LayerAndMask.bodyDec, bind, Except.bind, e1, if_neg hne, e2, if_pos hgate, e3, e4,
          if_neg hno]
        simp [LayerAndMask.refresh, Nat.add_assoc]

/-! ## the whole file -/

theorem PSD.encP_eq (pad : Nat) (x : PSD) : x.encP pad = (x.encT pad, (x.encT pad).length) := by
  simp only [PSD.encP, PSD.encT, Header.encP_eq, colorModeP_eq, resourcesP_eq, LayerAndMask.encP_eq,
    ImageData.encP_eq, wSeq_eq]

theorem PSD.refresh_eq (x : PSD) : x.refresh = { x with layerAndMask := x.layerAndMask.refresh } := rfl

theorem PSD.read_encT {pad : Nat} {x : PSD} (hwf : x.WF pad) :
    PSD.read (x.encT pad) 0 = .ok (x.refresh, (x.encT pad).length) := by
  obtain ⟨hh, hc, hr, hl, hi⟩ := hwf
  have hself := At.self (x.encT pad)
  generalize hD : x.encT pad = D at hself ⊢
  have hlen : D.length = x.header.encT.length + (colorModeT x.colorModeData).length + (resourcesT x.resources).length +
      (x.layerAndMask.encT x.header.version pad).length + x.imageData.encT.length := by
    rw [← hD]; simp only [PSD.encT, List.length_append]
  have hD' : D = x.header.encT ++ (colorModeT x.colorModeData ++ (resourcesT x.resources ++
      (x.layerAndMask.encT x.header.version pad ++ x.imageData.encT))) := by
    rw [← hD]; simp only [PSD.encT, List.append_assoc]
  have hat : At D 0 (x.header.encT ++ (colorModeT x.colorModeData ++ (resourcesT x.resources ++
      (x.layerAndMask.encT x.header.version pad ++ x.imageData.encT)))) := by
    rw [← hD']; exact At.self D
  have e1 := Header.dec_at hh hat.left
  have hat := hat.right
  have e2 := colorModeDec_at hc hat.left
  have hat := hat.right
  have e3 := resourcesDec_at hr hat.left
  have hat := hat.right
  have hil := x.imageData.length_encT
  have e4 := LayerAndMask.dec_at hl hat.left
  have hat := hat.right
  have e5 := ImageData.dec_at_end hi hat (by omega)
  simp only [PSD.read, bind, Except.bind, e1, e2, e3, e4, e5]
  simp only [PSD.refresh_eq, LayerAndMask.refresh]
  congr 2
  omega

/-! ### re-writing the re-read document -/

theorem LayerInfo.refresh_layerCount (li : LayerInfo) : li.refresh.layerCount = li.layerCount := by
  unfold LayerInfo.refresh
  split
  · rfl
  · split <;> rfl

theorem LayerInfo.encT_refresh (v pad : Nat) (li : LayerInfo) : li.refresh.encT v pad = li.encT v pad := by
  unfold LayerInfo.encT
  rw [LayerInfo.refresh_layerCount, LayerInfo.refresh_idem]

theorem LayerInfo.Fits_refresh (v pad : Nat) (li : LayerInfo) : li.refresh.Fits v pad ↔ li.Fits v pad := by
  unfold LayerInfo.Fits
  rw [LayerInfo.refresh_layerCount, LayerInfo.refresh_idem]

theorem LayerAndMask.bodyT_refresh (v pad : Nat) (x : LayerAndMask) : x.refresh.bodyT v pad = x.bodyT v pad := by
  obtain ⟨li, g, ts⟩ := x
  cases li <;> simp [LayerAndMask.refresh, LayerAndMask.bodyT, optT', LayerInfo.encT_refresh]

theorem LayerAndMask.encT_refresh (v pad : Nat) (x : LayerAndMask) : x.refresh.encT v pad = x.encT v pad := by
  simp only [LayerAndMask.encT, LayerAndMask.bodyT_refresh]

theorem LayerAndMask.Fits_refresh (v pad : Nat) (x : LayerAndMask) : x.refresh.Fits v pad ↔ x.Fits v pad := by
  obtain ⟨li, g, ts⟩ := x
  cases li with
  | none => simp [LayerAndMask.refresh]
  | some li =>
    have hb := LayerAndMask.bodyT_refresh v pad ⟨some li, g, ts⟩
    simp only [LayerAndMask.refresh, Option.map_some] at hb
    simp only [LayerAndMask.Fits, LayerAndMask.refresh, Option.map_some, optProp, LayerInfo.Fits_refresh, hb]

theorem PSD.encT_refresh (pad : Nat) (x : PSD) : x.refresh.encT pad = x.encT pad := by
  simp only [PSD.refresh_eq, PSD.encT, LayerAndMask.encT_refresh]

theorem PSD.writeError_refresh (pad : Nat) (x : PSD) : x.refresh.writeError pad = x.writeError pad := by
  have h1 : x.refresh.Fits₁ ↔ x.Fits₁ := by simp only [PSD.refresh_eq, PSD.Fits₁]
  have h2 : x.refresh.Fits₂ pad ↔ x.Fits₂ pad := by
    simp only [PSD.refresh_eq, PSD.Fits₂, LayerAndMask.Fits_refresh]
  have h3 : x.refresh.header = x.header := rfl
  unfold PSD.writeError
  simp only [h1, h2, h3]

theorem PSD.enc_refresh (pad : Nat) (x : PSD) : PSD.enc pad x.refresh = PSD.enc pad x := by
  unfold PSD.enc
  rw [PSD.writeError_refresh, PSD.encT_refresh]

theorem PSD.enc_ok {pad : Nat} {x : PSD} {bs : B} (h : PSD.enc pad x = .ok bs) : bs = x.encT pad := by
  unfold PSD.enc at h
  split at h
  · cases h
  · cases h; rfl

theorem PSD.encW_eq (pad : Nat) (x : PSD) :
    PSD.encW pad x = (PSD.enc pad x).map (fun bs => (bs, bs.length)) := by
  unfold PSD.encW PSD.enc
  split
  · rfl
  · simp only [Except.map, PSD.encP_eq]

end PsdVerif.Psd
