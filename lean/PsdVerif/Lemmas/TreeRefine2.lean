/-
C09 — accepted operations vs plain lists: the remaining operations and the assembly for `step`.
-/
import PsdVerif.Lemmas.TreeRefine

namespace PsdVerif.TreeSt
open Spec

theorem abs_setChildren_updateRecord (cfg : Cfg) (s : State) (g : Id) (l : List Id) :
    abs (setChildren (updateRecord cfg s g) g l) = (abs s).setList g l := by
  rw [abs_setChildren, updateRecord_abs]

theorem opPop_acc {cfg : Cfg} {s : State} {g : Id} {k : Int} (h : (opPop cfg s g k).2.isError = false) :
    ∃ v, Spec.apply (abs s) (.pop g k) = .ok (abs (opPop cfg s g k).1, v) ∧ Agrees (opPop cfg s g k).2 v := by
  unfold opPop finishRemove at h ⊢
  simp only at h ⊢
  cases hn : normIdx (s.children g).length k with
  | none => rw [hn] at h; cases h
  | some j =>
    rw [hn] at h
    simp only at h ⊢
    cases hx : (s.children g)[j]? with
    | none => rw [hx] at h; cases h
    | some x =>
      refine ⟨some (.id x), ?_, rfl⟩
      have hn' : normIdx ((abs s).lists g).length k = some j := hn
      have hx' : ((abs s).lists g)[j]? = some x := hx
      simp only [Spec.apply, hn', hx']
      rw [updateRecord_abs]; rfl

theorem opClear_acc (cfg : Cfg) (s : State) (g : Id) :
    Spec.apply (abs s) (.clear g) = .ok (abs (opClear cfg s g).1, some .none) ∧ (opClear cfg s g).2 = .none := by
  unfold opClear finishRemove
  refine ⟨?_, rfl⟩
  simp only [Spec.apply]
  rw [updateRecord_abs]; rfl

theorem opSetitem_acc {cfg : Cfg} {s : State} {g : Id} {k : Int} {x : Id}
    (h : (opSetitem cfg s g k x).2.isError = false) :
    Spec.apply (abs s) (.setitem g k x) = .ok (abs (opSetitem cfg s g k x).1, some .none) ∧
      (opSetitem cfg s g k x).2 = .none := by
  unfold opSetitem at h ⊢
  cases hr : checkSingle cfg s g x with
  | some r => rw [hr] at h; simp only at h; rw [refuse_isError] at h; cases h
  | none =>
    rw [hr] at h
    simp only at h ⊢
    cases hn : normIdx (s.children g).length k with
    | none => rw [hn] at h; cases h
    | some j =>
      rw [hn] at h
      simp only at h ⊢
      refine ⟨?_, finishInsert_out h⟩
      have hn' : normIdx ((abs s).lists g).length k = some j := hn
      simp only [Spec.apply, hn']
      rw [finishInsert_abs]; rfl

theorem opSetslice_acc {cfg : Cfg} {s : State} {g : Id} {a b : Option Int} {xs : List Id}
    (h : (opSetslice cfg s g a b xs).2.isError = false) :
    Spec.apply (abs s) (.setslice g a b xs) = .ok (abs (opSetslice cfg s g a b xs).1, some .none) ∧
      (opSetslice cfg s g a b xs).2 = .none := by
  unfold opSetslice at h ⊢
  cases hr : checkValid cfg s g xs with
  | some r => rw [hr] at h; simp only at h; rw [refuse_isError] at h; cases h
  | none =>
    rw [hr] at h
    simp only at h ⊢
    refine ⟨?_, finishInsert_out h⟩
    simp only [Spec.apply]
    rw [finishInsert_abs]; rfl

theorem opDelitem_acc {cfg : Cfg} {s : State} {g : Id} {k : Int} (h : (opDelitem cfg s g k).2.isError = false) :
    Spec.apply (abs s) (.delitem g k) = .ok (abs (opDelitem cfg s g k).1, some .none) ∧
      (opDelitem cfg s g k).2 = .none := by
  unfold opDelitem finishRemove at h ⊢
  simp only at h ⊢
  cases hn : normIdx (s.children g).length k with
  | none => rw [hn] at h; cases h
  | some j =>
    have hn' : normIdx ((abs s).lists g).length k = some j := hn
    refine ⟨?_, ?_⟩
    · simp only [Spec.apply, hn']
      rw [updateRecord_abs]; rfl
    · rfl

theorem opDelslice_acc (cfg : Cfg) (s : State) (g : Id) (a b : Option Int) :
    Spec.apply (abs s) (.delslice g a b) = .ok (abs (opDelslice cfg s g a b).1, some .none) ∧
      (opDelslice cfg s g a b).2 = .none := by
  unfold opDelslice finishRemove
  refine ⟨?_, ?_⟩
  · simp only [Spec.apply]
    rw [updateRecord_abs]; rfl
  · rfl

theorem warnRepr_abs (s : State) (x : Id) : abs (warnRepr s x).1 = abs s := by
  unfold warnRepr
  have h := reprAll_same s [x]
  split <;> (rename_i heq; rw [heq] at h; exact h.abs)

theorem warnRepr_out {s : State} {x : Id} (h : (warnRepr s x).2.isError = false) : (warnRepr s x).2 = .id x := by
  unfold warnRepr at h ⊢
  split
  · rfl
  · rename_i heq; rw [heq] at h; cases h

theorem opDeleteLayer_acc {cfg : Cfg} {s : State} (i : Inv s) {x : Id} (h : (opDeleteLayer cfg s x).2.isError = false) :
    abs (opDeleteLayer cfg s x).1 = (abs s).eraseAll x ∧ (opDeleteLayer cfg s x).2 = .id x := by
  unfold opDeleteLayer at h ⊢
  by_cases h1 : (!s.isLayer x) = true
  · rw [if_pos h1] at h; cases h
  · rw [if_neg h1] at h ⊢
    cases hp : s.parent x with
    | none =>
      simp only [hp] at h ⊢
      refine ⟨?_, warnRepr_out h⟩
      rw [warnRepr_abs, eraseAll_of_detached]
      exact detached_of_not_listed_by_parent i (fun p' hp' => by rw [hp] at hp'; cases hp')
    | some p =>
      simp only [hp] at h ⊢
      by_cases hcp : (!s.cont p) = true
      · rw [if_pos hcp] at h ⊢
        refine ⟨?_, warnRepr_out h⟩
        rw [warnRepr_abs, eraseAll_of_detached]
        apply detached_of_not_listed_by_parent i
        intro p' hp' hx
        rw [hp] at hp'; cases hp'
        have := i.contOnly p (List.ne_nil_of_mem hx)
        simp [this] at hcp
      · rw [if_neg hcp] at h ⊢
        rw [detach_not_error]
        simp only [Bool.false_eq_true, if_false]
        unfold finishRemove
        exact ⟨by rw [updateRecord_abs, detach_abs i hp], rfl⟩

theorem upd_same {α : Type} (f : Id → α) (i : Id) (v : α) : upd f i v i = v := by simp [upd]

theorem wrap_acc (r2 : State × Out) (o : Out)
    (h : (if r2.2.isError = true then r2 else (r2.1, o)).2.isError = false) :
    r2.2.isError = false ∧ (if r2.2.isError = true then r2 else (r2.1, o)) = (r2.1, o) := by
  by_cases he : r2.2.isError = true
  · rw [if_pos he] at h; rw [he] at h; cases h
  · exact ⟨by simpa using he, by rw [if_neg he]⟩

theorem opMoveUp_acc {cfg : Cfg} {s : State} (i : Inv s) {x : Id} {k : Int} (h : (opMoveUp cfg s x k).2.isError = false) :
    (abs s).listed x = true ∧
    abs (opMoveUp cfg s x k).1 =
      { abs s with lists := fun c => if x ∈ (abs s).lists c then reinsert ((abs s).lists c) x k else (abs s).lists c } ∧
    (opMoveUp cfg s x k).2 = .id x := by
  unfold opMoveUp at h ⊢
  by_cases h1 : (!s.isLayer x) = true
  · rw [if_pos h1] at h; cases h
  · rw [if_neg h1] at h ⊢
    cases hp : s.parent x with
    | none => simp only [hp] at h; cases h
    | some p =>
      simp only [hp] at h ⊢
      by_cases hcp : (!s.cont p) = true
      · rw [if_pos hcp] at h; cases h
      · rw [if_neg hcp] at h ⊢
        by_cases hx : x ∈ s.children p
        · rw [if_pos hx] at h ⊢
          have hrem := opRemove_acc (opRemove_not_error_of_mem cfg s p x hx)
          rw [opRemove_not_error_of_mem cfg s p x hx] at h ⊢
          simp only [Bool.false_eq_true, if_false] at h ⊢
          refine ⟨?_, ?_⟩
          · apply List.any_eq_true.mpr
            exact ⟨p, List.mem_range.mpr (i.live p x hx).1, by simp [abs, hx]⟩
          · have hw := wrap_acc _ _ h
            rw [hw.2]
            have hins := opInsert_acc hw.1
            refine ⟨?_, rfl⟩
            · rw [hins.1, hrem.2.1]
              unfold S.setList abs
              simp only
              congr 1
              funext c
              by_cases hc : c = p
              · subst hc
                simp only [upd_same, hx, if_true, reinsert]
              · have hxc : x ∉ s.children c := fun hxc => hc (i.unique hxc hx)
                simp [upd, hc, hxc]
        · rw [if_neg hx] at h; rw [refuse_isError] at h; cases h

theorem moveTo_alloc_abs {cfg : Cfg} {s : State} (i : Inv s) (p : Id)
    (h : (opMoveToGroup cfg (alloc s .group none BBox.zero) s.next p).2.isError = false) :
    abs (opMoveToGroup cfg (alloc s .group none BBox.zero) s.next p).1 = moveTo ((abs s).alloc .group) s.next p :=
  (opMoveToGroup_acc (inv_alloc i .group none BBox.zero) h).1

theorem opNewGroup_acc {cfg : Cfg} {s : State} (i : Inv s) (p : Option Id) (h : (opNewGroup cfg s p).2.isError = false) :
    Spec.apply (abs s) (.newGroup p) = .ok (abs (opNewGroup cfg s p).1, some (.id s.next)) ∧
      (opNewGroup cfg s p).2 = .id s.next := by
  unfold opNewGroup at h ⊢
  cases p with
  | none => exact ⟨rfl, rfl⟩
  | some q =>
    simp only at h ⊢
    by_cases hg : s.isGroup q = true
    · simp only [hg, if_true] at h ⊢
      have hw := wrap_acc _ _ h
      rw [hw.2]
      refine ⟨?_, rfl⟩
      simp only [Spec.apply, isGroup_abs, hg, if_true]
      rw [moveTo_alloc_abs i q hw.1]
      rfl
    · simp only [hg, Bool.false_eq_true, if_false] at h ⊢
      refine ⟨?_, by first | rfl | trivial⟩
      simp only [Spec.apply, isGroup_abs, hg, Bool.false_eq_true, if_false]
      rfl

theorem glBody_acc {cfg : Cfg} {s : State} (i : Inv s) (hself : cfg.itemSelfCheck = true) (par : Option Id) (xs : List Id)
    (h : (glBody cfg s par xs).2.isError = false) :
    abs (glBody cfg s par xs).1 = groupInto (abs s) par xs ∧ (glBody cfg s par xs).2 = .id s.next := by
  unfold glBody at h ⊢
  unfold groupInto
  simp only at h ⊢
  by_cases hm : (moveAll cfg s.next (alloc s .group none BBox.zero) xs).2.isError = true
  · rw [if_pos hm] at h; rw [hm] at h; cases h
  · simp only [hm, Bool.false_eq_true, if_false] at h ⊢
    have hmv := moveAll_acc hself s.next _ (inv_alloc i .group none BBox.zero) xs (by simpa using hm)
    rw [alloc_abs] at hmv
    cases par with
    | none => exact ⟨hmv, by first | rfl | trivial⟩
    | some q =>
      simp only [isGroup_abs] at h ⊢
      by_cases hq : s.isGroup q = true
      · simp only [hq, if_true] at h ⊢
        have hw := wrap_acc _ _ h
        rw [hw.2]
        have hacc := opAppend_acc hw.1
        refine ⟨?_, by first | rfl | trivial⟩
        rw [hacc.1, hmv]
        rfl
      · simp only [hq, Bool.false_eq_true, if_false] at h ⊢
        exact ⟨hmv, by first | rfl | trivial⟩

theorem opGroupLayers_acc {s : State} (i : Inv s) (xs : List Id) (p : Option Id)
    (h : (opGroupLayers .current s xs p).2.isError = false) :
    Spec.apply (abs s) (.groupLayers xs p) = .ok (abs (opGroupLayers .current s xs p).1, some (.id s.next)) ∧
      (opGroupLayers .current s xs p).2 = .id s.next := by
  unfold opGroupLayers at h ⊢
  cases xs with
  | nil => cases h
  | cons x0 rest =>
    simp only at h ⊢
    by_cases h0 : (!s.isLayer x0) = true
    · rw [if_pos h0] at h; cases h
    · rw [if_neg h0] at h ⊢
      cases hp : glPre .current s (glParent .current s p x0) (x0 :: rest) with
      | some r => simp only [hp] at h; rw [refuse_isError] at h; cases h
      | none =>
        simp only [hp] at h ⊢
        have hb := glBody_acc i rfl (glParent .current s p x0) (x0 :: rest) h
        refine ⟨?_, hb.2⟩
        rw [hb.1, glParent_abs i p x0]
        rfl

theorem opSetVisible_abs (cfg : Cfg) (s : State) (x : Id) (v : Bool) : abs (opSetVisible cfg s x v).1 = abs s := by
  unfold opSetVisible
  split
  · rfl
  · simp only
    split
    · split
      · exact (invUp_same cfg s x).abs
      · exact (abs_congr rfl rfl rfl).trans (invUp_same cfg s x).abs
    · exact (abs_congr rfl rfl rfl).trans (invUp_same cfg s x).abs

theorem opSetOffset_abs (cfg : Cfg) (s : State) (x : Id) (h : Bool) (v : Int) : abs (opSetOffset cfg s x h v).1 = abs s := by
  unfold opSetOffset
  split
  · rfl
  · exact (abs_congr rfl rfl rfl).trans (invUp_same cfg s x).abs

theorem observe_acc {s : State} (o : Obs) (h : (observe s o).2.isError = false) :
    ∃ v, Spec.apply (abs s) (.observe o) = .ok (abs (observe s o).1, v) ∧ Agrees (observe s o).2 v := by
  have hsame := (observe_same s o).abs
  cases o with
  | bbox x => exact ⟨none, by simp only [Spec.apply]; rw [hsame], trivial⟩
  | size x => exact ⟨none, by simp only [Spec.apply]; rw [hsame], trivial⟩
  | repr x => exact ⟨none, by simp only [Spec.apply]; rw [hsame], trivial⟩
  | descendants g => exact ⟨none, by simp only [Spec.apply]; rw [hsame], trivial⟩
  | isVisible x => exact ⟨none, by simp only [Spec.apply]; rw [hsame], trivial⟩
  | getter x => exact ⟨none, rfl, trivial⟩
  | touch xs => exact ⟨none, by simp only [Spec.apply]; rw [hsame], trivial⟩
  | len g => exact ⟨_, rfl, rfl⟩
  | count g x => exact ⟨_, rfl, rfl⟩
  | contains g x => exact ⟨_, rfl, rfl⟩
  | index g x =>
    simp only [observe, Spec.apply] at h ⊢
    by_cases hx : x ∈ s.children g
    · have hx' : x ∈ (abs s).lists g := hx
      rw [if_pos hx, if_pos hx']
      exact ⟨_, rfl, rfl⟩
    · rw [if_neg hx] at h; rw [refuse_isError] at h; cases h
  | getitem g k =>
    simp only [observe, Spec.apply] at h ⊢
    cases hn : normIdx (s.children g).length k with
    | none => rw [hn] at h; cases h
    | some j =>
      have hn' : normIdx ((abs s).lists g).length k = some j := hn
      rw [hn] at h
      simp only [hn, hn'] at h ⊢
      cases hx : (s.children g)[j]? with
      | none => rw [hx] at h; cases h
      | some y =>
        have hx' : ((abs s).lists g)[j]? = some y := hx
        simp only [hx']
        exact ⟨_, rfl, rfl⟩

end PsdVerif.TreeSt
