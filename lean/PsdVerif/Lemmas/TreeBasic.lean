/-
Layer-tree model: vocabulary of the invariants (reachability, `Inv`, `SameTree`) and frame
lemmas: which fields the bookkeeping functions can touch.
-/
import PsdVerif.Model.TreeState

namespace PsdVerif.TreeSt

/-- `y` is listed below `a` (one or more list memberships). -/
inductive Reach (s : State) : Id → Id → Prop where
  | edge {c x : Id} : x ∈ s.children c → Reach s c x
  | step {c x y : Id} : x ∈ s.children c → Reach s x y → Reach s c y

theorem Reach.trans {s : State} {a b c : Id} (h1 : Reach s a b) (h2 : Reach s b c) : Reach s a c := by
  induction h1 with
  | edge h => exact .step h h2
  | step h _ ih => exact .step h (ih h2)

/-- the last list membership of a path -/
theorem Reach.last {s : State} {a y : Id} (h : Reach s a y) :
    ∃ c, y ∈ s.children c ∧ (c = a ∨ Reach s a c) := by
  induction h with
  | edge h => exact ⟨_, h, .inl rfl⟩
  | step h _ ih =>
    obtain ⟨c, hc, hac⟩ := ih
    refine ⟨c, hc, .inr ?_⟩
    cases hac with
    | inl e => subst e; exact .edge h
    | inr r => exact .step h r

theorem Reach.tail {s : State} {a c y : Id} (h : Reach s a c) (hy : y ∈ s.children c) : Reach s a y :=
  h.trans (.edge hy)

/-- paths only use list memberships: a state with the same lists has the same paths -/
theorem Reach.congr {s s' : State} (h : s'.children = s.children) {a b : Id} (r : Reach s a b) : Reach s' a b := by
  induction r with
  | edge hx => exact .edge (by rw [h]; exact hx)
  | step hx _ ih => exact .step (by rw [h]; exact hx) ih

/-- fewer memberships, fewer paths -/
theorem Reach.mono {s s' : State} (h : ∀ c x, x ∈ s'.children c → x ∈ s.children c) {a b : Id}
    (r : Reach s' a b) : Reach s a b := by
  induction r with
  | edge hx => exact .edge (h _ _ hx)
  | step hx _ ih => exact .step (h _ _ hx) ih

/-- `x` is listed nowhere -/
def Detached (s : State) (x : Id) : Prop := ∀ c, x ∉ s.children c

/-- The well-formedness invariant (I0: store hygiene, I1: back pointers, I2: single occurrence,
I3: acyclicity in rank form). Caches and dirty flags are not mentioned. -/
structure Inv (s : State) : Prop where
  /-- listed ids and the containers listing them are live objects -/
  live : ∀ c x, x ∈ s.children c → c < s.next ∧ x < s.next
  /-- only groups / artboards / documents list anything -/
  contOnly : ∀ c, s.children c ≠ [] → s.cont c = true
  /-- a document is never listed -/
  layerOnly : ∀ c x, x ∈ s.children c → s.kind x ≠ .doc
  /-- (I1) a listed layer reports its container as parent … -/
  parentOk : ∀ c x, x ∈ s.children c → s.parent x = some c
  /-- (I1) … and the container's document as its document -/
  psdOk : ∀ c x d, x ∈ s.children c → s.docOf c = some d → s.psd x = some d
  /-- (I2) no list contains a layer twice (with `parentOk`: no layer is listed twice at all) -/
  nodup : ∀ c, (s.children c).Nodup
  /-- (I3) the listing relation is well-founded: a rank decreases along every membership -/
  acyclic : ∃ rk : Id → Nat, ∀ c x, x ∈ s.children c → rk x < rk c

/-- (I2) in its global form: a layer is listed by at most one container -/
theorem Inv.unique {s : State} (h : Inv s) {c c' x : Id} (h1 : x ∈ s.children c) (h2 : x ∈ s.children c') :
    c = c' := by
  have a := h.parentOk c x h1
  have b := h.parentOk c' x h2
  rw [a] at b
  exact Option.some.inj b

/-- (I3) no group is its own ancestor -/
theorem Inv.no_cycle {s : State} (h : Inv s) (x : Id) : ¬ Reach s x x := by
  obtain ⟨rk, hrk⟩ := h.acyclic
  have key : ∀ a b, Reach s a b → rk b < rk a := by
    intro a b r
    induction r with
    | edge hx => exact hrk _ _ hx
    | step hx _ ih => exact Nat.lt_trans ih (hrk _ _ hx)
  intro r
  exact Nat.lt_irrefl _ (key x x r)

theorem Inv.not_self {s : State} (h : Inv s) {c x : Id} (hx : x ∈ s.children c) : x ≠ c := by
  intro e; subst e; exact h.no_cycle x (.edge hx)

/-- everything except the caches and the dirty flags -/
structure SameTree (s s' : State) : Prop where
  next : s'.next = s.next
  limit : s'.limit = s.limit
  kind : s'.kind = s.kind
  children : s'.children = s.children
  parent : s'.parent = s.parent
  psd : s'.psd = s.psd
  visible : s'.visible = s.visible
  box : s'.box = s.box

theorem SameTree.refl (s : State) : SameTree s s := ⟨rfl, rfl, rfl, rfl, rfl, rfl, rfl, rfl⟩

theorem SameTree.trans {a b c : State} (h1 : SameTree a b) (h2 : SameTree b c) : SameTree a c :=
  ⟨h2.next.trans h1.next, h2.limit.trans h1.limit, h2.kind.trans h1.kind, h2.children.trans h1.children,
   h2.parent.trans h1.parent, h2.psd.trans h1.psd, h2.visible.trans h1.visible, h2.box.trans h1.box⟩

theorem SameTree.symm {a b : State} (h : SameTree a b) : SameTree b a :=
  ⟨h.next.symm, h.limit.symm, h.kind.symm, h.children.symm, h.parent.symm, h.psd.symm, h.visible.symm, h.box.symm⟩

theorem SameTree.docOf {s s' : State} (h : SameTree s s') (g : Id) : s'.docOf g = s.docOf g := by
  simp [State.docOf, h.kind, h.psd]

theorem SameTree.cont {s s' : State} (h : SameTree s s') (g : Id) : s'.cont g = s.cont g := by
  simp [State.cont, h.kind]

theorem SameTree.inv {s s' : State} (h : SameTree s s') (i : Inv s) : Inv s' where
  live := by rw [h.children, h.next]; exact i.live
  contOnly := by intro c; rw [h.children, h.cont]; exact i.contOnly c
  layerOnly := by rw [h.children, h.kind]; exact i.layerOnly
  parentOk := by rw [h.children, h.parent]; exact i.parentOk
  psdOk := by intro c x d; rw [h.children, h.docOf, h.psd]; exact i.psdOk c x d
  nodup := by rw [h.children]; exact i.nodup
  acyclic := by rw [h.children]; exact i.acyclic

/-- the fields the invariant speaks about -/
structure SameStruct (s s' : State) : Prop where
  next : s'.next = s.next
  kind : s'.kind = s.kind
  children : s'.children = s.children
  parent : s'.parent = s.parent
  psd : s'.psd = s.psd

theorem SameTree.toStruct {s s' : State} (h : SameTree s s') : SameStruct s s' :=
  ⟨h.next, h.kind, h.children, h.parent, h.psd⟩

theorem SameStruct.trans {a b c : State} (h1 : SameStruct a b) (h2 : SameStruct b c) : SameStruct a c :=
  ⟨h2.next.trans h1.next, h2.kind.trans h1.kind, h2.children.trans h1.children,
   h2.parent.trans h1.parent, h2.psd.trans h1.psd⟩

theorem SameStruct.inv {s s' : State} (h : SameStruct s s') (i : Inv s) : Inv s' where
  live := by rw [h.children, h.next]; exact i.live
  contOnly := by
    intro c; rw [h.children]
    have : s'.cont c = s.cont c := by simp [State.cont, h.kind]
    rw [this]; exact i.contOnly c
  layerOnly := by rw [h.children, h.kind]; exact i.layerOnly
  parentOk := by rw [h.children, h.parent]; exact i.parentOk
  psdOk := by
    intro c x d; rw [h.children, h.psd]
    have : s'.docOf c = s.docOf c := by simp [State.docOf, h.kind, h.psd]
    rw [this]; exact i.psdOk c x d
  nodup := by rw [h.children]; exact i.nodup
  acyclic := by rw [h.children]; exact i.acyclic

/-! ### Traversals read neither caches nor dirty flags -/

theorem descList_congr {s s' : State} (h : SameTree s s') (r r' : Id → Except Err (List Id))
    (hr : ∀ c, r' c = r c) (l : List Id) : descList r' s' l = descList r s l := by
  induction l with
  | nil => rfl
  | cons c cs ih => simp only [descList, h.cont, hr, ih]

theorem descF_congr {s s' : State} (h : SameTree s s') (f : Nat) (g : Id) : descF s' f g = descF s f g := by
  induction f generalizing g with
  | zero => rfl
  | succ f ih =>
    simp only [descF, h.children]
    exact descList_congr h _ _ (fun c => ih c) _

theorem desc_congr {s s' : State} (h : SameTree s s') (g : Id) : desc s' g = desc s g := by
  simp only [desc, h.limit, descF_congr h]

theorem isVisF_congr {s s' : State} (h : SameTree s s') (f : Nat) (x : Id) : isVisF s' f x = isVisF s f x := by
  induction f generalizing x with
  | zero => rfl
  | succ f ih => simp only [isVisF, h.kind, h.visible, h.parent, ih]

theorem isVis_congr {s s' : State} (h : SameTree s s') (x : Id) : isVis s' x = isVis s x := by
  simp only [isVis, h.limit, isVisF_congr h]

theorem extList_congr {s s' : State} (h : SameTree s s') (r r' : Id → Except Err BBox)
    (hr : ∀ c, r' c = r c) (l : List Id) : extList r' s' l = extList r s l := by
  induction l with
  | nil => rfl
  | cons c cs ih => simp only [extList, isVis_congr h, h.cont, hr, ih, h.box]

theorem extF_congr {s s' : State} (h : SameTree s s') (f : Nat) (g : Id) : extF s' f g = extF s f g := by
  induction f generalizing g with
  | zero => rfl
  | succ f ih =>
    simp only [extF, h.children]
    rw [extList_congr h _ _ (fun c => ih c)]

theorem extractBbox_congr {s s' : State} (h : SameTree s s') (g : Id) : extractBbox s' g = extractBbox s g := by
  simp only [extractBbox, h.limit, extF_congr h]

/-! ### What the bookkeeping touches -/

theorem sameTree_cache (s : State) (c : Id → Option BBox) : SameTree s { s with cache := c } :=
  ⟨rfl, rfl, rfl, rfl, rfl, rfl, rfl, rfl⟩

theorem sameTree_blocks (s : State) (b : Id → List Nat) : SameTree s { s with blocks := b } :=
  ⟨rfl, rfl, rfl, rfl, rfl, rfl, rfl, rfl⟩

theorem sameTree_dirty (s : State) (d : Id → Bool) : SameTree s { s with dirty := d } :=
  ⟨rfl, rfl, rfl, rfl, rfl, rfl, rfl, rfl⟩

theorem clearCache_same (s : State) (x : Id) : SameTree s (clearCache s x) := sameTree_cache s _

theorem clearConts_same (s : State) (ds : List Id) : SameTree s (clearConts s ds) := sameTree_cache s _

theorem markDirty_same (s : State) (g : Id) : SameTree s (markDirty s g) := by
  unfold markDirty
  split
  · exact sameTree_dirty s _
  · exact SameTree.refl s

theorem invUpF_same (cfg : Cfg) (f : Nat) (seen : List Id) (s : State) (x : Id) :
    SameTree s (invUpF cfg f seen s x) := by
  induction f generalizing seen s x with
  | zero => exact SameTree.refl s
  | succ f ih =>
    simp only [invUpF]
    split
    · exact SameTree.refl s
    · split
      · exact clearCache_same s x
      · have h1 : SameTree s (if s.cont x = true then clearCache s x else s) := by
          split
          · exact clearCache_same s x
          · exact SameTree.refl s
        split
        · exact h1
        · split
          · exact h1
          · exact h1.trans (ih _ _ _)

theorem invUp_same (cfg : Cfg) (s : State) (x : Id) : SameTree s (invUp cfg s x) := invUpF_same cfg _ _ s x

theorem updateRecord_same (cfg : Cfg) (s : State) (g : Id) : SameTree s (updateRecord cfg s g) := by
  unfold updateRecord
  split
  · exact (markDirty_same s g).trans (invUp_same cfg _ g)
  · exact markDirty_same s g

theorem readCache_same (s : State) (x : Id) : SameTree s (readCache s x).1 := by
  unfold readCache
  split
  · exact SameTree.refl s
  · split
    · exact sameTree_cache s _
    · split
      · exact SameTree.refl s
      · exact sameTree_cache s _

theorem obsBbox_same (s : State) (x : Id) : SameTree s (obsBbox s x).1 := by
  unfold obsBbox
  split
  · exact SameTree.refl s
  · have := readCache_same s x
    split <;> simp_all

theorem reprAll_same (s : State) (l : List Id) : SameTree s (reprAll s l).1 := by
  induction l generalizing s with
  | nil => exact SameTree.refl s
  | cons x xs ih =>
    simp only [reprAll]
    split
    · exact ih s
    · have h := obsBbox_same s x
      split
      · rename_i s1 e heq; rw [heq] at h; exact h
      · rename_i s1 b heq; rw [heq] at h; exact h.trans (ih s1)

theorem refuse_same (s : State) (r : Err × List Id) : SameTree s (refuse s r).1 := by
  unfold refuse
  have h := reprAll_same s r.2
  split <;> (rename_i heq; rw [heq] at h; exact h)

theorem refuse_isError (s : State) (r : Err × List Id) : (refuse s r).2.isError = true := by
  unfold refuse
  split <;> rfl

theorem touchAll_same (s : State) (l : List Id) : SameTree s (touchAll s l).1 := by
  induction l generalizing s with
  | nil => exact SameTree.refl s
  | cons x xs ih =>
    simp only [touchAll]
    have h := obsBbox_same s x
    split
    · rename_i s1 e heq; rw [heq] at h; exact h
    · rename_i s1 b heq; rw [heq] at h; exact h.trans (ih s1)

theorem observe_same (s : State) (o : Obs) : SameTree s (observe s o).1 := by
  cases o with
  | bbox x =>
    simp only [observe]
    have h := obsBbox_same s x
    split <;> (rename_i heq; rw [heq] at h; exact h)
  | size x =>
    simp only [observe]
    split
    · exact SameTree.refl s
    · have h := obsBbox_same s x
      split <;> (rename_i heq; rw [heq] at h; exact h)
  | repr x =>
    simp only [observe]
    split
    · exact SameTree.refl s
    · have h := obsBbox_same s x
      split <;> (rename_i heq; rw [heq] at h; exact h)
  | descendants g => simp only [observe]; split <;> exact SameTree.refl s
  | len g => exact SameTree.refl s
  | index g x =>
    simp only [observe]
    split
    · exact SameTree.refl s
    · exact refuse_same s _
  | count g x => exact SameTree.refl s
  | getitem g i =>
    simp only [observe]
    split
    · exact SameTree.refl s
    · split <;> exact SameTree.refl s
  | contains g x => exact SameTree.refl s
  | isVisible x => simp only [observe]; split <;> exact SameTree.refl s
  | getter x => exact SameTree.refl s
  | touch xs => exact touchAll_same s xs

end PsdVerif.TreeSt
