/-
C02 on the payload layer — payloads inside their containers: the typed image resource (`ImageResource.read` with the
`TYPES[key].frombytes` dispatch), the typed resource section, the document with typed resources, and a payload inside a
skeleton tagged block / image resource.
-/
import PsdVerif.Lemmas.PayloadResave2
import PsdVerif.Lemmas.Payload3Typed
import PsdVerif.Lemmas.Lenient2

namespace PsdVerif.Payload3
open PsdVerif PsdVerif.Codec PsdVerif.Psd PsdVerif.Payload PsdVerif.Payload.PCodec

variable (tb : Descriptor.Tables)

/-- the side condition of a class as an image-resource payload: only the slices have one (C01's `chainOK`) -/
def RClass.ResaveOK : (c : RClass) → c.Val → Prop
  | .slices => Slices.ResaveOK
  | _ => fun _ => True

theorem RClass.decOKIf (ht : Descriptor.TermsFour tb) : ∀ c : RClass, DecOKIf (c.codec tb) c.ResaveOK
  | .resolutionInfo => ResolutionInfo.decOK.toIf _
  | .alphaNamesPascal => AlphaNamesPascal.decOK.toIf _
  | .pascalString => PascalString.decOK.toIf _
  | .color => Payload.Color.decOK.toIf _
  | .printFlags => PrintFlags.decOK.toIf _
  | .halftoneScreens => HalftoneScreens.decOK.toIf _
  | .transferFunctions => TransferFunctions.decOK.toIf _
  | .shortInteger => ShortInteger.decOK.toIf _
  | .layerGroupInfo => LayerGroupInfo.decOK.toIf _
  | .gridGuidesInfo => GridGuidesInfo.decOK.toIf _
  | .thumbnailV4 => Thumbnail.decOK.toIf _
  | .byte => Byte.decOK.toIf _
  | .thumbnail => Thumbnail.decOK.toIf _
  | .integer => Integer.decOK.toIf _
  | .alphaNamesUnicode => AlphaNamesUnicode.decOK.toIf _
  | .slices => Slices.decOKIf tb ht
  | .stringElement => (stringElement_decOK 1 1 (Or.inl rfl) (by decide)).toIf _
  | .alphaIdentifiers => AlphaIdentifiers.decOK.toIf _
  | .urlList => URLList.decOK.toIf _
  | .versionInfo => VersionInfo.decOK.toIf _
  | .printScale => PrintScale.decOK.toIf _
  | .pixelAspectRatio => PixelAspectRatio.decOK.toIf _
  | .descriptorBlock => (DescriptorResource.decOK tb ht).toIf _
  | .layerSelectionIDs => LayerSelectionIDs.decOK.toIf _
  | .layerGroupEnabledIDs => LayerGroupEnabledIDs.decOK.toIf _
  | .displayInfo => DisplayInfo.decOK.toIf _
  | .printFlagsInfo => PrintFlagsInfo.decOK.toIf _

namespace TRes

/-- the side conditions of a typed resource: the payload's own, and the length field of the re-encoded payload -/
def ResaveOK (r : TRes) : Prop :=
  (match r.data with
   | .raw _ => True
   | .typed c v => c.ResaveOK v) ∧ FitsU 4 (r.data.encT tb).length

/-- `ImageResource.read` with the payload dispatch: what it returns is a well-formed typed resource that the writer
accepts -/
theorem dec_ok (ht : Descriptor.TermsFour tb) {d : B} {p : Nat} {r : TRes} {p' : Nat} (h : TRes.dec tb d p = .ok (r, p'))
    (hl : r.ResaveOK tb) : r.WF tb ∧ r.Fits tb := by
  simp only [TRes.dec, bind, Except.bind] at h
  ebind h; rename_i x1 h1; obtain ⟨sig, q1⟩ := x1; simp only at h
  ebind h; rename_i x2 h2; obtain ⟨key, q2⟩ := x2; simp only at h
  ebind h; rename_i x3 h3; obtain ⟨name, q3⟩ := x3; simp only at h
  ebind h; rename_i x4 h4; obtain ⟨data, q4⟩ := x4; simp only at h
  ebind h; rename_i pl hpl
  ebind h; rename_i hsig
  cases h
  have hflat : (TRes.flat tb ⟨sig, key, name, pl⟩).WF := ⟨hsig, (readU_ok h2).1, readPascal_ok h3, hl.2⟩
  unfold TRes.typedData at hpl
  split at hpl
  · rename_i c hc
    ebind hpl; rename_i v q hv
    cases hpl
    obtain ⟨w, f⟩ := RClass.decOKIf tb ht c data 0 v q hv hl.1
    exact ⟨⟨hflat, f, hc, w⟩, f, hflat.2⟩
  · rename_i hc
    cases hpl
    exact ⟨⟨hflat, trivial, hc⟩, trivial, hflat.2⟩

end TRes

/-- `ImageResources.read` with typed items -/
theorem tresourcesDec_ok (ht : Descriptor.TermsFour tb) {d : B} {p : Nat} {rs : List TRes} {p' : Nat}
    (h : tresourcesDec tb d p = .ok (rs, p')) (hl : ∀ r ∈ rs, r.ResaveOK tb) :
    (∀ r ∈ rs, r.WF tb ∧ r.Fits tb) ∧ (rs.map TRes.key).Nodup := by
  simp only [tresourcesDec, bind, Except.bind] at h
  ebind h; rename_i x1 h1
  ebind h; rename_i x2 h2
  cases h
  refine ⟨fun r hr => ?_, nodup_odict _ _⟩
  obtain ⟨q, q', _, hq⟩ := readWhile_ok h2 r (mem_odict _ _ _ hr)
  exact TRes.dec_ok tb ht (optItem_some hq) (hl r hr)

namespace ResPSD

/-- the side conditions of the typed resources of a document -/
def ResourcesOK (x : ResPSD) : Prop := ∀ r ∈ x.resources, r.ResaveOK tb

/-- `PSD.read` with typed resources: every resource it returns is well formed and writable; the resource ids are distinct -/
theorem read_resources_ok (ht : Descriptor.TermsFour tb) {b : B} {p : Nat} {x : ResPSD} {p' : Nat}
    (h : ResPSD.read tb b p = .ok (x, p')) (hl : x.ResourcesOK tb) :
    (∀ r ∈ x.resources, r.WF tb ∧ r.Fits tb) ∧ (x.resources.map TRes.key).Nodup := by
  simp only [ResPSD.read, bind, Except.bind] at h
  ebind h; rename_i x1 h1
  ebind h; rename_i x2 h2
  ebind h; rename_i x3 h3
  ebind h; rename_i x4 h4
  ebind h; rename_i x5 h5
  cases h
  exact tresourcesDec_ok tb ht h3 hl

end ResPSD

/-! ### a payload inside the skeleton's containers -/

/-- A tagged block the skeleton reader accepted, whose payload the class's reader accepted (`TaggedBlock.read` runs
`kls.frombytes(data)` on exactly the bytes of the length block): the block with the re-encoded payload is a well-formed
block, it is read back as itself wherever it is written, and its payload is read back as the value - provided the
re-encoded payload fits the length field of the block. -/
theorem tagged_block_resave {α : Type} {c : PCodec α} {L : α → Prop} (hc : DecOKIf c L) (hr : c.RtAtEnd) (ver pad : Nat)
    (hp : pad = 1 ∨ pad = 2 ∨ pad = 4) {d : B} {p : Nat} {t : TaggedBlock} {p' : Nat}
    (hd : TaggedBlock.dec ver pad d p = .ok (some t, p')) {v : α} {n : Nat} (hv : c.dec t.data 0 = .ok (v, n)) (hl : L v)
    (hlen : FitsU (tbLenW ver t.key) (c.encT v).length) :
    c.enc v = .ok (c.encT v) ∧ (⟨t.signature, t.key, c.encT v⟩ : TaggedBlock).WF ver ∧
      ∀ pre post : B,
        TaggedBlock.dec ver pad (pre ++ (⟨t.signature, t.key, c.encT v⟩ : TaggedBlock).encT ver pad ++ post) pre.length =
            .ok (some ⟨t.signature, t.key, c.encT v⟩, pre.length + ((⟨t.signature, t.key, c.encT v⟩ : TaggedBlock).encT ver pad).length) ∧
          c.dec (c.encT v) 0 = .ok (v, c.consumed v) := by
  obtain ⟨hw, hf⟩ := hc t.data 0 v n hv hl
  have henc : c.enc v = .ok (c.encT v) := by simp only [PCodec.enc, if_pos hf]
  have htwf := TaggedBlock.dec_ok hd
  have hwf' : (⟨t.signature, t.key, c.encT v⟩ : TaggedBlock).WF ver := ⟨htwf.1, htwf.2.1, hlen⟩
  exact ⟨henc, hwf', fun pre post => tagged_block_payload hr ver pad hp _ hwf' v hw henc pre post⟩

/-- the same for an image resource of the skeleton (`ImageResource.read` runs `TYPES[key].frombytes(data)`) -/
theorem image_resource_resave {α : Type} {c : PCodec α} {L : α → Prop} (hc : DecOKIf c L) (hr : c.RtAtEnd)
    {d : B} {p : Nat} {r : Resource} {p' : Nat} (hd : Resource.dec d p = .ok (r, p')) {v : α} {n : Nat}
    (hv : c.dec r.data 0 = .ok (v, n)) (hl : L v) (hlen : FitsU 4 (c.encT v).length) :
    c.enc v = .ok (c.encT v) ∧ (⟨r.signature, r.key, r.name, c.encT v⟩ : Resource).WF ∧
      ∀ pre post : B,
        Resource.dec (pre ++ (⟨r.signature, r.key, r.name, c.encT v⟩ : Resource).encT ++ post) pre.length =
            .ok (⟨r.signature, r.key, r.name, c.encT v⟩, pre.length + (⟨r.signature, r.key, r.name, c.encT v⟩ : Resource).encT.length) ∧
          c.dec (c.encT v) 0 = .ok (v, c.consumed v) := by
  obtain ⟨hw, hf⟩ := hc r.data 0 v n hv hl
  have henc : c.enc v = .ok (c.encT v) := by simp only [PCodec.enc, if_pos hf]
  have hrwf := Resource.dec_ok hd
  have hwf' : (⟨r.signature, r.key, r.name, c.encT v⟩ : Resource).WF := ⟨hrwf.1, hrwf.2.1, hrwf.2.2.1, hlen⟩
  exact ⟨henc, hwf', fun pre post => resourcePayload_of hr _ hwf' v hw henc pre post⟩

/-! ### the side conditions are decidable (for the `decide`d examples) -/

instance (x : SlicesV6) : Decidable (SlicesV6.ResaveOK x) := by unfold SlicesV6.ResaveOK; exact inferInstance
instance (x : Slices) : Decidable (Slices.ResaveOK x) := by
  unfold Slices.ResaveOK; cases x.data <;> simp only <;> exact inferInstance
def slicesDec (v : Slices) : Decidable (Slices.ResaveOK v) := inferInstance

instance RClass.decResaveOK : (c : RClass) → (v : c.Val) → Decidable (c.ResaveOK v)
  | .resolutionInfo, _ => isTrue trivial
  | .alphaNamesPascal, _ => isTrue trivial
  | .pascalString, _ => isTrue trivial
  | .color, _ => isTrue trivial
  | .printFlags, _ => isTrue trivial
  | .halftoneScreens, _ => isTrue trivial
  | .transferFunctions, _ => isTrue trivial
  | .shortInteger, _ => isTrue trivial
  | .layerGroupInfo, _ => isTrue trivial
  | .gridGuidesInfo, _ => isTrue trivial
  | .thumbnailV4, _ => isTrue trivial
  | .byte, _ => isTrue trivial
  | .thumbnail, _ => isTrue trivial
  | .integer, _ => isTrue trivial
  | .alphaNamesUnicode, _ => isTrue trivial
  | .slices, v => slicesDec v
  | .stringElement, _ => isTrue trivial
  | .alphaIdentifiers, _ => isTrue trivial
  | .urlList, _ => isTrue trivial
  | .versionInfo, _ => isTrue trivial
  | .printScale, _ => isTrue trivial
  | .pixelAspectRatio, _ => isTrue trivial
  | .descriptorBlock, _ => isTrue trivial
  | .layerSelectionIDs, _ => isTrue trivial
  | .layerGroupEnabledIDs, _ => isTrue trivial
  | .displayInfo, _ => isTrue trivial
  | .printFlagsInfo, _ => isTrue trivial
instance (tb : Descriptor.Tables) (r : TRes) : Decidable (r.ResaveOK tb) := by
  unfold TRes.ResaveOK
  cases r.data with
  | raw b => simp only; exact inferInstance
  | typed c v => simp only; exact @instDecidableAnd _ _ (RClass.decResaveOK c v) inferInstance
instance (tb : Descriptor.Tables) (x : ResPSD) : Decidable (x.ResourcesOK tb) := by unfold ResPSD.ResourcesOK; exact inferInstance


end PsdVerif.Payload3
