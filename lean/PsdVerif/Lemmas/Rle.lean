/-
Helper lemmas for C05 (PackBits): loop invariants of the encoder model,
the specification decoder on the encoder output, decoder invariants.
Core Lean only.
-/
import PsdVerif.Model.Rle

namespace PsdVerif.Rle
open PsdVerif

/-! ### `eqAt` -/

theorem eqAt_lt {d : Bytes} {a b : Nat} (h : eqAt d a b = true) : a < d.size ∧ b < d.size := by
  unfold eqAt at h
  split at h
  · rename_i x y hx hy
    have := (Array.getElem?_eq_some_iff.mp hx).1
    have := (Array.getElem?_eq_some_iff.mp hy).1
    omega
  · simp at h

theorem eqAt_opt {d : Bytes} {a b : Nat} (h : eqAt d a b = true) : d[a]? = d[b]? := by
  unfold eqAt at h
  split at h
  · rename_i x y hx hy
    simp at h; simp [hx, hy, h]
  · simp at h

theorem eqAt_of_opt {d : Bytes} {a b : Nat} (ha : a < d.size) (hb : b < d.size)
    (h : d[a]? = d[b]?) : eqAt d a b = true := by
  unfold eqAt
  rw [Array.getElem?_eq_getElem ha, Array.getElem?_eq_getElem hb] at h
  rw [Array.getElem?_eq_getElem ha, Array.getElem?_eq_getElem hb]
  simp at h; simp [h]

/-! ### Run loop invariant -/

/-- all bytes at positions `i..j` equal the byte at `i`. -/
def AllEq (d : Bytes) (i j : Nat) : Prop := ∀ k, i ≤ k → k ≤ j → d[k]? = d[i]?

theorem AllEq.refl (d : Bytes) (i : Nat) : AllEq d i i := by
  intro k h1 h2; have : k = i := by omega
  subst this; rfl

theorem AllEq.step {d : Bytes} {i j : Nat} (h : AllEq d i j) (hij : i ≤ j)
    (he : eqAt d j (j + 1) = true) : AllEq d i (j + 1) := by
  intro k h1 h2
  by_cases hk : k ≤ j
  · exact h k h1 hk
  · have : k = j + 1 := by omega
    subst this
    rw [← eqAt_opt he]; exact h j hij (Nat.le_refl _)

theorem runLoop_spec (d : Bytes) (i j : Nat) (hij : i ≤ j) (hj : j < d.size)
    (hb : j - i ≤ 127) (ha : AllEq d i j) :
    runLoop d i j < d.size ∧ runLoop d i j - i ≤ 127 ∧ AllEq d i (runLoop d i j) := by
  fun_induction runLoop d i j
  · exact ⟨hj, hb, ha⟩
  · exact ⟨hj, hb, ha⟩
  · rename_i j h1 h2 h3 ih
    simp only [maxLen] at h2
    have h4 : j + 1 < d.size := by omega
    have h5 : eqAt d j (j + 1) = true := by
      cases hh : eqAt d j (j + 1)
      · exact absurd (Or.inr (by simp [hh])) h3
      · rfl
    exact ih (by omega) h4 (by omega) (ha.step hij h5)
  · exact ⟨hj, hb, ha⟩

/-- Entered from the outer `if` (two equal bytes at `i`), the run loop advances. -/
theorem runLoop_progress (d : Bytes) (i : Nat) (he : eqAt d i (i + 1) = true) :
    i + 1 ≤ runLoop d i i := by
  have hlt := eqAt_lt he
  rw [runLoop]
  simp only [hlt.1, if_true, Nat.sub_self, maxLen]
  have : ¬ (0 ≥ 127) := by omega
  simp only [this, if_false]
  have : ¬ (i + 1 ≥ d.size ∨ (!eqAt d i (i + 1)) = true) := by
    simp [he]; omega
  simp only [this, if_false]
  exact le_runLoop d i (i + 1)

/-- Three equal bytes at `i`: the run loop advances by two. -/
theorem runLoop_progress2 (d : Bytes) (i : Nat) (he : eqAt d i (i + 1) = true)
    (he2 : eqAt d (i + 1) (i + 2) = true) : i + 2 ≤ runLoop d i i := by
  have hlt := eqAt_lt he
  have hlt2 := eqAt_lt he2
  rw [runLoop]
  simp only [hlt.1, if_true, Nat.sub_self, maxLen]
  have : ¬ (0 ≥ 127) := by omega
  simp only [this, if_false]
  have : ¬ (i + 1 ≥ d.size ∨ (!eqAt d i (i + 1)) = true) := by
    simp [he]; omega
  simp only [this, if_false]
  rw [runLoop]
  simp only [hlt.2, if_true, maxLen]
  have : ¬ (i + 1 - i ≥ 127) := by omega
  simp only [this, if_false]
  have : ¬ (i + 1 + 1 ≥ d.size ∨ (!eqAt d (i + 1) (i + 1 + 1)) = true) := by
    simp [he2]; omega
  simp only [this, if_false]
  exact le_runLoop d i (i + 1 + 1)

/-! ### Literal loop invariant -/

theorem litLoop_bounds (d : Bytes) (i j : Nat) (hj : j ≤ d.size) (hb : j - i ≤ 127) :
    litLoop d i j ≤ d.size ∧ litLoop d i j - i ≤ 127 := by
  fun_induction litLoop d i j
  all_goals (try simp only [maxLen] at *)
  all_goals (try exact ⟨hj, hb⟩)
  all_goals (rename_i ih; exact ih (by omega) (by omega))

/-- Why the literal loop stopped. -/
theorem litLoop_exit (d : Bytes) (i j : Nat) (hij : i ≤ j) (hj : j ≤ d.size) (hb : j - i ≤ 127) :
    let r := litLoop d i j
    r = d.size ∨ r - i = 127 ∨
    (eqAt d r (r + 1) = true ∧ (r + 2 = d.size ∨ 125 ≤ r - i)) ∨
    (eqAt d r (r + 1) = true ∧ eqAt d (r + 1) (r + 2) = true) := by
  fun_induction litLoop d i j
  all_goals (try simp only [maxLen] at *)
  · right; left; omega
  · rename_i ih; exact ih (by omega) (by omega) (by omega)
  · rename_i h
    right; right; left
    refine ⟨h.2.2, ?_⟩
    omega
  · rename_i h
    right; right; right
    exact ⟨h.2.1, h.2.2⟩
  · rename_i ih; exact ih (by omega) (by omega) (by omega)
  · left; omega

/-! ### Lists of the array -/

theorem drop_eq_cons (d : Bytes) (i : Nat) (h : i < d.size) :
    d.toList.drop i = d[i] :: d.toList.drop (i + 1) := by
  rw [List.drop_eq_getElem_cons (by simpa using h)]
  simp

theorem drop_run (d : Bytes) (i j : Nat) (hij : i ≤ j) (hj : j < d.size) (ha : AllEq d i j) :
    d.toList.drop i = List.replicate (j - i + 1) (d[i]'(by omega)) ++ d.toList.drop (j + 1) := by
  apply List.ext_getElem?
  intro k
  rw [List.getElem?_append, List.getElem?_drop, List.getElem?_drop]
  simp only [List.length_replicate, List.getElem?_replicate, Array.getElem?_toList]
  split
  · rename_i hk
    rw [ha (i + k) (by omega) (by omega)]
    exact Array.getElem?_eq_getElem (by omega)
  · rename_i hk
    congr 1; omega

theorem drop_extract (d : Bytes) (i j : Nat) (hij : i ≤ j) (hj : j ≤ d.size) :
    d.toList.drop i = (d.extract i j).toList ++ d.toList.drop j := by
  apply List.ext_getElem?
  intro k
  rw [List.getElem?_append, List.getElem?_drop, List.getElem?_drop]
  simp only [Array.getElem?_toList, Array.length_toList, Array.size_extract]
  have : min j d.size = j := by omega
  rw [this]
  split
  · rename_i hk
    rw [Array.getElem?_extract]; simp; omega
  · rename_i hk
    congr 1; omega

theorem extract_length (d : Bytes) (i j : Nat) (hj : j ≤ d.size) :
    (d.extract i j).toList.length = j - i := by
  simp; omega

/-! ### Header bytes -/

theorem toNat_ofNat_run (k : Nat) (h1 : 1 ≤ k) (h2 : k ≤ 127) :
    (UInt8.ofNat (256 - k)).toNat = 256 - k := by
  simp [UInt8.toNat_ofNat']; omega

theorem toNat_ofNat_lit (k : Nat) (h2 : k < 256) : (UInt8.ofNat k).toNat = k := by
  simp [UInt8.toNat_ofNat']; omega

/-! ### One step of the encoder, with everything the later proofs need -/

/-- Shape of `encFrom d i` at a position inside the data. -/
theorem encFrom_step (d : Bytes) (i : Nat) (h : i < d.size) :
    (∃ j, eqAt d i (i + 1) = true ∧ i + 1 ≤ j ∧ j < d.size ∧ j - i ≤ 127 ∧ AllEq d i j ∧
        j = runLoop d i i ∧
        encFrom d i = UInt8.ofNat (256 - (j - i)) :: d[i] :: encFrom d (j + 1)) ∨
    (∃ j, ¬ (eqAt d i (i + 1) = true) ∧ i < j ∧ j ≤ d.size ∧ j - i ≤ 127 ∧ j = litLoop d i i ∧
        encFrom d i = UInt8.ofNat (j - i - 1) :: ((d.extract i j).toList ++ encFrom d j)) := by
  by_cases hc : i + 1 < d.size ∧ eqAt d i (i + 1) = true
  · left
    have hs := runLoop_spec d i i (Nat.le_refl _) h (by omega) (AllEq.refl d i)
    have hp := runLoop_progress d i hc.2
    refine ⟨runLoop d i i, hc.2, hp, hs.1, hs.2.1, hs.2.2, rfl, ?_⟩
    rw [encFrom]; simp [h, hc]
  · right
    have hb := litLoop_bounds d i i (by omega) (by omega)
    have hp := litLoop_progress d i h hc
    have hne : ¬ (eqAt d i (i + 1) = true) := fun he => hc ⟨(eqAt_lt he).2, he⟩
    refine ⟨litLoop d i i, hne, hp, hb.1, hb.2, rfl, ?_⟩
    rw [encFrom]; simp only [h, hc, dite_true, dite_false]

theorem encFrom_end (d : Bytes) (i : Nat) (h : d.size ≤ i) : encFrom d i = [] := by
  rw [encFrom]; simp; omega

/-! ### The specification decoder expands the encoder output to the input -/

theorem specDec_cons (h : UInt8) (t : List UInt8) :
    specDec (h :: t) =
      if h.toNat < 128 then
        if h.toNat + 1 ≤ t.length then
          (specDec (t.drop (h.toNat + 1))).map (t.take (h.toNat + 1) ++ ·)
        else none
      else if h.toNat = 128 then specDec t
      else
        match t with
        | [] => none
        | b :: t' => (specDec t').map (List.replicate (257 - h.toNat) b ++ ·) := by
  cases t
  · rw [specDec.eq_2, specDec.eq_1]
  · rw [specDec]

theorem specDec_encFrom (d : Bytes) (i : Nat) (hi : i ≤ d.size) :
    specDec (encFrom d i) = some (d.toList.drop i) := by
  induction hn : d.size - i using Nat.strongRecOn generalizing i with
  | _ n ih =>
  by_cases h : i < d.size
  · rcases encFrom_step d i h with ⟨j, _, h1, h2, h3, h4, _, he⟩ | ⟨j, _, h1, h2, h3, _, he⟩
    · rw [he, specDec_cons]
      have hh := toNat_ofNat_run (j - i) (by omega) h3
      have ihj := ih (d.size - (j + 1)) (by omega) (j + 1) (by omega) rfl
      simp only [hh, ihj]
      have c1 : ¬ (256 - (j - i) < 128) := by omega
      have c2 : ¬ (256 - (j - i) = 128) := by omega
      simp only [c1, c2, if_false, Option.map_some]
      rw [drop_run d i j (by omega) h2 h4]
      congr 3; omega
    · rw [he, specDec_cons]
      have hh := toNat_ofNat_lit (j - i - 1) (by omega)
      have ihj := ih (d.size - j) (by omega) j h2 rfl
      have hl := extract_length d i j h2
      simp only [hh]
      have c1 : j - i - 1 < 128 := by omega
      have e1 : j - i - 1 + 1 = (d.extract i j).toList.length := by omega
      simp only [c1, if_true, e1, List.length_append, Nat.le_add_right, List.drop_left,
        List.take_left, ihj, Option.map_some]
      rw [drop_extract d i j (by omega) h2]
  · have : i = d.size := by omega
    subst this
    rw [encFrom_end d _ (Nat.le_refl _), specDec]; simp

theorem headers_encFrom (d : Bytes) (i : Nat) (hi : i ≤ d.size) :
    ∀ h ∈ headers (encFrom d i), h ≠ 128 := by
  induction hn : d.size - i using Nat.strongRecOn generalizing i with
  | _ n ih =>
  by_cases h : i < d.size
  · rcases encFrom_step d i h with ⟨j, _, h1, h2, h3, h4, _, he⟩ | ⟨j, _, h1, h2, h3, _, he⟩
    · rw [he, headers]
      have hh := toNat_ofNat_run (j - i) (by omega) h3
      have ihj := ih (d.size - (j + 1)) (by omega) (j + 1) (by omega) rfl
      have c1 : ¬ (256 - (j - i) < 128) := by omega
      have c2 : ¬ (256 - (j - i) = 128) := by omega
      simp only [hh, c1, c2, if_false, List.drop_one, List.tail_cons]
      intro x hx
      rcases List.mem_cons.mp hx with rfl | hx
      · intro hc; rw [hc] at hh; simp at hh; omega
      · exact ihj x hx
    · rw [he, headers]
      have hh := toNat_ofNat_lit (j - i - 1) (by omega)
      have ihj := ih (d.size - j) (by omega) j h2 rfl
      have hl := extract_length d i j h2
      have c1 : j - i - 1 < 128 := by omega
      have e1 : j - i - 1 + 1 = (d.extract i j).toList.length := by omega
      simp only [hh, c1, if_true, e1, List.drop_left]
      intro x hx
      rcases List.mem_cons.mp hx with rfl | hx
      · intro hc; rw [hc] at hh; simp at hh; omega
      · exact ihj x hx
  · rw [encFrom_end d i (by omega), headers]; simp

/-! ### Worst-case size (Apple's `n + ⌈n/127⌉`) -/

/-- Potential argument: a literal chunk shorter than 127 bytes either ends the data, or is
followed by a run of at least three bytes, or by a run of two that ends the data, or (when
it has at least 125 bytes) by a run of at least two; in each case the pair pays for itself. -/
theorem encFrom_length (d : Bytes) (i : Nat) (hi : i ≤ d.size) :
    (encFrom d i).length ≤ (d.size - i) + (d.size - i + 126) / 127 := by
  induction hn : d.size - i using Nat.strongRecOn generalizing i with
  | _ n ih =>
  by_cases h : i < d.size
  · rcases encFrom_step d i h with ⟨j, _, h1, h2, h3, h4, _, he⟩ | ⟨j, _, h1, h2, h3, hj, he⟩
    · have ihj := ih (d.size - (j + 1)) (by omega) (j + 1) (by omega) rfl
      rw [he]; simp only [List.length_cons]
      omega
    · have hl := extract_length d i j h2
      rw [he]; simp only [List.length_cons, List.length_append, hl]
      have hx := litLoop_exit d i i (Nat.le_refl _) (by omega) (by omega)
      simp only [← hj] at hx
      rcases hx with hx | hx | ⟨hq, hx⟩ | ⟨hq, hq2⟩
      · rw [encFrom_end d j (by omega)]; simp only [List.length_nil]; omega
      · have ihj := ih (d.size - j) (by omega) j h2 rfl
        omega
      · have hjl := (eqAt_lt hq).1
        rcases encFrom_step d j hjl with ⟨r, _, r1, r2, r3, r4, _, hr⟩ | ⟨_, hne, _⟩
        · have ihr := ih (d.size - (r + 1)) (by omega) (r + 1) (by omega) rfl
          rw [hr]; simp only [List.length_cons]
          omega
        · exact absurd hq hne
      · have hjl := (eqAt_lt hq).1
        rcases encFrom_step d j hjl with ⟨r, _, r1, r2, r3, r4, hrr, hr⟩ | ⟨_, hne, _⟩
        · have ihr := ih (d.size - (r + 1)) (by omega) (r + 1) (by omega) rfl
          have hp2 := runLoop_progress2 d j hq hq2
          rw [← hrr] at hp2
          rw [hr]; simp only [List.length_cons]
          omega
        · exact absurd hq hne
  · rw [encFrom_end d i (by omega)]; simp

/-! ### The encoder output as a list of valid chunks -/

theorem encFrom_chunks (d : Bytes) (i : Nat) (hi : i ≤ d.size) :
    ∃ cs : List Chunk, encFrom d i = cs.flatMap Chunk.emit ∧
      cs.flatMap Chunk.content = d.toList.drop i ∧ ∀ c ∈ cs, c.Valid := by
  induction hn : d.size - i using Nat.strongRecOn generalizing i with
  | _ n ih =>
  by_cases h : i < d.size
  · rcases encFrom_step d i h with ⟨j, _, h1, h2, h3, h4, _, he⟩ | ⟨j, _, h1, h2, h3, _, he⟩
    · obtain ⟨cs, c1, c2, c3⟩ := ih (d.size - (j + 1)) (by omega) (j + 1) (by omega) rfl
      refine ⟨.run (j - i + 1) d[i] :: cs, ?_, ?_, ?_⟩
      · rw [he, c1]
        simp only [List.flatMap_cons, Chunk.emit, List.cons_append, List.nil_append]
        have : 257 - (j - i + 1) = 256 - (j - i) := by omega
        rw [this]
      · simp only [List.flatMap_cons, Chunk.content, c2]
        exact (drop_run d i j (by omega) h2 h4).symm
      · intro c hc
        rcases List.mem_cons.mp hc with rfl | hc
        · exact ⟨by omega, by omega⟩
        · exact c3 c hc
    · obtain ⟨cs, c1, c2, c3⟩ := ih (d.size - j) (by omega) j h2 rfl
      have hl := extract_length d i j h2
      refine ⟨.lit (d.extract i j).toList :: cs, ?_, ?_, ?_⟩
      · rw [he, c1]
        simp only [List.flatMap_cons, Chunk.emit, List.cons_append, hl]
      · simp only [List.flatMap_cons, Chunk.content, c2]
        exact (drop_extract d i j (by omega) h2).symm
      · intro c hc
        rcases List.mem_cons.mp hc with rfl | hc
        · exact ⟨by rw [hl]; omega, by rw [hl]; omega⟩
        · exact c3 c hc
  · refine ⟨[], ?_, ?_, by simp⟩
    · rw [encFrom_end d i (by omega)]; rfl
    · simp; omega

end PsdVerif.Rle
