/-
Helper lemmas for C07's sample arithmetic (`Model/PixelSamples.lean`): the import encodings in closed
form, PIL export ∘ import, NumPy export ∘ import, the finite facts about binary32 (by kernel evaluation
over the 256 sample values — nothing here depends on the regenerated tables, so these are built once).
-/
import PsdVerif.Model.PixelSamples
import PsdVerif.Lemmas.Pixels
import Mathlib.Tactic.Linarith
import Mathlib.Tactic.Ring
import Mathlib.Tactic.NormNum
import Mathlib.Tactic.FieldSimp
import Mathlib.Algebra.Order.Field.Rat

namespace PsdVerif.PixelSamples
open PsdVerif PsdVerif.Pixels PsdVerif.MergedPixels

/-! ### import, closed forms -/

theorem store_8 (v : Nat) : store 8 v = v := by simp [store]

theorem store_16 {v : Nat} (h : v ≤ 255) : store 16 v = v * 257 := by
  simp only [store, importMul16]; simp; omega

theorem store_32 (v : Nat) : store 32 v = f32Bits ((v : Rat) / 255) := by
  simp [store, importDiv32]

theorem mem_depths {d : Nat} (h : d ∈ depths) : d = 8 ∨ d = 16 ∨ d = 32 := by
  simpa [depths] using h

/-- a 16-bit code is two equal bytes: `v * 257 = v · 256 + v` -/
theorem store_16_bytes {v : Nat} (h : v ≤ 255) : store 16 v / 256 = v ∧ store 16 v % 256 = v := by
  rw [store_16 h]; omega

/-! ### PIL export ∘ import -/

theorem load_store_8 (v : Nat) : pilLoad 8 (store 8 v) = some v := by simp [pilLoad, store_8]

theorem load_store_16 {v : Nat} (h : v ≤ 255) : pilLoad 16 (store 16 v) = some v := by
  rw [store_16 h]
  simp only [pilLoad, i2l, pilDiv16]
  simp; omega

theorem load_store_32_fin : ∀ v : Fin 256, pilLoad 32 (store 32 v.val) = some v.val := by
  decide +kernel

theorem load_store_32 {v : Nat} (h : v ≤ 255) : pilLoad 32 (store 32 v) = some v :=
  load_store_32_fin ⟨v, by omega⟩

theorem load_store {d v : Nat} (hd : d ∈ depths) (h : v ≤ 255) : pilLoad d (store d v) = some v := by
  rcases mem_depths hd with rfl | rfl | rfl
  · exact load_store_8 v
  · exact load_store_16 h
  · exact load_store_32 h

/-- the `<< 8` variant is also undone by the PIL export (which is why only the NumPy export shows it) -/
theorem load_storeShift {v : Nat} (h : v ≤ 255) : pilLoad 16 (storeShift v) = some v := by
  simp only [pilLoad, i2l, pilDiv16, storeShift]
  simp; omega

/-- the codes a depth can hold decode into 0 … 255 -/
theorem pilLoad_le {d c r : Nat} (hc : d = 8 → c ≤ 255) (h : pilLoad d c = some r) : r ≤ 255 := by
  unfold pilLoad at h
  split at h
  · rename_i h8; cases h; exact hc h8
  · split at h
    · cases h; unfold i2l; omega
    · split at h
      · cases h
        split
        · omega
        · unfold f2l
          split
          · omega
          · split
            · omega
            · rename_i h1 h2
              have hlt : f32Value c * (pilMul32 : Rat) < 255 := not_le.1 h2
              have hf : (f32Value c * (pilMul32 : Rat)).floor < 255 := by
                have := Rat.floor_le (f32Value c * (pilMul32 : Rat))
                have h3 : (((f32Value c * (pilMul32 : Rat)).floor : Int) : Rat) < ((255 : Int) : Rat) := by
                  push_cast; linarith
                exact_mod_cast h3
              omega
      · cases h

/-! ### the concrete `Px` is lawful at the depths of the pipeline -/

theorem clip8_val {n : Nat} (h : n ≤ 255) : (clip8 n).val = n := by
  simp only [clip8]; omega

theorem clip8_fin (x : S8) : clip8 x.val = x := by
  apply Fin.ext; exact clip8_val (by omega)

theorem px_inv_inv (x : S8) : px.inv (px.inv x) = x := by
  apply Fin.ext
  show (clip8 (inv8 (clip8 (inv8 x.val)).val)).val = x.val
  have hx : x.val ≤ 255 := by omega
  have h1 : (clip8 (inv8 x.val)).val = 255 - x.val := clip8_val (by unfold inv8; omega)
  rw [h1]
  have h2 : (clip8 (inv8 (255 - x.val))).val = inv8 (255 - x.val) := clip8_val (by unfold inv8; omega)
  rw [h2]; unfold inv8; omega

theorem px_load_store {d : Nat} (hd : d ∈ depths) (x : S8) : px.load d (px.store d x) = x := by
  show (match pilLoad d (store d x.val) with | some v => clip8 v | none => clip8 0) = x
  rw [load_store hd (by omega)]
  exact clip8_fin x

theorem px_lawfulAt {d : Nat} (hd : d ∈ depths) : px.LawfulAt d :=
  ⟨px_inv_inv, px_load_store hd⟩

/-! ### NumPy export ∘ import -/

theorem quotient_16 {v : Nat} (h : v ≤ 255) : ((store 16 v : Nat) : Rat) / (npDiv16 : Rat) = (v : Rat) / 255 := by
  rw [store_16 h]
  simp only [npDiv16]
  push_cast
  rw [div_eq_div_iff (by norm_num) (by norm_num)]
  ring

theorem np_store {d v : Nat} (hd : d ∈ depths) (h : v ≤ 255) :
    npLoad d (store d v) = some (f32Bits ((v : Rat) / 255)) := by
  rcases mem_depths hd with rfl | rfl | rfl
  · simp [npLoad, store_8, npDiv8]
  · have := quotient_16 h
    simp only [npLoad]
    simp [this]
  · simp [npLoad, store_32]

theorem np_quotient {d v : Nat} (hd : d = 8 ∨ d = 16) (h : v ≤ 255) :
    npQuotient d (store d v) = some ((v : Rat) / 255) := by
  rcases hd with rfl | rfl
  · simp [npQuotient, store_8, npDiv8]
  · have := quotient_16 h
    simp only [npQuotient]
    simp [this]

/-- the `<< 8` variant stores a code whose NumPy quotient is NOT `v / 255` (white: 65280 / 65535) -/
theorem shift_quotient_differs : ((storeShift 255 : Nat) : Rat) / (npDiv16 : Rat) ≠ (255 : Rat) / 255 := by
  decide +kernel

/-! ### binary32 facts over the 256 sample values (kernel evaluation) -/

/-- the float the NumPy export returns for an imported `v` -/
def npValue (v : Nat) : Rat := rnd ((v : Rat) / 255)

/-- within 2⁻²⁵ of `v / 255` (half a unit in the last place of numbers below 1) -/
theorem npValue_error_fin : ∀ v : Fin 256,
    (v.val : Rat) / 255 - 1 / 2 ^ 25 ≤ npValue v.val ∧ npValue v.val ≤ (v.val : Rat) / 255 + 1 / 2 ^ 25 := by
  decide +kernel

/-- exact only at the end points (`v / 255` is a dyadic rational only for `v ∈ {0, 255}`) -/
theorem npValue_exact_iff_fin : ∀ v : Fin 256, (npValue v.val = (v.val : Rat) / 255) = (v.val = 0 ∨ v.val = 255) := by
  decide +kernel

/-- "nearest", checked without the rounding algorithm: `v / 255` lies between the midpoints to the two
neighbouring binary32 numbers (bits ∓ 1) -/
theorem npValue_nearest_fin : ∀ v : Fin 256,
    let b := f32Bits ((v.val : Rat) / 255)
    2 * ((v.val : Rat) / 255) ≤ f32Value b + f32Value (b + 1) ∧
    (0 < v.val → f32Value (b - 1) + f32Value b ≤ 2 * ((v.val : Rat) / 255)) := by
  decide +kernel

/-- `round(numpy · 255)` is the PIL value -/
theorem round_np_fin : ∀ v : Fin 256, roundHalfEven (npValue v.val * 255) = (v.val : Int) := by
  decide +kernel

/-- the float inversion `1 − x` of the NumPy value is within 2⁻²⁴ of the NumPy value of the inverted sample -/
theorem float_inv_close_fin : ∀ v : Fin 256,
    ((255 - v.val : Nat) : Rat) / 255 - 1 / 2 ^ 24 ≤ rnd (1 - npValue v.val) ∧
    rnd (1 - npValue v.val) ≤ ((255 - v.val : Nat) : Rat) / 255 + 1 / 2 ^ 24 := by
  decide +kernel

/-- … and an involution on the upper half of the range only -/
theorem float_inv_invol_upper_fin : ∀ v : Fin 256, 128 ≤ v.val →
    rnd (1 - rnd (1 - npValue v.val)) = npValue v.val := by
  decide +kernel

theorem float_inv_not_invol : rnd (1 - rnd (1 - npValue 1)) ≠ npValue 1 := by
  decide +kernel

/-- no imported sample is stored as a NaN -/
theorem nan_free_fin : ∀ v : Fin 256, isNaN32 (f32Bits ((v.val : Rat) / 255)) = false := by
  decide +kernel

/-! ### opacity -/

theorem opaque_codes : store 8 255 = 255 ∧ store 16 255 = 65535 ∧ store 32 255 = 0x3F800000 ∧
    f32Value 0x3F800000 = 1 := by decide +kernel

theorem zero_codes : store 8 0 = 0 ∧ store 16 0 = 0 ∧ store 32 0 = 0 := by decide +kernel

/-! ### witnesses and finite tables used by `Props/C07Samples.lean` (evaluated here, once) -/

theorem shift_np_differs : npLoad 16 (storeShift 255) ≠ npLoad 16 (store 16 255) := by decide +kernel

theorem shift_np_rounds_254 : ∀ b, npLoad 16 (storeShift 255) = some b → roundHalfEven (f32Value b * 255) = 254 := by
  intro b hb
  have h2 : npLoad 16 (storeShift 255) = some (f32Bits ((65280 : Rat) / 65535)) := by decide +kernel
  rw [h2] at hb
  have : b = f32Bits ((65280 : Rat) / 65535) := (Option.some.inj hb).symm
  subst this
  decide +kernel

theorem rounding_variant_128 : pilLoad16Rounding (store 16 128) = 129 := by decide

theorem opaque_table :
    storeBytes 8 opaque8 = [0xff] ∧ storeBytes 16 opaque8 = [0xff, 0xff] ∧ storeBytes 32 opaque8 = [0x3f, 0x80, 0, 0] ∧
    (∀ d ∈ depths, pilLoad d (store d opaque8) = some 255 ∧
      ∃ b, npLoad d (store d opaque8) = some b ∧ f32Value b = 1) ∧
    (∀ d ∈ depths, store d 0 = 0 ∧ pilLoad d 0 = some 0 ∧ ∃ b, npLoad d 0 = some b ∧ f32Value b = 0) := by
  decide +kernel

theorem unmatte_solid_table :
    (∀ x a : Fin 256, (a.val = 0 ∨ a.val = 255) → unmatte8 x.val a.val = x.val) ∧ unmatte8 100 128 = 0 := by
  decide +kernel

theorem px_load_at_7 : px.load 7 (px.store 7 ⟨5, by decide⟩) ≠ ⟨5, by decide⟩ := by decide

end PsdVerif.PixelSamples
