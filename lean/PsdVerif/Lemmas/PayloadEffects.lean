/-
C01 payload unit 3 — psd/effects_layer.py: the laws of the effect infos and of `EffectsLayer`.
-/
import PsdVerif.Lemmas.PayloadSimple
import PsdVerif.Model.PayloadEffects

namespace PsdVerif.Payload
open PsdVerif PsdVerif.Codec

theorem blendMode_length {b : B} (h : b ∈ Psd.G.blendModes) : b.length = 4 := by
  have : ∀ x ∈ Psd.G.blendModes, x.length = 4 := by decide
  exact this b h

theorem readSig8BIM_step {d : B} {p : Nat} {rest : B} (h : At d p (sig8BIM ++ rest)) :
    readSig8BIM d p = .ok ((), p + 4) ∧ At d (p + 4) rest := by
  obtain ⟨e, h'⟩ := readN_step (n := 4) h rfl
  exact ⟨by simp only [readSig8BIM, e, if_true], h'⟩

theorem readBlendMode_step {d : B} {p : Nat} {b rest : B} (hb : b ∈ Psd.G.blendModes) (h : At d p (pack4s b ++ rest)) :
    readBlendMode d p = .ok (b, p + 4) ∧ At d (p + 4) rest := by
  rw [pack4s_of_length (blendMode_length hb)] at h
  obtain ⟨e, h'⟩ := readN_step h (blendMode_length hb)
  exact ⟨by simp only [readBlendMode, e, if_pos hb], h'⟩

theorem optColorP_eq (o : Option Color) : optColorP o = (optColorT o, (optColorT o).length) := by
  cases o with
  | none => rfl
  | some c => exact c.encP_eq

/-! ## CommonStateInfo -/

theorem CommonStateInfo.rt : CommonStateInfo.codec.RtAnywhere := by
  intro x _ hf d p h
  have h : At d p (beBytes 4 x.version ++ (beBytes 1 x.visible ++ (zeros 2 ++ []))) := by
    simpa [CommonStateInfo.codec, List.append_assoc] using h
  obtain ⟨e1, h⟩ := readU_step h hf.1
  obtain ⟨e2, h⟩ := readU_step h hf.2
  obtain ⟨e3, _⟩ := readSkip_step h
  simp only [CommonStateInfo.codec, bind, Except.bind, e1, e2, e3, Nat.add_assoc]

theorem CommonStateInfo.count : CommonStateInfo.codec.Count := fun _ => rfl

/-! ## ShadowInfo -/

namespace ShadowInfo

theorem encP_eq (x : ShadowInfo) : x.encP = (x.encT, x.encT.length) := by
  simp only [encP, encT, Color.encP_eq, wBytes_eq, wSeq_eq]

theorem dec_at {x : ShadowInfo} (hwf : x.blendMode ∈ Psd.G.blendModes) (hf : x.Fits) {d : B} {p : Nat} (h : At d p x.encT) :
    dec d p = .ok (x, p + 51) := by
  obtain ⟨f1, f2, f3, f4, f5, fc, f6, f7, f8, fn⟩ := hf
  have h : At d p (beBytes 4 x.version ++ (beBytes 4 x.blur ++ (beBytes 4 x.intensity ++ (i32T x.angle ++
      (beBytes 4 x.distance ++ (x.color.encT ++ (sig8BIM ++ (pack4s x.blendMode ++ (beBytes 1 x.enabled ++
      (beBytes 1 x.useGlobalAngle ++ (beBytes 1 x.opacity ++ (x.nativeColor.encT ++ [])))))))))))) := by
    simpa only [encT, headT, midT, List.append_assoc, List.append_nil] using h
  obtain ⟨e1, h⟩ := readU_step h f1
  obtain ⟨e2, h⟩ := readU_step h f2
  obtain ⟨e3, h⟩ := readU_step h f3
  obtain ⟨e4, h⟩ := readI32_step h f4
  obtain ⟨e5, h⟩ := readU_step h f5
  obtain ⟨e6, h⟩ := Color.dec_step fc h
  obtain ⟨e7, h⟩ := readSig8BIM_step h
  obtain ⟨e8, h⟩ := readBlendMode_step hwf h
  obtain ⟨e9, h⟩ := readU_step h f6
  obtain ⟨e10, h⟩ := readU_step h f7
  obtain ⟨e11, h⟩ := readU_step h f8
  obtain ⟨e12, _⟩ := Color.dec_step fn h
  simp only [dec, bind, Except.bind, e1, e2, e3, e4, e5, e6, e7, e8, e9, e10, e11, e12, Nat.add_assoc]

theorem length_encT (x : ShadowInfo) (hf : x.Fits) : x.encT.length = 51 := by
  simp only [encT, headT, midT, List.length_append, length_beBytes, length_i32T, length_pack4s,
    Color.length_encT _ hf.2.2.2.2.2.1, Color.length_encT _ hf.2.2.2.2.2.2.2.2.2]
  rfl

theorem rt : codec.RtAnywhere := fun _ hwf hf _ _ h => dec_at hwf hf h
theorem count : codec.Count := encP_eq

end ShadowInfo

/-! ## glow infos -/

namespace GlowBody

theorem encP_eq (x : GlowBody) : x.encP = (x.encT, x.encT.length) := by
  simp only [encP, encT, Color.encP_eq, wBytes_eq, wSeq_eq, List.append_assoc]

theorem dec_step {x : GlowBody} (hwf : x.blendMode ∈ Psd.G.blendModes) (hf : x.Fits) {d : B} {p : Nat} {rest : B}
    (h : At d p (x.encT ++ rest)) : dec d p = .ok (x, p + x.encT.length) ∧ At d (p + x.encT.length) rest := by
  refine ⟨?_, h.right⟩
  obtain ⟨f1, f2, f3, fc, f4, f5⟩ := hf
  have hL : x.encT.length = 4 + (4 + (4 + (10 + (4 + (4 + (1 + 1)))))) := by
    simp only [encT, List.length_append, length_beBytes, length_pack4s, Color.length_encT _ fc]
    rfl
  rw [hL]
  have h : At d p (beBytes 4 x.version ++ (beBytes 4 x.blur ++ (beBytes 4 x.intensity ++ (x.color.encT ++ (sig8BIM ++
      (pack4s x.blendMode ++ (beBytes 1 x.enabled ++ (beBytes 1 x.opacity ++ rest)))))))) := by
    simpa only [encT, List.append_assoc] using h
  obtain ⟨e1, h⟩ := readU_step h f1
  obtain ⟨e2, h⟩ := readU_step h f2
  obtain ⟨e3, h⟩ := readU_step h f3
  obtain ⟨e4, h⟩ := Color.dec_step fc h
  obtain ⟨e5, h⟩ := readSig8BIM_step h
  obtain ⟨e6, h⟩ := readBlendMode_step hwf h
  obtain ⟨e7, h⟩ := readU_step h f4
  obtain ⟨e8, _⟩ := readU_step h f5
  simp only [dec, bind, Except.bind, e1, e2, e3, e4, e5, e6, e7, e8, Nat.add_assoc]

end GlowBody

namespace OuterGlowInfo

theorem encP_eq (x : OuterGlowInfo) : x.encP = (x.encT, x.encT.length) := by
  obtain ⟨b, n⟩ := x
  cases n with
  | none => simp only [encP, encT, optColorT, GlowBody.encP_eq, List.append_nil]
  | some c => simp only [encP, encT, optColorT, GlowBody.encP_eq, Color.encP_eq, wSeq_eq]

theorem rt : codec.RtAnywhere := by
  intro x hwf hf d p h
  obtain ⟨hb, hver⟩ := hwf
  obtain ⟨fb, fn⟩ := hf
  obtain ⟨body, native⟩ := x
  simp only [codec, encT] at h hver ⊢
  dsimp only at hb fb
  obtain ⟨e1, h⟩ := GlowBody.dec_step hb fb h
  cases native with
  | none =>
    have hv : ¬ body.version ≥ 2 := by
      intro hge; have := hver.mp hge; simp at this
    simp only [dec, bind, Except.bind, e1, if_neg hv, optColorT, List.append_nil]
  | some c =>
    have hv : body.version ≥ 2 := hver.mpr rfl
    simp only [optColorT] at h
    simp only [optColorFits] at fn
    obtain ⟨e2, _⟩ := Color.dec_step fn h.nil_right
    simp only [dec, bind, Except.bind, e1, if_pos hv, Codec.optItem, e2]
    simp only [optColorT, List.length_append, Color.length_encT c fn, Nat.add_assoc]

theorem count : codec.Count := encP_eq

end OuterGlowInfo

namespace InnerGlowInfo

theorem encP_eq (x : InnerGlowInfo) : x.encP = (x.encT, x.encT.length) := by
  unfold encP encT tailT
  split
  · simp only [GlowBody.encP_eq, optColorP_eq, wBytes_eq, wSeq_eq, List.append_assoc]
  · simp only [GlowBody.encP_eq, List.append_nil]

theorem rt : codec.RtAnywhere := by
  intro x hwf hf d p h
  obtain ⟨hb, hver⟩ := hwf
  obtain ⟨fb, ftail⟩ := hf
  obtain ⟨body, invert, native⟩ := x
  simp only [codec, encT, tailT] at h hver ftail ⊢
  dsimp only at hb fb
  by_cases hv : body.version ≥ 2
  · obtain ⟨⟨hi, fi⟩, ⟨hn, fn⟩⟩ := ftail hv
    cases invert with
    | none => simp at hi
    | some i =>
      cases native with
      | none => simp at hn
      | some c =>
        simp only [Psd.optFits] at fi
        simp only [optColorFits] at fn
        simp only [if_pos hv, Psd.optT, optColorT, List.append_assoc] at h ⊢
        obtain ⟨e1, h⟩ := GlowBody.dec_step hb fb h
        obtain ⟨e2, h⟩ := readU_step h fi
        obtain ⟨e3, _⟩ := Color.dec_step fn h.nil_right
        simp only [dec, bind, Except.bind, e1, if_pos hv, e2, e3]
        simp only [List.length_append, length_beBytes, Color.length_encT c fn, Nat.add_assoc]
  · obtain ⟨rfl, rfl⟩ := hver (by omega)
    simp only [if_neg hv, List.append_nil] at h ⊢
    obtain ⟨e1, _⟩ := GlowBody.dec_step hb fb h.nil_right
    simp only [dec, bind, Except.bind, e1, if_neg hv]

theorem count : codec.Count := encP_eq

end InnerGlowInfo

/-! ## BevelInfo -/

namespace BevelInfo

theorem encP_eq (x : BevelInfo) : x.encP = (x.encT, x.encT.length) := by
  unfold encP encT tailT
  split
  · simp only [Color.encP_eq, optColorP_eq, wBytes_eq, wSeq_eq, List.append_assoc]
  · simp only [Color.encP_eq, wBytes_eq, wSeq_eq, List.append_nil]

theorem rt : codec.RtAnywhere := by
  intro x hwf hf d p h
  obtain ⟨hvalid, hver⟩ := hwf
  obtain ⟨f1, f2, f3, f4, fhc, fsc, g1, g2, g3, g4, g5, g6, ftail⟩ := hf
  have hh := pack4s_of_length (blendMode_length hvalid.1)
  have hs := pack4s_of_length (blendMode_length hvalid.2)
  have hbase : At d p (beBytes 4 x.version ++ (i32T x.angle ++ (beBytes 4 x.depth ++ (beBytes 4 x.blur ++ (sig8BIM ++
      (x.highlightBlendMode ++ (sig8BIM ++ (x.shadowBlendMode ++ (x.highlightColor.encT ++ (x.shadowColor.encT ++
      (beBytes 1 x.bevelStyle ++ (beBytes 1 x.highlightOpacity ++ (beBytes 1 x.shadowOpacity ++ (beBytes 1 x.enabled ++
      (beBytes 1 x.useGlobalAngle ++ (beBytes 1 x.direction ++ x.tailT)))))))))))))))) := by
    simpa only [codec, encT, headT, modesT, sixT, hh, hs, List.append_assoc] using h
  have hLbase : (codec.encT x).length = 4 + (4 + (4 + (4 + (4 + (4 + (4 + (4 + (10 + (10 + (1 + (1 + (1 + (1 + (1 + (1 +
      x.tailT.length))))))))))))))) := by
    simp only [codec, encT, headT, modesT, sixT, List.length_append, length_beBytes, length_i32T, length_pack4s,
      Color.length_encT _ fhc, Color.length_encT _ fsc]
    have : (sig8BIM : B).length = 4 := rfl
    omega
  obtain ⟨e1, h⟩ := readU_step hbase f1
  obtain ⟨e2, h⟩ := readI32_step h f2
  obtain ⟨e3, h⟩ := readU_step h f3
  obtain ⟨e4, h⟩ := readU_step h f4
  obtain ⟨e5, h⟩ := readN_step (n := 4) h rfl
  obtain ⟨e6, h⟩ := readN_step h (blendMode_length hvalid.1)
  obtain ⟨e7, h⟩ := readN_step (n := 4) h rfl
  obtain ⟨e8, h⟩ := readN_step h (blendMode_length hvalid.2)
  obtain ⟨e9, h⟩ := Color.dec_step fhc h
  obtain ⟨e10, h⟩ := Color.dec_step fsc h
  obtain ⟨e11, h⟩ := readU_step h g1
  obtain ⟨e12, h⟩ := readU_step h g2
  obtain ⟨e13, h⟩ := readU_step h g3
  obtain ⟨e14, h⟩ := readU_step h g4
  obtain ⟨e15, h⟩ := readU_step h g5
  obtain ⟨e16, h⟩ := readU_step h g6
  obtain ⟨version, angle, depth, blur, hbm, sbm, hc, sc, style, ho, so, en, uga, dir, rh, rs⟩ := x
  simp only at *
  simp only [codec] at hLbase ⊢
  rw [hLbase]
  by_cases hv : version ≥ 2
  · obtain ⟨⟨hrh, frh⟩, ⟨hrs, frs⟩⟩ := ftail hv
    cases rh with
    | none => simp at hrh
    | some a =>
      cases rs with
      | none => simp at hrs
      | some b =>
        simp only [optColorFits] at frh frs
        simp only [tailT, if_pos hv, optColorT] at h ⊢
        obtain ⟨e17, h⟩ := Color.dec_step frh h
        obtain ⟨e18, _⟩ := Color.dec_step frs h.nil_right
        simp only [dec, bind, Except.bind, e1, e2, e3, e4, e5, if_true, e6, e7, e8, e9, e10, e11, e12, e13, e14, e15, e16,
          if_pos hv, e17, e18]
        rw [if_pos hvalid]
        simp only [List.length_append, Color.length_encT a frh, Color.length_encT b frs, Nat.add_assoc]
  · obtain ⟨rfl, rfl⟩ := hver (by omega)
    simp only [tailT, if_neg hv, List.length_nil, Nat.add_zero] at h ⊢
    simp only [dec, bind, Except.bind, e1, e2, e3, e4, e5, if_true, e6, e7, e8, e9, e10, e11, e12, e13, e14, e15, e16,
      if_neg hv]
    rw [if_pos hvalid]

theorem count : codec.Count := encP_eq

end BevelInfo

/-! ## SolidFillInfo -/

namespace SolidFillInfo

theorem encP_eq (x : SolidFillInfo) : x.encP = (x.encT, x.encT.length) := by
  simp only [encP, encT, Color.encP_eq, wBytes_eq, wSeq_eq]

theorem rt : codec.RtAnywhere := by
  intro x hwf hf d p h
  have hwf : x.blendMode ∈ Psd.G.blendModes := hwf
  obtain ⟨f1, fc, f2, f3, fn⟩ := hf
  have hb := pack4s_of_length (blendMode_length hwf)
  have h : At d p (beBytes 4 x.version ++ (sig8BIM ++ (x.blendMode ++ (x.color.encT ++ (beBytes 1 x.opacity ++
      (beBytes 1 x.enabled ++ (x.nativeColor.encT ++ []))))))) := by
    simpa only [codec, encT, hb, List.append_assoc, List.append_nil] using h
  obtain ⟨e1, h⟩ := readU_step h f1
  obtain ⟨e2, h⟩ := readN_step (n := 4) h rfl
  obtain ⟨e3, h⟩ := readN_step h (blendMode_length hwf)
  obtain ⟨e4, h⟩ := Color.dec_step fc h
  obtain ⟨e5, h⟩ := readU_step h f2
  obtain ⟨e6, h⟩ := readU_step h f3
  obtain ⟨e7, _⟩ := Color.dec_step fn h
  simp only [codec, dec, bind, Except.bind, e1, e2, e3, if_true, e4, e5, e6, e7, if_pos hwf, Nat.add_assoc]

theorem count : codec.Count := encP_eq

theorem length_encT (x : SolidFillInfo) (hf : x.Fits) : x.encT.length = 34 := by
  simp only [encT, List.length_append, length_beBytes, length_pack4s, Color.length_encT _ hf.2.1,
    Color.length_encT _ hf.2.2.2.2]
  rfl

end SolidFillInfo

/-! ## EffectsLayer -/

namespace Effect

theorem encP_eq (e : Effect) : e.encP = (e.encT, e.encT.length) := by
  cases e with
  | common x => rfl
  | shadow x => exact x.encP_eq
  | outerGlow x => exact x.encP_eq
  | innerGlow x => exact x.encP_eq
  | bevel x => exact x.encP_eq
  | solidFill x => exact x.encP_eq

/-- the reader of the effect's class, on the effect's own bytes (`kls.frombytes(read_length_block(fp))`) -/
theorem decAs_encT (e : Effect) (hwf : e.WF) (hf : e.Fits) : decAs e.cls e.encT = .ok e := by
  cases e with
  | common x => simp only [decAs, cls, encT, CommonStateInfo.rt x hwf hf _ _ (At.self _), Except.map]
  | shadow x =>
    have := ShadowInfo.rt x hwf hf _ _ (At.self _)
    simp only [ShadowInfo.codec] at this
    simp only [decAs, cls, encT, this, Except.map]
  | outerGlow x =>
    have := OuterGlowInfo.rt x hwf hf _ _ (At.self _)
    simp only [OuterGlowInfo.codec] at this
    simp only [decAs, cls, encT, this, Except.map]
  | innerGlow x =>
    have := InnerGlowInfo.rt x hwf hf _ _ (At.self _)
    simp only [InnerGlowInfo.codec] at this
    simp only [decAs, cls, encT, this, Except.map]
  | bevel x =>
    have := BevelInfo.rt x hwf hf _ _ (At.self _)
    simp only [BevelInfo.codec] at this
    simp only [decAs, cls, encT, this, Except.map]
  | solidFill x =>
    have := SolidFillInfo.rt x hwf hf _ _ (At.self _)
    simp only [SolidFillInfo.codec] at this
    simp only [decAs, cls, encT, this, Except.map]

end Effect

namespace EffectsLayer

theorem key_length {k : B} {c : EffectClass} (h : classOfKey k = some c) : k.length = 4 := by
  unfold classOfKey at h
  cases hf : effectTypes.find? (fun kc => kc.1 = k) with
  | none => rw [hf] at h; cases h
  | some kc =>
    have hm := List.mem_of_find?_eq_some hf
    have hp := List.find?_some hf
    simp only [decide_eq_true_eq] at hp
    have : ∀ x ∈ effectTypes, x.1.length = 4 := by decide
    rw [← hp]; exact this kc hm

theorem itemP_eq (kv : B × Effect) : itemP kv = (itemT kv, (itemT kv).length) := by
  simp only [itemP, itemT, Effect.encP_eq, wBytes_eq, wLenBlock_eq, wSeq_eq, List.append_assoc]

theorem itemDec_at {kv : B × Effect} (hcls : classOfKey kv.1 = some kv.2.cls) (hwf : kv.2.WF) (hf : kv.2.Fits)
    (hlen : FitsU 4 kv.2.encT.length) {d : B} {p : Nat} (h : At d p (itemT kv)) :
    itemDec d p = .ok (kv, p + (itemT kv).length) := by
  have hk := pack4s_of_length (key_length hcls)
  have hL : (itemT kv).length = 4 + (4 + (lenBlockT 0 4 1 kv.2.encT).length) := by
    have : (sig8BIM : B).length = 4 := rfl
    simp only [itemT, List.length_append, length_pack4s]; omega
  rw [hL]
  have h : At d p (sig8BIM ++ (kv.1 ++ (lenBlockT 0 4 1 kv.2.encT ++ []))) := by
    simpa only [itemT, hk, List.append_assoc, List.append_nil] using h
  obtain ⟨e1, h⟩ := readSig8BIM_step h
  obtain ⟨e2, h⟩ := readN_step h (key_length hcls)
  obtain ⟨e3, _⟩ := readLenBlock_step h hlen (by decide)
  simp only [itemDec, bind, Except.bind, e1, e2, hcls, e3, Effect.decAs_encT kv.2 hwf hf, Nat.add_assoc]

theorem rt : codec.RtAnywhere := by
  intro x hwf hf d p h
  obtain ⟨hitems, hnd⟩ := hwf
  obtain ⟨f1, f2, fi⟩ := hf
  have h : At d p (beBytes 2 x.version ++ (beBytes 2 x.items.length ++ (listT itemT x.items ++
      zeros (padAmount x.bodyT.length 4)))) := by
    simpa only [codec, encT, bodyT, List.append_assoc] using h
  obtain ⟨e1, h⟩ := readU_step h f1
  obtain ⟨e2, h⟩ := readU_step h f2
  obtain ⟨e3, _⟩ := Psd.readCount_step itemDec itemT x.items
    (fun kv hkv d p h => itemDec_at (hitems kv hkv).1 (hitems kv hkv).2 (fi kv hkv).1 (fi kv hkv).2 h) h
  simp only [codec, dec, bind, Except.bind, e1, e2, e3, odict_of_nodup (fun (kv : B × Effect) => kv.1) x.items hnd, bodyT,
    List.length_append, length_beBytes, Nat.add_assoc]

theorem count : codec.Count := by
  intro x
  simp only [codec, encP, encT, bodyT]
  rw [wList_eq itemP itemT x.items (fun kv _ => itemP_eq kv)]
  simp only [wBytes_eq, wSeq_eq, wPad_eq, List.append_assoc]

end EffectsLayer

end PsdVerif.Payload
