/-
List plumbing for C17 (`Model/MergedPixels.lean`): big-endian bytes, samples of an encoded plane, `traverse`
elementwise, the planes cut from the composite, and `save_samples`: `PSDImage.save()` sample by sample.
Core Lean only.
-/
import PsdVerif.Model.MergedPixels
import PsdVerif.Lemmas.Merged

namespace PsdVerif.MergedPixels
open PsdVerif PsdVerif.Pixels PsdVerif.Merged PsdVerif.Composite

theorem be_length (k n : Nat) : (be k n).length = k := by
  induction k with
  | zero => rfl
  | succ k ih => simp [be, ih]

theorem unbe_foldl (bs : List UInt8) (acc : Nat) :
    bs.foldl (fun acc b => acc * 256 + b.toNat) acc = acc * 256 ^ bs.length + unbe bs := by
  induction bs generalizing acc with
  | nil => simp [unbe]
  | cons b bs ih =>
    simp only [List.foldl_cons, List.length_cons, unbe]
    rw [ih, ih (0 * 256 + b.toNat)]
    simp only [Nat.zero_mul, Nat.zero_add, Nat.pow_succ]
    rw [Nat.add_mul, Nat.mul_assoc, Nat.add_assoc, Nat.mul_comm 256]

theorem unbe_cons (b : UInt8) (bs : List UInt8) : unbe (b :: bs) = b.toNat * 256 ^ bs.length + unbe bs := by
  have := unbe_foldl bs (0 * 256 + b.toNat)
  simp only [Nat.zero_mul, Nat.zero_add] at this
  simpa [unbe] using this

/-- a number that fits is read back from its big-endian bytes -/
theorem unbe_be (k n : Nat) : unbe (be k n) = n % 256 ^ k := by
  induction k with
  | zero => simp [be, unbe, Nat.mod_one]
  | succ k ih =>
    simp only [be, unbe_cons, be_length, ih]
    have h1 : (UInt8.ofNat (n / 256 ^ k % 256)).toNat = n / 256 ^ k % 256 := by
      simp [UInt8.toNat_ofNat']
    rw [h1, Nat.pow_succ, Nat.mod_mul, Nat.mul_comm, Nat.add_comm]

theorem planeEnc_length (d : Nat) (v : Rat) : (planeEnc d v).length = d / 8 := by
  unfold planeEnc
  split
  · rename_i h; subst h; simp [be_length]
  · split <;> simp [be_length]

theorem ratQuant_lawful : ratQuant.Lawful := fun d v => planeEnc_length d v

/-! ### samples of a plane -/

theorem flatten_sampleAt (ls : List (List UInt8)) (size : Nat) (h : ∀ l ∈ ls, l.length = size) (i : Nat)
    (hi : i < ls.length) : sampleAt ls.flatten size i = ls[i] := by
  unfold sampleAt
  induction ls generalizing i with
  | nil => simp at hi
  | cons l ls ih =>
    have hl := h l (List.mem_cons_self ..)
    cases i with
    | zero => simp [List.take_left' hl]
    | succ i =>
      have e : (i + 1) * size = size + i * size := by rw [Nat.add_mul, Nat.one_mul, Nat.add_comm]
      simp only [List.flatten_cons, e, List.getElem_cons_succ]
      rw [← List.drop_drop, List.drop_left' hl]
      exact ih (fun q hq => h q (List.mem_cons_of_mem _ hq)) i (by simpa using hi)

theorem encPlane_sampleAt {α : Type} (Q : Quant α) (hQ : Q.Lawful) (d : Nat) (p : List α) (i : Nat)
    (hi : i < p.length) : sampleAt (encPlane Q d p) (d / 8) i = Q.enc d p[i] := by
  unfold encPlane
  rw [flatten_sampleAt _ (d / 8) _ i (by simpa using hi)]
  · simp
  · intro l hl
    simp only [List.mem_map] at hl
    obtain ⟨x, _, rfl⟩ := hl
    exact hQ d x

/-! ### traverse, elementwise -/

theorem traverse_getElem {β γ : Type} (f : β → Except Err γ) (l : List β) (ys : List γ)
    (h : traverse f l = .ok ys) :
    ys.length = l.length ∧ ∀ i (h1 : i < l.length) (h2 : i < ys.length), f l[i] = .ok ys[i] := by
  induction l generalizing ys with
  | nil => simp [traverse] at h; subst h; simp
  | cons x xs ih =>
    simp only [traverse] at h
    cases hx : f x with
    | error e => simp [hx] at h
    | ok y =>
      cases hxs : traverse f xs with
      | error e => simp [hx, hxs] at h
      | ok ys' =>
        simp [hx, hxs] at h
        subst h
        obtain ⟨hl, hall⟩ := ih ys' hxs
        refine ⟨by simp [hl], ?_⟩
        intro i h1 h2
        cases i with
        | zero => simpa using hx
        | succ i => simpa using hall i (by simpa using h1) (by simpa using h2)

/-! ### the planes of the composite -/

theorem compositePlanes_wf (h : Header) (px : Int → Int → Px) : (compositePlanes h px).WF h := by
  unfold compositePlanes Merged.Composite.WF
  refine ⟨by simp, ?_, by simp⟩
  intro p hp
  simp only [List.mem_map, List.mem_range] at hp
  obtain ⟨k, _, rfl⟩ := hp
  simp

theorem index_mod (w x y : Nat) (hx : x < w) : (y * w + x) % w = x := by
  rw [Nat.add_comm, Nat.add_mul_mod_self_right, Nat.mod_eq_of_lt hx]

theorem index_div (w x y : Nat) (hx : x < w) : (y * w + x) / w = y := by
  have hw : 0 < w := by omega
  rw [Nat.add_comm, Nat.add_mul_div_right _ _ hw, Nat.div_eq_of_lt hx, Nat.zero_add]

theorem index_lt (w hh x y : Nat) (hx : x < w) (hy : y < hh) : y * w + x < w * hh := by
  have : (y + 1) * w ≤ hh * w := Nat.mul_le_mul_right w hy
  rw [Nat.add_mul, Nat.one_mul] at this
  rw [Nat.mul_comm w hh]
  omega


theorem compositePlanes_color (h : Header) (px : Int → Int → Px) (k : Nat) (hk : k < h.cmode.expected) :
    (compositePlanes h px).color[k]? = some ((List.range (h.width * h.height)).map fun i =>
      (px ((i % h.width : Nat) : Int) ((i / h.width : Nat) : Int)).1 k) := by
  simp [compositePlanes, hk]

theorem compositePlanes_alpha (h : Header) (px : Int → Int → Px) :
    (compositePlanes h px).alpha = (List.range (h.width * h.height)).map fun i =>
      (px ((i % h.width : Nat) : Int) ((i / h.width : Nat) : Int)).2.2 := rfl

/-! ### which plane is a colour plane, which the transparency -/

theorem setColours_getElem? (flat : Bool) (n : Nat) (l l' : List PlaneSrc) (h : setColours flat n l = .ok l') :
    l'.length = l.length ∧
    ∀ k, l'[k]? = if k < n then some (if flat then PlaneSrc.colorFlat k else .color k) else l[k]? := by
  induction n generalizing l' with
  | zero => simp [setColours] at h; subst h; simp
  | succ n ih =>
    simp only [setColours] at h
    cases h1 : setColours flat n l with
    | error e => simp [h1] at h
    | ok l1 =>
      obtain ⟨hl, hall⟩ := ih l1 h1
      simp only [h1, pySet] at h
      by_cases hn : n < l1.length
      · simp only [hn, if_true, Except.ok.injEq] at h
        subst h
        refine ⟨by simp [hl], ?_⟩
        intro k
        rw [List.getElem?_set]
        by_cases hk : n = k
        · subst hk; simp [hn]
        · simp only [hk, if_false, hall k]
          by_cases h2 : k < n
          · have : k < n + 1 := by omega
            simp [h2, this]
          · have : ¬ k < n + 1 := by omega
            simp [h2, this]
      · simp [hn] at h

theorem mergedRoutes_eq (m : Meta) (rd : Bool) : mergedRoutes m rd =
    if ¬(m.header.depth = 8 ∨ m.header.depth = 16 ∨ m.header.depth = 32) ∨ m.header.cmode = .bitmap then .ok none else
    match setColours (flattens m) m.header.cmode.expected
        ((List.range m.header.channels).map fun k => if rd then PlaneSrc.old k else .fill) with
    | .error e => .error e
    | .ok planes =>
      if transparencyPlane m then
        match pySet planes (max (m.transparencyIndex % (m.header.channels : Int)).toNat m.header.cmode.expected) .alpha with
        | .error e => .error e
        | .ok planes => .ok (some planes)
      else .ok (some planes) := rfl

/-- **The decision of `_merged_planes`, for every document**: colour plane `k` receives colour channel `k` of
the composite — flattened on white unless the document has a transparency plane and is not RGB —, the
transparency plane (if any) the composite's alpha. -/
theorem mergedRoutes_colour (m : Meta) (rd : Bool) (routes : List PlaneSrc)
    (h : mergedRoutes m rd = .ok (some routes)) :
    (∀ k, k < m.header.cmode.expected → routes[k]? = some (colourRoute m k)) ∧
    (transparencyPlane m = true →
      routes[max (m.transparencyIndex % (m.header.channels : Int)).toNat m.header.cmode.expected]? = some .alpha) := by
  rw [mergedRoutes_eq] at h
  by_cases hsup : (¬(m.header.depth = 8 ∨ m.header.depth = 16 ∨ m.header.depth = 32) ∨ m.header.cmode = .bitmap)
  · rw [if_pos hsup] at h; cases h
  · rw [if_neg hsup] at h
    cases h1 : setColours (flattens m) m.header.cmode.expected
        ((List.range m.header.channels).map fun k => if rd then PlaneSrc.old k else .fill) with
    | error e => rw [h1] at h; cases h
    | ok l1 =>
      obtain ⟨hl, hall⟩ := setColours_getElem? _ _ _ _ h1
      rw [h1] at h
      simp only at h
      by_cases ht : transparencyPlane m = true
      · rw [if_pos ht] at h
        unfold pySet at h
        by_cases hlt : max (m.transparencyIndex % (m.header.channels : Int)).toNat m.header.cmode.expected < l1.length
        · rw [if_pos hlt] at h
          simp only [Except.ok.injEq, Option.some.injEq] at h
          subst h
          constructor
          · intro k hk
            rw [List.getElem?_set]
            have : ¬ max (m.transparencyIndex % (m.header.channels : Int)).toNat m.header.cmode.expected = k := by omega
            rw [if_neg this, hall k, if_pos hk]
            rfl
          · intro _
            rw [List.getElem?_set]
            simp [hlt]
        · rw [if_neg hlt] at h; cases h
      · rw [if_neg ht] at h
        simp only [Except.ok.injEq, Option.some.injEq] at h
        subst h
        exact ⟨fun k hk => by rw [hall k, if_pos hk]; rfl, fun htp => absurd htp ht⟩

/-! ### `save` sample by sample -/

/-- can the merged image that is there be read (`try: get_data(header)`) -/
def oldReadable (s : DocState) : Bool :=
  match getData s.imageData s.info.header with | .ok _ => true | .error _ => false

/-- its planes (`[]` when it cannot be read: the planes are then filled) -/
def oldPlanes (s : DocState) : List (List UInt8) :=
  match getData s.imageData s.info.header with | .ok ps => ps | .error _ => []

theorem regenerate_unfold {α : Type} (Q : Quant α) (s : DocState) (c : Merged.Composite α) :
    regenerate Q s c = match mergedRoutes s.info (oldReadable s) with
      | .error e => .error e
      | .ok none => .ok none
      | .ok (some routes) =>
        match traverse (realise Q s.info.header.depth c (oldPlanes s)) routes with
        | .error e => .error e
        | .ok planes => .ok (some planes) := rfl

/-- **`save()` sample by sample.** For a supported, structurally edited document whose pixels are `d`:
the save succeeds, the planes read back are those stored, and sample `y·width + x` of plane `k` is
`plane()` of the value its source has at pixel `(x, y)` of `composite(psd, force=True)`; a plane whose
source is `old j` is plane `j` of the merged image that was there. -/
theorem save_samples (B : Composite.Mode → Color → Color → Color) (s : DocState) (d : PixelDoc)
    (hd : s.dirty = true)
    (hdep : s.info.header.depth = 8 ∨ s.info.header.depth = 16 ∨ s.info.header.depth = 32)
    (hb : s.info.header.cmode ≠ .bitmap) (hch : s.info.header.cmode.expected ≤ s.info.header.channels) :
    ∃ routes planes s',
      mergedRoutes s.info (oldReadable s) = .ok (some routes) ∧
      savePixels B s d = .ok s' ∧ s'.info.header = s.info.header ∧
      getData s'.imageData s'.info.header = .ok planes ∧
      routes.length = s.info.header.channels ∧ planes.length = s.info.header.channels ∧
      ∀ k (h1 : k < routes.length) (h2 : k < planes.length),
        (∀ j, routes[k] = .old j → (oldPlanes s)[j]? = some planes[k]) ∧
        ∀ (x y : Nat), x < s.info.header.width → y < s.info.header.height →
          ∀ v, sampleValue (render B s.info.header d x y) routes[k] = some v →
            sampleAt planes[k] (s.info.header.depth / 8) (y * s.info.header.width + x)
              = planeEnc s.info.header.depth v := by
  obtain ⟨planes, hreg, hpl, hpall⟩ := regenerate_ok ratQuant ratQuant_lawful s (compositePlanes s.info.header (render B s.info.header d))
    hdep hb hch (compositePlanes_wf _ _)
  obtain ⟨rs, hrs, hrl, hrv⟩ := mergedRoutes_ok s.info (oldReadable s) hdep hb hch
  have htrav : traverse (realise ratQuant s.info.header.depth (compositePlanes s.info.header (render B s.info.header d)) (oldPlanes s)) rs = .ok planes := by
    have := hreg
    rw [regenerate_unfold, hrs] at this
    simp only at this
    cases ht : traverse (realise ratQuant s.info.header.depth (compositePlanes s.info.header (render B s.info.header d)) (oldPlanes s)) rs with
    | error e => rw [ht] at this; simp at this
    | ok ps => rw [ht] at this; simp at this; rw [this]
  obtain ⟨_, hget⟩ := traverse_getElem _ _ _ htrav
  have hpos : 0 < s.info.header.channels := by
    have : 0 < s.info.header.cmode.expected := by cases s.info.header.cmode <;> simp [CMode.expected]
    omega
  have hsave : savePixels B s d = .ok
      { s with imageData := setData s.imageData.comp planes s.info.header,
               info := { s.info with versionInfo := s.info.versionInfo.map fun _ => true } } := by
    unfold savePixels
    rw [save_eq_regenerate, hreg]
    simp [hd]
  refine ⟨rs, planes, _, hrs, hsave, rfl, getData_setData _ _ _ hpl hpall hpos, hrl, hpl, ?_⟩
  intro k h1 h2
  have hk := hget k h1 h2
  have hvalid := hrv rs[k] (List.getElem_mem h1)
  constructor
  · intro j hj
    rw [hj] at hk
    simp only [realise] at hk
    cases ho : (oldPlanes s)[j]? with
    | none => rw [ho] at hk; simp at hk
    | some p => rw [ho] at hk; simp at hk; rw [hk]
  · intro x y hx hy v hv
    have hi := index_lt s.info.header.width s.info.header.height x y hx hy
    have hm := index_mod s.info.header.width x y hx
    have hdv := index_div s.info.header.width x y hx
    cases hr : rs[k] with
    | colorFlat c =>
      rw [hr] at hk hv hvalid
      simp only [PlaneSrc.Valid] at hvalid
      simp only [realise, compositePlanes_color s.info.header (render B s.info.header d) c hvalid, compositePlanes_alpha] at hk
      simp only [sampleValue, Option.some.injEq] at hv
      have hk' := Except.ok.inj hk
      rw [← hk', encPlane_sampleAt ratQuant ratQuant_lawful _ _ _ (by simpa using hi)]
      simp only [List.getElem_zipWith, List.getElem_map, List.getElem_range, hm, hdv]
      subst hv; rfl
    | color c =>
      rw [hr] at hk hv hvalid
      simp only [PlaneSrc.Valid] at hvalid
      simp only [realise, compositePlanes_color s.info.header (render B s.info.header d) c hvalid] at hk
      simp only [sampleValue, Option.some.injEq] at hv
      have hk' := Except.ok.inj hk
      rw [← hk', encPlane_sampleAt ratQuant ratQuant_lawful _ _ _ (by simpa using hi)]
      simp only [List.getElem_map, List.getElem_range, hm, hdv]
      subst hv; rfl
    | alpha =>
      rw [hr] at hk hv
      simp only [realise, compositePlanes_alpha] at hk
      simp only [sampleValue, Option.some.injEq] at hv
      have hk' := Except.ok.inj hk
      rw [← hk', encPlane_sampleAt ratQuant ratQuant_lawful _ _ _ (by simpa using hi)]
      simp only [List.getElem_map, List.getElem_range, hm, hdv]
      subst hv; rfl
    | old j => rw [hr] at hv; simp [sampleValue] at hv
    | fill =>
      rw [hr] at hk hv
      simp only [realise, compositePlanes_alpha] at hk
      simp only [sampleValue, Option.some.injEq] at hv
      have hk' := Except.ok.inj hk
      rw [← hk', encPlane_sampleAt ratQuant ratQuant_lawful _ _ _ (by simpa using hi)]
      simp only [List.getElem_map]
      subst hv; rfl

end PsdVerif.MergedPixels
