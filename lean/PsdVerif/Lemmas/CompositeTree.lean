/-
The compositor model over layer trees (C11, C13): range invariant through the
whole recursion, layers as source generators, the pass-through group theorem.
-/
import PsdVerif.Lemmas.Composite

namespace PsdVerif.Composite

structure PropsOk (pr : Props) : Prop where
  opacity : Unit01 pr.opacity
  fill : Unit01 pr.fill
  maskValue : Unit01 pr.maskValue
  maskBackground : Unit01 pr.maskBackground
  maskDensity : Unit01 pr.maskDensity

mutual
/-- well-formed layer data at the pixel: every stored value is in the unit interval -/
def nodeOk : Node → Prop
  | .leaf pr _ color shape clips => PropsOk pr ∧ ColorOk color ∧ Unit01 shape ∧ listOk clips
  | .group pr _ children clips => PropsOk pr ∧ listOk children ∧ listOk clips
def listOk : List Node → Prop
  | [] => True
  | n :: ns => nodeOk n ∧ listOk ns
end

def BOk (B : Mode → Color → Color → Color) : Prop := ∀ m, BlendOk (B m)

theorem white_ok : ColorOk white := fun _ => ⟨by norm_num [white], by norm_num [white]⟩

theorem unit01_zero : Unit01 0 := ⟨le_refl _, by norm_num⟩
theorem unit01_one : Unit01 1 := ⟨by norm_num, le_refl _⟩

theorem unit01_mul {a b : Rat} (ha : Unit01 a) (hb : Unit01 b) : Unit01 (a * b) :=
  ⟨mul_nonneg ha.1 hb.1, by have := mul_le_mul ha.2 hb.2 hb.1 (by norm_num : (0:Rat) ≤ 1); linarith⟩

theorem pasteAt_unit {V b : Rect} {x y : Int} {s bg : Rat} (hs : Unit01 s) (hb : Unit01 bg) :
    Unit01 (pasteAt V b x y s bg) := by
  unfold pasteAt; simp only; split
  · exact hb
  · split
    · exact hs
    · exact hb

theorem pasteAt_color {V b : Rect} {x y : Int} {s bg : Color} (hs : ColorOk s) (hb : ColorOk bg) :
    ColorOk (pasteAt V b x y s bg) := by
  unfold pasteAt; simp only; split
  · exact hb
  · split
    · exact hs
    · exact hb

theorem maskFactors_unit {pr : Props} (h : PropsOk pr) (V : Rect) (x y : Int) :
    Unit01 (maskFactors pr V x y).1 ∧ Unit01 (maskFactors pr V x y).2 := by
  unfold maskFactors; split
  · exact ⟨pasteAt_unit h.maskValue h.maskBackground, h.maskDensity⟩
  · exact ⟨unit01_one, unit01_one⟩

/-- the source `finishApply` hands to `_apply_source` is admissible -/
theorem finishApply_src {pr : Props} (h : PropsOk pr) (V : Rect) (x y : Int) {color : Color} {shape alpha : Rat}
    (hc : ColorOk color) (ha0 : 0 ≤ alpha) (has : alpha ≤ shape) (hs1 : shape ≤ 1) :
    SrcOk color (shape * (maskFactors pr V x y).1 * pr.fill)
      (alpha * ((maskFactors pr V x y).1 * (maskFactors pr V x y).2 * pr.opacity) * pr.fill) := by
  obtain ⟨⟨m0, m1⟩, ⟨d0, d1⟩⟩ := maskFactors_unit h V x y
  obtain ⟨o0, o1⟩ := h.opacity
  obtain ⟨f0, f1⟩ := h.fill
  have hs0 : 0 ≤ shape := le_trans ha0 has
  have hdo : (maskFactors pr V x y).2 * pr.opacity ≤ 1 := by
    have := mul_le_mul d1 o1 o0 (by norm_num : (0:Rat) ≤ 1); linarith
  have hdo0 : 0 ≤ (maskFactors pr V x y).2 * pr.opacity := mul_nonneg d0 o0
  refine ⟨?_, ?_, ?_, hc⟩
  · exact mul_nonneg (mul_nonneg ha0 (mul_nonneg (mul_nonneg m0 d0) o0)) f0
  · have e : alpha * ((maskFactors pr V x y).1 * (maskFactors pr V x y).2 * pr.opacity) * pr.fill
        = (alpha * ((maskFactors pr V x y).2 * pr.opacity)) * ((maskFactors pr V x y).1 * pr.fill) := by ring
    have e2 : shape * (maskFactors pr V x y).1 * pr.fill = shape * ((maskFactors pr V x y).1 * pr.fill) := by ring
    rw [e, e2]
    apply mul_le_mul_of_nonneg_right _ (mul_nonneg m0 f0)
    calc alpha * ((maskFactors pr V x y).2 * pr.opacity) ≤ alpha * 1 := mul_le_mul_of_nonneg_left hdo ha0
      _ = alpha := mul_one _
      _ ≤ shape := has
  · have := unit01_mul (unit01_mul ⟨hs0, hs1⟩ ⟨m0, m1⟩) ⟨f0, f1⟩
    exact this.2

theorem finishApply_inv {B : Mode → Color → Color → Color} {pr : Props} (h : PropsOk pr) (V : Rect) (x y : Int)
    {st : PState} (hst : Inv st) {color : Color} {shape alpha : Rat}
    (hc : ColorOk color) (ha0 : 0 ≤ alpha) (has : alpha ≤ shape) (hs1 : shape ≤ 1) :
    Inv (finishApply B V x y st pr color shape alpha) := by
  unfold finishApply
  exact applySource_inv hst (finishApply_src h V x y hc ha0 has hs1) _

mutual
/-- **Range invariant through the whole compositor**: colours, shapes and alphas stay
in `[0,1]`, `alpha = Union(alpha₀, alpha_g)`, `alpha_g ≤ shape_g`. -/
theorem applyNode_inv (B : Mode → Color → Color → Color) (V : Rect) (x y : Int) (cc : Bool) (st : PState)
    (hst : Inv st) : (n : Node) → nodeOk n → Inv (applyNode B V x y cc st n)
  | .leaf pr hasPixels color shape clips, hn => by
    obtain ⟨hp, hcol, hsh, hcl⟩ := hn
    unfold applyNode
    split; · exact hst
    split; · exact hst
    split; · exact hst
    have hc0 : ColorOk (if hasPixels then pasteAt V pr.bbox x y color white else white) := by
      split
      · exact pasteAt_color hcol white_ok
      · exact white_ok
    have hs0 : Unit01 (if hasPixels then pasteAt V pr.bbox x y shape 0 else 0) := by
      split
      · exact pasteAt_unit hsh unit01_zero
      · exact unit01_zero
    apply finishApply_inv hp V x y hst _ hs0.1 (le_refl _) hs0.2
    split
    · exact hc0
    · exact (applyClips_inv B V x y _ (inv_init hc0 hs0 false) clips hcl).c
  | .group pr passThrough children clips, hn => by
    obtain ⟨hp, hch, hcl⟩ := hn
    unfold applyNode
    split; · exact hst
    split; · exact hst
    split; · exact hst
    have hcb : ColorOk (if pr.knockout then st.c0 else st.c) := by split; exact hst.c0; exact hst.c
    have hab : Unit01 (if pr.knockout then st.a0 else st.a) := by split; exact hst.a0; exact hst.a
    have hsub := applyList_inv B (intersect V pr.bbox) x y _ (inv_init hcb hab (!passThrough)) children hch
    simp only
    by_cases hin : (intersect V pr.bbox).contains x y = true
    · simp only [hin, if_true]
      apply finishApply_inv hp V x y hst _ hsub.ag.1 hsub.ag_le hsub.sg.2
      split
      · exact fun ch => clip_unit _
      · exact (applyClips_inv B V x y _ (inv_init (fun ch => clip_unit _) hsub.ag false) clips hcl).c
    · simp only [hin, Bool.false_eq_true, if_false]
      apply finishApply_inv hp V x y hst _ (le_refl _) (le_refl _) (by norm_num)
      split
      · exact white_ok
      · exact (applyClips_inv B V x y _ (inv_init white_ok unit01_zero false) clips hcl).c

theorem applyList_inv (B : Mode → Color → Color → Color) (V : Rect) (x y : Int) (st : PState) (hst : Inv st) :
    (ns : List Node) → listOk ns → Inv (applyList B V x y st ns)
  | [], _ => by unfold applyList; exact hst
  | n :: rest, h => by
    unfold applyList
    exact applyList_inv B V x y _ (applyNode_inv B V x y false st hst n h.1) rest h.2

theorem applyClips_inv (B : Mode → Color → Color → Color) (V : Rect) (x y : Int) (st : PState) (hst : Inv st) :
    (ns : List Node) → listOk ns → Inv (applyClips B V x y st ns)
  | [], _ => by unfold applyClips; exact hst
  | n :: rest, h => by
    unfold applyClips
    exact applyClips_inv B V x y _ (applyNode_inv B V x y true st hst n h.1) rest h.2
end

/-! ### layers as source generators -/

/-- `apply` returns early: hidden, outside the viewport, or a clipping layer handled by its base -/
def nodeSkipped (V : Rect) (cc : Bool) (n : Node) : Bool :=
  !n.props.visible || decide (intersect V n.props.bbox = Rect.zero) ||
    (!cc && n.props.clipping && n.props.hasClipTarget)

/-- what a (non-skipped, non-knockout) layer contributes, as a function of the compositor's
current colour and alpha only -/
def nodeGen (B : Mode → Color → Color → Color) (V : Rect) (x y : Int) : Node → Gen
  | .leaf pr hasPixels color shape clips => fun _ _ =>
    let color0 : Color := if hasPixels then pasteAt V pr.bbox x y color white else white
    let shape0 : Rat := if hasPixels then pasteAt V pr.bbox x y shape 0 else 0
    let color1 := if clips.isEmpty then color0 else (applyClips B V x y (PState.init color0 shape0 false) clips).c
    { color := color1,
      shape := shape0 * (maskFactors pr V x y).1 * pr.fill,
      alpha := shape0 * ((maskFactors pr V x y).1 * (maskFactors pr V x y).2 * pr.opacity) * pr.fill,
      bl := B pr.mode }
  | .group pr passThrough children clips => fun c a =>
    let V' := intersect V pr.bbox
    let inside := V'.contains x y
    let sub := applyList B V' x y (PState.init c a (!passThrough)) children
    let color0 : Color := if inside then finishColor sub else white
    let shape0 : Rat := if inside then sub.sg else 0
    let alpha0 : Rat := if inside then sub.ag else 0
    let color1 := if clips.isEmpty then color0 else (applyClips B V x y (PState.init color0 alpha0 false) clips).c
    { color := color1,
      shape := shape0 * (maskFactors pr V x y).1 * pr.fill,
      alpha := alpha0 * ((maskFactors pr V x y).1 * (maskFactors pr V x y).2 * pr.opacity) * pr.fill,
      bl := B pr.mode }

theorem applyNode_eq_stepGen (B : Mode → Color → Color → Color) (V : Rect) (x y : Int) (cc : Bool) (st : PState)
    (n : Node) (hko : n.props.knockout = false) :
    applyNode B V x y cc st n = if nodeSkipped V cc n then st else stepGen st (nodeGen B V x y n) := by
  cases n with
  | leaf pr hasPixels color shape clips =>
    simp only [Node.props] at hko
    unfold applyNode nodeSkipped
    simp only [Node.props]
    by_cases h1 : pr.visible = true <;> by_cases h2 : intersect V pr.bbox = Rect.zero <;>
      by_cases h3 : (!cc && pr.clipping && pr.hasClipTarget) = true <;>
      simp [h1, h2, h3, stepGen, nodeGen, finishApply, hko]
  | group pr passThrough children clips =>
    simp only [Node.props] at hko
    unfold applyNode nodeSkipped
    simp only [Node.props]
    by_cases h1 : pr.visible = true <;> by_cases h2 : intersect V pr.bbox = Rect.zero <;>
      by_cases h3 : (!cc && pr.clipping && pr.hasClipTarget) = true <;>
      simp [h1, h2, h3, stepGen, nodeGen, finishApply, hko]

theorem nodeGen_ok {B : Mode → Color → Color → Color} (hB : BOk B) (V : Rect) (x y : Int) (n : Node) (hn : nodeOk n) :
    Gen.Ok (nodeGen B V x y n) := by
  intro c a hc ha
  cases n with
  | leaf pr hasPixels color shape clips =>
    obtain ⟨hp, hcol, hsh, hcl⟩ := hn
    have hc0 : ColorOk (if hasPixels then pasteAt V pr.bbox x y color white else white) := by
      split
      · exact pasteAt_color hcol white_ok
      · exact white_ok
    have hs0 : Unit01 (if hasPixels then pasteAt V pr.bbox x y shape 0 else 0) := by
      split
      · exact pasteAt_unit hsh unit01_zero
      · exact unit01_zero
    refine ⟨?_, hB pr.mode⟩
    simp only [nodeGen]
    apply finishApply_src hp V x y _ hs0.1 (le_refl _) hs0.2
    split
    · exact hc0
    · exact (applyClips_inv B V x y _ (inv_init hc0 hs0 false) clips hcl).c
  | group pr passThrough children clips =>
    obtain ⟨hp, hch, hcl⟩ := hn
    have hsub := applyList_inv B (intersect V pr.bbox) x y _ (inv_init hc ha (!passThrough)) children hch
    refine ⟨?_, hB pr.mode⟩
    simp only [nodeGen]
    by_cases hin : (intersect V pr.bbox).contains x y = true
    · simp only [hin, if_true]
      apply finishApply_src hp V x y _ hsub.ag.1 hsub.ag_le hsub.sg.2
      split
      · exact fun ch => clip_unit _
      · exact (applyClips_inv B V x y _ (inv_init (fun ch => clip_unit _) hsub.ag false) clips hcl).c
    · simp only [hin, Bool.false_eq_true, if_false]
      apply finishApply_src hp V x y _ (le_refl _) (le_refl _) (by norm_num)
      split
      · exact white_ok
      · exact (applyClips_inv B V x y _ (inv_init white_ok unit01_zero false) clips hcl).c

/-- the generators of the layers of a list that `apply` does not skip -/
def listGens (B : Mode → Color → Color → Color) (V : Rect) (x y : Int) : List Node → List Gen
  | [] => []
  | n :: ns => if nodeSkipped V false n then listGens B V x y ns else nodeGen B V x y n :: listGens B V x y ns

theorem applyList_eq_runGens (B : Mode → Color → Color → Color) (V : Rect) (x y : Int) (st : PState) (ns : List Node)
    (hko : ∀ n ∈ ns, n.props.knockout = false) :
    applyList B V x y st ns = runGens st (listGens B V x y ns) := by
  induction ns generalizing st with
  | nil => simp [applyList, listGens, runGens]
  | cons n ns ih =>
    have h1 := hko n (List.mem_cons_self ..)
    have h2 : ∀ m ∈ ns, m.props.knockout = false := fun m hm => hko m (List.mem_cons_of_mem _ hm)
    unfold applyList listGens
    rw [applyNode_eq_stepGen B V x y false st n h1]
    by_cases hs : nodeSkipped V false n = true
    · simp only [hs, if_true]; exact ih _ h2
    · simp only [hs, Bool.false_eq_true, if_false, runGens]; exact ih _ h2

theorem listGens_ok {B : Mode → Color → Color → Color} (hB : BOk B) (V : Rect) (x y : Int) (ns : List Node)
    (h : listOk ns) : ∀ g ∈ listGens B V x y ns, Gen.Ok g := by
  induction ns with
  | nil => intro g hg; simp [listGens] at hg
  | cons n ns ih =>
    intro g hg
    unfold listGens at hg
    split at hg
    · exact ih h.2 g hg
    · rcases List.mem_cons.1 hg with rfl | hg'
      · exact nodeGen_ok hB V x y n h.1
      · exact ih h.2 g hg'

theorem applyList_congr_view (B : Mode → Color → Color → Color) (V V' : Rect) (x y : Int) (ns : List Node)
    (h : ∀ n ∈ ns, ∀ st, applyNode B V' x y false st n = applyNode B V x y false st n) (st : PState) :
    applyList B V' x y st ns = applyList B V x y st ns := by
  induction ns generalizing st with
  | nil => rfl
  | cons n ns ih =>
    unfold applyList
    rw [h n (List.mem_cons_self ..) st]
    exact ih (fun m hm => h m (List.mem_cons_of_mem _ hm)) _

end PsdVerif.Composite
