/-
C01 payload unit 2 — the two laws (`RtAnywhere` | `RtAtEnd`, `Count`) of every codec of Model/PayloadSimple.lean.
-/
import PsdVerif.Lemmas.PayloadBase
import PsdVerif.Lemmas.CodecPsd2
import PsdVerif.Lemmas.Descriptor3
import PsdVerif.Model.PayloadSimple

namespace PsdVerif.Payload
open PsdVerif PsdVerif.Codec

theorem orElseIO_ok {α : Type} {a b : R α} {d : B} {p : Nat} {r : α × Nat} (h : a d p = .ok r) :
    orElseIO a b d p = .ok r := by
  simp only [orElseIO, h]

/-! ## base.py -/

theorem EmptyElement.rt : EmptyElement.codec.RtAnywhere := fun _ _ _ _ _ _ => rfl
theorem EmptyElement.count : EmptyElement.codec.Count := fun _ => rfl

theorem NumericElement.rt : NumericElement.codec.RtAnywhere := fun _ _ _ _ _ h => (readF64_step h.nil_right).1
theorem NumericElement.count : NumericElement.codec.Count := fun _ => rfl

theorem IntegerElement.rt : IntegerElement.codec.RtAnywhere := fun _ _ hf _ _ h => readU_at h hf
theorem IntegerElement.count : IntegerElement.codec.Count := fun _ => rfl

theorem ShortIntegerElement.rt : ShortIntegerElement.codec.RtAnywhere := by
  intro v _ hf d p h
  have h : At d p (beBytes 2 v ++ (zeros 2 ++ [])) := by simpa [ShortIntegerElement.codec] using h
  obtain ⟨e1, h⟩ := readU_step h hf
  obtain ⟨e2, _⟩ := readSkip_step h
  apply orElseIO_ok
  simp only [readH2x, bind, Except.bind, e1, e2, Nat.add_assoc]
  rfl
theorem ShortIntegerElement.count : ShortIntegerElement.codec.Count := fun _ => rfl

theorem ByteElement.rt : ByteElement.codec.RtAnywhere := by
  intro v _ hf d p h
  have h : At d p (beBytes 1 v ++ (zeros 3 ++ [])) := by simpa [ByteElement.codec] using h
  obtain ⟨e1, h⟩ := readU_step h hf
  obtain ⟨e2, _⟩ := readSkip_step h
  apply orElseIO_ok
  simp only [readB3x, bind, Except.bind, e1, e2, Nat.add_assoc]
  rfl
theorem ByteElement.count : ByteElement.codec.Count := fun _ => rfl

theorem BooleanElement.rt : BooleanElement.codec.RtAnywhere := by
  intro v _ _ d p h
  have h : At d p (boolT v ++ (zeros 3 ++ [])) := by simpa [BooleanElement.codec] using h
  obtain ⟨e1, h⟩ := readBool_step h
  obtain ⟨e2, _⟩ := readSkip_step h
  apply orElseIO_ok
  simp only [readBool3x, bind, Except.bind, e1, e2, Nat.add_assoc]
  rfl
theorem BooleanElement.count : BooleanElement.codec.Count := fun _ => rfl

theorem StringElement.rt (pw pr : Nat) : (StringElement.codec pw pr).RtAnywhere := by
  intro s hwf hf d p h
  obtain ⟨hpy, hnp, hpads, hpw⟩ := hwf
  have hfit : UStrFits s := ⟨hpy, hf⟩
  simp only [StringElement.codec] at h ⊢
  by_cases h1 : pr = 1
  · subst h1
    simp only [if_true]
    exact readUStr1_step hfit hnp h.nil_right
  · have hpr : pr = pw := by rcases hpads with h | h; exact absurd h h1; exact h
    subst hpr
    simp only [if_neg h1]
    exact (readUStr_step hfit hnp hpw h.nil_right).1

theorem StringElement.count (pw pr : Nat) : (StringElement.codec pw pr).Count := by
  intro s
  exact wUStr_eq pw s

/-! ## color.py -/

theorem Color.length_values (lab : Bool) (vs : List Int) : (listT (Color.valueT lab) vs).length = 2 * vs.length := by
  induction vs with
  | nil => rfl
  | cons v vs ih =>
    have : (Color.valueT lab v).length = 2 := by
      unfold Color.valueT; split
      · exact length_i16T _
      · exact length_beBytes _ _
    simp only [listT, List.length_append, this, ih, List.length_cons]; omega

theorem Color.length_encT (c : Color) (hf : c.Fits) : c.encT.length = 10 := by
  simp only [Color.encT, List.length_append, length_beBytes, Color.length_values, hf.2.1]

theorem Color.readValue_at (lab : Bool) (z : Int) (hz : Color.valueFits lab z) {d : B} {p : Nat}
    (h : At d p (Color.valueT lab z)) : Color.readValue lab d p = .ok (z, p + (Color.valueT lab z).length) := by
  unfold Color.valueT Color.valueFits Color.readValue at *
  cases lab with
  | true =>
    simp only [if_true] at h hz ⊢
    rw [readI16_at h hz, length_i16T]
  | false =>
    simp only [Bool.false_eq_true, if_false] at h hz ⊢
    have hn : z.toNat < 256 ^ 2 := by omega
    rw [readU_at h hn, length_beBytes]
    have : ((z.toNat : Nat) : Int) = z := by omega
    simp only [this]

theorem Color.dec_step {c : Color} (hf : c.Fits) {d : B} {p : Nat} {rest : B} (h : At d p (c.encT ++ rest)) :
    Color.dec d p = .ok (c, p + 10) ∧ At d (p + 10) rest := by
  have hlen := c.length_encT hf
  refine ⟨?_, hlen ▸ h.right⟩
  obtain ⟨hid, h4, hvs⟩ := hf
  unfold Color.encT at h
  simp only [List.append_assoc] at h
  obtain ⟨e1, h⟩ := readU_step h hid
  obtain ⟨e2, _⟩ := Psd.readCount_step (Color.readValue c.isLab) (Color.valueT c.isLab) c.values
    (fun z hz d p h => Color.readValue_at c.isLab z (hvs z hz) h) h
  rw [h4] at e2
  simp only [Color.isLab] at e2
  simp only [Color.dec, bind, Except.bind, e1, e2, Color.length_values, h4]

theorem Color.rt : Color.codec.RtAnywhere := fun _ _ hf _ _ h => (Color.dec_step hf h.nil_right).1

theorem Color.encP_eq (c : Color) : c.encP = (c.encT, c.encT.length) := by
  simp only [Color.encP, Color.encT, wBytes_eq, wSeq_eq]

theorem Color.count : Color.codec.Count := Color.encP_eq

/-! ## tagged_blocks.py -/

theorem BytesElement.rt : BytesElement.codec.RtAtEnd := by
  intro v hwf _ d p h hend
  simp only [BytesElement.codec] at *
  have hd := h.drop_of_end hend
  simp only [readUpTo, hd, List.take_of_length_le hwf]

theorem BytesElement.count : BytesElement.codec.Count := fun _ => rfl

/-- with exactly four bytes the value is read back anywhere in a stream -/
theorem BytesElement.rt_anywhere (v : B) (h4 : v.length = 4) {d : B} {p : Nat} (h : At d p v) :
    BytesElement.codec.dec d p = .ok (v, p + 4) := by
  simp only [BytesElement.codec]
  rw [readUpTo_at' h h4]

theorem SheetColorSetting.rt : SheetColorSetting.codec.RtAnywhere := by
  intro v hwf hf d p h
  have h : At d p (beBytes 2 v ++ (zeros 6 ++ [])) := by simpa [SheetColorSetting.codec] using h
  obtain ⟨e1, h⟩ := readU_step h hf
  obtain ⟨e2, _⟩ := readSkip_step h
  have hwf' : v ∈ GP.sheetColors := hwf
  simp only [SheetColorSetting.codec, bind, Except.bind, e1, e2, if_pos hwf', Nat.add_assoc]

theorem SheetColorSetting.count : SheetColorSetting.codec.Count := fun _ => rfl

theorem ReferencePoint.rt : ReferencePoint.codec.RtAnywhere := by
  intro vs _ hf d p h
  have hf : vs.length = 2 := hf
  match vs, hf with
  | [x, y], _ =>
    have h : At d p (f64T x ++ (f64T y ++ [])) := by simpa [ReferencePoint.codec, listT] using h
    obtain ⟨e1, h⟩ := readF64_step h
    obtain ⟨e2, _⟩ := readF64_step h
    simp only [ReferencePoint.codec, bind, Except.bind, e1, e2, Nat.add_assoc]

theorem ReferencePoint.count : ReferencePoint.codec.Count := fun _ => rfl

namespace SectionDividerSetting

theorem encP_eq (x : SectionDividerSetting) : x.encP = (x.encT, x.encT.length) := by
  unfold encP encT
  cases x.hasTail with
  | none => simp only [wBytes_eq, List.append_nil]
  | some sb =>
    obtain ⟨s, b⟩ := sb
    cases x.subType with
    | none => simp only [wBytes_eq, wSeq_eq, Psd.optT, List.append_nil]
    | some n => simp only [wBytes_eq, wSeq_eq, Psd.optT, List.append_assoc]

theorem rt : codec.RtAtEnd := by
  intro x hwf hf d p h hend
  obtain ⟨kind, sig, bm, sub⟩ := x
  obtain ⟨hk, hshape⟩ := hwf
  simp only [codec] at h hend hf ⊢
  have hkl : ∀ k ∈ GP.sectionDividerKinds, k < 256 ^ 4 := by decide
  have hbl : ∀ b ∈ Psd.G.blendModes, b.length = 4 ∧ b ≠ [] := by decide
  cases sig with
  | none =>
    cases bm with
    | some b => simp at hshape
    | none =>
      simp only at hshape
      subst hshape
      have henc : encT ⟨kind, none, none, none⟩ = beBytes 4 kind := by simp [encT, hasTail]
      rw [henc] at h hend ⊢
      rw [length_beBytes] at hend
      have e1 := readU_at h (hkl _ hk)
      have r8 : isReadable 8 d (p + 4) = false := isReadable_false (by omega)
      simp only [dec, bind, Except.bind, e1, if_pos hk, r8, Bool.false_eq_true, if_false, length_beBytes, Option.isSome_none,
        Bool.false_and]
  | some s =>
    cases bm with
    | none => simp at hshape
    | some b =>
      simp only at hshape
      obtain ⟨rfl, hb⟩ := hshape
      obtain ⟨hb4, hbne⟩ := hbl b hb
      have htail : hasTail ⟨kind, some sig8BIM, some b, sub⟩ = some (sig8BIM, b) := by
        simp only [hasTail]
        rw [if_pos ⟨by decide, hbne⟩]
      have hs : pack4s sig8BIM = sig8BIM := pack4s_of_length rfl
      have hb' : pack4s b = b := pack4s_of_length hb4
      have henc : encT ⟨kind, some sig8BIM, some b, sub⟩ = beBytes 4 kind ++ (sig8BIM ++ (b ++ (Psd.optT 4 sub ++ []))) := by
        simp only [encT, htail, hs, hb', List.append_assoc, List.append_nil]
      simp only [Fits, htail] at hf
      rw [henc] at h hend ⊢
      obtain ⟨e1, h⟩ := readU_step h (hkl _ hk)
      have r8 : isReadable 8 d (p + 4) = true := isReadable_of_at h (by simp [hb4, sig8BIM])
      obtain ⟨e2, h⟩ := readN_step (n := 4) h rfl
      obtain ⟨e3, h⟩ := readN_step h hb4
      simp only [List.length_append, length_beBytes, hb4, Psd.length_optT, List.length_nil] at hend ⊢
      have hsig : (sig8BIM : B).length = 4 := rfl
      rw [hsig] at hend ⊢
      cases sub with
      | none =>
        have r4 : isReadable 4 d (p + 4 + 4 + 4) = false := isReadable_false (by simp at hend; omega)
        simp only [dec, bind, Except.bind, e1, if_pos hk, r8, if_true, e2, e3, if_pos hb, r4, Bool.false_eq_true, if_false,
          Option.isSome_none, Option.isSome_some, Bool.true_and, Bool.and_false]
      | some n =>
        simp only [Psd.optT, Psd.optFits] at h hf
        have r4 : isReadable 4 d (p + 4 + 4 + 4) = true := isReadable_of_at h (by simp [length_beBytes])
        obtain ⟨e4, _⟩ := readU_step h hf.2
        simp only [dec, bind, Except.bind, e1, if_pos hk, r8, if_true, e2, e3, if_pos hb, r4, Codec.optItem, e4,
          Option.isSome_some, Bool.true_and, Bool.and_true]

theorem count : codec.Count := encP_eq

end SectionDividerSetting

theorem UserMask.rt : UserMask.codec.RtAnywhere := by
  intro x _ hf d p h
  obtain ⟨hc, ho, hfl⟩ := hf
  have h : At d p (x.color.encT ++ (beBytes 2 x.opacity ++ (beBytes 1 x.flag ++ (zeros 1 ++ [])))) := by
    simpa [UserMask.codec, List.append_assoc] using h
  obtain ⟨e1, h⟩ := Color.dec_step hc h
  obtain ⟨e2, h⟩ := readU_step h ho
  obtain ⟨e3, h⟩ := readU_step h hfl
  obtain ⟨e4, _⟩ := readSkip_step h
  simp only [UserMask.codec, bind, Except.bind, e1, e2, e3, e4, Nat.add_assoc]

theorem UserMask.count : UserMask.codec.Count := by
  intro x
  simp only [UserMask.codec, Color.encP_eq, wBytes_eq, wSeq_eq]

theorem FilterMask.rt : FilterMask.codec.RtAnywhere := by
  intro x _ hf d p h
  obtain ⟨hc, ho⟩ := hf
  have h : At d p (x.color.encT ++ (beBytes 2 x.opacity ++ [])) := by simpa [FilterMask.codec] using h
  obtain ⟨e1, h⟩ := Color.dec_step hc h
  obtain ⟨e2, _⟩ := readU_step h ho
  simp only [FilterMask.codec, bind, Except.bind, e1, e2, Nat.add_assoc]

theorem FilterMask.count : FilterMask.codec.Count := by
  intro x
  simp only [FilterMask.codec, Color.encP_eq, wBytes_eq, wSeq_eq]

theorem length_listT_const {α : Type} (f : α → B) (k : Nat) (vs : List α) (h : ∀ v ∈ vs, (f v).length = k) :
    (listT f vs).length = k * vs.length := by
  induction vs with
  | nil => rfl
  | cons v vs ih =>
    simp only [listT, List.length_append, h v (by simp), ih (fun x hx => h x (by simp [hx])), List.length_cons]
    rw [Nat.mul_succ]; omega

theorem ChannelBlendingRestrictionsSetting.rt : ChannelBlendingRestrictionsSetting.codec.RtAtEnd := by
  intro vs _ hf d p h hend
  simp only [ChannelBlendingRestrictionsSetting.codec] at *
  have hlen := length_listT_const (beBytes 4) 4 vs (fun v _ => length_beBytes 4 v)
  rw [← hlen]
  apply readWhile_at (isReadable 4) (Codec.optItem (readU 4)) (beBytes 4) vs _ _ h
  · exact isReadable_false (by omega)
  · intro v hv q hq
    refine ⟨isReadable_of_at hq (by rw [length_beBytes]; exact Nat.le_refl 4), ?_⟩
    simp only [Codec.optItem, readU_at hq (hf v hv), length_beBytes]
  · intro v _; rw [length_beBytes]; decide

theorem ChannelBlendingRestrictionsSetting.count : ChannelBlendingRestrictionsSetting.codec.Count := fun _ => rfl

theorem PixelSourceData2.rt (pad : Nat) : (PixelSourceData2.codec pad).RtAtEnd := by
  intro vs hwf hf d p h hend
  simp only [PixelSourceData2.codec] at *
  have hpadlt : padAmount (listT (lenBlockT 0 8 1) vs).length pad < 8 := by
    have := padAmount_lt (listT (lenBlockT 0 8 1) vs).length pad (by rcases hwf with h | h | h <;> omega)
    rcases hwf with h | h | h <;> omega
  simp only [List.length_append, length_zeros] at hend
  apply readWhile_at (isReadable 8) (Codec.optItem (readLenBlock 0 8 1)) (lenBlockT 0 8 1) vs _ _ h.left
  · exact isReadable_false (by omega)
  · intro v hv q hq
    have hl := length_lenBlockT 0 8 1 v
    refine ⟨isReadable_of_at hq (by omega), ?_⟩
    simp only [Codec.optItem, readLenBlock_at hq (hf v hv) (by decide)]
  · intro v _; have hl := length_lenBlockT 0 8 1 v; omega

theorem PixelSourceData2.count (pad : Nat) : (PixelSourceData2.codec pad).Count := by
  intro vs
  simp only [PixelSourceData2.codec]
  rw [wList_eq _ (lenBlockT 0 8 1) vs (fun v _ => by rw [wBytes_eq, wLenBlock_eq])]
  simp only [wSeq_eq, wPad_eq]

/-! ### MetadataSetting(s) -/

namespace MetadataSetting
variable (tb : Descriptor.Tables)

theorem dataP_eq (x : MetaData) : dataP tb x = (dataT tb x, (dataT tb x).length) := by
  cases x with
  | raw b => rfl
  | int n => rfl
  | desc blk => exact Descriptor.Block.encW_eq tb 4 blk

theorem encP_eq (x : MetadataSetting) : encP tb x = (encT tb x, (encT tb x).length) := by
  simp only [encP, encT, dataP_eq, wBytes_eq, wLenBlock_eq, wSeq_eq]

theorem typedData_dataT {x : MetadataSetting} (hwf : WF tb x) (hf : Fits tb x) :
    typedData tb x.key (dataT tb x.data) = .ok x.data := by
  obtain ⟨_, _, hshape⟩ := hwf
  obtain ⟨hdf, _⟩ := hf
  obtain ⟨sig, key, cos, data⟩ := x
  cases data with
  | raw b =>
    simp only at hshape
    simp only [typedData, if_neg hshape.1, if_neg hshape.2, dataT]
  | int n =>
    simp only at hshape
    simp only [dataFits] at hdf
    have e := readU_at (At.self (beBytes 4 n)) hdf
    simp only [typedData, if_pos hshape, dataT, e]
  | desc blk =>
    simp only at hshape
    simp only [dataFits] at hdf
    have e := Descriptor.Block.dec_at (pad := 4) hshape.2.2 hdf (At.self _)
    simp only [typedData, if_neg hshape.1, if_pos hshape.2.1, dataT, e]

theorem length_headT (x : MetadataSetting) : (headT x).length = 12 := by
  simp only [headT, List.length_append, length_pack4s, length_boolT, length_zeros]

theorem dec_at {x : MetadataSetting} (hwf : WF tb x) (hf : Fits tb x) {d : B} {p : Nat} (h : At d p (encT tb x)) :
    dec tb d p = .ok (x, p + (encT tb x).length) := by
  have hpl := typedData_dataT tb hwf hf
  obtain ⟨hsig, hkey, _⟩ := hwf
  obtain ⟨_, hlen⟩ := hf
  have hl : ∀ s ∈ GP.metadataSignatures, s.length = 4 := by decide
  have hs : pack4s x.signature = x.signature := pack4s_of_length (hl _ hsig)
  have hk : pack4s x.key = x.key := pack4s_of_length hkey
  have hL : (encT tb x).length = 4 + (4 + (1 + (3 + (lenBlockT 0 4 1 (dataT tb x.data)).length))) := by
    simp only [encT, List.length_append, length_headT]; omega
  rw [hL]
  simp only [encT, headT, hs, hk, List.append_assoc] at h
  obtain ⟨e1, h⟩ := readN_step h (hl _ hsig)
  obtain ⟨e2, h⟩ := readN_step h hkey
  obtain ⟨e3, h⟩ := readBool_step h
  obtain ⟨e4, h⟩ := readSkip_step h
  have e5 := readLenBlock_at h hlen (by decide)
  simp only [dec, bind, Except.bind, e1, if_pos hsig, e2, e3, e4, e5, hpl]
  simp only [Nat.add_assoc]

theorem rt : (codec tb).RtAnywhere := fun _ hwf hf _ _ h => dec_at tb hwf hf h
theorem count : (codec tb).Count := encP_eq tb

end MetadataSetting

theorem MetadataSettings.rt (tb : Descriptor.Tables) : (MetadataSettings.codec tb).RtAnywhere := by
  intro xs hwf hf d p h
  obtain ⟨hn, hitems⟩ := hf
  have h : At d p (beBytes 4 xs.length ++ (listT (MetadataSetting.encT tb) xs ++ [])) := by
    simpa [MetadataSettings.codec] using h
  obtain ⟨e1, h⟩ := readU_step h hn
  obtain ⟨e2, _⟩ := Psd.readCount_step (MetadataSetting.dec tb) (MetadataSetting.encT tb) xs
    (fun x hx d p h => MetadataSetting.dec_at tb (hwf x hx) (hitems x hx) h) h
  simp only [MetadataSettings.codec, bind, Except.bind, e1, e2, Nat.add_assoc]

theorem MetadataSettings.count (tb : Descriptor.Tables) : (MetadataSettings.codec tb).Count := by
  intro xs
  simp only [MetadataSettings.codec]
  rw [wList_eq _ (MetadataSetting.encT tb) xs (fun x _ => MetadataSetting.encP_eq tb x)]
  simp only [wBytes_eq, wSeq_eq]

/-! ### Annotation(s) -/

theorem readI32List_step {vs : List Int} (h4 : vs.length = 4) (hf : listFits FitsI32 vs) {d : B} {p : Nat} {rest : B}
    (h : At d p (listT i32T vs ++ rest)) :
    readCount readI32 4 d p = .ok (vs, p + 16) ∧ At d (p + 16) rest := by
  have hl := length_listT_const i32T 4 vs (fun v _ => length_i32T v)
  rw [h4] at hl
  obtain ⟨e, h'⟩ := Psd.readCount_step readI32 i32T vs
    (fun z hz d p h => by rw [readI32_at h (hf z hz), length_i32T]) h
  rw [h4, hl] at e
  rw [hl] at h'
  exact ⟨e, h'⟩

namespace Annotation

theorem encP_eq (a : Annotation) : a.encP = (a.encT, a.encT.length) := by
  simp only [encP, encT, Color.encP_eq, wPascal_eq, wBytes_eq, wLenBlock_eq, wSeq_eq, List.append_assoc]

theorem dec_at {a : Annotation} (hwf : a.Valid) (hf : a.Fits) {d : B} {p : Nat} (h : At d p a.encT) :
    dec d p = .ok (a, p + a.encT.length) := by
  obtain ⟨f1, f2, f3, ⟨i4, fi⟩, ⟨p4, fp⟩, fc, fa, fn, fm, fl, fd⟩ := hf
  have hkl : ∀ k ∈ GP.annotationKinds, k.length = 4 := by decide
  have hml : ∀ k ∈ GP.annotationMarkers, k.length = 4 := by decide
  have hk : pack4s a.kind = a.kind := pack4s_of_length (hkl _ hwf.1)
  have hm : pack4s a.marker = a.marker := pack4s_of_length (hml _ hwf.2)
  have hL : a.encT.length = 4 + (1 + (1 + (2 + (16 + (16 + (10 + ((pascalT 2 a.author).length + ((pascalT 2 a.name).length +
      ((pascalT 2 a.modDate).length + (4 + (4 + (lenBlockT 0 4 1 a.data).length))))))))))) := by
    have h1 := length_listT_const i32T 4 a.iconLocation (fun v _ => length_i32T v)
    have h2 := length_listT_const i32T 4 a.popupLocation (fun v _ => length_i32T v)
    simp only [encT, List.length_append, length_pack4s, length_beBytes, h1, h2, i4, p4, a.color.length_encT fc]
    omega
  rw [hL]
  have h : At d p (a.kind ++ (beBytes 1 a.isOpen ++ (beBytes 1 a.flags ++ (beBytes 2 a.optionalBlocks ++
      (listT i32T a.iconLocation ++ (listT i32T a.popupLocation ++ (a.color.encT ++ (pascalT 2 a.author ++
      (pascalT 2 a.name ++ (pascalT 2 a.modDate ++ (beBytes 4 (a.data.length + 12) ++ (a.marker ++
      (lenBlockT 0 4 1 a.data ++ []))))))))))))) := by
    simpa only [encT, hk, hm, List.append_assoc, List.append_nil] using h
  obtain ⟨e1, h⟩ := readN_step h (hkl _ hwf.1)
  obtain ⟨e2, h⟩ := readU_step h f1
  obtain ⟨e3, h⟩ := readU_step h f2
  obtain ⟨e4, h⟩ := readU_step h f3
  obtain ⟨e5, h⟩ := readI32List_step i4 fi h
  obtain ⟨e6, h⟩ := readI32List_step p4 fp h
  obtain ⟨e7, h⟩ := Color.dec_step fc h
  obtain ⟨e8, h⟩ := readPascal_step h fa
  obtain ⟨e9, h⟩ := readPascal_step h fn
  obtain ⟨e10, h⟩ := readPascal_step h fm
  obtain ⟨e11, h⟩ := readU_step h fl
  obtain ⟨e12, h⟩ := readN_step h (hml _ hwf.2)
  obtain ⟨e13, _⟩ := readLenBlock_step h fd (by decide)
  simp only [dec, bind, Except.bind, e1, e2, e3, e4, e5, e6, e7, e8, e9, e10, e11, e12, e13]
  rw [if_pos hwf]
  simp only [Nat.add_assoc]

theorem rt : codec.RtAnywhere := fun _ hwf hf _ _ h => dec_at hwf hf h
theorem count : codec.Count := encP_eq

theorem length_pos (a : Annotation) : 0 < a.encT.length := by
  simp only [encT, List.length_append, length_pack4s]; omega

end Annotation

namespace Annotations

theorem readItems_at (items : List Annotation) (hwf : ∀ a ∈ items, a.Valid)
    (hf : listFits (fun (a : Annotation) => a.Fits ∧ FitsU 4 (a.encT.length + 4)) items) {d : B} {p : Nat} {rest : B}
    (h : At d p (listT itemT items ++ rest)) :
    readItems items.length d p = .ok (items, p + (listT itemT items).length) := by
  induction items generalizing p with
  | nil => simp [readItems, listT]
  | cons a as ih =>
    obtain ⟨fa, fl⟩ := hf a (by simp)
    simp only [listT, itemT, List.append_assoc] at h
    obtain ⟨e1, h⟩ := readU_step h fl
    have e2 := readUpTo_at h.left
    have hpos := a.length_pos
    have hgt : 4 < a.encT.length + 4 := by omega
    have e3 := Annotation.dec_at (hwf a (by simp)) fa (At.self a.encT)
    have e4 := ih (fun x hx => hwf x (by simp [hx])) (fun x hx => hf x (by simp [hx])) h.right
    simp only [List.length_cons, readItems, bind, Except.bind, e1, if_pos hgt, Nat.add_sub_cancel, e2, e3, e4]
    simp only [listT, itemT, List.length_append, length_beBytes, Nat.add_assoc]

theorem rt : codec.RtAnywhere := by
  intro x hwf hf d p h
  obtain ⟨f1, f2, f3, fi⟩ := hf
  have h : At d p (beBytes 2 x.majorVersion ++ (beBytes 2 x.minorVersion ++ (beBytes 4 x.items.length ++
      (listT itemT x.items ++ zeros (padAmount x.bodyT.length 4))))) := by
    simpa only [codec, encT, bodyT, List.append_assoc] using h
  obtain ⟨e1, h⟩ := readU_step h f1
  obtain ⟨e2, h⟩ := readU_step h f2
  obtain ⟨e3, h⟩ := readU_step h f3
  have e4 := readItems_at x.items hwf fi h
  simp only [codec, dec, bind, Except.bind, e1, e2, e3, e4, bodyT, List.length_append, length_beBytes, Nat.add_assoc]

theorem count : codec.Count := by
  intro x
  simp only [codec, encP, encT, bodyT]
  rw [wList_eq _ itemT x.items (fun a _ => by simp only [itemT, wBytes_eq, wSeq_eq])]
  simp only [wBytes_eq, wSeq_eq, wPad_eq, List.append_assoc]

end Annotations

end PsdVerif.Payload
