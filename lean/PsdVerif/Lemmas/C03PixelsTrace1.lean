/-
C03 (`lengths_truthful`) — the regions the specification walker reports, not only where it ends:
spans (a region together with the bytes it has to delimit), primitives, header, colour mode data,
image resources, tagged blocks.

`Lemmas/Walker*.lean` prove where each walker ends (`posOf`); here the same steps are followed with
the region list in hand.
-/
import PsdVerif.Lemmas.Walker4

namespace PsdVerif.Walker
open PsdVerif PsdVerif.Codec PsdVerif.Psd

/-- a region the walker is expected to report, with the encoding of the sub-value it stands for -/
structure Span where
  region : Region
  bytes : B

/-- the region delimits exactly these bytes of the file -/
def Span.Holds (d : B) (s : Span) : Prop :=
  s.region.length = s.bytes.length ∧ At d s.region.offset s.bytes

def regionsOf (ss : List Span) : List Region := ss.map Span.region

theorem regionsOf_append (a b : List Span) : regionsOf (a ++ b) = regionsOf a ++ regionsOf b := by
  simp [regionsOf]

theorem regionsOf_cons (a : Span) (b : List Span) : regionsOf (a :: b) = a.region :: regionsOf b := rfl

/-- consecutive items of one kind: each starts where the previous one ended -/
def seqSpans {α : Type} (kind : String) (enc : α → B) : Nat → List α → List Span
  | _, [] => []
  | p, x :: xs => ⟨⟨p, (enc x).length, kind⟩, enc x⟩ :: seqSpans kind enc (p + (enc x).length) xs

theorem seqSpans_hold {α : Type} (kind : String) (enc : α → B) (xs : List α) {d : B} {p : Nat} {rest : B}
    (hat : At d p (listT enc xs ++ rest)) : ∀ s ∈ seqSpans kind enc p xs, s.Holds d := by
  induction xs generalizing p with
  | nil => intro s hs; simp [seqSpans] at hs
  | cons x xs ih =>
    intro s hs
    simp only [listT, List.append_assoc] at hat
    simp only [seqSpans, List.mem_cons] at hs
    rcases hs with rfl | hs
    · exact ⟨rfl, hat.left⟩
    · exact ih hat.right s hs

/-- the first span starts at `p`; each next one starts where the previous one ended -/
theorem seqSpans_consecutive {α : Type} (kind : String) (enc : α → B) (xs : List α) (p : Nat) :
    (∀ a, (seqSpans kind enc p xs)[0]? = some a → a.region.offset = p) ∧
    ∀ (i : Nat) (a b : Span), (seqSpans kind enc p xs)[i]? = some a → (seqSpans kind enc p xs)[i + 1]? = some b →
      b.region.offset = a.region.offset + a.region.length := by
  induction xs generalizing p with
  | nil => exact ⟨by intro a h; simp [seqSpans] at h, by intro i a b h; simp [seqSpans] at h⟩
  | cons x xs ih =>
    obtain ⟨i1, i2⟩ := ih (p + (enc x).length)
    refine ⟨?_, ?_⟩
    · intro a h
      simp only [seqSpans, List.getElem?_cons_zero, Option.some.injEq] at h
      rw [← h]
    · intro i a b h1 h2
      cases i with
      | zero =>
        simp only [seqSpans, List.getElem?_cons_zero, Option.some.injEq, List.getElem?_cons_succ] at h1 h2
        rw [i1 b h2, ← h1]
      | succ i =>
        simp only [seqSpans, List.getElem?_cons_succ] at h1 h2
        exact i2 i a b h1 h2

/-- the region delimits exactly these bytes of the file (`Span.Holds` without the auxiliary `At`) -/
def Delimits (bs : B) (r : Region) (sub : B) : Prop :=
  r.offset + r.length ≤ bs.length ∧ r.length = sub.length ∧ (bs.drop r.offset).take r.length = sub

theorem delimits_of_holds {bs : B} {s : Span} (h : s.Holds bs) : Delimits bs s.region s.bytes := by
  obtain ⟨h1, h2⟩ := h
  refine ⟨by rw [h1]; exact h2.bound, h1, ?_⟩
  rw [h1]; exact h2.drop_take

/-! ### where the primitives end, whatever the data -/

theorem readN_pos {n : Nat} {d : B} {p : Nat} {bs : B} {q : Nat} (h : readN n d p = .ok (bs, q)) : q = p + n := by
  unfold readN at h
  split at h
  · injection h with h; simp only [Prod.mk.injEq] at h; omega
  · cases h

theorem wU_pos {sect : String} {w : Nat} {d : B} {p n q : Nat} (h : wU sect w d p = .ok (n, q)) : q = p + w := by
  unfold wU readU at h
  cases hr : readN w d p with
  | error e => rw [hr] at h; cases h
  | ok x =>
    obtain ⟨bs, p'⟩ := x
    rw [hr] at h
    simp only [Except.ok.injEq, Prod.mk.injEq] at h
    have := readN_pos hr
    omega

theorem skip_pos {sect : String} {n : Nat} {d : B} {p q : Nat} {u : Unit} (h : skip sect n d p = .ok (u, q)) :
    q = p + n := by
  unfold skip at h
  split at h
  · injection h with h; simp only [Prod.mk.injEq] at h; omega
  · cases h

/-! ### header, colour mode data -/

theorem walkHeader_regions {d : B} {p : Nat} {hi : HeaderInfo} {rg : List Region} {q : Nat}
    (h : walkHeader d p = .ok ((hi, rg), q)) : rg = [⟨p, 26, "header"⟩] := by
  simp only [walkHeader, bind, Except.bind] at h
  repeat (split at h <;> try cases h)
  rfl

theorem walkHeader_full {h : Header} (hv : h.Valid) {d : B} {p : Nat} {rest : B} (hat : At d p (h.encT ++ rest)) :
    walkHeader d p = .ok ((⟨h.version, h.channels, h.height, h.width, h.depth, h.colorMode⟩,
        [⟨p, 26, "header"⟩]), p + 26) ∧ At d (p + 26) rest := by
  obtain ⟨e, hat'⟩ := walkHeader_step hv hat
  obtain ⟨rg, e⟩ := navOf_ok e
  rw [walkHeader_regions e] at e
  exact ⟨e, hat'⟩

theorem walkColorMode_regions {d : B} {p : Nat} {rg : List Region} {q : Nat}
    (h : walkColorMode d p = .ok (rg, q)) : rg = [⟨p, q - p, "color-mode-data"⟩] := by
  simp only [walkColorMode, bind, Except.bind] at h
  cases h1 : wU "color-mode-data" 4 d p with
  | error e => rw [h1] at h; cases h
  | ok x =>
    obtain ⟨n, p1⟩ := x
    rw [h1] at h
    simp only at h
    cases h2 : skip "color-mode-data" n d p1 with
    | error e => rw [h2] at h; cases h
    | ok y =>
      obtain ⟨u, p2⟩ := y
      rw [h2] at h
      simp only [Except.ok.injEq, Prod.mk.injEq] at h
      have e1 := wU_pos h1
      have e2 := skip_pos h2
      obtain ⟨rfl, rfl⟩ := h
      have : 4 + n = p2 - p := by omega
      rw [this]

theorem walkColorMode_full {v : B} (hf : FitsU 4 v.length) {d : B} {p : Nat} {rest : B}
    (hat : At d p (colorModeT v ++ rest)) :
    walkColorMode d p = .ok ([⟨p, (colorModeT v).length, "color-mode-data"⟩], p + (colorModeT v).length) ∧
      At d (p + (colorModeT v).length) rest := by
  obtain ⟨e, hat'⟩ := walkColorMode_step hf hat
  obtain ⟨rg, e⟩ := posOf_ok e
  have := walkColorMode_regions e
  rw [Nat.add_sub_cancel_left] at this
  rw [this] at e
  exact ⟨e, hat'⟩

/-! ### image resources -/

theorem walkResource_region {d : B} {p : Nat} {rg : Region} {q : Nat}
    (h : walkResource d p = .ok (rg, q)) : rg = ⟨p, q - p, "image-resource"⟩ := by
  simp only [walkResource, bind, Except.bind] at h
  repeat (split at h <;> try cases h)
  rfl

theorem walkResource_full {r : Resource} (hwf : r.WF) {d : B} {p : Nat} {rest : B} (hat : At d p (r.encT ++ rest)) :
    walkResource d p = .ok (⟨p, r.encT.length, "image-resource"⟩, p + r.encT.length) ∧
      At d (p + r.encT.length) rest := by
  obtain ⟨e, hat'⟩ := walkResource_step hwf hat
  obtain ⟨rg, e⟩ := posOf_ok e
  have := walkResource_region e
  rw [Nat.add_sub_cancel_left] at this
  rw [this] at e
  exact ⟨e, hat'⟩

theorem walkResourcesLoop_full (rs : List Resource) (hwf : ∀ r ∈ rs, r.WF) {d : B} {p : Nat} {rest : B}
    (hat : At d p (listT Resource.encT rs ++ rest)) (stop : Nat) (hstop : stop = p + (listT Resource.encT rs).length)
    (fuel : Nat) (hf : rs.length < fuel) :
    walkResourcesLoop stop fuel d p = .ok (regionsOf (seqSpans "image-resource" Resource.encT p rs), stop) := by
  induction rs generalizing p fuel with
  | nil =>
    cases fuel with
    | zero => omega
    | succ fuel =>
      simp only [listT, List.length_nil, Nat.add_zero] at hstop
      subst hstop
      simp [walkResourcesLoop, seqSpans, regionsOf]
  | cons r rs ih =>
    cases fuel with
    | zero => omega
    | succ fuel =>
      simp only [listT, List.append_assoc, List.length_append] at hat hstop
      have hge := r.length_ge
      obtain ⟨e1, hat'⟩ := walkResource_full (hwf r (by simp)) hat
      have e2 := ih (fun x hx => hwf x (by simp [hx])) hat' (by omega) fuel (by simpa using hf)
      have hlt : p < stop := by omega
      have hle : p + r.encT.length ≤ stop := by omega
      simp only [walkResourcesLoop, if_pos hlt, e1, if_pos hle, e2, seqSpans, regionsOf_cons]

/-- the spans of the image resources section: the section, then one per resource block -/
def resourcesSpans (p : Nat) (rs : List Resource) : List Span :=
  ⟨⟨p, (resourcesT rs).length, "image-resources"⟩, resourcesT rs⟩ :: seqSpans "image-resource" Resource.encT (p + 4) rs

theorem resourcesT_eq (rs : List Resource) : resourcesT rs = beBytes 4 (resourcesBodyT rs).length ++ resourcesBodyT rs := by
  simp [resourcesT, lenBlockT, zeros, padAmount_one]

theorem walkResources_full {rs : List Resource} (hwf : resourcesWF rs) {d : B} {p : Nat} {rest : B}
    (hat : At d p (resourcesT rs ++ rest)) :
    walkResources d p = .ok (regionsOf (resourcesSpans p rs), p + (resourcesT rs).length) ∧
      At d (p + (resourcesT rs).length) rest := by
  obtain ⟨hall, _, hf⟩ := hwf
  have hT := resourcesT_eq rs
  have hl : (resourcesT rs).length = 4 + (resourcesBodyT rs).length := by rw [hT]; simp [length_beBytes]
  refine ⟨?_, hat.right⟩
  rw [hT, List.append_assoc] at hat
  obtain ⟨e1, hat⟩ := wU_step (sect := "image-resources") hat hf
  have e2 := (skip_step (sect := "image-resources") hat rfl).1
  have hcount : rs.length < (resourcesBodyT rs).length + 1 := by
    have := length_listT_le Resource.encT rs 1 (fun r _ => by have := r.length_ge; omega)
    unfold resourcesBodyT; omega
  have e3 := walkResourcesLoop_full rs hall hat (p + 4 + (resourcesBodyT rs).length) rfl
    ((resourcesBodyT rs).length + 1) hcount
  simp only [walkResources, bind, Except.bind, e1, e2, e3, resourcesSpans, regionsOf_cons, hl]
  simp only [Nat.add_assoc]

theorem resourcesSpans_hold (rs : List Resource) {d : B} {p : Nat} {rest : B} (hat : At d p (resourcesT rs ++ rest)) :
    ∀ s ∈ resourcesSpans p rs, s.Holds d := by
  intro s hs
  simp only [resourcesSpans, List.mem_cons] at hs
  rcases hs with rfl | hs
  · exact ⟨rfl, hat.left⟩
  · rw [resourcesT_eq, List.append_assoc] at hat
    have := hat.right
    rw [length_beBytes] at this
    exact seqSpans_hold _ _ rs this s hs

/-! ### tagged blocks -/

theorem walkBlock_region {sect : String} {v align : Nat} {even : Bool} {d : B} {p : Nat} {rg : Region} {q : Nat}
    (h : walkBlock sect v align even d p = .ok (rg, q)) : rg = ⟨p, q - p, "tagged-block"⟩ := by
  simp only [walkBlock, bind, Except.bind] at h
  repeat (split at h <;> try cases h)
  rfl

theorem walkBlock_full {sect : String} {v align : Nat} {even : Bool} (ha : align = 1 ∨ align = 2 ∨ align = 4)
    {t : TaggedBlock} (hwf : t.WF v) (hk : KeyAgrees v t) (he : even = true → t.data.length % 2 = 0)
    {d : B} {p : Nat} {rest : B} (hat : At d p (t.encT v align ++ rest)) :
    walkBlock sect v align even d p = .ok (⟨p, (t.encT v align).length, "tagged-block"⟩, p + (t.encT v align).length) ∧
      At d (p + (t.encT v align).length) rest := by
  obtain ⟨e, hat'⟩ := walkBlock_step (sect := sect) ha hwf hk he hat
  obtain ⟨rg, e⟩ := posOf_ok e
  have := walkBlock_region e
  rw [Nat.add_sub_cancel_left] at this
  rw [this] at e
  exact ⟨e, hat'⟩

theorem walkBlocksLoop_full {sect : String} {v align : Nat} {even : Bool} (ha : align = 1 ∨ align = 2 ∨ align = 4)
    (ts : List TaggedBlock) (hwf : ∀ t ∈ ts, t.WF v) (hk : ∀ t ∈ ts, KeyAgrees v t)
    (he : even = true → ∀ t ∈ ts, t.data.length % 2 = 0)
    {d : B} {p : Nat} {rest : B} (hat : At d p (taggedBlocksT v align ts ++ rest)) (stop : Nat)
    (h1 : p + (taggedBlocksT v align ts).length ≤ stop) (h2 : stop < p + (taggedBlocksT v align ts).length + 4)
    (fuel : Nat) (hf : ts.length < fuel) :
    walkBlocksLoop sect v align even stop fuel d p =
      .ok (regionsOf (seqSpans "tagged-block" (TaggedBlock.encT v align) p ts), stop) := by
  unfold taggedBlocksT at hat h1 h2
  induction ts generalizing p fuel with
  | nil =>
    cases fuel with
    | zero => omega
    | succ fuel =>
      simp only [listT, List.length_nil, Nat.add_zero] at h1 h2
      have c1 : ¬ p + 12 ≤ stop := by omega
      have c2 : ¬ p + 4 ≤ stop := by omega
      simp only [walkBlocksLoop, if_neg c1, if_neg c2, seqSpans, regionsOf, List.map_nil]
  | cons t ts ih =>
    cases fuel with
    | zero => omega
    | succ fuel =>
      simp only [listT, List.append_assoc, List.length_append] at hat h1 h2
      have hge := t.length_ge v align
      obtain ⟨e1, hat'⟩ := walkBlock_full (sect := sect) ha (hwf t (by simp)) (hk t (by simp))
        (fun h => he h t (by simp)) hat
      have e2 := ih (fun x hx => hwf x (by simp [hx])) (fun x hx => hk x (by simp [hx]))
        (fun h x hx => he h x (by simp [hx])) hat' (by omega) (by omega) fuel (by simpa using hf)
      have c1 : p + 12 ≤ stop := by omega
      have c2 : p + (t.encT v align).length ≤ stop := by omega
      simp only [walkBlocksLoop, if_pos c1, e1, if_pos c2, e2, seqSpans, regionsOf_cons]

end PsdVerif.Walker
