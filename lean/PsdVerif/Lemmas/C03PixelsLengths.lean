/-
C03 (pixel clauses) — `_update_channel_length` pointwise; the length prefixes of the sections.
-/
import PsdVerif.Lemmas.C03PixelsTrace3

namespace PsdVerif.C03Pixels
open PsdVerif PsdVerif.Codec PsdVerif.Psd

/-- channel by channel: the channel info declares 2 (compression code) + the size of the stored data -/
def ChannelsMatch : List ChannelInfo → List ChannelData → Prop
  | [], [] => True
  | ci :: cis, c :: cs => ci.length = 2 + c.data.length ∧ ChannelsMatch cis cs
  | _, _ => False

/-- record by record -/
def LengthsMatch : List LayerRecord → List (List ChannelData) → Prop
  | [], [] => True
  | r :: rs, cs :: css => ChannelsMatch r.channelInfo cs ∧ LengthsMatch rs css
  | _, _ => False

theorem ChannelsMatch.index {cis : List ChannelInfo} {cs : List ChannelData} (h : ChannelsMatch cis cs) :
    cis.length = cs.length ∧
      ∀ (j : Nat) (ci : ChannelInfo) (c : ChannelData), cis[j]? = some ci → cs[j]? = some c →
        ci.length = 2 + c.data.length := by
  induction cis generalizing cs with
  | nil =>
    cases cs with
    | nil => exact ⟨rfl, by intro j ci c h1; simp at h1⟩
    | cons c cs => simp [ChannelsMatch] at h
  | cons ci cis ih =>
    cases cs with
    | nil => simp [ChannelsMatch] at h
    | cons c cs =>
      simp only [ChannelsMatch] at h
      obtain ⟨i1, i2⟩ := ih h.2
      refine ⟨by simp [i1], ?_⟩
      intro j ci' c' h1 h2
      cases j with
      | zero =>
        simp only [List.getElem?_cons_zero, Option.some.injEq] at h1 h2
        subst h1; subst h2; exact h.1
      | succ j =>
        simp only [List.getElem?_cons_succ] at h1 h2
        exact i2 j ci' c' h1 h2

theorem LengthsMatch.index {rs : List LayerRecord} {css : List (List ChannelData)} (h : LengthsMatch rs css) :
    rs.length = css.length ∧
      ∀ (i : Nat) (r : LayerRecord) (cs : List ChannelData), rs[i]? = some r → css[i]? = some cs →
        r.channelInfo.length = cs.length ∧
        ∀ (j : Nat) (ci : ChannelInfo) (c : ChannelData), r.channelInfo[j]? = some ci → cs[j]? = some c →
          ci.length = 2 + c.data.length := by
  induction rs generalizing css with
  | nil =>
    cases css with
    | nil => exact ⟨rfl, by intro i r cs h1; simp at h1⟩
    | cons c css => simp [LengthsMatch] at h
  | cons r rs ih =>
    cases css with
    | nil => simp [LengthsMatch] at h
    | cons cs css =>
      simp only [LengthsMatch] at h
      obtain ⟨i1, i2⟩ := ih h.2
      refine ⟨by simp [i1], ?_⟩
      intro i r' cs' h1 h2
      cases i with
      | zero =>
        simp only [List.getElem?_cons_zero, Option.some.injEq] at h1 h2
        subst h1; subst h2; exact h.1.index
      | succ i =>
        simp only [List.getElem?_cons_succ] at h1 h2
        exact i2 i r' cs' h1 h2

theorem refreshCI_matches (cis : List ChannelInfo) (cs : List ChannelData) (h : cis.length = cs.length) :
    ChannelsMatch (refreshCI cis cs) cs := by
  induction cis generalizing cs with
  | nil =>
    cases cs with
    | nil => trivial
    | cons c cs => simp at h
  | cons ci cis ih =>
    cases cs with
    | nil => simp at h
    | cons c cs =>
      simp only [refreshCI, ChannelsMatch, true_and]
      exact ih cs (by simpa using h)

theorem refreshRecords_match (rs : List LayerRecord) (css : List (List ChannelData)) (hs : shapesAgree rs css) :
    LengthsMatch (refreshRecords rs css) css := by
  induction rs generalizing css with
  | nil =>
    cases css with
    | nil => trivial
    | cons c css => simp [shapesAgree] at hs
  | cons r rs ih =>
    cases css with
    | nil => simp [shapesAgree] at hs
    | cons cs css =>
      simp only [shapesAgree] at hs
      simp only [refreshRecords, LengthsMatch]
      exact ⟨refreshCI_matches _ _ hs.1, ih css hs.2⟩

/-- the refresh touches nothing but the lengths -/
theorem refreshCI_ids (cis : List ChannelInfo) (cs : List ChannelData) :
    (refreshCI cis cs).map ChannelInfo.id = cis.map ChannelInfo.id := by
  induction cis generalizing cs with
  | nil => cases cs <;> rfl
  | cons ci cis ih =>
    cases cs with
    | nil => rfl
    | cons c cs => simp [refreshCI, ih]

/-- a well-formed layer info that declares layers, after `write()`: the records and the channel lists -/
theorem refresh_of_wf {v pad : Nat} {li : LayerInfo} (hwf : li.WF v pad) (h0 : li.layerCount ≠ 0) :
    ∃ rs css, li.records = some rs ∧ li.channels = some css ∧ shapesAgree rs css ∧
      li.refresh = ⟨li.layerCount, some (refreshRecords rs css), some css⟩ := by
  unfold LayerInfo.WF at hwf
  simp only [h0, if_false] at hwf
  obtain ⟨n, rs, css⟩ := li
  cases rs with
  | none => simp at hwf
  | some rs =>
    cases css with
    | none => simp at hwf
    | some css =>
      simp only at hwf h0
      obtain ⟨hcount, hshape, _⟩ := hwf
      refine ⟨rs, css, rfl, rfl, hshape, ?_⟩
      cases rs with
      | nil => simp at hcount; exact absurd hcount h0
      | cons r rs =>
        cases css with
        | nil => simp [shapesAgree] at hshape
        | cons c css => simp [LayerInfo.refresh, h0]

end PsdVerif.C03Pixels
