/-
C02 on the payload layer — descriptors: whatever the descriptor reader returns is writable and in the domain of C01's
round trip. (Before repo commit bb0349d a key cut short by the end of the stream was the exception: `Model/DescriptorKeys`.)
-/
import PsdVerif.Lemmas.Descriptor4
import PsdVerif.Lemmas.PayloadResave
import PsdVerif.Model.DescriptorKeys
import PsdVerif.Model.DescriptorTables

namespace PsdVerif.Descriptor
open PsdVerif PsdVerif.Codec

/-! ### a predicate on everything a reader can return -/

/-- every value the reader returns satisfies `P` -/
def Ret {α : Type} (P : α → Prop) (r : R α) : Prop := ∀ (d : B) (p : Nat) (a : α) (p' : Nat), r d p = .ok (a, p') → P a

theorem Ret.bind {α β : Type} {P : α → Prop} {Q : β → Prop} {r : R α} {f : α → R β} (hr : Ret P r)
    (hf : ∀ a, P a → Ret Q (f a)) : Ret Q (r >>- f) := by
  intro d p b p' h
  unfold rbind at h
  split at h
  · cases h
  · rename_i a p1 ha
    exact hf a (hr d p a p1 ha) d p1 b p' h

theorem Ret.pure {α : Type} {P : α → Prop} {a : α} (h : P a) : Ret P (rpure a) := by
  intro d p b p' hb
  simp only [rpure, Except.ok.injEq, Prod.mk.injEq] at hb
  exact hb.1 ▸ h

theorem Ret.fail {α : Type} {P : α → Prop} (e : Err) : Ret P (rfail e : R α) := by
  intro d p b p' hb
  simp only [rfail] at hb
  cases hb

theorem Ret.mono {α : Type} {P Q : α → Prop} {r : R α} (h : Ret P r) (hpq : ∀ a, P a → Q a) : Ret Q r :=
  fun d p a p' ha => hpq a (h d p a p' ha)

theorem Ret.true {α : Type} (r : R α) : Ret (fun _ => True) r := fun _ _ _ _ _ => trivial

/-! ### primitives -/

theorem ret_readU (w : Nat) : Ret (fun n => n < 256 ^ w) (readU w) := fun _ _ _ _ h => (readU_ok h).1
theorem ret_readN (n : Nat) : Ret (fun b => b.length = n) (readN n) := fun _ _ _ _ h => (readN_ok h).1
theorem ret_readI32 : Ret FitsI32 readI32 := fun _ _ _ _ h => (readI32_ok h).1
theorem ret_readLenBlock : Ret (fun b => b.length < 256 ^ 4) (readLenBlock 0 4 1) := fun _ _ _ _ h => readLenBlock_ok h

theorem ret_readI64 : Ret FitsI64 readI64 :=
  (ret_readU 8).bind fun n hn => Ret.pure (by
    simp only [FitsI64, natToI64]
    have : (256 : Nat) ^ 8 = 18446744073709551616 := by decide
    split <;> omega)

theorem ret_readStr : Ret (fun s => StrFits s ∧ StrWF s) readStr := by
  intro d p s p' h
  obtain ⟨h1, h2, h3⟩ := Payload3.readUStr_ok (pad := 1) (show Payload.readUStr 1 d p = .ok (s, p') from h)
  exact ⟨⟨h1, h3⟩, h2⟩

theorem Globals.readU32_lt {d : B} {p n p1 : Nat} (h : Globals.readU32 d p = .ok (n, p1)) : n < 4294967296 := by
  unfold Globals.readU32 at h
  split at h
  · rename_i a b c e _ _
    split at h
    · simp only [Except.ok.injEq, Prod.mk.injEq] at h
      have := a.toNat_lt; have := b.toNat_lt; have := c.toNat_lt; have := e.toNat_lt
      omega
    · cases h
  · cases h

/-- a key as the reader returns it (since repo commit bb0349d a key cut short by the end of the stream is an `IOError`): the
writer accepts it, it satisfies the key law of C20 / C01 (all terms being 4 bytes long), it has the bytes its length field
announced -/
theorem ret_readKey (tb : Tables) (ht : TermsFour tb) :
    Ret (fun k => KeyFits tb k ∧ KeyWF tb k ∧ KeyFull k) (readKeyR tb) := by
  intro d p k p' h
  unfold readKeyR Globals.readKey at h
  split at h
  · cases h
  · rename_i len q hlen
    have hl := Globals.readU32_lt hlen
    simp only at h
    generalize (d.drop q).take (if len = 0 then 4 else len) = kb at h
    by_cases hs : kb.length ≠ (if len = 0 then 4 else len)
    · rw [if_pos hs] at h; cases h
    · rw [if_neg hs] at h
      have hkb : kb.length = (if len = 0 then 4 else len) := by simpa using hs
      by_cases hc : len = 0 ∧ ¬ tb.terms kb = true
      · rw [if_pos hc] at h
        cases h
        have h4 : kb.length = 4 := by rw [hkb, if_pos hc.1]
        refine ⟨?_, ?_, ?_⟩
        · simp only [KeyFits, keyLen, Bool.or_true, if_true]; omega
        · exact ⟨fun _ => ⟨h4, by simpa using hc.2⟩, fun ht4 => ht _ ht4, fun hi => Bool.noConfusion hi⟩
        · simp only [KeyFull, if_true]; exact h4
      · rw [if_neg hc] at h
        cases h
        have hne : kb.length ≠ 0 := by
          rw [hkb]; split <;> omega
        refine ⟨?_, ?_, ?_⟩
        · simp only [KeyFits, keyLen]
          split
          · omega
          · rw [hkb]; split <;> omega
        · exact ⟨fun hi => Bool.noConfusion hi, fun ht4 => ht _ ht4, fun _ _ => hne⟩
        · simp only [KeyFull, Bool.false_eq_true, if_false]; exact hne

theorem ret_unitOf (tb : Tables) (b : B) (hb : b.length = 4) : Ret (UnitWF tb) (unitOf tb b) := by
  intro d p u p' h
  unfold unitOf at h
  split at h
  · rename_i hu
    cases h
    exact ⟨hb, by simpa using hu⟩
  · rename_i hu
    split at h
    · rename_i he
      cases h
      exact ⟨hb, by simp only [Bool.false_eq_true, if_false]; exact ⟨he, by simpa using hu⟩⟩
    · simp only [rfail] at h; cases h

theorem ret_readCount {α : Type} {P : α → Prop} {item : R α} (h : Ret P item) (n : Nat) :
    Ret (fun xs => xs.length = n ∧ ∀ x ∈ xs, P x) (readCount item n) := by
  intro d p xs p' hx
  obtain ⟨h1, h2⟩ := readCount_ok hx
  refine ⟨h1, fun x hxm => ?_⟩
  obtain ⟨q, q', hq⟩ := h2 x hxm
  exact h d q x q' hq

theorem ret_readF64s (n : Nat) : Ret (fun vs => vs.length = n ∧ ∀ b ∈ vs, b < 18446744073709551616) (readF64s n) := by
  intro d p vs p' h
  unfold readF64s at h
  split at h
  · have := ret_readCount (ret_readU 8) n d p vs p' h
    exact ⟨this.1, fun b hb => by have := this.2 b hb; simpa using this⟩
  · cases h

theorem Tag.ofBytes_sound {b : B} {t : Tag} (h : Tag.ofBytes b = some t) : t.bytes = b := by
  unfold Tag.ofBytes at h
  have := List.find?_some h
  simpa using this

theorem ret_tagged {P : DVal → Prop} {rec : Tag → R DVal} (h : ∀ t, Ret P (rec t)) : Ret P (tagged rec) := by
  unfold tagged
  exact (Ret.true readTag).bind fun t _ => h t

/-! ### `OrderedDict(items)` -/

/-- every key satisfies `P`, every value `Q` -/
def AllKV (P : Key → Prop) (Q : DVal → Prop) (items : Items) : Prop := ∀ kv ∈ items, P kv.1 ∧ Q kv.2

theorem allKV_dictInsert {P : Key → Prop} {Q : DVal → Prop} {acc : Items} {x : Key × DVal} (ha : AllKV P Q acc)
    (hx : P x.1 ∧ Q x.2) : AllKV P Q (dictInsert acc x) := by
  unfold dictInsert
  split
  · intro kv hkv
    obtain ⟨y, hy, rfl⟩ := List.mem_map.1 hkv
    split
    · exact ⟨(ha y hy).1, hx.2⟩
    · exact ha y hy
  · intro kv hkv
    rcases List.mem_append.1 hkv with h | h
    · exact ha kv h
    · simp only [List.mem_singleton] at h; subst h; exact hx

theorem keys_dictInsert (acc : Items) (x : Key × DVal) :
    (dictInsert acc x).map (fun kv => kv.1.bytes) =
      if acc.any (fun y => y.1.bytes == x.1.bytes) then acc.map (fun kv => kv.1.bytes)
      else acc.map (fun kv => kv.1.bytes) ++ [x.1.bytes] := by
  unfold dictInsert
  split
  · simp only [List.map_map]
    apply List.map_congr_left
    intro y _
    simp only [Function.comp]
    split <;> rfl
  · simp only [List.map_append, List.map_cons, List.map_nil]

theorem nodup_dictInsert {acc : Items} (x : Key × DVal) (h : KeysNodup acc) : KeysNodup (dictInsert acc x) := by
  unfold KeysNodup at h ⊢
  rw [keys_dictInsert]
  split
  · exact h
  · rename_i hany
    rw [List.nodup_append]
    refine ⟨h, by simp, ?_⟩
    intro a ha b hb
    simp only [List.mem_singleton] at hb
    subst hb
    intro e
    apply hany
    obtain ⟨y, hy, rfl⟩ := List.mem_map.1 ha
    exact List.any_eq_true.2 ⟨y, hy, by simp only [e, beq_self_eq_true]⟩

theorem length_dictInsert_le (acc : Items) (x : Key × DVal) : (dictInsert acc x).length ≤ acc.length + 1 := by
  unfold dictInsert
  split
  · simp only [List.length_map]; omega
  · simp only [List.length_append, List.length_cons, List.length_nil]; omega

theorem dict_fold {P : Key → Prop} {Q : DVal → Prop} (items acc : Items) (ha : AllKV P Q acc) (hn : KeysNodup acc)
    (hi : AllKV P Q items) :
    AllKV P Q (items.foldl dictInsert acc) ∧ KeysNodup (items.foldl dictInsert acc) ∧
      (items.foldl dictInsert acc).length ≤ acc.length + items.length := by
  induction items generalizing acc with
  | nil => exact ⟨ha, hn, by simp⟩
  | cons x items ih =>
    simp only [List.foldl_cons]
    obtain ⟨a, b, c⟩ := ih (dictInsert acc x) (allKV_dictInsert ha (hi x (List.mem_cons_self)))
      (nodup_dictInsert x hn) (fun kv hkv => hi kv (List.mem_cons_of_mem _ hkv))
    refine ⟨a, b, ?_⟩
    have := length_dictInsert_le acc x
    simp only [List.length_cons]
    omega

/-- the dictionary built from the items read: keys and values are keys and values that were read, no key twice, not longer
than the list -/
theorem dictOf_ok {P : Key → Prop} {Q : DVal → Prop} {items : Items} (hi : AllKV P Q items) :
    AllKV P Q (dictOf items) ∧ KeysNodup (dictOf items) ∧ (dictOf items).length ≤ items.length := by
  have := dict_fold items [] (fun _ h => by cases h) (by simp [KeysNodup]) hi
  simpa [dictOf] using this

/-! ### the predicates of the model in membership form -/

theorem fitsItems_of_all (tb : Tables) : ∀ (r : Items), AllKV (KeyFits tb) (Fits tb) r → FitsItems tb r
  | [], _ => by simp only [FitsItems]
  | (k, v) :: r, h => by
    simp only [FitsItems]
    exact ⟨(h (k, v) (List.mem_cons_self)).1, (h (k, v) (List.mem_cons_self)).2,
      fitsItems_of_all tb r (fun kv hkv => h kv (List.mem_cons_of_mem _ hkv))⟩

theorem fitsList_of_all (tb : Tables) : ∀ (vs : List DVal), (∀ v ∈ vs, Fits tb v) → FitsList tb vs
  | [], _ => by simp only [FitsList]
  | v :: vs, h => by
    simp only [FitsList]
    exact ⟨h v (List.mem_cons_self), fitsList_of_all tb vs (fun w hw => h w (List.mem_cons_of_mem _ hw))⟩

/-- a value as the reader returns it: writable, and in the domain of C01's round trip -/
def Good (tb : Tables) (v : DVal) : Prop := Fits tb v ∧ WF tb v

def GoodKey (tb : Tables) (k : Key) : Prop := KeyFits tb k ∧ KeyWF tb k

theorem wfList_of_good (tb : Tables) : ∀ (vs : List DVal), (∀ v ∈ vs, Good tb v) → WFList tb vs
  | [], _ => by simp only [WFList]
  | v :: vs, h => by
    simp only [WFList]
    exact ⟨(h v (List.mem_cons_self)).2, wfList_of_good tb vs (fun w hw => h w (List.mem_cons_of_mem _ hw))⟩

theorem wfItems_of_good (tb : Tables) : ∀ (r : Items), AllKV (GoodKey tb) (Good tb) r → WFItems tb r
  | [], _ => by simp only [WFItems]
  | (k, v) :: r, h => by
    obtain ⟨⟨_, k1⟩, ⟨_, c⟩⟩ := h (k, v) (List.mem_cons_self)
    simp only [WFItems]
    exact ⟨k1, c, wfItems_of_good tb r (fun kv hkv => h kv (List.mem_cons_of_mem _ hkv))⟩

/-! ### the readers -/

/-- what `_read_body` + the `OrderedDict` converter return -/
def GoodBody (tb : Tables) (x : Str × Key × Items) : Prop :=
  (StrFits x.1 ∧ StrWF x.1) ∧ GoodKey tb x.2.1 ∧ x.2.2.length < 4294967296 ∧ AllKV (GoodKey tb) (Good tb) x.2.2 ∧
    KeysNodup x.2.2

theorem ret_keyed {tb : Tables} (ht : TermsFour tb) {rec : Tag → R DVal} (h : ∀ t, Ret (Good tb) (rec t)) :
    Ret (fun kv => GoodKey tb kv.1 ∧ Good tb kv.2) (keyed tb rec) :=
  (ret_readKey tb ht).bind fun _ hk => (ret_tagged h).bind fun _ hv => Ret.pure ⟨⟨hk.1, hk.2.1⟩, hv⟩

theorem ret_readBody {tb : Tables} (ht : TermsFour tb) {rec : Tag → R DVal} (h : ∀ t, Ret (Good tb) (rec t)) :
    Ret (GoodBody tb) (readBody tb rec) :=
  ret_readStr.bind fun _ hs => (ret_readKey tb ht).bind fun _ hk => (ret_readU 4).bind fun n hn =>
    (ret_readCount (ret_keyed ht h) n).bind fun items hi => Ret.pure (by
      obtain ⟨a, b, c⟩ := dictOf_ok (P := GoodKey tb) (Q := Good tb) (items := items) hi.2
      refine ⟨hs, ⟨hk.1, hk.2.1⟩, ?_, a, b⟩
      have : (256 : Nat) ^ 4 = 4294967296 := by decide
      have := hi.1
      show (dictOf items).length < 4294967296
      omega)

theorem good_of_body {tb : Tables} {x : Str × Key × Items} (h : GoodBody tb x) :
    (StrFits x.1 ∧ KeyFits tb x.2.1 ∧ x.2.2.length < 4294967296 ∧ FitsItems tb x.2.2) ∧
    (StrWF x.1 ∧ KeyWF tb x.2.1 ∧ KeysNodup x.2.2 ∧ WFItems tb x.2.2) := by
  obtain ⟨⟨s1, s2⟩, ⟨k1, k2⟩, hl, hall, hnd⟩ := h
  exact ⟨⟨s1, k1, hl, fitsItems_of_all tb _ (fun kv hkv => ⟨(hall kv hkv).1.1, (hall kv hkv).2.1⟩)⟩,
    s2, k2, hnd, wfItems_of_good tb x.2.2 hall⟩

/-- `TYPES[ostype].read(fp)`: every class of the family -/
theorem ret_decWith {tb : Tables} (ht : TermsFour tb) {rec : Tag → R DVal} (h : ∀ t, Ret (Good tb) (rec t)) (t : Tag) :
    Ret (Good tb) (decWith tb rec t) := by
  have hint : ∀ it, Ret (Good tb) (decInt it) := fun it =>
    ret_readI32.bind fun z hz => Ret.pure ⟨by simp only [Fits]; exact hz, by simp only [WF]⟩
  have hcls : ∀ ct, Ret (Good tb) (decClass tb ct) := fun ct =>
    ret_readStr.bind fun _ hs => (ret_readKey tb ht).bind fun _ hk => Ret.pure
      ⟨by simp only [Fits]; exact ⟨hs.1, hk.1⟩, by simp only [WF]; exact ⟨hs.2, hk.2.1⟩⟩
  have hraw : ∀ rt, Ret (Good tb) (decRaw rt) := fun rt =>
    ret_readLenBlock.bind fun b hb => Ret.pure
      ⟨by simp only [Fits]; have : (256 : Nat) ^ 4 = 4294967296 := by decide
          omega, by simp only [WF]⟩
  have hlist : ∀ lt, Ret (Good tb) (decList rec lt) := fun lt =>
    (ret_readU 4).bind fun n hn => (ret_readCount (ret_tagged h) n).bind fun items hi => Ret.pure (by
      refine ⟨?_, by simp only [WF]; exact wfList_of_good tb items hi.2⟩
      simp only [Fits]
      have : (256 : Nat) ^ 4 = 4294967296 := by decide
      exact ⟨by have := hi.1; omega, fitsList_of_all tb items (fun v hv => (hi.2 v hv).1)⟩)
  have hdesc : ∀ dt, Ret (Good tb) (decDesc tb rec dt) := fun dt =>
    (ret_readBody ht h).bind fun x hx => Ret.pure (by
      obtain ⟨a, b⟩ := good_of_body hx
      exact ⟨by simp only [Fits]; exact a, by simp only [WF]; exact b⟩)
  cases t <;> simp only [decWith]
  case integer => exact hint _
  case identifier => exact hint _
  case index => exact hint _
  case largeInteger =>
    exact ret_readI64.bind fun z hz => Ret.pure ⟨by simp only [Fits]; exact hz, by simp only [WF]⟩
  case boolean =>
    exact (Ret.true readBool).bind fun _ _ => Ret.pure ⟨by simp only [Fits], by simp only [WF]⟩
  case double =>
    exact (ret_readU 8).bind fun _ hb => Ret.pure ⟨by simp only [Fits]; simpa using hb, by simp only [WF]⟩
  case unitFloat =>
    exact (ret_readN 4).bind fun u4 h4 => (ret_readU 8).bind fun _ hb => (ret_unitOf tb u4 h4).bind fun _ hu => Ret.pure
      ⟨by simp only [Fits]; simpa using hb, by simp only [WF]; exact hu⟩
  case unitFloats =>
    exact (ret_readN 4).bind fun u4 h4 => (ret_readU 4).bind fun n hn => (ret_unitOf tb u4 h4).bind fun _ hu =>
      (ret_readF64s n).bind fun vs hvs => Ret.pure
        ⟨by simp only [Fits]
            have : (256 : Nat) ^ 4 = 4294967296 := by decide
            exact ⟨by have := hvs.1; omega, hvs.2⟩,
         by simp only [WF]; exact hu⟩
  case string =>
    exact ret_readStr.bind fun _ hs => Ret.pure ⟨by simp only [Fits]; exact hs.1, by simp only [WF]; exact hs.2⟩
  case enumerated =>
    exact (ret_readKey tb ht).bind fun _ h1 => (ret_readKey tb ht).bind fun _ h2 => Ret.pure
      ⟨by simp only [Fits]; exact ⟨h1.1, h2.1⟩, by simp only [WF]; exact ⟨h1.2.1, h2.2.1⟩⟩
  case enumeratedReference =>
    exact ret_readStr.bind fun _ hs => (ret_readKey tb ht).bind fun _ h1 => (ret_readKey tb ht).bind fun _ h2 =>
      (ret_readKey tb ht).bind fun _ h3 => Ret.pure
        ⟨by simp only [Fits]; exact ⟨hs.1, h1.1, h2.1, h3.1⟩, by simp only [WF]; exact ⟨hs.2, h1.2.1, h2.2.1, h3.2.1⟩⟩
  case class1 => exact hcls _
  case class2 => exact hcls _
  case class3 => exact hcls _
  case property =>
    exact ret_readStr.bind fun _ hs => (ret_readKey tb ht).bind fun _ h1 => (ret_readKey tb ht).bind fun _ h2 => Ret.pure
      ⟨by simp only [Fits]; exact ⟨hs.1, h1.1, h2.1⟩, by simp only [WF]; exact ⟨hs.2, h1.2.1, h2.2.1⟩⟩
  case name =>
    exact ret_readStr.bind fun _ hs => (ret_readKey tb ht).bind fun _ h1 => ret_readStr.bind fun _ hv => Ret.pure
      ⟨by simp only [Fits]; exact ⟨hs.1, h1.1, hv.1⟩, by simp only [WF]; exact ⟨hs.2, h1.2.1, hv.2⟩⟩
  case offset =>
    exact ret_readStr.bind fun _ hs => (ret_readKey tb ht).bind fun _ h1 => (ret_readU 4).bind fun n hn => Ret.pure
      ⟨by simp only [Fits, FitsU32]
          have : (256 : Nat) ^ 4 = 4294967296 := by decide
          exact ⟨hs.1, h1.1, by omega, by omega⟩,
       by simp only [WF]; exact ⟨hs.2, h1.2.1⟩⟩
  case rawData => exact hraw _
  case alias => exact hraw _
  case path => exact hraw _
  case list => exact hlist _
  case reference => exact hlist _
  case descriptor => exact hdesc _
  case globalObject => exact hdesc _
  case objectArray =>
    exact (ret_readU 4).bind fun c hc => (ret_readBody ht h).bind fun x hx => Ret.pure (by
      obtain ⟨a, b⟩ := good_of_body hx
      have : (256 : Nat) ^ 4 = 4294967296 := by decide
      exact ⟨by simp only [Fits, FitsU32]; exact ⟨⟨by omega, by omega⟩, a⟩, by simp only [WF]; exact b⟩)

theorem ret_decBody {tb : Tables} (ht : TermsFour tb) : ∀ (fuel : Nat) (t : Tag), Ret (Good tb) (decBody tb fuel t)
  | 0, _ => by unfold decBody; exact Ret.fail _
  | fuel + 1, t => by
    unfold decBody
    exact ret_decWith ht (ret_decBody ht fuel) t

/-- a value of any of the 25 classes, read on its own stream or at a cursor -/
theorem dec_good {tb : Tables} (ht : TermsFour tb) (t : Tag) : Ret (Good tb) (dec tb t) :=
  fun d p v p' h => ret_decBody ht (d.length + 1) t d p v p' h

def Block.Good (tb : Tables) (b : Block) : Prop := b.Fits tb ∧ b.WF tb
def Block2.Good (tb : Tables) (b : Block2) : Prop := b.Fits tb ∧ b.WF tb

theorem Block.dec_good {tb : Tables} (ht : TermsFour tb) : Ret (Block.Good tb) (Block.dec tb) := by
  intro d p b p' h
  have hr : Ret (Block.Good tb) ((readU 4) >>- fun ver => (readBody tb (decBody tb (d.length + 1))) >>- fun x =>
      if ver = 16 then rpure (⟨(ver : Int), x.1, x.2.1, x.2.2⟩ : Block) else rfail .valueError) :=
    (ret_readU 4).bind fun ver hv => (ret_readBody ht (ret_decBody ht (d.length + 1))).bind fun x hx => by
      split
      · rename_i h16
        obtain ⟨a, b'⟩ := good_of_body hx
        have : (256 : Nat) ^ 4 = 4294967296 := by decide
        refine Ret.pure ?_
        simp only [Block.Good, Block.Fits, Block.WF, FitsU32]
        exact ⟨⟨⟨by omega, by omega⟩, a⟩, by omega, b'⟩
      · exact Ret.fail _
  exact hr d p b p' h

theorem Block2.dec_good {tb : Tables} (ht : TermsFour tb) : Ret (Block2.Good tb) (Block2.dec tb) := by
  intro d p b p' h
  have hr : Ret (Block2.Good tb) ((readU 4) >>- fun ver => (readU 4) >>- fun dv =>
      (readBody tb (decBody tb (d.length + 1))) >>- fun x =>
      if dv = 16 then rpure (⟨(ver : Int), (dv : Int), x.1, x.2.1, x.2.2⟩ : Block2) else rfail .valueError) :=
    (ret_readU 4).bind fun ver hv => (ret_readU 4).bind fun dv hdv =>
      (ret_readBody ht (ret_decBody ht (d.length + 1))).bind fun x hx => by
      split
      · rename_i h16
        obtain ⟨a, b'⟩ := good_of_body hx
        have : (256 : Nat) ^ 4 = 4294967296 := by decide
        refine Ret.pure ?_
        simp only [Block2.Good, Block2.Fits, Block2.WF, FitsU32]
        exact ⟨⟨⟨by omega, by omega⟩, ⟨by omega, by omega⟩, a⟩, by omega, b'⟩
      · exact Ret.fail _
  exact hr d p b p' h

/-- the tables of the working tree: `_TERMS` holds 4-byte terms only -/
theorem realTables_termsFour : TermsFour realTables := by
  intro b hb
  simp only [realTables, Bool.and_eq_true, beq_iff_eq] at hb
  exact hb.1

end PsdVerif.Descriptor
