/-
C03 (payload interiors) — the calculus of the payload walkers: `Walks w bs S` says that the walker `w`, put on the
bytes `bs` wherever they lie in a stream, consumes exactly them, reports exactly the regions of `S p` and every one of
those regions delimits the bytes listed beside it. One law per combinator of Model/WalkerPayload.lean; strings and keys.
-/
import PsdVerif.Lemmas.C03PixelsTrace1
import PsdVerif.Lemmas.Descriptor1
import PsdVerif.Lemmas.CodecLaws
import PsdVerif.Model.WalkerPayload

namespace PsdVerif.WalkerPayload
open PsdVerif PsdVerif.Codec PsdVerif.Walker

/-- `w` walks the bytes `bs`, wherever they are: it ends right after them, reports the regions of `S p` (`p`: where
`bs` starts) and each of them delimits the bytes it stands for -/
def Walks (w : PW) (bs : B) (S : Nat → List Span) : Prop :=
  ∀ (d : B) (p : Nat) (rest : B), At d p (bs ++ rest) →
    w d p = .ok (regionsOf (S p), p + bs.length) ∧ ∀ s ∈ S p, s.Holds d

def noSpans : Nat → List Span := fun _ => []

theorem Walks.congr {w : PW} {bs bs' : B} {S S' : Nat → List Span} (h : Walks w bs S) (e1 : bs = bs') (e2 : S = S') :
    Walks w bs' S' := e1 ▸ e2 ▸ h

theorem walks_ok : Walks pOk [] noSpans := by
  intro d p rest _
  exact ⟨rfl, fun s hs => by simp [noSpans] at hs⟩

theorem walks_skip (sect : String) {n : Nat} {bs : B} (hl : bs.length = n) : Walks (pSkip sect n) bs noSpans := by
  intro d p rest hat
  obtain ⟨e, _⟩ := skip_step (sect := sect) hat hl
  refine ⟨?_, fun s hs => by simp [noSpans] at hs⟩
  simp only [pSkip, e, hl, noSpans, regionsOf, List.map_nil]

theorem walks_check (sect reason : String) {c : Bool} (hc : c = true) : Walks (pCheck sect reason c) [] noSpans := by
  intro d p rest _
  subst hc
  exact ⟨rfl, fun s hs => by simp [noSpans] at hs⟩

theorem walks_seq {a b : PW} {x y : B} {S T : Nat → List Span} (ha : Walks a x S) (hb : Walks b y T) :
    Walks (a ⨾ b) (x ++ y) (fun p => S p ++ T (p + x.length)) := by
  intro d p rest hat
  rw [List.append_assoc] at hat
  obtain ⟨e1, h1⟩ := ha d p _ hat
  obtain ⟨e2, h2⟩ := hb d (p + x.length) rest hat.right
  refine ⟨?_, ?_⟩
  · simp only [pSeq, e1, e2, regionsOf_append, List.length_append, Nat.add_assoc]
  · intro s hs
    rcases List.mem_append.mp hs with h | h
    · exact h1 s h
    · exact h2 s h

theorem walks_u (sect : String) {w n : Nat} {k : Nat → PW} {bs : B} {S : Nat → List Span} (hn : n < 256 ^ w)
    (hk : Walks (k n) bs S) : Walks (pU sect w k) (beBytes w n ++ bs) (fun p => S (p + w)) := by
  intro d p rest hat
  rw [List.append_assoc] at hat
  obtain ⟨e1, hat'⟩ := wU_step (sect := sect) hat hn
  obtain ⟨e2, h2⟩ := hk d (p + w) rest hat'
  exact ⟨by simp only [pU, e1, e2, List.length_append, length_beBytes, Nat.add_assoc], h2⟩

theorem walks_b (sect : String) {n : Nat} {k : B → PW} {b bs : B} {S : Nat → List Span} (hl : b.length = n)
    (hk : Walks (k b) bs S) : Walks (pB sect n k) (b ++ bs) (fun p => S (p + n)) := by
  intro d p rest hat
  rw [List.append_assoc] at hat
  obtain ⟨e1, hat'⟩ := wBytes_step (sect := sect) hat hl
  obtain ⟨e2, h2⟩ := hk d (p + n) rest hat'
  exact ⟨by simp only [pB, e1, e2, List.length_append, hl, Nat.add_assoc], h2⟩

theorem walks_region (kind : String) {w : PW} {bs : B} {S : Nat → List Span} (hw : Walks w bs S) :
    Walks (pRegion kind w) bs (fun p => ⟨⟨p, bs.length, kind⟩, bs⟩ :: S p) := by
  intro d p rest hat
  obtain ⟨e, h⟩ := hw d p rest hat
  refine ⟨?_, ?_⟩
  · simp only [pRegion, e, regionsOf_cons, Nat.add_sub_cancel_left]
  · intro s hs
    rcases List.mem_cons.mp hs with rfl | hs
    · exact ⟨rfl, hat.left⟩
    · exact h s hs

/-- the spans of consecutive items, each with its own inner spans -/
def itemSpans {α : Type} (enc : α → B) (S : α → Nat → List Span) : List α → Nat → List Span
  | [], _ => []
  | x :: xs, p => S x p ++ itemSpans enc S xs (p + (enc x).length)

theorem walks_repeat {α : Type} {w : PW} (enc : α → B) (S : α → Nat → List Span) (xs : List α)
    (h : ∀ x ∈ xs, Walks w (enc x) (S x)) : Walks (pRepeat w xs.length) (listT enc xs) (itemSpans enc S xs) := by
  induction xs with
  | nil =>
    intro d p rest _
    exact ⟨rfl, fun s hs => by simp [itemSpans] at hs⟩
  | cons x xs ih =>
    intro d p rest hat
    simp only [listT, List.append_assoc] at hat
    obtain ⟨e1, h1⟩ := h x (by simp) d p _ hat
    obtain ⟨e2, h2⟩ := ih (fun y hy => h y (by simp [hy])) d (p + (enc x).length) rest hat.right
    refine ⟨?_, ?_⟩
    · simp only [List.length_cons, pRepeat, e1, e2, itemSpans, regionsOf_append, listT, List.length_append, Nat.add_assoc]
    · intro s hs
      simp only [itemSpans] at hs
      rcases List.mem_append.mp hs with hs | hs
      · exact h1 s hs
      · exact h2 s hs

/-- a count field, then the items it announces: the count is the number of items that follow -/
theorem walks_counted {α : Type} (sect : String) {cw : Nat} {item : PW} (enc : α → B) (S : α → Nat → List Span)
    (xs : List α) (hc : xs.length < 256 ^ cw) (h : ∀ x ∈ xs, Walks item (enc x) (S x))
    (h1 : ∀ x ∈ xs, 1 ≤ (enc x).length) :
    Walks (pCounted sect cw item) (beBytes cw xs.length ++ listT enc xs) (fun p => itemSpans enc S xs (p + cw)) := by
  intro d p rest hat
  rw [List.append_assoc] at hat
  obtain ⟨e1, hat'⟩ := wU_step (sect := sect) hat hc
  obtain ⟨e2, h2⟩ := walks_repeat enc S xs h d (p + cw) rest hat'
  have hb := hat'.bound
  have hlen := length_listT_le enc xs 1 h1
  have hle : xs.length ≤ d.length - (p + cw) := by
    simp only [List.length_append] at hb
    omega
  exact ⟨by simp only [pCounted, pU, e1, if_pos hle, e2, List.length_append, length_beBytes, Nat.add_assoc], h2⟩

/-! ### strings -/

theorem be32_eq_beBytes {n : Nat} (h : n < 4294967296) : Unicode.be32 n = beBytes 4 n := by
  rw [beBytes4_eq_u32be]
  simp only [Unicode.be32, Globals.u32be, List.cons.injEq, and_true]
  congr 1
  omega

/-- the span of a unicode string -/
def ustrSpans (bs : B) : Nat → List Span := fun p => [⟨⟨p, bs.length, "unicode-string"⟩, bs⟩]

/-- **unicode string**: the count field is the number of UTF-16 code units that follow (two bytes each) -/
theorem walks_ustr (s : Descriptor.Str) (hf : Descriptor.StrFits s) : Walks pUStr (Descriptor.strT s) (ustrSpans (Descriptor.strT s)) := by
  have hw : Walks (pU "unicode-string" 4 fun n => pSkip "unicode-string" (2 * n))
      (beBytes 4 (Unicode.encUnits s).length ++ Unicode.bytesOfUnits (Unicode.encUnits s)) (fun p => noSpans (p + 4)) :=
    walks_u "unicode-string" (by simpa using hf.2) (walks_skip "unicode-string" (Unicode.bytesOfUnits_length _))
  have e : Descriptor.strT s = beBytes 4 (Unicode.encUnits s).length ++ Unicode.bytesOfUnits (Unicode.encUnits s) := by
    rw [Descriptor.strT, be32_eq_beBytes hf.2]
  rw [e]
  exact walks_region "unicode-string" hw

/-- **pascal string**: the length byte is the number of bytes that follow, then filler to a multiple of `pad` -/
theorem walks_pascal (pad : Nat) (s : B) (hf : s.length < 256) :
    Walks (pPascal pad) (pascalT pad s) (fun p => [⟨⟨p, (pascalT pad s).length, "pascal-string"⟩, pascalT pad s⟩]) := by
  have hw : Walks (pU "pascal-string" 1 fun n => pSkip "pascal-string" (n + padAmount (1 + n) pad))
      (beBytes 1 s.length ++ (s ++ zeros (padAmount (1 + s.length) pad))) (fun p => noSpans (p + 1)) :=
    walks_u "pascal-string" (by simpa using hf) (walks_skip "pascal-string" (by simp [length_zeros]))
  have e : pascalT pad s = beBytes 1 s.length ++ (s ++ zeros (padAmount (1 + s.length) pad)) := by
    simp only [pascalT, List.append_assoc]
  rw [e]
  exact walks_region "pascal-string" hw

/-! ### descriptor keys -/

/-- **key / class id**: the length field is the number of bytes that follow, 0 announcing a 4-byte id -/
theorem walks_key (tb : Descriptor.Tables) (k : Descriptor.Key) (hwf : Descriptor.KeyWF tb k) (hf : Descriptor.KeyFits tb k) :
    Walks pKey (Descriptor.keyT tb k) (fun p => [⟨⟨p, (Descriptor.keyT tb k).length, "descriptor-key"⟩, Descriptor.keyT tb k⟩]) := by
  have hlen : k.bytes.length = if Descriptor.keyLen tb k = 0 then 4 else Descriptor.keyLen tb k := by
    obtain ⟨h1, h2, h3⟩ := hwf
    unfold Descriptor.keyLen
    cases ht : tb.terms k.bytes <;> cases hi : k.implicit <;> simp only [Bool.or_self, Bool.or_true, Bool.true_or,
      Bool.false_eq_true, if_false, if_true]
    · have := h3 hi ht
      simp [this]
    · exact (h1 hi).1
    · exact h2 ht
    · exact h2 ht
  have hw : Walks (pU "descriptor-key" 4 fun n => pSkip "descriptor-key" (if n = 0 then 4 else n))
      (beBytes 4 (Descriptor.keyLen tb k) ++ k.bytes) (fun p => noSpans (p + 4)) :=
    walks_u "descriptor-key" (by unfold Descriptor.KeyFits at hf; simpa using hf) (walks_skip "descriptor-key" hlen)
  have e : Descriptor.keyT tb k = beBytes 4 (Descriptor.keyLen tb k) ++ k.bytes := by
    rw [Descriptor.keyT, beBytes4_eq_u32be]
  rw [e]
  exact walks_region "descriptor-key" hw

/-! ### sub-streams -/

def shiftS (k : Nat) (s : Span) : Span := ⟨shiftR k s.region, s.bytes⟩

theorem regionsOf_map_shiftS (k : Nat) (ss : List Span) : regionsOf (ss.map (shiftS k)) = (regionsOf ss).map (shiftR k) := by
  simp [regionsOf, shiftS, List.map_map, Function.comp_def]

theorem at_inside {d body : B} {q : Nat} (h : At d q body) {o : Nat} {bs : B} (hb : At body o bs) : At d (o + q) bs := by
  obtain ⟨pre, post, rfl, rfl⟩ := h
  obtain ⟨pre', post', rfl, rfl⟩ := hb
  exact ⟨pre ++ pre', post' ++ post, by simp only [List.append_assoc], by simp [List.length_append, Nat.add_comm]⟩

theorem Span.holds_shift {d body : B} {q : Nat} (h : At d q body) {s : Span} (hs : s.Holds body) : (shiftS q s).Holds d :=
  ⟨hs.1, at_inside h hs.2⟩

/-- the walker put on exactly the bytes `body` (a sub-stream): it ends at most `slack` bytes before their end -/
def WalksAll (w : PW) (body : B) (slack : Nat) (S : List Span) : Prop :=
  ∃ q, w body 0 = .ok (regionsOf S, q) ∧ q ≤ body.length ∧ body.length ≤ q + slack ∧ ∀ s ∈ S, s.Holds body

theorem Walks.all {w : PW} {bs : B} {S : Nat → List Span} (h : Walks w bs S) (filler : B) :
    WalksAll w (bs ++ filler) filler.length (S 0) := by
  obtain ⟨e, hh⟩ := h (bs ++ filler) 0 filler (At.self _)
  exact ⟨bs.length, by simpa using e, by simp, by simp, hh⟩

/-- **a declared length opens a sub-stream**: the length field is the size of `body`, the walker inside consumes `body`, its
regions are those of `S` moved to where `body` lies; the filler after it is not counted -/
theorem walks_lenBlock (sect : String) {lw pad slack : Nat} {inner : PW} {body : B} {S : List Span}
    (hf : body.length < 256 ^ lw) (hin : WalksAll inner body slack S) :
    Walks (pLenBlock sect lw pad slack inner) (beBytes lw body.length ++ (body ++ zeros (padAmount body.length pad)))
      (fun p => S.map (shiftS (p + lw))) := by
  intro d p rest hat
  obtain ⟨q, e, hq1, hq2, hh⟩ := hin
  rw [List.append_assoc] at hat
  obtain ⟨e1, hat1⟩ := wU_step (sect := sect) hat hf
  have hbody : At d (p + lw) body := by
    rw [List.append_assoc] at hat1
    exact hat1.left
  have hslice : (d.drop (p + lw)).take body.length = body := hbody.drop_take
  have hbound := hbody.bound
  rw [List.append_assoc] at hat1
  have hat2 := hat1.right
  obtain ⟨e3, _⟩ := skip_step (sect := sect) hat2 (length_zeros _)
  have esub : pSub sect body.length slack inner d (p + lw) =
      .ok ((regionsOf S).map (shiftR (p + lw)), p + lw + body.length) := by
    simp only [pSub, if_pos hbound, hslice, e]
    rw [if_pos ⟨hq1, hq2⟩]
  simp only [Nat.add_assoc] at e3 esub
  refine ⟨?_, ?_⟩
  · simp only [pLenBlock, pU, e1, pSeq, esub, pSkip, e3, regionsOf_map_shiftS, List.append_nil, List.length_append,
      length_beBytes, length_zeros, Nat.add_assoc]
  · intro s hs
    obtain ⟨s0, hs0, rfl⟩ := List.mem_map.mp hs
    exact Span.holds_shift hbody (hh s0 hs0)

end PsdVerif.WalkerPayload
