/-
C02 on the payload layer — `DecOK` / `DecOKIf` for the payload classes of the second batch (Model/PayloadSimple.lean,
PayloadEffects, PayloadPatterns, PayloadLinked, PayloadDescWrap): the element classes of base.py with their fallbacks, colours,
the fixed-layout tagged-block payloads, metadata settings, annotations, the effects layer, patterns, linked layers, the
descriptor wrappers. Side conditions (`…If`): the lengths the writer derives for re-encoded blocks.
-/
import PsdVerif.Lemmas.PayloadResaveDesc
import PsdVerif.Lemmas.PayloadSimple
import PsdVerif.Lemmas.PayloadEffects
import PsdVerif.Lemmas.PayloadPatterns
import PsdVerif.Lemmas.PayloadLinked
import PsdVerif.Lemmas.PayloadDescWrap

namespace PsdVerif.Payload
open PsdVerif PsdVerif.Codec PsdVerif.Payload.PCodec PsdVerif.Payload3

/-- `try: a except IOError: b`: whatever comes back came from one of the two readers -/
theorem orElseIO_inv {α : Type} {a b : R α} {d : B} {p : Nat} {r : α × Nat} (h : orElseIO a b d p = .ok r) :
    a d p = .ok r ∨ b d p = .ok r := by
  unfold orElseIO at h
  split at h
  · exact Or.inr h
  · exact Or.inl h

theorem EmptyElement.decOK : DecOK EmptyElement.codec := fun _ _ _ _ _ => ⟨trivial, trivial⟩
theorem NumericElement.decOK : DecOK NumericElement.codec := fun _ _ _ _ _ => ⟨trivial, trivial⟩
theorem IntegerElement.decOK : DecOK IntegerElement.codec :=
  fun d p v p' h => ⟨trivial, (readU_ok (show readU 4 d p = .ok (v, p') from h)).1⟩

theorem readH2x_ok {d : B} {p : Nat} {v : Nat} {p' : Nat} (h : readH2x d p = .ok (v, p')) : FitsU 2 v := by
  simp only [readH2x, bind, Except.bind] at h
  ebind h; rename_i x hx
  ebind h
  cases h
  exact (readU_ok hx).1

/-- the fallback `H` for a payload without the filler: the value is re-written with the filler (4 bytes) -/
theorem ShortIntegerElement.decOK : DecOK ShortIntegerElement.codec := by
  intro d p v p' h
  rcases orElseIO_inv (show orElseIO readH2x (readU 2) d p = .ok (v, p') from h) with h | h
  · exact ⟨trivial, readH2x_ok h⟩
  · exact ⟨trivial, (readU_ok h).1⟩

theorem readB3x_ok {d : B} {p : Nat} {v : Nat} {p' : Nat} (h : readB3x d p = .ok (v, p')) : FitsU 1 v := by
  simp only [readB3x, bind, Except.bind] at h
  ebind h; rename_i x hx
  ebind h
  cases h
  exact (readU_ok hx).1

theorem ByteElement.decOK : DecOK ByteElement.codec := by
  intro d p v p' h
  rcases orElseIO_inv (show orElseIO readB3x (readU 1) d p = .ok (v, p') from h) with h | h
  · exact ⟨trivial, readB3x_ok h⟩
  · exact ⟨trivial, (readU_ok h).1⟩

theorem BooleanElement.decOK : DecOK BooleanElement.codec := fun _ _ _ _ _ => ⟨trivial, trivial⟩

theorem Color.readValue_ok {lab : Bool} {d : B} {p : Nat} {z : Int} {p' : Nat} (h : Color.readValue lab d p = .ok (z, p')) :
    Color.valueFits lab z := by
  unfold Color.readValue at h
  unfold Color.valueFits
  split at h
  · rename_i hl
    rw [if_pos hl]
    exact (readI16_ok h).1
  · rename_i hl
    rw [if_neg hl]
    ebind h; rename_i n q hn
    cases h
    have := (readU_ok hn).1
    have e : (256 : Nat) ^ 2 = 65536 := by decide
    omega

theorem Color.dec_ok {d : B} {p : Nat} {c : Color} {p' : Nat} (h : Color.dec d p = .ok (c, p')) : c.Fits := by
  simp only [Color.dec, bind, Except.bind] at h
  ebind h; rename_i x hx; obtain ⟨id, q⟩ := x; simp only at h
  ebind h; rename_i y hy; obtain ⟨vs, q1⟩ := y
  cases h
  obtain ⟨hl, hitems⟩ := readCount_ok hy
  refine ⟨(readU_ok hx).1, hl, fun z hz => ?_⟩
  obtain ⟨a, b, hab⟩ := hitems z hz
  exact Color.readValue_ok hab

theorem Color.decOK : DecOK Color.codec := fun _ _ _ _ h => ⟨trivial, Color.dec_ok h⟩

/-- `Bytes`: `fp.read(4)` is lenient -/
theorem BytesElement.decOK : DecOK BytesElement.codec :=
  fun d p v p' h => ⟨(readUpTo_ok (show readUpTo 4 d p = .ok (v, p') from h)).1, trivial⟩

theorem SheetColorSetting.decOK : DecOK SheetColorSetting.codec := by
  intro d p v p' h
  simp only [SheetColorSetting.codec, bind, Except.bind] at h
  ebind h; rename_i x hx; obtain ⟨n, q⟩ := x; simp only at h
  ebind h
  ebind h; rename_i hm
  cases h
  exact ⟨hm, (readU_ok hx).1⟩

theorem ReferencePoint.decOK : DecOK ReferencePoint.codec := by
  intro d p v p' h
  simp only [ReferencePoint.codec, bind, Except.bind] at h
  ebind h
  ebind h
  cases h
  exact ⟨trivial, rfl⟩

theorem SectionDividerSetting.decOK : DecOK SectionDividerSetting.codec := by
  intro d p v p' h
  simp only [SectionDividerSetting.codec, SectionDividerSetting.dec, bind, Except.bind] at h
  ebind h; rename_i x hx; obtain ⟨kind, q⟩ := x; simp only at h
  have hk := (readU_ok hx).1
  ebind h; rename_i hkind
  ebind h; rename_i y hy; obtain ⟨tail, q1⟩ := y; simp only at h
  ebind h; rename_i z hz; obtain ⟨sub, q2⟩ := z
  cases h
  -- the sub type is a 4-byte number
  have hsub : Psd.optFits 4 sub := by
    split at hz
    · unfold Codec.optItem at hz
      ebind hz; rename_i n q3 hn
      cases hz
      exact (readU_ok hn).1
    · cases hz; trivial
  split at hy
  · ebind hy; rename_i s hs
    ebind hy; rename_i hsig
    ebind hy; rename_i b hb
    ebind hy; rename_i hbm
    cases hy
    refine ⟨⟨hkind, hsig, hbm⟩, hk, ?_⟩
    simp only [SectionDividerSetting.hasTail]
    split <;> first | exact hsub | trivial
  · cases hy
    have hnone : sub = none := by
      simp only [Option.isSome_none, Bool.false_and, Bool.false_eq_true, if_false] at hz
      cases hz; rfl
    exact ⟨⟨hkind, hnone⟩, hk, by simp only [SectionDividerSetting.hasTail]⟩

theorem UserMask.decOK : DecOK UserMask.codec := by
  intro d p v p' h
  simp only [UserMask.codec, bind, Except.bind] at h
  ebind h; rename_i x hx; obtain ⟨c, q⟩ := x; simp only at h
  ebind h; rename_i y hy; obtain ⟨op, q1⟩ := y; simp only at h
  ebind h; rename_i z hz; obtain ⟨fl, q2⟩ := z; simp only at h
  ebind h
  cases h
  exact ⟨trivial, Color.dec_ok hx, (readU_ok hy).1, (readU_ok hz).1⟩

theorem FilterMask.decOK : DecOK FilterMask.codec := by
  intro d p v p' h
  simp only [FilterMask.codec, bind, Except.bind] at h
  ebind h; rename_i x hx; obtain ⟨c, q⟩ := x; simp only at h
  ebind h; rename_i y hy; obtain ⟨op, q1⟩ := y
  cases h
  exact ⟨trivial, Color.dec_ok hx, (readU_ok hy).1⟩

theorem ChannelBlendingRestrictionsSetting.decOK : DecOK ChannelBlendingRestrictionsSetting.codec := by
  intro d p vs p' h
  refine ⟨trivial, fun x hx => ?_⟩
  obtain ⟨q, q', _, hq⟩ := readWhile_ok (show readWhile (isReadable 4) (Codec.optItem (readU 4)) d p = .ok (vs, p') from h) x hx
  exact (readU_ok (optItem_some hq)).1

theorem PixelSourceData2.decOK (pad : Nat) (hp : pad = 1 ∨ pad = 2 ∨ pad = 4) : DecOK (PixelSourceData2.codec pad) := by
  intro d p vs p' h
  refine ⟨hp, fun x hx => ?_⟩
  obtain ⟨q, q', _, hq⟩ := readWhile_ok (show readWhile (isReadable 8) (Codec.optItem (readLenBlock 0 8 1)) d p = .ok (vs, p') from h) x hx
  exact readLenBlock_ok (optItem_some hq)

/-! ### metadata settings, annotations -/

/-- the side condition of a metadata item: the length of the re-encoded payload (a descriptor is written with padding 4)
fits the 4-byte length field -/
def MetadataSetting.ResaveOK (tb : Descriptor.Tables) (x : MetadataSetting) : Prop :=
  FitsU 4 (MetadataSetting.dataT tb x.data).length

theorem MetadataSetting.decOKIf (tb : Descriptor.Tables) (ht : Descriptor.TermsFour tb) :
    DecOKIf (MetadataSetting.codec tb) (MetadataSetting.ResaveOK tb) := by
  intro d p v p' h hl
  simp only [MetadataSetting.codec, MetadataSetting.dec, bind, Except.bind] at h
  ebind h; rename_i x1 h1; obtain ⟨sig, q1⟩ := x1; simp only at h
  ebind h; rename_i hsig
  ebind h; rename_i x2 h2; obtain ⟨key, q2⟩ := x2; simp only at h
  ebind h; rename_i x3 h3; obtain ⟨cos, q3⟩ := x3; simp only at h
  ebind h
  ebind h; rename_i x5 h5; obtain ⟨data, q5⟩ := x5; simp only at h
  ebind h; rename_i x6 h6
  cases h
  have hkey := (readN_ok h2).1
  unfold MetadataSetting.typedData at h6
  split at h6
  · rename_i hint
    ebind h6; rename_i n q hn
    cases h6
    exact ⟨⟨hsig, hkey, hint⟩, (readU_ok hn).1, hl⟩
  · rename_i hint
    split at h6
    · rename_i hdesc
      ebind h6; rename_i blk q hb
      cases h6
      obtain ⟨f, w⟩ := Descriptor.Block.dec_good ht data 0 blk q hb
      exact ⟨⟨hsig, hkey, hint, hdesc, w⟩, f, hl⟩
    · rename_i hdesc
      cases h6
      exact ⟨⟨hsig, hkey, hint, hdesc⟩, trivial, hl⟩

theorem MetadataSettings.decOKIf (tb : Descriptor.Tables) (ht : Descriptor.TermsFour tb) :
    DecOKIf (MetadataSettings.codec tb) (fun xs => ∀ x ∈ xs, MetadataSetting.ResaveOK tb x) := by
  intro d p xs p' h hl
  simp only [MetadataSettings.codec, bind, Except.bind] at h
  ebind h; rename_i x1 h1; obtain ⟨n, q1⟩ := x1; simp only at h
  obtain ⟨hlen, hitems⟩ := readCount_ok h
  have hall : ∀ x ∈ xs, MetadataSetting.WF tb x ∧ MetadataSetting.Fits tb x := by
    intro x hx
    obtain ⟨a, b, hab⟩ := hitems x hx
    exact MetadataSetting.decOKIf tb ht d a x b hab (hl x hx)
  refine ⟨fun x hx => (hall x hx).1, ?_, fun x hx => (hall x hx).2⟩
  simp only [FitsU, hlen]
  exact (readU_ok h1).1

theorem readI32s_ok {n : Nat} {d : B} {p : Nat} {zs : List Int} {p' : Nat} (h : readCount readI32 n d p = .ok (zs, p')) :
    zs.length = n ∧ listFits FitsI32 zs := by
  obtain ⟨hl, hitems⟩ := readCount_ok h
  refine ⟨hl, fun z hz => ?_⟩
  obtain ⟨a, b, hab⟩ := hitems z hz
  exact (readI32_ok hab).1

/-- the side condition of an annotation: the length the writer derives (`len(data) + 12`) fits its field -/
def Annotation.ResaveOK (a : Annotation) : Prop := FitsU 4 (a.data.length + 12)

theorem Annotation.decOKIf : DecOKIf Annotation.codec Annotation.ResaveOK := by
  intro d p v p' h hl
  simp only [Annotation.codec, Annotation.dec, bind, Except.bind] at h
  ebind h; rename_i x1 h1; obtain ⟨kind, q1⟩ := x1; simp only at h
  ebind h; rename_i x2 h2; obtain ⟨isOpen, q2⟩ := x2; simp only at h
  ebind h; rename_i x3 h3; obtain ⟨flags, q3⟩ := x3; simp only at h
  ebind h; rename_i x4 h4; obtain ⟨ob, q4⟩ := x4; simp only at h
  ebind h; rename_i x5 h5; obtain ⟨icon, q5⟩ := x5; simp only at h
  ebind h; rename_i x6 h6; obtain ⟨popup, q6⟩ := x6; simp only at h
  ebind h; rename_i x7 h7; obtain ⟨color, q7⟩ := x7; simp only at h
  ebind h; rename_i x8 h8; obtain ⟨author, q8⟩ := x8; simp only at h
  ebind h; rename_i x9 h9; obtain ⟨name, q9⟩ := x9; simp only at h
  ebind h; rename_i x10 h10; obtain ⟨modDate, q10⟩ := x10; simp only at h
  ebind h; rename_i x11 h11; obtain ⟨len, q11⟩ := x11; simp only at h
  ebind h; rename_i x12 h12; obtain ⟨marker, q12⟩ := x12; simp only at h
  ebind h; rename_i x13 h13; obtain ⟨data, q13⟩ := x13; simp only at h
  ebind h; rename_i hvalid
  cases h
  exact ⟨hvalid, (readU_ok h2).1, (readU_ok h3).1, (readU_ok h4).1, readI32s_ok h5, readI32s_ok h6, Color.dec_ok h7,
    readPascal_ok h8, readPascal_ok h9, readPascal_ok h10, hl, readLenBlock_ok h13⟩

theorem Annotations.readItems_ok : ∀ (n : Nat) {d : B} {p : Nat} {xs : List Annotation} {p' : Nat},
    Annotations.readItems n d p = .ok (xs, p') →
      xs.length ≤ n ∧ ∀ a ∈ xs, ∃ (c : B) (q q' : Nat), Annotation.dec c q = .ok (a, q')
  | 0, _, _, _, _, h => by simp only [Annotations.readItems] at h; cases h; exact ⟨Nat.le_refl _, fun a ha => by cases ha⟩
  | n + 1, d, p, xs, p', h => by
    simp only [Annotations.readItems, bind, Except.bind] at h
    ebind h; rename_i x1 h1; obtain ⟨len, q1⟩ := x1; simp only at h
    split at h
    · ebind h; rename_i x2 h2; obtain ⟨chunk, q2⟩ := x2; simp only at h
      ebind h; rename_i x3 h3; obtain ⟨a, q3⟩ := x3; simp only at h
      ebind h; rename_i x4 h4; obtain ⟨as, q4⟩ := x4
      cases h
      obtain ⟨hl, hi⟩ := Annotations.readItems_ok n h4
      refine ⟨by simp only [List.length_cons]; omega, fun b hb => ?_⟩
      simp only [List.mem_cons] at hb
      rcases hb with rfl | hb
      · exact ⟨chunk, 0, q3, h3⟩
      · exact hi b hb
    · obtain ⟨hl, hi⟩ := Annotations.readItems_ok n h
      exact ⟨by omega, hi⟩

def Annotations.ResaveOK (x : Annotations) : Prop := ∀ a ∈ x.items, a.ResaveOK ∧ FitsU 4 (a.encT.length + 4)

/-- items whose declared length is 4 or less are skipped by the reader and not written back; the count is re-derived -/
theorem Annotations.decOKIf : DecOKIf Annotations.codec Annotations.ResaveOK := by
  intro d p v p' h hl
  simp only [Annotations.codec, Annotations.dec, bind, Except.bind] at h
  ebind h; rename_i x1 h1; obtain ⟨major, q1⟩ := x1; simp only at h
  ebind h; rename_i x2 h2; obtain ⟨minor, q2⟩ := x2; simp only at h
  ebind h; rename_i x3 h3; obtain ⟨count, q3⟩ := x3; simp only at h
  ebind h; rename_i x4 h4; obtain ⟨items, q4⟩ := x4
  cases h
  obtain ⟨hlen, hitems⟩ := Annotations.readItems_ok count h4
  have hall : ∀ a ∈ items, a.Valid ∧ a.Fits := by
    intro a ha
    obtain ⟨c, q, q', hq⟩ := hitems a ha
    exact Annotation.decOKIf c q a q' hq (hl a ha).1
  refine ⟨fun a ha => (hall a ha).1, (readU_ok h1).1, (readU_ok h2).1, ?_, fun a ha => ⟨(hall a ha).2, (hl a ha).2⟩⟩
  have := (readU_ok h3).1
  simp only [FitsU]
  omega

/-! ### the effects layer -/

theorem readBlendMode_ok {d : B} {p : Nat} {b : B} {p' : Nat} (h : readBlendMode d p = .ok (b, p')) :
    b ∈ Psd.G.blendModes ∧ b.length = 4 := by
  unfold readBlendMode at h
  ebind h; rename_i x q hx
  ebind h; rename_i hm
  cases h
  exact ⟨hm, (readN_ok hx).1⟩

/-- close one `Fits` / `WF` conjunct from the inverted reads in the context -/
macro "fits_close" : tactic => `(tactic| first
  | trivial
  | exact (readU_ok (by assumption)).1
  | exact (readI32_ok (by assumption)).1
  | exact (readI16_ok (by assumption)).1
  | exact Color.dec_ok (by assumption)
  | exact readPascal_ok (by assumption)
  | exact readLenBlock_ok (by assumption)
  | exact (readN_ok (by assumption)).1
  | exact (readBlendMode_ok (by assumption)).1
  | assumption)

theorem CommonStateInfo.decOK : DecOK CommonStateInfo.codec := by
  intro d p v p' h
  simp only [CommonStateInfo.codec, bind, Except.bind] at h
  repeat ebind h
  cases h
  refine ⟨trivial, ?_, ?_⟩ <;> fits_close

theorem ShadowInfo.decOK : DecOK ShadowInfo.codec := by
  intro d p v p' h
  simp only [ShadowInfo.codec, ShadowInfo.dec, bind, Except.bind] at h
  repeat ebind h
  cases h
  refine ⟨?_, ?_, ?_, ?_, ?_, ?_, ?_, ?_, ?_, ?_, ?_⟩ <;> fits_close


theorem GlowBody.dec_ok {d : B} {p : Nat} {x : GlowBody} {p' : Nat} (h : GlowBody.dec d p = .ok (x, p')) :
    x.Fits ∧ x.blendMode ∈ Psd.G.blendModes := by
  simp only [GlowBody.dec, bind, Except.bind] at h
  repeat ebind h
  cases h
  refine ⟨⟨?_, ?_, ?_, ?_, ?_, ?_⟩, ?_⟩ <;> fits_close

theorem OuterGlowInfo.decOK : DecOK OuterGlowInfo.codec := by
  intro d p v p' h
  simp only [OuterGlowInfo.codec, OuterGlowInfo.dec, bind, Except.bind] at h
  ebind h; rename_i x hx; obtain ⟨body, q⟩ := x; simp only at h
  ebind h; rename_i y hy; obtain ⟨native, q1⟩ := y
  cases h
  obtain ⟨fb, wb⟩ := GlowBody.dec_ok hx
  split at hy
  · rename_i hv
    unfold Codec.optItem at hy
    ebind hy; rename_i c q2 hc
    cases hy
    exact ⟨⟨wb, fun _ => rfl, fun _ => hv⟩, fb, Color.dec_ok hc⟩
  · rename_i hv
    cases hy
    exact ⟨⟨wb, fun h2 => absurd h2 hv, fun hs => Bool.noConfusion hs⟩, fb, trivial⟩

theorem InnerGlowInfo.decOK : DecOK InnerGlowInfo.codec := by
  intro d p v p' h
  simp only [InnerGlowInfo.codec, InnerGlowInfo.dec, bind, Except.bind] at h
  ebind h; rename_i x hx; obtain ⟨body, q⟩ := x; simp only at h
  obtain ⟨fb, wb⟩ := GlowBody.dec_ok hx
  split at h
  · rename_i hv
    ebind h; rename_i y hy
    ebind h; rename_i z hz
    cases h
    exact ⟨⟨wb, fun h2 => absurd hv (Nat.not_le.2 h2)⟩, fb, fun _ => ⟨⟨rfl, (readU_ok hy).1⟩, ⟨rfl, Color.dec_ok hz⟩⟩⟩
  · rename_i hv
    cases h
    exact ⟨⟨wb, fun _ => ⟨rfl, rfl⟩⟩, fb, fun h2 => absurd h2 hv⟩

theorem BevelInfo.decOK : DecOK BevelInfo.codec := by
  intro d p v p' h
  simp only [BevelInfo.codec, BevelInfo.dec, bind, Except.bind] at h
  ebind h; rename_i x1 h1
  ebind h; rename_i x2 h2
  ebind h; rename_i x3 h3
  ebind h; rename_i x4 h4
  ebind h; rename_i x5 h5
  ebind h; rename_i x6 h6
  ebind h; rename_i hs1
  ebind h; rename_i x7 h7
  ebind h; rename_i x8 h8
  ebind h; rename_i hs2
  ebind h; rename_i x9 h9
  ebind h; rename_i x10 h10
  ebind h; rename_i x11 h11
  ebind h; rename_i x12 h12
  ebind h; rename_i x13 h13
  ebind h; rename_i x14 h14
  ebind h; rename_i x15 h15
  ebind h; rename_i x16 h16
  ebind h; rename_i x17 h17
  ebind h; rename_i hvalid
  cases h
  have hbase : FitsU 4 x1.fst ∧ FitsI32 x2.fst ∧ FitsU 4 x3.fst ∧ FitsU 4 x4.fst ∧ x9.fst.Fits ∧ x10.fst.Fits ∧
      FitsU 1 x11.fst ∧ FitsU 1 x12.fst ∧ FitsU 1 x13.fst ∧ FitsU 1 x14.fst ∧ FitsU 1 x15.fst ∧ FitsU 1 x16.fst :=
    ⟨(readU_ok h1).1, (readI32_ok h2).1, (readU_ok h3).1, (readU_ok h4).1, Color.dec_ok h9, Color.dec_ok h10,
      (readU_ok h11).1, (readU_ok h12).1, (readU_ok h13).1, (readU_ok h14).1, (readU_ok h15).1, (readU_ok h16).1⟩
  obtain ⟨b1, b2, b3, b4, b5, b6, b7, b8, b9, b10, b11, b12⟩ := hbase
  split at h17
  · rename_i hv
    ebind h17; rename_i a ha
    ebind h17; rename_i b hb
    cases h17
    exact ⟨⟨hvalid, fun h2 => absurd hv (Nat.not_le.2 h2)⟩, b1, b2, b3, b4, b5, b6, b7, b8, b9, b10, b11, b12,
      fun _ => ⟨⟨rfl, Color.dec_ok ha⟩, ⟨rfl, Color.dec_ok hb⟩⟩⟩
  · rename_i hv
    cases h17
    exact ⟨⟨hvalid, fun _ => ⟨rfl, rfl⟩⟩, b1, b2, b3, b4, b5, b6, b7, b8, b9, b10, b11, b12, fun h2 => absurd h2 hv⟩

theorem SolidFillInfo.decOK : DecOK SolidFillInfo.codec := by
  intro d p v p' h
  simp only [SolidFillInfo.codec, SolidFillInfo.dec, bind, Except.bind] at h
  repeat ebind h
  cases h
  refine ⟨?_, ?_, ?_, ?_, ?_, ?_⟩ <;> fits_close


theorem length_odictInsert_le {κ α : Type} [DecidableEq κ] (key : α → κ) (acc : List α) (x : α) :
    (odictInsert key acc x).length ≤ acc.length + 1 := by
  unfold odictInsert
  split
  · simp only [List.length_map]; omega
  · simp only [List.length_append, List.length_cons, List.length_nil]; omega

theorem length_odict_fold_le {κ α : Type} [DecidableEq κ] (key : α → κ) (items acc : List α) :
    (items.foldl (odictInsert key) acc).length ≤ acc.length + items.length := by
  induction items generalizing acc with
  | nil => simp
  | cons x xs ih =>
    simp only [List.foldl_cons, List.length_cons]
    have := ih (odictInsert key acc x)
    have := length_odictInsert_le key acc x
    omega

theorem length_odict_le {κ α : Type} [DecidableEq κ] (key : α → κ) (items : List α) : (odict key items).length ≤ items.length := by
  have := length_odict_fold_le key items []
  simpa [odict] using this

theorem Effect.decAs_ok {c : EffectClass} {data : B} {e : Effect} (h : Effect.decAs c data = .ok e) :
    e.cls = c ∧ e.WF ∧ e.Fits := by
  unfold Effect.decAs at h
  cases c <;> simp only [Except.map] at h
  case common =>
    ebind h; rename_i r hr; cases h
    obtain ⟨w, f⟩ := CommonStateInfo.decOK data 0 r.1 r.2 hr
    exact ⟨rfl, w, f⟩
  case shadow =>
    ebind h; rename_i r hr; cases h
    obtain ⟨w, f⟩ := ShadowInfo.decOK data 0 r.1 r.2 hr
    exact ⟨rfl, w, f⟩
  case outerGlow =>
    ebind h; rename_i r hr; cases h
    obtain ⟨w, f⟩ := OuterGlowInfo.decOK data 0 r.1 r.2 hr
    exact ⟨rfl, w, f⟩
  case innerGlow =>
    ebind h; rename_i r hr; cases h
    obtain ⟨w, f⟩ := InnerGlowInfo.decOK data 0 r.1 r.2 hr
    exact ⟨rfl, w, f⟩
  case bevel =>
    ebind h; rename_i r hr; cases h
    obtain ⟨w, f⟩ := BevelInfo.decOK data 0 r.1 r.2 hr
    exact ⟨rfl, w, f⟩
  case solidFill =>
    ebind h; rename_i r hr; cases h
    obtain ⟨w, f⟩ := SolidFillInfo.decOK data 0 r.1 r.2 hr
    exact ⟨rfl, w, f⟩

theorem EffectsLayer.itemDec_ok {d : B} {p : Nat} {kv : B × Effect} {p' : Nat} (h : EffectsLayer.itemDec d p = .ok (kv, p')) :
    classOfKey kv.1 = some kv.2.cls ∧ kv.2.WF ∧ kv.2.Fits := by
  simp only [EffectsLayer.itemDec, bind, Except.bind] at h
  ebind h
  ebind h; rename_i x hx
  split at h
  · cases h
  · rename_i c hc
    ebind h; rename_i y hy
    ebind h; rename_i e he
    cases h
    obtain ⟨h1, h2, h3⟩ := Effect.decAs_ok he
    exact ⟨by rw [h1]; exact hc, h2, h3⟩

/-- the length field of every re-encoded effect info (each is a few dozen bytes) -/
def EffectsLayer.LenFits (x : EffectsLayer) : Prop := ∀ kv ∈ x.items, FitsU 4 kv.2.encT.length

theorem EffectsLayer.decOKIf : DecOKIf EffectsLayer.codec EffectsLayer.LenFits := by
  intro d p v p' h hl
  simp only [EffectsLayer.codec, EffectsLayer.dec, bind, Except.bind] at h
  ebind h; rename_i x1 h1
  ebind h; rename_i x2 h2
  ebind h; rename_i x3 h3
  cases h
  obtain ⟨hlen, hitems⟩ := readCount_ok h3
  have hall : ∀ kv ∈ odict (fun (kv : B × Effect) => kv.1) x3.fst, classOfKey kv.1 = some kv.2.cls ∧ kv.2.WF ∧ kv.2.Fits := by
    intro kv hkv
    obtain ⟨a, b, hab⟩ := hitems kv (mem_odict _ _ kv hkv)
    exact EffectsLayer.itemDec_ok hab
  refine ⟨⟨fun kv hkv => ⟨(hall kv hkv).1, (hall kv hkv).2.1⟩, nodup_odict _ _⟩, (readU_ok h1).1, ?_,
    fun kv hkv => ⟨(hall kv hkv).2.2, hl kv hkv⟩⟩
  have := length_odict_le (fun (kv : B × Effect) => kv.1) x3.fst
  have := (readU_ok h2).1
  simp only [FitsU]
  omega

/-! ### patterns -/

theorem readU32s_ok {w n : Nat} {d : B} {p : Nat} {zs : List Nat} {p' : Nat} (h : readCount (readU w) n d p = .ok (zs, p')) :
    zs.length = n ∧ listFits (FitsU w) zs := by
  obtain ⟨hl, hitems⟩ := readCount_ok h
  refine ⟨hl, fun z hz => ?_⟩
  obtain ⟨a, b, hab⟩ := hitems z hz
  exact (readU_ok hab).1

/-- the length field of the re-encoded pixel block (a declared length below 23 makes the reader take everything that
follows: `fp.read(negative)`) -/
def VMA.LenFits (x : VMA) : Prop := ∀ c, x.content = some c → FitsU 4 c.bodyT.length

theorem VMA.decOKIf : DecOKIf VMA.codec VMA.LenFits := by
  intro d p v p' h hl
  simp only [VMA.codec, VMA.dec, bind, Except.bind] at h
  ebind h; rename_i x1 h1; obtain ⟨iw, q1⟩ := x1; simp only at h
  have hiw := (readU_ok h1).1
  split at h
  · rename_i h0
    cases h
    exact ⟨trivial, hiw, fun hne => absurd h0 hne⟩
  · rename_i h0
    ebind h; rename_i x2 h2; obtain ⟨length, q2⟩ := x2; simp only at h
    split at h
    · cases h
      exact ⟨trivial, hiw, fun _ => trivial⟩
    · ebind h; rename_i x3 h3
      ebind h; rename_i x4 h4
      ebind h; rename_i x5 h5
      ebind h; rename_i x6 h6
      ebind h; rename_i x7 h7
      ebind h; rename_i hcomp
      cases h
      exact ⟨⟨h0, hcomp⟩, hiw, fun _ => ⟨(readU_ok h3).1, readU32s_ok h4, (readU_ok h5).1, (readU_ok h6).1, hl _ rfl⟩⟩

def VMAL.LenFits (x : VMAL) : Prop := (∀ c ∈ x.channels, VMA.LenFits c) ∧ FitsU 4 x.bodyT.length

theorem VMAL.decOKIf : DecOKIf VMAL.codec VMAL.LenFits := by
  intro d p v p' h hl
  simp only [VMAL.codec, VMAL.dec, bind, Except.bind] at h
  ebind h; rename_i x1 h1; obtain ⟨version, q1⟩ := x1; simp only at h
  ebind h; rename_i hv
  ebind h; rename_i x2 h2
  ebind h; rename_i x3 h3
  ebind h; rename_i x4 h4
  ebind h; rename_i x5 h5
  cases h
  obtain ⟨hlen, hitems⟩ := readCount_ok h5
  have hall : ∀ c ∈ x5.fst, c.WF ∧ c.Fits := by
    intro c hc
    obtain ⟨a, b, hab⟩ := hitems c hc
    exact VMA.decOKIf _ a c b hab (hl.1 c hc)
  have hn := (readU_ok h4).1
  have hc2 : 2 ≤ x5.fst.length ∧ FitsU 4 (x5.fst.length - 2) := by
    simp only [FitsU, hlen] at hn ⊢
    omega
  exact ⟨⟨hv, fun c hc => (hall c hc).1⟩, (readU_ok h1).1, readU32s_ok h3, hc2, fun c hc => (hall c hc).2, hl.2⟩

theorem Pattern.rows_ok {d : B} {p : Nat} {rows : List (List Nat)} {p' : Nat}
    (h : readCount (readCount (readU 1) 3) 256 d p = .ok (rows, p')) :
    rows.length = 256 ∧ listFits (fun (row : List Nat) => row.length = 3 ∧ listFits (FitsU 1) row) rows := by
  obtain ⟨hl, hitems⟩ := readCount_ok h
  refine ⟨hl, fun r hr => ?_⟩
  obtain ⟨a, b, hab⟩ := hitems r hr
  exact readU32s_ok hab

theorem readI16s_ok {n : Nat} {d : B} {p : Nat} {zs : List Int} {p' : Nat} (h : readCount readI16 n d p = .ok (zs, p')) :
    zs.length = n ∧ listFits FitsI16 zs := by
  obtain ⟨hl, hitems⟩ := readCount_ok h
  refine ⟨hl, fun z hz => ?_⟩
  obtain ⟨a, b, hab⟩ := hitems z hz
  exact (readI16_ok hab).1

theorem Pattern.decOKIf : DecOKIf Pattern.codec (fun x => VMAL.LenFits x.data) := by
  intro d p v p' h hl
  simp only [Pattern.codec, Pattern.dec, bind, Except.bind] at h
  ebind h; rename_i x1 h1; obtain ⟨version, q1⟩ := x1; simp only at h
  ebind h; rename_i hv
  ebind h; rename_i x2 h2; obtain ⟨mode, q2⟩ := x2; simp only at h
  ebind h; rename_i hmode
  ebind h; rename_i x3 h3
  ebind h; rename_i x4 h4
  ebind h; rename_i x5 h5
  ebind h; rename_i hascii
  ebind h; rename_i x6 h6
  ebind h; rename_i x7 h7
  cases h
  obtain ⟨s1, s2, s3⟩ := readUStr_ok h4
  obtain ⟨wd, fd⟩ := VMAL.decOKIf d _ _ _ h7 hl
  have htab : Pattern.tableWF (decide (mode = GP.colorModeIndexed)) x6.fst ∧ Pattern.tableFits x6.fst := by
    split at h6
    · rename_i hidx
      ebind h6; rename_i r hr
      ebind h6
      cases h6
      obtain ⟨a, b⟩ := Pattern.rows_ok hr
      exact ⟨⟨by simpa using hidx, a⟩, b⟩
    · rename_i hidx
      cases h6
      exact ⟨by simp only [Pattern.tableWF]; simpa using hidx, trivial⟩
  exact ⟨⟨hv, hmode, ⟨s1, s2⟩, hascii, htab.1, wd⟩, (readU_ok h1).1, (readU_ok h2).1, readI16s_ok h3, s3, readPascal_ok h5,
    htab.2, fd⟩

def Patterns.LenFits (xs : List Pattern) : Prop := ∀ x ∈ xs, VMAL.LenFits x.data ∧ FitsU 4 x.encT.length

theorem Patterns.decOKIf : DecOKIf Patterns.codec Patterns.LenFits := by
  intro d p xs p' h hl
  have hall : ∀ x ∈ xs, x.WF ∧ x.Fits := by
    intro x hx
    simp only [Patterns.codec] at h
    obtain ⟨q, q', _, hq⟩ := readWhile_ok h x hx
    simp only [bind, Except.bind] at hq
    ebind hq; rename_i y hy
    ebind hq; rename_i z hz
    cases hq
    exact Pattern.decOKIf _ 0 _ _ hz (hl _ hx).1
  exact ⟨fun x hx => (hall x hx).1, fun x hx => ⟨(hall x hx).2, (hl x hx).2⟩⟩

/-! ### the descriptor wrappers -/

section descwrap
variable (tb : Descriptor.Tables)

theorem SmartObjectLayerData.decOK (ht : Descriptor.TermsFour tb) (pad : Nat) :
    DecOK (SmartObjectLayerData.codec tb pad) := by
  intro d p v p' h
  simp only [SmartObjectLayerData.codec, SmartObjectLayerData.dec, bind, Except.bind] at h
  ebind h; rename_i x1 h1
  ebind h; rename_i x2 h2
  ebind h; rename_i x3 h3
  ebind h; rename_i hvalid
  cases h
  obtain ⟨f, w⟩ := Descriptor.Block.dec_good ht d _ _ _ h3
  exact ⟨⟨hvalid, w⟩, (readU_ok h2).1, f⟩

theorem readF64s_len {n : Nat} {d : B} {p : Nat} {zs : List UInt64} {p' : Nat} (h : readCount readF64 n d p = .ok (zs, p')) :
    zs.length = n := (readCount_ok h).1

theorem PlacedLayerData.decOK (ht : Descriptor.TermsFour tb) (pad : Nat) :
    DecOK (PlacedLayerData.codec tb pad) := by
  intro d p v p' h
  simp only [PlacedLayerData.codec, PlacedLayerData.dec, bind, Except.bind] at h
  ebind h; rename_i x1 h1
  ebind h; rename_i x2 h2
  ebind h; rename_i x3 h3
  ebind h; rename_i x4 h4
  ebind h; rename_i x5 h5
  ebind h; rename_i x6 h6
  ebind h; rename_i x7 h7
  ebind h; rename_i x8 h8
  ebind h; rename_i x9 h9
  ebind h; rename_i hvalid
  cases h
  obtain ⟨f, w⟩ := Descriptor.Block2.dec_good ht d _ _ _ h9
  exact ⟨⟨hvalid, (readN_ok h1).1, w⟩, (readU_ok h2).1, readPascal_ok h3, (readU_ok h4).1, (readU_ok h5).1, (readU_ok h6).1,
    (readU_ok h7).1, readF64s_len h8, f⟩

theorem TypeToolObjectSetting.decOK (ht : Descriptor.TermsFour tb) (pad : Nat) :
    DecOK (TypeToolObjectSetting.codec tb pad) := by
  intro d p v p' h
  simp only [TypeToolObjectSetting.codec, TypeToolObjectSetting.dec, bind, Except.bind] at h
  ebind h; rename_i x1 h1
  ebind h; rename_i x2 h2
  ebind h; rename_i x3 h3
  ebind h; rename_i x4 h4
  ebind h; rename_i x5 h5
  ebind h; rename_i x6 h6
  ebind h; rename_i x7 h7
  ebind h; rename_i x8 h8
  ebind h; rename_i x9 h9
  ebind h; rename_i x10 h10
  ebind h; rename_i hvalid
  cases h
  obtain ⟨f1, w1⟩ := Descriptor.Block.dec_good ht d _ _ _ h4
  obtain ⟨f2, w2⟩ := Descriptor.Block.dec_good ht d _ _ _ h6
  exact ⟨⟨hvalid, w1, w2⟩, (readU_ok h1).1, readF64s_len h2, (readU_ok h3).1, f1, (readU_ok h5).1, f2,
    (readI32_ok h7).1, (readI32_ok h8).1, (readI32_ok h9).1, (readI32_ok h10).1⟩

end descwrap

/-! ### linked layers -/

namespace LinkedLayer
variable (tb : Descriptor.Tables)

theorem readTs_ok {d : B} {p : Nat} {t : Timestamp} {p' : Nat} (h : readTs d p = .ok (t, p')) : tsFits t := by
  simp only [readTs, bind, Except.bind] at h
  ebind h; rename_i x1 h1
  ebind h; rename_i x2 h2
  ebind h; rename_i x3 h3
  cases h
  obtain ⟨a, b⟩ := readU32s_ok h2
  exact ⟨(readU_ok h1).1, a, b⟩

/-- what the kind branch sets, kind by kind -/
structure KindOK (kind : B) (version datasize : Nat) (k : KindPart) : Prop where
  lf : ∀ b, k.linkedFile = some b → b.Fits tb ∧ b.WF tb
  ext : kind = GP.linkedExternal → k.linkedFile.isSome ∧ (version > 3 → tsReq k.timestamp) ∧
      (k.filesize.isSome ∧ Psd.optFits 8 k.filesize) ∧ (version > 2 → k.data.isSome) ∧ (version ≤ 3 → k.timestamp = none) ∧
      (version ≤ 2 → k.data = none)
  notExt : kind ≠ GP.linkedExternal → k.linkedFile = none ∧ k.timestamp = none ∧ k.filesize = none
  dat : kind = GP.linkedData → k.data.isSome
  notDat : kind ≠ GP.linkedData → kind ≠ GP.linkedExternal → k.data = none
  len : ∀ b, k.data = some b → b.length ≤ datasize

theorem kinds_distinct : GP.linkedExternal ≠ GP.linkedData ∧ GP.linkedAlias ≠ GP.linkedData ∧ GP.linkedAlias ≠ GP.linkedExternal := by
  decide

theorem kindDec_ok (ht : Descriptor.TermsFour tb) {kind : B} {version datasize : Nat} {d : B} {p : Nat} {k : KindPart} {p' : Nat}
    (h : kindDec tb kind version datasize d p = .ok (k, p')) : KindOK tb kind version datasize k := by
  simp only [kindDec, bind, Except.bind] at h
  ebind h; rename_i x0 h0; obtain ⟨k0, q0⟩ := x0; simp only at h
  by_cases hext : kind = GP.linkedExternal
  · -- EXTERNAL: everything is set by the first branch, the data branch is not taken
    have hnd : ¬ kind = GP.linkedData := fun hd => kinds_distinct.1 (hext.symm.trans hd)
    rw [if_neg hnd] at h
    cases h
    rw [if_pos hext] at h0
    ebind h0; rename_i y1 g1
    ebind h0; rename_i y2 g2
    ebind h0; rename_i y3 g3
    ebind h0; rename_i y4 g4
    cases h0
    obtain ⟨f, w⟩ := Descriptor.Block.dec_good ht d _ _ _ g1
    have hts : (version > 3 → tsReq y2.fst) ∧ (version ≤ 3 → y2.fst = none) := by
      split at g2
      · rename_i hv
        unfold Codec.optItem at g2
        ebind g2; rename_i t q ht'
        cases g2
        exact ⟨fun _ => readTs_ok ht', fun hle => by omega⟩
      · rename_i hv
        cases g2
        exact ⟨fun hgt => absurd hgt hv, fun _ => rfl⟩
    have hdt : (version > 2 → y4.fst.isSome) ∧ (version ≤ 2 → y4.fst = none) ∧ (∀ b, y4.fst = some b → b.length ≤ datasize) := by
      split at g4
      · rename_i hv
        unfold Codec.optItem at g4
        ebind g4; rename_i t q ht'
        cases g4
        exact ⟨fun _ => rfl, fun hle => by omega, fun b hb => by cases hb; exact readSized_ok ht'⟩
      · rename_i hv
        cases g4
        exact ⟨fun hgt => absurd hgt hv, fun _ => rfl, fun b hb => by cases hb⟩
    exact {
      lf := fun b hb => by cases hb; exact ⟨f, w⟩
      ext := fun _ => ⟨rfl, hts.1, ⟨rfl, (readU_ok g3).1⟩, hdt.1, hts.2, hdt.2.1⟩
      notExt := fun hne => absurd hext hne
      dat := fun hd => absurd hd hnd
      notDat := fun _ hne => absurd hext hne
      len := hdt.2.2 }
  · rw [if_neg hext] at h0
    have hnone : k0 = ⟨none, none, none, none⟩ := by
      split at h0
      · ebind h0; cases h0; rfl
      · cases h0; rfl
    subst hnone
    split at h
    · rename_i hd
      ebind h; rename_i y hy
      ebind h; rename_i hl
      cases h
      exact {
        lf := fun b hb => by cases hb
        ext := fun he => absurd he hext
        notExt := fun _ => ⟨rfl, rfl, rfl⟩
        dat := fun _ => rfl
        notDat := fun hne _ => absurd hd hne
        len := fun b hb => by cases hb; omega }
    · rename_i hd
      cases h
      exact {
        lf := fun b hb => by cases hb
        ext := fun he => absurd he hext
        notExt := fun _ => ⟨rfl, rfl, rfl⟩
        dat := fun he => absurd he hd
        notDat := fun _ _ => rfl
        len := fun b hb => by cases hb }

theorem tailDec_ok {version : Nat} {d : B} {p : Nat} {r : Option Str × Option UInt64 × Option Nat} {p' : Nat}
    (h : tailDec version d p = .ok (r, p')) :
    (r.1.isSome ↔ version ≥ 5) ∧ (r.2.1.isSome ↔ version ≥ 6) ∧ (r.2.2.isSome ↔ version ≥ 7) ∧ strWF r.1 ∧ optUStrFits r.1 ∧
      Psd.optFits 1 r.2.2 := by
  simp only [tailDec, bind, Except.bind] at h
  ebind h; rename_i x1 h1
  ebind h; rename_i x2 h2
  ebind h; rename_i x3 h3
  cases h
  have a : (x1.fst.isSome ↔ version ≥ 5) ∧ strWF x1.fst ∧ optUStrFits x1.fst := by
    split at h1
    · rename_i hv
      unfold Codec.optItem at h1
      ebind h1; rename_i s q hs
      cases h1
      obtain ⟨s1, s2, s3⟩ := readUStr_ok hs
      exact ⟨⟨fun _ => hv, fun _ => rfl⟩, ⟨s1, s2⟩, s3⟩
    · rename_i hv
      cases h1
      exact ⟨⟨fun hs => Bool.noConfusion hs, fun hge => absurd hge hv⟩, trivial, trivial⟩
  have b : (x2.fst.isSome ↔ version ≥ 6) := by
    split at h2
    · rename_i hv
      unfold Codec.optItem at h2
      ebind h2
      cases h2
      exact ⟨fun _ => hv, fun _ => rfl⟩
    · rename_i hv
      cases h2
      exact ⟨fun hs => Bool.noConfusion hs, fun hge => absurd hge hv⟩
  have c : (x3.fst.isSome ↔ version ≥ 7) ∧ Psd.optFits 1 x3.fst := by
    split at h3
    · rename_i hv
      unfold Codec.optItem at h3
      ebind h3; rename_i n q hn
      cases h3
      exact ⟨⟨fun _ => hv, fun _ => rfl⟩, (readU_ok hn).1⟩
    · rename_i hv
      cases h3
      exact ⟨⟨fun hs => Bool.noConfusion hs, fun hge => absurd hge hv⟩, trivial⟩
  exact ⟨a.1, b, c.1, a.2.1, a.2.2, c.2⟩


theorem decOK (ht : Descriptor.TermsFour tb) (pad : Nat) : DecOK (codec tb pad) := by
  intro d p v p' h
  simp only [codec, dec, bind, Except.bind] at h
  ebind h; rename_i x1 h1; obtain ⟨kind, q1⟩ := x1; simp only at h
  ebind h; rename_i hkind
  ebind h; rename_i x2 h2; obtain ⟨version, q2⟩ := x2; simp only at h
  ebind h; rename_i hver
  ebind h; rename_i x3 h3; obtain ⟨uuid, q3⟩ := x3; simp only at h
  ebind h; rename_i x4 h4; obtain ⟨filename, q4⟩ := x4; simp only at h
  ebind h; rename_i x5 h5; obtain ⟨filetype, q5⟩ := x5; simp only at h
  ebind h; rename_i x6 h6; obtain ⟨creator, q6⟩ := x6; simp only at h
  ebind h; rename_i x7 h7; obtain ⟨datasize, q7⟩ := x7; simp only at h
  ebind h; rename_i x8 h8; obtain ⟨flag, q8⟩ := x8; simp only at h
  ebind h; rename_i x9 h9; obtain ⟨openFile, q9⟩ := x9; simp only at h
  ebind h; rename_i x10 h10; obtain ⟨k, q10⟩ := x10; simp only at h
  ebind h; rename_i x11 h11; obtain ⟨⟨cid, mt, ls⟩, q11⟩ := x11; simp only at h
  ebind h; rename_i x12 h12; obtain ⟨data, q12⟩ := x12
  cases h
  obtain ⟨s1, s2, s3⟩ := readUStr_ok h4
  have hds := (readU_ok h7).1
  obtain ⟨t1, t2, t3, t4, t5, t6⟩ := tailDec_ok h11
  have K := kindDec_ok tb ht h10
  -- the open-file descriptor
  have hof : optBlockFits tb openFile ∧ optBlockWF tb openFile := by
    split at h9
    · unfold Codec.optItem at h9
      ebind h9; rename_i b q hb
      cases h9
      obtain ⟨f, w⟩ := Descriptor.Block.dec_good ht d _ _ _ hb
      exact ⟨f, w⟩
    · cases h9
      exact ⟨trivial, trivial⟩
  have hlf : optBlockFits tb k.linkedFile ∧ optBlockWF tb k.linkedFile := by
    cases hk : k.linkedFile with
    | none => exact ⟨trivial, trivial⟩
    | some b =>
      exact K.lf b hk
  -- the data as the last step leaves it
  have hdata : (kind = GP.linkedExternal → version = 2 → data.isSome) ∧
      (¬ (kind = GP.linkedExternal ∧ version = 2) → data = k.data) ∧ (∀ b, data = some b → b.length ≤ datasize) := by
    split at h12
    · rename_i hc
      unfold Codec.optItem at h12
      ebind h12; rename_i b q hb
      cases h12
      exact ⟨fun _ _ => rfl, fun hn => absurd hc hn, fun b' hb' => by cases hb'; exact readSized_ok hb⟩
    · rename_i hc
      cases h12
      exact ⟨fun he hv => absurd ⟨he, hv⟩ hc, fun _ => rfl, K.len⟩
  have hdl : FitsU 8 (dataLen ⟨kind, version, uuid, filename, filetype, creator, k.filesize, openFile, k.linkedFile, k.timestamp,
      data, cid, mt, ls⟩) := by
    simp only [dataLen, FitsU] at hds ⊢
    cases hd : data with
    | none => simp only; omega
    | some b => have := hdata.2.2 b hd; simp only; omega
  refine ⟨⟨hkind, hver, ⟨(readN_ok h5).1, (readN_ok h6).1⟩, ⟨s1, s2⟩, hof.2, hlf.2, ?_, ?_, ?_, t1, t2, t3, t4⟩,
    (readU_ok h2).1, readPascal_ok h3, s3, hdl, hof.1, ?_, ?_, t5, t6⟩
  · -- external: which fields a version has
    intro he
    have he' : kind = GP.linkedExternal := by simpa [isExternal] using he
    obtain ⟨_, _, _, _, e5, e6⟩ := K.ext he'
    refine ⟨e5, fun hv1 => ?_⟩
    have hv1' : version = 1 := hv1
    show data = none
    rw [hdata.2.1 (fun hc => by omega)]
    exact e6 (by omega)
  · intro he
    have he' : kind ≠ GP.linkedExternal := by simpa [isExternal] using he
    exact K.notExt he'
  · intro ha
    have ha' : kind = GP.linkedAlias := by simpa [isAlias] using ha
    have h1 : kind ≠ GP.linkedExternal := fun e => kinds_distinct.2.2 (ha'.symm.trans e)
    have h2 : kind ≠ GP.linkedData := fun e => kinds_distinct.2.1 (ha'.symm.trans e)
    show data = none
    rw [hdata.2.1 (fun hc => h1 hc.1)]
    exact K.notDat h2 h1
  · intro he
    have he' : kind = GP.linkedExternal := by simpa [isExternal] using he
    obtain ⟨e1, e2, e3, e4, _, _⟩ := K.ext he'
    refine ⟨⟨e1, hlf.1⟩, e2, e3, fun hv => ?_⟩
    have hv' : version > 1 := hv
    show data.isSome = true
    by_cases hv2 : version = 2
    · exact hdata.1 he' hv2
    · rw [hdata.2.1 (fun hc => hv2 hc.2)]
      exact e4 (by omega)
  · intro hd
    have hd' : kind = GP.linkedData := by simpa [isData] using hd
    have h1 : kind ≠ GP.linkedExternal := fun e => kinds_distinct.1 (e.symm.trans hd')
    show data.isSome = true
    rw [hdata.2.1 (fun hc => h1 hc.1)]
    exact K.dat hd'

end LinkedLayer

/-- the side condition of the linked layers: the 8-byte length field of every re-encoded item -/
def LinkedLayers.ResaveOK (tb : Descriptor.Tables) (xs : List LinkedLayer) : Prop :=
  ∀ x ∈ xs, FitsU 8 (x.encT tb 1).length

theorem LinkedLayers.decOKIf (tb : Descriptor.Tables) (ht : Descriptor.TermsFour tb) :
    DecOKIf (LinkedLayers.codec tb) (LinkedLayers.ResaveOK tb) := by
  intro d p xs p' h hl
  have hall : ∀ x ∈ xs, x.WF tb ∧ x.Fits tb := by
    intro x hx
    simp only [LinkedLayers.codec] at h
    obtain ⟨q, q', _, hq⟩ := readWhile_ok h x hx
    simp only [bind, Except.bind] at hq
    ebind hq; rename_i y hy
    ebind hq; rename_i z hz
    cases hq
    exact LinkedLayer.decOK tb ht 1 _ 0 _ _ hz
  exact ⟨fun x hx => (hall x hx).1, fun x hx => ⟨(hall x hx).2, hl x hx⟩⟩

end PsdVerif.Payload
