/-
C02 on the payload layer — the payload classes that hold a descriptor: descriptor blocks as resource / tagged-block payloads,
ColorLookup, VectorStrokeContentSetting, the slices. What the reader returns is writable and in the domain of the round trip
(`DecOK`); for the version-6 slices under C01's (F) clause `chainOK` (a slice without descriptor followed by a slice whose id
is 16: the reader's speculative read cannot tell that shape from a descriptor block).
-/
import PsdVerif.Lemmas.PayloadResave3
import PsdVerif.Lemmas.DescriptorResave

namespace PsdVerif.Payload3
open PsdVerif PsdVerif.Codec PsdVerif.Payload PsdVerif.Payload.PCodec

variable (tb : Descriptor.Tables)

theorem DescriptorResource.decOK (ht : Descriptor.TermsFour tb) : DecOK (DescriptorResource.codec tb) := by
  intro d p b p' hd
  obtain ⟨f, w⟩ := Descriptor.Block.dec_good ht d p b p' hd
  exact ⟨w, f⟩

theorem DescriptorPayload.decOK (ht : Descriptor.TermsFour tb) (pad : Nat) : DecOK (DescriptorPayload.codec tb pad) := by
  intro d p b p' hd
  obtain ⟨f, w⟩ := Descriptor.Block.dec_good ht d p b p' hd
  exact ⟨w, f⟩

theorem Descriptor2Payload.decOK (ht : Descriptor.TermsFour tb) (pad : Nat) : DecOK (Descriptor2Payload.codec tb pad) := by
  intro d p b p' hd
  obtain ⟨f, w⟩ := Descriptor.Block2.dec_good ht d p b p' hd
  exact ⟨w, f⟩

open Descriptor in
theorem ColorLookup.decOK (ht : Descriptor.TermsFour tb) (pad : Nat) : DecOK (ColorLookup.codec tb pad) := by
  intro d p b p' hd
  have hr : Ret (fun b : Block2 => ColorLookup.Fits tb b ∧ b.WF tb)
      ((readU 2) >>- fun ver => (readU 4) >>- fun dv => (readBody tb (decBody tb (d.length + 1))) >>- fun x =>
        if dv = 16 then rpure (⟨(ver : Int), (dv : Int), x.1, x.2.1, x.2.2⟩ : Block2) else rfail .valueError) :=
    (ret_readU 2).bind fun ver hv => (ret_readU 4).bind fun dv hdv =>
      (ret_readBody ht (ret_decBody ht (d.length + 1))).bind fun x hx => by
      split
      · rename_i h16
        obtain ⟨a, b'⟩ := good_of_body hx
        have : (256 : Nat) ^ 4 = 4294967296 := by decide
        refine Ret.pure ?_
        simp only [ColorLookup.Fits, Block2.WF, FitsU32, Int.toNat_natCast]
        exact ⟨⟨⟨by omega, hv⟩, ⟨by omega, by omega⟩, a⟩, by omega, b'⟩
      · exact Ret.fail _
  obtain ⟨f, w⟩ := hr d p b p' hd
  exact ⟨w, f⟩

open Descriptor in
theorem VectorStrokeContentSetting.decOK (ht : Descriptor.TermsFour tb) (pad : Nat) :
    DecOK (VectorStrokeContentSetting.codec tb pad) := by
  intro d p b p' hd
  have hr : Ret (fun b : VectorStrokeContentSetting => VectorStrokeContentSetting.Fits tb b ∧
        VectorStrokeContentSetting.WF tb b)
      ((readN 4) >>- fun key => (readU 4) >>- fun ver => (readBody tb (decBody tb (d.length + 1))) >>- fun x =>
        rpure (⟨key, (ver : Int), x.1, x.2.1, x.2.2⟩ : VectorStrokeContentSetting)) :=
    (ret_readN 4).bind fun key hk => (ret_readU 4).bind fun ver hv =>
      (ret_readBody ht (ret_decBody ht (d.length + 1))).bind fun x hx => by
        obtain ⟨a, b'⟩ := good_of_body hx
        have : (256 : Nat) ^ 4 = 4294967296 := by decide
        refine Ret.pure ?_
        simp only [VectorStrokeContentSetting.Fits, VectorStrokeContentSetting.WF, FitsU32]
        exact ⟨⟨⟨by omega, by omega⟩, a⟩, hk, b'⟩
  obtain ⟨f, w⟩ := hr d p b p' hd
  exact ⟨w, f⟩

/-! ### slices -/

theorem SliceV6.peekData_ok (ht : Descriptor.TermsFour tb) {d : B} {p : Nat} {o : Option Descriptor.Block} {p' : Nat}
    (h : SliceV6.peekData tb d p = .ok (o, p')) :
    optFits (Descriptor.Block.Fits tb) o ∧
      optFits (fun (b : Descriptor.Block) => b.WF tb ∧ b.classID.bytes ≠ SliceV6.zeroKey) o := by
  unfold SliceV6.peekData at h
  split at h
  · split at h
    · cases h
    · rename_i version q hv
      split at h
      · split at h
        · rename_i blk q' hb
          split at h
          · cases h; exact ⟨trivial, trivial⟩
          · rename_i hne
            cases h
            obtain ⟨f, w⟩ := Descriptor.Block.dec_good ht d p blk _ hb
            exact ⟨f, w, hne⟩
        · cases h; exact ⟨trivial, trivial⟩
        · cases h; exact ⟨trivial, trivial⟩
        · cases h; exact ⟨trivial, trivial⟩
        · cases h
      · cases h; exact ⟨trivial, trivial⟩
  · cases h; exact ⟨trivial, trivial⟩

theorem SliceV6.assocDec_ok {head : Row} {d : B} {p : Nat} {o : Option Row} {p' : Nat}
    (h : SliceV6.assocDec head d p = .ok (o, p')) :
    (o.isSome ↔ SliceV6.hasAssoc head) ∧ optFits (fmtFits [U 4]) (SliceV6.assocOf head o) := by
  unfold SliceV6.assocDec at h
  split at h
  · rename_i ha
    ebind h
    rename_i r q hr
    cases h
    obtain ⟨f, _, _⟩ := fmtDec_ok [U 4] rfl hr
    exact ⟨⟨fun _ => ha, fun _ => rfl⟩, by simp only [SliceV6.assocOf, if_pos ha, optFits]; exact f⟩
  · rename_i ha
    cases h
    exact ⟨⟨fun h => Bool.noConfusion h, fun h => absurd h ha⟩, by simp only [SliceV6.assocOf, if_neg ha, optFits]⟩

/-- one slice -/
theorem SliceV6.decOK (ht : Descriptor.TermsFour tb) : DecOK (SliceV6.codec tb) := by
  intro d p v p' hd
  simp only [SliceV6.codec, SliceV6.dec, bind, Except.bind] at hd
  ebind hd; rename_i x1 h1; obtain ⟨head, q1⟩ := x1; simp only at hd
  ebind hd; rename_i x2 h2; obtain ⟨assoc, q2⟩ := x2; simp only at hd
  ebind hd; rename_i x3 h3; obtain ⟨name, q3⟩ := x3; simp only at hd
  ebind hd; rename_i x4 h4; obtain ⟨st, q4⟩ := x4; simp only at hd
  ebind hd; rename_i x5 h5; obtain ⟨bbox, q5⟩ := x5; simp only at hd
  ebind hd; rename_i x6 h6; obtain ⟨url, q6⟩ := x6; simp only at hd
  ebind hd; rename_i x7 h7; obtain ⟨target, q7⟩ := x7; simp only at hd
  ebind hd; rename_i x8 h8; obtain ⟨message, q8⟩ := x8; simp only at hd
  ebind hd; rename_i x9 h9; obtain ⟨altTag, q9⟩ := x9; simp only at hd
  ebind hd; rename_i x10 h10; obtain ⟨html, q10⟩ := x10; simp only at hd
  ebind hd; rename_i x11 h11; obtain ⟨cellText, q11⟩ := x11; simp only at hd
  ebind hd; rename_i x12 h12; obtain ⟨align, q12⟩ := x12; simp only at hd
  ebind hd; rename_i x13 h13; obtain ⟨argb, q13⟩ := x13; simp only at hd
  ebind hd; rename_i x14 h14; obtain ⟨data, q14⟩ := x14
  cases hd
  obtain ⟨fhead, _, _⟩ := fmtDec_ok SliceV6.headFmt rfl h1
  obtain ⟨wa, fa⟩ := SliceV6.assocDec_ok h2
  obtain ⟨wn, fn⟩ := ustr_decOK d _ _ _ h3
  obtain ⟨fst', _, _⟩ := fmtDec_ok [U 4] rfl h4
  obtain ⟨fbb, _, _⟩ := fmtDec_ok SliceV6.bboxFmt rfl h5
  obtain ⟨wu, fu⟩ := ustr_decOK d _ _ _ h6
  obtain ⟨wt, ft⟩ := ustr_decOK d _ _ _ h7
  obtain ⟨wm, fm⟩ := ustr_decOK d _ _ _ h8
  obtain ⟨wal, fal⟩ := ustr_decOK d _ _ _ h9
  obtain ⟨fh, wh, _⟩ := fmtDec_ok [Q] rfl h10
  obtain ⟨wc, fc⟩ := ustr_decOK d _ _ _ h11
  obtain ⟨fali, _, _⟩ := fmtDec_ok [U 4, U 4] rfl h12
  obtain ⟨fargb, _, _⟩ := fmtDec_ok SliceV6.argbFmt rfl h13
  obtain ⟨fd, wd⟩ := SliceV6.peekData_ok tb ht h14
  exact ⟨⟨wa, wn, wu, wt, wm, wal, wc, wh, wd⟩, fhead, fa, fn, fst', fbb, fu, ft, fm, fal, fh, fc, fali, fargb, fd⟩

/-- the slices of a version-6 resource: the (F) clause of C01 - a slice without descriptor is not followed by a slice whose
id is 16 (the reader's speculative read cannot tell that shape from a descriptor block) -/
def SlicesV6.ResaveOK (x : SlicesV6) : Prop := SlicesV6.chainOK x.items

theorem SlicesV6.decOKIf (ht : Descriptor.TermsFour tb) : DecOKIf (SlicesV6.codec tb) SlicesV6.ResaveOK := by
  intro d p v p' hd hl
  simp only [SlicesV6.codec, SlicesV6.dec, bind, Except.bind] at hd
  ebind hd; rename_i x1 h1; obtain ⟨bbox, q1⟩ := x1; simp only at hd
  ebind hd; rename_i x2 h2; obtain ⟨name, q2⟩ := x2; simp only at hd
  ebind hd; rename_i x3 h3; obtain ⟨count, q3⟩ := x3; simp only at hd
  ebind hd; rename_i x4 h4; obtain ⟨items, q4⟩ := x4
  cases hd
  obtain ⟨fbb, _, _⟩ := fmtDec_ok SliceV6.bboxFmt rfl h1
  obtain ⟨wn, fn⟩ := ustr_decOK d _ _ _ h2
  obtain ⟨hlen, hitems⟩ := readCount_ok h4
  have hall : ∀ s ∈ items, SliceV6.WF tb s ∧ SliceV6.Fits tb s := by
    intro s hs
    obtain ⟨a, b, hab⟩ := hitems s hs
    exact SliceV6.decOK tb ht d a s b hab
  refine ⟨⟨wn, fun s hs => (hall s hs).1, hl⟩, fbb, fn, ?_, fun s hs => (hall s hs).2⟩
  simp only [FitsU, hlen]
  exact (readU_ok h3).1

def Slices.ResaveOK (x : Slices) : Prop :=
  match x.data with
  | .v6 s => SlicesV6.ResaveOK s
  | .desc _ => True

theorem Slices.decOKIf (ht : Descriptor.TermsFour tb) : DecOKIf (Slices.codec tb) Slices.ResaveOK := by
  intro d p v p' hd hl
  simp only [Slices.codec, Slices.dec, bind, Except.bind] at hd
  ebind hd; rename_i x1 h1; obtain ⟨version, q1⟩ := x1; simp only at hd
  have hv := (readU_ok h1).1
  ebind hd
  rename_i hmem
  split at hd
  · rename_i h6
    ebind hd; rename_i x2 h2; obtain ⟨s, q2⟩ := x2
    cases hd
    obtain ⟨w, f⟩ := SlicesV6.decOKIf tb ht d _ _ _ h2 hl
    exact ⟨⟨hmem, h6, w⟩, hv, f⟩
  · rename_i h6
    ebind hd; rename_i x2 h2; obtain ⟨b, q2⟩ := x2
    cases hd
    obtain ⟨f, w⟩ := Descriptor.Block.dec_good ht d _ _ _ h2
    exact ⟨⟨hmem, h6, w⟩, hv, f⟩

end PsdVerif.Payload3
