/-
C09 save / reopen: the fuel of `nodeF` / `flatNodeF` (the number of live objects) is enough in
every well-formed state, hence `flattenState = flatten ∘ forestOf`.
-/
import PsdVerif.Model.Reopen
import PsdVerif.Lemmas.TreeBasic
import PsdVerif.Lemmas.TreeParse

namespace PsdVerif.Reopen
open PsdVerif PsdVerif.Tree PsdVerif.TreeSt

/-! ### Pigeonhole: distinct naturals below `n` are at most `n` -/

theorem nodup_lt_length : ∀ (n : Nat) (l : List Nat), l.Nodup → (∀ x ∈ l, x < n) → l.length ≤ n := by
  intro n
  induction n with
  | zero =>
    intro l _ hb
    cases l with
    | nil => simp
    | cons a as => exact absurd (hb a (by simp)) (Nat.not_lt_zero _)
  | succ n ih =>
    intro l hn hb
    have h1 : (l.erase n).Nodup := hn.erase n
    have h2 : ∀ x ∈ l.erase n, x < n := by
      intro x hx
      have hx' := (hn.mem_erase_iff).mp hx
      have := hb x hx'.2
      omega
    have h3 := ih _ h1 h2
    have h4 : l.length ≤ (l.erase n).length + 1 := by
      rw [List.length_erase]
      split <;> omega
    omega

/-! ### The hypotheses of the save / reopen theorems -/

/-- What `save` needs beyond the invariant of the edit model: every group below the document `d`
has its bounding record (`_bounding_record is not None`). Every group made by `Group.new`,
`Group.group_layers`, `PSDImage._init` or `Artboard._move` has one, whatever is done to it afterwards
(no operation of the API resets it), so an environment with `bound x = some _` for every group
satisfies it in every state. -/
def DocOk (E : RecEnv) (s : State) (d : Id) : Prop :=
  ∀ g, Reach s d g → s.cont g = true → (E.bound g).isSome = true

/-- The records carry the divider blocks that go with the class of the object holding them:
a group's own record an OPEN / CLOSED_FOLDER divider (with an artboard key exactly for an
`Artboard`), its bounding record a BOUNDING_SECTION_DIVIDER, any other layer's record no divider
(or one of kind OTHER). True of the records `_init` attached (that is how the classes were chosen)
and of the records `Group.new` / `PixelLayer.frompil` make. -/
structure Classified (E : RecEnv) (s : State) (d : Id) : Prop where
  leaf : ∀ x, Reach s d x → s.cont x = false → reread E x = .leaf x
  closing : ∀ x, Reach s d x → s.cont x = true → reread E x = .closing x (isArtboard s x)
  bounding : ∀ x b, Reach s d x → s.cont x = true → E.bound x = some b → reread E b = .bounding b

/-! ### `flatList` -/

theorem flatList_ok (rec : Id → Except Err (List Rec)) (nd : Id → Node) (l : List Id)
    (h : ∀ x ∈ l, rec x = .ok (nd x).flatten) : flatList rec l = .ok (flatten (l.map nd)) := by
  induction l with
  | nil => rfl
  | cons x xs ih =>
    have hx := h x (by simp)
    have hxs := ih (fun y hy => h y (by simp [hy]))
    simp only [flatList, hx, hxs, List.map_cons, flatten]

/-! ### The fuel suffices -/

/-- the ancestors met on the way down are distinct live objects, all above `x` -/
structure Path (s : State) (anc : List Id) (x : Id) : Prop where
  nodup : anc.Nodup
  above : ∀ a ∈ anc, a < s.next ∧ Reach s a x
  live : x < s.next

theorem Path.child {s : State} (i : Inv s) {anc : List Id} {x c : Id} (p : Path s anc x) (hc : c ∈ s.children x) :
    Path s (x :: anc) c where
  nodup := by
    refine List.nodup_cons.mpr ⟨?_, p.nodup⟩
    intro hm
    exact i.no_cycle x (p.above x hm).2
  above := by
    intro a ha
    rcases List.mem_cons.mp ha with rfl | ha
    · exact ⟨p.live, .edge hc⟩
    · exact ⟨(p.above a ha).1, (p.above a ha).2.tail hc⟩
  live := (i.live x c hc).2

/-- a path of distinct live objects is no longer than the store -/
theorem Path.length_lt {s : State} (i : Inv s) {anc : List Id} {x : Id} (p : Path s anc x) :
    anc.length < s.next := by
  have hn : (x :: anc).Nodup := by
    refine List.nodup_cons.mpr ⟨?_, p.nodup⟩
    intro hm
    exact i.no_cycle x (p.above x hm).2
  have hb : ∀ y ∈ x :: anc, y < s.next := by
    intro y hy
    rcases List.mem_cons.mp hy with rfl | hy
    · exact p.live
    · exact (p.above y hy).1
  have := nodup_lt_length s.next _ hn hb
  simp only [List.length_cons] at this
  omega

/-- with `f` units of fuel left below `anc.length` ancestors and `next ≤ f + anc.length`, one more
unit changes nothing -/
theorem nodeF_stable {E : RecEnv} {s : State} (i : Inv s) :
    ∀ (f : Nat) (anc : List Id) (x : Id), Path s anc x → f + anc.length ≥ s.next →
      nodeF E s (f + 1) x = nodeF E s f x := by
  intro f
  induction f with
  | zero =>
    intro anc x p h
    have := p.length_lt i
    omega
  | succ f ih =>
    intro anc x p h
    rw [nodeF, nodeF]
    split
    · congr 1
      apply List.map_congr_left
      intro c hc
      exact ih (x :: anc) c (p.child i hc) (by simp only [List.length_cons]; omega)
    · rfl

/-- the fuel-free recursion equation of `nodeOf` -/
theorem nodeOf_unfold {E : RecEnv} {s : State} (i : Inv s) {x : Id} (hx : x < s.next) :
    nodeOf E s x =
      if s.cont x then .group x (boundId E x) (isArtboard s x) ((s.children x).map (nodeOf E s)) else .layer x := by
  unfold nodeOf
  obtain ⟨n, hn⟩ : ∃ n : Nat, n + 1 = s.next :=
    ⟨s.next - 1, Nat.sub_add_cancel (Nat.lt_of_le_of_lt (Nat.zero_le x) hx)⟩
  rw [← hn, nodeF]
  split
  · congr 1
    apply List.map_congr_left
    intro c hc
    have p : Path s [] x := ⟨List.nodup_nil, by simp, hx⟩
    exact (nodeF_stable i n [x] c (p.child i hc) (by simp only [List.length_cons, List.length_nil]; omega)).symm
  · rfl

theorem nodeOf_leaf {E : RecEnv} {s : State} (i : Inv s) {x : Id} (hx : x < s.next) (hc : s.cont x = false) :
    nodeOf E s x = .layer x := by
  rw [nodeOf_unfold i hx]; simp [hc]

theorem nodeOf_group {E : RecEnv} {s : State} (i : Inv s) {x : Id} (hx : x < s.next) (hc : s.cont x = true) :
    nodeOf E s x = .group x (boundId E x) (isArtboard s x) ((s.children x).map (nodeOf E s)) := by
  rw [nodeOf_unfold i hx]; simp [hc]

theorem nodeOf_id {E : RecEnv} {s : State} (i : Inv s) {x : Id} (hx : x < s.next) : (nodeOf E s x).id = x := by
  rw [nodeOf_unfold i hx]
  split <;> rfl

/-- the forest below a live node, fuel-free -/
theorem forestOf_children {E : RecEnv} {s : State} (i : Inv s) {x : Id} (hx : x < s.next) (hc : s.cont x = true) :
    nodeOf E s x = .group x (boundId E x) (isArtboard s x) (forestOf E s x) := nodeOf_group i hx hc

/-- `_build_record_tree` below `x` succeeds with enough fuel and emits the flattening of the node -/
theorem flatNodeF_ok {E : RecEnv} {s : State} (i : Inv s) :
    ∀ (f : Nat) (anc : List Id) (x : Id), Path s anc x → f + anc.length ≥ s.next →
      (∀ g, (g = x ∨ Reach s x g) → s.cont g = true → (E.bound g).isSome = true) →
      flatNodeF E s f x = .ok (nodeF E s f x).flatten := by
  intro f
  induction f with
  | zero =>
    intro anc x p h _
    have := p.length_lt i
    omega
  | succ f ih =>
    intro anc x p h hb
    rw [flatNodeF, nodeF]
    split
    · rename_i hc
      have hkids : flatList (flatNodeF E s f) (s.children x) =
          .ok (flatten ((s.children x).map (nodeF E s f))) := by
        apply flatList_ok
        intro c hcm
        apply ih (x :: anc) c (p.child i hcm) (by simp only [List.length_cons]; omega)
        intro g hg hgc
        apply hb g _ hgc
        rcases hg with rfl | hg
        · exact .inr (.edge hcm)
        · exact .inr (.step hcm hg)
      rw [hkids]
      have hbx := hb x (.inl rfl) hc
      cases hbd : E.bound x with
      | none => rw [hbd] at hbx; cases hbx
      | some b => simp only [boundId, hbd, Node.flatten]
    · rfl

/-- **`_build_record_tree` on the store is `flatten` on the forest.** -/
theorem flattenState_eq {E : RecEnv} {s : State} {d : Id} (i : Inv s) (ok : DocOk E s d) :
    flattenState E s d = .ok (flatten (forestOf E s d)) := by
  unfold flattenState forestOf nodeOf
  apply flatList_ok
  intro c hc
  have p : Path s [] c := ⟨List.nodup_nil, by simp, (i.live d c hc).2⟩
  apply flatNodeF_ok i s.next [] c p (by simp)
  intro g hg hgc
  apply ok g _ hgc
  rcases hg with rfl | hg
  · exact .edge hc
  · exact .step hc hg

/-! ### Induction along the listing relation -/

/-- a property that holds of a node whenever it holds of its children holds of every node -/
theorem Inv.below_induction {s : State} (i : Inv s) (P : Id → Prop)
    (h : ∀ x, (∀ c ∈ s.children x, P c) → P x) : ∀ x, P x := by
  obtain ⟨rk, hrk⟩ := i.acyclic
  have key : ∀ n x, rk x < n → P x := by
    intro n
    induction n with
    | zero => intro x hx; omega
    | succ n ih =>
      intro x hx
      apply h
      intro c hc
      apply ih
      have := hrk x c hc
      omega
  intro x
  exact key (rk x + 1) x (Nat.lt_succ_self _)

end PsdVerif.Reopen
