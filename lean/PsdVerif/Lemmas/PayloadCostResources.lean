/-
C06 — the costed codecs of Model/PayloadCostResources.lean ARE the codecs of Model/Payload3Resources.lean (`cc_c`, by
`rfl`) and are sound (`cc_sound`): the combinator-built ones by composing the `*_sound` lemmas of
Lemmas/PayloadCost2.lean, the hand-written `PrintFlags` and `ThumbnailResource` readers by erasure and the cost judgement.
-/
import PsdVerif.Model.PayloadCostResources
import PsdVerif.Lemmas.PayloadCostSimple

namespace PsdVerif.PayloadCost
open PsdVerif PsdVerif.Codec PsdVerif.PsdCost PsdVerif.Payload PsdVerif.Payload3 PsdVerif.Safe PsdVerif.SafeCost

/-! ## the flat classes -/

theorem AlphaIdentifiers.cc_c : AlphaIdentifiers.cc.c = AlphaIdentifiers.codec := rfl
theorem AlphaIdentifiers.cc_sound : AlphaIdentifiers.cc.Sound := CC.whileR_sound 4 1 (CC.fmt_sound _)

theorem AlphaNamesPascal.cc_c : AlphaNamesPascal.cc.c = AlphaNamesPascal.codec := rfl
theorem AlphaNamesPascal.cc_sound : AlphaNamesPascal.cc.Sound := CC.whileR_sound 1 1 (CC.pascal_sound 1 1)

theorem AlphaNamesUnicode.cc_c : AlphaNamesUnicode.cc.c = AlphaNamesUnicode.codec := rfl
theorem AlphaNamesUnicode.cc_sound : AlphaNamesUnicode.cc.Sound := CC.whileR_sound 1 1 CC.ustr_sound

theorem AlphaChannel.cc_c : AlphaChannel.cc.c = AlphaChannel.codec := rfl
theorem AlphaChannel.cc_sound : AlphaChannel.cc.Sound := CC.checked_sound (CC.fmt_sound _) _ _ (by decide)

theorem DisplayInfo.cc_c : DisplayInfo.cc.c = DisplayInfo.codec := rfl
theorem DisplayInfo.cc_sound : DisplayInfo.cc.Sound :=
  CC.seq_sound (CC.fmt_sound _) (CC.whileR_sound 13 1 AlphaChannel.cc_sound)

theorem ResByte.cc_c : ResByte.cc.c = Payload3.Byte.codec := rfl
theorem ResByte.cc_sound : ResByte.cc.Sound := CC.fmt_sound _

theorem GridGuidesInfo.cc_c : GridGuidesInfo.cc.c = GridGuidesInfo.codec := rfl
theorem GridGuidesInfo.cc_sound : GridGuidesInfo.cc.Sound :=
  CC.seq_sound (CC.fmt_sound _) (CC.counted_sound 4 (CC.fmt_sound _))

theorem HalftoneScreen.cc_c : HalftoneScreen.cc.c = HalftoneScreen.codec := rfl
theorem HalftoneScreen.cc_sound : HalftoneScreen.cc.Sound := CC.fmt_sound _

theorem HalftoneScreens.cc_c : HalftoneScreens.cc.c = HalftoneScreens.codec := rfl
theorem HalftoneScreens.cc_sound : HalftoneScreens.cc.Sound := CC.whileR_sound 18 1 HalftoneScreen.cc_sound

theorem ResInteger.cc_c : ResInteger.cc.c = Payload3.Integer.codec := rfl
theorem ResInteger.cc_sound : ResInteger.cc.Sound := CC.fmt_sound _

theorem LayerGroupEnabledIDs.cc_c : LayerGroupEnabledIDs.cc.c = LayerGroupEnabledIDs.codec := rfl
theorem LayerGroupEnabledIDs.cc_sound : LayerGroupEnabledIDs.cc.Sound := CC.whileR_sound 1 1 (CC.fmt_sound _)

theorem LayerGroupInfo.cc_c : LayerGroupInfo.cc.c = LayerGroupInfo.codec := rfl
theorem LayerGroupInfo.cc_sound : LayerGroupInfo.cc.Sound := CC.whileR_sound 2 1 (CC.fmt_sound _)

theorem LayerSelectionIDs.cc_c : LayerSelectionIDs.cc.c = LayerSelectionIDs.codec := rfl
theorem LayerSelectionIDs.cc_sound : LayerSelectionIDs.cc.Sound := CC.counted_sound 2 (CC.fmt_sound _)

theorem ResShortInteger.cc_c : ResShortInteger.cc.c = Payload3.ShortInteger.codec := rfl
theorem ResShortInteger.cc_sound : ResShortInteger.cc.Sound := CC.fmt_sound _

theorem PascalString.cc_c : PascalString.cc.c = PascalString.codec := rfl
theorem PascalString.cc_sound : PascalString.cc.Sound := CC.pascal_sound 1 2

theorem PixelAspectRatio.cc_c : PixelAspectRatio.cc.c = PixelAspectRatio.codec := rfl
theorem PixelAspectRatio.cc_sound : PixelAspectRatio.cc.Sound := CC.fmt_sound _

theorem PrintFlagsInfo.cc_c : PrintFlagsInfo.cc.c = PrintFlagsInfo.codec := rfl
theorem PrintFlagsInfo.cc_sound : PrintFlagsInfo.cc.Sound := CC.fmt_sound _

theorem PrintScale.cc_c : PrintScale.cc.c = PrintScale.codec := rfl
theorem PrintScale.cc_sound : PrintScale.cc.Sound := CC.checked_sound (CC.fmt_sound _) _ _ (by decide)

theorem ResolutionInfo.cc_c : ResolutionInfo.cc.c = ResolutionInfo.codec := rfl
theorem ResolutionInfo.cc_sound : ResolutionInfo.cc.Sound := CC.fmt_sound _

theorem TransferFunction.cc_c : TransferFunction.cc.c = TransferFunction.codec := rfl
theorem TransferFunction.cc_sound : TransferFunction.cc.Sound := CC.seq_sound (CC.fmt_sound _) (CC.fmt_sound _)

theorem TransferFunctions.cc_c : TransferFunctions.cc.c = TransferFunctions.codec := rfl
theorem TransferFunctions.cc_sound : TransferFunctions.cc.Sound := CC.whileR_sound 28 1 TransferFunction.cc_sound

theorem URLItem.cc_c : URLItem.cc.c = URLItem.codec := rfl
theorem URLItem.cc_sound : URLItem.cc.Sound := CC.seq_sound (CC.fmt_sound _) CC.ustr_sound

theorem URLList.cc_c : URLList.cc.c = URLList.codec := rfl
theorem URLList.cc_sound : URLList.cc.Sound := CC.counted_sound 4 URLItem.cc_sound

theorem VersionInfo.cc_c : VersionInfo.cc.c = VersionInfo.codec := rfl
theorem VersionInfo.cc_sound : VersionInfo.cc.Sound :=
  CC.seq_sound (CC.fmt_sound _) (CC.seq_sound CC.ustr_sound (CC.seq_sound CC.ustr_sound (CC.fmt_sound _)))

/-! ## PrintFlags -/

theorem PrintFlags.decC_fst (d : B) (p : Nat) : (PrintFlags.decC d p).1 = PrintFlags.dec d p := by
  unfold PrintFlags.decC PrintFlags.dec
  refine erase_bind (fmtDecC_fst ..) fun ⟨fl, p⟩ => ?_
  dsimp only
  refine erase_ok (isReadableC_fst 1 d p) ?_
  split
  · refine erase_bind (fmtDecC_fst ..) fun ⟨pf, p⟩ => ?_
    rfl
  · rfl

theorem PrintFlags.decC_cost : CostR 1 4 8 PrintFlags.decC := by
  intro d p hp
  apply Cost.mono
  case h =>
    unfold PrintFlags.decC
    cbind (fmtDecC_cost PrintFlags.fmt8)
    apply Cost.step (n := 2)
    case hm => rw [isReadableC_w']; omega
    case hne => intro h; cases h
    case hf =>
      intro r _
      cif
      · cbind (fmtDecC_cost [Q])
        cdone
      · cdone
  cside

theorem PrintFlags.cc_c : PrintFlags.cc.c = PrintFlags.codec := rfl
theorem PrintFlags.cc_sound : PrintFlags.cc.Sound := CC.hand_sound PrintFlags.decC_fst PrintFlags.decC_cost

/-! ## ThumbnailResource -/

theorem Thumbnail.decC_fst (d : B) (p : Nat) : (Thumbnail.decC d p).1 = Thumbnail.dec d p := by
  unfold Thumbnail.decC Thumbnail.dec
  refine erase_bind (fmtDecC_fst ..) fun ⟨h, p⟩ => ?_
  refine erase_bind (readUC_fst ..) fun ⟨size, p⟩ => ?_
  refine erase_bind (fmtDecC_fst ..) fun ⟨t, p⟩ => ?_
  refine erase_bind (readSizedC_fst ..) fun ⟨data, p⟩ => ?_
  rfl

theorem Thumbnail.decC_cost : CostR 1 4 28 Thumbnail.decC := by
  intro d p hp
  apply Cost.mono
  case h =>
    unfold Thumbnail.decC
    cbind (fmtDecC_cost Thumbnail.headFmt)
    cbind (readUC_cost 4)
    cbind (fmtDecC_cost Thumbnail.tailFmt)
    cbind (readSizedC_cost _)
    cdone
  cside

theorem Thumbnail.cc_c : Thumbnail.cc.c = Thumbnail.codec := rfl
theorem Thumbnail.cc_sound : Thumbnail.cc.Sound := CC.hand_sound Thumbnail.decC_fst Thumbnail.decC_cost

/-! ## the table of the unit -/

def resourcesTable : List (String × Sh) := [
  ("AlphaIdentifiers", AlphaIdentifiers.cc.sh),
  ("AlphaNamesPascal", AlphaNamesPascal.cc.sh),
  ("AlphaNamesUnicode", AlphaNamesUnicode.cc.sh),
  ("AlphaChannel", AlphaChannel.cc.sh),
  ("DisplayInfo", DisplayInfo.cc.sh),
  ("Byte", ResByte.cc.sh),
  ("GridGuidesInfo", GridGuidesInfo.cc.sh),
  ("HalftoneScreen", HalftoneScreen.cc.sh),
  ("HalftoneScreens", HalftoneScreens.cc.sh),
  ("Integer", ResInteger.cc.sh),
  ("LayerGroupEnabledIDs", LayerGroupEnabledIDs.cc.sh),
  ("LayerGroupInfo", LayerGroupInfo.cc.sh),
  ("LayerSelectionIDs", LayerSelectionIDs.cc.sh),
  ("ShortInteger", ResShortInteger.cc.sh),
  ("PascalString", PascalString.cc.sh),
  ("PixelAspectRatio", PixelAspectRatio.cc.sh),
  ("PrintFlags", PrintFlags.cc.sh),
  ("PrintFlagsInfo", PrintFlagsInfo.cc.sh),
  ("PrintScale", PrintScale.cc.sh),
  ("ResoulutionInfo", ResolutionInfo.cc.sh),
  ("ThumbnailResource", Thumbnail.cc.sh),
  ("ThumbnailResourceV4", Thumbnail.cc.sh),
  ("TransferFunction", TransferFunction.cc.sh),
  ("TransferFunctions", TransferFunctions.cc.sh),
  ("URLItem", URLItem.cc.sh),
  ("URLList", URLList.cc.sh),
  ("VersionInfo", VersionInfo.cc.sh)]

theorem resources_body_progress : resourcesTable.all (fun e => e.2.bodyProgress) = true := by decide

end PsdVerif.PayloadCost
