/-
The viewport does not matter at a pixel, for effect-carrying trees (`Model/CompositeFx.lean`): fills,
vector masks, the vector stroke, overlay effects — and stroke effects as long as what is drawn for them
does not depend on the viewport (`fxNodeConst`; on the real code it does: known finding of C13).
-/
import PsdVerif.Lemmas.CompositeFx

namespace PsdVerif.Composite

/-! ### the pieces do not depend on the viewport -/

theorem maskFactorsFx_view (force : Bool) (pr : Props) (fx : Fx) (V' V : Rect) (x y : Int)
    (h' : V'.contains x y = true) (h : V.contains x y = true) :
    maskFactorsFx force pr fx V' x y = maskFactorsFx force pr fx V x y := by
  unfold maskFactorsFx vmaskFactor
  rw [maskFactors_view pr V' V x y h' h, pasteAt_eq V' _ x y h', pasteAt_eq V _ x y h]

theorem overlayShape_view (V' V bbox : Rect) (x y : Int) (h' : V'.contains x y = true) (h : V.contains x y = true)
    (e : Overlay) : overlayShape V' bbox x y e = overlayShape V bbox x y e := by
  unfold overlayShape
  rw [pasteAt_eq V' _ x y h', pasteAt_eq V _ x y h]

theorem leafColor_view (force : Bool) (V' V : Rect) (x y : Int) (h' : V'.contains x y = true) (h : V.contains x y = true)
    (pr : Props) (fx : Fx) (src : ObjSrc) : leafColor force V' x y pr fx src = leafColor force V x y pr fx src := by
  unfold leafColor
  rw [pasteAt_eq V' _ x y h', pasteAt_eq V _ x y h, pasteAt_eq V' _ x y h', pasteAt_eq V _ x y h]

theorem leafShape_view (force : Bool) (V' V : Rect) (x y : Int) (h' : V'.contains x y = true) (h : V.contains x y = true)
    (pr : Props) (fx : Fx) (src : ObjSrc) : leafShape force V' x y pr fx src = leafShape force V x y pr fx src := by
  unfold leafShape
  rw [pasteAt_eq V' _ x y h', pasteAt_eq V _ x y h, pasteAt_eq V' _ x y h', pasteAt_eq V _ x y h]

theorem strokeObject_view (B : Mode → Color → Color → Color) (V' V : Rect) (x y : Int) (h' : V'.contains x y = true)
    (h : V.contains x y = true) (color : Color) (alpha : Rat) (s : Option VStroke) :
    strokeObject B V' x y color alpha s = strokeObject B V x y color alpha s := by
  cases s with
  | none => rfl
  | some s =>
    simp only [strokeObject, pasteAt_eq V' _ x y h', pasteAt_eq V _ x y h]

/-- what is drawn for the stroke effects does not depend on the viewport -/
def strokeFxConst (fx : Fx) : Prop := ∀ s ∈ fx.strokeFx, ∀ V V', s.shape V = s.shape V'

mutual
def fxNodeConst : FxNode → Prop
  | .leaf _ fx _ _ clips => strokeFxConst fx ∧ fxListConst clips
  | .group _ fx _ children clips => strokeFxConst fx ∧ fxListConst children ∧ fxListConst clips
  | .adjustment _ => True
def fxListConst : List FxNode → Prop
  | [] => True
  | n :: ns => fxNodeConst n ∧ fxListConst ns
end

theorem applyOverlays_sim (B : Mode → Color → Color → Color) (V₁ V₂ bbox : Rect) (x y : Int)
    (h₁ : V₁.contains x y = true) (h₂ : V₂.contains x y = true) (shape alpha : Rat) {s t : PState} (h : Sim s t)
    (es : List Overlay) :
    Sim (applyOverlays B V₁ bbox x y shape alpha s es) (applyOverlays B V₂ bbox x y shape alpha t es) := by
  induction es generalizing s t with
  | nil => exact h
  | cons e es ih =>
    unfold applyOverlays
    simp only [overlayShape_view V₁ V₂ bbox x y h₁ h₂ e]
    rw [pasteAt_eq V₁ _ x y h₁, pasteAt_eq V₂ _ x y h₂]
    exact ih (applySource_sim (B e.mode) h (fun _ => rfl) false)

theorem applyStrokeFx_sim (B : Mode → Color → Color → Color) (V₁ V₂ bbox : Rect) (x y : Int) (lop : Rat)
    (h₁ : V₁.contains x y = true) (h₂ : V₂.contains x y = true) {s t : PState} (h : Sim s t)
    (ss : List StrokeFx) (hc : ∀ f ∈ ss, ∀ V V', f.shape V = f.shape V') :
    Sim (applyStrokeFx B V₁ bbox x y lop s ss) (applyStrokeFx B V₂ bbox x y lop t ss) := by
  induction ss generalizing s t with
  | nil => exact h
  | cons f ss ih =>
    unfold applyStrokeFx
    rw [hc f (List.mem_cons_self ..) V₁ V₂]
    rw [pasteAt_eq V₁ _ x y h₁, pasteAt_eq V₂ _ x y h₂, pasteAt_eq V₁ _ x y h₁, pasteAt_eq V₂ _ x y h₂]
    exact ih (applySource_sim (B f.mode) h (fun _ => rfl) false) (fun g hg => hc g (List.mem_cons_of_mem _ hg))

theorem finishFx_sim (B : Mode → Color → Color → Color) (force : Bool) (V₁ V₂ : Rect) (x y : Int)
    (h₁ : V₁.contains x y = true) (h₂ : V₂.contains x y = true) {s t : PState} (h : Sim s t) (pr : Props) (fx : Fx)
    (hconst : strokeFxConst fx) {color color' : Color} {shape alpha : Rat} (hc : alpha ≠ 0 → color = color') :
    Sim (finishFx B force V₁ x y s pr fx color shape alpha) (finishFx B force V₂ x y t pr fx color' shape alpha) := by
  unfold finishFx
  rw [maskFactorsFx_view force pr fx V₁ V₂ x y h₁ h₂]
  apply applyStrokeFx_sim B V₁ V₂ pr.bbox x y pr.opacity h₁ h₂ _ _ hconst
  apply applyOverlays_sim B V₁ V₂ pr.bbox x y h₁ h₂
  apply applySource_sim (B pr.mode) h
  intro hne
  apply hc
  intro h0
  apply hne
  rw [h0]; ring

/-! ### a layer that does not cover the pixel -/

theorem applySrcs_zero_sim (B : Mode → Color → Color → Color) {st : PState} (hst : Inv st) (ss : List PSrc)
    (hok : ∀ s ∈ ss, s.Ok) (hz : ∀ s ∈ ss, s.shape = 0 ∧ s.alpha = 0) : Sim (applySrcs B st ss) st := by
  induction ss generalizing st with
  | nil => exact Sim.refl st
  | cons s ss ih =>
    have h1 := hok s (List.mem_cons_self ..)
    obtain ⟨z1, z2⟩ := hz s (List.mem_cons_self ..)
    have hstep : Sim (applySource (B s.mode) st s.color s.shape s.alpha s.ko) st := by
      rw [z1, z2]; exact applySource_zero_sim _ st hst _ _
    have hinv := applySource_inv (bl := B s.mode) hst h1 s.ko
    unfold applySrcs
    exact (ih hinv (fun t ht => hok t (List.mem_cons_of_mem _ ht)) (fun t ht => hz t (List.mem_cons_of_mem _ ht))).trans hstep

/-- with a zero object at a pixel the layer's box does not cover, every source of the layer is zero -/
theorem finishFx_zero_sim (B : Mode → Color → Color → Color) (force : Bool) (V : Rect) (x y : Int) (hV : V.contains x y = true)
    {st : PState} (hst : Inv st) {pr : Props} {fx : Fx} (hp : PropsOk pr) (hf : FxOk fx) {color : Color} (hc : ColorOk color)
    (hout : pr.bbox.contains x y = false) :
    Sim (finishFx B force V x y st pr fx color 0 0) st := by
  rw [finishFx_eq]
  apply applySrcs_zero_sim B hst
  · intro s hs
    rcases List.mem_cons.1 hs with rfl | h
    · exact ownSrc_ok force hp hf V x y hc (le_refl _) (le_refl _) (by norm_num)
    · exact fxSrcs_ok force hp hf V x y (le_refl _) (le_refl _) (by norm_num) s h
  · intro s hs
    rcases List.mem_cons.1 hs with rfl | h
    · simp [ownSrc, maskedShape, maskedAlpha]
    · unfold fxSrcs at h
      rcases List.mem_append.1 h with h | h
      · obtain ⟨e, _, rfl⟩ := List.mem_map.1 h
        simp [overlaySrc, maskedShape, maskedAlpha]
      · obtain ⟨f, _, rfl⟩ := List.mem_map.1 h
        simp [strokeFxSrc, pasteAt_eq V _ x y hV, hout]

theorem leafShape_outside (force : Bool) (V : Rect) (x y : Int) (hV : V.contains x y = true) (pr : Props) (fx : Fx)
    (src : ObjSrc) (hout : pr.bbox.contains x y = false) : leafShape force V x y pr fx src = 0 := by
  unfold leafShape
  rw [pasteAt_eq V _ x y hV, pasteAt_eq V _ x y hV]
  simp [hout]

/-- **Skipped or applied, an effect-carrying layer that does not cover the pixel is invisible there.** -/
theorem applyFxNode_outside_sim (B : Mode → Color → Color → Color) (force : Bool) (V : Rect) (x y : Int)
    (hV : V.contains x y = true) (cc : Bool) (st : PState) (hst : Inv st) (n : FxNode) (hn : fxNodeOk n)
    (hout : n.props.bbox.contains x y = false) :
    Sim (applyFxNode B force V x y cc st n) st := by
  cases n with
  | adjustment pr => unfold applyFxNode; exact Sim.refl st
  | leaf pr fx src stroke clips =>
    obtain ⟨hp, hf, hsrc, _, hcl⟩ := hn
    simp only [FxNode.props] at hout
    unfold applyFxNode
    split; · exact Sim.refl st
    split; · exact Sim.refl st
    split; · exact Sim.refl st
    simp only [leafShape_outside force V x y hV pr fx src hout]
    apply finishFx_zero_sim B force V x y hV hst hp hf _ hout
    apply strokeObject_ok
    have hc0 := leafColor_ok force V x y pr fx hsrc
    split
    · exact hc0
    · exact (applyFxClips_inv B force V x y _ (inv_init hc0 unit01_zero false) clips hcl).c
  | group pr fx passThrough children clips =>
    obtain ⟨hp, hf, hch, hcl⟩ := hn
    simp only [FxNode.props] at hout
    have hin : (intersect V pr.bbox).contains x y = false := by
      by_cases hz : intersect V pr.bbox = Rect.zero
      · rw [hz]; exact contains_zero x y
      · rw [contains_intersect hz, hout, Bool.and_false]
    unfold applyFxNode
    split; · exact Sim.refl st
    split; · exact Sim.refl st
    split; · exact Sim.refl st
    simp only [hin, Bool.false_eq_true, if_false]
    apply finishFx_zero_sim B force V x y hV hst hp hf _ hout
    split
    · exact white_ok
    · exact (applyFxClips_inv B force V x y _ (inv_init white_ok unit01_zero false) clips hcl).c

/-! ### the viewport does not matter at a pixel -/

mutual
theorem applyFxNode_sim (B : Mode → Color → Color → Color) (force : Bool) (V₁ V₂ : Rect) (x y : Int)
    (h₁ : V₁.contains x y = true) (h₂ : V₂.contains x y = true) (cc : Bool) (s t : PState)
    (hs : Sim s t) (is : Inv s) (it : Inv t) :
    (n : FxNode) → fxNodeOk n → fxNodeConst n →
      Sim (applyFxNode B force V₁ x y cc s n) (applyFxNode B force V₂ x y cc t n)
  | .adjustment _, _, _ => by unfold applyFxNode; exact hs
  | .leaf pr fx src stroke clips, hn, hk => by
    obtain ⟨hp, hf, hsrc, hstk, hcl⟩ := hn
    obtain ⟨hkf, hkc⟩ := hk
    by_cases hb : pr.bbox.contains x y = true
    · have z₁ := intersect_ne_zero_of_contains h₁ hb
      have z₂ := intersect_ne_zero_of_contains h₂ hb
      unfold applyFxNode
      simp only [z₁, z₂, if_false]
      by_cases hv : (!pr.visible) = true
      · simp only [hv, if_true]; exact hs
      · simp only [hv, Bool.false_eq_true, if_false]
        by_cases hk : (!cc && pr.clipping && pr.hasClipTarget) = true
        · simp only [hk, if_true]; exact hs
        · simp only [hk, Bool.false_eq_true, if_false]
          rw [leafColor_view force V₁ V₂ x y h₁ h₂, leafShape_view force V₁ V₂ x y h₁ h₂,
            strokeObject_view B V₁ V₂ x y h₁ h₂]
          have hc0 := leafColor_ok force V₂ x y pr fx hsrc
          have hs0 := leafShape_unit force V₂ x y pr fx hsrc
          apply finishFx_sim B force V₁ V₂ x y h₁ h₂ hs pr fx hkf
          intro hne
          by_cases he : clips.isEmpty = true
          · simp only [he, if_true]
          · simp only [he, Bool.false_eq_true, if_false]
            have i0 := inv_init hc0 hs0 false
            have hsim := applyFxClips_sim B force V₁ V₂ x y h₁ h₂ _ _ (Sim.refl _) i0 i0 clips hcl hkc
            have hi2 := applyFxClips_inv B force V₂ x y _ i0 clips hcl
            have : (applyFxClips B force V₁ x y (PState.init (leafColor force V₂ x y pr fx src) (leafShape force V₂ x y pr fx src) false) clips).c
                = (applyFxClips B force V₂ x y (PState.init (leafColor force V₂ x y pr fx src) (leafShape force V₂ x y pr fx src) false) clips).c := by
              apply hsim.c
              apply a_ne_zero_of_a0 hi2
              rw [applyFxClips_a0]
              simpa [PState.init] using hne
            rw [this]
    · have hb' : pr.bbox.contains x y = false := by simpa using hb
      have e₁ := applyFxNode_outside_sim B force V₁ x y h₁ cc s is (.leaf pr fx src stroke clips)
        ⟨hp, hf, hsrc, hstk, hcl⟩ (by simpa [FxNode.props] using hb')
      have e₂ := applyFxNode_outside_sim B force V₂ x y h₂ cc t it (.leaf pr fx src stroke clips)
        ⟨hp, hf, hsrc, hstk, hcl⟩ (by simpa [FxNode.props] using hb')
      exact (e₁.trans hs).trans e₂.symm
  | .group pr fx passThrough children clips, hn, hk => by
    obtain ⟨hp, hf, hch, hcl⟩ := hn
    obtain ⟨hkf, hkch, hkc⟩ := hk
    by_cases hb : pr.bbox.contains x y = true
    · have z₁ := intersect_ne_zero_of_contains h₁ hb
      have z₂ := intersect_ne_zero_of_contains h₂ hb
      have in₁ : (intersect V₁ pr.bbox).contains x y = true := by rw [contains_intersect z₁, h₁, hb]; rfl
      have in₂ : (intersect V₂ pr.bbox).contains x y = true := by rw [contains_intersect z₂, h₂, hb]; rfl
      unfold applyFxNode
      simp only [z₁, z₂, if_false]
      by_cases hv : (!pr.visible) = true
      · simp only [hv, if_true]; exact hs
      · simp only [hv, Bool.false_eq_true, if_false]
        by_cases hk : (!cc && pr.clipping && pr.hasClipTarget) = true
        · simp only [hk, if_true]; exact hs
        · simp only [hk, Bool.false_eq_true, if_false, in₁, in₂, if_true]
          have hcb : ColorOk (if pr.knockout = true then s.c0 else s.c) := by split; exact is.c0; exact is.c
          have hcb' : ColorOk (if pr.knockout = true then t.c0 else t.c) := by split; exact it.c0; exact it.c
          have hab' : Unit01 (if pr.knockout = true then t.a0 else t.a) := by split; exact it.a0; exact it.a
          have eab : (if pr.knockout = true then s.a0 else s.a) = (if pr.knockout = true then t.a0 else t.a) := by
            split; exact hs.a0; exact hs.a
          rw [eab]
          have hinit : Sim (PState.init (if pr.knockout = true then s.c0 else s.c) (if pr.knockout = true then t.a0 else t.a) (!passThrough))
              (PState.init (if pr.knockout = true then t.c0 else t.c) (if pr.knockout = true then t.a0 else t.a) (!passThrough)) := by
            apply init_sim
            intro hne
            by_cases hko : pr.knockout = true
            · simp only [hko, if_true] at hne ⊢; exact hs.c0 hne
            · simp only [hko, Bool.false_eq_true, if_false] at hne ⊢; exact hs.c hne
          have i₁ := inv_init hcb hab' (!passThrough)
          have i₂ := inv_init hcb' hab' (!passThrough)
          have hsub := applyFxList_sim B force (intersect V₁ pr.bbox) (intersect V₂ pr.bbox) x y in₁ in₂ _ _ hinit i₁ i₂
            children hch hkch
          have is₂ := applyFxList_inv B force (intersect V₂ pr.bbox) x y _ i₂ children hch
          rw [hsub.sg, hsub.ag]
          apply finishFx_sim B force V₁ V₂ x y h₁ h₂ hs pr fx hkf
          intro hne
          have hfc := finishColor_sim hsub is₂ hne
          by_cases he : clips.isEmpty = true
          · simp only [he, if_true]; exact hfc
          · simp only [he, Bool.false_eq_true, if_false]
            rw [hfc]
            have i0 := inv_init (color := finishColor (applyFxList B force (intersect V₂ pr.bbox) x y (PState.init (if pr.knockout = true then t.c0 else t.c) (if pr.knockout = true then t.a0 else t.a) (!passThrough)) children)) (fun ch => clip_unit _) is₂.ag false
            have hsim := applyFxClips_sim B force V₁ V₂ x y h₁ h₂ _ _ (Sim.refl _) i0 i0 clips hcl hkc
            have hi2 := applyFxClips_inv B force V₂ x y _ i0 clips hcl
            apply hsim.c
            apply a_ne_zero_of_a0 hi2
            rw [applyFxClips_a0]
            simpa [PState.init] using hne
    · have hb' : pr.bbox.contains x y = false := by simpa using hb
      have e₁ := applyFxNode_outside_sim B force V₁ x y h₁ cc s is (.group pr fx passThrough children clips)
        ⟨hp, hf, hch, hcl⟩ (by simpa [FxNode.props] using hb')
      have e₂ := applyFxNode_outside_sim B force V₂ x y h₂ cc t it (.group pr fx passThrough children clips)
        ⟨hp, hf, hch, hcl⟩ (by simpa [FxNode.props] using hb')
      exact (e₁.trans hs).trans e₂.symm

theorem applyFxList_sim (B : Mode → Color → Color → Color) (force : Bool) (V₁ V₂ : Rect) (x y : Int)
    (h₁ : V₁.contains x y = true) (h₂ : V₂.contains x y = true) (s t : PState)
    (hs : Sim s t) (is : Inv s) (it : Inv t) :
    (ns : List FxNode) → fxListOk ns → fxListConst ns →
      Sim (applyFxList B force V₁ x y s ns) (applyFxList B force V₂ x y t ns)
  | [], _, _ => by unfold applyFxList; exact hs
  | n :: rest, h, hk => by
    unfold applyFxList
    exact applyFxList_sim B force V₁ V₂ x y h₁ h₂ _ _ (applyFxNode_sim B force V₁ V₂ x y h₁ h₂ false s t hs is it n h.1 hk.1)
      (applyFxNode_inv B force V₁ x y false s is n h.1) (applyFxNode_inv B force V₂ x y false t it n h.1) rest h.2 hk.2

theorem applyFxClips_sim (B : Mode → Color → Color → Color) (force : Bool) (V₁ V₂ : Rect) (x y : Int)
    (h₁ : V₁.contains x y = true) (h₂ : V₂.contains x y = true) (s t : PState)
    (hs : Sim s t) (is : Inv s) (it : Inv t) :
    (ns : List FxNode) → fxListOk ns → fxListConst ns →
      Sim (applyFxClips B force V₁ x y s ns) (applyFxClips B force V₂ x y t ns)
  | [], _, _ => by unfold applyFxClips; exact hs
  | n :: rest, h, hk => by
    unfold applyFxClips
    exact applyFxClips_sim B force V₁ V₂ x y h₁ h₂ _ _ (applyFxNode_sim B force V₁ V₂ x y h₁ h₂ true s t hs is it n h.1 hk.1)
      (applyFxNode_inv B force V₁ x y true s is n h.1) (applyFxNode_inv B force V₂ x y true t it n h.1) rest h.2 hk.2
end

end PsdVerif.Composite
