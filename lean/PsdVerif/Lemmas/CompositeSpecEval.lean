/-
The tabulating evaluator of `Model/CompositeSpecEval.lean` is the published model (`Model/CompositeSpec.lean`).
-/
import PsdVerif.Model.CompositeSpecEval
import PsdVerif.Lemmas.CompositeEval

namespace PsdVerif.Composite

theorem fzS_eq (n : Nat) (σ : SState) : fzS n σ = σ := by
  unfold fzS
  simp only [lookup_tab]

theorem fzC_eq (n : Nat) (c : Color) : fzC n c = c := by
  unfold fzC
  simp only [lookup_tab]

mutual

theorem specNodeF_eq (r : KoRule) (k : Nat) (B : Mode → Color → Color → Color) (V : Rect) (x y : Int) (cc : Bool) (σ : SState) :
    (n : Node) → specNodeF r k B V x y cc σ n = specNode r B V x y cc σ n
  | .leaf pr hasPixels color shape clips => by
    unfold specNodeF specNode
    simp only [fzS_eq, fzC_eq, specClipsF_eq r k B V x y _ clips]
  | .group pr passThrough children clips => by
    unfold specNodeF specNode
    simp only [fzS_eq, fzC_eq, specClipsF_eq r k B V x y _ clips, specListF_eq r k B _ x y _ children]

theorem specListF_eq (r : KoRule) (k : Nat) (B : Mode → Color → Color → Color) (V : Rect) (x y : Int) (σ : SState) :
    (ns : List Node) → specListF r k B V x y σ ns = specList r B V x y σ ns
  | [] => by unfold specListF specList; rfl
  | n :: rest => by
    unfold specListF specList
    rw [specNodeF_eq r k B V x y false σ n, specListF_eq r k B V x y _ rest]

theorem specClipsF_eq (r : KoRule) (k : Nat) (B : Mode → Color → Color → Color) (V : Rect) (x y : Int) (σ : SState) :
    (ns : List Node) → specClipsF r k B V x y σ ns = specClips r B V x y σ ns
  | [] => by unfold specClipsF specClips; rfl
  | n :: rest => by
    unfold specClipsF specClips
    rw [specNodeF_eq r k B V x y true σ n, specClipsF_eq r k B V x y _ rest]

end

theorem specDocF_eq (r : KoRule) (k : Nat) (B : Mode → Color → Color → Color) (V : Rect) (x y : Int) (P : Color)
    (alpha : Rat) (layers : List Node) :
    specDocF r k B V x y P alpha layers = specDoc r B V x y P alpha layers := by
  unfold specDocF specDoc
  simp only [fzS_eq, specListF_eq]

end PsdVerif.Composite
