import PsdVerif.Model.ClipCompositor

namespace PsdVerif.ClipComp

theorem Box.spans_refl (a : Box) : a.spans a := by
  simp [Box.spans]

theorem Box.join_spans_left (a x y : Box) (h : a.spans y) : (a.join x).spans y := by
  simp only [Box.spans, Box.join] at *
  omega

theorem Box.join_spans_right (a x : Box) : (a.join x).spans x := by
  simp only [Box.spans, Box.join]
  omega

theorem foldl_spans_acc (xs : List Box) (a y : Box) (h : a.spans y) : (xs.foldl Box.join a).spans y := by
  induction xs generalizing a with
  | nil => exact h
  | cons x xs ih => exact ih _ (Box.join_spans_left a x y h)

theorem foldl_spans_mem (xs : List Box) (a y : Box) (h : y ∈ xs) : (xs.foldl Box.join a).spans y := by
  induction xs generalizing a with
  | nil => cases h
  | cons x xs ih =>
    cases h with
    | head => exact foldl_spans_acc xs _ _ (Box.join_spans_right a _)
    | tail _ h' => exact ih _ h'

theorem unionBoxes_spans (bs : List Box) (x : Box) (hx : x ∈ bs) (hz : x ≠ Box.zero) :
    (unionBoxes bs).spans x := by
  have hm : x ∈ bs.filter (fun b => b != Box.zero) := by
    simp [List.mem_filter, hx, hz]
  unfold unionBoxes
  cases hf : bs.filter (fun b => b != Box.zero) with
  | nil => rw [hf] at hm; cases hm
  | cons b rest =>
    rw [hf] at hm
    simp only
    cases hm with
    | head => exact foldl_spans_acc rest _ _ (Box.spans_refl _)
    | tail _ h' => exact foldl_spans_mem rest b x h'

end PsdVerif.ClipComp
