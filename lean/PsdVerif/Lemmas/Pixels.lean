/-
Helper lemmas for C07 (band bookkeeping): explicit forms of short lists, the two
"core" round trips (document, layer after conversion) by case split over the mode,
index arithmetic of Python indexing.
Core Lean only.
-/
import PsdVerif.Model.Pixels
set_option linter.unusedSimpArgs false

namespace PsdVerif.Pixels
variable {α σ : Type}

theorem len1 {β : Type} {l : List β} (h : l.length = 1) : ∃ a, l = [a] := by
  match l, h with
  | [a], _ => exact ⟨a, rfl⟩
theorem len2 {β : Type} {l : List β} (h : l.length = 2) : ∃ a b, l = [a, b] := by
  match l, h with
  | [a, b], _ => exact ⟨a, b, rfl⟩
theorem len3 {β : Type} {l : List β} (h : l.length = 3) : ∃ a b c, l = [a, b, c] := by
  match l, h with
  | [a, b, c], _ => exact ⟨a, b, c, rfl⟩
theorem len4 {β : Type} {l : List β} (h : l.length = 4) : ∃ a b c d, l = [a, b, c, d] := by
  match l, h with
  | [a, b, c, d], _ => exact ⟨a, b, c, d, rfl⟩

macro "doc_simp" : tactic => `(tactic|
  simp [docImport, exportDocPil, exportDocNumpy, pilDocRoutes, numpyDocRoutes, makeHeader, Meta.hasPreview,
      Meta.hasTransparency, Mode.cmode, CMode.channels, CMode.expected, Mode.hasAlpha, CMode.pilMode,
      Mode.pilChannels, Mode.nbands, applyRoutes, traverse, Route.apply, Px.view, Function.comp_def,
      List.range, List.range.loop, Meta.transparencyIndex, firstZero, pyIndex, Image.invert])

/-- laws at every depth give the laws at each depth -/
theorem Px.Lawful.at {P : Px α σ} (h : P.Lawful) (d : Nat) : P.LawfulAt d :=
  ⟨h.inv_inv, h.load_store d⟩

/-- `topil()` of a freshly imported document, for an image that needs no normalisation -/
theorem doc_core (C : Pil α) (P : Px α σ) (hP : P.LawfulAt 8) (img : Image α) (hwf : img.WF)
    (h1 : img.mode ≠ .one) (h2 : img.mode ≠ .RGBA) :
    exportDocPil P (docImport C P img).1 (docImport C P img).2 = .ok (some img) := by
  have hls := hP.load_store
  have hii := hP.inv_inv
  obtain ⟨mode, w, h, bands⟩ := img
  obtain ⟨hl, _⟩ := hwf
  cases mode <;> simp only [Mode.nbands] at hl
  · exact absurd rfl h1
  · obtain ⟨a, rfl⟩ := len1 hl
    doc_simp; simp [hls]
  · obtain ⟨a, b, rfl⟩ := len2 hl
    doc_simp; simp [hls]
  · obtain ⟨a, b, c, rfl⟩ := len3 hl
    doc_simp; simp [hls]
  · exact absurd rfl h2
  · obtain ⟨a, b, c, d, rfl⟩ := len4 hl
    doc_simp; simp [hls, hii]

/-- `topil()` of a freshly imported RGBA document: the white background is "removed" from
colour planes that were stored as they came. -/
theorem doc_core_rgba (C : Pil α) (P : Px α σ) (hP : P.LawfulAt 8) (w h : Nat) (r g b a : List α) :
    let img : Image α := { mode := .RGBA, width := w, height := h, bands := [r, g, b, a] }
    exportDocPil P (docImport C P img).1 (docImport C P img).2 = .ok (some
      { img with bands := [List.zipWith P.unmatte r a, List.zipWith P.unmatte g a,
                           List.zipWith P.unmatte b a, a] }) := by
  have hls := hP.load_store
  doc_simp; simp [hls]

macro "lay_simp" : tactic => `(tactic|
  simp [layerOfConverted, exportLayerPil, exportLayerAlpha, exportLayerNumpy, pilLayerRoutes, numpyLayerRoutes,
      pilLayerAlphaRoute, lastIndexOf, lastIndexOf.go, indicesWhere, layerPilMode,
      Mode.cmode, CMode.channels, CMode.expected, Mode.hasAlpha, CMode.pilMode, Mode.pilChannels, Mode.base,
      Mode.nbands, applyRoutes, traverse, Route.apply, Px.view, Function.comp_def, getBand,
      List.range, List.range.loop, Image.invert, Except.map])

/-- export ∘ (the layer import after the conversion), for a converted image of a mode the
document can have -/
theorem layer_converted (P : Px α σ) (hdr : Header) (hP : P.LawfulAt hdr.depth) (alpha : Option (List α)) (j : Image α) (hj : j.WF)
    (hb : hdr.cmode ≠ .bitmap) (al : Bool) (hm : j.mode = hdr.cmode.pilMode al)
    (top left : Int) :
    ∃ l, layerOfConverted P alpha j hdr.depth top left = .ok l ∧
      (l.top, l.left, l.bottom, l.right) = (top, left, top + j.height, left + j.width) ∧
      exportLayerPil P hdr l = .ok
        { mode := layerPilMode hdr.cmode, width := j.width, height := j.height,
          bands := j.bands.take hdr.cmode.channels ++
            (if hdr.cmode = .cmyk then [] else
              [alpha.getD (List.replicate (j.width * j.height) P.full)]) } ∧
      exportLayerAlpha P hdr l =
        .ok (some (alpha.getD (List.replicate (j.width * j.height) P.full))) := by
  have hls := hP.load_store
  have hii := hP.inv_inv
  obtain ⟨jm, jw, jh, jb⟩ := j
  obtain ⟨cm, ch, dp, dw, dh⟩ := hdr
  obtain ⟨hjl, _⟩ := hj
  simp only at hm hjl
  subst hm
  cases cm
  · exact absurd rfl hb
  · cases al <;> simp only [CMode.pilMode, Mode.nbands] at hjl
    · obtain ⟨g, rfl⟩ := len1 hjl
      cases alpha <;> refine ⟨_, rfl, ?_, ?_, ?_⟩ <;> lay_simp <;> simp [hls, hii] <;> omega
    · obtain ⟨g, a, rfl⟩ := len2 hjl
      cases alpha <;> refine ⟨_, rfl, ?_, ?_, ?_⟩ <;> lay_simp <;> simp [hls, hii] <;> omega
  · cases al <;> simp only [CMode.pilMode, Mode.nbands] at hjl
    · obtain ⟨r, g, b, rfl⟩ := len3 hjl
      cases alpha <;> refine ⟨_, rfl, ?_, ?_, ?_⟩ <;> lay_simp <;> simp [hls, hii] <;> omega
    · obtain ⟨r, g, b, a, rfl⟩ := len4 hjl
      cases alpha <;> refine ⟨_, rfl, ?_, ?_, ?_⟩ <;> lay_simp <;> simp [hls, hii] <;> omega
  · have : CMode.cmyk.pilMode al = .CMYK := by cases al <;> rfl
    simp only [this, Mode.nbands] at hjl
    obtain ⟨c, m, y, k, rfl⟩ := len4 hjl
    cases alpha <;> refine ⟨_, rfl, ?_, ?_, ?_⟩ <;> lay_simp <;> simp [hls, hii, this] <;> omega

/-- `layer.numpy()` of the layer import after the conversion: the colour bands in the storage convention
(inverted for CMYK — the NumPy path never inverts back), then the transparency; every sample is what
the view makes of the stored sample. -/
theorem layer_converted_numpy {β : Type} (P : Px α σ) (V : View σ β) (hdr : Header) (alpha : Option (List α))
    (j : Image α) (hj : j.WF) (hb : hdr.cmode ≠ .bitmap) (al : Bool) (hm : j.mode = hdr.cmode.pilMode al)
    (top left : Int) :
    ∃ l, layerOfConverted P alpha j hdr.depth top left = .ok l ∧
      exportLayerNumpy V hdr l = .ok
        (((if hdr.cmode = .cmyk then j.invert P else j).bands.take hdr.cmode.channels ++
            [alpha.getD (List.replicate (j.width * j.height) P.full)]).map
          (·.map fun x => V.load (P.store hdr.depth x))) := by
  obtain ⟨jm, jw, jh, jb⟩ := j
  obtain ⟨cm, ch, dp, dw, dh⟩ := hdr
  obtain ⟨hjl, _⟩ := hj
  simp only at hm hjl
  subst hm
  cases cm
  · exact absurd rfl hb
  · cases al <;> simp only [CMode.pilMode, Mode.nbands] at hjl
    · obtain ⟨g, rfl⟩ := len1 hjl
      cases alpha <;> refine ⟨_, rfl, ?_⟩ <;> lay_simp
    · obtain ⟨g, a, rfl⟩ := len2 hjl
      cases alpha <;> refine ⟨_, rfl, ?_⟩ <;> lay_simp
  · cases al <;> simp only [CMode.pilMode, Mode.nbands] at hjl
    · obtain ⟨r, g, b, rfl⟩ := len3 hjl
      cases alpha <;> refine ⟨_, rfl, ?_⟩ <;> lay_simp
    · obtain ⟨r, g, b, a, rfl⟩ := len4 hjl
      cases alpha <;> refine ⟨_, rfl, ?_⟩ <;> lay_simp
  · have : CMode.cmyk.pilMode al = .CMYK := by cases al <;> rfl
    simp only [this, Mode.nbands] at hjl
    obtain ⟨c, m, y, k, rfl⟩ := len4 hjl
    cases alpha <;> refine ⟨_, rfl, ?_⟩ <;> lay_simp <;> simp [this]

/-- `numpy()` of a freshly imported document (no normalisation needed, not RGBA): every plane in the
storage convention -/
theorem doc_core_numpy {β : Type} (C : Pil α) (P : Px α σ) (V : View σ β) (img : Image α) (hwf : img.WF)
    (h1 : img.mode ≠ .one) (h2 : img.mode ≠ .RGBA) :
    exportDocNumpy V (docImport C P img).1 (docImport C P img).2 = .ok
      ((if img.mode = .CMYK then img.invert P else img).bands.map (·.map fun x => V.load (P.store 8 x))) := by
  obtain ⟨mode, w, h, bands⟩ := img
  obtain ⟨hl, _⟩ := hwf
  cases mode <;> simp only [Mode.nbands] at hl
  · exact absurd rfl h1
  · obtain ⟨a, rfl⟩ := len1 hl
    doc_simp
  · obtain ⟨a, b, rfl⟩ := len2 hl
    doc_simp
  · obtain ⟨a, b, c, rfl⟩ := len3 hl
    doc_simp
  · exact absurd rfl h2
  · obtain ⟨a, b, c, d, rfl⟩ := len4 hl
    doc_simp

/-- the alpha taken by `layerImport` before the conversion is the source's alpha band -/
theorem alpha_extraction (C : Pil α) (hC : C.Lawful) (img : Image α) (hwf : img.WF) :
    (if img.mode.hasAlpha then (getBand (C.conv .RGBA img) 3).map some else .ok none)
      = .ok (srcAlpha img) := by
  unfold srcAlpha
  by_cases h : img.mode.hasAlpha = true
  · have hc := hC.conv_rgba_alpha img hwf h
    have hne : img.bands ≠ [] := by
      intro he
      have := hwf.1
      rw [he] at this
      cases hm : img.mode <;> simp [hm, Mode.nbands] at this
    obtain ⟨x, hx⟩ : ∃ x, img.bands.getLast? = some x := by
      cases hb : img.bands with
      | nil => exact absurd hb hne
      | cons y ys => exact ⟨_, List.getLast?_eq_some_getLast (by simp)⟩
    simp [h, getBand, hc, hx, Except.map]
  · simp [h]

/-- `PixelLayer.frompil` is the import of the converted image with the alpha of the (normalised) source -/
theorem layerImport_eq (C : Pil α) (hC : C.Lawful) (P : Px α σ) (img : Image α) (hwf : img.WF) (hdr : Header)
    (top left : Int) :
    layerImport C P img hdr top left
      = layerOfConverted P (srcAlpha (normalise C img)) (C.conv hdr.pilMode (normalise C img)) hdr.depth top left := by
  have hsrc : (normalise C img).WF := by
    unfold normalise; split
    · exact hC.conv_wf _ _ hwf
    · exact hwf
  have ha := alpha_extraction C hC (normalise C img) hsrc
  have hdef : layerImport C P img hdr top left =
      (match (if (normalise C img).mode.hasAlpha then (getBand (C.conv .RGBA (normalise C img)) 3).map some else Except.ok none) with
        | Except.error e => Except.error e
        | Except.ok alpha => layerOfConverted P alpha (C.conv hdr.pilMode (normalise C img)) hdr.depth top left) := rfl
  rw [hdef, ha]

theorem normalise_wf (C : Pil α) (hC : C.Lawful) (img : Image α) (hwf : img.WF) : (normalise C img).WF := by
  unfold normalise; split
  · exact hC.conv_wf _ _ hwf
  · exact hwf

theorem normalise_size (C : Pil α) (hC : C.Lawful) (img : Image α) :
    (normalise C img).width = img.width ∧ (normalise C img).height = img.height := by
  unfold normalise; split
  · exact ⟨hC.conv_width _ _, hC.conv_height _ _⟩
  · exact ⟨rfl, rfl⟩

/-- Python indexing and Python's modulo pick the same plane -/
theorem pyIndex_emod (n : Nat) (i : Int) (a : Nat) (h : pyIndex n i = some a) :
    (i % (n : Int)).toNat = a := by
  unfold pyIndex at h
  by_cases h0 : 0 ≤ i
  · simp only [h0, if_true] at h
    by_cases h1 : i.toNat < n
    · simp only [h1, if_true, Option.some.injEq] at h
      have : i % (n : Int) = i := Int.emod_eq_of_lt h0 (by omega)
      rw [this]; exact h
    · simp [h1] at h
  · simp only [h0, if_false] at h
    by_cases h1 : i.natAbs ≤ n
    · simp only [h1, if_true, Option.some.injEq] at h
      by_cases h2 : i.natAbs = n
      · have : i = -(n : Int) := by omega
        subst this
        simp at h ⊢
        omega
      · have : i % (n : Int) = i + n := by
          have h3 : (i + (n : Int)) % (n : Int) = i + n := Int.emod_eq_of_lt (by omega) (by omega)
          rw [← h3, Int.add_emod_right]
        rw [this]; omega
    · simp [h1] at h

theorem pyIndex_lt (n : Nat) (i : Int) (a : Nat) (h : pyIndex n i = some a) : a < n := by
  unfold pyIndex at h
  split at h
  · split at h
    · simp only [Option.some.injEq] at h; omega
    · simp at h
  · split at h
    · simp only [Option.some.injEq] at h; omega
    · simp at h

theorem take_map_range (n k : Nat) (f : Nat → Route) (h : k ≤ n) :
    ((List.range n).map f).take k = (List.range k).map f := by
  rw [← List.map_take, List.take_range]
  have : min k n = k := by omega
  rw [this]

theorem getElem_map_range (n k : Nat) (f : Nat → Route) (h : k < n) :
    ((List.range n).map f)[k]? = some (f k) := by
  simp [h]

theorem transparency_plane_ge (m : Meta)
    (hids : m.alphaIds.length + m.header.cmode.expected ≤ m.header.channels)
    (hch : m.header.channels > m.header.cmode.expected) (a : Nat)
    (hpi : pyIndex m.header.channels m.transparencyIndex = some a) : a ≥ m.header.cmode.expected := by
  unfold Meta.transparencyIndex at hpi
  unfold pyIndex at hpi
  cases hz : firstZero m.alphaIds with
  | none =>
    simp only [hz] at hpi
    split at hpi
    · omega
    · split at hpi
      · simp only [Option.some.injEq] at hpi; omega
      · simp at hpi
  | some off =>
    simp only [hz] at hpi
    split at hpi
    · split at hpi
      · simp only [Option.some.injEq] at hpi; omega
      · simp at hpi
    · omega

/-- documents, grayscale and RGB: the PIL and the NumPy export read the same planes the same way -/
theorem agree_doc (m : Meta) (hc : m.header.cmode = .gray ∨ m.header.cmode = .rgb)
    (hmt : m.mergedTransparency = true → m.header.channels > m.header.cmode.expected)
    (hids : m.alphaIds.length + m.header.cmode.expected ≤ m.header.channels)
    (mode : Mode) (rs : List Route) (h : pilDocRoutes m = .ok (some (mode, rs))) :
    rs.take m.header.cmode.expected = (numpyDocRoutes m).take m.header.cmode.expected ∧
    ∀ r ∈ rs.drop m.header.cmode.expected, (numpyDocRoutes m)[r.plane]? = some r := by
  -- transparency only with an extra channel
  have hT : m.hasTransparency = true → m.header.channels > m.header.cmode.expected := by
    intro ht
    unfold Meta.hasTransparency at ht
    by_cases hm : m.mergedTransparency = true
    · exact hmt hm
    · simp only [hm] at ht
      by_cases hch : m.header.channels > m.header.cmode.expected
      · exact hch
      · simp [hch] at ht
  unfold pilDocRoutes at h
  cases hp : m.hasPreview with
  | false => simp [hp] at h
  | true =>
    simp only [hp, Bool.not_true, Bool.false_eq_true, if_false] at h
    cases ht : m.hasTransparency with
    | true =>
      have hch := hT ht
      simp only [ht, if_true] at h
      cases hpi : pyIndex m.header.channels m.transparencyIndex with
      | none => simp [hpi] at h
      | some a =>
        have hmod := pyIndex_emod _ _ a hpi
        have halt := pyIndex_lt _ _ a hpi
        have hage := transparency_plane_ge m hids hch a hpi
        simp only [hpi] at h
        rcases hc with hg | hg
        · simp only [hg, CMode.pilMode, Mode.pilChannels, Mode.nbands, CMode.expected] at h hch ⊢
          have h1 : min 1 m.header.channels = 1 := by omega
          simp only [h1, ne_eq, not_true_eq_false, if_false, Except.ok.injEq, Option.some.injEq,
            Prod.mk.injEq] at h
          obtain ⟨_, rfl⟩ := h
          have hr : numpyDocRoutes m = (List.range m.header.channels).map fun k => ({ plane := k } : Route) := by
            simp [numpyDocRoutes, hg]
          rw [hr, take_map_range m.header.channels _ _ (by omega)]
          refine ⟨by simp [List.range, List.range.loop], ?_⟩
          intro r hr'
          simp [List.range, List.range.loop] at hr'
          subst hr'
          simp [halt]
        · simp only [hg, CMode.pilMode, Mode.pilChannels, Mode.nbands, CMode.expected] at h hch ⊢
          have h1 : min 3 m.header.channels = 3 := by omega
          simp only [h1, ne_eq, not_true_eq_false, if_false, Except.ok.injEq, Option.some.injEq,
            Prod.mk.injEq] at h
          obtain ⟨_, rfl⟩ := h
          have hr : numpyDocRoutes m = (List.range m.header.channels).map fun k =>
                if k < 3 then ({ plane := k, unmatteBy := some a } : Route) else { plane := k } := by
            simp [numpyDocRoutes, hg, hch, ht, hmod]
          rw [hr, take_map_range m.header.channels _ _ (by omega)]
          refine ⟨by simp [List.range, List.range.loop], ?_⟩
          intro r hr'
          simp [List.range, List.range.loop] at hr'
          subst hr'
          rw [hg, CMode.expected] at hage
          have : ¬ a < 3 := by omega
          simp [halt, this]
    | false =>
      simp only [ht, Bool.false_eq_true, if_false] at h
      rcases hc with hg | hg
      · simp only [hg, CMode.pilMode, Mode.pilChannels, Mode.nbands, CMode.expected] at h ⊢
        by_cases h1 : min 1 m.header.channels = 1
        · simp only [h1, ne_eq, not_true_eq_false, if_false, Except.ok.injEq, Option.some.injEq,
            Prod.mk.injEq] at h
          obtain ⟨_, rfl⟩ := h
          have hr : numpyDocRoutes m = (List.range m.header.channels).map fun k => ({ plane := k } : Route) := by
            simp [numpyDocRoutes, hg]
          rw [hr, take_map_range m.header.channels _ _ (by omega)]
          simp [List.range, List.range.loop]
        · simp [h1] at h
      · simp only [hg, CMode.pilMode, Mode.pilChannels, Mode.nbands, CMode.expected] at h ⊢
        by_cases h1 : min 3 m.header.channels = 3
        · simp only [h1, ne_eq, not_true_eq_false, if_false, Except.ok.injEq, Option.some.injEq,
            Prod.mk.injEq] at h
          obtain ⟨_, rfl⟩ := h
          have hr : numpyDocRoutes m = (List.range m.header.channels).map fun k => ({ plane := k } : Route) := by
            simp [numpyDocRoutes, hg, ht]
          rw [hr, take_map_range m.header.channels _ _ (by omega)]
          simp [List.range, List.range.loop]
        · simp [h1] at h

end PsdVerif.Pixels
