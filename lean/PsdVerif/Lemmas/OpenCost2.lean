/-
C06 — cost of the typed counting reader (Model/OpenCost.lean), in the potential accounting of Lemmas/SafeCost2.lean
(`Pays a b`: the cost is paid by the bytes the cursor moved over, also when the cursor was moved behind the end of
the data by a `seek`).

Hypotheses on the hooks:

  `HB pl ap bp N`  a payload run on a block `data` that sits in a stream of at most `N` bytes (behind the 12 bytes of its
                   tagged-block header: `len(data) + 12 ≤ N`) costs at most `ap · len(data) + bp`;
  `HR rs ar br N`  the same for an image resource whose block has at most `N` bytes.

The additive constant `bp` of a payload is paid by the twelve header bytes of its tagged block (`bp ≤ 12 · q`), so
the constants of the typed readers do not depend on `bp`: with `a = ap + q`

  tagged block loop   `Pays (3 + a) 30`        layer record        `Pays (8 + a) 106`
  extra data          `Pays (6 + a) 88`        layer info body     `Pays (12 + a) 112`

which is what lets the `Lr16` / `Lr32` recursion close with a coefficient that grows by a CONSTANT per level.
-/
import PsdVerif.Lemmas.OpenCost1
import PsdVerif.Lemmas.PayloadCost1

namespace PsdVerif.OpenCost
open PsdVerif PsdVerif.Codec PsdVerif.Psd PsdVerif.PsdCost PsdVerif.PayloadCost PsdVerif.Safe PsdVerif.SafeCost

def HB (pl : BlockHook) (ap bp N : Nat) : Prop :=
  ∀ v key data, data.length + 12 ≤ N → (pl v key data).2.w ≤ ap * data.length + bp

def HR (rs : ResHook) (ar br N : Nat) : Prop := ∀ key data, data.length ≤ N → (rs key data).2.w ≤ ar * data.length + br

theorem HR.anti {rs : ResHook} {ar br N N' : Nat} (h : HR rs ar br N) (hn : N' ≤ N) : HR rs ar br N' :=
  fun key data hd => h key data (by omega)

theorem HB.anti {pl : BlockHook} {ap bp N N' : Nat} (h : HB pl ap bp N) (hn : N' ≤ N) : HB pl ap bp N' :=
  fun v key data hd => h v key data (by omega)

theorem pot_ge {a : Nat} {d : B} {p q : Nat} (hpq : p ≤ q) (hq : q ≤ d.length) : pot a d q + a * (q - p) = pot a d p := by
  have := pot_split a d (p := p) (q := q) (k := q - p) (by omega) hq
  omega

/-! ### iteration lemmas that only need to know what a SUCCESS looks like -/

theorem IterPays.of_pays' {α : Type} {a' b' bi c e k j : Nat} {d : B} {p : Nat} {x : CE (α × Nat)}
    (h : Pays a' b' d p x) (g : ∀ v p', x.1 = .ok (v, p') → p + k ≤ p' ∧ p' ≤ d.length) (H : b' + 1 + c ≤ j * k + e)
    (hbi : b' + 1 ≤ bi) : IterPays (a' + j) bi c e d p x := by
  unfold IterPays
  cases hx : x.1 with
  | error er =>
    have h1 := h.of_error hx
    simp only
    rw [pot_add]; omega
  | ok y =>
    obtain ⟨v, p'⟩ := y
    have h1 := h.of_ok hx
    have g1 := g v p' hx
    have hs := pot_split j d (p := p) (q := p') (k := p' - p) (by omega) g1.2
    have hm : j * k ≤ j * (p' - p) := Nat.mul_le_mul_left j (by omega)
    simp only
    rw [pot_add, pot_add]
    exact ⟨h1.1, by omega⟩

theorem WhileItem.of_pays' {α : Type} {a' b' bi cc k j : Nat} {d : B} {p : Nat} {itemC : RC α}
    (h : Pays a' b' d p (itemC d p)) (g : ∀ v p', (itemC d p).1 = .ok (v, p') → p + k ≤ p' ∧ p' ≤ d.length)
    (H : b' + 1 + cc ≤ j * k) (hbi : b' + 1 + cc ≤ bi) : WhileItem (a' + j) bi cc d p (optItemC itemC d p) := by
  have ho := optItemC_pays h
  unfold WhileItem
  cases hx : (optItemC itemC d p).1 with
  | error er =>
    have h1 := ho.of_error hx
    simp only
    rw [pot_add]; omega
  | ok y =>
    obtain ⟨o, p'⟩ := y
    have h1 := ho.of_ok hx
    unfold optItemC at hx
    rw [bind_fst] at hx
    cases hi : (itemC d p).1 with
    | error e => rw [hi] at hx; cases hx
    | ok z =>
      obtain ⟨v, p2⟩ := z
      rw [hi] at hx
      cases hx
      have g1 := g v p' hi
      have hs := pot_split j d (p := p) (q := p') (k := p' - p) (by omega) g1.2
      have hm : j * k ≤ j * (p' - p) := Nat.mul_le_mul_left j (by omega)
      simp only
      rw [pot_add, pot_add]
      exact ⟨h1.1, by omega⟩

/-! ### tagged blocks -/

section blocks
variable {pl : BlockHook} {ap bp q : Nat}

theorem readNC4_w (d : B) (p : Nat) : (readNC 4 d p).2.w ≤ 5 := by
  have : (readNC 4 d p).2.w = 1 + min 4 (d.length - p) := rfl
  omega

/-- one tagged block with its payload run: the twelve header bytes pay for the constants, `bp` included -/
theorem taggedT_whileItem (v pad : Nat) (d : B) (p : Nat) (hb : HB pl ap bp d.length) (hq : bp ≤ 12 * q) :
    WhileItem (3 + ap + q) 20 9 d p (TaggedBlock.decT pl v pad d p) := by
  unfold TaggedBlock.decT
  have hc := readNC4_w d p
  cases h1 : (readNC 4 d p).1 with
  | error e =>
    rw [bind_err' h1]
    unfold WhileItem
    show (readNC 4 d p).2.w + 1 + 9 ≤ _
    omega
  | ok y =>
    obtain ⟨sig, p1⟩ := y
    have a1 := readN_ok (show readN 4 d p = .ok (sig, p1) from h1)
    rw [bind_ok' h1]
    dsimp only
    split
    · have hc2 := readNC4_w d p1
      cases h2 : (readNC 4 d p1).1 with
      | error e =>
        rw [bind_err' h2]
        unfold WhileItem
        show ((readNC 4 d p).2 + (readNC 4 d p1).2).w + 1 + 9 ≤ _
        rw [w_add]
        omega
      | ok y2 =>
        obtain ⟨key, p2⟩ := y2
        have a2 := readN_ok (show readN 4 d p1 = .ok (key, p2) from h2)
        rw [bind_ok' h2]
        dsimp only
        have hl := readLenBlockC_pays0 0 (tbLenW v key) pad d p2
        cases h3 : (readLenBlockC 0 (tbLenW v key) pad d p2).1 with
        | error e =>
          rw [bind_err' h3]
          have c3 := hl.of_error h3
          rw [pot_one] at c3
          unfold WhileItem
          show ((readNC 4 d p).2 + ((readNC 4 d p1).2 + (readLenBlockC 0 (tbLenW v key) pad d p2).2)).w + 1 + 9 ≤ _
          rw [w_add, w_add, pot_add, pot_add]
          have : pot 3 d p = 3 * (d.length - p) := rfl
          omega
        | ok y3 =>
          obtain ⟨data, p3⟩ := y3
          have c3 := hl.of_ok h3
          rw [pot_one, pot_one] at c3
          have a3 := readLenBlockC_ok h3
          have hw4 := tbLenW_ge4 v key
          rw [bind_ok' h3]
          dsimp only
          have hh := hb v key data (by omega)
          have hA := pot_ge (a := 3 + ap + q) (d := d) (p := p) (q := p3) (by omega) a3.2
          have e1 : (3 + ap + q) * (p3 - p) = 3 * (p3 - p) + ap * (p3 - p) + q * (p3 - p) := by
            rw [Nat.add_mul, Nat.add_mul]
          have e2 : ap * data.length ≤ ap * (p3 - p) := Nat.mul_le_mul_left _ (by omega)
          have e3 : q * 12 ≤ q * (p3 - p) := Nat.mul_le_mul_left _ (by omega)
          have e4 : 12 * q = q * 12 := Nat.mul_comm ..
          cases h4 : (pl v key data).1 with
          | error e =>
            rw [bind_err' h4]
            unfold WhileItem
            show ((readNC 4 d p).2 + ((readNC 4 d p1).2 + ((readLenBlockC 0 (tbLenW v key) pad d p2).2 + (pl v key data).2))).w + 1 + 9 ≤ _
            rw [w_add, w_add, w_add]
            omega
          | ok u =>
            rw [bind_ok' h4]
            unfold WhileItem
            show p ≤ p3 ∧ ((readNC 4 d p).2 + ((readNC 4 d p1).2 + ((readLenBlockC 0 (tbLenW v key) pad d p2).2 +
              ((pl v key data).2 + (CE.ok (some (⟨sig, key, data⟩ : TaggedBlock), p3)).2)))).w + 1 + 9 + _ ≤ _
            rw [w_add, w_add, w_add, w_add, ok_w]
            exact ⟨by omega, by omega⟩
    · unfold WhileItem
      show p ≤ p ∧ ((readNC 4 d p).2 + (CE.ok ((none : Option TaggedBlock), p)).2).w + 1 + 9 + _ ≤ _ + 20
      rw [w_add, ok_w]
      exact ⟨Nat.le_refl _, by omega⟩

theorem taggedLoopT_pays (v pad : Nat) (endPos : Option Nat) (d : B) (p : Nat) (hb : HB pl ap bp d.length) (hq : bp ≤ 12 * q) :
    Pays (3 + ap + q) 30 d p (readWhileC (taggedCondC endPos) (TaggedBlock.decT pl v pad) d p) :=
  readWhileC_pays (cond := taggedCond endPos) (bi := 20) (cc := 9) (fun r => taggedCondC_fst endPos d r)
    (fun r => taggedCondC_w endPos d r) (fun r _ => taggedT_whileItem v pad d r hb hq) p

theorem taggedBlocksT_pays (v pad : Nat) (endPos : Option Nat) (d : B) (p : Nat) (hb : HB pl ap bp d.length) (hq : bp ≤ 12 * q) :
    Pays (3 + ap + q) 30 d p (taggedBlocksDecT pl v pad endPos d p) := by
  unfold taggedBlocksDecT
  refine PaysCr.bind (taggedLoopT_pays v pad endPos d p hb hq) (fun items p _ => ?_) (Nat.le_refl _)
  exact PaysCr.ok _

theorem extraT_pays (v : Nat) (d : B) (p : Nat) (hb : HB pl ap bp d.length) (hq : bp ≤ 12 * q) :
    Pays (6 + ap + q) 88 d p (LayerRecord.extraDecT pl v d p) := by
  unfold LayerRecord.extraDecT
  refine PaysCr.bind (mask_pays d p) (fun mask p _ => ?_) (by omega)
  refine PaysCr.bind (blendingRanges_pays d p) (fun ranges p _ => ?_) (by omega)
  refine PaysCr.bind (readPascalC_pays 4 d p) (fun name p _ => ?_) (by omega)
  refine PaysCr.bind (taggedBlocksT_pays v 1 none d p hb hq) (fun tbs p _ => ?_) (by omega)
  exact PaysCr.ok _

theorem layerRecordT_pays (v : Nat) (d : B) (p : Nat) (hb : HB pl ap bp d.length) (hq : bp ≤ 12 * q) :
    Pays (8 + ap + q) 106 d p (LayerRecord.decT pl v d p) := by
  unfold LayerRecord.decT
  refine PaysCr.bind (readI32C_pays d p) (fun top p _ => ?_) (by omega)
  refine PaysCr.bind (readI32C_pays d p) (fun left p _ => ?_) (by omega)
  refine PaysCr.bind (readI32C_pays d p) (fun bottom p _ => ?_) (by omega)
  refine PaysCr.bind (readI32C_pays d p) (fun right p _ => ?_) (by omega)
  refine PaysCr.bind (readUC_pays 2 d p) (fun n p _ => ?_) (by omega)
  refine PaysCr.bind ((readCountC_pays (fun r => channelInfo_iter v d r) n p).weaken (cr' := fun _ => 0)
    (fun _ => Nat.zero_le _) (b' := 3) (by omega)) (fun cis p _ => ?_) (by omega)
  refine PaysCr.bind (readNC_pays 4 d p) (fun sig p _ => ?_) (by omega)
  refine PaysCr.bind (readNC_pays 4 d p) (fun bm p _ => ?_) (by omega)
  refine PaysCr.bind (readUC_pays 1 d p) (fun opacity p _ => ?_) (by omega)
  refine PaysCr.bind (readUC_pays 1 d p) (fun clipping p _ => ?_) (by omega)
  refine PaysCr.bind (readUC_pays 1 d p) (fun fl p _ => ?_) (by omega)
  refine PaysCr.bind (readLenBlockC_pays (7 + ap + q) 1 4 1 d p) (fun data p' hd => ?_) (by omega)
  have hlen : data.length ≤ d.length := by have := readLenBlockC_ok hd; omega
  have e : (7 + ap + q) * data.length = (6 + ap + q) * data.length + data.length := by
    rw [show 7 + ap + q = (6 + ap + q) + 1 by omega, Nat.add_mul, Nat.one_mul]
  refine PaysCr.bind_nested (n := 1 + data.length) (Nat.le_of_eq (enterBlock_w data)) fun _ _ => ?_
  refine PaysCr.bind_nested (n := (6 + ap + q) * data.length + 88) (extraT_pays v data 0 (hb.anti hlen) hq).w_le
    fun ⟨⟨mask, ranges, name, tbs⟩, _⟩ _ => ?_
  dsimp only
  exact PaysCr.ite (fun _ => PaysCr.ok _) (fun _ => PaysCr.error _)

variable (hpl : ∀ v key data, HookOk (pl v key data))
include hpl

theorem layerRecordT_ok (v : Nat) {d : B} {p : Nat} {r : LayerRecord} {p' : Nat}
    (h : (LayerRecord.decT pl v d p).1 = .ok (r, p')) : p + 34 ≤ p' ∧ p' ≤ d.length := by
  have h1 := (sim_layerRecord hpl v d p).of_ok h
  rw [layerRecord_fst] at h1
  have := (layerRecord_good v d p).of_ok h1
  omega

/-- a record pays for its iteration and leaves 4 for its entry in the channel image loop -/
theorem layerRecordT_iter (v : Nat) (d : B) (p : Nat) (hb : HB pl ap bp d.length) (hq : bp ≤ 12 * q) :
    IterPays (12 + ap + q) 107 4 0 d p (LayerRecord.decT pl v d p) := by
  have h := IterPays.of_pays' (a' := 8 + ap + q) (j := 4) (k := 34) (c := 4) (e := 0) (bi := 107)
    (layerRecordT_pays v d p hb hq) (fun r p' hx => layerRecordT_ok hpl v hx) (by omega) (by omega)
  have e : 8 + ap + q + 4 = 12 + ap + q := by omega
  rw [e] at h
  exact h

theorem layerInfoBodyT_pays (v : Nat) (d : B) (p : Nat) (hb : HB pl ap bp d.length) (hq : bp ≤ 12 * q) :
    Pays (12 + ap + q) 112 d p (LayerInfo.bodyDecT pl v d p) := by
  unfold LayerInfo.bodyDecT
  refine PaysCr.bind (readI16C_pays d p) (fun count p _ => ?_) (by omega)
  refine PaysCr.bind ((readCountC_pays (fun r => layerRecordT_iter hpl v d r hb hq) count.natAbs p).weaken
    (cr' := fun vs => 4 * vs.length) (fun _ => Nat.le_refl _) (b' := 107) (by omega)) (fun records p _ => ?_)
    (Nat.le_refl _)
  refine PaysCr.bind (channelImage_pays records d p) (fun channels p _ => ?_) (by omega)
  exact PaysCr.ok _

theorem layerInfoT_pays (v : Nat) (d : B) (p : Nat) (hb : HB pl ap bp d.length) (hq : bp ≤ 12 * q) :
    Pays (12 + ap + q) 113 d p (LayerInfo.decT pl v d p) := by
  unfold LayerInfo.decT
  refine PaysCr.bind (readUC_pays _ d p) (fun length p1 _ => ?_) (by omega)
  dsimp only
  refine PaysCr.bind (a' := 12 + ap + q) (b₁ := 112) (cr := fun _ => 0) ?_ (fun li p2 _ => ?_) (Nat.le_refl _)
  · refine PaysCr.ite (fun _ => PaysCr.ok _) (fun _ => ?_)
    refine PaysCr.bind (layerInfoBodyT_pays hpl v d p1 hb hq) (fun li p _ => ?_) (Nat.le_refl _)
    exact PaysCr.ok _
  · dsimp only
    refine PaysCr.ite (fun hle => ?_) (fun _ => PaysCr.error _)
    exact PaysCr.ite (fun _ => PaysCr.error _) (fun _ => PaysCr.ok _ hle)

theorem layerAndMaskBodyT_pays (v endPos : Nat) (d : B) (p : Nat) (hb : HB pl ap bp d.length) (hq : bp ≤ 12 * q) :
    Pays (12 + ap + q) 183 d p (LayerAndMask.bodyDecT pl v endPos d p) := by
  unfold LayerAndMask.bodyDecT
  refine PaysCr.bind (layerInfoT_pays hpl v d p hb hq) (fun li p _ => ?_) (Nat.le_refl _)
  dsimp only
  refine PaysCr.ite (fun _ => ?_) (fun _ => PaysCr.ok _)
  refine PaysCr.bind (globalMask_pays d p) (fun glm p _ => ?_) (by omega)
  refine PaysCr.bind (taggedBlocksT_pays v 4 (some endPos) d p hb hq) (fun tbs p _ => ?_) (by omega)
  exact PaysCr.ok _

theorem layerAndMaskT_spend (v : Nat) (d : B) (p : Nat) (hb : HB pl ap bp d.length) (hq : bp ≤ 12 * q) :
    Spend (12 + ap + q) 184 d p (LayerAndMask.decT pl v d p) := by
  unfold LayerAndMask.decT
  refine Spend.bind (readUC_pays _ d p) (fun length p1 _ => ?_) (by omega)
  dsimp only
  refine Spend.bind_free ?_ (fun ⟨x, _⟩ => ?_)
  · split
    · exact (PaysCr.ok (cr := fun _ => 0) (a := 12 + ap + q) (b := 183) (d := d) (p := p1) (q := p1) _).spend
    · exact (layerAndMaskBodyT_pays hpl v _ d p1 hb hq).spend
  · dsimp only
    split <;> rfl

end blocks

/-! ### image resources -/

section resources
variable {rs : ResHook} {ar br j : Nat}

theorem resourceT_pays (d : B) (p : Nat) (hr : HR rs ar br d.length) : Pays (1 + ar) (9 + br) d p (Resource.decT rs d p) := by
  unfold Resource.decT
  refine PaysCr.bind (readNC_pays 4 d p) (fun sig p _ => ?_) (by omega)
  refine PaysCr.bind (readUC_pays 2 d p) (fun key p _ => ?_) (by omega)
  refine PaysCr.bind (readPascalC_pays 2 d p) (fun name p _ => ?_) (by omega)
  have e : ar + 1 = 1 + ar := by omega
  refine PaysCr.bind (readLenBlockC_pays ar 0 4 2 d p) (fun data p hd => ?_) (by omega)
  have hlen : data.length ≤ d.length := by have := readLenBlockC_ok hd; omega
  refine PaysCr.bind_nested (n := ar * data.length + br) (hr key data hlen) fun _ _ => ?_
  exact PaysCr.ite (fun _ => PaysCr.ok _) (fun _ => PaysCr.error _)

variable (hrs : ∀ key data, HookOk (rs key data))
include hrs

theorem resourceT_ok {d : B} {p : Nat} {r : Resource} {p' : Nat} (h : (Resource.decT rs d p).1 = .ok (r, p')) :
    p + 11 ≤ p' ∧ p' ≤ d.length := by
  have h1 := (sim_resource hrs d p).of_ok h
  rw [resource_fst] at h1
  have := (resource_good d p).of_ok h1
  omega

theorem resourcesLoopT_pays (d : B) (p : Nat) (hr : HR rs ar br d.length) (hj : 15 + br ≤ j * 11) :
    Pays (1 + ar + j) (15 + br + 6) d p (readWhileC (isReadableC 4) (optItemC (Resource.decT rs)) d p) :=
  readWhileC_pays (cond := isReadable 4) (bi := 15 + br) (cc := 5) (fun r => isReadableC_fst 4 d r) (fun r => isReadableC_w 4 d r)
    (fun r _ => WhileItem.of_pays' (a' := 1 + ar) (j := j) (k := 11) (resourceT_pays d r hr)
      (fun v p' hx => resourceT_ok hrs hx) (by omega) (by omega)) p

theorem resourcesT_pays (d : B) (p : Nat) (hr : HR rs ar br d.length) (hj : 15 + br ≤ j * 11) :
    Pays (3 + ar + j) (26 + br) d p (resourcesDecT rs d p) := by
  unfold resourcesDecT
  have e0 : 2 + ar + j + 1 = 3 + ar + j := by omega
  refine PaysCr.bind (readLenBlockC_pays (2 + ar + j) 0 4 1 d p) (fun data p hd => ?_) (by omega)
  have hlen : data.length ≤ d.length := by have := readLenBlockC_ok hd; omega
  have e : (2 + ar + j) * data.length = (1 + ar + j) * data.length + data.length := by
    rw [show 2 + ar + j = (1 + ar + j) + 1 by omega, Nat.add_mul, Nat.one_mul]
  refine PaysCr.bind_nested (n := 1 + data.length) (Nat.le_of_eq (enterBlock_w data)) fun _ _ => ?_
  refine PaysCr.bind_nested (n := (1 + ar + j) * data.length + (15 + br + 6)) (resourcesLoopT_pays hrs data 0 (hr.anti hlen) hj).w_le
    fun ⟨items, _⟩ _ => ?_
  exact PaysCr.ok _

end resources

/-! ### the whole file -/

/-- everything `PSD.readT` spends on `b`, whatever its outcome -/
theorem psdT_spend {pl : BlockHook} {rs : ResHook} {ap bp q ar br j : Nat} (b : B)
    (hpl : ∀ v key data, HookOk (pl v key data)) (hrs : ∀ key data, HookOk (rs key data))
    (hb : HB pl ap bp b.length) (hq : bp ≤ 12 * q) (hr : HR rs ar br b.length) (hj : 15 + br ≤ j * 11) :
    (PSD.readT pl rs b 0).2.w ≤ (13 + ap + q + ar + j) * b.length + (224 + br) := by
  have hs : Spend (12 + ap + q + ar + j) (224 + br + b.length) b 0 (PSD.readT pl rs b 0) := by
    unfold PSD.readT
    refine Spend.bind (header_pays b 0) (fun header p1 _ => ?_) (by omega)
    refine Spend.bind (colorMode_pays b p1) (fun cmd p2 _ => ?_) (by omega)
    refine Spend.bind (resourcesT_pays hrs b p2 hr hj) (fun res p3 _ => ?_) (by omega)
    refine Spend.bind_spend (n := b.length + 2)
      (Nat.le_trans (layerAndMaskT_spend hpl header.version b p3 hb hq)
        (Nat.add_le_add_right (Nat.mul_le_mul_right _ (by omega : 12 + ap + q ≤ 12 + ap + q + ar + j)) 184))
      (fun ⟨lm, p4⟩ _ => ?_) (by omega)
    have hi := (imageData_pays b p4).spend
    refine Nat.le_trans (m := pot 1 b p4 + 2) ?_ (by rw [pot_one]; omega)
    show Spend 1 2 b p4 _
    exact Spend.bind_free hi (fun ⟨img, p⟩ => rfl)
  unfold Spend pot at hs
  have e : (13 + ap + q + ar + j) * b.length = (12 + ap + q + ar + j) * b.length + b.length := by
    rw [show 13 + ap + q + ar + j = (12 + ap + q + ar + j) + 1 by omega, Nat.add_mul, Nat.one_mul]
  simp only [Nat.sub_zero] at hs
  omega

end PsdVerif.OpenCost
