/-
C02 — what the lenient reader can return, part 4: global layer mask info, the layer and mask section, image
data, the whole file; then the two facts C02 is made of:

  `PSD.read_fits` : what was read can be written, provided the lengths the writer derives are representable;
  `PSD.read_wf`   : what was read and can be written is well formed (`PSD.WF`, the hypothesis of C01's round
                    trip), provided no layer mask is the one unstable shape (`MaskData.Stable`).
-/
import PsdVerif.Lemmas.Lenient3

namespace PsdVerif.Psd
open PsdVerif PsdVerif.Codec

/-! ## global layer mask info -/

theorem glmDefault_wf : glmDefault.WF := by decide

theorem GlobalLayerMaskInfo.dec_ok {d : B} {p : Nat} {g : GlobalLayerMaskInfo} {p' : Nat}
    (hd : GlobalLayerMaskInfo.dec d p = .ok (g, p')) : g.WF := by
  unfold GlobalLayerMaskInfo.dec at hd
  obtain ⟨⟨data, p1⟩, e1, hd⟩ := bind_ok hd
  dsimp only at hd
  split at hd
  · cases hd; exact glmDefault_wf
  · split at hd
    · cases hd; exact glmDefault_wf
    · obtain ⟨⟨cs, q1⟩, e2, hd⟩ := bind_ok hd
      obtain ⟨⟨op, q2⟩, e3, hd⟩ := bind_ok hd
      obtain ⟨⟨kind, q3⟩, e4, hd⟩ := bind_ok hd
      dsimp only at hd
      split at hd
      · rename_i hk
        cases hd
        obtain ⟨hc1, hc2⟩ := readCount_ok e2
        refine ⟨hk, ⟨hc1, ?_, (readU_ok e3).1, (readU_ok e4).1⟩, by intro h; cases h⟩
        intro c hc
        obtain ⟨q, q', hq⟩ := hc2 c hc
        exact (readU_ok hq).1
      · cases hd

/-! ## the layer and mask information section -/

/-- what `LayerAndMaskInformation.read` guarantees -/
def LayerAndMask.Read (v : Nat) (x : LayerAndMask) : Prop :=
  match x.layerInfo with
  | none => x.globalMask = none ∧ x.taggedBlocks = none
  | some li =>
      LayerInfo.Read v li ∧ optProp GlobalLayerMaskInfo.WF x.globalMask ∧
      (∃ ts, x.taggedBlocks = some ts ∧ taggedBlocksWF v ts) ∧
      (x.globalMask = none → x.taggedBlocks = some [])

theorem taggedBlocksWF_nil (v : Nat) : taggedBlocksWF v [] := by
  unfold taggedBlocksWF
  exact ⟨fun t ht => (by cases ht), List.nodup_nil⟩

theorem LayerAndMask.bodyDec_ok {v endPos : Nat} {d : B} {p : Nat} {x : LayerAndMask} {p' : Nat}
    (hd : LayerAndMask.bodyDec v endPos d p = .ok (x, p')) : LayerAndMask.Read v x := by
  unfold LayerAndMask.bodyDec at hd
  obtain ⟨⟨li, p1⟩, e1, hd⟩ := bind_ok hd
  dsimp only at hd
  split at hd
  · obtain ⟨⟨g, p2⟩, e2, hd⟩ := bind_ok hd
    obtain ⟨⟨ts, p3⟩, e3, hd⟩ := bind_ok hd
    dsimp only at hd
    cases hd
    exact ⟨LayerInfo.dec_ok e1, GlobalLayerMaskInfo.dec_ok e2, ⟨ts, rfl, taggedBlocksDec_ok e3⟩, by intro h; cases h⟩
  · cases hd
    exact ⟨LayerInfo.dec_ok e1, trivial, ⟨[], rfl, taggedBlocksWF_nil v⟩, fun _ => rfl⟩

theorem LayerAndMask.dec_ok {v : Nat} {d : B} {p : Nat} {x : LayerAndMask} {p' : Nat}
    (hd : LayerAndMask.dec v d p = .ok (x, p')) : LayerAndMask.Read v x := by
  unfold LayerAndMask.dec at hd
  obtain ⟨⟨len, p1⟩, e1, hd⟩ := bind_ok hd
  obtain ⟨⟨x', p2⟩, e2, hd⟩ := bind_ok hd
  dsimp only at hd
  split at hd
  · cases hd
  · cases hd
    split at e2
    · cases e2
      exact ⟨rfl, rfl⟩
    · exact LayerAndMask.bodyDec_ok e2

def LayerAndMask.Stable (x : LayerAndMask) : Prop := optProp LayerInfo.Stable x.layerInfo

instance (x : LayerAndMask) : Decidable x.Stable := by unfold LayerAndMask.Stable; exact inferInstance

/-- the derived lengths of the section -/
def LayerAndMask.LenFits (v pad : Nat) (x : LayerAndMask) : Prop :=
  optProp (LayerInfo.LenFits v pad) x.layerInfo ∧ FitsU (secW v) (x.bodyT v pad).length

instance (v pad : Nat) (x : LayerAndMask) : Decidable (x.LenFits v pad) := by
  unfold LayerAndMask.LenFits; exact inferInstance

theorem LayerAndMask.Read.fits {v pad : Nat} {x : LayerAndMask} (h : LayerAndMask.Read v x) (hl : x.LenFits v pad) :
    x.Fits v pad := by
  obtain ⟨li, g, ts⟩ := x
  obtain ⟨hl1, hl2⟩ := hl
  unfold LayerAndMask.Read at h
  cases li with
  | none =>
    obtain ⟨rfl, rfl⟩ := h
    exact ⟨trivial, trivial, trivial, hl2⟩
  | some li =>
    obtain ⟨h1, h2, ⟨ts', e, h3⟩, _⟩ := h
    simp only at e
    subst e
    refine ⟨h1.fits hl1, ?_, taggedBlocksWF_fits h3, hl2⟩
    cases g with
    | none => trivial
    | some g => exact h2.2.1

theorem LayerAndMask.Read.wf {v pad : Nat} {x : LayerAndMask} (h : LayerAndMask.Read v x) (hf : x.Fits v pad)
    (hst : x.Stable) : x.WF v pad := by
  obtain ⟨li, g, ts⟩ := x
  unfold LayerAndMask.Read at h
  refine ⟨hf, ?_⟩
  cases li with
  | none => exact h
  | some li =>
    obtain ⟨h1, h2, ⟨ts', e, h3⟩, h4⟩ := h
    simp only at e
    subst e
    exact ⟨h1.wf hf.1 hst, h2, h3, h4⟩

/-! ## image data -/

theorem ImageData.dec_ok {d : B} {p : Nat} {i : ImageData} {p' : Nat} (hd : ImageData.dec d p = .ok (i, p')) :
    i.WF ∧ i.Fits ∧ p' = d.length := by
  unfold ImageData.dec at hd
  obtain ⟨⟨comp, p1⟩, e1, hd⟩ := bind_ok hd
  dsimp only at hd
  split at hd
  · rename_i hc
    obtain ⟨⟨data, p2⟩, e2, hd⟩ := bind_ok hd
    dsimp only at hd
    cases hd
    obtain ⟨_, h2, h3⟩ := readU_ok e1
    obtain ⟨g1, g2⟩ := readAll_ok e2
    exact ⟨hc, (readU_ok e1).1, by omega⟩
  · cases hd

/-! ## the whole file -/

/-- what `PSD.read` guarantees -/
structure PSD.Read (x : PSD) : Prop where
  header : x.header.Valid
  colorMode : FitsU 4 x.colorModeData.length
  resources : (∀ r ∈ x.resources, r.WF) ∧ (x.resources.map Resource.key).Nodup
  lam : LayerAndMask.Read x.header.version x.layerAndMask
  image : x.imageData.WF ∧ x.imageData.Fits

theorem PSD.read_ok {b : B} {p : Nat} {x : PSD} {p' : Nat} (hd : PSD.read b p = .ok (x, p')) :
    PSD.Read x ∧ p' = b.length := by
  unfold PSD.read at hd
  obtain ⟨⟨h, p1⟩, e1, hd⟩ := bind_ok hd
  obtain ⟨⟨cmd, p2⟩, e2, hd⟩ := bind_ok hd
  obtain ⟨⟨res, p3⟩, e3, hd⟩ := bind_ok hd
  obtain ⟨⟨lm, p4⟩, e4, hd⟩ := bind_ok hd
  obtain ⟨⟨img, p5⟩, e5, hd⟩ := bind_ok hd
  dsimp only at hd
  cases hd
  obtain ⟨i1, i2, i3⟩ := ImageData.dec_ok e5
  exact ⟨⟨Header.dec_ok e1, colorModeDec_ok e2, resourcesDec_ok e3, LayerAndMask.dec_ok e4, i1, i2⟩, i3⟩

/-- no layer mask is a 35-byte block holding both feathers -/
def PSD.Stable (x : PSD) : Prop := x.layerAndMask.Stable

instance (x : PSD) : Decidable x.Stable := by unfold PSD.Stable; exact inferInstance

/-- the lengths `PSD.write` derives from the data it holds are representable in their length fields -/
def PSD.LenFits (pad : Nat) (x : PSD) : Prop :=
  FitsU 4 (resourcesBodyT x.resources).length ∧ x.layerAndMask.LenFits x.header.version pad

instance (pad : Nat) (x : PSD) : Decidable (x.LenFits pad) := by unfold PSD.LenFits; exact inferInstance

theorem PSD.Read.version_le {x : PSD} (h : PSD.Read x) : ¬ 2 < x.header.version := by
  have : ∀ n ∈ G.headerVersions, ¬ 2 < n := by decide
  exact this _ h.header.2.1

theorem PSD.Read.fits {pad : Nat} {x : PSD} (h : PSD.Read x) (hl : x.LenFits pad) : x.Fits₁ ∧ x.Fits₂ pad :=
  ⟨⟨Header.fits_of_valid h.header, h.colorMode, fun r hr => (h.resources.1 r hr).2, hl.1⟩,
   h.lam.fits hl.2, h.image.2⟩

theorem PSD.Read.enc_ok {pad : Nat} {x : PSD} (h : PSD.Read x) (hl : x.LenFits pad) :
    PSD.enc pad x = .ok (x.encT pad) := by
  obtain ⟨f1, f2⟩ := h.fits hl
  unfold PSD.enc PSD.writeError
  rw [if_neg (by simpa using f1), if_neg h.version_le, if_neg (by simpa using f2)]

theorem PSD.fits_of_enc {pad : Nat} {x : PSD} {s : B} (h : PSD.enc pad x = .ok s) : x.Fits₁ ∧ x.Fits₂ pad := by
  unfold PSD.enc at h
  split at h
  · cases h
  · rename_i he
    unfold PSD.writeError at he
    split at he
    · cases he
    · rename_i f1
      split at he
      · cases he
      · split at he
        · cases he
        · rename_i f2
          exact ⟨Decidable.not_not.1 f1, Decidable.not_not.1 f2⟩

theorem PSD.Read.wf {pad : Nat} {x : PSD} (h : PSD.Read x) (f1 : x.Fits₁) (f2 : x.Fits₂ pad) (hst : x.Stable) :
    x.WF pad :=
  ⟨h.header, h.colorMode, ⟨h.resources.1, h.resources.2, f1.2.2.2⟩, h.lam.wf f2.1 hst, h.image.1⟩

/-! ### the derived lengths are part of `Fits` -/

theorem LayerRecord.lenFits_of_fits {v : Nat} {r : LayerRecord} (h : r.Fits v) : r.LenFits v :=
  ⟨h.2.2.2.2.2.2.2.2.2.1.2.2, h.2.2.2.2.2.2.2.2.2.2.2.2, fun c hc => (h.2.2.2.2.2.1 c hc).2⟩

theorem LayerInfo.lenFits_of_fits {v pad : Nat} {li : LayerInfo} (h : li.Fits v pad) : li.LenFits v pad := by
  unfold LayerInfo.Fits at h
  unfold LayerInfo.LenFits
  split
  · trivial
  · rename_i h0
    rw [if_neg h0] at h
    obtain ⟨_, h2, _, h4⟩ := h
    refine ⟨?_, h4⟩
    cases hr : li.refresh.records with
    | none => trivial
    | some rs =>
      rw [hr] at h2
      exact fun r hr' => LayerRecord.lenFits_of_fits (h2 r hr')

theorem LayerAndMask.lenFits_of_fits {v pad : Nat} {x : LayerAndMask} (h : x.Fits v pad) : x.LenFits v pad := by
  obtain ⟨h1, _, _, h4⟩ := h
  refine ⟨?_, h4⟩
  cases hli : x.layerInfo with
  | none => trivial
  | some li =>
    rw [hli] at h1
    exact LayerInfo.lenFits_of_fits h1

theorem PSD.lenFits_of_fits {pad : Nat} {x : PSD} (f1 : x.Fits₁) (f2 : x.Fits₂ pad) : x.LenFits pad :=
  ⟨f1.2.2.2, LayerAndMask.lenFits_of_fits f2.1⟩

end PsdVerif.Psd
