/-
Helper lemmas for C04: big-endian row tables and the per-row PackBits codec.
Core Lean only.
-/
import PsdVerif.Model.Compression
import PsdVerif.Lemmas.CompShuffle
import PsdVerif.Props.C05

namespace PsdVerif.Compression
open PsdVerif PsdVerif.Rle

/-! ### Big-endian items -/

theorem beBytes_length (k n : Nat) : (beBytes k n).length = k := by
  induction k generalizing n with
  | zero => rfl
  | succ k ih => simp [beBytes, ih]

theorem beVal_append_single (xs : BList) (b : UInt8) : beVal (xs ++ [b]) = beVal xs * 256 + b.toNat := by
  simp [beVal, List.foldl_append]

theorem beVal_beBytes (k n : Nat) (h : n < 256 ^ k) : beVal (beBytes k n) = n := by
  induction k generalizing n with
  | zero => simp [beBytes, beVal] at *; omega
  | succ k ih =>
    have h1 : n / 256 < 256 ^ k := by
      apply Nat.div_lt_of_lt_mul
      rw [Nat.pow_succ] at h; omega
    rw [beBytes, beVal_append_single, ih _ h1]
    have : (UInt8.ofNat (n % 256)).toNat = n % 256 := by
      simp [UInt8.toNat_ofNat']
    rw [this]; omega

theorem readVals_table (k : Nat) (cs : List Nat) (rest : BList) (hc : ∀ c ∈ cs, c < 256 ^ k) :
    readVals k cs.length (cs.flatMap (beBytes k) ++ rest) = cs := by
  induction cs with
  | nil => rfl
  | cons c cs ih =>
    simp only [List.flatMap_cons, List.length_cons, readVals, List.append_assoc]
    rw [List.take_left' (beBytes_length k c), List.drop_left' (beBytes_length k c)]
    rw [beVal_beBytes k c (hc c (by simp)), ih (fun x hx => hc x (by simp [hx]))]

/-! ### Rows -/

/-- rows given as (stream, expansion) pairs: the row decoder loop returns the expansions. -/
theorem decRows_pairs (rs : Nat) (ps : List (BList × BList)) (extra : BList)
    (h : ∀ p ∈ ps, specDec p.1 = some p.2 ∧ p.2.length = rs) :
    decRows rs (ps.map (·.1.length)) ((ps.map (·.1)).flatten ++ extra) = .ok (ps.map (·.2)).flatten := by
  induction ps with
  | nil => rfl
  | cons p ps ih =>
    obtain ⟨h1, h2⟩ := h p (by simp)
    simp only [List.map_cons, List.flatten_cons, List.append_assoc, decRows]
    rw [List.take_left' rfl, List.drop_left' rfl]
    have hd := C05.dec_complete p.1.toArray p.2 (by simpa using h1)
    rw [h2] at hd
    rw [hd, ih (fun q hq => h q (by simp [hq]))]

theorem tableItem_pos {version k : Nat} (h : tableItem version = .ok k) : k = 2 ∨ k = 4 := by
  unfold tableItem at h
  split at h
  · left; injection h with h; exact h.symm
  · split at h
    · right; injection h with h; exact h.symm
    · simp at h

/-- `decode_rle` on a well-formed stream: a table of `h` row lengths followed by rows that
the *specification* decoder expands to `rowSize` bytes each. -/
theorem decodeRle_pairs (ps : List (BList × BList)) (w h depth version k : Nat)
    (hk : tableItem version = .ok k) (hh : ps.length = h)
    (hp : ∀ p ∈ ps, specDec p.1 = some p.2 ∧ p.2.length = rowSize w depth)
    (hfit : ∀ p ∈ ps, p.1.length < 256 ^ k) :
    decodeRle ((ps.map (·.1)).flatMap (fun e => beBytes k e.length) ++ (ps.map (·.1)).flatten)
      w h depth version = .ok (ps.map (·.2)).flatten := by
  have hk0 := tableItem_pos hk
  have htl : ((ps.map (·.1)).flatMap (fun e => beBytes k e.length)).length = h * k := by
    rw [length_flatMap_const _ k]
    · simp [hh]
    · intro a _; exact beBytes_length k _
  simp only [decodeRle, hk]
  rw [List.take_left' htl, List.drop_left' htl, htl]
  have h1 : h * k % k = 0 := Nat.mul_mod_left h k
  have h2 : h * k / k = h := Nat.mul_div_cancel h (by omega)
  simp only [h1, h2, ne_eq, not_true_eq_false, if_false]
  have e1 : (ps.map (·.1)).flatMap (fun e => beBytes k e.length) =
      (ps.map (·.1.length)).flatMap (beBytes k) := by
    simp [List.flatMap_map]
  have e2 : h = (ps.map (·.1.length)).length := by simp [hh]
  have hr := readVals_table k (ps.map (·.1.length)) []
    (by intro c hc; simp only [List.mem_map] at hc; obtain ⟨p, hp', rfl⟩ := hc; exact hfit p hp')
  rw [List.append_nil] at hr
  rw [e1]
  conv => lhs; arg 2; arg 2; rw [e2]
  rw [hr]
  have := decRows_pairs (rowSize w depth) ps [] hp
  rw [List.append_nil] at this
  exact this

/-! ### Splitting a raster into rows -/

theorem splitPlanes_spec (ps : Nat) (n : Nat) (d : BList) (hd : d.length = ps * n) :
    (splitPlanes ps n d).flatten = d ∧ (∀ r ∈ splitPlanes ps n d, r.length = ps) ∧
      (splitPlanes ps n d).length = n := by
  induction n generalizing d with
  | zero =>
    have : d = [] := List.eq_nil_of_length_eq_zero (by simpa using hd)
    subst this; simp [splitPlanes]
  | succ n ih =>
    have hle : ps ≤ d.length := by rw [hd, Nat.mul_succ]; omega
    have hdrop : (d.drop ps).length = ps * n := by
      rw [List.length_drop, hd, Nat.mul_succ]; omega
    obtain ⟨i1, i2, i3⟩ := ih (d.drop ps) hdrop
    simp only [splitPlanes, List.flatten_cons, i1, List.take_append_drop, List.length_cons, i3]
    refine ⟨trivial, ?_, trivial⟩
    intro r hr
    rcases List.mem_cons.mp hr with rfl | hr
    · rw [List.length_take]; omega
    · exact i2 r hr

theorem encRows_eq (rs h : Nat) (d : BList) :
    encRows rs h d = (splitPlanes rs h d).map (fun r => encPy r.toArray) := by
  induction h generalizing d with
  | zero => rfl
  | succ h ih => simp [encRows, splitPlanes, ih]

theorem splitPlanes_flatten (ps : Nat) (planes : List BList) (h : ∀ p ∈ planes, p.length = ps) :
    splitPlanes ps planes.length planes.flatten = planes := by
  induction planes with
  | nil => rfl
  | cons p planes ih =>
    have hp := h p (by simp)
    simp only [List.length_cons, List.flatten_cons, splitPlanes]
    rw [List.take_left' hp, List.drop_left' hp, ih (fun q hq => h q (by simp [hq]))]

end PsdVerif.Compression
