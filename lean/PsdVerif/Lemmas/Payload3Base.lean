/-
C01 payload classes, third batch — laws of the `struct`-format codec and of the `PCodec` combinators of
Model/Payload3Base.lean, each proved once.
-/
import PsdVerif.Lemmas.PayloadSimple
import PsdVerif.Model.Payload3Base

namespace PsdVerif.Payload3
open PsdVerif PsdVerif.Codec PsdVerif.Payload PsdVerif.Payload.PCodec

/-! ### struct formats -/

theorem length_packS (n : Nat) (b : B) : (packS n b).length = n := by
  simp only [packS, List.length_take, List.length_append, length_zeros]; omega

theorem packS_of_length {n : Nat} {b : B} (h : b.length = n) : packS n b = b := by
  subst h; simp only [packS, List.take_left']

theorem sWidth_of_ok {w : Nat} (h : (FT.s w).ok = true) : SWidth w := by
  simp only [FT.ok, Bool.or_eq_true, beq_iff_eq] at h
  unfold SWidth; omega

theorem FT.length_encT {t : FT} {v : FV} (hf : t.Fits v) : (t.encT v).length = t.size := by
  cases t <;> cases v <;> simp only [FT.Fits] at hf <;>
    simp only [FT.encT, FT.size, length_beBytes, length_sT, length_boolT, length_packS]

theorem FT.dec_step {t : FT} {v : FV} (hok : t.ok = true) (hf : t.Fits v) (hw : t.WF v) {d : B} {p : Nat} {rest : B}
    (h : At d p (t.encT v ++ rest)) : t.dec d p = .ok (v, p + t.size) ∧ At d (p + t.size) rest := by
  cases t with
  | u w =>
    cases v with
    | bytes b => simp only [FT.Fits] at hf
    | int z =>
      simp only [FT.Fits] at hf
      simp only [FT.encT] at h
      obtain ⟨e, h'⟩ := readU_step h hf.2
      refine ⟨?_, h'⟩
      simp only [FT.dec, e, FT.size, Int.toNat_of_nonneg hf.1]
  | s w =>
    cases v with
    | bytes b => simp only [FT.Fits] at hf
    | int z =>
      simp only [FT.Fits] at hf
      simp only [FT.encT] at h
      obtain ⟨e, h'⟩ := readS_step (sWidth_of_ok hok) h hf
      exact ⟨by simp only [FT.dec, e, FT.size], h'⟩
  | q =>
    cases v with
    | bytes b => simp only [FT.Fits] at hf
    | int z =>
      simp only [FT.WF] at hw
      simp only [FT.encT] at h
      obtain ⟨e, h'⟩ := readBool_step h
      refine ⟨?_, h'⟩
      simp only [FT.dec, e, FT.size]
      rcases hw with rfl | rfl <;> rfl
  | str n =>
    cases v with
    | int z => simp only [FT.Fits] at hf
    | bytes b =>
      simp only [FT.WF] at hw
      simp only [FT.encT, packS_of_length hw] at h
      obtain ⟨e, h'⟩ := readN_step h hw
      exact ⟨by simp only [FT.dec, e, FT.size], h'⟩

theorem length_fmtT : ∀ (fs : List FI) (vs : Row), fmtFits fs vs → (fmtT fs vs).length = fmtSize fs
  | [], _, _ => rfl
  | .pad n :: fs, vs, hf => by
    simp only [fmtFits] at hf
    simp only [fmtT, fmtSize, List.length_append, length_zeros, length_fmtT fs vs hf]
  | .fld t :: fs, v :: vs, hf => by
    simp only [fmtFits] at hf
    simp only [fmtT, fmtSize, List.length_append, FT.length_encT hf.1, length_fmtT fs vs hf.2]
  | .fld _ :: _, [], hf => by simp only [fmtFits] at hf

/-- `read_fmt(fmt, fp)` returns the row `write_fmt(fp, fmt, *row)` wrote -/
theorem fmt_step : ∀ (fs : List FI) (vs : Row), fs.all FI.ok = true → fmtFits fs vs → fmtWF fs vs →
    ∀ {d : B} {p : Nat} {rest : B}, At d p (fmtT fs vs ++ rest) →
      fmtDec fs d p = .ok (vs, p + fmtSize fs) ∧ At d (p + fmtSize fs) rest
  | [], vs, _, hf, _, d, p, rest, h => by
    simp only [fmtFits] at hf
    subst hf
    exact ⟨rfl, by simpa [fmtT, fmtSize] using h⟩
  | .pad n :: fs, vs, hok, hf, hw, d, p, rest, h => by
    simp only [List.all_cons, Bool.and_eq_true] at hok
    simp only [fmtFits] at hf
    simp only [fmtWF] at hw
    simp only [fmtT, List.append_assoc] at h
    obtain ⟨e1, h⟩ := readSkip_step h
    obtain ⟨e2, h⟩ := fmt_step fs vs hok.2 hf hw h
    exact ⟨by simp only [fmtDec, e1, e2, fmtSize, Nat.add_assoc], by simpa only [fmtSize, Nat.add_assoc] using h⟩
  | .fld t :: fs, v :: vs, hok, hf, hw, d, p, rest, h => by
    simp only [List.all_cons, Bool.and_eq_true, FI.ok] at hok
    simp only [fmtFits] at hf
    simp only [fmtWF] at hw
    simp only [fmtT, List.append_assoc] at h
    obtain ⟨e1, h⟩ := FT.dec_step hok.1 hf.1 hw.1 h
    obtain ⟨e2, h⟩ := fmt_step fs vs hok.2 hf.2 hw.2 h
    exact ⟨by simp only [fmtDec, e1, e2, fmtSize, Nat.add_assoc], by simpa only [fmtSize, Nat.add_assoc] using h⟩
  | .fld _ :: _, [], _, hf, _, _, _, _, _ => by simp only [fmtFits] at hf

/-! ### combinators -/

variable {α β : Type}

/-- the reader consumes everything the writer wrote (no trailing filler) -/
def Tight (c : PCodec α) : Prop := ∀ v, c.Fits v → c.consumed v = (c.encT v).length

theorem step_of {c : PCodec α} (h : c.RtAnywhere) (ht : Tight c) {v : α} (hw : c.WF v) (hf : c.Fits v) {d : B} {p : Nat}
    {rest : B} (hat : At d p (c.encT v ++ rest)) :
    c.dec d p = .ok (v, p + (c.encT v).length) ∧ At d (p + (c.encT v).length) rest :=
  ⟨by rw [← ht v hf]; exact h v hw hf d p hat.left, hat.right⟩

theorem item_of {c : PCodec α} (h : c.RtAnywhere) (ht : Tight c) {v : α} (hw : c.WF v) (hf : c.Fits v) (d : B) (p : Nat)
    (hat : At d p (c.encT v)) : c.dec d p = .ok (v, p + (c.encT v).length) := by
  rw [← ht v hf]; exact h v hw hf d p hat

theorem rec_rt (fs : List FI) (hok : fs.all FI.ok = true) : (rec fs).RtAnywhere :=
  fun vs hw hf _ _ h => (fmt_step fs vs hok hf hw h.nil_right).1
theorem rec_tight (fs : List FI) : Tight (rec fs) := fun vs hf => (length_fmtT fs vs hf).symm
theorem rec_count (fs : List FI) : (rec fs).Count := fun _ => rfl

theorem seq_rt {a : PCodec α} {b : PCodec β} (ha : a.RtAnywhere) (hta : Tight a) (hb : b.RtAnywhere) :
    (seq a b).RtAnywhere := by
  intro v hwf hf d p h
  obtain ⟨e1, h'⟩ := step_of ha hta hwf.1 hf.1 (show At d p (a.encT v.1 ++ b.encT v.2) from h)
  have e2 := hb v.2 hwf.2 hf.2 d _ h'
  simp only [seq, bind, Except.bind, e1, e2, Nat.add_assoc]

theorem seq_rt_end {a : PCodec α} {b : PCodec β} (ha : a.RtAnywhere) (hta : Tight a) (hb : b.RtAtEnd) :
    (seq a b).RtAtEnd := by
  intro v hwf hf d p h hend
  obtain ⟨e1, h'⟩ := step_of ha hta hwf.1 hf.1 (show At d p (a.encT v.1 ++ b.encT v.2) from h)
  have hend' : p + (a.encT v.1).length + (b.encT v.2).length = d.length := by
    have : ((seq a b).encT v).length = (a.encT v.1).length + (b.encT v.2).length := by simp only [seq, List.length_append]
    omega
  have e2 := hb v.2 hwf.2 hf.2 d _ h' hend'
  simp only [seq, bind, Except.bind, e1, e2, Nat.add_assoc]

theorem seq_tight {a : PCodec α} {b : PCodec β} (htb : Tight b) : Tight (seq a b) := by
  intro v hf
  simp only [seq, List.length_append, htb v.2 hf.2]

theorem seq_count {a : PCodec α} {b : PCodec β} (ha : a.Count) (hb : b.Count) : (seq a b).Count := by
  intro v
  simp only [seq, ha v.1, hb v.2, wSeq_eq]

theorem counted_rt {c : PCodec α} (w : Nat) (hc : c.RtAnywhere) (ht : Tight c) : (counted w c).RtAnywhere := by
  intro vs hwf hf d p h
  have h : At d p (beBytes w vs.length ++ (listT c.encT vs ++ [])) := by simpa [counted] using h
  obtain ⟨e1, h⟩ := readU_step h hf.1
  obtain ⟨e2, _⟩ := Psd.readCount_step c.dec c.encT vs
    (fun v hv d p hat => item_of hc ht (hwf v hv) (hf.2 v hv) d p hat) h
  simp only [counted, bind, Except.bind, e1, e2, Nat.add_assoc]

theorem counted_tight {c : PCodec α} (w : Nat) : Tight (counted w c) := by
  intro vs _
  simp only [counted, List.length_append, length_beBytes]

theorem counted_count {c : PCodec α} (w : Nat) (hc : c.Count) : (counted w c).Count := by
  intro vs
  simp only [counted]
  rw [wList_eq _ c.encT vs (fun v _ => hc v)]
  simp only [wBytes_eq, wSeq_eq]

theorem exactly_rt {c : PCodec α} (n : Nat) (hc : c.RtAnywhere) (ht : Tight c) : (exactly n c).RtAnywhere := by
  intro vs hwf hf d p h
  obtain ⟨hn, hwf⟩ := hwf
  have e := readCount_at c.dec c.encT vs (fun v hv d p hat => item_of hc ht (hwf v hv) (hf v hv) d p hat)
    (show At d p (listT c.encT vs) from h)
  rw [hn] at e
  exact e

theorem exactly_tight {c : PCodec α} (n : Nat) : Tight (exactly n c) := fun _ _ => rfl

theorem exactly_count {c : PCodec α} (n : Nat) (hc : c.Count) : (exactly n c).Count := by
  intro vs
  simp only [exactly]
  rw [wList_eq _ c.encT vs (fun v _ => hc v)]

/-- `while is_readable(fp, n)`: every item has at least `n` bytes, the final filler fewer -/
theorem whileR_rt {c : PCodec α} (n pad : Nat) (hc : c.RtAnywhere) (ht : Tight c)
    (hlen : ∀ v, c.Fits v → n ≤ (c.encT v).length) (hn : 0 < n) (hpad : 0 < pad ∧ pad ≤ n) : (whileR n pad c).RtAtEnd := by
  intro vs hwf hf d p h hend
  simp only [whileR] at h hend ⊢
  simp only [List.length_append, length_zeros] at hend
  have hlt := padAmount_lt (listT c.encT vs).length pad hpad.1
  apply readWhile_at (isReadable n) (optItem c.dec) c.encT vs _ _ h.left
  · exact isReadable_false (by omega)
  · intro v hv q hq
    refine ⟨isReadable_of_at hq (hlen v (hf v hv)), ?_⟩
    simp only [optItem, item_of hc ht (hwf v hv) (hf v hv) d q hq]
  · intro v hv; have := hlen v (hf v hv); omega

theorem whileR_count {c : PCodec α} (n pad : Nat) (hc : c.Count) : (whileR n pad c).Count := by
  intro vs
  simp only [whileR]
  rw [wList_eq _ c.encT vs (fun v _ => hc v)]
  simp only [wSeq_eq, wPad_eq]

theorem whileR_tight1 {c : PCodec α} (n : Nat) : Tight (whileR n 1 c) := by
  intro vs _
  simp only [whileR, padAmount_one, zeros, List.replicate_zero, List.append_nil]

theorem padded_rt {c : PCodec α} (pad : Nat) (hc : c.RtAnywhere) : (padded pad c).RtAnywhere :=
  fun v hwf hf d p h => hc v hwf hf d p (show At d p (c.encT v ++ _) from h).left

theorem padded_count {c : PCodec α} (pad : Nat) (hc : c.Count) : (padded pad c).Count := by
  intro v
  simp only [padded, hc v, wSeq_eq, wPad_eq]

theorem checked_rt {c : PCodec α} {ok : α → Prop} [DecidablePred ok] {e : Err} (hc : c.RtAnywhere) :
    (checked c ok e).RtAnywhere := by
  intro v hwf hf d p h
  have e1 := hc v hwf.1 hf d p h
  simp only [checked, bind, Except.bind, e1, if_pos hwf.2]

theorem checked_rt_end {c : PCodec α} {ok : α → Prop} [DecidablePred ok] {e : Err} (hc : c.RtAtEnd) :
    (checked c ok e).RtAtEnd := by
  intro v hwf hf d p h hend
  have e1 := hc v hwf.1 hf d p h hend
  simp only [checked, bind, Except.bind, e1, if_pos hwf.2]

theorem checked_tight {c : PCodec α} {ok : α → Prop} [DecidablePred ok] {e : Err} (ht : Tight c) : Tight (checked c ok e) :=
  fun v hf => ht v hf

theorem checked_count {c : PCodec α} {ok : α → Prop} [DecidablePred ok] {e : Err} (hc : c.Count) : (checked c ok e).Count :=
  fun v => hc v

theorem tailBytes_rt : tailBytes.RtAtEnd := by
  intro v _ _ d p h hend
  exact readAll_at_end h hend

theorem tailBytes_count : tailBytes.Count := fun _ => rfl
theorem tailBytes_tight : Tight tailBytes := fun _ _ => rfl

theorem pascal_rt (pad : Nat) : (pascal pad pad).RtAnywhere := fun s _ hf _ _ h => readPascal_at h hf
theorem pascal_count (pw pr : Nat) : (pascal pw pr).Count := fun s => wPascal_eq pw s
theorem pascal_tight (pw pr : Nat) : Tight (pascal pw pr) := fun _ _ => rfl

/-- written without filler, read with any padding at the end of a stream: `read_padding` finds nothing to take -/
theorem pascal_rt_end (pr : Nat) : (pascal 1 pr).RtAtEnd := by
  intro s _ hf d p h hend
  have hT : pascalT 1 s = beBytes 1 s.length ++ (s ++ []) := by
    simp only [pascalT, padAmount_one, zeros, List.replicate_zero, List.append_nil]
  simp only [pascal] at h hend hf ⊢
  rw [hT] at h hend ⊢
  obtain ⟨e1, h1⟩ := readU_step h (show s.length < 256 ^ 1 by simpa using hf)
  have e2 := readUpTo_at h1.left
  simp only [List.length_append, length_beBytes, List.length_nil, Nat.add_zero] at hend ⊢
  have hd : (d.drop (p + 1 + s.length)) = [] := by
    apply List.drop_eq_nil_of_le; omega
  have e3 : readPadding (p + 1 + s.length - p) pr d (p + 1 + s.length) = .ok ((), p + 1 + s.length) := by
    simp only [readPadding, readUpTo, hd, List.take_nil, List.length_nil, Nat.add_zero]
  unfold readPascal
  rw [e1]
  simp only
  rw [e2]
  simp only [ne_eq, not_true_eq_false, if_false]
  rw [e3]
  simp only [Nat.add_assoc]

theorem ustr_rt : ustr.RtAnywhere := StringElement.rt 1 1
theorem ustr_count : ustr.Count := StringElement.count 1 1
theorem ustr_tight : Tight ustr := by
  intro s _
  simp only [ustr, StringElement.codec, if_true, length_ustrT, padAmount_one, Nat.add_zero]


theorem blocked_rt {c : PCodec α} (w pad : Nat) (hc : c.RtAtEnd) (ht : Tight c) (hp : (0 + w) % pad = 0) :
    (blocked w pad c).RtAnywhere := by
  intro v hwf hf d p h
  have e1 := readLenBlock_at (skip := 0) h hf.2 hp
  have e2 := hc v hwf hf.1 (c.encT v) 0 (At.self _) (by omega)
  rw [ht v hf.1] at e2
  simp only [blocked, bind, Except.bind, e1, e2]

theorem blocked_tight {c : PCodec α} (w pad : Nat) : Tight (blocked w pad c) := fun _ _ => rfl

theorem blocked_count {c : PCodec α} (w pad : Nat) (hc : c.Count) : (blocked w pad c).Count := by
  intro v
  simp only [blocked, hc v, wLenBlock_eq]

theorem blocked_ge {c : PCodec α} (w pad : Nat) : ∀ v, (blocked w pad c).Fits v → w ≤ ((blocked w pad c).encT v).length := by
  intro v _
  simp only [blocked, length_lenBlockT]; omega

theorem optTail_rt {c : PCodec α} (hc : c.RtAtEnd) (ht : Tight c) (hpos : ∀ v, c.Fits v → 1 ≤ (c.encT v).length) :
    (optTail c).RtAtEnd := by
  intro o hwf hf d p h hend
  cases o with
  | none =>
    simp only [optTail, optT, List.length_nil, Nat.add_zero] at hend ⊢
    simp only [isReadable_false (by omega : d.length < p + 1), Bool.false_eq_true, if_false]
  | some v =>
    simp only [optTail, optT, optFits] at h hend hwf hf ⊢
    have r1 : isReadable 1 d p = true := isReadable_of_at h (hpos v hf)
    have e1 := hc v hwf hf d p h hend
    rw [ht v hf] at e1
    simp only [r1, if_true, e1]

theorem optTail_count {c : PCodec α} (hc : c.Count) : (optTail c).Count := by
  intro o
  cases o with
  | none => rfl
  | some v => exact hc v

/-! ### what the property theorems need beyond Lemmas/PayloadBase.lean -/

/-- as the payload of a skeleton image resource: `ImageResource.read` takes the length block and runs the payload reader
(`TYPES[key].frombytes(raw_data)`) on exactly those bytes, from position 0 of their own `BytesIO` -/
def ResourcePayload (c : PCodec α) : Prop :=
  ∀ r : Psd.Resource, r.WF → ∀ v, c.WF v → c.enc v = .ok r.data → ∀ pre post : B,
    Psd.Resource.dec (pre ++ r.encT ++ post) pre.length = .ok (r, pre.length + r.encT.length) ∧
      c.dec r.data 0 = .ok (v, c.consumed v)

theorem resourcePayload_of {c : PCodec α} (h : c.RtAtEnd) : ResourcePayload c := by
  intro r hwf v hv henc pre post
  refine ⟨Psd.Resource.dec_at hwf (At.intro pre _ post), ?_⟩
  simpa using roundtrip_at_end h v hv r.data [] henc

end PsdVerif.Payload3
