/-
Helper lemmas for C17: lists of equal-size planes (join / split), `traverse`,
the sources of the planes chosen by `mergedRoutes`.
Core Lean only.
-/
import PsdVerif.Model.Merged
import PsdVerif.Lemmas.Pixels
set_option linter.unusedSimpArgs false

namespace PsdVerif.Merged
open PsdVerif PsdVerif.Pixels

/-! ### join / split -/

theorem flatten_length_of_all {β : Type} (ps : List (List β)) (size : Nat)
    (h : ∀ p ∈ ps, p.length = size) : ps.flatten.length = ps.length * size := by
  induction ps with
  | nil => simp
  | cons p ps ih =>
    have hp := h p (List.mem_cons_self ..)
    have := ih (fun q hq => h q (List.mem_cons_of_mem _ hq))
    simp [List.flatten_cons, hp, this, Nat.add_mul, Nat.add_comm]

theorem chunks_flatten (ps : List (List UInt8)) (size : Nat) (h : ∀ p ∈ ps, p.length = size) :
    chunks ps.flatten size ps.length = ps := by
  induction ps with
  | nil => simp [chunks]
  | cons p ps ih =>
    have hp := h p (List.mem_cons_self ..)
    have := ih (fun q hq => h q (List.mem_cons_of_mem _ hq))
    simp only [List.flatten_cons, List.length_cons, chunks]
    rw [List.take_left' hp, List.drop_left' hp, this]

theorem chunks_length (data : List UInt8) (size n : Nat) : (chunks data size n).length = n := by
  induction n generalizing data with
  | zero => simp [chunks]
  | succ n ih => simp [chunks, ih]

theorem chunks_all_length (data : List UInt8) (size n : Nat) (h : size * n ≤ data.length) :
    ∀ p ∈ chunks data size n, p.length = size := by
  induction n generalizing data with
  | zero => simp [chunks]
  | succ n ih =>
    intro p hp
    simp only [chunks, List.mem_cons] at hp
    have h1 : size ≤ data.length := by
      have : size * (n + 1) = size * n + size := by rw [Nat.mul_succ]
      omega
    rcases hp with rfl | hp
    · simp [List.length_take, h1]
    · refine ih (data.drop size) ?_ p hp
      have : size * (n + 1) = size * n + size := by rw [Nat.mul_succ]
      simp only [List.length_drop]
      omega

theorem section_eq (h : Header) : sectionBytes h = h.channels * planeBytes h := by
  unfold sectionBytes planeBytes
  simp [Nat.mul_comm, Nat.mul_left_comm, Nat.mul_assoc]

/-- what `set_data` stored with the header geometry, `get_data` returns — for every codec -/
theorem getData_setData (c : Comp) (planes : List (List UInt8)) (h : Header)
    (hl : planes.length = h.channels) (hs : ∀ p ∈ planes, p.length = planeBytes h) (hc : 0 < h.channels) :
    getData (setData c planes h) h = .ok planes := by
  have hflat : planes.flatten.length = sectionBytes h := by
    rw [flatten_length_of_all planes _ hs, hl, section_eq]
  have hdiv : sectionBytes h / h.channels = planeBytes h := by
    rw [section_eq]; exact Nat.mul_div_cancel_left _ hc
  have hne : h.channels ≠ 0 := by omega
  have hchunks : chunks planes.flatten (planeBytes h) h.channels = planes := by
    rw [← hl]; exact chunks_flatten planes _ hs
  cases c <;>
    simp [getData, setData, hflat, hdiv, hne, hchunks, List.take_of_length_le]

/-! ### traverse -/

theorem traverse_all {β γ : Type} (f : β → Except Err γ) (P : γ → Prop) (l : List β)
    (h : ∀ x ∈ l, ∃ y, f x = .ok y ∧ P y) :
    ∃ ys, traverse f l = .ok ys ∧ ys.length = l.length ∧ ∀ y ∈ ys, P y := by
  induction l with
  | nil => exact ⟨[], rfl, rfl, by simp⟩
  | cons x xs ih =>
    obtain ⟨y, hy, hpy⟩ := h x (List.mem_cons_self ..)
    obtain ⟨ys, hys, hlen, hall⟩ := ih (fun z hz => h z (List.mem_cons_of_mem _ hz))
    refine ⟨y :: ys, by simp [traverse, hy, hys], by simp [hlen], ?_⟩
    intro z hz
    simp only [List.mem_cons] at hz
    rcases hz with rfl | hz
    · exact hpy
    · exact hall z hz

/-! ### the sources chosen by `mergedRoutes` -/

/-- a source that `realise` can serve: colour channels the composite has, old planes that exist -/
def PlaneSrc.Valid (ncolor nold : Nat) : PlaneSrc → Prop
  | .colorFlat k => k < ncolor
  | .color k => k < ncolor
  | .alpha => True
  | .old k => k < nold
  | .fill => True

theorem pySet_ok {β : Type} (l : List β) (i : Nat) (x : β) (h : i < l.length) :
    pySet l i x = .ok (l.set i x) := by simp [pySet, h]

theorem set_valid (nc no : Nat) (l : List PlaneSrc) (i : Nat) (x : PlaneSrc)
    (hl : ∀ y ∈ l, y.Valid nc no) (hx : x.Valid nc no) : ∀ y ∈ l.set i x, y.Valid nc no := by
  intro y hy
  rcases List.mem_or_eq_of_mem_set hy with h | h
  · exact hl y h
  · exact h ▸ hx

theorem setColours_ok (flat : Bool) (nc no : Nat) (n : Nat) (l : List PlaneSrc) (hn : n ≤ l.length)
    (hnc : n ≤ nc) (hl : ∀ y ∈ l, y.Valid nc no) :
    ∃ l', setColours flat n l = .ok l' ∧ l'.length = l.length ∧ ∀ y ∈ l', y.Valid nc no := by
  induction n with
  | zero => exact ⟨l, rfl, rfl, hl⟩
  | succ n ih =>
    obtain ⟨l', h1, h2, h3⟩ := ih (by omega) (by omega)
    refine ⟨l'.set n (if flat then .colorFlat n else .color n), ?_, by simp [h2], ?_⟩
    · simp only [setColours, h1]
      exact pySet_ok _ _ _ (by omega)
    · apply set_valid nc no l' n _ h3
      cases flat <;> simp [PlaneSrc.Valid] <;> omega

theorem mergedRoutes_ok (m : Meta) (rd : Bool)
    (hd : m.header.depth = 8 ∨ m.header.depth = 16 ∨ m.header.depth = 32) (hb : m.header.cmode ≠ .bitmap)
    (hch : m.header.cmode.expected ≤ m.header.channels) :
    ∃ rs, mergedRoutes m rd = .ok (some rs) ∧ rs.length = m.header.channels ∧
      ∀ r ∈ rs, r.Valid m.header.cmode.expected (if rd then m.header.channels else 0) := by
  have hstart : ∀ y ∈ (List.range m.header.channels).map
      (fun k => if rd then PlaneSrc.old k else .fill),
      y.Valid m.header.cmode.expected (if rd then m.header.channels else 0) := by
    intro y hy
    simp only [List.mem_map, List.mem_range] at hy
    obtain ⟨k, hk, rfl⟩ := hy
    cases rd <;> simp [PlaneSrc.Valid, hk]
  obtain ⟨l', h1, h2, h3⟩ := setColours_ok
    (!(decide (m.header.channels > m.header.cmode.expected) && m.hasTransparency) || decide (m.header.cmode = .rgb))
    m.header.cmode.expected (if rd then m.header.channels else 0) m.header.cmode.expected
    ((List.range m.header.channels).map (fun k => if rd then PlaneSrc.old k else .fill))
    (by simp; exact hch) (Nat.le_refl _) hstart
  simp only [List.length_map, List.length_range] at h2
  unfold mergedRoutes
  have hsup : ¬ (¬(m.header.depth = 8 ∨ m.header.depth = 16 ∨ m.header.depth = 32) ∨ m.header.cmode = .bitmap) := by
    intro h; rcases h with h | h
    · exact h hd
    · exact hb h
  simp only [hsup, if_false, h1]
  by_cases ht : (decide (m.header.channels > m.header.cmode.expected) && m.hasTransparency) = true
  · simp only [ht, if_true]
    have hgt : m.header.channels > m.header.cmode.expected := by
      simp only [Bool.and_eq_true, decide_eq_true_eq] at ht; exact ht.1
    have hidx : (m.transparencyIndex % (m.header.channels : Int)).toNat < m.header.channels := by
      have hpos : (0 : Int) < (m.header.channels : Int) := by omega
      have h1 := Int.emod_nonneg m.transparencyIndex (by omega : (m.header.channels : Int) ≠ 0)
      have h2 := Int.emod_lt_of_pos m.transparencyIndex hpos
      omega
    have hmax : max (m.transparencyIndex % (m.header.channels : Int)).toNat m.header.cmode.expected < l'.length := by
      rw [h2]; omega
    rw [pySet_ok _ _ _ hmax]
    exact ⟨_, rfl, by simp [h2], set_valid _ _ l' _ PlaneSrc.alpha h3 (by simp [PlaneSrc.Valid])⟩
  · simp only [ht, if_false, Bool.false_eq_true]
    exact ⟨l', rfl, h2, h3⟩

theorem encPlane_length {α : Type} (Q : Quant α) (hQ : Q.Lawful) (d : Nat) (p : List α) :
    (encPlane Q d p).length = p.length * (d / 8) := by
  unfold encPlane
  rw [flatten_length_of_all _ (d / 8)]
  · simp
  · intro q hq
    simp only [List.mem_map] at hq
    obtain ⟨x, _, rfl⟩ := hq
    exact hQ d x

theorem realise_ok {α : Type} (Q : Quant α) (hQ : Q.Lawful) (h : Header)
    (hd : h.depth = 8 ∨ h.depth = 16 ∨ h.depth = 32)
    (c : Composite α) (hc : c.WF h) (old : List (List UInt8))
    (hold : ∀ p ∈ old, p.length = planeBytes h) (r : PlaneSrc)
    (hr : r.Valid h.cmode.expected old.length) :
    ∃ p, realise Q h.depth c old r = .ok p ∧ p.length = planeBytes h := by
  obtain ⟨hc1, hc2, hc3⟩ := hc
  have hpb : planeBytes h = h.width * h.height * (h.depth / 8) := by
    unfold planeBytes
    rcases hd with hd | hd | hd <;> simp [hd]
  cases r with
  | colorFlat k =>
    simp only [PlaneSrc.Valid] at hr
    have hk : k < c.color.length := by omega
    have hp := hc2 c.color[k] (List.getElem_mem hk)
    refine ⟨encPlane Q h.depth (List.zipWith Q.flat c.color[k] c.alpha),
      by simp [realise, List.getElem?_eq_getElem hk], ?_⟩
    rw [encPlane_length Q hQ, hpb]
    simp [hp, hc3]
  | color k =>
    simp only [PlaneSrc.Valid] at hr
    have hk : k < c.color.length := by omega
    have hp := hc2 c.color[k] (List.getElem_mem hk)
    refine ⟨encPlane Q h.depth c.color[k], by simp [realise, List.getElem?_eq_getElem hk], ?_⟩
    rw [encPlane_length Q hQ, hpb, hp]
  | alpha =>
    refine ⟨_, rfl, ?_⟩
    rw [encPlane_length Q hQ, hpb, hc3]
  | old k =>
    simp only [PlaneSrc.Valid] at hr
    refine ⟨old[k], by simp [realise, List.getElem?_eq_getElem hr], ?_⟩
    exact hold _ (List.getElem_mem hr)
  | fill =>
    refine ⟨_, rfl, ?_⟩
    rw [encPlane_length Q hQ, hpb]
    simp [hc3]

/-- the planes `get_data` returns have the header geometry -/
theorem getData_geometry (d : ImageData) (h : Header) (ps : List (List UInt8))
    (hg : getData d h = .ok ps) : ps.length = h.channels ∧ ∀ p ∈ ps, p.length = planeBytes h := by
  unfold getData at hg
  have key : ∀ data : List UInt8, data.length = sectionBytes h → h.channels ≠ 0 →
      (chunks data (data.length / h.channels) h.channels).length = h.channels ∧
      ∀ p ∈ chunks data (data.length / h.channels) h.channels, p.length = planeBytes h := by
    intro data hlen hne
    have hdiv : data.length / h.channels = planeBytes h := by
      rw [hlen, section_eq]; exact Nat.mul_div_cancel_left _ (by omega)
    rw [hdiv]
    refine ⟨chunks_length _ _ _, chunks_all_length _ _ _ ?_⟩
    rw [hlen, section_eq, Nat.mul_comm]
    exact Nat.le_refl _
  cases hcomp : d.comp <;> simp only [hcomp] at hg
  · by_cases hl : d.payload.length ≥ sectionBytes h
    · simp only [hl, if_true] at hg
      by_cases h0 : h.channels = 0
      · simp [h0] at hg
      · simp only [h0, if_false, Except.ok.injEq] at hg
        subst hg
        exact key _ (by simp [List.length_take]; omega) h0
    · simp [hl] at hg
  all_goals
    by_cases hl : d.payload.length = sectionBytes h
    · simp only [hl, if_true, Nat.lt_irrefl, if_false] at hg
      by_cases h0 : h.channels = 0
      · simp [h0] at hg
      · simp only [h0, if_false, Except.ok.injEq] at hg
        subst hg
        have := key _ hl h0
        rw [hl] at this
        exact this
    · by_cases hlt : sectionBytes h < d.payload.length
      · simp [hl, hlt] at hg
      · simp [hl, hlt] at hg

/-! ### `save` in terms of `regenerate`; what a save keeps -/

theorem setData_comp (c : Comp) (planes : List (List UInt8)) (h : Header) : (setData c planes h).comp = c := by
  cases c <;> rfl

theorem save_eq_regenerate {α : Type} (Q : Quant α) (s : DocState) (c : Composite α) :
    save Q s c = if !s.dirty then .ok s else
      match regenerate Q s c with
      | .error e => .error e
      | .ok none => .ok s
      | .ok (some planes) =>
        .ok { s with imageData := setData s.imageData.comp planes s.info.header,
                     info := { s.info with versionInfo := s.info.versionInfo.map fun _ => true } } := by
  unfold save regenerate
  cases hd : s.dirty
  · simp
  · simp only [Bool.not_true, Bool.false_eq_true, if_false]
    cases mergedRoutes s.info (match getData s.imageData s.info.header with | .ok _ => true | .error _ => false) with
    | error e => rfl
    | ok r =>
      cases r with
      | none => rfl
      | some routes =>
        simp only
        cases traverse (realise Q s.info.header.depth c
          (match getData s.imageData s.info.header with | .ok ps => ps | .error _ => [])) routes <;> rfl

/-- the flag, the header and the compression method survive a save -/
theorem save_keeps {α : Type} (Q : Quant α) (s s' : DocState) (c : Composite α) (h : save Q s c = .ok s') :
    s'.dirty = s.dirty ∧ s'.info.header = s.info.header ∧ s'.imageData.comp = s.imageData.comp := by
  rw [save_eq_regenerate] at h
  cases hd : s.dirty
  · simp [hd] at h; subst h; exact ⟨hd, rfl, rfl⟩
  · simp only [hd, Bool.not_true, Bool.false_eq_true, if_false] at h
    cases hr : regenerate Q s c with
    | error e => simp [hr] at h
    | ok r =>
      cases r with
      | none => simp [hr] at h; subst h; exact ⟨hd, rfl, rfl⟩
      | some planes =>
        simp [hr] at h; subst h
        exact ⟨rfl, rfl, setData_comp _ _ _⟩

/-- for a supported document the regeneration succeeds with planes of the header geometry -/
theorem regenerate_ok {α : Type} (Q : Quant α) (hQ : Q.Lawful) (s : DocState) (c : Composite α)
    (hdep : s.info.header.depth = 8 ∨ s.info.header.depth = 16 ∨ s.info.header.depth = 32)
    (hb : s.info.header.cmode ≠ .bitmap)
    (hch : s.info.header.cmode.expected ≤ s.info.header.channels) (hc : c.WF s.info.header) :
    ∃ planes, regenerate Q s c = .ok (some planes) ∧ planes.length = s.info.header.channels ∧
      ∀ p ∈ planes, p.length = planeBytes s.info.header := by
  cases hold : getData s.imageData s.info.header with
  | ok ps =>
    obtain ⟨hl, hsz⟩ := getData_geometry _ _ _ hold
    obtain ⟨rs, hrs, hrl, hrv⟩ := mergedRoutes_ok s.info true hdep hb hch
    simp only [if_true] at hrv
    obtain ⟨planes, hp, hpl, hpall⟩ := traverse_all (realise Q s.info.header.depth c ps)
      (fun p => p.length = planeBytes s.info.header) rs
      (fun r hr => realise_ok Q hQ s.info.header hdep c hc ps hsz r (by rw [hl]; exact hrv r hr))
    exact ⟨planes, by simp [regenerate, hold, hrs, hp], by rw [hpl, hrl], hpall⟩
  | error e =>
    obtain ⟨rs, hrs, hrl, hrv⟩ := mergedRoutes_ok s.info false hdep hb hch
    simp only [Bool.false_eq_true, if_false] at hrv
    obtain ⟨planes, hp, hpl, hpall⟩ := traverse_all (realise Q s.info.header.depth c [])
      (fun p => p.length = planeBytes s.info.header) rs
      (fun r hr => realise_ok Q hQ s.info.header hdep c hc [] (by simp) r (by simpa using hrv r hr))
    exact ⟨planes, by simp [regenerate, hold, hrs, hp], by rw [hpl, hrl], hpall⟩

/-! ### histories -/

theorem runEvents_ops {α : Type} (Q : Quant α) (s : DocState) (ops : List Op) :
    runEvents Q s (ops.map Event.op) = .ok { s with dirty := dirtyAfter s.dirty ops } := by
  induction ops generalizing s with
  | nil => simp [runEvents, dirtyAfter]
  | cons o os ih =>
    simp only [List.map_cons, runEvents, step]
    rw [ih]
    simp [dirtyAfter, Bool.or_assoc]

theorem runEvents_append {α : Type} (Q : Quant α) (s s' : DocState) (es fs : List (Event α))
    (h : runEvents Q s es = .ok s') : runEvents Q s (es ++ fs) = runEvents Q s' fs := by
  induction es generalizing s with
  | nil => simp [runEvents] at h; subst h; rfl
  | cons e es ih =>
    simp only [List.cons_append, runEvents] at h ⊢
    cases hs : step Q s e with
    | error err => simp [hs] at h
    | ok t => simp only [hs] at h ⊢; exact ih t h

end PsdVerif.Merged
