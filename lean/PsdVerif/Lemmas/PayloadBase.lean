/-
C01 payload classes — laws of the primitives of Model/PayloadBase.lean (each proved once, in the `…_step` form of
Lemmas/Codec.lean) and the theorems every payload model gets from its two laws `Rt…` and `Count`.
-/
import PsdVerif.Lemmas.CodecLaws
import PsdVerif.Lemmas.CodecPsd1
import PsdVerif.Lemmas.Unicode
import PsdVerif.Model.PayloadBase

namespace PsdVerif.Payload
open PsdVerif PsdVerif.Codec

/-! ### primitives -/

theorem length_f64T (x : UInt64) : (f64T x).length = 8 := length_beBytes _ _

theorem readF64_step {d : B} {p : Nat} {x : UInt64} {rest : B} (h : At d p (f64T x ++ rest)) :
    readF64 d p = .ok (x, p + 8) ∧ At d (p + 8) rest := by
  have hx : x.toNat < 256 ^ 8 := by have := x.toNat_lt; omega
  obtain ⟨e, h'⟩ := readU_step (w := 8) h hx
  refine ⟨?_, h'⟩
  simp only [readF64, e, UInt64.ofNat_toNat]

theorem length_boolT (b : Bool) : (boolT b).length = 1 := rfl

theorem readBool_step {d : B} {p : Nat} {b : Bool} {rest : B} (h : At d p (boolT b ++ rest)) :
    readBool d p = .ok (b, p + 1) ∧ At d (p + 1) rest := by
  have hb : boolT b = beBytes 1 (if b then 1 else 0) := by cases b <;> rfl
  rw [hb] at h
  obtain ⟨e, h'⟩ := readU_step (w := 1) h (by cases b <;> decide)
  refine ⟨?_, h'⟩
  simp only [readBool, e]
  cases b <;> rfl

theorem readSkip_step {d : B} {p n : Nat} {rest : B} (h : At d p (zeros n ++ rest)) :
    readSkip n d p = .ok ((), p + n) ∧ At d (p + n) rest := by
  obtain ⟨e, h'⟩ := readN_step h (length_zeros n)
  exact ⟨by simp only [readSkip, e], h'⟩

theorem readSized_at {d : B} {p : Nat} {bs : B} (h : At d p bs) : readSized bs.length d p = .ok (bs, p + bs.length) := by
  unfold readSized readPy
  have hn : ¬ ((bs.length : Int) < 0) := by omega
  rw [if_neg hn]
  simp only [Int.toNat_natCast]
  rw [if_neg (not_overflows_of_le (by have := h.bound; omega))]
  exact readUpTo_at h

theorem length_sT (w : Nat) (z : Int) : (sT w z).length = w := length_beBytes _ _

/-- the widths `struct` has: `b`, `h`, `i`, `q` -/
def SWidth (w : Nat) : Prop := w = 1 ∨ w = 2 ∨ w = 4 ∨ w = 8

theorem natToS_sT (w : Nat) (hw : SWidth w) (z : Int) (h : FitsS w z) :
    natToS w (z % ((256 ^ w : Nat) : Int)).toNat = z ∧ (z % ((256 ^ w : Nat) : Int)).toNat < 256 ^ w := by
  rcases hw with rfl | rfl | rfl | rfl <;>
    (simp only [FitsS, natToS, Nat.reducePow, Nat.reduceDiv] at *; omega)

theorem readS_step {d : B} {p w : Nat} {z : Int} {rest : B} (hw : SWidth w) (h : At d p (sT w z ++ rest)) (hz : FitsS w z) :
    readS w d p = .ok (z, p + w) ∧ At d (p + w) rest := by
  obtain ⟨h1, h2⟩ := natToS_sT w hw z hz
  obtain ⟨e, h'⟩ := readU_step h h2
  exact ⟨by simp only [readS, e, h1], h'⟩

/-! ### unicode strings -/

theorem padAmount_eq_padLen (size pad : Nat) : padAmount size pad = Unicode.padLen size pad := rfl

theorem ustrT_eq (pad : Nat) (s : Str) : ustrT pad s = Unicode.unitsLayout (Unicode.encUnits s) pad := by
  simp only [ustrT, Unicode.unitsLayout, zeros, padAmount_eq_padLen, List.length_append, Unicode.be32_length,
    Unicode.bytesOfUnits_length]

theorem length_ustrT (pad : Nat) (s : Str) :
    (ustrT pad s).length = 4 + 2 * (Unicode.encUnits s).length + padAmount (4 + 2 * (Unicode.encUnits s).length) pad := by
  rw [ustrT_eq, Unicode.unitsLayout_length]; rfl

/-- the count the writer reports -/
theorem ustr_body_length (s : Str) :
    (Unicode.be32 (Unicode.encUnits s).length ++ Unicode.bytesOfUnits (Unicode.encUnits s)).length =
      4 + 2 * (Unicode.encUnits s).length := by
  simp only [List.length_append, Unicode.be32_length, Unicode.bytesOfUnits_length]

theorem wUStr_eq (pad : Nat) (s : Str) : wUStr pad s = (ustrT pad s, (ustrT pad s).length) := by
  simp only [wUStr, ustrT, wBytes_eq, wSeq_eq, wPad_eq]

/-- a unicode string written with padding `pw`, read with the same padding: the value, cursor after the filler -/
theorem readUStr_step {d : B} {p pad : Nat} {s : Str} {rest : B} (hf : UStrFits s) (hn : Unicode.NoPair s) (hp : pad ≠ 0)
    (h : At d p (ustrT pad s ++ rest)) :
    readUStr pad d p = .ok (s, p + (ustrT pad s).length) ∧ At d (p + (ustrT pad s).length) rest := by
  refine ⟨?_, h.right⟩
  obtain ⟨pre, post, rfl, rfl⟩ := h.left
  rw [ustrT_eq]
  unfold readUStr
  rw [Unicode.readUnicodeString_layout _ pad pre post hf.2 hp (Unicode.encUnits_lt s hf.1),
    Unicode.decUnits_encUnits s hf.1 hn]

/-- read with `padding=1` (the default) whatever padding it was written with: the value, cursor before the filler -/
theorem readUStr1_step {d : B} {p pw : Nat} {s : Str} {rest : B} (hf : UStrFits s) (hn : Unicode.NoPair s)
    (h : At d p (ustrT pw s ++ rest)) :
    readUStr 1 d p = .ok (s, p + (4 + 2 * (Unicode.encUnits s).length)) := by
  obtain ⟨pre, post, rfl, rfl⟩ := h.left
  rw [ustrT_eq]
  unfold readUStr
  rw [Unicode.readUnicodeString_layout_gen _ pw 1 pre post hf.2 (Unicode.encUnits_lt s hf.1),
    Unicode.decUnits_encUnits s hf.1 hn]
  simp [Unicode.readPadding, Unicode.padLen, Unicode.slice, Nat.mod_one, Nat.add_assoc]

/-! ### what every payload model gets from its laws -/

namespace PCodec
variable {α : Type}

/-- the reader returns the written value wherever the written bytes sit -/
def RtAnywhere (c : PCodec α) : Prop :=
  ∀ v, c.WF v → c.Fits v → ∀ (d : B) (p : Nat), At d p (c.encT v) → c.dec d p = .ok (v, p + c.consumed v)

/-- … when nothing follows the written bytes (readers that probe what follows: `is_readable`, lenient `fp.read`) -/
def RtAtEnd (c : PCodec α) : Prop :=
  ∀ v, c.WF v → c.Fits v → ∀ (d : B) (p : Nat), At d p (c.encT v) → p + (c.encT v).length = d.length →
    c.dec d p = .ok (v, p + c.consumed v)

/-- the `written` accumulator of `write` is honest -/
def Count (c : PCodec α) : Prop := ∀ v, c.encP v = (c.encT v, (c.encT v).length)

theorem RtAnywhere.atEnd {c : PCodec α} (h : c.RtAnywhere) : c.RtAtEnd := fun v hw hf d p hat _ => h v hw hf d p hat

theorem enc_ok {c : PCodec α} {v : α} {bs : B} (h : c.enc v = .ok bs) : c.Fits v ∧ bs = c.encT v := by
  unfold PCodec.enc at h
  split at h
  · exact ⟨‹_›, by cases h; rfl⟩
  · cases h

theorem roundtrip {c : PCodec α} (h : c.RtAnywhere) (v : α) (hwf : c.WF v) (bs pre post : B) (henc : c.enc v = .ok bs) :
    c.dec (pre ++ bs ++ post) pre.length = .ok (v, pre.length + c.consumed v) := by
  obtain ⟨hf, rfl⟩ := enc_ok henc
  exact h v hwf hf _ _ (At.intro pre _ post)

theorem roundtrip_at_end {c : PCodec α} (h : c.RtAtEnd) (v : α) (hwf : c.WF v) (bs pre : B) (henc : c.enc v = .ok bs) :
    c.dec (pre ++ bs) pre.length = .ok (v, pre.length + c.consumed v) := by
  obtain ⟨hf, rfl⟩ := enc_ok henc
  have hat := At.intro pre (c.encT v) []
  simp only [List.append_nil] at hat
  exact h v hwf hf _ _ hat (by simp only [List.length_append])

/-- what is read back (from the written bytes as a stream of their own) is written again as the same bytes -/
theorem rewrite_identical {c : PCodec α} (h : c.RtAtEnd) (v : α) (hwf : c.WF v) (bs : B) (henc : c.enc v = .ok bs)
    (v' : α) (n : Nat) (hread : c.dec bs 0 = .ok (v', n)) : c.enc v' = .ok bs := by
  have h' := roundtrip_at_end h v hwf bs [] henc
  simp only [List.nil_append, List.length_nil] at h'
  rw [h'] at hread
  cases hread
  exact henc

theorem written_is_length {c : PCodec α} (h : c.Count) (v : α) (bs : B) (henc : c.enc v = .ok bs) :
    c.encW v = .ok (bs, bs.length) := by
  obtain ⟨hf, rfl⟩ := enc_ok henc
  simp only [PCodec.encW, if_pos hf, h v]

theorem enc_rejects (c : PCodec α) (v : α) (e : Err) (h : c.enc v = .error e) : e = .structError := by
  unfold PCodec.enc at h
  split at h
  · cases h
  · cases h; rfl

/-- composition with the skeleton's tagged block: `TaggedBlock.read` takes the length block and runs the payload reader
on exactly those bytes, from position 0 of their own `BytesIO` -/
theorem tagged_block_payload {c : PCodec α} (h : c.RtAtEnd) (ver pad : Nat) (hp : pad = 1 ∨ pad = 2 ∨ pad = 4)
    (t : Psd.TaggedBlock) (hwf : t.WF ver) (v : α) (hv : c.WF v) (henc : c.enc v = .ok t.data) (pre post : B) :
    Psd.TaggedBlock.dec ver pad (pre ++ t.encT ver pad ++ post) pre.length =
        .ok (some t, pre.length + (t.encT ver pad).length) ∧
      c.dec t.data 0 = .ok (v, c.consumed v) := by
  refine ⟨Psd.TaggedBlock.dec_at hp hwf (At.intro pre _ post), ?_⟩
  simpa using roundtrip_at_end h v hv t.data [] henc

/-! the shapes of the property theorems of Props/C01Payload.lean, for a codec `c` -/

/-- anywhere in a stream the reader returns the written value; the cursor is after the bytes the reader consumes -/
def RoundTrip (c : PCodec α) : Prop :=
  ∀ v, c.WF v → ∀ bs pre post : B, c.enc v = .ok bs → c.dec (pre ++ bs ++ post) pre.length = .ok (v, pre.length + c.consumed v)

/-- the same when nothing follows the written bytes (the reader looks at what follows) -/
def RoundTripAtEnd (c : PCodec α) : Prop :=
  ∀ v, c.WF v → ∀ bs pre : B, c.enc v = .ok bs → c.dec (pre ++ bs) pre.length = .ok (v, pre.length + c.consumed v)

def RewriteIdentical (c : PCodec α) : Prop :=
  ∀ v, c.WF v → ∀ bs : B, c.enc v = .ok bs → ∀ v' n, c.dec bs 0 = .ok (v', n) → c.enc v' = .ok bs

def WrittenIsLength (c : PCodec α) : Prop := ∀ v (bs : B), c.enc v = .ok bs → c.encW v = .ok (bs, bs.length)

/-- as the payload of a skeleton tagged block: the block is read as a block, and the payload reader returns the value
from exactly the bytes of the length block -/
def TaggedBlockPayload (c : PCodec α) : Prop :=
  ∀ ver pad, (pad = 1 ∨ pad = 2 ∨ pad = 4) → ∀ t : Psd.TaggedBlock, t.WF ver → ∀ v, c.WF v → c.enc v = .ok t.data →
    ∀ pre post : B,
      Psd.TaggedBlock.dec ver pad (pre ++ t.encT ver pad ++ post) pre.length =
          .ok (some t, pre.length + (t.encT ver pad).length) ∧
        c.dec t.data 0 = .ok (v, c.consumed v)

theorem roundTrip_of {c : PCodec α} (h : c.RtAnywhere) : c.RoundTrip :=
  fun v hwf bs pre post henc => roundtrip h v hwf bs pre post henc
theorem roundTripAtEnd_of {c : PCodec α} (h : c.RtAtEnd) : c.RoundTripAtEnd :=
  fun v hwf bs pre henc => roundtrip_at_end h v hwf bs pre henc
theorem rewriteIdentical_of {c : PCodec α} (h : c.RtAtEnd) : c.RewriteIdentical :=
  fun v hwf bs henc v' n hr => rewrite_identical h v hwf bs henc v' n hr
theorem writtenIsLength_of {c : PCodec α} (h : c.Count) : c.WrittenIsLength :=
  fun v bs henc => written_is_length h v bs henc
theorem taggedBlockPayload_of {c : PCodec α} (h : c.RtAtEnd) : c.TaggedBlockPayload :=
  fun ver pad hp t hwf v hv henc pre post => tagged_block_payload h ver pad hp t hwf v hv henc pre post

end PCodec

end PsdVerif.Payload
