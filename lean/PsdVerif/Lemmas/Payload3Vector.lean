/-
C01 payload unit 9 — the laws of the vector data of Model/Payload3Vector.lean.
-/
import PsdVerif.Lemmas.Payload3Resources
import PsdVerif.Lemmas.Descriptor3
import PsdVerif.Model.Payload3Vector

namespace PsdVerif.Payload3
open PsdVerif PsdVerif.Codec PsdVerif.Payload PsdVerif.Payload.PCodec

theorem knotFmt_plain : knotFmt.all (fun i => match i with | .fld .q => false | .fld (.str _) => false | _ => true) = true := rfl
theorem clipFmt_plain : clipFmt.all (fun i => match i with | .fld .q => false | .fld (.str _) => false | _ => true) = true := rfl
theorem initFmt_plain : initFmt.all (fun i => match i with | .fld .q => false | .fld (.str _) => false | _ => true) = true := rfl

/-- the registry rows the model relies on: the selectors of the three classes that are alone in their kind -/
theorem kindOf_fixed : kindOf 6 = some .fill ∧ kindOf 7 = some .clipboard ∧ kindOf 8 = some .initial := by decide

mutual
theorem PItem.encP_eq : ∀ x : PItem, x.encP = (x.encT, x.encT.length)
  | .fill => by simp only [PItem.encP, PItem.encT, wBytes_eq, wSeq_eq]
  | .initial r => by simp only [PItem.encP, PItem.encT, wBytes_eq, wSeq_eq]
  | .clipboard r => by simp only [PItem.encP, PItem.encT, wBytes_eq, wSeq_eq]
  | .knot s r => by simp only [PItem.encP, PItem.encT, wBytes_eq, wSeq_eq]
  | .subpath s head items => by
    simp only [PItem.encP, PItem.encT, PItem.encListP_eq items, wBytes_eq, wSeq_eq]
theorem PItem.encListP_eq : ∀ xs : List PItem, PItem.encListP xs = (PItem.encListT xs, (PItem.encListT xs).length)
  | [] => rfl
  | x :: xs => by simp only [PItem.encListP, PItem.encListT, PItem.encP_eq x, PItem.encListP_eq xs, wSeq_eq]
end

theorem PItem.encListT_eq : ∀ xs : List PItem, PItem.encListT xs = listT PItem.encT xs
  | [] => rfl
  | x :: xs => by simp only [PItem.encListT, listT, PItem.encListT_eq xs]

/-- every record has its 26 bytes -/
theorem PItem.length_ge : ∀ x : PItem, x.Fits → 26 ≤ x.encT.length
  | .fill, _ => by simp only [PItem.encT, List.length_append, length_beBytes, length_zeros]; omega
  | .initial r, hf => by
    have h1 := length_fmtT initFmt r hf
    have h2 : fmtSize initFmt = 24 := rfl
    simp only [PItem.encT, List.length_append, length_beBytes, h1, h2]; omega
  | .clipboard r, hf => by
    have h1 := length_fmtT clipFmt r hf
    have h2 : fmtSize clipFmt = 24 := rfl
    simp only [PItem.encT, List.length_append, length_beBytes, h1, h2]; omega
  | .knot s r, hf => by
    have h1 := length_fmtT knotFmt r hf.2
    have h2 : fmtSize knotFmt = 24 := rfl
    simp only [PItem.encT, List.length_append, length_beBytes, h1, h2]; omega
  | .subpath s head items, hf => by
    have h1 := length_fmtT subFmt head hf.2.2.1
    have h2 : fmtSize subFmt = 22 := rfl
    simp only [PItem.encT, List.length_append, length_beBytes, h1, h2]; omega

mutual
theorem PItem.depth_lt : ∀ x : PItem, x.depth + 1 ≤ x.encT.length
  | .fill => by simp only [PItem.depth, PItem.encT, List.length_append, length_beBytes]; omega
  | .initial r => by simp only [PItem.depth, PItem.encT, List.length_append, length_beBytes]; omega
  | .clipboard r => by simp only [PItem.depth, PItem.encT, List.length_append, length_beBytes]; omega
  | .knot s r => by simp only [PItem.depth, PItem.encT, List.length_append, length_beBytes]; omega
  | .subpath s head items => by
    have := PItem.depthList_le items
    simp only [PItem.depth, PItem.encT, List.length_append, length_beBytes]; omega
theorem PItem.depthList_le : ∀ xs : List PItem, PItem.depthList xs ≤ (PItem.encListT xs).length
  | [] => Nat.le_refl _
  | x :: xs => by
    have h1 := PItem.depth_lt x
    have h2 := PItem.depthList_le xs
    simp only [PItem.depthList, PItem.encListT, List.length_append]
    omega
end

mutual
/-- the reader returns the record wherever it sits, given fuel for its nesting depth -/
theorem PItem.dec_step : ∀ (x : PItem), x.WF → x.Fits → ∀ (fuel : Nat), x.depth < fuel → ∀ {d : B} {p : Nat} {rest : B},
    At d p (x.encT ++ rest) → PItem.decFuel fuel d p = .ok (x, p + x.encT.length) ∧ At d (p + x.encT.length) rest
  | .fill, _, _, fuel + 1, _, d, p, rest, h => by
    refine ⟨?_, h.right⟩
    simp only [PItem.encT, List.append_assoc] at h ⊢
    obtain ⟨e1, h1⟩ := readU_step h (by decide)
    obtain ⟨e2, _⟩ := readSkip_step h1
    simp only [PItem.decFuel, bind, Except.bind, e1, kindOf_fixed.1, e2, List.length_append, length_beBytes, length_zeros, Nat.add_assoc]
  | .initial r, _, hf, fuel + 1, _, d, p, rest, h => by
    refine ⟨?_, h.right⟩
    simp only [PItem.Fits] at hf
    simp only [PItem.encT, List.append_assoc] at h ⊢
    obtain ⟨e1, h1⟩ := readU_step h (by decide)
    obtain ⟨e2, _⟩ := fmt_step' (fs := initFmt) rfl hf (fmtWF_of_plain _ _ initFmt_plain) h1
    simp only [PItem.decFuel, bind, Except.bind, e1, kindOf_fixed.2.2, e2, List.length_append, length_beBytes, Nat.add_assoc]
  | .clipboard r, _, hf, fuel + 1, _, d, p, rest, h => by
    refine ⟨?_, h.right⟩
    simp only [PItem.Fits] at hf
    simp only [PItem.encT, List.append_assoc] at h ⊢
    obtain ⟨e1, h1⟩ := readU_step h (by decide)
    obtain ⟨e2, _⟩ := fmt_step' (fs := clipFmt) rfl hf (fmtWF_of_plain _ _ clipFmt_plain) h1
    simp only [PItem.decFuel, bind, Except.bind, e1, kindOf_fixed.2.1, e2, List.length_append, length_beBytes, Nat.add_assoc]
  | .knot s r, hw, hf, fuel + 1, _, d, p, rest, h => by
    refine ⟨?_, h.right⟩
    simp only [PItem.Fits] at hf
    simp only [PItem.WF] at hw
    simp only [PItem.encT, List.append_assoc] at h ⊢
    obtain ⟨e1, h1⟩ := readU_step h hf.1
    obtain ⟨e2, _⟩ := fmt_step' (fs := knotFmt) rfl hf.2 (fmtWF_of_plain _ _ knotFmt_plain) h1
    simp only [PItem.decFuel, bind, Except.bind, e1, hw, e2, List.length_append, length_beBytes, Nat.add_assoc]
  | .subpath s head items, hw, hf, fuel + 1, hfuel, d, p, rest, h => by
    refine ⟨?_, h.right⟩
    simp only [PItem.Fits] at hf
    simp only [PItem.WF] at hw
    simp only [PItem.depth] at hfuel
    simp only [PItem.encT, List.append_assoc] at h ⊢
    obtain ⟨e1, h1⟩ := readU_step h hf.1
    obtain ⟨e2, h2⟩ := readU_step h1 hf.2.1
    obtain ⟨e3, h3⟩ := fmt_step' (fs := subFmt) rfl hf.2.2.1 hw.2.1 h2
    obtain ⟨e4, _⟩ := PItem.decList_step items hw.2.2 hf.2.2.2 fuel (by omega) h3
    simp only [PItem.decFuel, bind, Except.bind, e1, hw.1, e2, e3, e4]
    simp only [List.length_append, length_beBytes, Nat.add_assoc]
theorem PItem.decList_step : ∀ (xs : List PItem), PItem.WFList xs → PItem.FitsList xs → ∀ (fuel : Nat), PItem.depthList xs < fuel →
    ∀ {d : B} {p : Nat} {rest : B}, At d p (PItem.encListT xs ++ rest) →
      readCount (PItem.decFuel fuel) xs.length d p = .ok (xs, p + (PItem.encListT xs).length) ∧
        At d (p + (PItem.encListT xs).length) rest
  | [], _, _, _, _, d, p, rest, h => by
    simp only [PItem.encListT, List.nil_append, List.length_nil, Nat.add_zero] at h ⊢
    exact ⟨rfl, h⟩
  | x :: xs, hw, hf, fuel, hfuel, d, p, rest, h => by
    simp only [PItem.WFList] at hw
    simp only [PItem.FitsList] at hf
    simp only [PItem.depthList] at hfuel
    simp only [PItem.encListT, List.append_assoc] at h ⊢
    obtain ⟨e1, h1⟩ := PItem.dec_step x hw.1 hf.1 fuel (by omega) h
    obtain ⟨e2, h2⟩ := PItem.decList_step xs hw.2 hf.2 fuel (by omega) h1
    refine ⟨?_, by simpa only [List.length_append, Nat.add_assoc] using h2⟩
    simp only [List.length_cons, readCount, e1, e2, List.length_append, Nat.add_assoc]
end

theorem PItem.dec_at {x : PItem} (hw : x.WF) (hf : x.Fits) {d : B} {p : Nat} (h : At d p x.encT) :
    PItem.dec d p = .ok (x, p + x.encT.length) := by
  have hb := h.bound
  have hd := PItem.depth_lt x
  exact (PItem.dec_step x hw hf (d.length + 1) (by omega) h.nil_right).1

theorem PItem.rt : PItem.codec.RtAnywhere := fun _ hw hf _ _ h => PItem.dec_at hw hf h
theorem PItem.count : PItem.codec.Count := PItem.encP_eq

theorem PItem.wfList_mem : ∀ {xs : List PItem}, PItem.WFList xs → ∀ x ∈ xs, x.WF
  | [], _, _, hx => by cases hx
  | y :: ys, hw, x, hx => by
    simp only [PItem.WFList] at hw
    rcases List.mem_cons.1 hx with rfl | hx'
    · exact hw.1
    · exact PItem.wfList_mem hw.2 x hx'

theorem PItem.fitsList_mem : ∀ {xs : List PItem}, PItem.FitsList xs → ∀ x ∈ xs, x.Fits
  | [], _, _, hx => by cases hx
  | y :: ys, hf, x, hx => by
    simp only [PItem.FitsList] at hf
    rcases List.mem_cons.1 hx with rfl | hx'
    · exact hf.1
    · exact PItem.fitsList_mem hf.2 x hx'

/-! ## Path -/

namespace Path

theorem rt (pad : Nat) : (codec pad).RtAtEnd := by
  intro xs hwf hf d p h hend
  obtain ⟨hw, hp0, hp26⟩ := hwf
  simp only [codec, bodyT, PItem.encListT_eq] at h hend ⊢
  simp only [List.length_append, length_zeros] at hend
  have hlt := padAmount_lt (listT PItem.encT xs).length pad hp0
  apply readWhile_at (isReadable 26) (optItem PItem.dec) PItem.encT xs _ _ h.left
  · exact isReadable_false (by omega)
  · intro x hx q hq
    have hfx := PItem.fitsList_mem hf x hx
    refine ⟨isReadable_of_at hq (PItem.length_ge x hfx), ?_⟩
    simp only [optItem, PItem.dec_at (PItem.wfList_mem hw x hx) hfx hq]
  · intro x hx; have := PItem.length_ge x (PItem.fitsList_mem hf x hx); omega

theorem count (pad : Nat) : (codec pad).Count := by
  intro xs
  simp only [codec, bodyT, PItem.encListP_eq, wSeq_eq, wPad_eq]

end Path

/-! ## VectorMaskSetting -/

namespace VectorMaskSetting

theorem rt : codec.RtAtEnd := by
  intro x hwf hf d p h hend
  obtain ⟨hv, hw⟩ := hwf
  obtain ⟨f1, f2⟩ := hf
  simp only [codec, encT] at h hend ⊢
  obtain ⟨e1, h1⟩ := fmt_step' (fs := headFmt) rfl f1 (fmtWF_of_plain _ _ rfl) h
  have e2 := Path.rt 4 x.path ⟨hw, by decide, by decide⟩ f2 d _ h1 (by simp only [List.length_append] at hend; omega)
  simp only [dec, bind, Except.bind, e1, if_pos hv, e2]
  simp only [Path.codec, Nat.add_assoc]

theorem count : codec.Count := by
  intro x
  simp only [codec, encP, encT, Path.count 4 x.path, wBytes_eq, wSeq_eq]

end VectorMaskSetting

/-! ## VectorStrokeContentSetting -/

namespace VectorStrokeContentSetting
open Descriptor
variable (tb : Descriptor.Tables)

theorem encP_eq (pad : Nat) (x : VectorStrokeContentSetting) : encP tb pad x = (encT tb pad x, (encT tb pad x).length) := by
  simp only [encP, encT, bodyT, bodyW_eq, wBytes_eq, wSeq_eq, wPad_eq, List.append_assoc]

theorem rt (pad : Nat) : (codec tb pad).RtAnywhere := by
  intro x hwf hf d p h
  obtain ⟨hk, hnm, hcid, hnd, hitems⟩ := hwf
  obtain ⟨fv, fnm, fcid, flen, fitems⟩ := hf
  simp only [codec, encT, bodyT, packS_of_length hk, List.append_assoc] at h ⊢
  obtain ⟨r0, h1⟩ := readN_step h hk
  have fv' : x.version.toNat < 256 ^ 4 := by unfold FitsU32 at fv; omega
  obtain ⟨r0', h2⟩ := readU_step h1 fv'
  obtain ⟨r1, _⟩ := readBody_at hnm fnm hcid fcid flen hnd hitems fitems h2
  unfold dec
  rw [rbind_ok r0, rbind_ok r0', rbind_ok r1]
  have e1 : ((x.version.toNat : Nat) : Int) = x.version := Int.toNat_of_nonneg fv.1
  obtain ⟨key, ver, nm, cid, items⟩ := x
  simp only at e1 hk ⊢
  simp only [rpure_eq, e1, List.length_append, length_beBytes, hk, Nat.add_assoc]

theorem count (pad : Nat) : (codec tb pad).Count := encP_eq tb pad

end VectorStrokeContentSetting

end PsdVerif.Payload3
