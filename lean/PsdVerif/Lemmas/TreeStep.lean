/-
Layer-tree model: every operation preserves the invariant (under its guard and when the
interpreter's recursion limit is not hit).
-/
import PsdVerif.Lemmas.TreeInv

namespace PsdVerif.TreeSt

/-- The guard of the inserting operations: the arguments are listed nowhere (and not repeated).
Every other operation detaches first, or only removes. -/
def Guard (s : State) : Op → Prop
  | .append _ x => Detached s x
  | .extend _ xs => (∀ x, x ∈ xs → Detached s x) ∧ xs.Nodup
  | .insert _ _ x => Detached s x
  | .setitem _ _ x => Detached s x
  | .setslice _ _ _ xs => (∀ x, x ∈ xs → Detached s x) ∧ xs.Nodup
  | _ => True

abbrev recErr : Out := .error .recursionError

theorem ne_rec_of_not_isError {o : Out} (h : ¬ o.isError = true) : o ≠ recErr := by
  intro e; subst e; exact h rfl

/-! ### list facts -/

theorem take_append_drop_sublist (l : List Id) {lo hi : Nat} (h : lo ≤ hi) :
    List.Sublist (l.take lo ++ l.drop hi) l := by
  have h1 : List.Sublist (l.drop hi) (l.drop lo) := List.drop_sublist_drop_left l h
  have h2 := List.Sublist.append (List.Sublist.refl (l.take lo)) h1
  rwa [List.take_append_drop] at h2

theorem mem_splice {l xs : List Id} {lo hi : Nat} {y : Id} (h : y ∈ l.take lo ++ xs ++ l.drop hi) :
    y ∈ l ∨ y ∈ xs := by
  rcases List.mem_append.mp h with h | h
  · rcases List.mem_append.mp h with h | h
    · exact .inl (List.mem_of_mem_take h)
    · exact .inr h
  · exact .inl (List.mem_of_mem_drop h)

theorem nodup_splice (l xs : List Id) {lo hi : Nat} (h : lo ≤ hi) (hl : l.Nodup) (hx : xs.Nodup)
    (hd : ∀ y, y ∈ xs → y ∉ l) : (l.take lo ++ xs ++ l.drop hi).Nodup := by
  have hsub := take_append_drop_sublist l h
  have hAB := hsub.nodup hl
  obtain ⟨hA, hB, hABd⟩ := List.nodup_append.mp hAB
  rw [List.nodup_append]
  refine ⟨?_, hB, ?_⟩
  · rw [List.nodup_append]
    refine ⟨hA, hx, ?_⟩
    intro a ha b hb e
    subst e
    exact hd a hb (List.mem_of_mem_take ha)
  · intro a ha b hb e
    subst e
    rcases List.mem_append.mp ha with ha | ha
    · exact hABd a ha a hb rfl
    · exact hd a ha (List.mem_of_mem_drop hb)

theorem append_eq_splice (l xs : List Id) : l ++ xs = l.take l.length ++ xs ++ l.drop l.length := by
  simp

theorem insertAt_eq_splice (l : List Id) (k : Nat) (x : Id) : insertAt l k x = l.take k ++ [x] ++ l.drop k := by
  simp [insertAt]

theorem set_eq_splice (l : List Id) (j : Nat) (x : Id) (h : j < l.length) :
    l.set j x = l.take j ++ [x] ++ l.drop (j + 1) := by
  rw [List.set_eq_take_append_cons_drop, if_pos h]
  simp

theorem normIdx_lt {len : Nat} {i : Int} {j : Nat} (h : normIdx len i = some j) : j < len := by
  simp only [normIdx] at h
  by_cases hneg : i < 0
  · simp only [hneg, if_true] at h
    by_cases hc : 0 ≤ i + (len : Int) ∧ i + (len : Int) < len
    · rw [if_pos hc] at h; cases h; omega
    · rw [if_neg hc] at h; cases h
  · simp only [hneg, if_false] at h
    by_cases hc : 0 ≤ i ∧ i < (len : Int)
    · rw [if_pos hc] at h; cases h; omega
    · rw [if_neg hc] at h; cases h

theorem nodup_single (x : Id) : [x].Nodup := by simp

/-! ### frames: what an operation cannot touch -/

/-- liveness and kinds are the same -/
structure KindFrame (s s' : State) : Prop where
  next : s'.next = s.next
  kind : s'.kind = s.kind

theorem KindFrame.refl (s : State) : KindFrame s s := ⟨rfl, rfl⟩
theorem KindFrame.trans {a b c : State} (h1 : KindFrame a b) (h2 : KindFrame b c) : KindFrame a c :=
  ⟨h2.next.trans h1.next, h2.kind.trans h1.kind⟩
theorem SameTree.kindFrame {s s' : State} (h : SameTree s s') : KindFrame s s' := ⟨h.next, h.kind⟩
theorem KindFrame.isGroup {s s' : State} (h : KindFrame s s') (g : Id) : s'.isGroup g = s.isGroup g := by
  simp [State.isGroup, State.live, State.cont, h.next, h.kind]
theorem KindFrame.isLayer {s s' : State} (h : KindFrame s s') (g : Id) : s'.isLayer g = s.isLayer g := by
  simp [State.isLayer, State.live, h.next, h.kind]
theorem KindFrame.cont {s s' : State} (h : KindFrame s s') (g : Id) : s'.cont g = s.cont g := by
  simp [State.cont, h.kind]

theorem setChildren_frame (s : State) (g : Id) (l : List Id) : KindFrame s (setChildren s g l) := ⟨rfl, rfl⟩

theorem metadata_frame (cfg : Cfg) (s : State) (g : Id) : KindFrame s (metadata cfg s g).1 := by
  unfold metadata
  split
  · exact KindFrame.refl s
  · cases s.docOf g <;> cases cfg.invalidateOnEdit <;> exact ⟨rfl, rfl⟩

theorem metadata_children (cfg : Cfg) (s : State) (g : Id) : (metadata cfg s g).1.children = s.children := by
  unfold metadata
  split
  · rfl
  · cases s.docOf g <;> cases cfg.invalidateOnEdit <;> rfl

theorem finishInsert_frame (cfg : Cfg) (s : State) (g : Id) (o : Out) : KindFrame s (finishInsert cfg s g o).1 := by
  unfold finishInsert
  have h := metadata_frame cfg s g
  split
  · rename_i s2 hm; rw [hm] at h; exact h
  · rename_i s2 hm; rw [hm] at h; exact h.trans (updateRecord_same cfg s2 g).kindFrame

theorem finishInsert_children (cfg : Cfg) (s : State) (g : Id) (o : Out) :
    (finishInsert cfg s g o).1.children = s.children := by
  unfold finishInsert
  have h := metadata_children cfg s g
  split
  · rename_i s2 hm; rw [hm] at h; exact h
  · rename_i s2 hm; rw [hm] at h; exact (updateRecord_same cfg s2 g).children.trans h

/-- an operation whose lists are the old ones, except that `g` may list some of `xs` in addition -/
def Adds (s s' : State) (g : Id) (xs : List Id) : Prop :=
  ∀ c y, y ∈ s'.children c → y ∈ s.children c ∨ (c = g ∧ y ∈ xs)

theorem Adds.refl (s : State) (g : Id) (xs : List Id) : Adds s s g xs := fun _ _ h => .inl h
theorem Adds.of_same {s s' : State} (h : SameTree s s') (g : Id) (xs : List Id) : Adds s s' g xs := by
  intro c y hy; rw [h.children] at hy; exact .inl hy
theorem Adds.trans {a b c : State} {g : Id} {xs : List Id} (h1 : Adds a b g xs) (h2 : Adds b c g xs) :
    Adds a c g xs := by
  intro k y hy
  rcases h2 k y hy with h | h
  · exact h1 k y h
  · exact .inr h
theorem Adds.subset {s s' : State} {g : Id} {xs : List Id} (h : Adds s s' g xs) {c y : Id}
    (hy : y ∈ s'.children c) (hx : ¬ (c = g ∧ y ∈ xs)) : y ∈ s.children c := by
  rcases h c y hy with h | h
  · exact h
  · exact absurd h hx

theorem opExtend_frame (cfg : Cfg) (s : State) (g : Id) (xs : List Id) : KindFrame s (opExtend cfg s g xs).1 := by
  unfold opExtend
  split
  · exact (refuse_same s _).kindFrame
  · exact (setChildren_frame s g _).trans (finishInsert_frame cfg _ g _)

theorem opExtend_adds (cfg : Cfg) (s : State) (g : Id) (xs : List Id) : Adds s (opExtend cfg s g xs).1 g xs := by
  unfold opExtend
  split
  · exact Adds.of_same (refuse_same s _) g xs
  · intro c y hy
    rw [finishInsert_children] at hy
    simp only [setChildren, upd] at hy
    split at hy
    · rename_i e; subst e
      rcases List.mem_append.mp hy with h | h
      · exact .inl h
      · exact .inr ⟨rfl, h⟩
    · exact .inl hy

theorem opAppend_frame (cfg : Cfg) (s : State) (g x : Id) : KindFrame s (opAppend cfg s g x).1 := by
  unfold opAppend
  split
  · exact KindFrame.refl s
  · exact opExtend_frame cfg s g [x]

theorem opAppend_adds (cfg : Cfg) (s : State) (g x : Id) : Adds s (opAppend cfg s g x).1 g [x] := by
  unfold opAppend
  split
  · exact Adds.refl s _ _
  · exact opExtend_adds cfg s g [x]

theorem opInsert_frame (cfg : Cfg) (s : State) (g : Id) (k : Int) (x : Id) : KindFrame s (opInsert cfg s g k x).1 := by
  unfold opInsert
  split
  · exact (refuse_same s _).kindFrame
  · exact (setChildren_frame s g _).trans (finishInsert_frame cfg _ g _)

theorem opRemove_frame (cfg : Cfg) (s : State) (g x : Id) : KindFrame s (opRemove cfg s g x).1 := by
  unfold opRemove finishRemove
  split
  · exact (setChildren_frame s g _).trans (updateRecord_same cfg _ g).kindFrame
  · exact KindFrame.refl s

theorem opRemove_adds (cfg : Cfg) (s : State) (g x : Id) (k : Id) (xs : List Id) : Adds s (opRemove cfg s g x).1 k xs := by
  unfold opRemove finishRemove
  split
  · intro c y hy
    rw [(updateRecord_same cfg _ g).children] at hy
    simp only [setChildren, upd] at hy
    split at hy
    · rename_i e; subst e; exact .inl (List.mem_of_mem_erase hy)
    · exact .inl hy
  · exact Adds.refl s k xs

theorem detach_frame (cfg : Cfg) (s : State) (x p : Id) : KindFrame s (detach cfg s x p).1 := by
  unfold detach
  split
  · exact opRemove_frame cfg s p x
  · exact KindFrame.refl s

theorem detach_adds (cfg : Cfg) (s : State) (x p : Id) (k : Id) (xs : List Id) : Adds s (detach cfg s x p).1 k xs := by
  unfold detach
  split
  · exact opRemove_adds cfg s p x k xs
  · exact Adds.refl s k xs

/-! ### the mutators of `GroupMixin` -/

theorem inv_refuse {s : State} (i : Inv s) (r : Err × List Id) : Inv (refuse s r).1 := (refuse_same s r).inv i

theorem inv_splice {cfg : Cfg} {s : State} (i : Inv s) (hself : cfg.itemSelfCheck = true) (g : Id) (xs : List Id)
    (lo hi : Nat) (hlh : lo ≤ hi) (out : Out)
    (hg : s.isGroup g = true) (hdet : ∀ x, x ∈ xs → Detached s x) (hnd : xs.Nodup)
    (hchk : checkValid cfg s g xs = none)
    (hne : (finishInsert cfg (setChildren s g ((s.children g).take lo ++ xs ++ (s.children g).drop hi)) g out).2 ≠ recErr) :
    Inv (finishInsert cfg (setChildren s g ((s.children g).take lo ++ xs ++ (s.children g).drop hi)) g out).1 := by
  have hv := checkValid_none i.contOnly hself xs hchk
  apply inv_finishInsert i g _ out hg
  · exact nodup_splice _ xs hlh (i.nodup g) hnd (fun y hy hyl => hdet y hy g hyl)
  · intro y hy
    rcases mem_splice hy with h | h
    · exact .inl h
    · exact .inr ⟨hdet y h, hv y h⟩
  · exact hne

theorem inv_opExtend {cfg : Cfg} {s : State} (i : Inv s) (hself : cfg.itemSelfCheck = true) (g : Id) (xs : List Id)
    (hg : s.isGroup g = true) (hdet : ∀ x, x ∈ xs → Detached s x) (hnd : xs.Nodup)
    (hne : (opExtend cfg s g xs).2 ≠ recErr) : Inv (opExtend cfg s g xs).1 := by
  unfold opExtend at hne ⊢
  split
  · exact inv_refuse i _
  · rename_i hchk
    rw [hchk] at hne
    simp only at hne
    rw [append_eq_splice] at hne ⊢
    exact inv_splice i hself g xs _ _ (Nat.le_refl _) _ hg hdet hnd hchk hne

theorem inv_opAppend {cfg : Cfg} {s : State} (i : Inv s) (hself : cfg.itemSelfCheck = true) (g x : Id)
    (hg : s.isGroup g = true) (hdet : Detached s x) (hne : (opAppend cfg s g x).2 ≠ recErr) :
    Inv (opAppend cfg s g x).1 := by
  unfold opAppend at hne ⊢
  split
  · exact i
  · rename_i hxg
    rw [if_neg hxg] at hne
    exact inv_opExtend i hself g [x] hg (fun y hy => by rw [List.mem_singleton.mp hy]; exact hdet)
      (nodup_single x) hne

theorem checkSingle_none {cfg : Cfg} {s : State} {g x : Id} (h : checkSingle cfg s g x = none) :
    checkValid cfg s g [x] = none := by
  unfold checkSingle at h
  split at h
  · cases h
  · exact h

theorem inv_opInsert {cfg : Cfg} {s : State} (i : Inv s) (hself : cfg.itemSelfCheck = true) (g : Id) (k : Int) (x : Id)
    (hg : s.isGroup g = true) (hdet : Detached s x) (hne : (opInsert cfg s g k x).2 ≠ recErr) :
    Inv (opInsert cfg s g k x).1 := by
  unfold opInsert at hne ⊢
  split
  · exact inv_refuse i _
  · rename_i hchk
    rw [hchk] at hne
    simp only at hne
    simp only [insertAt_eq_splice] at hne ⊢
    exact inv_splice i hself g [x] _ _ (Nat.le_refl _) _ hg
      (fun y hy => by rw [List.mem_singleton.mp hy]; exact hdet) (nodup_single x)
      (checkSingle_none hchk) hne

theorem inv_opSetitem {cfg : Cfg} {s : State} (i : Inv s) (hself : cfg.itemSelfCheck = true) (g : Id) (k : Int) (x : Id)
    (hg : s.isGroup g = true) (hdet : Detached s x) (hne : (opSetitem cfg s g k x).2 ≠ recErr) :
    Inv (opSetitem cfg s g k x).1 := by
  unfold opSetitem at hne ⊢
  split
  · exact inv_refuse i _
  · rename_i hchk
    rw [hchk] at hne
    simp only at hne ⊢
    split
    · exact i
    · rename_i j hj
      rw [hj] at hne
      simp only at hne
      have hlt := normIdx_lt hj
      rw [set_eq_splice _ _ _ hlt] at hne ⊢
      exact inv_splice i hself g [x] _ _ (Nat.le_succ _) _ hg
        (fun y hy => by rw [List.mem_singleton.mp hy]; exact hdet) (nodup_single x)
        (checkSingle_none hchk) hne

theorem sliceBounds_le (len : Nat) (a b : Option Int) : (sliceBounds len a b).1 ≤ (sliceBounds len a b).2 := by
  unfold sliceBounds
  simp only
  exact Nat.le_max_left _ _

theorem inv_opSetslice {cfg : Cfg} {s : State} (i : Inv s) (hself : cfg.itemSelfCheck = true) (g : Id)
    (a b : Option Int) (xs : List Id)
    (hg : s.isGroup g = true) (hdet : ∀ x, x ∈ xs → Detached s x) (hnd : xs.Nodup)
    (hne : (opSetslice cfg s g a b xs).2 ≠ recErr) : Inv (opSetslice cfg s g a b xs).1 := by
  unfold opSetslice at hne ⊢
  split
  · exact inv_refuse i _
  · rename_i hchk
    rw [hchk] at hne
    simp only [sliceAssign] at hne ⊢
    exact inv_splice i hself g xs _ _ (sliceBounds_le _ a b) _ hg hdet hnd hchk hne

theorem inv_finishRemove {cfg : Cfg} {s : State} (i : Inv s) (g : Id) (o : Out) : Inv (finishRemove cfg s g o).1 :=
  (updateRecord_same cfg s g).inv i

theorem inv_opRemove {cfg : Cfg} {s : State} (i : Inv s) (g x : Id) : Inv (opRemove cfg s g x).1 := by
  unfold opRemove
  split
  · apply inv_finishRemove
    exact inv_shrink i g _ ((List.erase_sublist).nodup (i.nodup g)) (fun y hy => List.mem_of_mem_erase hy)
  · exact i

theorem inv_opPop {cfg : Cfg} {s : State} (i : Inv s) (g : Id) (k : Int) : Inv (opPop cfg s g k).1 := by
  unfold opPop
  simp only
  split
  · exact i
  · split
    · exact i
    · apply inv_finishRemove
      exact inv_shrink i g _ ((List.eraseIdx_sublist ..).nodup (i.nodup g))
        (fun y hy => (List.eraseIdx_sublist ..).subset hy)

theorem inv_opClear {cfg : Cfg} {s : State} (i : Inv s) (g : Id) : Inv (opClear cfg s g).1 := by
  unfold opClear
  apply inv_finishRemove
  exact inv_shrink i g [] List.nodup_nil (fun y hy => by cases hy)

theorem inv_opDelitem {cfg : Cfg} {s : State} (i : Inv s) (g : Id) (k : Int) : Inv (opDelitem cfg s g k).1 := by
  unfold opDelitem
  simp only
  split
  · exact i
  · apply inv_finishRemove
    exact inv_shrink i g _ ((List.eraseIdx_sublist ..).nodup (i.nodup g))
      (fun y hy => (List.eraseIdx_sublist ..).subset hy)

theorem inv_opDelslice {cfg : Cfg} {s : State} (i : Inv s) (g : Id) (a b : Option Int) :
    Inv (opDelslice cfg s g a b).1 := by
  unfold opDelslice
  simp only [sliceAssign, List.append_nil]
  have hsub := take_append_drop_sublist (s.children g) (sliceBounds_le (s.children g).length a b)
  apply inv_finishRemove
  exact inv_shrink i g _ (hsub.nodup (i.nodup g)) (fun y hy => hsub.subset hy)

/-! ### the operations of `Layer` -/

theorem inv_detach {cfg : Cfg} {s : State} (i : Inv s) (x p : Id) : Inv (detach cfg s x p).1 := by
  unfold detach
  split
  · exact inv_opRemove i p x
  · exact i

/-- after `if self in self.parent: self.parent.remove(self)` the layer is listed nowhere -/
theorem detached_after_detach {cfg : Cfg} {s : State} (i : Inv s) {x p : Id} (hp : s.parent x = some p) :
    Detached (detach cfg s x p).1 x := by
  unfold detach
  split
  · rename_i hx
    unfold opRemove finishRemove
    rw [if_pos hx]
    intro c hc
    rw [(updateRecord_same cfg _ p).children] at hc
    exact detached_after_erase i hx c hc
  · rename_i hx
    exact detached_of_not_listed_by_parent i (fun p' hp' => by rw [hp] at hp'; cases hp'; exact hx)

/-- the shape `r1 ; append` shared by `move_to_group` -/
theorem inv_then_append {cfg : Cfg} (hself : cfg.itemSelfCheck = true) (r1 : State × Out) (g x : Id) (o : Out)
    (i1 : Inv r1.1) (hg : r1.1.isGroup g = true) (hdet : Detached r1.1 x)
    (hne : (if r1.2.isError = true then r1
      else if (opAppend cfg r1.1 g x).2.isError = true then opAppend cfg r1.1 g x
      else ((opAppend cfg r1.1 g x).1, o)).2 ≠ recErr) :
    Inv (if r1.2.isError = true then r1
      else if (opAppend cfg r1.1 g x).2.isError = true then opAppend cfg r1.1 g x
      else ((opAppend cfg r1.1 g x).1, o)).1 := by
  by_cases h1 : r1.2.isError = true
  · rw [if_pos h1]; exact i1
  · rw [if_neg h1] at hne ⊢
    by_cases h2 : (opAppend cfg r1.1 g x).2.isError = true
    · rw [if_pos h2] at hne ⊢
      exact inv_opAppend i1 hself g x hg hdet hne
    · rw [if_neg h2]
      exact inv_opAppend i1 hself g x hg hdet (ne_rec_of_not_isError h2)

theorem inv_opMoveToGroup {cfg : Cfg} {s : State} (i : Inv s) (hself : cfg.itemSelfCheck = true) (x g : Id)
    (hne : (opMoveToGroup cfg s x g).2 ≠ recErr) : Inv (opMoveToGroup cfg s x g).1 := by
  unfold opMoveToGroup at hne ⊢
  by_cases h1 : (!s.isLayer x) = true
  · rw [if_pos h1]; exact i
  · rw [if_neg h1] at hne ⊢
    by_cases h2 : (!s.isGroup g) = true
    · rw [if_pos h2]; exact i
    · rw [if_neg h2] at hne ⊢
      have hg' : s.isGroup g = true := by simpa using h2
      by_cases h3 : g = x
      · rw [if_pos h3]; exact i
      · rw [if_neg h3] at hne ⊢
        cases hd : (if s.cont x = true then desc s x else Except.ok []) with
        | error e => simp only [hd]; exact i
        | ok ds =>
          simp only [hd] at hne ⊢
          by_cases h4 : g ∈ ds
          · rw [if_pos h4]; exact inv_refuse i _
          · rw [if_neg h4] at hne ⊢
            cases hp : s.parent x with
            | none =>
              simp only [hp] at hne ⊢
              have hdet : Detached s x :=
                detached_of_not_listed_by_parent i (fun p' hp' => by rw [hp] at hp'; cases hp')
              exact inv_then_append hself (s, Out.none) g x _ i hg' hdet hne
            | some p =>
              simp only [hp] at hne ⊢
              by_cases hcp : s.cont p = true
              · simp only [hcp, if_true] at hne ⊢
                exact inv_then_append hself (detach cfg s x p) g x _ (inv_detach i x p)
                  (by rw [(detach_frame cfg s x p).isGroup]; exact hg')
                  (detached_after_detach (cfg := cfg) i hp) hne
              · simp only [hcp] at hne ⊢
                have hdet : Detached s x := by
                  apply detached_of_not_listed_by_parent i
                  intro p' hp' hx
                  rw [hp] at hp'; cases hp'
                  exact hcp (i.contOnly p (List.ne_nil_of_mem hx))
                exact inv_then_append hself (s, Out.none) g x _ i hg' hdet hne

theorem inv_warnRepr {s : State} (i : Inv s) (x : Id) : Inv (warnRepr s x).1 := by
  unfold warnRepr
  have h := reprAll_same s [x]
  split <;> (rename_i heq; rw [heq] at h; exact h.inv i)

theorem inv_opDeleteLayer {cfg : Cfg} {s : State} (i : Inv s) (x : Id) : Inv (opDeleteLayer cfg s x).1 := by
  unfold opDeleteLayer
  split
  · exact i
  · split
    · exact inv_warnRepr i x
    · split
      · exact inv_warnRepr i x
      · simp only
        split
        · exact inv_detach i x _
        · exact inv_finishRemove (inv_detach i x _) _ _

theorem inv_then_insert {cfg : Cfg} (hself : cfg.itemSelfCheck = true) (r1 : State × Out) (p : Id) (n : Int) (x : Id)
    (o : Out) (i1 : Inv r1.1) (hg : r1.1.isGroup p = true) (hdet : Detached r1.1 x)
    (hne : (if r1.2.isError = true then r1
      else if (opInsert cfg r1.1 p n x).2.isError = true then opInsert cfg r1.1 p n x
      else ((opInsert cfg r1.1 p n x).1, o)).2 ≠ recErr) :
    Inv (if r1.2.isError = true then r1
      else if (opInsert cfg r1.1 p n x).2.isError = true then opInsert cfg r1.1 p n x
      else ((opInsert cfg r1.1 p n x).1, o)).1 := by
  by_cases h1 : r1.2.isError = true
  · rw [if_pos h1]; exact i1
  · rw [if_neg h1] at hne ⊢
    by_cases h2 : (opInsert cfg r1.1 p n x).2.isError = true
    · rw [if_pos h2] at hne ⊢
      exact inv_opInsert i1 hself p n x hg hdet hne
    · rw [if_neg h2]
      exact inv_opInsert i1 hself p n x hg hdet (ne_rec_of_not_isError h2)

theorem inv_opMoveUp {cfg : Cfg} {s : State} (i : Inv s) (hself : cfg.itemSelfCheck = true) (x : Id) (k : Int)
    (hne : (opMoveUp cfg s x k).2 ≠ recErr) : Inv (opMoveUp cfg s x k).1 := by
  unfold opMoveUp at hne ⊢
  by_cases h1 : (!s.isLayer x) = true
  · rw [if_pos h1]; exact i
  · rw [if_neg h1] at hne ⊢
    cases hp : s.parent x with
    | none => simp only [hp]; exact i
    | some p =>
      simp only [hp] at hne ⊢
      by_cases hcp : (!s.cont p) = true
      · rw [if_pos hcp]; exact i
      · rw [if_neg hcp] at hne ⊢
        by_cases hx : x ∈ s.children p
        · rw [if_pos hx] at hne ⊢
          have i1 : Inv (opRemove cfg s p x).1 := inv_opRemove i p x
          have hdet : Detached (opRemove cfg s p x).1 x := by
            have := detached_after_detach (cfg := cfg) i hp
            unfold detach at this
            rwa [if_pos hx] at this
          have hg1 : (opRemove cfg s p x).1.isGroup p = true := by
            rw [(opRemove_frame cfg s p x).isGroup]
            exact isGroup_iff.mpr ⟨(i.live p x hx).1, by simpa using hcp⟩
          exact inv_then_insert hself (opRemove cfg s p x) p _ x _ i1 hg1 hdet hne
        · rw [if_neg hx]; exact inv_refuse i _

end PsdVerif.TreeSt
