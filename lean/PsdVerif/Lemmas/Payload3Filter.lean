/-
C01 payload unit 10 — the laws of the filter effects of Model/Payload3Filter.lean.
-/
import PsdVerif.Lemmas.Payload3Resources
import PsdVerif.Model.Payload3Filter

namespace PsdVerif.Payload3
open PsdVerif PsdVerif.Codec PsdVerif.Payload PsdVerif.Payload.PCodec

/-- `compression = read_fmt("H", f)[0]; data = f.read()` on the stream of a length block -/
theorem readU2_nested (c : Nat) (data : B) (hc : FitsU 2 c) :
    readU 2 (beBytes 2 c ++ data) 0 = .ok (c, 2) ∧ (beBytes 2 c ++ data).drop 2 = data := by
  have h := readU_step (At.self (beBytes 2 c ++ data)) hc
  refine ⟨by simpa using h.1, ?_⟩
  have : (beBytes 2 c).length = 2 := length_beBytes 2 c
  rw [← this, List.drop_left']
  rfl

namespace FEChannel

theorem encP_eq (x : FEChannel) : x.encP = (x.encT, x.encT.length) := by
  obtain ⟨iw, c⟩ := x
  unfold encP encT
  by_cases h0 : iw = 0
  · simp only [h0, if_true, wBytes_eq, List.append_nil]
  · simp only [h0, if_false]
    cases c with
    | none =>
      have e := wLenBlock_eq 0 8 1 []
      simp only [List.length_nil] at e
      simp only [contentT, wNil, wBytes_eq, e, wSeq_eq]
    | some cd =>
      obtain ⟨c, data⟩ := cd
      simp only [contentT, wBytes_eq, wSeq_eq, wLenBlock_eq]

theorem dec_step {x : FEChannel} (hwf : codec.WF x) (hf : x.Fits) {d : B} {p : Nat} {rest : B} (h : At d p (x.encT ++ rest)) :
    dec d p = .ok (x, p + x.encT.length) ∧ At d (p + x.encT.length) rest := by
  refine ⟨?_, h.right⟩
  obtain ⟨iw, c⟩ := x
  obtain ⟨fiw, fc⟩ := hf
  have hwf : iw = 0 → c = none := hwf
  simp only at fiw fc
  unfold encT at h ⊢
  by_cases h0 : iw = 0
  · have hc := hwf h0
    subst hc
    simp only [h0, if_true, List.append_nil] at h ⊢
    obtain ⟨e1, _⟩ := readU_step h (by decide)
    simp only [dec, bind, Except.bind, e1, if_true, length_beBytes]
  · simp only [h0, if_false, List.append_assoc] at h ⊢
    obtain ⟨e1, h1⟩ := readU_step h fiw
    cases c with
    | none =>
      have e2 := readLenBlock_at (skip := 0) (w := 8) (pad := 1) (body := []) h1.left (by decide) (by decide)
      simp only [contentT] at e2 ⊢
      simp only [dec, bind, Except.bind, e1, if_neg h0, e2, List.length_nil, if_true, List.length_append, length_beBytes, Nat.add_assoc]
    | some cd =>
      obtain ⟨c, data⟩ := cd
      have fcc := fc h0
      simp only [contentFits] at fcc
      have hl : (contentT (some (c, data))).length = 2 + data.length := by
        simp only [contentT, List.length_append, length_beBytes]
      have e2 := readLenBlock_at (skip := 0) (w := 8) (pad := 1) h1.left (by rw [hl]; exact fcc.2) (by decide)
      obtain ⟨e3, e4⟩ := readU2_nested c data fcc.1
      have hne : ¬ (contentT (some (c, data))).length = 0 := by omega
      simp only [dec, bind, Except.bind, e1, if_neg h0, e2, if_neg hne]
      simp only [contentT, e3, e4, List.length_append, length_beBytes, Nat.add_assoc]

theorem rt : codec.RtAnywhere := fun _ hwf hf _ _ h => (dec_step hwf hf h.nil_right).1
theorem count : codec.Count := encP_eq
theorem tight : Tight codec := fun _ _ => rfl

end FEChannel

namespace FEExtra

theorem encP_eq (x : FEExtra) : x.encP = (x.encT, x.encT.length) := by
  unfold encP encT
  by_cases h0 : x.isWritten = 0
  · simp only [h0, if_true, wBytes_eq, List.append_nil]
  · simp only [h0, if_false, wBytes_eq, wSeq_eq, wLenBlock_eq, List.append_assoc]

theorem rt : codec.RtAnywhere := by
  intro x hwf hf d p h
  obtain ⟨iw, rect, comp, data⟩ := x
  obtain ⟨fiw, fc⟩ := hf
  have hwf : iw = 0 → (rect = defaultRect ∧ comp = 0 ∧ data = []) := hwf
  simp only at fiw fc
  simp only [codec, encT] at h ⊢
  by_cases h0 : iw = 0
  · obtain ⟨rfl, rfl, rfl⟩ := hwf h0
    simp only [h0, if_true, List.append_nil] at h ⊢
    have e1 := readU_at h (by decide : 0 < 256 ^ 1)
    simp only [dec, bind, Except.bind, e1, if_true, length_beBytes]
  · simp only [h0, if_false, List.append_assoc] at h ⊢
    obtain ⟨f1, f2, f3⟩ := fc h0
    obtain ⟨e1, h1⟩ := readU_step h fiw
    obtain ⟨e2, h2⟩ := fmt_step' (fs := s4x4) rfl f1 (fmtWF_of_plain _ _ rfl) h1
    have hl : (beBytes 2 comp ++ data).length = 2 + data.length := by simp only [List.length_append, length_beBytes]
    have e3 := readLenBlock_at (skip := 0) (w := 8) (pad := 1) h2 (by rw [hl]; exact f3) (by decide)
    obtain ⟨e4, e5⟩ := readU2_nested comp data f2
    simp only [dec, bind, Except.bind, e1, if_neg h0, e2, e3, e4, e5]
    simp only [List.length_append, length_beBytes, Nat.add_assoc]

theorem count : codec.Count := encP_eq
theorem tight : Tight codec := fun _ _ => rfl
theorem ge : ∀ v, codec.Fits v → 1 ≤ (codec.encT v).length := by
  intro v _
  simp only [codec, encT, List.length_append, length_beBytes]; omega

end FEExtra

namespace FEBody

theorem rt : codec.RtAnywhere := by
  intro v hwf hf d p h
  obtain ⟨rect, dm, chs⟩ := v
  obtain ⟨hn, hw⟩ := hwf
  obtain ⟨f1, f2, f3⟩ := hf
  simp only at hn hw f1 f2 f3
  simp only [codec] at h ⊢
  obtain ⟨e1, h1⟩ := fmt_step' (fs := s4x4) rfl f1 (fmtWF_of_plain _ _ rfl) h
  obtain ⟨e2, h2⟩ := fmt_step' (fs := [U 4, U 4]) rfl f2 (fmtWF_of_plain _ _ rfl) h1
  have e3 := readCount_at FEChannel.dec FEChannel.encT chs
    (fun c hc d p hat => (FEChannel.dec_step (hw c hc) (f3 c hc) hat.nil_right).1) h2
  rw [hn] at e3
  simp only [bind, Except.bind, e1, e2, e3]
  simp only [List.length_append, Nat.add_assoc]

theorem count : codec.Count := by
  intro v
  simp only [codec]
  rw [wList_eq _ FEChannel.encT v.2.2 (fun c _ => FEChannel.encP_eq c)]
  simp only [wBytes_eq, wSeq_eq]

theorem tight : Tight codec := fun _ _ => rfl

end FEBody

namespace FilterEffect

theorem version_tight : Tight (checked (rec [U 4]) (fun r => r.int 0 ≤ 1) .assertionError) := checked_tight (rec_tight _)

theorem rt : codec.RtAtEnd :=
  seq_rt_end (checked_rt (pascal_rt 1)) (checked_tight (pascal_tight 1 1)) (seq_rt_end (checked_rt (rec_rt _ rfl)) version_tight
    (seq_rt_end (blocked_rt 8 1 FEBody.rt.atEnd FEBody.tight (by decide)) (blocked_tight 8 1)
      (optTail_rt FEExtra.rt.atEnd FEExtra.tight FEExtra.ge)))

theorem count : codec.Count :=
  seq_count (checked_count (pascal_count 1 1)) (seq_count (checked_count (rec_count _))
    (seq_count (blocked_count 8 1 FEBody.count) (optTail_count FEExtra.count)))

theorem tight : Tight codec := seq_tight (seq_tight (seq_tight (fun _ _ => rfl)))

end FilterEffect

namespace FilterEffects

theorem rt : codec.RtAtEnd :=
  seq_rt_end (checked_rt (rec_rt _ rfl)) (checked_tight (rec_tight _))
    (whileR_rt 8 1 (blocked_rt 8 4 FilterEffect.rt FilterEffect.tight (by decide)) (blocked_tight 8 4) (blocked_ge 8 4)
      (by decide) (by decide))

theorem count : codec.Count :=
  seq_count (checked_count (rec_count _)) (whileR_count 8 1 (blocked_count 8 4 FilterEffect.count))

end FilterEffects

end PsdVerif.Payload3
