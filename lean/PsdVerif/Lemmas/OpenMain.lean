/-
C06 — the bound for `openC` (Model/OpenMain.lean): the concrete hooks satisfy `Hooks.Ok` / `Hooks.Bound`, so the
theorems of Lemmas/OpenCost3.lean apply with explicit numbers.

  classes of tagged_blocks.TYPES     ≤ 1867 · len + 1853   (the largest: `Patterns`, whose 256 × 3 colour table is a
                                                            constant loop; engine data 65 · len + 22; TySh 70 · len + 56)
  classes of image_resources.TYPES   ≤ (62 + 4 · len) · len + 63   (`Slices`: quadratic)
  q = 155 (12 · 155 ≥ 1853), j = 8

  ticks + bytes of `openC D b`  ≤  (2105 + 4 · n + 168 · min D (n / 12)) · n + 287,   n = len(b).
-/
import PsdVerif.Model.OpenMain
import PsdVerif.Lemmas.OpenDispatch
import PsdVerif.Lemmas.EngineDataCost
import PsdVerif.Lemmas.TyShCost

namespace PsdVerif.OpenCost
open PsdVerif PsdVerif.Codec PsdVerif.PsdCost PsdVerif.PayloadCost PsdVerif.Safe PsdVerif.SafeCost

theorem engineRunner_RB : RB 1867 1853 engineRunner := by
  intro data
  have h := EngineDataCost.runEngineData_bound data
  have : 65 * data.length ≤ 1867 * data.length := Nat.mul_le_mul_right _ (by decide)
  exact ⟨by show (EngineDataCost.runEngineData data).2.w ≤ _; omega, h.2⟩

theorem tyshRun_RB : RB 1867 1853 tyshRun := by
  intro data
  have h := tyshRunner_bound (engine := engineRunner) (A := 65) (Bc := 22)
    (fun raw => (EngineDataCost.runEngineData_bound raw).1) tables data
  have : (4 + 1 + 65) * data.length ≤ 1867 * data.length := Nat.mul_le_mul_right _ (by decide)
  exact ⟨by show (tyshRunner tables engineRunner data).2.w ≤ _; omega, h.2⟩

theorem hooks_ok : hooks.Ok := mkHooks_ok tables engineRunner_RB tyshRun_RB

theorem hooks_bound : hooks.Bound 1867 1853 62 63 4 := mkHooks_bound tables engineRunner_RB tyshRun_RB

/-- ticks + bytes of the whole modelled reader on ANY byte string, whatever its outcome -/
theorem openC_cost (D : Nat) (b : B) :
    (openC D b).2.w ≤ (2105 + 4 * b.length + 168 * min D (b.length / 12)) * b.length + 287 := by
  have h := open_cost (q := 155) (j := 8) hooks_ok hooks_bound (by decide) (by decide) D b
  exact h

theorem openC_cost_quadratic (D : Nat) (b : B) :
    (openC D b).2.w ≤ 172 * b.length * b.length + 2105 * b.length + 287 := by
  have h := open_cost_quadratic (q := 155) (j := 8) hooks_ok hooks_bound (by decide) (by decide) D b
  exact h

theorem openC_cost_limit (D : Nat) (b : B) :
    (openC D b).2.w ≤ (2105 + 4 * b.length + 168 * D) * b.length + 287 := by
  have h := open_cost_limit (q := 155) (j := 8) hooks_ok hooks_bound (by decide) (by decide) D b
  exact h

/-- the skeleton's document whenever no payload class raises; otherwise that exception -/
theorem openC_sim (D : Nat) (b : B) : Sim (openC D b).1 (Psd.PSD.read b 0) := open_sim hooks_ok D b

theorem openC_never_other (D : Nat) (b : B) : (openC D b).1 ≠ .error .other := open_never_other hooks_ok D b

end PsdVerif.OpenCost
