/-
Concrete values used by Props/C01Payload.lean: non-vacuity witnesses with every optional branch taken,
and the points excluded by (F) clauses.
-/
import PsdVerif.Lemmas.CodecSamples
import PsdVerif.Model.PayloadLayerInfo
import PsdVerif.Model.PayloadSimple
import PsdVerif.Model.PayloadEffects
import PsdVerif.Model.PayloadPatterns
import PsdVerif.Model.PayloadLinked
import PsdVerif.Model.PayloadDescWrap
import PsdVerif.Model.DescriptorTables
import PsdVerif.Lemmas.Descriptor3

namespace PsdVerif.Payload.Samples
open PsdVerif PsdVerif.Codec PsdVerif.Psd PsdVerif.Psd.Samples

def kLr16 : B := [76, 114, 49, 54]
def kLr32 : B := [76, 114, 51, 50]

/-- the six records of `Psd.Samples.sampleDoc` (two nested groups, a masked layer with parameters) as the
content of an Lr16 block: this is how a 16-bit document stores its layers -/
def nestedLayers : LayerInfo :=
  { layerCount := -6
    records := some [groupEnd [60, 47, 111, 62], groupEnd [60, 47, 105, 62], plainLayer, groupOpen [105],
                      maskedLayer, groupOpen [111]]
    channels := some [[⟨0, []⟩], [⟨0, []⟩], [⟨1, [9]⟩], [⟨0, []⟩],
                      [⟨0, [1, 2, 3, 4]⟩, ⟨1, [5]⟩, ⟨0, []⟩], [⟨0, []⟩]] }

/-- the same with stale channel lengths in the first record (the writer refreshes them) -/
def nestedStale : LayerInfo :=
  { nestedLayers with records := nestedLayers.records.map (fun rs => match rs with
      | r :: rs => { r with channelInfo := [⟨0, 77⟩] } :: rs
      | [] => []) }

def lr16Block : TBlock := ⟨s8BIM, kLr16, .layerInfo nestedLayers⟩

/-- a 16-bit PSB: empty main layer info, global mask info, then `Lr16` (typed) and a raw 8-byte-length block -/
def deepDoc : DeepPSD :=
  { header := ⟨s8BPS, 2, 3, 4, 4, 16, 3⟩
    colorModeData := []
    resources := [⟨s8BIM, 1005, [97, 98, 99], [1, 2, 3]⟩]
    layerAndMask :=
      { layerInfo := some ⟨0, none, none⟩
        globalMask := some ⟨some [0, 65535, 0, 0, 0], 50, 128⟩
        taggedBlocks := some [lr16Block, ⟨s8B64, kFMsk, .raw [0, 1, 2, 3, 4]⟩] }
    imageData := ⟨0, [1, 2, 3, 4, 5, 6]⟩ }

def deepDocStale : DeepPSD :=
  { deepDoc with layerAndMask := { deepDoc.layerAndMask with
      taggedBlocks := some [⟨s8BIM, kLr16, .layerInfo nestedStale⟩, ⟨s8B64, kFMsk, .raw [0, 1, 2, 3, 4]⟩] } }

/-- `LayerInfoBlock()`: layer_count 0, records None, channel data None -/
def blockNone : LayerInfo := ⟨0, none, none⟩

/-! ### unit 2 -/

def s8BIM' : B := [56, 66, 73, 77]
def rgb : Color := ⟨0, [65535, 0, 1, 0]⟩
def lab : Color := ⟨7, [100, -128, 127, -32768]⟩
def customSpace : Color := ⟨12345, [1, 2, 3, 4]⟩

def dividerKindOnly : SectionDividerSetting := ⟨3, none, none, none⟩
def dividerBlend : SectionDividerSetting := ⟨1, some s8BIM', some kPass, none⟩
def dividerSub : SectionDividerSetting := ⟨2, some s8BIM', some kNorm, some 1⟩
/-- excluded by (iii): a sub type without signature and key -/
def dividerSubOnly : SectionDividerSetting := ⟨1, none, none, some 5⟩
/-- excluded by (iii): a signature without a blend mode -/
def dividerSigOnly : SectionDividerSetting := ⟨1, some s8BIM', none, none⟩

def kCust : B := [99, 117, 115, 116]
def kMdyn : B := [109, 100, 121, 110]
def kXyzw : B := [120, 121, 122, 119]
/-- the three kinds of metadata: a descriptor (`cust`), an integer (`mdyn`), raw bytes under an unknown key -/
def metadata : List MetadataSetting :=
  [⟨s8BIM', kCust, true, .desc Descriptor.Samples.block⟩, ⟨[56, 69, 76, 69], kMdyn, false, .int 7⟩,
   ⟨s8BIM', kXyzw, false, .raw [1, 2, 3]⟩]
/-- excluded by (iii): raw bytes under a key whose data the reader decodes as a descriptor -/
def metadataMismatch : MetadataSetting := ⟨s8BIM', kCust, false, .raw [1, 2, 3]⟩

def annotation : Annotation :=
  ⟨[116, 120, 116, 65], 1, 0, 1, [0, -1, 2147483647, -2147483648], [1, 2, 3, 4], lab, [74, 111], [], [50, 48, 50, 52, 33],
   [116, 120, 116, 67], [0, 104, 0, 105]⟩
def annotations : Annotations := ⟨2, 1, [annotation, { annotation with kind := [115, 110, 100, 77], data := [] }]⟩

def pixelSources : List B := [[1, 2, 3], [], [9]]

/-! ### unit 3 -/

def glowBody (version : Nat) : GlowBody := ⟨version, 5, 4294967295, rgb, kNorm, 1, 255⟩
def shadow : ShadowInfo := ⟨0, 1, 2, -120, 4, rgb, [109, 117, 108, 32], 1, 0, 191, lab⟩
def outerGlow0 : OuterGlowInfo := ⟨glowBody 0, none⟩
def outerGlow2 : OuterGlowInfo := ⟨glowBody 2, some customSpace⟩
def innerGlow0 : InnerGlowInfo := ⟨glowBody 0, none, none⟩
def innerGlow2 : InnerGlowInfo := ⟨glowBody 2, some 1, some lab⟩
def bevel (version : Nat) (real : Option Color) : BevelInfo :=
  ⟨version, -30, 100, 5, [115, 99, 114, 110], [109, 117, 108, 32], rgb, lab, 2, 191, 128, 1, 1, 0, real, real.map (fun _ => customSpace)⟩
def bevel0 : BevelInfo := bevel 0 none
def bevel2 : BevelInfo := bevel 2 (some rgb)
/-- a version above 2: the writer stores the real colours for `version >= 2`; so does the reader since 077ef93 -/
def bevel3 : BevelInfo := bevel 3 (some lab)
def solidFill : SolidFillInfo := ⟨2, kNorm, rgb, 255, 1, lab⟩

/-- every key of `EFFECT_TYPES`, every version-dependent trailer taken -/
def effects : EffectsLayer :=
  ⟨0, [(kCmnS, .common ⟨0, 1⟩), (kDsdw, .shadow shadow), (kIsdw, .shadow { shadow with angle := 90 }),
       (kOglw, .outerGlow outerGlow2), (kIglw, .innerGlow innerGlow2), (kBevl, .bevel bevel2), (kSofi, .solidFill solidFill)]⟩
def effectsOld : EffectsLayer :=
  ⟨0, [(kCmnS, .common ⟨0, 1⟩), (kOglw, .outerGlow outerGlow0), (kIglw, .innerGlow innerGlow0), (kBevl, .bevel bevel0)]⟩

/-- excluded by (iii): version 2 without its trailer / version 0 with one -/
def outerGlow2NoNative : OuterGlowInfo := ⟨glowBody 2, none⟩
def outerGlow0Native : OuterGlowInfo := ⟨glowBody 0, some rgb⟩
def innerGlow0Trailer : InnerGlowInfo := ⟨glowBody 0, some 1, some rgb⟩
def bevel0Real : BevelInfo := bevel 0 (some rgb)

/-- `BevelInfo.read` as it was before repo commit 077ef93: the real colours only `if version == 2` -/
def bevelDecOld : R BevelInfo := fun d p => do
  let (version, p) ← readU 4 d p
  let (angle, p) ← readI32 d p
  let (depth, p) ← readU 4 d p
  let (blur, p) ← readU 4 d p
  let (s1, p) ← readN 4 d p
  let (hbm, p) ← readN 4 d p
  if s1 = sig8BIM then
    let (s2, p) ← readN 4 d p
    let (sbm, p) ← readN 4 d p
    if s2 = sig8BIM then
      let (hc, p) ← Color.dec d p
      let (sc, p) ← Color.dec d p
      let (style, p) ← readU 1 d p
      let (ho, p) ← readU 1 d p
      let (so, p) ← readU 1 d p
      let (en, p) ← readU 1 d p
      let (uga, p) ← readU 1 d p
      let (dir, p) ← readU 1 d p
      let ((rh, rs), p) ← (if version = 2 then do
          let (a, p) ← Color.dec d p
          let (b, p) ← Color.dec d p
          .ok ((some a, some b), p)
        else .ok ((none, none), p) : Except Err ((Option Color × Option Color) × Nat))
      let x : BevelInfo := ⟨version, angle, depth, blur, hbm, sbm, hc, sc, style, ho, so, en, uga, dir, rh, rs⟩
      if x.Valid then .ok (x, p) else .error .valueError
    else .error .assertionError
  else .error .assertionError

/-! ### unit 4 -/

def vmaUnwritten : VMA := ⟨0, none⟩
def vmaEmpty : VMA := ⟨1, none⟩
def vmaData : VMA := ⟨1, some ⟨8, [0, 0, 2, 3], 8, 0, [1, 2, 3, 4, 5, 6]⟩⟩
def vmal : VMAL := ⟨3, [0, 0, 2, 3], [vmaData, vmaEmpty, vmaUnwritten, { vmaData with isWritten := 4294967295 }]⟩
def patternRgb : Pattern := ⟨1, 3, [2, 3], [80, 0x1F600], [97, 98, 99, 45, 49], none, vmal⟩
/-- an INDEXED pattern with its 256-entry colour table -/
def patternIndexed : Pattern :=
  ⟨1, 2, [-1, 32767], [], [], some ((List.range 256).map (fun i => [i, 255 - i, 7])), ⟨3, [0, 0, 1, 1], [vmaData, vmaUnwritten]⟩⟩
def patterns : List Pattern := [patternRgb, patternIndexed]

/-- excluded: an array that is not written but carries content; the empty colour table of a non-indexed pattern -/
def vmaUnwrittenContent : VMA := ⟨0, vmaData.content⟩
def patternEmptyTable : Pattern := { patternRgb with colorTable := some [] }

/-! ### unit 5 -/

def liFD : B := [108, 105, 70, 68]
def liFE : B := [108, 105, 70, 69]
def liFA : B := [108, 105, 70, 65]
def uuid : B := [53, 97, 57, 54, 99, 52, 48, 52, 45]
def fname : Str := [108, 111, 103, 111, 46, 112, 110, 103]
def kPng : B := [112, 110, 103, 32]
def blk : Descriptor.Block := Descriptor.Samples.block

/-- embedded data, version 1: nothing optional -/
def linkedData1 : LinkedLayer := ⟨liFD, 1, uuid, fname, kPng, [0, 0, 0, 0], none, none, none, none, some [1, 2, 3, 4, 5], none, none, none⟩
/-- embedded data, version 7, with an open-file descriptor, child id, modification time, lock state -/
def linkedData7 : LinkedLayer :=
  ⟨liFD, 7, uuid, [0x1F600], kPng, kPng, none, some blk, none, none, some [], some [99, 49], some 4607182418800017408, some 1⟩
/-- external file, version 1: no data at all · 2: data last · 3: data after the file size · 4: with a time stamp -/
def linkedExt (version : Nat) : LinkedLayer :=
  ⟨liFE, version, uuid, fname, kPng, [0, 0, 0, 0], some 18446744073709551615, none, some blk,
   (if version > 3 then some ⟨2024, [2, 29, 23, 59], 4633641066610819072⟩ else none),
   (if version > 1 then some [9, 8, 7] else none),
   (if version ≥ 5 then some [] else none), (if version ≥ 6 then some 0 else none), (if version ≥ 7 then some 255 else none)⟩
def linkedAlias1 : LinkedLayer := ⟨liFA, 1, [], [], [0, 0, 0, 0], [0, 0, 0, 0], none, none, none, none, none, none, none, none⟩
def linkedAll : List LinkedLayer :=
  [linkedData1, linkedData7, linkedExt 1, linkedExt 2, linkedExt 3, linkedExt 4, linkedExt 5, linkedExt 6, linkedExt 7, linkedAlias1]

/-- excluded by (iii): an alias with data; an external item of version 1 with data; a child id in version 4 -/
def linkedAliasData : LinkedLayer := { linkedAlias1 with data := some [1, 2, 3] }
def linkedExt1Data : LinkedLayer := { linkedExt 1 with data := some [1, 2, 3] }
def linkedChildV4 : LinkedLayer := { linkedExt 4 with childId := some [120] }

/-! ### unit 6 -/

def smartObject : SmartObjectLayerData := ⟨[115, 111, 76, 68], 5, blk⟩
def placedLayer : PlacedLayerData :=
  ⟨[112, 108, 99, 76], 3, uuid, 1, 1, 16, 2, [4607182418800017408, 0, 0, 4607182418800017408, 0, 9223372036854775808, 1, 18446744073709551615],
   Descriptor.Samples.block2⟩
def typeTool : TypeToolObjectSetting :=
  ⟨1, [4607182418800017408, 0, 0, 4607182418800017408, 4638707616191610880, 0], 50, blk, 1, blk, 0, -5, 2147483647, -2147483648⟩

end PsdVerif.Payload.Samples
