/-
Concrete values used by Props/C01Payload.lean: non-vacuity witnesses with every optional branch taken,
and the points excluded by (F) clauses.
-/
import PsdVerif.Lemmas.CodecSamples
import PsdVerif.Model.PayloadLayerInfo
import PsdVerif.Model.PayloadSimple
import PsdVerif.Model.DescriptorTables
import PsdVerif.Lemmas.Descriptor3

namespace PsdVerif.Payload.Samples
open PsdVerif PsdVerif.Codec PsdVerif.Psd PsdVerif.Psd.Samples

def kLr16 : B := [76, 114, 49, 54]
def kLr32 : B := [76, 114, 51, 50]

/-- the six records of `Psd.Samples.sampleDoc` (two nested groups, a masked layer with parameters) as the
content of an Lr16 block: this is how a 16-bit document stores its layers -/
def nestedLayers : LayerInfo :=
  { layerCount := -6
    records := some [groupEnd [60, 47, 111, 62], groupEnd [60, 47, 105, 62], plainLayer, groupOpen [105],
                      maskedLayer, groupOpen [111]]
    channels := some [[⟨0, []⟩], [⟨0, []⟩], [⟨1, [9]⟩], [⟨0, []⟩],
                      [⟨0, [1, 2, 3, 4]⟩, ⟨1, [5]⟩, ⟨0, []⟩], [⟨0, []⟩]] }

/-- the same with stale channel lengths in the first record (the writer refreshes them) -/
def nestedStale : LayerInfo :=
  { nestedLayers with records := nestedLayers.records.map (fun rs => match rs with
      | r :: rs => { r with channelInfo := [⟨0, 77⟩] } :: rs
      | [] => []) }

def lr16Block : TBlock := ⟨s8BIM, kLr16, .layerInfo nestedLayers⟩

/-- a 16-bit PSB: empty main layer info, global mask info, then `Lr16` (typed) and a raw 8-byte-length block -/
def deepDoc : DeepPSD :=
  { header := ⟨s8BPS, 2, 3, 4, 4, 16, 3⟩
    colorModeData := []
    resources := [⟨s8BIM, 1005, [97, 98, 99], [1, 2, 3]⟩]
    layerAndMask :=
      { layerInfo := some ⟨0, none, none⟩
        globalMask := some ⟨some [0, 65535, 0, 0, 0], 50, 128⟩
        taggedBlocks := some [lr16Block, ⟨s8B64, kFMsk, .raw [0, 1, 2, 3, 4]⟩] }
    imageData := ⟨0, [1, 2, 3, 4, 5, 6]⟩ }

def deepDocStale : DeepPSD :=
  { deepDoc with layerAndMask := { deepDoc.layerAndMask with
      taggedBlocks := some [⟨s8BIM, kLr16, .layerInfo nestedStale⟩, ⟨s8B64, kFMsk, .raw [0, 1, 2, 3, 4]⟩] } }

/-- `LayerInfoBlock()`: layer_count 0, records None, channel data None -/
def blockNone : LayerInfo := ⟨0, none, none⟩

/-! ### unit 2 -/

def s8BIM' : B := [56, 66, 73, 77]
def rgb : Color := ⟨0, [65535, 0, 1, 0]⟩
def lab : Color := ⟨7, [100, -128, 127, -32768]⟩
def customSpace : Color := ⟨12345, [1, 2, 3, 4]⟩

def dividerKindOnly : SectionDividerSetting := ⟨3, none, none, none⟩
def dividerBlend : SectionDividerSetting := ⟨1, some s8BIM', some kPass, none⟩
def dividerSub : SectionDividerSetting := ⟨2, some s8BIM', some kNorm, some 1⟩
/-- excluded by (iii): a sub type without signature and key -/
def dividerSubOnly : SectionDividerSetting := ⟨1, none, none, some 5⟩
/-- excluded by (iii): a signature without a blend mode -/
def dividerSigOnly : SectionDividerSetting := ⟨1, some s8BIM', none, none⟩

def kCust : B := [99, 117, 115, 116]
def kMdyn : B := [109, 100, 121, 110]
def kXyzw : B := [120, 121, 122, 119]
/-- the three kinds of metadata: a descriptor (`cust`), an integer (`mdyn`), raw bytes under an unknown key -/
def metadata : List MetadataSetting :=
  [⟨s8BIM', kCust, true, .desc Descriptor.Samples.block⟩, ⟨[56, 69, 76, 69], kMdyn, false, .int 7⟩,
   ⟨s8BIM', kXyzw, false, .raw [1, 2, 3]⟩]
/-- excluded by (iii): raw bytes under a key whose data the reader decodes as a descriptor -/
def metadataMismatch : MetadataSetting := ⟨s8BIM', kCust, false, .raw [1, 2, 3]⟩

def annotation : Annotation :=
  ⟨[116, 120, 116, 65], 1, 0, 1, [0, -1, 2147483647, -2147483648], [1, 2, 3, 4], lab, [74, 111], [], [50, 48, 50, 52, 33],
   [116, 120, 116, 67], [0, 104, 0, 105]⟩
def annotations : Annotations := ⟨2, 1, [annotation, { annotation with kind := [115, 110, 100, 77], data := [] }]⟩

def pixelSources : List B := [[1, 2, 3], [], [9]]

end PsdVerif.Payload.Samples
