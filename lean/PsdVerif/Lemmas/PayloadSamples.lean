/-
Concrete values used by Props/C01Payload.lean: non-vacuity witnesses with every optional branch taken,
and the points excluded by (F) clauses.
-/
import PsdVerif.Lemmas.CodecSamples
import PsdVerif.Model.PayloadLayerInfo

namespace PsdVerif.Payload.Samples
open PsdVerif PsdVerif.Codec PsdVerif.Psd PsdVerif.Psd.Samples

def kLr16 : B := [76, 114, 49, 54]
def kLr32 : B := [76, 114, 51, 50]

/-- the six records of `Psd.Samples.sampleDoc` (two nested groups, a masked layer with parameters) as the
content of an Lr16 block: this is how a 16-bit document stores its layers -/
def nestedLayers : LayerInfo :=
  { layerCount := -6
    records := some [groupEnd [60, 47, 111, 62], groupEnd [60, 47, 105, 62], plainLayer, groupOpen [105],
                      maskedLayer, groupOpen [111]]
    channels := some [[⟨0, []⟩], [⟨0, []⟩], [⟨1, [9]⟩], [⟨0, []⟩],
                      [⟨0, [1, 2, 3, 4]⟩, ⟨1, [5]⟩, ⟨0, []⟩], [⟨0, []⟩]] }

/-- the same with stale channel lengths in the first record (the writer refreshes them) -/
def nestedStale : LayerInfo :=
  { nestedLayers with records := nestedLayers.records.map (fun rs => match rs with
      | r :: rs => { r with channelInfo := [⟨0, 77⟩] } :: rs
      | [] => []) }

def lr16Block : TBlock := ⟨s8BIM, kLr16, .layerInfo nestedLayers⟩

/-- a 16-bit PSB: empty main layer info, global mask info, then `Lr16` (typed) and a raw 8-byte-length block -/
def deepDoc : DeepPSD :=
  { header := ⟨s8BPS, 2, 3, 4, 4, 16, 3⟩
    colorModeData := []
    resources := [⟨s8BIM, 1005, [97, 98, 99], [1, 2, 3]⟩]
    layerAndMask :=
      { layerInfo := some ⟨0, none, none⟩
        globalMask := some ⟨some [0, 65535, 0, 0, 0], 50, 128⟩
        taggedBlocks := some [lr16Block, ⟨s8B64, kFMsk, .raw [0, 1, 2, 3, 4]⟩] }
    imageData := ⟨0, [1, 2, 3, 4, 5, 6]⟩ }

def deepDocStale : DeepPSD :=
  { deepDoc with layerAndMask := { deepDoc.layerAndMask with
      taggedBlocks := some [⟨s8BIM, kLr16, .layerInfo nestedStale⟩, ⟨s8B64, kFMsk, .raw [0, 1, 2, 3, 4]⟩] } }

/-- `LayerInfoBlock()`: layer_count 0, records None, channel data None -/
def blockNone : LayerInfo := ⟨0, none, none⟩

end PsdVerif.Payload.Samples
