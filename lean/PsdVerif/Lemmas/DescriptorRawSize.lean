/-
C06 cost programme — the opaque byte strings inside a descriptor (`RawData` / `Alias` / `Path` values) are slices of
what the descriptor reader consumed: `rawSize v + p ≤ p'` whenever `decBody … d p = ok (v, p')`.

Used for `TypeToolObjectSetting.read`, which hands `text_data[b"EngineData"].value` to `EngineData.frombytes`: the
bytes given to the engine-data parser are no longer than the block the descriptor was read from (`findRaw_le`).
-/
import PsdVerif.Lemmas.Descriptor4
import PsdVerif.Model.DescriptorRaw

namespace PsdVerif.Descriptor
open PsdVerif PsdVerif.Codec

/-! ### total size of the raw byte strings of a value -/

mutual
/-- the bytes held by the `RawData` / `Alias` / `Path` values inside `v` -/
def rawSize : DVal → Nat
  | .int _ _ => 0
  | .large _ => 0
  | .bool _ => 0
  | .double _ => 0
  | .unitFloat _ _ => 0
  | .unitFloats _ _ => 0
  | .string _ => 0
  | .enumerated _ _ => 0
  | .enumRef _ _ _ _ => 0
  | .klass _ _ _ => 0
  | .property _ _ _ => 0
  | .name _ _ _ => 0
  | .offset _ _ _ => 0
  | .raw _ data => data.length
  | .list _ items => rawSizeList items
  | .desc _ _ _ items => rawSizeItems items
  | .objArray _ _ _ items => rawSizeItems items
def rawSizeList : List DVal → Nat
  | [] => 0
  | v :: vs => rawSize v + rawSizeList vs
def rawSizeItems : Items → Nat
  | [] => 0
  | (_, v) :: r => rawSize v + rawSizeItems r
end

theorem rawSizeList_nil : rawSizeList [] = 0 := by simp only [rawSizeList]
theorem rawSizeList_cons (v : DVal) (vs : List DVal) : rawSizeList (v :: vs) = rawSize v + rawSizeList vs := by
  simp only [rawSizeList]
theorem rawSizeItems_nil : rawSizeItems [] = 0 := by simp only [rawSizeItems]
theorem rawSizeItems_cons (x : Key × DVal) (r : Items) : rawSizeItems (x :: r) = rawSize x.2 + rawSizeItems r := by
  obtain ⟨k, v⟩ := x
  simp only [rawSizeItems]

theorem rawSizeItems_append (a b : Items) : rawSizeItems (a ++ b) = rawSizeItems a + rawSizeItems b := by
  induction a with
  | nil => simp only [List.nil_append, rawSizeItems_nil, Nat.zero_add]
  | cons x a ih => rw [List.cons_append, rawSizeItems_cons, rawSizeItems_cons, ih]; omega

/-! ### `OrderedDict(items)` drops the values it replaces -/

theorem map_replace_of_not_mem (kb : B) (w : DVal) (r : Items) (h : ∀ y ∈ r, y.1.bytes ≠ kb) :
    r.map (fun y => if y.1.bytes == kb then (y.1, w) else y) = r := by
  induction r with
  | nil => rfl
  | cons y r ih =>
    have hy : (y.1.bytes == kb) = false := by
      have := h y (List.mem_cons_self ..)
      simpa using this
    simp only [List.map_cons, hy]
    rw [ih fun z hz => h z (List.mem_cons_of_mem _ hz)]
    rfl

theorem rawSizeItems_map_replace (kb : B) (w : DVal) (acc : Items) (hn : KeysNodup acc) :
    rawSizeItems (acc.map (fun y => if y.1.bytes == kb then (y.1, w) else y)) ≤ rawSizeItems acc + rawSize w := by
  induction acc with
  | nil => simp only [List.map_nil, rawSizeItems_nil]; omega
  | cons y r ih =>
    unfold KeysNodup at hn
    rw [List.map_cons, List.nodup_cons] at hn
    rw [List.map_cons, rawSizeItems_cons, rawSizeItems_cons]
    by_cases hy : (y.1.bytes == kb) = true
    · have hkb : y.1.bytes = kb := by simpa using hy
      have hr : ∀ z ∈ r, z.1.bytes ≠ kb := by
        intro z hz e
        apply hn.1
        rw [hkb, ← e]
        exact List.mem_map_of_mem (f := fun kv : Key × DVal => kv.1.bytes) hz
      rw [map_replace_of_not_mem kb w r hr]
      simp only [hy, if_true]
      omega
    · have hy' : (y.1.bytes == kb) = false := by simpa using hy
      have := ih hn.2
      simp only [hy']
      simp only [Bool.false_eq_true, if_false]
      omega

theorem keys_dictInsert (acc : Items) (x : Key × DVal) :
    (dictInsert acc x).map (fun kv => kv.1.bytes) =
      if acc.any (fun y => y.1.bytes == x.1.bytes) then acc.map (fun kv => kv.1.bytes)
      else acc.map (fun kv => kv.1.bytes) ++ [x.1.bytes] := by
  unfold dictInsert
  split
  · rw [List.map_map]
    congr 1
    funext y
    simp only [Function.comp]
    split <;> rfl
  · simp only [List.map_append, List.map_cons, List.map_nil]

theorem keysNodup_dictInsert (acc : Items) (x : Key × DVal) (hn : KeysNodup acc) : KeysNodup (dictInsert acc x) := by
  unfold KeysNodup at hn ⊢
  rw [keys_dictInsert]
  split
  · exact hn
  · rename_i hany
    rw [List.nodup_append]
    refine ⟨hn, by simp, ?_⟩
    intro a ha b hb e
    simp only [List.mem_cons, List.not_mem_nil, or_false] at hb
    apply hany
    rw [List.any_eq_true]
    obtain ⟨y, hy, rfl⟩ := List.mem_map.mp ha
    exact ⟨y, hy, by simp only [beq_iff_eq]; rw [e, hb]⟩

theorem rawSizeItems_dictInsert (acc : Items) (x : Key × DVal) (hn : KeysNodup acc) :
    rawSizeItems (dictInsert acc x) ≤ rawSizeItems acc + rawSize x.2 := by
  unfold dictInsert
  split
  · exact rawSizeItems_map_replace x.1.bytes x.2 acc hn
  · rw [rawSizeItems_append, rawSizeItems_cons, rawSizeItems_nil]; omega

theorem rawSizeItems_foldl_dictInsert (items acc : Items) (hn : KeysNodup acc) :
    rawSizeItems (items.foldl dictInsert acc) ≤ rawSizeItems acc + rawSizeItems items := by
  induction items generalizing acc with
  | nil => simp only [List.foldl_nil, rawSizeItems_nil]; omega
  | cons x xs ih =>
    rw [List.foldl_cons, rawSizeItems_cons]
    have h1 := ih (dictInsert acc x) (keysNodup_dictInsert acc x hn)
    have h2 := rawSizeItems_dictInsert acc x hn
    omega

/-- `OrderedDict(items)` holds a sub-collection of the values of `items` -/
theorem rawSizeItems_dictOf (items : Items) : rawSizeItems (dictOf items) ≤ rawSizeItems items := by
  have := rawSizeItems_foldl_dictInsert items [] (by unfold KeysNodup; simp)
  rw [rawSizeItems_nil] at this
  unfold dictOf
  omega

/-! ### the judgement: on success the cursor has moved by at least the size of the value (minus a credit `k`) -/

def Adv {α : Type} (k : Nat) (sz : α → Nat) (r : R α) (d : B) : Prop :=
  ∀ p a p', p ≤ d.length → r d p = .ok (a, p') → sz a + p ≤ p' + k ∧ p' ≤ d.length

theorem Adv.bind {α β : Type} {k : Nat} {s : α → Nat} {s' : β → Nat} {r : R α} {f : α → R β} {d : B}
    (hr : Adv 0 s r d) (hf : ∀ a, Adv (k + s a) s' (f a) d) : Adv k s' (r >>- f) d := by
  intro p b p2 hp h
  unfold rbind at h
  cases hr' : r d p with
  | error e => rw [hr'] at h; cases h
  | ok x =>
    obtain ⟨a, p1⟩ := x
    rw [hr'] at h
    simp only at h
    have h1 := hr p a p1 hp hr'
    have h2 := hf a p1 b p2 h1.2 h
    omega

theorem Adv.bind0 {α β : Type} {k : Nat} {s' : β → Nat} {r : R α} {f : α → R β} {d : B}
    (hr : Adv 0 (fun _ => 0) r d) (hf : ∀ a, Adv k s' (f a) d) : Adv k s' (r >>- f) d :=
  Adv.bind hr hf

theorem Adv.pure {α : Type} {k : Nat} {s : α → Nat} {b : α} {d : B} (h : s b ≤ k) : Adv k s (rpure b) d := by
  intro p a p' hp he
  simp only [rpure, Except.ok.injEq, Prod.mk.injEq] at he
  obtain ⟨rfl, rfl⟩ := he
  omega

theorem Adv.fail {α : Type} {k : Nat} {s : α → Nat} {e : Err} {d : B} : Adv k s (rfail e : R α) d := by
  intro p a p' _ he
  simp only [rfail] at he
  cases he

theorem Adv.of_good {α : Type} {r : R α} {d : B} (h : GoodIn d 0 r) : Adv 0 (fun _ => 0) r d := by
  intro p a p' hp he
  have := h p (Nat.zero_le _) hp
  unfold OkAt at this
  rw [he] at this
  simp only at this
  dsimp only
  omega

theorem adv_readUpTo_len (n : Nat) (d : B) : Adv 0 List.length (readUpTo n) d := by
  intro p a p' hp he
  simp only [readUpTo, Except.ok.injEq, Prod.mk.injEq] at he
  obtain ⟨rfl, rfl⟩ := he
  simp only [List.length_take, List.length_drop]
  omega

/-- `read_length_block`: the block returned lies between the two cursors -/
theorem adv_readLenBlock (pad : Nat) (d : B) : Adv 0 List.length (readLenBlock 0 4 pad) d := by
  rw [readLenBlock_eq]
  refine Adv.bind0 (Adv.of_good (good_readN d 0 0)) fun _ => Adv.bind0 (Adv.of_good (good_readU d 0 4)) fun n =>
    Adv.bind0 (Adv.of_good (good_roverflow d 0 n)) fun _ => Adv.bind (adv_readUpTo_len n d) fun x => ?_
  split
  · exact Adv.fail
  · exact Adv.bind0 (Adv.of_good (good_readUpTo d 0 _)) fun _ => Adv.pure (by omega)

theorem readCount_succ {α : Type} (item : R α) (n : Nat) :
    readCount item (n + 1) = (item >>- fun a => (readCount item n) >>- fun as => rpure (a :: as)) := by
  funext d p
  simp only [readCount, rbind, rpure]
  cases item d p with
  | error e => rfl
  | ok x =>
    obtain ⟨a, p1⟩ := x
    simp only
    cases readCount item n d p1 with
    | error e => rfl
    | ok y => rfl

theorem adv_readCount {α : Type} {s : α → Nat} {S : List α → Nat} {item : R α} {d : B} (h0 : S [] = 0)
    (hc : ∀ a as, S (a :: as) = s a + S as) (h : Adv 0 s item d) (n : Nat) : Adv 0 S (readCount item n) d := by
  induction n with
  | zero =>
    intro p a p' hp he
    simp only [readCount, Except.ok.injEq, Prod.mk.injEq] at he
    obtain ⟨rfl, rfl⟩ := he
    rw [h0]; omega
  | succ n ih =>
    rw [readCount_succ]
    exact Adv.bind h fun a => Adv.bind ih fun as => Adv.pure (by rw [hc]; omega)

theorem adv_readTag (d : B) : Adv 0 (fun _ => 0) readTag d := by
  unfold readTag
  refine Adv.bind0 (Adv.of_good (good_readUpTo d 0 4)) fun b => ?_
  split
  · exact Adv.pure (Nat.le_refl _)
  · exact Adv.fail

theorem adv_tagged {d : B} {rec : Tag → R DVal} (h : ∀ t, Adv 0 rawSize (rec t) d) : Adv 0 rawSize (tagged rec) d :=
  Adv.bind0 (adv_readTag d) h

theorem adv_keyed {tb : Tables} {d : B} {rec : Tag → R DVal} (h : ∀ t, Adv 0 rawSize (rec t) d) :
    Adv 0 (fun kv : Key × DVal => rawSize kv.2) (keyed tb rec) d :=
  Adv.bind0 (Adv.of_good (good_readKey tb d 0)) fun _ => Adv.bind (adv_tagged h) fun _ => Adv.pure (by dsimp only; omega)

theorem adv_readBody {tb : Tables} {d : B} {rec : Tag → R DVal} (h : ∀ t, Adv 0 rawSize (rec t) d) :
    Adv 0 (fun x : Str × Key × Items => rawSizeItems x.2.2) (readBody tb rec) d :=
  Adv.bind0 (Adv.of_good (good_readStr d 0)) fun _ => Adv.bind0 (Adv.of_good (good_readKey tb d 0)) fun _ =>
    Adv.bind0 (Adv.of_good (good_readU d 0 4)) fun n =>
      Adv.bind (adv_readCount (s := fun kv : Key × DVal => rawSize kv.2) rawSizeItems_nil rawSizeItems_cons (adv_keyed h) n)
        fun items => Adv.pure (by have := rawSizeItems_dictOf items; dsimp only; omega)

theorem adv_decWith {tb : Tables} {d : B} {rec : Tag → R DVal} (h : ∀ t, Adv 0 rawSize (rec t) d) (t : Tag) :
    Adv 0 rawSize (decWith tb rec t) d := by
  have gstr := Adv.of_good (good_readStr d 0)
  have gkey := Adv.of_good (good_readKey tb d 0)
  have gu : ∀ w, Adv 0 (fun _ => 0) (readU w) d := fun w => Adv.of_good (good_readU d 0 w)
  have gn : ∀ w, Adv 0 (fun _ => 0) (readN w) d := fun w => Adv.of_good (good_readN d 0 w)
  have hint : ∀ it, Adv 0 rawSize (decInt it) d := fun it =>
    Adv.bind0 (Adv.of_good (good_readI32 d 0)) fun _ => Adv.pure (by simp only [rawSize]; omega)
  have hcls : ∀ ct, Adv 0 rawSize (decClass tb ct) d := fun ct =>
    Adv.bind0 gstr fun _ => Adv.bind0 gkey fun _ => Adv.pure (by simp only [rawSize]; omega)
  have hraw : ∀ rt, Adv 0 rawSize (decRaw rt) d := fun rt =>
    Adv.bind (adv_readLenBlock 1 d) fun _ => Adv.pure (by simp only [rawSize]; omega)
  have hlist : ∀ lt, Adv 0 rawSize (decList rec lt) d := fun lt =>
    Adv.bind0 (gu 4) fun n => Adv.bind (adv_readCount rawSizeList_nil rawSizeList_cons (adv_tagged h) n) fun _ =>
      Adv.pure (by simp only [rawSize]; omega)
  have hdesc : ∀ dt, Adv 0 rawSize (decDesc tb rec dt) d := fun dt =>
    Adv.bind (adv_readBody h) fun _ => Adv.pure (by simp only [rawSize]; omega)
  cases t <;> simp only [decWith]
  case integer => exact hint _
  case identifier => exact hint _
  case index => exact hint _
  case largeInteger =>
    exact Adv.bind0 (Adv.of_good (good_readI64 d 0)) fun _ => Adv.pure (by simp only [rawSize]; omega)
  case boolean =>
    exact Adv.bind0 (Adv.of_good (good_readBool d 0)) fun _ => Adv.pure (by simp only [rawSize]; omega)
  case double => exact Adv.bind0 (gu 8) fun _ => Adv.pure (by simp only [rawSize]; omega)
  case unitFloat =>
    exact Adv.bind0 (gn 4) fun u4 => Adv.bind0 (gu 8) fun _ => Adv.bind0 (Adv.of_good (good_unitOf tb u4 d 0)) fun _ =>
      Adv.pure (by simp only [rawSize]; omega)
  case unitFloats =>
    exact Adv.bind0 (gn 4) fun u4 => Adv.bind0 (gu 4) fun n => Adv.bind0 (Adv.of_good (good_unitOf tb u4 d 0)) fun _ =>
      Adv.bind0 (Adv.of_good (good_readF64s d 0 n)) fun _ => Adv.pure (by simp only [rawSize]; omega)
  case string => exact Adv.bind0 gstr fun _ => Adv.pure (by simp only [rawSize]; omega)
  case enumerated => exact Adv.bind0 gkey fun _ => Adv.bind0 gkey fun _ => Adv.pure (by simp only [rawSize]; omega)
  case enumeratedReference =>
    exact Adv.bind0 gstr fun _ => Adv.bind0 gkey fun _ => Adv.bind0 gkey fun _ => Adv.bind0 gkey fun _ =>
      Adv.pure (by simp only [rawSize]; omega)
  case class1 => exact hcls _
  case class2 => exact hcls _
  case class3 => exact hcls _
  case property =>
    exact Adv.bind0 gstr fun _ => Adv.bind0 gkey fun _ => Adv.bind0 gkey fun _ => Adv.pure (by simp only [rawSize]; omega)
  case name =>
    exact Adv.bind0 gstr fun _ => Adv.bind0 gkey fun _ => Adv.bind0 gstr fun _ => Adv.pure (by simp only [rawSize]; omega)
  case offset =>
    exact Adv.bind0 gstr fun _ => Adv.bind0 gkey fun _ => Adv.bind0 (gu 4) fun _ => Adv.pure (by simp only [rawSize]; omega)
  case rawData => exact hraw _
  case alias => exact hraw _
  case path => exact hraw _
  case list => exact hlist _
  case reference => exact hlist _
  case descriptor => exact hdesc _
  case globalObject => exact hdesc _
  case objectArray =>
    exact Adv.bind0 (gu 4) fun _ => Adv.bind (adv_readBody h) fun _ => Adv.pure (by simp only [rawSize]; omega)

theorem adv_decBody (tb : Tables) (d : B) (fuel : Nat) : ∀ t, Adv 0 rawSize (decBody tb fuel t) d := by
  induction fuel with
  | zero => intro t; unfold decBody; exact Adv.fail
  | succ fuel ih => intro t; unfold decBody; exact adv_decWith ih t

/-- every raw value inside `v` is a slice of what the reader consumed -/
theorem dec_rawSize (tb : Tables) (fuel : Nat) (t : Tag) (d : B) (p : Nat) (v : DVal) (p' : Nat)
    (h : decBody tb fuel t d p = .ok (v, p')) (hp : p ≤ d.length) : rawSize v + p ≤ p' :=
  (adv_decBody tb d fuel t p v p' hp h).1

theorem dec_inside (tb : Tables) (fuel : Nat) (t : Tag) (d : B) (p : Nat) (v : DVal) (p' : Nat)
    (h : decBody tb fuel t d p = .ok (v, p')) (hp : p ≤ d.length) : p' ≤ d.length :=
  (adv_decBody tb d fuel t p v p' hp h).2

theorem adv_Block_dec (tb : Tables) (d : B) : Adv 0 (fun b : Block => rawSizeItems b.items) (Block.dec tb) d := by
  have : Adv 0 (fun b : Block => rawSizeItems b.items)
      ((readU 4) >>- fun ver => (readBody tb (decBody tb (d.length + 1))) >>- fun x =>
        if ver = 16 then rpure ⟨(ver : Int), x.1, x.2.1, x.2.2⟩ else rfail .valueError) d := by
    refine Adv.bind0 (Adv.of_good (good_readU d 0 4)) fun ver =>
      Adv.bind (adv_readBody (adv_decBody tb d (d.length + 1))) fun x => ?_
    split
    · exact Adv.pure (by dsimp only; omega)
    · exact Adv.fail
  intro p a p' hp he
  exact this p a p' hp he

theorem Block.dec_rawSize {tb : Tables} {d : B} {p : Nat} {b : Block} {p' : Nat}
    (h : Block.dec tb d p = .ok (b, p')) (hp : p ≤ d.length) : rawSizeItems b.items + p ≤ p' :=
  (adv_Block_dec tb d p b p' hp h).1

theorem Block.dec_inside {tb : Tables} {d : B} {p : Nat} {b : Block} {p' : Nat}
    (h : Block.dec tb d p = .ok (b, p')) (hp : p ≤ d.length) : p' ≤ d.length :=
  (adv_Block_dec tb d p b p' hp h).2

/-- a successful `DescriptorBlock.read` started inside the stream (it read its 4-byte version) -/
theorem Block.dec_start {tb : Tables} {d : B} {p : Nat} {b : Block} {p' : Nat}
    (h : Block.dec tb d p = .ok (b, p')) : p ≤ d.length := by
  unfold Block.dec rbind at h
  by_cases hq : p + 4 ≤ d.length
  · omega
  · simp [readU, readN, hq] at h

/-- the raw values of the block lie between the two cursors, and the end cursor is inside the stream -/
theorem Block.dec_rawSize_inside {tb : Tables} {d : B} {p : Nat} {b : Block} {p' : Nat}
    (h : Block.dec tb d p = .ok (b, p')) : rawSizeItems b.items + p ≤ p' ∧ p' ≤ d.length :=
  ⟨Block.dec_rawSize h (Block.dec_start h), Block.dec_inside h (Block.dec_start h)⟩

/-! ### `text_data[b"EngineData"].value` -/

theorem findRaw_le {key : B} {items : Items} {data : B} (h : findRaw key items = some data) :
    data.length ≤ rawSizeItems items := by
  induction items with
  | nil => simp only [findRaw] at h; cases h
  | cons x r ih =>
    obtain ⟨k, v⟩ := x
    rw [rawSizeItems_cons]
    simp only [findRaw] at h
    split at h
    · split at h
      · cases h
        simp only [rawSize]
        omega
      · cases h
    · have := ih h
      omega

end PsdVerif.Descriptor
