/-
C06 — what goes wrong in the two loop shapes of Model/UnsafeLoops.lean, and that the shape the library has is safe on
the same inputs.
-/
import PsdVerif.Model.UnsafeLoops
import PsdVerif.Lemmas.PayloadCost2

namespace PsdVerif.UnsafeLoops
open PsdVerif PsdVerif.Codec PsdVerif.PsdCost PsdVerif.PayloadCost PsdVerif.Safe PsdVerif.SafeCost

theorem cost_add_ticks (x y : Cost) : (x + y).ticks = x.ticks + y.ticks := rfl

/-- a loop whose body swallows the exception runs `n` times, whatever the data and whatever the item reader -/
theorem swallow_ticks {α : Type} (item : RC α) (n : Nat) (d : B) (p : Nat) :
    n ≤ (readCountSwallowC item n d p).2.ticks := by
  induction n generalizing p with
  | zero => exact Nat.zero_le _
  | succ n ih =>
    unfold readCountSwallowC
    dsimp only
    cases h : (item d p).1 with
    | ok y =>
      obtain ⟨a, p1⟩ := y
      dsimp only
      rw [cost_add_ticks, cost_add_ticks]
      have := ih p1
      show n + 1 ≤ 1 + (item d p).2.ticks + _
      omega
    | error e =>
      dsimp only
      rw [cost_add_ticks, cost_add_ticks]
      have := ih p
      show n + 1 ≤ 1 + (item d p).2.ticks + _
      omega

/-- … and never fails: on the empty stream it returns the empty list after `n` swallowed `IOError`s -/
theorem swallow_on_empty (n : Nat) : (readCountSwallowC (readUC 4) n [] 0).1 = .ok ([], 0) := by
  induction n with
  | zero => rfl
  | succ n ih =>
    unfold readCountSwallowC
    have h : (readUC 4 [] 0).1 = .error .ioError := by decide
    dsimp only
    rw [h]
    exact ih

/-- the loop the library has stops at the first item that fails: two ticks on the empty stream, for EVERY count -/
theorem safe_on_empty (n : Nat) : (readCountC (readUC 4) n [] 0).2.w ≤ 2 := by
  have h := readCountC_cost (item := readUC 4) (a := 1) (b := 1) (k := 4) (d := [])
    (fun p _ => readUC_cost 4) (by decide) n 0 (Nat.le_refl _)
  have := h.w_le
  simpa using this

theorem readUpToC_at_end (n : Nat) (d : B) :
    (readUpToC n d d.length).1 = .ok (([] : B), d.length) ∧ (readUpToC n d d.length).2 = ⟨1, 0⟩ := by
  constructor
  · show readUpTo n d d.length = _
    unfold readUpTo
    simp only [List.drop_length, List.take_nil, List.length_nil, Nat.add_zero]
  · show (⟨1, min n (d.length - d.length)⟩ : Cost) = _
    simp only [Nat.sub_self, Nat.min_zero]

/-- a chunked read without an end-of-file exit: at the end of the data no fuel suffices (it is still looping when the
fuel runs out), and it has cost two per unit of fuel -/
theorem chunked_never_ends (M : Nat) (fuel remaining : Nat) (hr : 0 < remaining) (d : B) :
    (readChunkedFuelC M fuel remaining d d.length).1 = .error .other ∧
      (readChunkedFuelC M fuel remaining d d.length).2.ticks = 2 * fuel := by
  induction fuel with
  | zero => exact ⟨rfl, rfl⟩
  | succ fuel ih =>
    unfold readChunkedFuelC
    rw [if_neg (by omega)]
    have hread := readUpToC_at_end (min remaining M) d
    rw [bind_ok' tick_fst, bind_ok' hread.1]
    dsimp only
    have e : remaining - ([] : B).length = remaining := by simp
    rw [e, bind_err' ih.1]
    refine ⟨rfl, ?_⟩
    show (PsdCost.tick.2 + ((readUpToC (min remaining M) d d.length).2 + (readChunkedFuelC M fuel remaining d d.length).2)).ticks = _
    rw [cost_add_ticks, cost_add_ticks, ih.2, hread.2]
    show 1 + (1 + 2 * fuel) = _
    omega

/-- with the exit (`if not chunk: break`) it ends at the end of the data -/
theorem chunked_ok_at_eof (M fuel remaining : Nat) (d : B) :
    (readChunkedOkC M (fuel + 1) remaining d d.length).1 = .ok ([], d.length) := by
  unfold readChunkedOkC
  split
  · rfl
  · have hread := readUpToC_at_end (min remaining M) d
    rw [bind_ok' tick_fst, bind_ok' hread.1]
    rfl

end PsdVerif.UnsafeLoops
