/-
C06 — the counting twins of Model/PayloadCostVector.lean (path records, `Path`, `VectorMaskSetting`) erase to the readers
of Model/Payload3Vector.lean and obey the cost judgement with the constants recorded in their `CC.hand`.

The record reader is a recursion through a count-driven loop (`Subpath.read` reads `length` records through the same
dispatch). The generic rule `readCountC_cost` would add the body's constants to the coefficient once per nesting level;
instead the records are shown to satisfy a judgement WITH SLACK (`Slack 1 2 4 26`): a record that was read cost at most
`2 · 26 − 1`, so that it also pays the tick of the loop iteration that read it. A loop over such records then costs
`2 · (bytes consumed)` with NO additive constant (`readCountC_slack`), whatever the count, and the induction on the fuel
closes with the same constants at every depth. Fuel: every record consumes its selector before it recurses, so
`len(data) − cursor + 1` is enough at every level; `Err.other` is excluded by the judgement.
-/
import PsdVerif.Model.PayloadCostVector
import PsdVerif.Lemmas.PayloadCostSimple

namespace PsdVerif.PayloadCost
open PsdVerif PsdVerif.Codec PsdVerif.PsdCost PsdVerif.Payload PsdVerif.Payload3 PsdVerif.Safe PsdVerif.SafeCost

/-! ### a cost judgement with slack -/

/-- as `Cost`, but a success leaves `s` units unspent and has no additive constant:
ticks + bytes + `s` ≤ `a` · (bytes consumed) -/
def Slack {β : Type} (s a b k : Nat) (d : B) (p : Nat) (x : CE (β × Nat)) : Prop :=
  (∀ v p', x.1 = .ok (v, p') → p + k ≤ p' ∧ p' ≤ d.length ∧ x.2.w + s ≤ a * (p' - p)) ∧
  (∀ e, x.1 = .error e → e ≠ .other ∧ x.2.w + s ≤ a * (d.length - p) + b)

theorem Slack.intro {β : Type} {s a b k : Nat} {d : B} {p : Nat} {x : CE (β × Nat)}
    (hok : ∀ v p', x.1 = .ok (v, p') → p + k ≤ p' ∧ p' ≤ d.length ∧ x.2.w + s ≤ a * (p' - p))
    (herr : ∀ e, x.1 = .error e → e ≠ .other ∧ x.2.w + s ≤ a * (d.length - p) + b) : Slack s a b k d p x :=
  ⟨hok, herr⟩

theorem Slack.of_ok {β : Type} {s a b k : Nat} {d : B} {p : Nat} {x : CE (β × Nat)} {v : β} {p' : Nat}
    (h : Slack s a b k d p x) (hx : x.1 = .ok (v, p')) : p + k ≤ p' ∧ p' ≤ d.length ∧ x.2.w + s ≤ a * (p' - p) :=
  h.1 v p' hx

theorem Slack.of_error {β : Type} {s a b k : Nat} {d : B} {p : Nat} {x : CE (β × Nat)} {e : Err}
    (h : Slack s a b k d p x) (hx : x.1 = .error e) : e ≠ .other ∧ x.2.w + s ≤ a * (d.length - p) + b :=
  h.2 e hx

theorem Slack.cost {β : Type} {s a b k : Nat} {d : B} {p : Nat} {x : CE (β × Nat)} (h : Slack s a b k d p x) :
    Cost a b k d p x := by
  refine Cost.intro (fun v p' hx => ?_) (fun e hx => ?_)
  · have h1 := h.of_ok hx
    exact ⟨h1.1, h1.2.1, by omega⟩
  · have h1 := h.of_error hx
    exact ⟨h1.1, by omega⟩

/-- a reader that consumes at least `k₁` bytes pays its constant (and the slack) out of these bytes -/
theorem Slack.of_cost {β : Type} {s a b a₁ b₁ k₁ : Nat} {d : B} {p : Nat} {x : CE (β × Nat)}
    (h : Cost a₁ b₁ k₁ d p x) (hpay : ∀ n, k₁ ≤ n → a₁ * n + b₁ + s ≤ a * n) (ha : a₁ ≤ a) (hb : b₁ + s ≤ b) :
    Slack s a b k₁ d p x := by
  refine Slack.intro (fun v p' hx => ?_) (fun e hx => ?_)
  · have h1 := h.of_ok hx
    have := hpay (p' - p) (by omega)
    exact ⟨h1.1, h1.2.1, by omega⟩
  · have h1 := h.of_error hx
    have : a₁ * (d.length - p) ≤ a * (d.length - p) := Nat.mul_le_mul_right _ ha
    exact ⟨h1.1, by omega⟩

theorem Slack.error {β : Type} {a b k : Nat} {d : B} {p : Nat} {e : Err} (he : e ≠ .other) :
    Slack 0 a b k d p (CE.error e : CE (β × Nat)) := by
  refine Slack.intro (fun v' p' hx => by cases hx) (fun e' hx => ?_)
  cases hx
  have : (CE.error e : CE (β × Nat)).2.w = 0 := rfl
  exact ⟨he, by omega⟩

theorem Slack.ok {β : Type} {a b : Nat} {d : B} {q : Nat} (v : β) (hq : q ≤ d.length) :
    Slack 0 a b 0 d q (CE.ok (v, q) : CE (β × Nat)) := by
  refine Slack.intro (fun v' p' hx => ?_) (fun e hx => by cases hx)
  cases hx
  have : (CE.ok (v, q) : CE (β × Nat)).2.w = 0 := rfl
  exact ⟨by omega, hq, by omega⟩

/-- sequencing: the first step pays its constant and the slack out of the `k₁` bytes it consumes, the rest has none -/
theorem Slack.bind {α β : Type} {s a b k a₁ b₁ k₁ k₂ : Nat} {d : B} {p : Nat} {m : CE (β × Nat)}
    {f : β × Nat → CE (α × Nat)} (hm : Cost a₁ b₁ k₁ d p m)
    (hf : ∀ v p₁, m.1 = .ok (v, p₁) → p₁ ≤ d.length → Slack 0 a b k₂ d p₁ (f (v, p₁)))
    (hpay : ∀ n, k₁ ≤ n → a₁ * n + b₁ + s ≤ a * n) (ha : a₁ ≤ a) (hb : b₁ + s ≤ b) (hk : k ≤ k₁ + k₂) :
    Slack s a b k d p (m >>= f) := by
  have hm' := Slack.of_cost (s := s) hm hpay ha hb
  cases hm1 : m.1 with
  | error e =>
    rw [bind_err' hm1]
    refine Slack.intro (fun _ _ hx => by cases hx) (fun e' hx => ?_)
    cases hx
    exact hm'.of_error hm1
  | ok y =>
    obtain ⟨v, p₁⟩ := y
    have h1 := hm'.of_ok hm1
    have h2' := hf v p₁ hm1 h1.2.1
    rw [bind_ok' hm1]
    refine Slack.intro (fun v' p' hx => ?_) (fun e' hx => ?_)
    · have h2 := h2'.of_ok hx
      have hs := mul_split a (x := p₁ - p) (y := p' - p₁) (z := p' - p) (by omega)
      refine ⟨by omega, h2.2.1, ?_⟩
      show (m.2 + (f (v, p₁)).2).w + s ≤ _
      rw [w_add]
      omega
    · have h2 := h2'.of_error hx
      have hs := mul_split a (x := p₁ - p) (y := d.length - p₁) (z := d.length - p) (by omega)
      refine ⟨h2.1, ?_⟩
      show (m.2 + (f (v, p₁)).2).w + s ≤ _
      rw [w_add]
      omega

/-- the value is post-processed: `let (v, p') ← m; ok (g v, p')` -/
theorem Slack.map {α β : Type} {s a b k : Nat} {d : B} {p : Nat} {m : CE (β × Nat)} {g : β → α}
    (hm : Slack s a b k d p m) : Slack s a b k d p (m >>= fun x => CE.ok (g x.1, x.2)) := by
  cases hm1 : m.1 with
  | error e =>
    rw [bind_err' hm1]
    refine Slack.intro (fun _ _ hx => by cases hx) (fun e' hx => ?_)
    cases hx
    exact hm.of_error hm1
  | ok y =>
    obtain ⟨v, p₁⟩ := y
    have h1 := hm.of_ok hm1
    rw [bind_ok' hm1]
    refine Slack.intro (fun v' p' hx => ?_) (fun e' hx => by cases hx)
    cases hx
    refine ⟨h1.1, h1.2.1, ?_⟩
    show (m.2 + (CE.ok (g v, p₁) : CE (α × Nat)).2).w + s ≤ a * (p₁ - p)
    rw [w_add, ok_w]
    omega

/-- `for _ in range(n)` over items that pay for their own iteration: `a` per byte consumed and nothing else, whatever `n` -/
theorem readCountC_slack {α : Type} {item : RC α} {a b k : Nat} {d : B} (n : Nat) :
    ∀ p, p ≤ d.length → (∀ q, p ≤ q → q ≤ d.length → Slack 1 a b k d q (item d q)) →
      Slack 0 a b 0 d p (readCountC item n d p) := by
  induction n with
  | zero => intro p hp _; exact Slack.ok _ hp
  | succ n ih =>
    intro p hp hi
    unfold readCountC
    rw [bind_ok' tick_fst]
    have hip := hi p (Nat.le_refl _) hp
    cases h1 : (item d p).1 with
    | error e' =>
      rw [bind_err' h1]
      refine Slack.intro (fun _ _ hx => by cases hx) (fun _ hx => ?_)
      cases hx
      have i1 := hip.of_error h1
      refine ⟨i1.1, ?_⟩
      show (PsdCost.tick.2 + (item d p).2).w + 0 ≤ _
      rw [w_add, tick_w]
      omega
    | ok y =>
      obtain ⟨a1, p1⟩ := y
      have i1 := hip.of_ok h1
      rw [bind_ok' h1]
      dsimp only
      have ihp := ih p1 i1.2.1 (fun q hq hq' => hi q (by omega) hq')
      cases h2 : (readCountC item n d p1).1 with
      | error e' =>
        rw [bind_err' h2]
        refine Slack.intro (fun _ _ hx => by cases hx) (fun _ hx => ?_)
        cases hx
        have i2 := ihp.of_error h2
        have hs := mul_split a (x := p1 - p) (y := d.length - p1) (z := d.length - p) (by omega)
        refine ⟨i2.1, ?_⟩
        show (PsdCost.tick.2 + ((item d p).2 + (readCountC item n d p1).2)).w + 0 ≤ _
        rw [w_add, w_add, tick_w]
        omega
      | ok z =>
        obtain ⟨as, p2⟩ := z
        have i2 := ihp.of_ok h2
        rw [bind_ok' h2]
        refine Slack.intro (fun vs p' hx => ?_) (fun _ hx => by cases hx)
        cases hx
        have hs := mul_split a (x := p1 - p) (y := p2 - p1) (z := p2 - p) (by omega)
        refine ⟨by omega, i2.2.1, ?_⟩
        show (PsdCost.tick.2 + ((item d p).2 + ((readCountC item n d p1).2 + (CE.ok (a1 :: as, p2) : CE (List α × Nat)).2))).w + 0 ≤ _
        rw [w_add, w_add, w_add, tick_w, ok_w]
        try dsimp only
        omega

/-! ## path records -/

theorem PItem.decFuelC_fst : ∀ (fuel : Nat) (d : B) (p : Nat), (PItem.decFuelC fuel d p).1 = PItem.decFuel fuel d p := by
  intro fuel
  induction fuel with
  | zero => intro d p; rfl
  | succ fuel ih =>
    intro d p
    unfold PItem.decFuelC PItem.decFuel
    refine erase_bind (readUC_fst ..) fun ⟨sel, p⟩ => ?_
    dsimp only
    cases kindOf sel with
    | none => rfl
    | some kd =>
      cases kd with
      | fill =>
        dsimp only
        refine erase_bind (readSkipC_fst ..) fun ⟨_, p⟩ => ?_
        rfl
      | initial =>
        dsimp only
        refine erase_bind (fmtDecC_fst ..) fun ⟨r, p⟩ => ?_
        rfl
      | clipboard =>
        dsimp only
        refine erase_bind (fmtDecC_fst ..) fun ⟨r, p⟩ => ?_
        rfl
      | knot =>
        dsimp only
        refine erase_ok tick_fst ?_
        refine erase_ok tick_fst ?_
        refine erase_bind (fmtDecC_fst ..) fun ⟨r, p⟩ => ?_
        rfl
      | subpath =>
        dsimp only
        refine erase_bind (readUC_fst ..) fun ⟨n, p⟩ => ?_
        refine erase_bind (fmtDecC_fst ..) fun ⟨head, p⟩ => ?_
        refine erase_bind (readCountC_fst (ih) n d p) fun ⟨items, p⟩ => ?_
        rfl

theorem PItem.decC_fst (d : B) (p : Nat) : (PItem.decC d p).1 = PItem.dec d p := PItem.decFuelC_fst _ d p

/-- the rest of a record after its selector: 24 bytes, at most three steps -/
theorem tail24 {β : Type} {d : B} {p : Nat} {x : CE (β × Nat)} (h : Cost 1 3 24 d p x) : Slack 0 2 4 24 d p x :=
  Slack.of_cost h (by intro n hn; omega) (by decide) (by decide)

/-- every record, at every depth: its 26 bytes pay for its reads and for the iteration that read it; the fuel
`remaining + 1` is never exhausted; no declared count appears -/
theorem PItem.decFuelC_slack (d : B) : ∀ (fuel p : Nat), p ≤ d.length → d.length - p + 1 ≤ fuel →
    Slack 1 2 4 26 d p (PItem.decFuelC fuel d p) := by
  intro fuel
  induction fuel with
  | zero => intro p hp hf; omega
  | succ fuel ih =>
    intro p hp hf
    unfold PItem.decFuelC
    refine Slack.bind (k₁ := 2) (k₂ := 24) (readUC_cost 2) ?_ (by intro n hn; omega) (by decide) (by decide) (by decide)
    intro sel p₁ h1 hp₁
    have q1 := ((readUC_cost 2 (d := d) (p := p)).of_ok h1).1
    dsimp only
    cases kindOf sel with
    | none => exact Slack.error (by decide)
    | some kd =>
      cases kd with
      | fill =>
        dsimp only
        refine tail24 ?_
        exact (Cost.map (g := fun _ => PItem.fill) (readSkipC_cost 24)).mono (by decide) (by decide) (by decide)
      | initial =>
        dsimp only
        refine tail24 ?_
        exact (Cost.map (g := PItem.initial) (fmtDecC_cost initFmt)).mono (by decide) (by decide) (by decide)
      | clipboard =>
        dsimp only
        refine tail24 ?_
        exact (Cost.map (g := PItem.clipboard) (fmtDecC_cost clipFmt)).mono (by decide) (by decide) (by decide)
      | knot =>
        dsimp only
        refine tail24 ?_
        refine (Cost.tick (Cost.tick (Cost.map (g := PItem.knot sel) (fmtDecC_cost knotFmt)))).mono
          (by decide) (by decide) (by decide)
      | subpath =>
        dsimp only
        refine Slack.bind (k₁ := 2) (k₂ := 22) (readUC_cost 2) ?_ (by intro n hn; omega) (by decide) (by decide) (by decide)
        intro n p₂ h2 hp₂
        have q2 := ((readUC_cost 2 (d := d) (p := p₁)).of_ok h2).1
        dsimp only
        refine Slack.bind (k₁ := 22) (k₂ := 0) ((fmtDecC_cost subFmt).mono (Nat.le_refl 1) (Nat.le_refl 1) (by decide : 22 ≤ fmtSize subFmt))
          ?_ (by intro n hn; omega) (by decide) (by decide) (by decide)
        intro head p₃ h3 hp₃
        have q3 := ((fmtDecC_cost subFmt (d := d) (p := p₂)).of_ok h3).1
        dsimp only
        refine Slack.map (g := PItem.subpath sel head) ?_
        exact readCountC_slack n p₃ hp₃ (fun q hq hq' => ih q hq' (by omega))

theorem PItem.decC_cost : CostR 2 4 26 PItem.decC := fun d p hp =>
  (PItem.decFuelC_slack d (d.length + 1) p hp (by omega)).cost

/-- the fuel of `PItem.dec` is never exhausted -/
theorem PItem.dec_ne_other (d : B) (p : Nat) (hp : p ≤ d.length) : PItem.dec d p ≠ .error .other := by
  rw [← PItem.decC_fst]
  exact (PItem.decC_cost d p hp).ne_other

theorem PItem.cc_c : PItem.cc.c = PItem.codec := rfl
theorem PItem.cc_sound : PItem.cc.Sound := CC.hand_sound PItem.decC_fst PItem.decC_cost

/-! ## Path -/

theorem Path.decC_fst (pad : Nat) (d : B) (p : Nat) : (Path.decC d p).1 = (Path.codec pad).dec d p :=
  readWhileC_fst (isReadableC_fst 26) (optItemC_fst PItem.decC_fst) d p

theorem Path.decC_cost : CostR 34 60 0 Path.decC := fun d p hp =>
  (readWhileC_cost 26 (fun q hq => optItemC_cost (PItem.decC_cost d q hq)) (by decide) p hp).mono
    (by decide) (by decide) (by decide)

theorem Path.cc_c (pad : Nat) : (Path.cc pad).c = Path.codec pad := rfl
theorem Path.cc_sound (pad : Nat) : (Path.cc pad).Sound := CC.hand_sound (Path.decC_fst pad) Path.decC_cost

/-! ## VectorMaskSetting -/

theorem VectorMaskSetting.decC_fst (d : B) (p : Nat) : (VectorMaskSetting.decC d p).1 = VectorMaskSetting.dec d p := by
  unfold VectorMaskSetting.decC VectorMaskSetting.dec
  refine erase_bind (fmtDecC_fst ..) fun ⟨h, p⟩ => ?_
  dsimp only
  split
  · refine erase_bind (Path.decC_fst 4 d p) fun ⟨path, p⟩ => ?_
    rfl
  · rfl

theorem VectorMaskSetting.decC_cost : CostR 34 61 8 VectorMaskSetting.decC := by
  intro d p hp
  apply Cost.mono
  case h =>
    unfold VectorMaskSetting.decC
    cbind (fmtDecC_cost VectorMaskSetting.headFmt)
    cif
    cbind (Path.decC_cost d _ (by assumption))
    cdone
  cside

theorem VectorMaskSetting.cc_c : VectorMaskSetting.cc.c = VectorMaskSetting.codec := rfl
theorem VectorMaskSetting.cc_sound : VectorMaskSetting.cc.Sound :=
  CC.hand_sound VectorMaskSetting.decC_fst VectorMaskSetting.decC_cost

/-! ## the unit's table -/

/-- `Path`, the record classes of `vector.TYPES` (all read through the dispatch `PItem.decC`), `VectorMaskSetting` -/
def vectorTable : List (String × Sh) := [
  ("Path", (Path.cc 4).sh),
  ("ClosedPath", PItem.cc.sh), ("OpenPath", PItem.cc.sh),
  ("ClosedKnotLinked", PItem.cc.sh), ("ClosedKnotUnlinked", PItem.cc.sh),
  ("OpenKnotLinked", PItem.cc.sh), ("OpenKnotUnlinked", PItem.cc.sh),
  ("PathFillRule", PItem.cc.sh), ("ClipboardRecord", PItem.cc.sh), ("InitialFillRule", PItem.cc.sh),
  ("VectorMaskSetting", VectorMaskSetting.cc.sh)]

theorem vector_body_progress : vectorTable.all (fun e => e.2.bodyProgress) = true := by decide

end PsdVerif.PayloadCost
