/-
Round-trip and count laws of the skeleton parts: header, colour mode data, image resources,
tagged blocks.
-/
import PsdVerif.Lemmas.Codec
import PsdVerif.Model.Psd

namespace PsdVerif.Psd
open PsdVerif PsdVerif.Codec

/-! ## header -/

theorem Header.fits_of_valid {h : Header} (hv : h.Valid) : h.Fits := by
  obtain ⟨_, h2, ⟨_, h3⟩, ⟨_, h4⟩, ⟨_, h5⟩, h6, h7⟩ := hv
  have a : ∀ x ∈ G.headerVersions, x < 256 ^ 2 := by decide
  have b : G.channelsMax < 256 ^ 2 := by decide
  have c : G.heightMax < 256 ^ 4 := by decide
  have e : G.widthMax < 256 ^ 4 := by decide
  have f : ∀ x ∈ G.headerDepths, x < 256 ^ 2 := by decide
  have g : ∀ x ∈ G.colorModes, x < 256 ^ 2 := by decide
  refine ⟨a _ h2, ?_, ?_, ?_, f _ h6, g _ h7⟩ <;> unfold FitsU <;> omega

theorem Header.length_encT (h : Header) : h.encT.length = 26 := by
  simp [Header.encT, length_pack4s, length_beBytes, length_zeros]

theorem Header.dec_at {h : Header} (hv : h.Valid) {d : B} {p : Nat} (hat : At d p h.encT) :
    Header.dec d p = .ok (h, p + h.encT.length) := by
  obtain ⟨f1, f2, f3, f4, f5, f6⟩ := Header.fits_of_valid hv
  have hs : pack4s h.signature = h.signature := by
    apply pack4s_of_length; rw [hv.1]; decide
  rw [Header.length_encT]
  simp only [Header.encT, List.append_assoc] at hat
  obtain ⟨e1, hat⟩ := readN_step hat (length_pack4s _)
  obtain ⟨e2, hat⟩ := readU_step hat f1
  obtain ⟨e3, hat⟩ := readN_step hat (length_zeros 6)
  obtain ⟨e4, hat⟩ := readU_step hat f2
  obtain ⟨e5, hat⟩ := readU_step hat f3
  obtain ⟨e6, hat⟩ := readU_step hat f4
  obtain ⟨e7, hat⟩ := readU_step hat f5
  have e8 := readU_at hat f6
  simp only [Header.dec, bind, Except.bind, e1, e2, e3, e4, e5, e6, e7, e8, hs]
  rw [if_pos hv]

theorem Header.encP_eq (h : Header) : h.encP = (h.encT, h.encT.length) := rfl

/-! ## colour mode data -/

theorem colorModeDec_at {v : B} (hf : FitsU 4 v.length) {d : B} {p : Nat} (hat : At d p (colorModeT v)) :
    colorModeDec d p = .ok (v, p + (colorModeT v).length) :=
  readLenBlock_at hat hf (by decide)

theorem colorModeP_eq (v : B) : colorModeP v = (colorModeT v, (colorModeT v).length) := by
  simp only [colorModeP, colorModeT, wBytes_eq, wLenBlock_eq]

/-! ## image resources -/

theorem Resource.length_encT (r : Resource) :
    r.encT.length = 4 + 2 + (pascalT 2 r.name).length + (lenBlockT 0 4 2 r.data).length := by
  simp only [Resource.encT, List.length_append, length_pack4s, length_beBytes]

theorem Resource.length_ge (r : Resource) : 11 ≤ r.encT.length := by
  rw [Resource.length_encT, length_pascalT, length_lenBlockT]; omega

theorem Resource.dec_at {r : Resource} (hwf : r.WF) {d : B} {p : Nat} (hat : At d p r.encT) :
    Resource.dec d p = .ok (r, p + r.encT.length) := by
  obtain ⟨hsig, f1, f2, f3⟩ := hwf
  have hl : ∀ s ∈ G.resourceSignatures, s.length = 4 := by decide
  have hs : pack4s r.signature = r.signature := pack4s_of_length (hl _ hsig)
  rw [Resource.length_encT]
  simp only [Resource.encT, List.append_assoc] at hat
  obtain ⟨e1, hat⟩ := readN_step hat (length_pack4s _)
  obtain ⟨e2, hat⟩ := readU_step hat f1
  obtain ⟨e3, hat⟩ := readPascal_step hat f2
  have e4 := readLenBlock_at hat f3 (by decide)
  simp only [Resource.dec, bind, Except.bind, e1, e2, e3, e4, hs]
  rw [if_pos hsig]
  simp only [Nat.add_assoc]

theorem Resource.encP_eq (r : Resource) : r.encP = (r.encT, r.encT.length) := by
  simp only [Resource.encP, Resource.encT, wBytes_eq, wPascal_eq, wLenBlock_eq, wSeq_eq]

theorem resourcesP_eq (rs : List Resource) : resourcesP rs = (resourcesT rs, (resourcesT rs).length) := by
  simp only [resourcesP, resourcesT, resourcesBodyT, wList_eq Resource.encP Resource.encT rs (fun r _ => r.encP_eq),
    wLenBlock_eq]

theorem resourcesDec_at {rs : List Resource} (hwf : resourcesWF rs) {d : B} {p : Nat} (hat : At d p (resourcesT rs)) :
    resourcesDec d p = .ok (rs, p + (resourcesT rs).length) := by
  obtain ⟨hall, hnd, hf⟩ := hwf
  have e1 := readLenBlock_at hat hf (by decide)
  have e2 : readWhile (isReadable 4) (optItem Resource.dec) (resourcesBodyT rs) 0 =
      .ok (rs, 0 + (resourcesBodyT rs).length) := by
    apply readWhile_at (isReadable 4) (optItem Resource.dec) Resource.encT rs
    · intro r hr q hq
      refine ⟨isReadable_of_at hq (by have := r.length_ge; omega), ?_⟩
      simp only [optItem, Resource.dec_at (hall r hr) hq]
    · intro r _; have := r.length_ge; omega
    · exact At.self _
    · exact isReadable_false (by unfold resourcesBodyT; omega)
  unfold resourcesT at e1
  simp only [resourcesDec, bind, Except.bind, resourcesT, e1, e2, odict_of_nodup Resource.key rs hnd]

/-! ## tagged blocks -/

theorem TaggedBlock.length_encT (v pad : Nat) (t : TaggedBlock) :
    (t.encT v pad).length = 4 + 4 + (lenBlockT 0 (tbLenW v t.key) pad t.data).length := by
  simp only [TaggedBlock.encT, List.length_append, length_pack4s]

theorem tbLenW_ge (v : Nat) (k : B) : 4 ≤ tbLenW v k := by unfold tbLenW; split <;> omega

theorem tbLenW_mod (v : Nat) (k : B) (pad : Nat) (hp : pad = 1 ∨ pad = 2 ∨ pad = 4) :
    (0 + tbLenW v k) % pad = 0 := by
  unfold tbLenW; split <;> rcases hp with h | h | h <;> subst h <;> rfl

theorem TaggedBlock.length_ge (v pad : Nat) (t : TaggedBlock) : 12 ≤ (t.encT v pad).length := by
  have := tbLenW_ge v t.key
  rw [TaggedBlock.length_encT, length_lenBlockT]; omega

theorem TaggedBlock.dec_at {v pad : Nat} (hp : pad = 1 ∨ pad = 2 ∨ pad = 4) {t : TaggedBlock} (hwf : t.WF v)
    {d : B} {p : Nat} (hat : At d p (t.encT v pad)) :
    TaggedBlock.dec v pad d p = .ok (some t, p + (t.encT v pad).length) := by
  obtain ⟨hsig, hk, hf⟩ := hwf
  have hl : ∀ s ∈ G.blockSignatures, s.length = 4 := by decide
  have hs : pack4s t.signature = t.signature := pack4s_of_length (hl _ hsig)
  have hk' : pack4s t.key = t.key := pack4s_of_length hk
  rw [TaggedBlock.length_encT]
  simp only [TaggedBlock.encT, List.append_assoc, hs, hk'] at hat
  obtain ⟨e1, hat⟩ := readN_step hat (hl _ hsig)
  obtain ⟨e2, hat⟩ := readN_step hat hk
  have e3 := readLenBlock_at hat hf (tbLenW_mod v t.key pad hp)
  simp only [TaggedBlock.dec, bind, Except.bind, e1, if_pos hsig, e2, e3]
  simp only [Nat.add_assoc]

theorem TaggedBlock.encP_eq (v pad : Nat) (t : TaggedBlock) : t.encP v pad = (t.encT v pad, (t.encT v pad).length) := by
  simp only [TaggedBlock.encP, TaggedBlock.encT, wBytes_eq, wLenBlock_eq, wSeq_eq]

theorem taggedBlocksP_eq (v pad : Nat) (ts : List TaggedBlock) :
    taggedBlocksP v pad ts = (taggedBlocksT v pad ts, (taggedBlocksT v pad ts).length) := by
  simp only [taggedBlocksP, taggedBlocksT,
    wList_eq (TaggedBlock.encP v pad) (TaggedBlock.encT v pad) ts (fun t _ => t.encP_eq v pad)]

/-- `TaggedBlocks.read` returns the written blocks when the loop condition fails right after them:
fewer than 8 bytes left in the stream, or `end_pos` reached. -/
theorem taggedBlocksDec_at {v pad : Nat} (hp : pad = 1 ∨ pad = 2 ∨ pad = 4) {ts : List TaggedBlock}
    (hwf : taggedBlocksWF v ts) (endPos : Option Nat) {d : B} {p : Nat} (hat : At d p (taggedBlocksT v pad ts))
    (hend : ∀ e, endPos = some e → p + (taggedBlocksT v pad ts).length ≤ e)
    (hstop : taggedCond endPos d (p + (taggedBlocksT v pad ts).length) = false) :
    taggedBlocksDec v pad endPos d p = .ok (ts, p + (taggedBlocksT v pad ts).length) := by
  obtain ⟨hall, hnd⟩ := hwf
  have e1 : readWhile (taggedCond endPos) (TaggedBlock.dec v pad) d p =
      .ok (ts, p + (taggedBlocksT v pad ts).length) := by
    unfold taggedBlocksT at hat hstop hend ⊢
    -- positions of the items are below the end position
    have key : ∀ (ts' : List TaggedBlock), (∀ t ∈ ts', t.WF v) → ∀ q, At d q (listT (TaggedBlock.encT v pad) ts') →
        (∀ e, endPos = some e → q + (listT (TaggedBlock.encT v pad) ts').length ≤ e) →
        taggedCond endPos d (q + (listT (TaggedBlock.encT v pad) ts').length) = false →
        ∀ fuel, ts'.length < fuel →
        readWhileFuel (taggedCond endPos) (TaggedBlock.dec v pad) fuel d q =
          .ok (ts', q + (listT (TaggedBlock.encT v pad) ts').length) := by
      intro ts'
      induction ts' with
      | nil =>
        intro _ q _ _ hst fuel hf
        cases fuel with
        | zero => omega
        | succ fuel =>
          simp only [listT, List.length_nil, Nat.add_zero] at hst ⊢
          simp [readWhileFuel, hst]
      | cons t ts' ih =>
        intro hall' q hq he hst fuel hf
        cases fuel with
        | zero => omega
        | succ fuel =>
          simp only [listT] at hq he hst ⊢
          have hge := t.length_ge v pad
          have hc : taggedCond endPos d q = true := by
            unfold taggedCond
            rw [isReadable_of_at hq.left (by omega)]
            cases hE : endPos with
            | none => rfl
            | some e =>
              have := he e hE
              simp only [List.length_append] at this
              simp only [Bool.true_and, decide_eq_true_eq]; omega
          have hi := TaggedBlock.dec_at hp (hall' t (by simp)) hq.left
          simp only [readWhileFuel, hc, if_true, hi]
          rw [ih (fun x hx => hall' x (by simp [hx])) _ hq.right
            (by intro e hE; have := he e hE; simp only [List.length_append] at this; omega)
            (by simpa [List.length_append, Nat.add_assoc] using hst) fuel (by simpa using hf)]
          simp only [List.length_append, Nat.add_assoc]
    unfold readWhile
    apply key ts hall p hat hend hstop
    have h1 := length_listT_le (TaggedBlock.encT v pad) ts 1 (fun t _ => by have := t.length_ge v pad; omega)
    have h2 := hat.bound
    omega
  simp only [taggedBlocksDec, bind, Except.bind, e1, odict_of_nodup TaggedBlock.key ts hnd]

end PsdVerif.Psd
