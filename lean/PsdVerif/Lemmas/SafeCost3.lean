/-
C06 — linear cost of the counting interpreter, part 2: the loops.

A loop is linear when every iteration pays for itself (its tick, its condition, its item) out of the
bytes it consumed: `IterPays` / `WhileItem`. `…of_pays` turn "the item pays with coefficient `a'` and
consumes ≥ `k` bytes inside the stream" into "the iteration pays for itself at coefficient `a' + j`".
-/
import PsdVerif.Lemmas.SafeCost2

namespace PsdVerif.SafeCost
open PsdVerif PsdVerif.Codec PsdVerif.Psd PsdVerif.PsdCost PsdVerif.Safe

/-- one iteration of a `for` loop: the item, the tick and a credit of `c` are paid by the bytes consumed,
up to `e` per iteration; on failure `bi` is enough -/
def IterPays {α : Type} (a bi c e : Nat) (d : B) (p : Nat) (x : CE (α × Nat)) : Prop :=
  match x.1 with
  | .ok (_, p') => p ≤ p' ∧ x.2.w + 1 + c + pot a d p' ≤ pot a d p + e
  | .error _ => x.2.w + 1 ≤ pot a d p + bi

theorem IterPays.of_ok {α : Type} {a bi c e : Nat} {d : B} {p : Nat} {x : CE (α × Nat)} {v : α} {p' : Nat}
    (h : IterPays a bi c e d p x) (hx : x.1 = .ok (v, p')) : p ≤ p' ∧ x.2.w + 1 + c + pot a d p' ≤ pot a d p + e := by
  unfold IterPays at h; rw [hx] at h; exact h

theorem IterPays.of_error {α : Type} {a bi c e : Nat} {d : B} {p : Nat} {x : CE (α × Nat)} {er : Err}
    (h : IterPays a bi c e d p x) (hx : x.1 = .error er) : x.2.w + 1 ≤ pot a d p + bi := by
  unfold IterPays at h; rw [hx] at h; exact h

/-- an item that pays at `a'` and consumes ≥ `k ≥ 1` bytes pays for its iteration at `a' + j` when `j * k`
covers the constants -/
theorem IterPays.of_pays {α : Type} {a' b' bi c e k j : Nat} {d : B} {p : Nat} {x : CE (α × Nat)}
    (h : Pays a' b' d p x) (g : Good k d p x.1) (hk : 1 ≤ k) (H : b' + 1 + c ≤ j * k + e) (hbi : b' + 1 ≤ bi) :
    IterPays (a' + j) bi c e d p x := by
  unfold IterPays
  cases hx : x.1 with
  | error er =>
    have h1 := h.of_error hx
    simp only
    rw [pot_add]; omega
  | ok y =>
    obtain ⟨v, p'⟩ := y
    have h1 := h.of_ok hx
    have g1 := g.of_ok hx
    have hl : p' ≤ d.length := by omega
    have hs := pot_split j d (p := p) (q := p') (k := p' - p) (by omega) hl
    have hm : j * k ≤ j * (p' - p) := Nat.mul_le_mul_left j (by omega)
    simp only
    rw [pot_add, pot_add]
    exact ⟨h1.1, by omega⟩

/-- an item that may consume nothing: the iteration costs its tick -/
theorem IterPays.of_pays0 {α : Type} {a b' : Nat} {d : B} {p : Nat} {x : CE (α × Nat)}
    (h : Pays a b' d p x) : IterPays a (b' + 1) 0 (b' + 1) d p x := by
  unfold IterPays
  cases hx : x.1 with
  | error er => have h1 := h.of_error hx; simp only; omega
  | ok y =>
    obtain ⟨v, p'⟩ := y
    have h1 := h.of_ok hx
    simp only
    exact ⟨h1.1, by omega⟩

theorem bind_ok' {α β : Type} {m : CE β} {f : β → CE α} {a : β} (h : m.1 = .ok a) :
    (m >>= f) = ((f a).1, m.2 + (f a).2) := by
  show CE.bind m f = _
  unfold CE.bind; rw [h]

theorem bind_err' {α β : Type} {m : CE β} {f : β → CE α} {e : Err} (h : m.1 = .error e) :
    (m >>= f) = (.error e, m.2) := by
  show CE.bind m f = _
  unfold CE.bind; rw [h]

theorem ok_w {γ : Type} (x : γ) : (CE.ok x : CE γ).2.w = 0 := rfl

theorem readCountC_pays {α : Type} {item : RC α} {a bi c e : Nat} {d : B}
    (hi : ∀ p, IterPays a bi c e d p (item d p)) (n : Nat) (p : Nat) :
    PaysCr a (bi + e * n) d p (readCountC item n d p) (fun vs => c * vs.length) := by
  induction n generalizing p with
  | zero => exact PaysCr.ok _ (Nat.le_refl _) (by simp)
  | succ n ih =>
    unfold readCountC
    rw [bind_ok' tick_fst]
    cases h1 : (item d p).1 with
    | error e' =>
      rw [bind_err' h1]
      refine PaysCr.intro (fun _ _ hx => by cases hx) (fun _ _ => ?_)
      have i1 := (hi p).of_error h1
      show (tick.2 + (item d p).2).w ≤ _
      rw [w_add, tick_w, Nat.mul_succ]
      omega
    | ok y =>
      obtain ⟨a1, p1⟩ := y
      have i1 := (hi p).of_ok h1
      rw [bind_ok' h1]
      dsimp only
      cases h2 : (readCountC item n d p1).1 with
      | error e' =>
        rw [bind_err' h2]
        refine PaysCr.intro (fun _ _ hx => by cases hx) (fun _ _ => ?_)
        have i2 := (ih p1).of_error h2
        show (tick.2 + ((item d p).2 + (readCountC item n d p1).2)).w ≤ _
        rw [w_add, w_add, tick_w, Nat.mul_succ]
        omega
      | ok z =>
        obtain ⟨as, p2⟩ := z
        have i2 := (ih p1).of_ok h2
        rw [bind_ok' h2]
        refine PaysCr.intro (fun vs p' hx => ?_) (fun _ hx => by cases hx)
        cases hx
        show _ ∧ (tick.2 + ((item d p).2 + ((readCountC item n d p1).2 + (CE.ok (a1 :: as, p2) : CE (List α × Nat)).2))).w + _ + _ ≤ _
        rw [w_add, w_add, w_add, tick_w, ok_w, List.length_cons, Nat.mul_succ, Nat.mul_succ]
        dsimp only
        exact ⟨by omega, by omega⟩

theorem readForC_pays {α β : Type} {item : β → RC α} {a bi c e : Nat} {d : B} (xs : List β)
    (hi : ∀ x ∈ xs, ∀ p, IterPays a bi c e d p (item x d p)) (p : Nat) :
    PaysCr a (bi + e * xs.length) d p (readForC item xs d p) (fun vs => c * vs.length) := by
  induction xs generalizing p with
  | nil => exact PaysCr.ok _ (Nat.le_refl _) (by simp)
  | cons x xs ih =>
    have ih := ih (fun z hz => hi z (by simp [hz]))
    have hix := hi x (by simp)
    unfold readForC
    rw [bind_ok' tick_fst]
    cases h1 : (item x d p).1 with
    | error e' =>
      rw [bind_err' h1]
      refine PaysCr.intro (fun _ _ hx => by cases hx) (fun _ _ => ?_)
      have i1 := (hix p).of_error h1
      show (tick.2 + (item x d p).2).w ≤ _
      rw [w_add, tick_w, List.length_cons, Nat.mul_succ]
      omega
    | ok y =>
      obtain ⟨a1, p1⟩ := y
      have i1 := (hix p).of_ok h1
      rw [bind_ok' h1]
      dsimp only
      cases h2 : (readForC item xs d p1).1 with
      | error e' =>
        rw [bind_err' h2]
        refine PaysCr.intro (fun _ _ hx => by cases hx) (fun _ _ => ?_)
        have i2 := (ih p1).of_error h2
        show (tick.2 + ((item x d p).2 + (readForC item xs d p1).2)).w ≤ _
        rw [w_add, w_add, tick_w, List.length_cons, Nat.mul_succ]
        omega
      | ok z =>
        obtain ⟨as, p2⟩ := z
        have i2 := (ih p1).of_ok h2
        rw [bind_ok' h2]
        refine PaysCr.intro (fun vs p' hx => ?_) (fun _ hx => by cases hx)
        cases hx
        show _ ∧ (tick.2 + ((item x d p).2 + ((readForC item xs d p1).2 + (CE.ok (a1 :: as, p2) : CE (List α × Nat)).2))).w + _ + _ ≤ _
        rw [w_add, w_add, w_add, tick_w, ok_w, List.length_cons, List.length_cons, Nat.mul_succ, Nat.mul_succ]
        dsimp only
        exact ⟨by omega, by omega⟩

/-! ### `while` loops -/

/-- one iteration of a `while` loop whose condition costs at most `cc` -/
def WhileItem {α : Type} (a bi cc : Nat) (d : B) (p : Nat) (x : CE (Option α × Nat)) : Prop :=
  match x.1 with
  | .ok (some _, p') => p ≤ p' ∧ x.2.w + 1 + cc + pot a d p' ≤ pot a d p
  | .ok (none, p') => p ≤ p' ∧ x.2.w + 1 + cc + pot a d p' ≤ pot a d p + bi
  | .error _ => x.2.w + 1 + cc ≤ pot a d p + bi

theorem readWhileFuelC_pays {α : Type} {condC : B → Nat → CE Bool} {cond : B → Nat → Bool} {item : RC (Option α)}
    {a bi cc : Nat} {d : B} (hc1 : ∀ p, (condC d p).1 = .ok (cond d p)) (hc2 : ∀ p, (condC d p).2.w ≤ cc)
    (hi : ∀ p, cond d p = true → WhileItem a bi cc d p (item d p)) (fuel : Nat) (p : Nat) :
    Pays a (bi + (1 + cc)) d p (readWhileFuelC condC item fuel d p) := by
  induction fuel generalizing p with
  | zero => exact PaysCr.error _
  | succ fuel ih =>
    unfold readWhileFuelC
    have c2 := hc2 p
    rw [bind_ok' tick_fst, bind_ok' (hc1 p)]
    by_cases hcond : cond d p = true
    · have wi := hi p hcond
      unfold WhileItem at wi
      rw [if_pos hcond]
      cases h1 : (item d p).1 with
      | error e' =>
        rw [h1] at wi
        rw [bind_err' h1]
        refine PaysCr.intro (fun _ _ hx => by cases hx) (fun _ _ => ?_)
        show (tick.2 + ((condC d p).2 + (item d p).2)).w ≤ _
        rw [w_add, w_add, tick_w]
        simp only at wi
        omega
      | ok y =>
        obtain ⟨o, p1⟩ := y
        rw [h1] at wi
        rw [bind_ok' h1]
        dsimp only
        cases o with
        | none =>
          simp only at wi
          refine PaysCr.intro (fun vs p' hx => ?_) (fun _ hx => by cases hx)
          cases hx
          show _ ∧ (tick.2 + ((condC d p).2 + ((item d p).2 + (CE.ok (([] : List α), p1)).2))).w + _ + _ ≤ _
          rw [w_add, w_add, w_add, tick_w, ok_w]
          exact ⟨wi.1, by omega⟩
        | some a1 =>
          simp only at wi ⊢
          cases h2 : (readWhileFuelC condC item fuel d p1).1 with
          | error e' =>
            rw [bind_err' h2]
            refine PaysCr.intro (fun _ _ hx => by cases hx) (fun _ _ => ?_)
            have i2 := (ih p1).of_error h2
            show (tick.2 + ((condC d p).2 + ((item d p).2 + (readWhileFuelC condC item fuel d p1).2))).w ≤ _
            rw [w_add, w_add, w_add, tick_w]
            omega
          | ok z =>
            obtain ⟨as, p2⟩ := z
            have i2 := (ih p1).of_ok h2
            rw [bind_ok' h2]
            refine PaysCr.intro (fun vs p' hx => ?_) (fun _ hx => by cases hx)
            cases hx
            show _ ∧ (tick.2 + ((condC d p).2 + ((item d p).2 + ((readWhileFuelC condC item fuel d p1).2 +
              (CE.ok (a1 :: as, p2) : CE (List α × Nat)).2)))).w + _ + _ ≤ _
            rw [w_add, w_add, w_add, w_add, tick_w, ok_w]
            dsimp only
            exact ⟨by omega, by omega⟩
    · rw [if_neg hcond]
      refine PaysCr.intro (fun vs p' hx => ?_) (fun _ hx => by cases hx)
      cases hx
      show _ ∧ (tick.2 + ((condC d p).2 + (CE.ok (([] : List α), p)).2)).w + _ + _ ≤ _
      rw [w_add, w_add, tick_w, ok_w]
      exact ⟨Nat.le_refl _, by omega⟩

theorem readWhileC_pays {α : Type} {condC : B → Nat → CE Bool} {cond : B → Nat → Bool} {item : RC (Option α)}
    {a bi cc : Nat} {d : B} (hc1 : ∀ p, (condC d p).1 = .ok (cond d p)) (hc2 : ∀ p, (condC d p).2.w ≤ cc)
    (hi : ∀ p, cond d p = true → WhileItem a bi cc d p (item d p)) (p : Nat) :
    Pays a (bi + (1 + cc)) d p (readWhileC condC item d p) :=
  readWhileFuelC_pays hc1 hc2 hi _ p

theorem optItemC_pays {α : Type} {item : RC α} {a b : Nat} {d : B} {p : Nat} (h : Pays a b d p (item d p)) :
    Pays a b d p (optItemC item d p) := by
  unfold optItemC
  refine PaysCr.bind h (fun v p' _ => ?_) (Nat.le_refl _)
  exact PaysCr.ok _

/-- `optItem X`: always `some`; pays for its iteration at `a' + j` -/
theorem WhileItem.of_pays {α : Type} {a' b' bi cc k j : Nat} {d : B} {p : Nat} {itemC : RC α} {item : R α}
    (hfst : (itemC d p).1 = item d p) (h : Pays a' b' d p (itemC d p)) (g : Good k d p (item d p)) (hk : 1 ≤ k)
    (H : b' + 1 + cc ≤ j * k) (hbi : b' + 1 + cc ≤ bi) :
    WhileItem (a' + j) bi cc d p (optItemC itemC d p) := by
  have ho := optItemC_pays h
  have hofst : (optItemC itemC d p).1 = optItem item d p := by
    unfold optItemC optItem
    rw [bind_fst, hfst]
    cases item d p with
    | error e => rfl
    | ok x => rfl
  unfold WhileItem
  cases hx : (optItemC itemC d p).1 with
  | error er =>
    have h1 := ho.of_error hx
    simp only
    rw [pot_add]; omega
  | ok y =>
    obtain ⟨o, p'⟩ := y
    rw [hofst] at hx
    obtain ⟨v, rfl, hv⟩ := optItem_some hx
    have h1 := ho.of_ok (hofst.trans hx)
    have g1 := g.of_ok hv
    have hl : p' ≤ d.length := by omega
    have hs := pot_split j d (p := p) (q := p') (k := p' - p) (by omega) hl
    have hm : j * k ≤ j * (p' - p) := Nat.mul_le_mul_left j (by omega)
    simp only
    rw [pot_add, pot_add]
    exact ⟨h1.1, by omega⟩

end PsdVerif.SafeCost
