/-
Helper lemmas for the descriptor key codec (C20, reused by the codec library).
-/
import PsdVerif.Model.Globals

namespace PsdVerif.Globals
theorem toNat_ofNat_mod (x : Nat) : (UInt8.ofNat (x % 256)).toNat = x % 256 := by
  simp [UInt8.toNat_ofNat']

theorem readU32_u32be (pre post : List UInt8) (n : Nat) (hn : n < 4294967296) :
    readU32 (pre ++ u32be n ++ post) pre.length = .ok (n, pre.length + 4) := by
  unfold readU32 u32be
  simp only [List.append_assoc, List.drop_left, List.cons_append, List.nil_append]
  simp only [List.length_append, List.length_cons, toNat_ofNat_mod]
  split
  · congr 2; omega
  · rename_i h; simp at h

def Key.WF (terms : List UInt8 → Bool) (k : Key) : Prop :=
  (k.implicit = true → k.bytes.length = 4 ∧ terms k.bytes = false) ∧
  (terms k.bytes = true → k.bytes.length = 4) ∧
  (k.implicit = false → terms k.bytes = false → k.bytes.length ≠ 0)

theorem length_u32be (n : Nat) : (u32be n).length = 4 := rfl

theorem readKey_frame (terms : List UInt8 → Bool) (kb pre post : List UInt8) (n : Nat)
    (hn : n < 4294967296) (hlen : kb.length = if n = 0 then 4 else n) :
    readKey terms (pre ++ (u32be n ++ kb) ++ post) pre.length =
      .ok ({ bytes := kb, implicit := decide (n = 0) && !terms kb }, pre.length + (u32be n ++ kb).length) := by
  unfold readKey
  have e1 : pre ++ (u32be n ++ kb) ++ post = pre ++ u32be n ++ (kb ++ post) := by simp
  rw [e1, readU32_u32be _ _ _ hn]
  simp only
  have hdrop : List.drop (pre.length + 4) (pre ++ u32be n ++ (kb ++ post)) = kb ++ post := by
    have : pre.length + 4 = (pre ++ u32be n).length := by simp [length_u32be]
    rw [this, List.drop_left]
  rw [hdrop, ← hlen, List.take_left]
  by_cases h0 : n = 0 <;> cases ht : terms kb <;> simp [h0, length_u32be] <;> omega


end PsdVerif.Globals
