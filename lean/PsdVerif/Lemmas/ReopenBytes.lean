/-
C09 save / reopen, byte level: what C01's writer does to the records in place (`channel_info.length`
refreshed) is invisible to anything the tree constructor reads.
-/
import PsdVerif.Model.Psd
import PsdVerif.Model.TreeParse

namespace PsdVerif.Reopen
open PsdVerif PsdVerif.Tree

/-- A reading of a C01 record value as a C08 record (role by its divider blocks, payload id given
from outside: values have no identity) that does not look at the channel table — `_init` reads
`record.tagged_blocks` (and, for the kind, `record.flags`) only. -/
def ChannelBlind (role : Psd.LayerRecord → Nat → Rec) : Prop :=
  ∀ (r : Psd.LayerRecord) (ci : List Psd.ChannelInfo) (p : Nat), role { r with channelInfo := ci } p = role r p

theorem zipWith_role_refresh {role : Psd.LayerRecord → Nat → Rec} (h : ChannelBlind role) :
    ∀ (rs : List Psd.LayerRecord) (css : List (List Psd.ChannelData)) (ps : List Nat),
      List.zipWith role (Psd.refreshRecords rs css) ps = List.zipWith role rs ps := by
  intro rs
  induction rs with
  | nil => intro css ps; simp [Psd.refreshRecords]
  | cons r rs ih =>
    intro css ps
    cases css with
    | nil => simp [Psd.refreshRecords]
    | cons cs css =>
      cases ps with
      | nil => simp [Psd.refreshRecords]
      | cons p ps =>
        simp only [Psd.refreshRecords, List.zipWith_cons_cons, ih]
        rw [h r (Psd.refreshCI r.channelInfo cs) p]

/-- the records of a layer info after `write()` returned, as far as a channel-blind reading goes -/
theorem refresh_records_role {role : Psd.LayerRecord → Nat → Rec} (h : ChannelBlind role)
    (li : Psd.LayerInfo) (rs : List Psd.LayerRecord) (hrs : li.records = some rs) :
    ∃ rs', li.refresh.records = some rs' ∧ li.refresh.channels = li.channels ∧
      ∀ ps, List.zipWith role rs' ps = List.zipWith role rs ps := by
  unfold Psd.LayerInfo.refresh
  split
  · exact ⟨rs, hrs, rfl, fun _ => rfl⟩
  · split
    · rename_i r0 rs0 c0 cs0 h1 h2
      rw [hrs] at h1
      cases h1
      exact ⟨_, rfl, rfl, fun ps => zipWith_role_refresh h _ _ ps⟩
    · exact ⟨rs, hrs, rfl, fun _ => rfl⟩

end PsdVerif.Reopen
