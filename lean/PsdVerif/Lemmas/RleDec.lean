/-
Helper lemmas for C05: the decoder models (`decLoopPy`, `decLoopC`).
Core Lean only.
-/
import PsdVerif.Lemmas.Rle

deriving instance DecidableEq for Except

namespace PsdVerif.Rle
open PsdVerif

theorem take_drop_extract (d : Bytes) (i k : Nat) (h : i + k ≤ d.size) :
    (d.toList.drop i).take k = (d.extract i (i + k)).toList ∧
    (d.toList.drop i).drop k = d.toList.drop (i + k) := by
  have hl := extract_length d i (i + k) h
  rw [drop_extract d i (i + k) (by omega) h]
  have : k = (d.extract i (i + k)).toList.length := by omega
  constructor
  · exact List.take_left' this.symm
  · exact List.drop_left' this.symm

/-- The pure-Python decoder accepts every stream the specification decoder expands,
when asked for exactly the expanded size (no-op headers included). -/
theorem decLoopPy_complete (e : Bytes) (size : Nat) (i j : Nat) (out rest : List UInt8)
    (hi : i ≤ e.size) (hs : specDec (e.toList.drop i) = some rest)
    (hj : j = out.length) (hsz : size = out.length + rest.length) :
    decLoopPy e size i j out = .ok (out ++ rest) := by
  induction hn : e.size - i using Nat.strongRecOn generalizing i j out rest with
  | _ n ih =>
  by_cases h : i < e.size
  · rw [drop_eq_cons e i h, specDec_cons] at hs
    rw [decLoopPy]
    simp only [h, dite_true]
    by_cases c1 : e[i].toNat < 128
    · have c2 : ¬ e[i].toNat > 128 := by omega
      simp only [c1, if_true] at hs
      simp only [c1, c2, if_true, if_false]
      split at hs
      · rename_i hlen
        simp only [List.length_drop, Array.length_toList] at hlen
        obtain ⟨rest', hr', hrest⟩ := Option.map_eq_some_iff.mp hs
        have htd := take_drop_extract e (i + 1) (e[i].toNat + 1) (by omega)
        rw [htd.2] at hr'
        rw [htd.1] at hrest
        have hl := extract_length e (i + 1) (i + 1 + (e[i].toNat + 1)) (by omega)
        have hrl : rest.length = e[i].toNat + 1 + rest'.length := by
          rw [← hrest]; simp only [List.length_append, hl]; omega
        have g : ¬ (i + 1 + 1 + e[i].toNat > e.size ∨ j + 1 + e[i].toNat > size) := by omega
        simp only [g, if_false]
        have e1 : i + 1 + 1 + e[i].toNat = i + 1 + (e[i].toNat + 1) := by omega
        rw [e1]
        rw [ih _ (by omega) (i + 1 + (e[i].toNat + 1)) (j + 1 + e[i].toNat)
          (out ++ (e.extract (i + 1) (i + 1 + (e[i].toNat + 1))).toList) rest' (by omega) hr'
          (by simp only [List.length_append, hl]; omega)
          (by simp only [List.length_append, hl]; omega) rfl]
        rw [← hrest, List.append_assoc]
      · simp at hs
    · simp only [c1, if_false] at hs
      by_cases c3 : e[i].toNat = 128
      · simp only [c3, if_true] at hs
        have c2 : ¬ (128 > 128) := by omega
        have c4 : ¬ (128 < 128) := by omega
        simp only [c3, c2, if_false]
        exact ih _ (by omega) (i + 1) j out rest (by omega) hs hj hsz rfl
      · simp only [c3, if_false] at hs
        have c2 : e[i].toNat > 128 := by omega
        simp only [c2, if_true]
        split at hs
        · simp at hs
        · rename_i b t' hd
          obtain ⟨rest', hr', hrest⟩ := Option.map_eq_some_iff.mp hs
          have hi1 : i + 1 < e.size := by
            have : (e.toList.drop (i + 1)).length ≠ 0 := by rw [hd]; simp
            simp only [List.length_drop, Array.length_toList] at this; omega
          rw [drop_eq_cons e (i + 1) hi1] at hd
          have hb : e[i + 1] = b := (List.cons.inj hd).1
          have ht : e.toList.drop (i + 1 + 1) = t' := (List.cons.inj hd).2
          have hrl : rest.length = 257 - e[i].toNat + rest'.length := by
            rw [← hrest]; simp
          have hlt := UInt8.toNat_lt e[i]
          have g : ¬ (j + 1 + (256 - e[i].toNat) > size) := by omega
          simp only [g, if_false]
          rw [Array.getElem?_eq_getElem hi1]
          simp only []
          rw [ih _ (by omega) (i + 1 + 1) (j + 1 + (256 - e[i].toNat))
            (out ++ List.replicate (1 + (256 - e[i].toNat)) e[i + 1]) rest' (by omega)
            (by rw [ht]; exact hr')
            (by simp only [List.length_append, List.length_replicate]; omega)
            (by simp only [List.length_append, List.length_replicate]; omega) rfl]
          rw [← hrest, hb, List.append_assoc]
          have e2 : 1 + (256 - e[i].toNat) = 257 - e[i].toNat := by omega
          rw [e2]
  · have hnil : e.toList.drop i = [] := by
      apply List.drop_eq_nil_of_le; simp; omega
    rw [hnil, specDec] at hs
    have : rest = [] := by simpa using hs.symm
    subst this
    rw [decLoopPy]
    have : ¬ (size ≠ 0 ∧ out.length ≠ size) := by simp at hsz; omega
    simp [h, this]

/-- Invariant of the pure-Python decoder loop: `len(result) ≤ j ≤ size`; hence an
accepted stream has exactly `size` bytes. -/
theorem decLoopPy_exact (e : Bytes) (size i j : Nat) (out r : List UInt8)
    (h1 : out.length ≤ j) (h2 : j ≤ size) (hr : decLoopPy e size i j out = .ok r) :
    r.length = size := by
  fun_induction decLoopPy e size i j out
  · simp at hr
  · rename_i i0 j0 out0 hlt bit i1 hb n hg out1 ih
    refine ih ?_ ?_ hr
    · simp only [out1]
      split
      · simp; omega
      · omega
    · omega
  · simp at hr
  · rename_i i0 j0 out0 hlt bit i1 hb hb2 hg ih
    refine ih ?_ ?_ hr
    · have hl := extract_length e i1 (i1 + 1 + bit) (by omega)
      simp only [List.length_append, hl]; omega
    · omega
  · rename_i ih
    exact ih h1 h2 hr
  · simp at hr
  · rename_i hc
    simp at hr; subst hr
    omega

/-! ### `_rle.pyx` decoder against `rle.py` decoder -/

/-- Embedding of a Python outcome into the C outcome type. -/
def toC : Except Err (List UInt8) → CRes
  | .ok r => .ok r
  | .error x => .err x

theorem fillN_some (buf : List UInt8) (off n : Nat) (b : UInt8) (buf' : List UInt8)
    (h : fillN buf off n b = some buf') :
    buf'.length = buf.length ∧ buf'.take (off + n) = buf.take off ++ List.replicate n b := by
  unfold fillN at h
  split at h
  · rename_i hle
    simp at h; subst h
    constructor
    · simp; omega
    · rw [← List.append_assoc, List.take_left']
      simp; omega
  · simp at h

theorem copyN_some (buf : List UInt8) (off : Nat) (src buf' : List UInt8)
    (h : copyN buf off src = some buf') :
    buf'.length = buf.length ∧ buf'.take (off + src.length) = buf.take off ++ src := by
  unfold copyN at h
  split at h
  · rename_i hle
    simp at h; subst h
    constructor
    · simp; omega
    · rw [← List.append_assoc, List.take_left']
      simp; omega
  · simp at h

/-- The Cython decoder loop, started in a state that matches the Python loop's
(`result = buf[:j]`, `len(buf) = size`, `j ≤ size`), ends like the Python loop: same
bytes or same exception, never an out-of-bounds buffer access, never `IndexError`. -/
theorem decLoopC_agree (e : Bytes) (size i j : Nat) (buf out : List UInt8)
    (hout : out = buf.take j) (hbuf : buf.length = size) (hj : j ≤ size) :
    decLoopC e size i j buf = toC (decLoopPy e size i j out) := by
  fun_induction decLoopC e size i j buf generalizing out
  · -- replicate header, rejected by the C guard
    rename_i i0 j0 buf0 hlt bit i1 hb n hg
    rw [decLoopPy]
    simp only [hlt, dite_true]
    have hb' : e[i0].toNat > 128 := hb
    simp only [hb', if_true]
    by_cases g : j0 + 1 + (256 - e[i0].toNat) > size
    · simp only [g, if_true, toC]
    · simp only [g, if_false]
      have hi1 : i1 ≥ e.size := by
        rcases hg with hg | hg
        · exact hg
        · exact absurd hg g
      have hnone : e[i0 + 1]? = none := Array.getElem?_eq_none hi1
      rw [hnone]
      simp only []
      rw [decLoopPy]
      have : ¬ (i0 + 1 + 1 < e.size) := by omega
      simp only [this, dite_false]
      have hol : out.length = j0 := by rw [hout]; simp; omega
      have : size ≠ 0 ∧ out.length ≠ size := by omega
      rw [if_pos this]; rfl
  · -- `data[i]` out of range behind the guard: impossible
    rename_i i0 j0 buf0 hlt bit i1 hb n hg hnone
    have := Array.getElem?_eq_none_iff.mp hnone
    omega
  · -- fill_n out of bounds: impossible
    rename_i i0 j0 buf0 hlt bit i1 hb n hg b hsome hfill
    unfold fillN at hfill
    split at hfill
    · simp at hfill
    · omega
  · rename_i i0 j0 buf0 hlt bit i1 hb n hg b hsome buf' hfill ih
    have hf := fillN_some _ _ _ _ _ hfill
    rw [decLoopPy]
    simp only [hlt, dite_true]
    have hb' : e[i0].toNat > 128 := hb
    have g : ¬ (j0 + 1 + (256 - e[i0].toNat) > size) := by omega
    have hsome' : e[i0 + 1]? = some b := hsome
    simp only [hb', if_true, g, if_false, hsome']
    apply ih
    · rw [hout]
      have : j0 + 1 + n = j0 + (1 + n) := by omega
      rw [this, hf.2]
    · omega
    · omega
  · -- literal header rejected
    rename_i i0 j0 buf0 hlt bit i1 hb hb2 hg
    rw [decLoopPy]
    simp only [hlt, dite_true]
    have hb' : ¬ e[i0].toNat > 128 := hb
    have hb2' : e[i0].toNat < 128 := hb2
    have hg' : i0 + 1 + 1 + e[i0].toNat > e.size ∨ j0 + 1 + e[i0].toNat > size := hg
    simp only [hb', hb2', hg', if_true, if_false, toC]
  · -- copy_n out of bounds: impossible
    rename_i i0 j0 buf0 hlt bit i1 hb hb2 hg hi1 hcopy
    have hl := extract_length e i1 (i1 + 1 + bit) (by omega)
    unfold copyN at hcopy
    split at hcopy
    · simp at hcopy
    · omega
  · rename_i i0 j0 buf0 hlt bit i1 hb hb2 hg hi1 buf' hcopy ih
    have hl := extract_length e i1 (i1 + 1 + bit) (by omega)
    have hf := copyN_some _ _ _ _ hcopy
    rw [decLoopPy]
    simp only [hlt, dite_true]
    have hb' : ¬ e[i0].toNat > 128 := hb
    have hb2' : e[i0].toNat < 128 := hb2
    have hg' : ¬ (i0 + 1 + 1 + e[i0].toNat > e.size ∨ j0 + 1 + e[i0].toNat > size) := hg
    simp only [hb', hb2', hg', if_true, if_false]
    apply ih
    · rw [hout]
      have : j0 + 1 + bit = j0 + (e.extract i1 (i1 + 1 + bit)).toList.length := by omega
      rw [this, hf.2]
    · omega
    · omega
  · -- `&data[i]` out of range behind the guard: impossible
    rename_i i0 j0 buf0 hlt bit i1 hb hb2 hg hi1
    omega
  · -- no-op header
    rename_i i0 j0 buf0 hlt bit i1 hb hb2 ih
    rw [decLoopPy]
    simp only [hlt, dite_true]
    have hb' : ¬ e[i0].toNat > 128 := hb
    have hb2' : ¬ e[i0].toNat < 128 := hb2
    simp only [hb', hb2', if_false]
    exact ih out hout hbuf hj
  · rename_i i0 j0 buf0 hlt hc
    have hol : out.length = j0 := by rw [hout]; simp; omega
    rw [decLoopPy]
    have : size ≠ 0 ∧ out.length ≠ size := by omega
    simp only [hlt, dite_false]
    rw [if_pos this]; rfl
  · rename_i i0 j0 buf0 hlt hc
    have hol : out.length = j0 := by rw [hout]; simp; omega
    rw [decLoopPy]
    have : ¬ (size ≠ 0 ∧ out.length ≠ size) := by omega
    simp only [hlt, dite_false]
    rw [if_neg this]
    simp only [toC]
    congr 1
    rw [hout]
    by_cases hz : size = 0
    · have : buf0 = [] := List.eq_nil_of_length_eq_zero (by omega)
      subst this; simp
    · have : j0 = size := by omega
      rw [this, ← hbuf, List.take_length]

end PsdVerif.Rle
