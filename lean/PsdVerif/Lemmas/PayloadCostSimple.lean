/-
C06 — the counting twins of Model/PayloadCostSimple.lean erase to the readers of Model/PayloadSimple.lean and obey
the cost judgement with the constants recorded in their `CC.hand`.
-/
import PsdVerif.Model.PayloadCostSimple
import PsdVerif.Lemmas.PayloadCost2

namespace PsdVerif.PayloadCost
open PsdVerif PsdVerif.Codec PsdVerif.PsdCost PsdVerif.Payload PsdVerif.Payload3 PsdVerif.Safe PsdVerif.SafeCost

/-- a hand-written class is sound when its twin erases and costs what its `CC.hand` says -/
theorem CC.hand_sound {α : Type} {c : PCodec α} {decC : RC α} {name : String} {a b k : Nat} {loops : List Loop}
    (he : ∀ d p, (decC d p).1 = c.dec d p) (hc : CostR a b k decC) : (CC.hand c decC name a b k loops).Sound :=
  fun _ => ⟨he, hc⟩

/-! ### erasure of the extra primitives -/

theorem readF64C_fst (d : B) (p : Nat) : (readF64C d p).1 = readF64 d p := by
  unfold readF64C readF64
  rw [bind_fst, readUC_fst]
  cases readU 8 d p <;> rfl

theorem readBoolC_fst (d : B) (p : Nat) : (readBoolC d p).1 = Payload.readBool d p := by
  unfold readBoolC Payload.readBool
  rw [bind_fst, readUC_fst]
  cases readU 1 d p <;> rfl

theorem readSC_fst (w : Nat) (d : B) (p : Nat) : (readSC w d p).1 = readS w d p := by
  unfold readSC readS
  rw [bind_fst, readUC_fst]
  cases readU w d p <;> rfl

theorem readSkipC_fst (n : Nat) (d : B) (p : Nat) : (readSkipC n d p).1 = readSkip n d p := by
  unfold readSkipC readSkip
  rw [bind_fst, readNC_fst]
  cases readN n d p <;> rfl

theorem readSizedC_fst (n : Nat) (d : B) (p : Nat) : (readSizedC n d p).1 = readSized n d p := readPyC_fst _ d p

/-! ## base.py -/

theorem EmptyElement.cc_sound : EmptyElement.cc.Sound :=
  CC.hand_sound (fun _ _ => rfl) (fun _ _ hp => Cost.ok _ hp)

theorem NumericElement.cc_sound : NumericElement.cc.Sound :=
  CC.hand_sound readF64C_fst (fun _ _ _ => readF64C_cost)

theorem IntegerElement.cc_sound : IntegerElement.cc.Sound :=
  CC.hand_sound (readUC_fst 4) (fun _ _ _ => readUC_cost 4)

theorem readH2xC_fst (d : B) (p : Nat) : (readH2xC d p).1 = readH2x d p := by
  unfold readH2xC readH2x
  refine erase_bind (readUC_fst ..) fun ⟨v, p⟩ => ?_
  refine erase_bind (readSkipC_fst ..) fun ⟨_, p⟩ => ?_
  rfl

theorem readH2xC_cost : CostR 1 2 4 readH2xC := by
  intro d p hp
  apply Cost.mono
  case h =>
    unfold readH2xC
    cbind (readUC_cost 2)
    cbind (readSkipC_cost 2)
    cdone
  cside

theorem readH2xC_fail_w {d : B} {p : Nat} {e : Err} (hp : p ≤ d.length) (h : (readH2xC d p).1 = .error e) :
    (readH2xC d p).2.w ≤ 5 := by
  have h' := h
  rw [readH2xC_fst] at h
  have hlen : d.length - p ≤ 3 := by
    unfold readH2x at h
    cases h1 : readU 2 d p with
    | error e1 => have := readU_err_len h1; omega
    | ok y =>
      obtain ⟨v, p1⟩ := y
      have a1 := readU_ok h1
      rw [h1] at h
      simp only [bind, Except.bind] at h
      cases h2 : readSkip 2 d p1 with
      | ok z => rw [h2] at h; cases h
      | error e2 => have := readSkip_err_len h2; omega
  have := fail_w_le 3 (readH2xC_cost d p hp) h' hlen
  omega

theorem ShortIntegerElement.cc_sound : ShortIntegerElement.cc.Sound := by
  refine CC.hand_sound (orElseIOC_fst readH2xC_fst (readUC_fst 2)) (fun d p hp => ?_)
  exact (orElseIOC_cost (readH2xC_cost d p hp) (fun e h => readH2xC_fail_w hp h) (readUC_cost 2)).mono
    (by decide) (by decide) (by decide)

/-! ## color.py -/

theorem Color.readValueC_fst (lab : Bool) (d : B) (p : Nat) : (Color.readValueC lab d p).1 = Color.readValue lab d p := by
  unfold Color.readValueC Color.readValue
  split
  · exact readI16C_fst d p
  · rw [bind_fst, readUC_fst]
    cases readU 2 d p <;> rfl

theorem Color.readValueC_cost (lab : Bool) : CostR 1 1 2 (Color.readValueC lab) := by
  intro d p hp
  unfold Color.readValueC
  split
  · exact readI16C_cost
  · exact Cost.map (g := fun (n : Nat) => (n : Int)) (readUC_cost 2)

theorem Color.decC_fst (d : B) (p : Nat) : (Color.decC d p).1 = Color.dec d p := by
  unfold Color.decC Color.dec
  refine erase_bind (readUC_fst ..) fun ⟨id, p⟩ => ?_
  refine erase_bind (readCountC_fst (Color.readValueC_fst _) ..) fun ⟨vs, p⟩ => ?_
  rfl

theorem Color.decC_cost : CostR 1 9 10 Color.decC := by
  intro d p hp
  apply Cost.mono
  case h =>
    unfold Color.decC
    cbind (readUC_cost 2)
    cbind (readCountC_cost_fixed (fun q hq => Color.readValueC_cost _ d q hq) 4 _ (by assumption))
    cdone
  cside

theorem Color.cc_sound : Color.cc.Sound := CC.hand_sound Color.decC_fst Color.decC_cost

/-! ## tagged_blocks.py -/

theorem SheetColorSetting.decC_fst (d : B) (p : Nat) : (SheetColorSetting.decC d p).1 = SheetColorSetting.codec.dec d p := by
  unfold SheetColorSetting.decC SheetColorSetting.codec
  dsimp only
  refine erase_bind (readUC_fst ..) fun ⟨v, p⟩ => ?_
  refine erase_bind (readSkipC_fst ..) fun ⟨_, p⟩ => ?_
  dsimp only
  split <;> rfl

theorem SheetColorSetting.decC_cost : CostR 1 2 8 SheetColorSetting.decC := by
  intro d p hp
  apply Cost.mono
  case h =>
    unfold SheetColorSetting.decC
    cbind (readUC_cost 2)
    cbind (readSkipC_cost 6)
    cif
    cdone
  cside

theorem SheetColorSetting.cc_sound : SheetColorSetting.cc.Sound :=
  CC.hand_sound SheetColorSetting.decC_fst SheetColorSetting.decC_cost

theorem ChannelBlendingRestrictionsSetting.cc_sound : ChannelBlendingRestrictionsSetting.cc.Sound := by
  refine CC.hand_sound (fun d p => readWhileC_fst (isReadableC_fst 4) (optItemC_fst (readUC_fst 4)) d p) (fun d p hp => ?_)
  exact (readWhileC_cost 4 (fun q _ => optItemC_cost (readUC_cost 4)) (by decide) p hp).mono (by decide) (by decide) (by decide)

end PsdVerif.PayloadCost
