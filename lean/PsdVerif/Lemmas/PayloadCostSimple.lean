/-
C06 — the counting twins of Model/PayloadCostSimple.lean erase to the readers of Model/PayloadSimple.lean and obey
the cost judgement with the constants recorded in their `CC.hand`.
-/
import PsdVerif.Model.PayloadCostSimple
import PsdVerif.Lemmas.PayloadCost2

namespace PsdVerif.PayloadCost
open PsdVerif PsdVerif.Codec PsdVerif.PsdCost PsdVerif.Payload PsdVerif.Payload3 PsdVerif.Safe PsdVerif.SafeCost

/-- a hand-written class is sound when its twin erases and costs what its `CC.hand` says -/
theorem CC.hand_sound {α : Type} {c : PCodec α} {decC : RC α} {name : String} {a b k : Nat} {loops : List Loop}
    (he : ∀ d p, (decC d p).1 = c.dec d p) (hc : CostR a b k decC) : (CC.hand c decC name a b k loops).Sound :=
  fun _ => ⟨he, hc⟩

/-! ### erasure of the extra primitives -/

theorem readF64C_fst (d : B) (p : Nat) : (readF64C d p).1 = readF64 d p := by
  unfold readF64C readF64
  rw [bind_fst, readUC_fst]
  cases readU 8 d p <;> rfl

theorem readBoolC_fst (d : B) (p : Nat) : (readBoolC d p).1 = Payload.readBool d p := by
  unfold readBoolC Payload.readBool
  rw [bind_fst, readUC_fst]
  cases readU 1 d p <;> rfl

theorem readSC_fst (w : Nat) (d : B) (p : Nat) : (readSC w d p).1 = readS w d p := by
  unfold readSC readS
  rw [bind_fst, readUC_fst]
  cases readU w d p <;> rfl

theorem readSkipC_fst (n : Nat) (d : B) (p : Nat) : (readSkipC n d p).1 = readSkip n d p := by
  unfold readSkipC readSkip
  rw [bind_fst, readNC_fst]
  cases readN n d p <;> rfl

theorem readSizedC_fst (n : Nat) (d : B) (p : Nat) : (readSizedC n d p).1 = readSized n d p := readPyC_fst _ d p

/-! ### two more sequencing rules -/

/-- a run `x` started at `p₁`, behind a prefix that cost `c0 + c1` and consumed `p₁ − p` bytes: seen from `p`, the
prefix and the surplus `b' − b` of the constant are paid by the bytes the prefix consumed -/
theorem Cost.shift2 {α : Type} {a b b' k : Nat} {d : B} {p p₁ : Nat} {x : CE (α × Nat)} {c0 c1 : PsdCost.Cost}
    (hx : Cost a b' k d p₁ x) (hpp : p ≤ p₁) (hp1 : p₁ ≤ d.length) (hc : c0.w + c1.w + b' ≤ a * (p₁ - p) + b) :
    Cost a b 0 d p (x.1, c0 + (c1 + x.2)) := by
  refine Cost.intro (fun v p' h => ?_) (fun e h => ?_)
  · have h1 := hx.of_ok (h : x.1 = _)
    have hs := mul_split a (x := p₁ - p) (y := p' - p₁) (z := p' - p) (by omega)
    refine ⟨by omega, h1.2.1, ?_⟩
    show (c0 + (c1 + x.2)).w ≤ _
    rw [w_add, w_add]
    omega
  · have h1 := hx.of_error (h : x.1 = _)
    have hs := mul_split a (x := p₁ - p) (y := d.length - p₁) (z := d.length - p) (by omega)
    refine ⟨h1.1, ?_⟩
    show (c0 + (c1 + x.2)).w ≤ _
    rw [w_add, w_add]
    omega

/-- sequencing where the continuation may spend `c` more per byte the first step consumed (a block that was read is
copied into a nested stream and parsed there) -/
theorem Cost.bind_credit {α β : Type} {a₁ a₂ b₁ b₂ k₁ k₂ c : Nat} {d : B} {p : Nat} {m : CE (β × Nat)}
    {f : β × Nat → CE (α × Nat)} (hm : Cost a₁ b₁ k₁ d p m)
    (hf : ∀ v p₁, m.1 = .ok (v, p₁) → p₁ ≤ d.length → Cost a₂ (b₂ + c * (p₁ - p)) k₂ d p₁ (f (v, p₁))) :
    Cost (max (a₁ + c) a₂) (b₁ + b₂) (k₁ + k₂) d p (m >>= f) := by
  have hA1 : a₁ + c ≤ max (a₁ + c) a₂ := Nat.le_max_left ..
  have hA2 : a₂ ≤ max (a₁ + c) a₂ := Nat.le_max_right ..
  generalize max (a₁ + c) a₂ = A at hA1 hA2 ⊢
  cases hm1 : m.1 with
  | error e =>
    rw [bind_err' hm1]
    refine Cost.intro (fun _ _ hx => by cases hx) (fun e' hx => ?_)
    cases hx
    have h1 := hm.of_error hm1
    have e1 : a₁ * (d.length - p) ≤ A * (d.length - p) := Nat.mul_le_mul_right _ (by omega)
    exact ⟨h1.1, by show m.2.w ≤ _; omega⟩
  | ok y =>
    obtain ⟨v, p₁⟩ := y
    have h1 := hm.of_ok hm1
    have h2' := hf v p₁ hm1 h1.2.1
    rw [bind_ok' hm1]
    have e1 : (a₁ + c) * (p₁ - p) ≤ A * (p₁ - p) := Nat.mul_le_mul_right _ hA1
    have e3 : (a₁ + c) * (p₁ - p) = a₁ * (p₁ - p) + c * (p₁ - p) := Nat.add_mul ..
    refine Cost.intro (fun v' p' hx => ?_) (fun e' hx => ?_)
    · have h2 := h2'.of_ok hx
      have hs := mul_split A (x := p₁ - p) (y := p' - p₁) (z := p' - p) (by omega)
      have e2 : a₂ * (p' - p₁) ≤ A * (p' - p₁) := Nat.mul_le_mul_right _ hA2
      refine ⟨by omega, h2.2.1, ?_⟩
      show (m.2 + (f (v, p₁)).2).w ≤ _
      rw [w_add]
      omega
    · have h2 := h2'.of_error hx
      have hs := mul_split A (x := p₁ - p) (y := d.length - p₁) (z := d.length - p) (by omega)
      have e2 : a₂ * (d.length - p₁) ≤ A * (d.length - p₁) := Nat.mul_le_mul_right _ hA2
      refine ⟨h2.1, ?_⟩
      show (m.2 + (f (v, p₁)).2).w ≤ _
      rw [w_add]
      omega

theorem readBool_ok' {d : B} {p : Nat} {v : Bool} {p' : Nat} (h : Payload.readBool d p = .ok (v, p')) :
    p' = p + 1 ∧ p + 1 ≤ d.length := by
  unfold Payload.readBool at h
  split at h
  · rename_i n q hq; cases h; exact readU_ok hq
  · cases h

theorem readBool_err_len {d : B} {p : Nat} {e : Err} (h : Payload.readBool d p = .error e) : d.length < p + 1 := by
  unfold Payload.readBool at h
  split at h
  · cases h
  · rename_i e' h'; exact readU_err_len h'

/-! ## base.py -/

theorem EmptyElement.cc_c : EmptyElement.cc.c = EmptyElement.codec := rfl
theorem NumericElement.cc_c : NumericElement.cc.c = NumericElement.codec := rfl
theorem IntegerElement.cc_c : IntegerElement.cc.c = IntegerElement.codec := rfl
theorem ShortIntegerElement.cc_c : ShortIntegerElement.cc.c = ShortIntegerElement.codec := rfl
theorem Color.cc_c : Color.cc.c = Color.codec := rfl
theorem SheetColorSetting.cc_c : SheetColorSetting.cc.c = SheetColorSetting.codec := rfl
theorem ChannelBlendingRestrictionsSetting.cc_c :
    ChannelBlendingRestrictionsSetting.cc.c = ChannelBlendingRestrictionsSetting.codec := rfl

theorem EmptyElement.cc_sound : EmptyElement.cc.Sound :=
  CC.hand_sound (fun _ _ => rfl) (fun _ _ hp => Cost.ok _ hp)

theorem NumericElement.cc_sound : NumericElement.cc.Sound :=
  CC.hand_sound readF64C_fst (fun _ _ _ => readF64C_cost)

theorem IntegerElement.cc_sound : IntegerElement.cc.Sound :=
  CC.hand_sound (readUC_fst 4) (fun _ _ _ => readUC_cost 4)

theorem readH2xC_fst (d : B) (p : Nat) : (readH2xC d p).1 = readH2x d p := by
  unfold readH2xC readH2x
  refine erase_bind (readUC_fst ..) fun ⟨v, p⟩ => ?_
  refine erase_bind (readSkipC_fst ..) fun ⟨_, p⟩ => ?_
  rfl

theorem readH2xC_cost : CostR 1 2 4 readH2xC := by
  intro d p hp
  apply Cost.mono
  case h =>
    unfold readH2xC
    cbind (readUC_cost 2)
    cbind (readSkipC_cost 2)
    cdone
  cside

theorem readH2xC_fail_w {d : B} {p : Nat} {e : Err} (hp : p ≤ d.length) (h : (readH2xC d p).1 = .error e) :
    (readH2xC d p).2.w ≤ 5 := by
  have h' := h
  rw [readH2xC_fst] at h
  have hlen : d.length - p ≤ 3 := by
    unfold readH2x at h
    cases h1 : readU 2 d p with
    | error e1 => have := readU_err_len h1; omega
    | ok y =>
      obtain ⟨v, p1⟩ := y
      have a1 := readU_ok h1
      rw [h1] at h
      simp only [bind, Except.bind] at h
      cases h2 : readSkip 2 d p1 with
      | ok z => rw [h2] at h; cases h
      | error e2 => have := readSkip_err_len h2; omega
  have := fail_w_le 3 (readH2xC_cost d p hp) h' hlen
  omega

theorem ShortIntegerElement.cc_sound : ShortIntegerElement.cc.Sound := by
  refine CC.hand_sound (orElseIOC_fst readH2xC_fst (readUC_fst 2)) (fun d p hp => ?_)
  exact (orElseIOC_cost (readH2xC_cost d p hp) (fun e h => readH2xC_fail_w hp h) (readUC_cost 2)).mono
    (by decide) (by decide) (by decide)

theorem readB3xC_fst (d : B) (p : Nat) : (readB3xC d p).1 = readB3x d p := by
  unfold readB3xC readB3x
  refine erase_bind (readUC_fst ..) fun ⟨v, p⟩ => ?_
  refine erase_bind (readSkipC_fst ..) fun ⟨_, p⟩ => ?_
  rfl

theorem readB3xC_cost : CostR 1 2 4 readB3xC := by
  intro d p hp
  apply Cost.mono
  case h =>
    unfold readB3xC
    cbind (readUC_cost 1)
    cbind (readSkipC_cost 3)
    cdone
  cside

theorem readB3xC_fail_w {d : B} {p : Nat} {e : Err} (hp : p ≤ d.length) (h : (readB3xC d p).1 = .error e) :
    (readB3xC d p).2.w ≤ 5 := by
  have h' := h
  rw [readB3xC_fst] at h
  have hlen : d.length - p ≤ 3 := by
    unfold readB3x at h
    cases h1 : readU 1 d p with
    | error e1 => have := readU_err_len h1; omega
    | ok y =>
      obtain ⟨v, p1⟩ := y
      have a1 := readU_ok h1
      rw [h1] at h
      simp only [bind, Except.bind] at h
      cases h2 : readSkip 3 d p1 with
      | ok z => rw [h2] at h; cases h
      | error e2 => have := readSkip_err_len h2; omega
  have := fail_w_le 3 (readB3xC_cost d p hp) h' hlen
  omega

theorem ByteElement.cc_c : ByteElement.cc.c = ByteElement.codec := rfl

theorem ByteElement.cc_sound : ByteElement.cc.Sound := by
  refine CC.hand_sound (orElseIOC_fst readB3xC_fst (readUC_fst 1)) (fun d p hp => ?_)
  exact (orElseIOC_cost (readB3xC_cost d p hp) (fun e h => readB3xC_fail_w hp h) (readUC_cost 1)).mono
    (by decide) (by decide) (by decide)

theorem readBool3xC_fst (d : B) (p : Nat) : (readBool3xC d p).1 = readBool3x d p := by
  unfold readBool3xC readBool3x
  refine erase_bind (readBoolC_fst ..) fun ⟨v, p⟩ => ?_
  refine erase_bind (readSkipC_fst ..) fun ⟨_, p⟩ => ?_
  rfl

theorem readBool3xC_cost : CostR 1 2 4 readBool3xC := by
  intro d p hp
  apply Cost.mono
  case h =>
    unfold readBool3xC
    cbind readBoolC_cost
    cbind (readSkipC_cost 3)
    cdone
  cside

theorem readBool3xC_fail_w {d : B} {p : Nat} {e : Err} (hp : p ≤ d.length) (h : (readBool3xC d p).1 = .error e) :
    (readBool3xC d p).2.w ≤ 5 := by
  have h' := h
  rw [readBool3xC_fst] at h
  have hlen : d.length - p ≤ 3 := by
    unfold readBool3x at h
    cases h1 : Payload.readBool d p with
    | error e1 => have := readBool_err_len h1; omega
    | ok y =>
      obtain ⟨v, p1⟩ := y
      have a1 := readBool_ok' h1
      rw [h1] at h
      simp only [bind, Except.bind] at h
      cases h2 : readSkip 3 d p1 with
      | ok z => rw [h2] at h; cases h
      | error e2 => have := readSkip_err_len h2; omega
  have := fail_w_le 3 (readBool3xC_cost d p hp) h' hlen
  omega

theorem BooleanElement.cc_c : BooleanElement.cc.c = BooleanElement.codec := rfl

theorem BooleanElement.cc_sound : BooleanElement.cc.Sound := by
  refine CC.hand_sound (orElseIOC_fst readBool3xC_fst readBoolC_fst) (fun d p hp => ?_)
  exact (orElseIOC_cost (readBool3xC_cost d p hp) (fun e h => readBool3xC_fail_w hp h) readBoolC_cost).mono
    (by decide) (by decide) (by decide)

theorem StringElement.cc_c (pw pr : Nat) : (StringElement.cc pw pr).c = StringElement.codec pw pr := rfl

/-- `pr ≠ 0`: the paddings the containers pass are 1 and 4 (with `padding=0` Python's `read_padding` divides by zero) -/
theorem StringElement.cc_sound (pw pr : Nat) (h : pr ≠ 0) : (StringElement.cc pw pr).Sound :=
  CC.hand_sound (readUStrC_fst pr) (fun _ _ hp => readUStrC_cost pr h hp)

/-! ## color.py -/

theorem Color.readValueC_fst (lab : Bool) (d : B) (p : Nat) : (Color.readValueC lab d p).1 = Color.readValue lab d p := by
  unfold Color.readValueC Color.readValue
  split
  · exact readI16C_fst d p
  · rw [bind_fst, readUC_fst]
    cases readU 2 d p <;> rfl

theorem Color.readValueC_cost (lab : Bool) : CostR 1 1 2 (Color.readValueC lab) := by
  intro d p hp
  unfold Color.readValueC
  split
  · exact readI16C_cost
  · exact Cost.map (g := fun (n : Nat) => (n : Int)) (readUC_cost 2)

theorem Color.decC_fst (d : B) (p : Nat) : (Color.decC d p).1 = Color.dec d p := by
  unfold Color.decC Color.dec
  refine erase_bind (readUC_fst ..) fun ⟨id, p⟩ => ?_
  refine erase_bind (readCountC_fst (Color.readValueC_fst _) ..) fun ⟨vs, p⟩ => ?_
  rfl

theorem Color.decC_cost : CostR 1 9 10 Color.decC := by
  intro d p hp
  apply Cost.mono
  case h =>
    unfold Color.decC
    cbind (readUC_cost 2)
    cbind (readCountC_cost_fixed (fun q hq => Color.readValueC_cost _ d q hq) 4 _ (by assumption))
    cdone
  cside

theorem Color.cc_sound : Color.cc.Sound := CC.hand_sound Color.decC_fst Color.decC_cost

/-! ## tagged_blocks.py -/

theorem SheetColorSetting.decC_fst (d : B) (p : Nat) : (SheetColorSetting.decC d p).1 = SheetColorSetting.codec.dec d p := by
  unfold SheetColorSetting.decC SheetColorSetting.codec
  dsimp only
  refine erase_bind (readUC_fst ..) fun ⟨v, p⟩ => ?_
  refine erase_bind (readSkipC_fst ..) fun ⟨_, p⟩ => ?_
  dsimp only
  split <;> rfl

theorem SheetColorSetting.decC_cost : CostR 1 2 8 SheetColorSetting.decC := by
  intro d p hp
  apply Cost.mono
  case h =>
    unfold SheetColorSetting.decC
    cbind (readUC_cost 2)
    cbind (readSkipC_cost 6)
    cif
    cdone
  cside

theorem SheetColorSetting.cc_sound : SheetColorSetting.cc.Sound :=
  CC.hand_sound SheetColorSetting.decC_fst SheetColorSetting.decC_cost

theorem ChannelBlendingRestrictionsSetting.cc_sound : ChannelBlendingRestrictionsSetting.cc.Sound := by
  refine CC.hand_sound (fun d p => readWhileC_fst (isReadableC_fst 4) (optItemC_fst (readUC_fst 4)) d p) (fun d p hp => ?_)
  exact (readWhileC_cost 4 (fun q _ => optItemC_cost (readUC_cost 4)) (by decide) p hp).mono (by decide) (by decide) (by decide)

theorem BytesElement.cc_c : BytesElement.cc.c = BytesElement.codec := rfl

theorem BytesElement.cc_sound : BytesElement.cc.Sound :=
  CC.hand_sound (readUpToC_fst 4) (fun _ _ hp => readUpToC_cost 4 hp)

theorem ReferencePoint.decC_fst (d : B) (p : Nat) : (ReferencePoint.decC d p).1 = ReferencePoint.codec.dec d p := by
  unfold ReferencePoint.decC ReferencePoint.codec
  dsimp only
  refine erase_bind (readF64C_fst ..) fun ⟨x, p⟩ => ?_
  refine erase_bind (readF64C_fst ..) fun ⟨y, p⟩ => ?_
  rfl

theorem ReferencePoint.decC_cost : CostR 1 2 16 ReferencePoint.decC := by
  intro d p hp
  apply Cost.mono
  case h =>
    unfold ReferencePoint.decC
    cbind readF64C_cost
    cbind readF64C_cost
    cdone
  cside

theorem ReferencePoint.cc_c : ReferencePoint.cc.c = ReferencePoint.codec := rfl

theorem ReferencePoint.cc_sound : ReferencePoint.cc.Sound :=
  CC.hand_sound ReferencePoint.decC_fst ReferencePoint.decC_cost

theorem SectionDividerSetting.decC_fst (d : B) (p : Nat) :
    (SectionDividerSetting.decC d p).1 = SectionDividerSetting.dec d p := by
  unfold SectionDividerSetting.decC SectionDividerSetting.dec
  refine erase_bind (readUC_fst ..) fun ⟨kind, p⟩ => ?_
  dsimp only
  split
  · refine erase_ok (isReadableC_fst 8 d p) ?_
    refine erase_bind ?_ fun ⟨tail, p'⟩ => ?_
    · split
      · refine erase_bind (readNC_fst ..) fun ⟨sig, p⟩ => ?_
        dsimp only
        split
        · refine erase_bind (readNC_fst ..) fun ⟨bm, p⟩ => ?_
          dsimp only
          split <;> rfl
        · rfl
      · rfl
    · dsimp only
      refine erase_ok (b := (tail.1.isSome && isReadable 4 d p')) ?_ ?_
      · cases tail.1.isSome <;> rfl
      · refine erase_bind ?_ fun ⟨sub, p⟩ => ?_
        · split
          · exact optItemC_fst (readUC_fst 4) d p'
          · rfl
        · rfl
  · rfl

theorem SectionDividerSetting.decC_cost : CostR 1 18 4 SectionDividerSetting.decC := by
  intro d p hp
  apply Cost.mono
  case h =>
    unfold SectionDividerSetting.decC
    cbind (readUC_cost 4)
    cif
    apply Cost.step (n := 9)
    case hm => rw [isReadableC_w']; omega
    case hne => intro h; cases h
    case hf =>
      intro r _
      apply Cost.bind
      · cif
        · cbind (readNC_cost 4)
          cif
          cbind (readNC_cost 4)
          cif
          cdone
        · cdone
      · intro tail p' _ _
        dsimp only
        apply Cost.step (n := 5)
        case hm =>
          split
          · rw [isReadableC_w']; omega
          · exact Nat.zero_le _
        case hne => split <;> (intro h; cases h)
        case hf =>
          intro r2 _
          apply Cost.bind
          · cif
            · exact optItemC_cost (readUC_cost 4)
            · cdone
          · intro _ _ _ _
            dsimp only
            cdone
  cside

theorem SectionDividerSetting.cc_c : SectionDividerSetting.cc.c = SectionDividerSetting.codec := rfl

theorem SectionDividerSetting.cc_sound : SectionDividerSetting.cc.Sound :=
  CC.hand_sound SectionDividerSetting.decC_fst SectionDividerSetting.decC_cost

theorem UserMask.decC_fst (d : B) (p : Nat) : (UserMask.decC d p).1 = UserMask.codec.dec d p := by
  unfold UserMask.decC UserMask.codec
  dsimp only
  refine erase_bind (Color.decC_fst ..) fun ⟨c, p⟩ => ?_
  refine erase_bind (readUC_fst ..) fun ⟨op, p⟩ => ?_
  refine erase_bind (readUC_fst ..) fun ⟨fl, p⟩ => ?_
  refine erase_bind (readSkipC_fst ..) fun ⟨_, p⟩ => ?_
  rfl

theorem UserMask.decC_cost : CostR 1 12 14 UserMask.decC := by
  intro d p hp
  apply Cost.mono
  case h =>
    unfold UserMask.decC
    cbind (Color.decC_cost d p hp)
    cbind (readUC_cost 2)
    cbind (readUC_cost 1)
    cbind (readSkipC_cost 1)
    cdone
  cside

theorem UserMask.cc_c : UserMask.cc.c = UserMask.codec := rfl
theorem UserMask.cc_sound : UserMask.cc.Sound := CC.hand_sound UserMask.decC_fst UserMask.decC_cost

theorem FilterMask.decC_fst (d : B) (p : Nat) : (FilterMask.decC d p).1 = FilterMask.codec.dec d p := by
  unfold FilterMask.decC FilterMask.codec
  dsimp only
  refine erase_bind (Color.decC_fst ..) fun ⟨c, p⟩ => ?_
  refine erase_bind (readUC_fst ..) fun ⟨op, p⟩ => ?_
  rfl

theorem FilterMask.decC_cost : CostR 1 10 12 FilterMask.decC := by
  intro d p hp
  apply Cost.mono
  case h =>
    unfold FilterMask.decC
    cbind (Color.decC_cost d p hp)
    cbind (readUC_cost 2)
    cdone
  cside

theorem FilterMask.cc_c : FilterMask.cc.c = FilterMask.codec := rfl
theorem FilterMask.cc_sound : FilterMask.cc.Sound := CC.hand_sound FilterMask.decC_fst FilterMask.decC_cost

theorem PixelSourceData2.cc_c (pad : Nat) : (PixelSourceData2.cc pad).c = PixelSourceData2.codec pad := rfl

theorem PixelSourceData2.cc_sound (pad : Nat) : (PixelSourceData2.cc pad).Sound := by
  refine CC.hand_sound (fun d p => readWhileC_fst (isReadableC_fst 8) (optItemC_fst (readLenBlockC_fst 0 8 1)) d p)
    (fun d p hp => ?_)
  exact (readWhileC_cost 8 (fun q hq => optItemC_cost (readLenBlockC_cost 0 8 1 hq)) (by decide) p hp).mono
    (by decide) (by decide) (by decide)

/-! ### Annotations / Annotation -/

theorem Annotation.decC_fst (d : B) (p : Nat) : (Annotation.decC d p).1 = Annotation.dec d p := by
  unfold Annotation.decC Annotation.dec
  refine erase_bind (readNC_fst ..) fun ⟨kind, p⟩ => ?_
  refine erase_bind (readUC_fst ..) fun ⟨isOpen, p⟩ => ?_
  refine erase_bind (readUC_fst ..) fun ⟨flags, p⟩ => ?_
  refine erase_bind (readUC_fst ..) fun ⟨ob, p⟩ => ?_
  refine erase_bind (readCountC_fst readI32C_fst ..) fun ⟨icon, p⟩ => ?_
  refine erase_bind (readCountC_fst readI32C_fst ..) fun ⟨popup, p⟩ => ?_
  refine erase_bind (Color.decC_fst ..) fun ⟨color, p⟩ => ?_
  refine erase_bind (readPascalC_fst ..) fun ⟨author, p⟩ => ?_
  refine erase_bind (readPascalC_fst ..) fun ⟨name, p⟩ => ?_
  refine erase_bind (readPascalC_fst ..) fun ⟨modDate, p⟩ => ?_
  refine erase_bind (readUC_fst ..) fun ⟨_, p⟩ => ?_
  refine erase_bind (readNC_fst ..) fun ⟨marker, p⟩ => ?_
  refine erase_bind (readLenBlockC_fst ..) fun ⟨data, p⟩ => ?_
  dsimp only
  split <;> rfl

theorem Annotation.decC_cost : CostR 1 44 65 Annotation.decC := by
  intro d p hp
  apply Cost.mono
  case h =>
    unfold Annotation.decC
    cbind (readNC_cost 4)
    cbind (readUC_cost 1)
    cbind (readUC_cost 1)
    cbind (readUC_cost 2)
    cbind (readCountC_cost_fixed (fun q hq => readI32C_cost) 4 _ (by assumption))
    cbind (readCountC_cost_fixed (fun q hq => readI32C_cost) 4 _ (by assumption))
    cbind (Color.decC_cost d _ (by assumption))
    cbind (readPascalC_cost 2)
    cbind (readPascalC_cost 2)
    cbind (readPascalC_cost 2)
    cbind (readUC_cost 4)
    cbind (readNC_cost 4)
    cbind (readLenBlockC_cost 0 4 1)
    cif
    cdone
  cside

theorem Annotation.cc_c : Annotation.cc.c = Annotation.codec := rfl
theorem Annotation.cc_sound : Annotation.cc.Sound := CC.hand_sound Annotation.decC_fst Annotation.decC_cost

theorem Annotations.readItemsC_fst (n : Nat) (d : B) (p : Nat) :
    (Annotations.readItemsC n d p).1 = Annotations.readItems n d p := by
  induction n generalizing p with
  | zero => rfl
  | succ n ih =>
    unfold Annotations.readItemsC Annotations.readItems
    refine erase_ok tick_fst ?_
    refine erase_bind (readUC_fst ..) fun ⟨len, p⟩ => ?_
    dsimp only
    split
    · refine erase_bind (readUpToC_fst ..) fun ⟨chunk, p⟩ => ?_
      refine erase_ok (enterBlock_fst chunk) ?_
      refine erase_bind (Annotation.decC_fst chunk 0) fun ⟨a, _⟩ => ?_
      refine erase_bind (ih p) fun ⟨as, p⟩ => ?_
      rfl
    · exact ih p

/-- `for _ in range(count)`: an iteration that succeeds consumed the 4 bytes of its length field, which pay for the
iteration, the nested stream and the constant of `Annotation.read`: the bound does not mention `count` -/
theorem Annotations.readItemsC_cost (n : Nat) {d : B} (p : Nat) (hp : p ≤ d.length) :
    Cost 13 2 0 d p (Annotations.readItemsC n d p) := by
  induction n generalizing p with
  | zero => exact (Cost.ok _ hp).mono (by decide) (by decide) (Nat.le_refl _)
  | succ n ih =>
    unfold Annotations.readItemsC
    rw [bind_ok' tick_fst]
    cases h1 : (readUC 4 d p).1 with
    | error e =>
      rw [bind_err' h1]
      refine Cost.intro (fun _ _ hx => by cases hx) (fun _ hx => ?_)
      cases hx
      have i1 := (readUC_cost 4 (d := d) (p := p)).of_error h1
      refine ⟨i1.1, ?_⟩
      show (PsdCost.tick.2 + (readUC 4 d p).2).w ≤ _
      rw [w_add, tick_w]
      omega
    | ok y =>
      obtain ⟨len, p1⟩ := y
      have i1 := (readUC_cost 4 (d := d) (p := p)).of_ok h1
      rw [bind_ok' h1]
      dsimp only
      refine Cost.shift2 (b' := 48) (k := 0) ?_ (by omega) i1.2.1 (by rw [tick_w]; omega)
      split
      · refine (Cost.bind_credit (c := 2) (a₂ := 13) (b₂ := 47) (k₂ := 0) (readUpToC_cost _ i1.2.1)
          fun chunk p2 h2 hp2 => ?_).mono (by decide) (by decide) (Nat.zero_le _)
        have hl := readUpToC_ok h2
        have hin := Annotation.decC_cost chunk 0 (Nat.zero_le _)
        dsimp only
        refine (Cost.step (n := 1 + chunk.length) (a := 13) (b := (1 * chunk.length + 44) + 2) (k := 0)
          (Nat.le_of_eq (enterBlock_w chunk)) (by intro h; cases h) fun _ _ => ?_).mono
          (Nat.le_refl _) (by omega) (Nat.le_refl _)
        refine Cost.step (nested_w_le hin) hin.ne_other fun y _ => ?_
        obtain ⟨a, q⟩ := y
        dsimp only
        apply Cost.mono
        case h =>
          cbind (ih p2 hp2)
          cdone
        cside
      · exact (ih p1 i1.2.1).mono (Nat.le_refl _) (by decide) (Nat.le_refl _)

theorem Annotations.decC_fst (d : B) (p : Nat) : (Annotations.decC d p).1 = Annotations.dec d p := by
  unfold Annotations.decC Annotations.dec
  refine erase_bind (readUC_fst ..) fun ⟨major, p⟩ => ?_
  refine erase_bind (readUC_fst ..) fun ⟨minor, p⟩ => ?_
  refine erase_bind (readUC_fst ..) fun ⟨count, p⟩ => ?_
  refine erase_bind (Annotations.readItemsC_fst ..) fun ⟨items, p⟩ => ?_
  rfl

theorem Annotations.decC_cost : CostR 13 5 8 Annotations.decC := by
  intro d p hp
  apply Cost.mono
  case h =>
    unfold Annotations.decC
    cbind (readUC_cost 2)
    cbind (readUC_cost 2)
    cbind (readUC_cost 4)
    cbind (Annotations.readItemsC_cost _ _ (by assumption))
    cdone
  cside

theorem Annotations.cc_c : Annotations.cc.c = Annotations.codec := rfl
theorem Annotations.cc_sound : Annotations.cc.Sound := CC.hand_sound Annotations.decC_fst Annotations.decC_cost

/-! ## the table of the unit -/

def simpleTable : List (String × Sh) := [
  ("EmptyElement", EmptyElement.cc.sh),
  ("NumericElement", NumericElement.cc.sh),
  ("IntegerElement", IntegerElement.cc.sh),
  ("ShortIntegerElement", ShortIntegerElement.cc.sh),
  ("ByteElement", ByteElement.cc.sh),
  ("BooleanElement", BooleanElement.cc.sh),
  ("StringElement", (StringElement.cc 1 1).sh),
  ("Color", Color.cc.sh),
  ("Bytes", BytesElement.cc.sh),
  ("SheetColorSetting", SheetColorSetting.cc.sh),
  ("ReferencePoint", ReferencePoint.cc.sh),
  ("SectionDividerSetting", SectionDividerSetting.cc.sh),
  ("UserMask", UserMask.cc.sh),
  ("FilterMask", FilterMask.cc.sh),
  ("ChannelBlendingRestrictionsSetting", ChannelBlendingRestrictionsSetting.cc.sh),
  ("PixelSourceData2", (PixelSourceData2.cc 1).sh),
  ("Annotation", Annotation.cc.sh),
  ("Annotations", Annotations.cc.sh)]

theorem simple_body_progress : simpleTable.all (fun e => e.2.bodyProgress) = true := by decide

end PsdVerif.PayloadCost
