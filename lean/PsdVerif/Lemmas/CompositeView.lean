/-
Viewport independence of the compositor model at a pixel, and runs of zero sources.
-/
import PsdVerif.Lemmas.CompositeTree
import PsdVerif.Lemmas.CompositeRect
open PsdVerif PsdVerif.Composite
namespace PsdVerif.Composite

mutual
/-- the layer and the layers clipped to it meet the two viewports in the same rectangle -/
def viewEq (V' V : Rect) : Node → Prop
  | .leaf pr _ _ _ clips => intersect V' pr.bbox = intersect V pr.bbox ∧ listViewEq V' V clips
  | .group pr _ _ clips => intersect V' pr.bbox = intersect V pr.bbox ∧ listViewEq V' V clips
def listViewEq (V' V : Rect) : List Node → Prop
  | [] => True
  | n :: ns => viewEq V' V n ∧ listViewEq V' V ns
end

theorem maskFactors_view (pr : Props) (V' V : Rect) (x y : Int) (h' : V'.contains x y = true) (h : V.contains x y = true) :
    maskFactors pr V' x y = maskFactors pr V x y := by
  unfold maskFactors
  rw [pasteAt_eq V' _ x y h', pasteAt_eq V _ x y h]

theorem finishApply_view (B : Mode → Color → Color → Color) (V' V : Rect) (x y : Int)
    (h' : V'.contains x y = true) (h : V.contains x y = true) (st : PState) (pr : Props) (color : Color) (shape alpha : Rat) :
    finishApply B V' x y st pr color shape alpha = finishApply B V x y st pr color shape alpha := by
  unfold finishApply
  rw [maskFactors_view pr V' V x y h' h]

mutual
/-- **Viewport independence at a pixel**: a layer composites the same way in two viewports that
both contain the pixel, as long as it (and its clip layers) meet both viewports in the same
rectangle — so neither the early-exit test nor a nested group's viewport can differ. -/
theorem applyNode_view (B : Mode → Color → Color → Color) (V' V : Rect) (x y : Int)
    (h' : V'.contains x y = true) (h : V.contains x y = true) (cc : Bool) (st : PState) :
    (n : Node) → viewEq V' V n → applyNode B V' x y cc st n = applyNode B V x y cc st n
  | .leaf pr hasPixels color shape clips, hv => by
    obtain ⟨hb, hc⟩ := hv
    unfold applyNode
    rw [hb, pasteAt_eq V' _ x y h', pasteAt_eq V _ x y h, pasteAt_eq V' _ x y h', pasteAt_eq V _ x y h]
    simp only [finishApply_view B V' V x y h' h]
    have hcl : ∀ s, applyClips B V' x y s clips = applyClips B V x y s clips :=
      fun s => applyClips_view B V' V x y h' h s clips hc
    simp only [hcl]
  | .group pr passThrough children clips, hv => by
    obtain ⟨hb, hc⟩ := hv
    unfold applyNode
    rw [hb]
    simp only [finishApply_view B V' V x y h' h]
    have hcl : ∀ s, applyClips B V' x y s clips = applyClips B V x y s clips :=
      fun s => applyClips_view B V' V x y h' h s clips hc
    simp only [hcl]

theorem applyClips_view (B : Mode → Color → Color → Color) (V' V : Rect) (x y : Int)
    (h' : V'.contains x y = true) (h : V.contains x y = true) (st : PState) :
    (ns : List Node) → listViewEq V' V ns → applyClips B V' x y st ns = applyClips B V x y st ns
  | [], _ => by unfold applyClips; rfl
  | n :: rest, hv => by
    unfold applyClips
    rw [applyNode_view B V' V x y h' h true st n hv.1]
    exact applyClips_view B V' V x y h' h _ rest hv.2
end

theorem Same.trans {r s t : PState} (h1 : Same r s) (h2 : Same s t) : Same r t :=
  ⟨h1.sg.trans h2.sg, h1.ag.trans h2.ag, h1.a.trans h2.a, h1.a0.trans h2.a0, h1.c0.trans h2.c0,
    fun ha ch => (h1.c (by rw [h2.a]; exact ha) ch).trans (h2.c ha ch)⟩

/-- a generator that contributes nothing at this pixel -/
def Gen.Zero (g : Gen) : Prop := ∀ c a, (g c a).shape = 0 ∧ (g c a).alpha = 0

theorem runGens_zero {st : PState} (hst : Inv st) (gs : List Gen) (hok : ∀ g ∈ gs, Gen.Ok g)
    (hz : ∀ g ∈ gs, Gen.Zero g) : Same (runGens st gs) st := by
  induction gs generalizing st with
  | nil => exact Same.refl st
  | cons g gs ih =>
    have hg := hok g (List.mem_cons_self ..)
    obtain ⟨z1, z2⟩ := hz g (List.mem_cons_self ..) st.c st.a
    have hstep : Same (stepGen st g) st := by
      unfold stepGen
      simp only [z1, z2]
      exact applySource_zero _ st hst _
    have hinv : Inv (stepGen st g) := stepGen_inv hst hg
    exact (ih hinv (fun g' h' => hok g' (List.mem_cons_of_mem _ h')) (fun g' h' => hz g' (List.mem_cons_of_mem _ h'))).trans hstep

/-- a layer whose box does not cover the pixel contributes nothing there -/
theorem nodeGen_zero_outside (B : Mode → Color → Color → Color) (V : Rect) (x y : Int) (hV : V.contains x y = true)
    (n : Node) (hout : n.props.bbox.contains x y = false) : Gen.Zero (nodeGen B V x y n) := by
  intro c a
  cases n with
  | leaf pr hasPixels color shape clips =>
    simp only [Node.props] at hout
    simp only [nodeGen, pasteAt_eq V _ x y hV, hout, Bool.false_eq_true, if_false]
    constructor <;> (split <;> simp)
  | group pr passThrough children clips =>
    simp only [Node.props] at hout
    have hin : (intersect V pr.bbox).contains x y = false := by
      by_cases hz : intersect V pr.bbox = Rect.zero
      · rw [hz]; exact contains_zero x y
      · rw [contains_intersect hz, hout, Bool.and_false]
    simp only [nodeGen, hin, Bool.false_eq_true, if_false]
    constructor <;> simp

end PsdVerif.Composite
