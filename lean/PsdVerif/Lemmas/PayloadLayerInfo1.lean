/-
C01 payload unit 1 — `LayerInfoBlock` and the typed tagged block: round-trip, count and refresh laws.
-/
import PsdVerif.Lemmas.CodecPsd3
import PsdVerif.Model.PayloadLayerInfo

namespace PsdVerif.Payload
open PsdVerif PsdVerif.Codec PsdVerif.Psd

/-! ### `if self.layer_records:` on a list whose encoding is empty when the list is -/

theorem optListT_listT {α : Type} (f : α → B) (xs : List α) : optListT (listT f) (some xs) = listT f xs := by
  cases xs <;> rfl

theorem optListT_channelImageT (css : List (List ChannelData)) : optListT channelImageT (some css) = channelImageT css := by
  cases css <;> rfl

theorem shapesAgree_length : ∀ (rs : List LayerRecord) (css : List (List ChannelData)), shapesAgree rs css →
    rs.length = css.length := by
  intro rs
  induction rs with
  | nil => intro css h; cases css <;> simp_all [shapesAgree]
  | cons r rs ih => intro css h; cases css with
    | nil => simp [shapesAgree] at h
    | cons c cs => simp only [shapesAgree] at h; simp [ih cs h.2]

/-- with one channel list per record, the object after `write` has exactly the refreshed records -/
theorem blockRefresh_of_shapes (n : Int) (rs : List LayerRecord) (css : List (List ChannelData)) (h : shapesAgree rs css) :
    blockRefresh ⟨n, some rs, some css⟩ = ⟨n, some (refreshRecords rs css), some css⟩ := by
  cases rs with
  | nil => cases css with
    | nil => rfl
    | cons c cs => simp [shapesAgree] at h
  | cons r rs => cases css with
    | nil => simp [shapesAgree] at h
    | cons c cs => rfl

theorem blockRefresh_idem (li : LayerInfo) : blockRefresh (blockRefresh li) = blockRefresh li := by
  obtain ⟨n, rs, css⟩ := li
  cases rs with
  | none => rfl
  | some rs =>
    cases css with
    | none => cases rs <;> rfl
    | some css =>
      cases rs with
      | nil => rfl
      | cons r rs =>
        cases css with
        | nil => rfl
        | cons c cs =>
          have := refreshRecords_idem (r :: rs) (c :: cs)
          simp only [refreshRecords] at this
          simp only [blockRefresh, refreshRecords, LayerInfo.mk.injEq, true_and, and_true, Option.some.injEq]
          exact this

theorem blockRefresh_channels (li : LayerInfo) : (blockRefresh li).channels = li.channels := by
  unfold blockRefresh; split <;> rfl

theorem blockRefresh_layerCount (li : LayerInfo) : (blockRefresh li).layerCount = li.layerCount := by
  unfold blockRefresh; split <;> rfl

namespace LayerInfoBlock

theorem encT_refresh (v pad : Nat) (li : LayerInfo) : encT v pad (blockRefresh li) = encT v pad li := by
  unfold encT; rw [blockRefresh_idem]

theorem Fits_refresh (v : Nat) (li : LayerInfo) : Fits v (blockRefresh li) ↔ Fits v li := by
  unfold Fits; rw [blockRefresh_idem, blockRefresh_channels, blockRefresh_layerCount]

theorem enc_refresh (v pad : Nat) (li : LayerInfo) : enc v pad (blockRefresh li) = enc v pad li := by
  unfold enc
  simp only [Fits_refresh, encT_refresh]

theorem enc_ok {v pad : Nat} {li : LayerInfo} {bs : B} (h : enc v pad li = .ok bs) : Fits v li ∧ bs = encT v pad li := by
  unfold enc at h
  split at h
  · exact ⟨‹_›, by cases h; rfl⟩
  · cases h

theorem encP_eq (v pad : Nat) (li : LayerInfo) : encP v pad li = (encT v pad li, (encT v pad li).length) :=
  LayerInfo.bodyP_eq v pad (blockRefresh li)

theorem length_encT (v pad : Nat) (li : LayerInfo) :
    (encT v pad li).length = bodyLen v li + padAmount (bodyLen v li) pad := by
  simp only [encT, bodyLen, LayerInfo.bodyT, List.length_append, length_zeros]

/-- What `LayerInfoBlock.read` returns on what `LayerInfoBlock.write` wrote, anywhere in a stream: the object as the
writer left it; the cursor stops where the body ends (the writer's filler is not consumed). -/
theorem dec_at {v pad : Nat} {li : LayerInfo} (hwf : WF v li) (hf : Fits v li) {d : B} {p : Nat}
    (hat : At d p (encT v pad li)) :
    dec v d p = .ok (blockRefresh li, p + bodyLen v li) := by
  obtain ⟨n, rs, css⟩ := li
  unfold WF at hwf
  cases rs with
  | none => simp at hwf
  | some rs =>
    cases css with
    | none => simp at hwf
    | some css =>
      simp only at hwf
      obtain ⟨hcount, hshape, hrecs, hch⟩ := hwf
      obtain ⟨g1, _, _⟩ := hf
      simp only at g1
      have href := blockRefresh_of_shapes n rs css hshape
      unfold encT bodyLen at *
      rw [href] at hat ⊢
      generalize hR : refreshRecords rs css = R at *
      have hRlen : R.length = n.natAbs := by
        rw [← hR, length_refreshRecords]; exact hcount.symm
      have hun : LayerInfo.bodyUnpaddedT v ⟨n, some R, some css⟩ =
          i16T n ++ (listT (LayerRecord.encT v) R ++ channelImageT css) := by
        simp only [LayerInfo.bodyUnpaddedT, optListT_listT, optListT_channelImageT, List.append_assoc]
      simp only [LayerInfo.bodyT, hun, List.append_assoc] at hat
      obtain ⟨e2, hat⟩ := readI16_step hat g1
      obtain ⟨e3, hat⟩ := readCount_step (LayerRecord.dec v) (LayerRecord.encT v) R
        (fun r hr d p h => (LayerRecord.dec_step (hrecs r hr) h.nil_right).1) hat
      rw [hRlen] at e3
      have e4 := channelImageDec_at rs css hshape hch hat.left
      rw [hR] at e4
      simp only [dec, LayerInfo.bodyDec, bind, Except.bind, e2, e3, e4, hun, List.length_append, length_i16T]
      congr 2
      omega

end LayerInfoBlock

/-! ### payloads and typed blocks -/

theorem Payload.encP_eq (v pad : Nat) (x : Payload) : x.encP v pad = (x.encT v pad, (x.encT v pad).length) := by
  cases x with
  | raw b => rfl
  | layerInfo li => exact LayerInfoBlock.encP_eq v (innerPad pad) li

theorem Payload.refresh_idem (x : Payload) : x.refresh.refresh = x.refresh := by
  cases x with
  | raw b => rfl
  | layerInfo li => simp only [Payload.refresh, blockRefresh_idem]

theorem Payload.encT_refresh (v pad : Nat) (x : Payload) : x.refresh.encT v pad = x.encT v pad := by
  cases x with
  | raw b => rfl
  | layerInfo li => exact LayerInfoBlock.encT_refresh v (innerPad pad) li

theorem Payload.Fits_refresh (v : Nat) (x : Payload) : x.refresh.Fits v ↔ x.Fits v := by
  cases x with
  | raw b => exact Iff.rfl
  | layerInfo li => exact LayerInfoBlock.Fits_refresh v li

theorem TBlock.flat_refresh (v pad : Nat) (t : TBlock) : t.refresh.flat v pad = t.flat v pad := by
  simp only [TBlock.flat, TBlock.refresh, Payload.encT_refresh]

theorem TBlock.encT_refresh (v pad : Nat) (t : TBlock) : t.refresh.encT v pad = t.encT v pad := by
  simp only [TBlock.encT, TBlock.flat_refresh]

theorem TBlock.Fits_refresh (v pad : Nat) (t : TBlock) : t.refresh.Fits v pad ↔ t.Fits v pad := by
  unfold TBlock.Fits
  rw [TBlock.flat_refresh]
  simp only [TBlock.refresh, Payload.Fits_refresh]

theorem TBlock.enc_refresh (v pad : Nat) (t : TBlock) : t.refresh.enc v pad = t.enc v pad := by
  unfold TBlock.enc
  simp only [TBlock.Fits_refresh, TBlock.encT_refresh]

theorem TBlock.enc_ok {v pad : Nat} {t : TBlock} {bs : B} (h : t.enc v pad = .ok bs) :
    t.Fits v pad ∧ bs = t.encT v pad := by
  unfold TBlock.enc at h
  split at h
  · exact ⟨‹_›, by cases h; rfl⟩
  · cases h

theorem TBlock.encP_eq (v pad : Nat) (t : TBlock) : t.encP v pad = (t.encT v pad, (t.encT v pad).length) := by
  simp only [TBlock.encP, TBlock.encT, TBlock.flat, TaggedBlock.encT, Payload.encP_eq, wBytes_eq, wLenBlock_eq, wSeq_eq,
    List.append_assoc]

/-- the typed payload read from the bytes a well-formed typed payload wrote is that payload, as the writer left it -/
theorem typedPayload_encT {v pad : Nat} {t : TBlock} (hwf : t.WF v pad) :
    typedPayload v t.key (t.data.encT v pad) = .ok t.data.refresh := by
  obtain ⟨_, hfit, hcls⟩ := hwf
  obtain ⟨sig, key, data⟩ := t
  cases data with
  | raw b =>
    simp only at hcls
    simp only [typedPayload, if_neg hcls, Payload.encT, Payload.refresh]
  | layerInfo li =>
    simp only at hcls
    have e := LayerInfoBlock.dec_at (pad := innerPad pad) hcls.2 hfit (At.self _)
    simp only [typedPayload, if_pos hcls.1, Payload.encT, e, Payload.refresh]

/-- `TaggedBlock.read` with the payload dispatch, on what `TaggedBlock.write` wrote -/
theorem TBlock.dec_at {v pad : Nat} (hp : pad = 1 ∨ pad = 2 ∨ pad = 4) {t : TBlock} (hwf : t.WF v pad)
    {d : B} {p : Nat} (hat : At d p (t.encT v pad)) :
    TBlock.dec v pad d p = .ok (some t.refresh, p + (t.encT v pad).length) := by
  have hpl := typedPayload_encT hwf
  obtain ⟨⟨hsig, hk, hf⟩, _, _⟩ := hwf
  simp only [TBlock.flat] at hsig hk hf
  have hl : ∀ s ∈ G.blockSignatures, s.length = 4 := by decide
  have hs : pack4s t.signature = t.signature := pack4s_of_length (hl _ hsig)
  have hk' : pack4s t.key = t.key := pack4s_of_length hk
  unfold TBlock.encT at hat ⊢
  rw [TaggedBlock.length_encT]
  simp only [TaggedBlock.encT, TBlock.flat, List.append_assoc, hs, hk'] at hat ⊢
  obtain ⟨e1, hat⟩ := readN_step hat (hl _ hsig)
  obtain ⟨e2, hat⟩ := readN_step hat hk
  have e3 := readLenBlock_at hat hf (tbLenW_mod v t.key pad hp)
  simp only [TBlock.dec, bind, Except.bind, e1, if_pos hsig, e2, e3, hpl]
  simp only [TBlock.refresh, Nat.add_assoc]

theorem TBlock.length_ge (v pad : Nat) (t : TBlock) : 12 ≤ (t.encT v pad).length :=
  TaggedBlock.length_ge v pad (t.flat v pad)

/-- `TaggedBlocks.read` with the payload dispatch (the proof of `taggedBlocksDec_at`, item by item) -/
theorem tblocksDec_at {v pad : Nat} (hp : pad = 1 ∨ pad = 2 ∨ pad = 4) {ts : List TBlock}
    (hwf : tblocksWF v pad ts) (endPos : Option Nat) {d : B} {p : Nat} (hat : At d p (tblocksT v pad ts))
    (hend : ∀ e, endPos = some e → p + (tblocksT v pad ts).length ≤ e)
    (hstop : taggedCond endPos d (p + (tblocksT v pad ts).length) = false) :
    tblocksDec v pad endPos d p = .ok (ts.map TBlock.refresh, p + (tblocksT v pad ts).length) := by
  obtain ⟨hall, hnd⟩ := hwf
  have e1 : readWhile (taggedCond endPos) (TBlock.dec v pad) d p =
      .ok (ts.map TBlock.refresh, p + (tblocksT v pad ts).length) := by
    unfold tblocksT at hat hstop hend ⊢
    have key : ∀ (ts' : List TBlock), (∀ t ∈ ts', t.WF v pad) → ∀ q, At d q (listT (TBlock.encT v pad) ts') →
        (∀ e, endPos = some e → q + (listT (TBlock.encT v pad) ts').length ≤ e) →
        taggedCond endPos d (q + (listT (TBlock.encT v pad) ts').length) = false →
        ∀ fuel, ts'.length < fuel →
        readWhileFuel (taggedCond endPos) (TBlock.dec v pad) fuel d q =
          .ok (ts'.map TBlock.refresh, q + (listT (TBlock.encT v pad) ts').length) := by
      intro ts'
      induction ts' with
      | nil =>
        intro _ q _ _ hst fuel hf
        cases fuel with
        | zero => omega
        | succ fuel =>
          simp only [listT, List.length_nil, Nat.add_zero] at hst ⊢
          simp [readWhileFuel, hst]
      | cons t ts' ih =>
        intro hall' q hq he hst fuel hf
        cases fuel with
        | zero => omega
        | succ fuel =>
          simp only [listT] at hq he hst ⊢
          have hge := t.length_ge v pad
          have hc : taggedCond endPos d q = true := by
            unfold taggedCond
            rw [isReadable_of_at hq.left (by omega)]
            cases hE : endPos with
            | none => rfl
            | some e =>
              have := he e hE
              simp only [List.length_append] at this
              simp only [Bool.true_and, decide_eq_true_eq]; omega
          have hi := TBlock.dec_at hp (hall' t (by simp)) hq.left
          simp only [readWhileFuel, hc, if_true, hi]
          rw [ih (fun x hx => hall' x (by simp [hx])) _ hq.right
            (by intro e hE; have := he e hE; simp only [List.length_append] at this; omega)
            (by simpa [List.length_append, Nat.add_assoc] using hst) fuel (by simpa using hf)]
          simp only [List.length_append, Nat.add_assoc, List.map_cons]
    unfold readWhile
    apply key ts hall p hat hend hstop
    have h1 := length_listT_le (TBlock.encT v pad) ts 1 (fun t _ => by have := t.length_ge v pad; omega)
    have h2 := hat.bound
    omega
  have hkeys : (ts.map TBlock.refresh).map TBlock.key = ts.map TBlock.key := by
    simp only [List.map_map]; rfl
  simp only [tblocksDec, bind, Except.bind, e1, odict_of_nodup TBlock.key (ts.map TBlock.refresh) (hkeys ▸ hnd)]

/-- the bytes of typed blocks are the bytes of their skeleton views -/
theorem tblocksT_flat (v pad : Nat) (ts : List TBlock) :
    tblocksT v pad ts = taggedBlocksT v pad (ts.map (TBlock.flat v pad)) := by
  unfold tblocksT taggedBlocksT
  induction ts with
  | nil => rfl
  | cons t ts ih => simp only [listT, List.map_cons, ih, TBlock.encT]

end PsdVerif.Payload
