/-
The tabulating evaluator of `Model/CompositeEval.lean` is the model (`Model/Composite.lean`).
-/
import PsdVerif.Model.CompositeEval

namespace PsdVerif.Composite

theorem lookup_tab (n : Nat) (c : Color) : lookup (tab n c) c = c := by
  funext i
  unfold lookup tab
  split
  · simp
  · rfl

theorem fzState_eq (n : Nat) (st : PState) : fzState n st = st := by
  unfold fzState
  simp only [lookup_tab]

mutual

theorem applyNodeF_eq (k : Nat) (B : Mode → Color → Color → Color) (V : Rect) (x y : Int) (cc : Bool) (st : PState) :
    (n : Node) → applyNodeF k B V x y cc st n = applyNode B V x y cc st n
  | .leaf pr hasPixels color shape clips => by
    unfold applyNodeF applyNode
    simp only [fzState_eq, applyClipsF_eq k B V x y _ clips]
  | .group pr passThrough children clips => by
    unfold applyNodeF applyNode
    simp only [fzState_eq, applyClipsF_eq k B V x y _ clips, applyListF_eq k B _ x y _ children]

theorem applyListF_eq (k : Nat) (B : Mode → Color → Color → Color) (V : Rect) (x y : Int) (st : PState) :
    (ns : List Node) → applyListF k B V x y st ns = applyList B V x y st ns
  | [] => by unfold applyListF applyList; rfl
  | n :: rest => by
    unfold applyListF applyList
    rw [applyNodeF_eq k B V x y false st n, applyListF_eq k B V x y _ rest]

theorem applyClipsF_eq (k : Nat) (B : Mode → Color → Color → Color) (V : Rect) (x y : Int) (st : PState) :
    (ns : List Node) → applyClipsF k B V x y st ns = applyClips B V x y st ns
  | [] => by unfold applyClipsF applyClips; rfl
  | n :: rest => by
    unfold applyClipsF applyClips
    rw [applyNodeF_eq k B V x y true st n, applyClipsF_eq k B V x y _ rest]

end

theorem compositeDocF_eq (k : Nat) (B : Mode → Color → Color → Color) (V : Rect) (x y : Int) (color : Color)
    (alpha : Rat) (layers : List Node) :
    compositeDocF k B V x y color alpha layers = compositeDoc B V x y color alpha layers := by
  unfold compositeDocF compositeDoc
  simp only [fzState_eq, applyListF_eq]

end PsdVerif.Composite
