/-
C03 (payload interiors) — whole payloads: a walker run on exactly the payload bytes (`runOn`), descriptor blocks
(`DescriptorBlock`, `DescriptorBlock2` with their version prefixes and filler), the effects layer, the unicode-string block.
-/
import PsdVerif.Lemmas.WalkerPayload2
import PsdVerif.Model.PayloadEffects
import PsdVerif.Model.PayloadSimple

namespace PsdVerif.WalkerPayload
open PsdVerif PsdVerif.Codec PsdVerif.Walker PsdVerif.Descriptor

theorem shiftR_zero (r : Region) : shiftR 0 r = r := by cases r; rfl

theorem map_shiftR_zero (rs : List Region) : rs.map (shiftR 0) = rs := by
  induction rs with
  | nil => rfl
  | cons r rs ih => simp only [List.map_cons, shiftR_zero, ih]

/-- a walker that walks `bs` accepts the payload `bs ++ filler` when the filler is within the slack: it reports the regions of
`S 0`, and each delimits its bytes of the payload -/
theorem runOn_of_walks {w : PW} {bs : B} {S : Nat → List Span} (h : Walks w bs S) (filler : B) {slack : Nat}
    (hs : filler.length ≤ slack) :
    runOn w slack (bs ++ filler) = .ok (regionsOf (S 0)) ∧ ∀ s ∈ S 0, s.Holds (bs ++ filler) := by
  obtain ⟨e, hh⟩ := h (bs ++ filler) 0 filler (At.self _)
  refine ⟨?_, hh⟩
  have hc : bs.length ≤ (bs ++ filler).length ∧ (bs ++ filler).length ≤ bs.length + slack := by
    simp only [List.length_append]; omega
  simp only [Nat.zero_add] at e
  simp only [runOn, pSub, Nat.zero_add, Nat.le_refl, if_true, List.drop_zero, List.take_length, e]
  rw [if_pos hc]
  simp only [map_shiftR_zero]

/-! ### descriptor blocks -/

def blockSpans (tb : Tables) (b : Block) : Nat → List Span := seqS noSpans (structSpans tb b.name b.classID b.items) 4

theorem walks_descBlock (tb : Tables) (b : Block) (hwf : b.WF tb) (hf : b.Fits tb) :
    Walks pDescBlock (u32T b.version ++ bodyT tb b.name b.classID b.items) (blockSpans tb b) := by
  obtain ⟨_, _, hcid, _, hitems⟩ := hwf
  obtain ⟨_, fnm, fcid, flen, fitems⟩ := hf
  exact (walks_seq' (walks_skip "descriptor-block" (length_u32T b.version))
    (walks_descriptor tb b.name b.classID b.items fnm hcid fcid flen hitems fitems)).congr rfl
    (by unfold blockSpans; rw [length_u32T])

def block2Spans (tb : Tables) (b : Block2) : Nat → List Span :=
  seqS noSpans (seqS noSpans (structSpans tb b.name b.classID b.items) 4) 4

theorem walks_descBlock2 (tb : Tables) (b : Block2) (hwf : b.WF tb) (hf : b.Fits tb) :
    Walks pDescBlock2 (u32T b.version ++ (u32T b.dataVersion ++ bodyT tb b.name b.classID b.items)) (block2Spans tb b) := by
  obtain ⟨_, _, hcid, _, hitems⟩ := hwf
  obtain ⟨_, _, fnm, fcid, flen, fitems⟩ := hf
  exact (walks_seq' (walks_skip "descriptor-block" (length_u32T b.version))
    (walks_seq' (walks_skip "descriptor-block" (length_u32T b.dataVersion))
      (walks_descriptor tb b.name b.classID b.items fnm hcid fcid flen hitems fitems))).congr rfl
    (by unfold block2Spans; rw [length_u32T, length_u32T])

theorem Block.encT_split (tb : Tables) (pad : Nat) (b : Block) :
    b.encT tb pad = (u32T b.version ++ bodyT tb b.name b.classID b.items) ++ zeros (padAmount (b.bodyLen tb) pad) := by
  simp only [Block.encT, List.append_assoc]

theorem Block2.encT_split (tb : Tables) (pad : Nat) (b : Block2) :
    b.encT tb pad = (u32T b.version ++ (u32T b.dataVersion ++ bodyT tb b.name b.classID b.items)) ++
      zeros (padAmount (b.bodyLen tb) pad) := by
  simp only [Block2.encT, List.append_assoc]

theorem filler_le (n pad : Nat) (hp : 0 < pad) (h4 : pad ≤ 4) : (zeros (padAmount n pad)).length ≤ 3 := by
  rw [length_zeros]
  have := padAmount_lt n pad hp
  omega

/-! ### effects layer -/

open PsdVerif.Payload in
def effectSpans (kv : B × Effect) : Nat → List Span := regS "effect" (EffectsLayer.itemT kv) noSpans

open PsdVerif.Payload in
theorem walks_effect (kv : B × Effect) (hf : FitsU 4 kv.2.encT.length) :
    Walks pEffect (EffectsLayer.itemT kv) (effectSpans kv) := by
  have e : EffectsLayer.itemT kv = sig8BIM ++ (pack4s kv.1 ++ (beBytes 4 kv.2.encT.length ++ kv.2.encT)) := by
    simp only [EffectsLayer.itemT, lenBlockT_simple, List.append_assoc]
  have h3 := walks_u "effect" (w := 4) (k := fun size => pSkip "effect" size) hf
    (walks_skip "effect" (rfl : kv.2.encT.length = kv.2.encT.length))
  have h2 := walks_seq (walks_skip "effect" (length_pack4s kv.1)) h3
  have h1 := walks_seq (walks_check "effect" "signature is not 8BIM" (c := sig8BIM == FX.sig) (by decide)) h2
  have h0 := walks_b "effect" (n := 4) (b := sig8BIM)
    (k := fun sg => pCheck "effect" "signature is not 8BIM" (sg == FX.sig) ⨾ pSkip "effect" 4 ⨾
      pU "effect" 4 fun size => pSkip "effect" size) (by decide) h1
  have h := walks_region "effect" h0
  simp only [List.nil_append] at h
  rw [← e] at h
  exact h.congr rfl (by funext p; simp [effectSpans, regS, noSpans])

open PsdVerif.Payload in
def effectsSpans (x : EffectsLayer) : Nat → List Span :=
  seqS noSpans (atS (itemSpans EffectsLayer.itemT effectSpans x.items) 2) 2

open PsdVerif.Payload in
theorem walks_effects (x : EffectsLayer) (hf : x.Fits) : Walks pEffects x.bodyT (effectsSpans x) := by
  obtain ⟨_, fc, fi⟩ := hf
  have hc := walks_counted "effects-layer" (cw := 2) (item := pEffect) EffectsLayer.itemT effectSpans x.items fc
    (fun kv hkv => walks_effect kv (fi kv hkv).2)
    (fun kv _ => by simp only [EffectsLayer.itemT, List.length_append, length_pack4s]; omega)
  have h := walks_seq (walks_skip "effects-layer" (length_beBytes 2 x.version)) hc
  have e : x.bodyT = beBytes 2 x.version ++ (beBytes 2 x.items.length ++ listT EffectsLayer.itemT x.items) := by
    simp only [EffectsLayer.bodyT, List.append_assoc]
  rw [e]
  exact h.congr rfl (by funext p; simp [effectsSpans, seqS, atS, noSpans, length_beBytes])

end PsdVerif.WalkerPayload
