/-
C02 on the payload layer — `DecOK` for the classes of the third batch that do not contain a descriptor: image-resource
payloads (unit 7), adjustments (unit 8), vector data (unit 9), filter effects (unit 10). The flat ones are instances of the
combinator laws of Lemmas/PayloadResave.lean; the hand-written readers are inverted step by step.
(The classes that hold a descriptor - slices, descriptor resources, ColorLookup, VectorStrokeContentSetting - are in
Lemmas/PayloadResaveDesc.lean.)
-/
import PsdVerif.Lemmas.PayloadResave
import PsdVerif.Lemmas.Payload3Resources
import PsdVerif.Lemmas.Payload3Adjust
import PsdVerif.Lemmas.Payload3Curves
import PsdVerif.Lemmas.Payload3Vector
import PsdVerif.Lemmas.Payload3Filter

namespace PsdVerif.Payload3
open PsdVerif PsdVerif.Codec PsdVerif.Payload PsdVerif.Payload.PCodec

/-! ## unit 7: the flat image-resource payloads -/

theorem AlphaIdentifiers.decOK : DecOK AlphaIdentifiers.codec := whileR_decOK 4 1 (rec_decOK _ rfl)
theorem AlphaNamesPascal.decOK : DecOK AlphaNamesPascal.codec := whileR_decOK 1 1 (pascal_decOK 1 1)
theorem AlphaNamesUnicode.decOK : DecOK AlphaNamesUnicode.codec := whileR_decOK 1 1 ustr_decOK
theorem AlphaChannel.decOK : DecOK AlphaChannel.codec := checked_decOK (rec_decOK _ rfl)
theorem DisplayInfo.decOK : DecOK DisplayInfo.codec := seq_decOK (rec_decOK _ rfl) (whileR_decOK 13 1 AlphaChannel.decOK)
theorem Byte.decOK : DecOK Byte.codec := rec_decOK _ rfl
theorem GridGuidesInfo.decOK : DecOK GridGuidesInfo.codec := seq_decOK (rec_decOK _ rfl) (counted_decOK 4 (rec_decOK _ rfl))
theorem HalftoneScreen.decOK : DecOK HalftoneScreen.codec := rec_decOK _ rfl
theorem HalftoneScreens.decOK : DecOK HalftoneScreens.codec := whileR_decOK 18 1 HalftoneScreen.decOK
theorem Integer.decOK : DecOK Integer.codec := rec_decOK _ rfl
theorem LayerGroupEnabledIDs.decOK : DecOK LayerGroupEnabledIDs.codec := whileR_decOK 1 1 (rec_decOK _ rfl)
theorem LayerGroupInfo.decOK : DecOK LayerGroupInfo.codec := whileR_decOK 2 1 (rec_decOK _ rfl)
theorem LayerSelectionIDs.decOK : DecOK LayerSelectionIDs.codec := counted_decOK 2 (rec_decOK _ rfl)
theorem ShortInteger.decOK : DecOK ShortInteger.codec := rec_decOK _ rfl
theorem PascalString.decOK : DecOK PascalString.codec := pascal_decOK 1 2
theorem PixelAspectRatio.decOK : DecOK PixelAspectRatio.codec := rec_decOK _ rfl
theorem PrintFlagsInfo.decOK : DecOK PrintFlagsInfo.codec := rec_decOK _ rfl
theorem PrintScale.decOK : DecOK PrintScale.codec := checked_decOK (rec_decOK _ rfl)
theorem ResolutionInfo.decOK : DecOK ResolutionInfo.codec := rec_decOK _ rfl
theorem TransferFunction.decOK : DecOK TransferFunction.codec := seq_decOK (rec_decOK _ rfl) (rec_decOK _ rfl)
theorem TransferFunctions.decOK : DecOK TransferFunctions.codec := whileR_decOK 28 1 TransferFunction.decOK
theorem URLItem.decOK : DecOK URLItem.codec := seq_decOK (rec_decOK _ rfl) ustr_decOK
theorem URLList.decOK : DecOK URLList.codec := counted_decOK 4 URLItem.decOK
theorem VersionInfo.decOK : DecOK VersionInfo.codec :=
  seq_decOK (rec_decOK _ rfl) (seq_decOK ustr_decOK (seq_decOK ustr_decOK (rec_decOK _ rfl)))

/-- `PrintFlags`: eight flags, the ninth when a byte is left -/
theorem PrintFlags.decOK : DecOK PrintFlags.codec := by
  intro d p v p' hd
  simp only [PrintFlags.codec, PrintFlags.dec, bind, Except.bind] at hd
  split at hd
  · cases hd
  · rename_i x hx
    obtain ⟨fl, q⟩ := x
    obtain ⟨f1, w1, _⟩ := fmtDec_ok PrintFlags.fmt8 rfl hx
    simp only at hd
    split at hd
    · split at hd
      · cases hd
      · rename_i y hy
        obtain ⟨pf, q'⟩ := y
        obtain ⟨f2, w2, _⟩ := fmtDec_ok [Q] rfl hy
        cases hd
        exact ⟨⟨w1, w2⟩, ⟨f1, f2⟩⟩
    · cases hd
      exact ⟨⟨w1, trivial⟩, ⟨f1, trivial⟩⟩

theorem readSized_ok {n : Nat} {d : B} {p : Nat} {x : B} {p' : Nat} (h : readSized n d p = .ok (x, p')) : x.length ≤ n := by
  unfold readSized readPy at h
  have hn : ¬ ((n : Int) < 0) := by omega
  rw [if_neg hn] at h
  split at h
  · cases h
  · simp only [Int.toNat_natCast] at h
    exact (readUpTo_ok h).1

/-- `ThumbnailResource`: `fp.read(size)` is lenient; the writer stores the length of what was read -/
theorem Thumbnail.decOK : DecOK Thumbnail.codec := by
  intro d p v p' hd
  simp only [Thumbnail.codec, Thumbnail.dec, bind, Except.bind] at hd
  split at hd
  · cases hd
  · rename_i x hx
    obtain ⟨h, q⟩ := x
    obtain ⟨f1, _, _⟩ := fmtDec_ok Thumbnail.headFmt rfl hx
    simp only at hd
    split at hd
    · cases hd
    · rename_i y hy
      obtain ⟨size, q1⟩ := y
      have hs := (readU_ok hy).1
      simp only at hd
      split at hd
      · cases hd
      · rename_i z hz
        obtain ⟨t, q2⟩ := z
        obtain ⟨f3, _, _⟩ := fmtDec_ok Thumbnail.tailFmt rfl hz
        simp only at hd
        split at hd
        · cases hd
        · rename_i u hu
          obtain ⟨data, q3⟩ := u
          have hl := readSized_ok hu
          cases hd
          refine ⟨trivial, f1, ?_, f3⟩
          simp only [FitsU] at hs ⊢
          omega

/-! ## unit 8: adjustments -/

theorem BrightnessContrast.decOK : DecOK BrightnessContrast.codec := rec_decOK _ rfl
theorem ColorBalance.decOK : DecOK ColorBalance.codec :=
  padded_decOK 4 (seq_decOK (rec_decOK _ rfl) (seq_decOK (rec_decOK _ rfl) (seq_decOK (rec_decOK _ rfl) (rec_decOK _ rfl))))
theorem ChannelMixer.decOK : DecOK ChannelMixer.codec :=
  checked_decOK (seq_decOK (rec_decOK _ rfl) (seq_decOK (rec_decOK _ rfl) tailBytes_decOK))
theorem Exposure.decOK (pad : Nat) : DecOK (Exposure.codec pad) := padded_decOK pad (rec_decOK _ rfl)
theorem HueSaturation.decOK : DecOK HueSaturation.codec :=
  padded_decOK 4 (seq_decOK (checked_decOK (rec_decOK _ rfl))
    (seq_decOK (rec_decOK _ rfl) (seq_decOK (rec_decOK _ rfl) (exactly_decOK 6 (seq_decOK (rec_decOK _ rfl) (rec_decOK _ rfl))))))
theorem LevelRecord.decOK : DecOK LevelRecord.codec := rec_decOK _ rfl
theorem SelectiveColor.decOK : DecOK SelectiveColor.codec :=
  checked_decOK (seq_decOK (rec_decOK _ rfl) (exactly_decOK 10 (rec_decOK _ rfl)))
theorem ColorStop.decOK : DecOK ColorStop.codec := rec_decOK _ rfl
theorem TransparencyStop.decOK : DecOK TransparencyStop.codec := rec_decOK _ rfl

/-- `Levels`: 29 records, the optional `Lvls` trailer; a trailer whose count is below 29 is re-written with the count 29 -/
theorem Levels.decOK : DecOK Levels.codec := by
  intro d p v p' hd
  simp only [Levels.codec, Levels.dec, bind, Except.bind] at hd
  ebind hd
  rename_i x hx
  obtain ⟨version, q⟩ := x
  have hv := (readU_ok hx).1
  simp only at hd
  ebind hd
  rename_i hv2
  ebind hd
  rename_i y hy
  obtain ⟨items, q1⟩ := y
  obtain ⟨hlen, hitems⟩ := readCount_ok hy
  obtain ⟨hfi, _⟩ := rows_ok (fs := LevelRecord.fmt) rfl hitems
  simp only at hd
  ebind hd
  rename_i z hz
  obtain ⟨x, q2⟩ := z
  simp only at hd
  ebind hd
  rename_i hmem
  cases hd
  split at hz
  · ebind hz
    rename_i a ha
    ebind hz
    rename_i b hb
    ebind hz
    ebind hz
    rename_i hsig hev
    ebind hz
    rename_i c hc
    ebind hz
    rename_i e he
    cases hz
    obtain ⟨hlen2, hitems2⟩ := readCount_ok he
    obtain ⟨hfi2, _⟩ := rows_ok (fs := LevelRecord.fmt) rfl hitems2
    have hcnt := (readU_ok hc).1
    have hevf := (readU_ok hb).1
    have ht : (items ++ e.fst).take 29 = items := List.take_left' hlen
    have hdr : (items ++ e.fst).drop 29 = e.fst := List.drop_left' hlen
    refine ⟨⟨hmem, hv2, by simp only [List.length_append]; omega, hev⟩, hv, ?_, hevf, ?_, ?_⟩
    · simp only [ht]; exact hfi
    · simp only [FitsU, List.length_append] at hcnt ⊢; omega
    · simp only [Levels.extraItems, hdr]; exact hfi2
  · cases hz
    have ht : items.take 29 = items := by rw [← hlen, List.take_length]
    exact ⟨⟨hmem, hv2, by simp only [hlen]; omega, hlen⟩, hv, by simp only [ht]; exact hfi, trivial⟩

theorem PhotoFilter.decOK : DecOK PhotoFilter.codec := by
  intro d p v p' hd
  simp only [PhotoFilter.codec, PhotoFilter.dec, bind, Except.bind] at hd
  ebind hd
  rename_i x hx
  obtain ⟨version, q⟩ := x
  have hv := (readU_ok hx).1
  simp only at hd
  ebind hd
  rename_i hmem
  ebind hd
  rename_i y hy
  obtain ⟨xc, q1⟩ := y
  simp only at hd
  ebind hd
  rename_i z hz
  obtain ⟨tail, q2⟩ := z
  obtain ⟨ft, _, _⟩ := fmtDec_ok PhotoFilter.tailFmt rfl hz
  cases hd
  split at hy
  · rename_i h3
    ebind hy
    rename_i r hr
    obtain ⟨fx, _, _⟩ := fmtDec_ok PhotoFilter.xyzFmt rfl hr
    cases hy
    exact ⟨⟨hmem, by simp only [if_pos h3]⟩, hv, by simp only [if_pos h3]; exact fx, ft⟩
  · rename_i h3
    ebind hy
    rename_i r hr
    obtain ⟨fx, _, _⟩ := fmtDec_ok PhotoFilter.colorFmt rfl hr
    cases hy
    exact ⟨⟨hmem, by simp only [if_neg h3]⟩, hv, by simp only [if_neg h3]; exact fx, ft⟩

theorem GradientMap.head_decOK : DecOK GradientMap.head := by
  intro d p v p' hd
  simp only [GradientMap.head, bind, Except.bind] at hd
  ebind hd
  rename_i x hx
  obtain ⟨h, q⟩ := x
  obtain ⟨fh, _, _⟩ := fmtDec_ok GradientMap.headFmt rfl hx
  simp only at hd
  ebind hd
  rename_i hmem
  split at hd
  · rename_i h3
    ebind hd
    rename_i y hy
    obtain ⟨m, q1⟩ := y
    cases hd
    exact ⟨⟨hmem, by simp only [if_pos h3]; exact (readN_ok hy).1⟩, fh⟩
  · rename_i h3
    cases hd
    exact ⟨⟨hmem, by simp only [if_neg h3]⟩, fh⟩

theorem GradientMap.decOK : DecOK GradientMap.codec :=
  padded_decOK 4 (checked_decOK
    (seq_decOK GradientMap.head_decOK (seq_decOK ustr_decOK (seq_decOK (counted_decOK 2 ColorStop.decOK)
      (seq_decOK (counted_decOK 2 TransparencyStop.decOK) (seq_decOK (checked_decOK (rec_decOK _ rfl))
        (seq_decOK (rec_decOK _ rfl) (seq_decOK (rec_decOK _ rfl) (seq_decOK (rec_decOK _ rfl)
          (seq_decOK (rec_decOK _ rfl) (rec_decOK _ rfl)))))))))))

/-! ### Curves -/

theorem fmtDecE_inv {fs : List FI} {d : B} {p : Nat} {r : Row} {p' : Nat} (h : fmtDecE fs d p = .ok (r, p')) :
    fmtDec fs d p = .ok (r, p') := by
  unfold fmtDecE at h
  split at h
  · rename_i x hx; cases h; exact hx
  · cases h

theorem readCountE_inv {α : Type} {item : RE α} {n : Nat} {d : B} {p : Nat} {xs : List α} {p' : Nat}
    (h : readCountE item n d p = .ok (xs, p')) : xs.length = n ∧ ∀ x ∈ xs, ∃ q q', item d q = .ok (x, q') := by
  induction n generalizing p xs p' with
  | zero => simp only [readCountE] at h; cases h; exact ⟨rfl, by intro x hx; cases hx⟩
  | succ n ih =>
    simp only [readCountE] at h
    ebind h
    rename_i a1 q1 ha
    ebind h
    rename_i as q2 hb
    cases h
    obtain ⟨h1, h2⟩ := ih hb
    refine ⟨by simp only [List.length_cons, h1], ?_⟩
    intro x hx
    simp only [List.mem_cons] at hx
    rcases hx with rfl | hx
    · exact ⟨p, q1, ha⟩
    · exact h2 x hx

theorem row2_shape {w1 w2 : Nat} {r : Row} (hf : fmtFits [U w1, U w2] r) :
    ∃ a b : Int, r = [.int a, .int b] ∧ (0 ≤ a ∧ a.toNat < 256 ^ w1) ∧ (0 ≤ b ∧ b.toNat < 256 ^ w2) := by
  match r, hf with
  | [.int a, .int b], hf => simp only [fmtFits, U, FT.Fits] at hf; exact ⟨a, b, rfl, hf.1, hf.2.1⟩
  | [], hf => simp only [fmtFits, U] at hf
  | [_], hf => simp only [fmtFits, U] at hf; exact absurd hf.2 id
  | .bytes _ :: _ :: _, hf => simp only [fmtFits, U, FT.Fits] at hf; exact absurd hf.1 id
  | .int _ :: .bytes _ :: _, hf => simp only [fmtFits, U, FT.Fits] at hf; exact absurd hf.2.1 id
  | _ :: _ :: _ :: _, hf => simp only [fmtFits, U] at hf; exact absurd hf.2.2 (by simp)

theorem pairsE_ok {d : B} {ps : List Row} (h : ∀ x ∈ ps, ∃ q q', fmtDecE pairFmt d q = .ok (x, q')) :
    listFits (fmtFits pairFmt) ps := by
  intro x hx
  obtain ⟨q, q', hq⟩ := h x hx
  exact (fmtDec_ok pairFmt rfl (fmtDecE_inv hq)).1

theorem CurvesExtraItem.decE_inv {isMap : Bool} {d : B} {p : Nat} {x : CurvesExtraItem} {p' : Nat}
    (h : CurvesExtraItem.decE isMap d p = .ok (x, p')) : x.Fits ∧ Curves.itemWF isMap x := by
  unfold CurvesExtraItem.decE at h
  split at h
  · rename_i hm
    ebind h
    rename_i c q hc
    ebind h
    rename_i r q1 hr
    cases h
    obtain ⟨f1, _, _⟩ := fmtDec_ok [U 2] rfl (fmtDecE_inv hc)
    obtain ⟨f2, _, _⟩ := fmtDec_ok mapFmt mapFmt_ok (fmtDecE_inv hr)
    exact ⟨⟨f1, f2⟩, hm⟩
  · rename_i hm
    ebind h
    rename_i hh q hc
    ebind h
    rename_i ps q1 hr
    cases h
    obtain ⟨f1, _, _⟩ := fmtDec_ok [U 2, U 2] rfl (fmtDecE_inv hc)
    obtain ⟨hl, hitems⟩ := readCountE_inv hr
    obtain ⟨a, b, rfl, ha, hb⟩ := row2_shape f1
    refine ⟨⟨?_, ?_, pairsE_ok hitems⟩, by simp only [Curves.itemWF]; simpa using hm⟩
    · simp only [List.take, fmtFits, FT.Fits, U]; exact ⟨ha, trivial⟩
    · simp only [Row.int, List.getD, FV.toInt, List.getElem?_cons_succ, List.getElem?_cons_zero, Option.getD_some] at hl
      simp only [FitsU, hl]
      exact hb.2

theorem CurvesExtraMarker.decE_inv {isMap : Bool} {d : B} {p : Nat} {m : CurvesExtraMarker} {p' : Nat}
    (h : CurvesExtraMarker.decE isMap d p = .ok (m, p')) :
    m.Fits ∧ m.version ∈ G3.curvesExtraVersions ∧ ∀ i ∈ m.items, Curves.itemWF isMap i := by
  unfold CurvesExtraMarker.decE at h
  ebind h
  rename_i hh q hc
  ebind h
  rename_i hsig
  ebind h
  rename_i items q1 hr
  ebind h
  rename_i hver
  cases h
  obtain ⟨f1, _, _⟩ := fmtDec_ok CurvesExtraMarker.hdrFmt rfl (fmtDecE_inv hc)
  obtain ⟨hl, hitems⟩ := readCountE_inv hr
  match hh, f1, hl, hver with
  | [s, .int v, .int c], f1, hl, hver =>
    simp only [CurvesExtraMarker.hdrFmt, fmtFits, SN, U, FT.Fits] at f1
    simp only [Row.int, List.getD, FV.toInt, List.getElem?_cons_succ, List.getElem?_cons_zero, Option.getD_some] at hl hver ⊢
    refine ⟨⟨f1.2.1.2, ?_, ?_⟩, hver, ?_⟩
    · simp only [FitsU, hl]; exact f1.2.2.1.2
    · intro i hi
      obtain ⟨q, q', hq⟩ := hitems i hi
      exact (CurvesExtraItem.decE_inv hq).1
    · intro i hi
      obtain ⟨q, q', hq⟩ := hitems i hi
      exact (CurvesExtraItem.decE_inv hq).2
  | [], f1, _, _ => simp only [CurvesExtraMarker.hdrFmt, fmtFits, SN] at f1
  | [_], f1, _, _ => simp only [CurvesExtraMarker.hdrFmt, fmtFits, SN, U] at f1; exact absurd f1.2 id
  | [_, _], f1, _, _ => simp only [CurvesExtraMarker.hdrFmt, fmtFits, SN, U] at f1; exact absurd f1.2.2 id
  | _ :: .bytes _ :: _ :: _, f1, _, _ => simp only [CurvesExtraMarker.hdrFmt, fmtFits, SN, U, FT.Fits] at f1; exact absurd f1.2.1 id
  | _ :: .int _ :: .bytes _ :: _, f1, _, _ => simp only [CurvesExtraMarker.hdrFmt, fmtFits, SN, U, FT.Fits] at f1; exact absurd f1.2.2.1 id
  | _ :: _ :: _ :: _ :: _, f1, _, _ => simp only [CurvesExtraMarker.hdrFmt, fmtFits, SN, U] at f1; exact absurd f1.2.2.2 (by simp)

theorem Curves.curveDec_ok {d : B} {p : Nat} {c : List Row} {p' : Nat} (h : Curves.curveDec d p = .ok (c, p')) :
    (FitsU 2 c.length ∧ listFits (fmtFits pairFmt) c) ∧ 2 ≤ c.length ∧ c.length ≤ 19 := by
  simp only [Curves.curveDec, bind, Except.bind] at h
  ebind h
  rename_i x hx
  obtain ⟨n, q⟩ := x
  simp only at h
  ebind h
  rename_i hn
  obtain ⟨hl, hitems⟩ := readCount_ok h
  obtain ⟨hf, _⟩ := rows_ok (fs := pairFmt) rfl hitems
  refine ⟨⟨?_, hf⟩, by omega, by omega⟩
  simp only [FitsU, hl]; omega

theorem Curves.dataDec_ok {isMap : Bool} {count : Nat} {d : B} {p : Nat} {x : CurveData} {p' : Nat}
    (h : Curves.dataDec isMap count d p = .ok (x, p')) :
    Curves.dataFits isMap x ∧ Curves.dataLen x = count ∧
      (∀ cs, x = .curves cs → ∀ c ∈ cs, 2 ≤ c.length ∧ c.length ≤ 19) := by
  unfold Curves.dataDec at h
  split at h
  · rename_i hm
    ebind h
    rename_i ms q hr
    cases h
    obtain ⟨hl, hitems⟩ := readCount_ok hr
    obtain ⟨hf, _⟩ := rows_ok (fs := mapFmt) mapFmt_ok hitems
    exact ⟨⟨hm, hf⟩, hl, fun cs hcs => by cases hcs⟩
  · rename_i hm
    ebind h
    rename_i cs q hr
    cases h
    obtain ⟨hl, hitems⟩ := readCount_ok hr
    refine ⟨⟨by simpa using hm, ?_⟩, hl, ?_⟩
    · intro c hc
      obtain ⟨q, q', hq⟩ := hitems c hc
      exact (Curves.curveDec_ok hq).1
    · intro cs' hcs c hc
      cases hcs
      obtain ⟨q, q', hq⟩ := hitems c hc
      exact (Curves.curveDec_ok hq).2

/-- `Curves`: the flag byte is read as a truth value (any non-zero byte, re-written as 1); for version 1 the optional extra
marker is kept only when its read does not run out of data (otherwise the bytes of the partial marker are dropped) -/
theorem Curves.decOK : DecOK Curves.codec := by
  intro d p v p' hd
  simp only [Curves.codec, Curves.dec, bind, Except.bind] at hd
  ebind hd
  rename_i x hx
  obtain ⟨mb, q⟩ := x
  simp only at hd
  ebind hd
  rename_i y hy
  obtain ⟨version, q1⟩ := y
  simp only at hd
  ebind hd
  rename_i z hz
  obtain ⟨countMap, q2⟩ := z
  simp only at hd
  ebind hd
  rename_i hver
  ebind hd
  rename_i u hu
  obtain ⟨data, q3⟩ := u
  simp only at hd
  ebind hd
  rename_i w hw
  obtain ⟨extra, q4⟩ := w
  cases hd
  obtain ⟨hdf, hdl, hdc0⟩ := Curves.dataDec_ok hu
  have hdc : (match (generalizing := false) data with
      | .maps _ => True
      | .curves cs => ∀ c ∈ cs, 2 ≤ c.length ∧ c.length ≤ 19) := by
    cases data with
    | maps ms => trivial
    | curves cs => exact hdc0 cs rfl
  have hvf := (readU_ok hy).1
  have hcf := (readU_ok hz).1
  unfold Curves.extraDec at hw
  split at hw
  · rename_i hv1
    split at hw
    · rename_i m q5 hm
      cases hw
      obtain ⟨mf, mv, mi⟩ := CurvesExtraMarker.decE_inv hm
      refine ⟨⟨hver, hdl, hdc, hv1, mv, mi⟩, hvf, hcf, hdf, mf⟩
    · cases hw
      exact ⟨⟨hver, hdl, hdc, trivial⟩, hvf, hcf, hdf, trivial⟩
    · cases hw
  · cases hw
    exact ⟨⟨hver, hdl, hdc, trivial⟩, hvf, hcf, hdf, trivial⟩

/-! ## unit 9: vector data -/

theorem PItem.lists_of_mem : ∀ (xs : List PItem), (∀ x ∈ xs, x.WF ∧ x.Fits) → PItem.WFList xs ∧ PItem.FitsList xs
  | [], _ => ⟨by simp only [PItem.WFList], by simp only [PItem.FitsList]⟩
  | x :: xs, h => by
    obtain ⟨a, b⟩ := PItem.lists_of_mem xs (fun y hy => h y (List.mem_cons_of_mem _ hy))
    obtain ⟨c, e⟩ := h x (List.mem_cons_self)
    exact ⟨by simp only [PItem.WFList]; exact ⟨c, a⟩, by simp only [PItem.FitsList]; exact ⟨e, b⟩⟩

/-- a path record, whatever the nesting: the selector read is the selector written, the count of a subpath is the number of
its records -/
theorem PItem.decFuel_ok : ∀ (fuel : Nat) {d : B} {p : Nat} {x : PItem} {p' : Nat},
    PItem.decFuel fuel d p = .ok (x, p') → x.WF ∧ x.Fits
  | 0, _, _, _, _, h => by simp only [PItem.decFuel] at h; cases h
  | fuel + 1, d, p, x, p', h => by
    simp only [PItem.decFuel, bind, Except.bind] at h
    ebind h
    rename_i s hs
    obtain ⟨sel, q⟩ := s
    have hsel := (readU_ok hs).1
    simp only at h
    split at h
    · cases h
    · -- fill
      ebind h
      cases h
      exact ⟨by simp only [PItem.WF], by simp only [PItem.Fits]⟩
    · -- initial
      ebind h
      rename_i r hr
      cases h
      obtain ⟨f1, _, _⟩ := fmtDec_ok initFmt rfl hr
      exact ⟨by simp only [PItem.WF], by simp only [PItem.Fits]; exact f1⟩
    · -- clipboard
      ebind h
      rename_i r hr
      cases h
      obtain ⟨f1, _, _⟩ := fmtDec_ok clipFmt rfl hr
      exact ⟨by simp only [PItem.WF], by simp only [PItem.Fits]; exact f1⟩
    · -- knot
      rename_i hk
      ebind h
      rename_i r hr
      cases h
      obtain ⟨f1, _, _⟩ := fmtDec_ok knotFmt rfl hr
      exact ⟨by simp only [PItem.WF]; exact hk, by simp only [PItem.Fits]; exact ⟨hsel, f1⟩⟩
    · -- subpath
      rename_i hk
      ebind h
      rename_i n hn
      ebind h
      rename_i hd hh
      ebind h
      rename_i it hit
      cases h
      obtain ⟨f1, w1, _⟩ := fmtDec_ok subFmt rfl hh
      obtain ⟨hl, hitems⟩ := readCount_ok hit
      have hall : ∀ y ∈ it.fst, y.WF ∧ y.Fits := by
        intro y hy
        obtain ⟨q1, q2, hq⟩ := hitems y hy
        exact PItem.decFuel_ok fuel hq
      obtain ⟨wl, fl⟩ := PItem.lists_of_mem _ hall
      have hcnt : FitsU 2 it.fst.length := by simp only [FitsU, hl]; exact (readU_ok hn).1
      exact ⟨by simp only [PItem.WF]; exact ⟨hk, w1, wl⟩, by simp only [PItem.Fits]; exact ⟨hsel, hcnt, f1, fl⟩⟩

theorem PItem.decOK : DecOK PItem.codec := fun d p v p' hd =>
  PItem.decFuel_ok (d.length + 1) (show PItem.decFuel (d.length + 1) d p = .ok (v, p') from hd)

theorem Path.items_ok {d : B} {p : Nat} {xs : List PItem} {p' : Nat}
    (hd : readWhile (isReadable 26) (optItem PItem.dec) d p = .ok (xs, p')) : PItem.WFList xs ∧ PItem.FitsList xs := by
  apply PItem.lists_of_mem
  intro x hx
  obtain ⟨q, q', _, hq⟩ := readWhile_ok hd x hx
  exact PItem.decOK d q x q' (optItem_some hq)

/-- `Path` as its callers use it (padding 1 or 4) -/
theorem Path.decOK (pad : Nat) (hp : 0 < pad ∧ pad ≤ 26) : DecOK (Path.codec pad) := by
  intro d p xs p' hd
  obtain ⟨a, b⟩ := Path.items_ok (show readWhile (isReadable 26) (optItem PItem.dec) d p = .ok (xs, p') from hd)
  exact ⟨⟨a, hp⟩, b⟩

theorem VectorMaskSetting.decOK : DecOK VectorMaskSetting.codec := by
  intro d p v p' hd
  simp only [VectorMaskSetting.codec, VectorMaskSetting.dec, bind, Except.bind] at hd
  ebind hd
  rename_i x hx
  obtain ⟨h, q⟩ := x
  obtain ⟨f1, _, _⟩ := fmtDec_ok VectorMaskSetting.headFmt rfl hx
  simp only at hd
  ebind hd
  rename_i h3
  ebind hd
  rename_i y hy
  obtain ⟨path, q1⟩ := y
  cases hd
  obtain ⟨a, b⟩ := Path.items_ok (show readWhile (isReadable 26) (optItem PItem.dec) d q = .ok (path, q1) from hy)
  exact ⟨⟨h3, a⟩, f1, b⟩

/-! ## unit 10: filter effects -/

theorem FEChannel.decOK : DecOK FEChannel.codec := by
  intro d p v p' hd
  simp only [FEChannel.codec, FEChannel.dec, bind, Except.bind] at hd
  ebind hd
  rename_i x hx
  obtain ⟨iw, q⟩ := x
  have hiw := (readU_ok hx).1
  simp only at hd
  split at hd
  · rename_i h0
    cases hd
    exact ⟨fun _ => rfl, hiw, fun hne => absurd h0 hne⟩
  · rename_i h0
    ebind hd
    rename_i y hy
    obtain ⟨data, q1⟩ := y
    have hlen := readLenBlock_ok hy
    simp only at hd
    split at hd
    · cases hd
      exact ⟨fun _ => rfl, hiw, fun _ => trivial⟩
    · ebind hd
      rename_i z hz
      obtain ⟨c, q2⟩ := z
      obtain ⟨hc, _, h2⟩ := readU_ok hz
      cases hd
      refine ⟨fun h => absurd h h0, hiw, fun _ => ⟨hc, ?_⟩⟩
      simp only [FitsU, List.length_drop] at hlen ⊢
      omega

theorem FEExtra.decOK : DecOK FEExtra.codec := by
  intro d p v p' hd
  simp only [FEExtra.codec, FEExtra.dec, bind, Except.bind] at hd
  ebind hd
  rename_i x hx
  obtain ⟨iw, q⟩ := x
  have hiw := (readU_ok hx).1
  simp only at hd
  split at hd
  · rename_i h0
    cases hd
    exact ⟨fun _ => ⟨rfl, rfl, rfl⟩, hiw, fun hne => absurd h0 hne⟩
  · rename_i h0
    ebind hd
    rename_i r hr
    obtain ⟨rect, q0⟩ := r
    obtain ⟨fr, _, _⟩ := fmtDec_ok s4x4 rfl hr
    simp only at hd
    ebind hd
    rename_i y hy
    obtain ⟨data, q1⟩ := y
    have hlen := readLenBlock_ok hy
    simp only at hd
    ebind hd
    rename_i z hz
    obtain ⟨c, q2⟩ := z
    obtain ⟨hc, _, h2⟩ := readU_ok hz
    cases hd
    refine ⟨fun h => absurd h h0, hiw, fun _ => ⟨fr, hc, ?_⟩⟩
    simp only [FitsU, List.length_drop] at hlen ⊢
    omega

theorem FEBody.decOK : DecOK FEBody.codec := by
  intro d p v p' hd
  simp only [FEBody.codec, bind, Except.bind] at hd
  ebind hd
  rename_i x hx
  obtain ⟨rect, q⟩ := x
  obtain ⟨fr, _, _⟩ := fmtDec_ok s4x4 rfl hx
  simp only at hd
  ebind hd
  rename_i y hy
  obtain ⟨dm, q1⟩ := y
  obtain ⟨fd, _, _⟩ := fmtDec_ok [U 4, U 4] rfl hy
  simp only at hd
  ebind hd
  rename_i z hz
  obtain ⟨chs, q2⟩ := z
  cases hd
  obtain ⟨hl, hitems⟩ := readCount_ok hz
  refine ⟨⟨hl, fun c hc => ?_⟩, fr, fd, fun c hc => ?_⟩
  · obtain ⟨a, b, hab⟩ := hitems c hc; exact (FEChannel.decOK d a c b hab).1
  · obtain ⟨a, b, hab⟩ := hitems c hc; exact (FEChannel.decOK d a c b hab).2

/-- the side condition of the filter effects: the re-encoded body of every `Q` length block fits its 8-byte length field -/
def FilterEffect.LenFits (v : FilterEffect) : Prop := FitsU 8 (FEBody.codec.encT v.2.2.1).length

theorem FilterEffect.decOKIf : DecOKIf FilterEffect.codec FilterEffect.LenFits :=
  (seq_decOKIf ((checked_decOK (pascal_decOK 1 1)).toIf (fun _ => True))
    (seq_decOKIf ((checked_decOK (rec_decOK _ rfl)).toIf (fun _ => True))
      (seq_decOKIf (blocked_decOKIf 8 1 (FEBody.decOK.toIf (fun _ => True))) ((optTail_decOK FEExtra.decOK).toIf (fun _ => True))))).mono
    (fun _ h => ⟨trivial, trivial, ⟨trivial, h⟩, trivial⟩)

def FilterEffects.LenFits (v : Row × List FilterEffect) : Prop :=
  ∀ e ∈ v.2, FilterEffect.LenFits e ∧ FitsU 8 (FilterEffect.codec.encT e).length

theorem FilterEffects.decOKIf : DecOKIf FilterEffects.codec FilterEffects.LenFits :=
  (seq_decOKIf ((checked_decOK (rec_decOK _ rfl)).toIf (fun _ => True))
    (whileR_decOKIf 8 1 (blocked_decOKIf 8 4 FilterEffect.decOKIf))).mono (fun _ h => ⟨trivial, h⟩)

end PsdVerif.Payload3
