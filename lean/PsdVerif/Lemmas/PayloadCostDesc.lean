/-
C06 — the counting twins of Model/PayloadCostDesc.lean (the payload readers that call the descriptor reader) erase to
the readers of the payload models and obey the cost judgement with the constants recorded in their `CC.hand`.

`SliceV6` / `SlicesV6` / `Slices` do NOT obey it: see the last section.
-/
import PsdVerif.Model.PayloadCostDesc
import PsdVerif.Lemmas.DescriptorCost
import PsdVerif.Lemmas.PayloadCostSimple

namespace PsdVerif.PayloadCost
open PsdVerif PsdVerif.Codec PsdVerif.PsdCost PsdVerif.Payload PsdVerif.Payload3 PsdVerif.Safe PsdVerif.SafeCost

/-- a general `if`: both branches are runs -/
macro "cite" : tactic => `(tactic| refine Cost.ite (fun _ => ?_) (fun _ => ?_))

/-! ### nested runs -/

/-- `with io.BytesIO(data) as f: v = inner(f)`, the value post-processed without a read: at most
`(aᵢ + 1) · len(data) + bᵢ + 1`, and no loop ran out of fuel -/
theorem nested_val {α β : Type} {ai bi ki : Nat} {data : B} {inner : CE (β × Nat)} {f : β × Nat → CE α}
    (hin : Cost ai bi ki data 0 inner) (hf : ∀ y, (f y).2.w = 0 ∧ (f y).1 ≠ .error .other) :
    (enterBlock data >>= fun _ => inner >>= f).2.w ≤ (ai + 1) * data.length + (bi + 1) ∧
    (enterBlock data >>= fun _ => inner >>= f).1 ≠ .error .other := by
  have hw := nested_w_le hin
  have hne := hin.ne_other
  have e1 : (ai + 1) * data.length = ai * data.length + data.length := by rw [Nat.add_mul, Nat.one_mul]
  rw [bind_ok' (enterBlock_fst data)]
  cases h : inner.1 with
  | error e =>
    rw [bind_err' h]
    refine ⟨?_, fun h' => hne (by rw [h]; exact congrArg _ (Except.error.inj h'))⟩
    show ((enterBlock data).2 + inner.2).w ≤ _
    rw [w_add, enterBlock_w]
    omega
  | ok y =>
    rw [bind_ok' h]
    refine ⟨?_, (hf y).2⟩
    show ((enterBlock data).2 + (inner.2 + (f y).2)).w ≤ _
    rw [w_add, w_add, enterBlock_w, (hf y).1]
    omega

/-- the continuation after a block was read: enter it, run `inner` on it at cursor 0, go on with `f` -/
theorem Cost.enter {α β : Type} {ai bi ki a b k : Nat} {d data : B} {q : Nat} {inner : CE (β × Nat)}
    {f : β × Nat → CE (α × Nat)} (hin : Cost ai bi ki data 0 inner) (hf : ∀ y, inner.1 = .ok y → Cost a b k d q (f y)) :
    Cost a ((1 + data.length) + ((ai * data.length + bi) + b)) k d q (enterBlock data >>= fun _ => inner >>= f) :=
  Cost.step (Nat.le_of_eq (enterBlock_w data)) (by intro h; cases h) fun _ _ =>
    Cost.step (nested_w_le hin) hin.ne_other hf

/-! ## tagged_blocks.py: MetadataSettings / MetadataSetting -/

theorem MetadataSetting.typedDataC_fst (tb : Descriptor.Tables) (key data : B) :
    (MetadataSetting.typedDataC tb key data).1 = MetadataSetting.typedData tb key data := by
  unfold MetadataSetting.typedDataC MetadataSetting.typedData
  split
  · refine erase_ok (enterBlock_fst data) ?_
    rw [bind_fst, readUC_fst]
    cases readU 4 data 0 with
    | error e => rfl
    | ok y => obtain ⟨n, q⟩ := y; rfl
  · split
    · refine erase_ok (enterBlock_fst data) ?_
      rw [bind_fst, DescriptorCost.Block.decC_fst]
      cases Descriptor.Block.dec tb data 0 with
      | error e => rfl
      | ok y => obtain ⟨blk, q⟩ := y; rfl
    · rfl

/-- the typed data costs at most five units per byte of the block (it is copied, then parsed as a descriptor) -/
theorem MetadataSetting.typedDataC_w (tb : Descriptor.Tables) (key data : B) :
    (MetadataSetting.typedDataC tb key data).2.w ≤ 5 * data.length + 8 ∧
    (MetadataSetting.typedDataC tb key data).1 ≠ .error .other := by
  unfold MetadataSetting.typedDataC
  split
  · have h := nested_val (f := fun x => match x with | (n, _) => (CE.ok (MetaData.int n) : CE MetaData))
      (readUC_cost 4 (d := data) (p := 0)) (fun ⟨_, _⟩ => ⟨rfl, by intro h; cases h⟩)
    exact ⟨Nat.le_trans h.1 (by omega), h.2⟩
  · split
    · have h := nested_val (f := fun x => match x with | (blk, _) => (CE.ok (MetaData.desc blk) : CE MetaData))
        (DescriptorCost.Block.decC_cost tb data 0 (Nat.zero_le _)) (fun ⟨_, _⟩ => ⟨rfl, by intro h; cases h⟩)
      exact ⟨Nat.le_trans h.1 (by omega), h.2⟩
    · exact ⟨Nat.zero_le _, by intro h; cases h⟩

theorem MetadataSetting.decC_fst (tb : Descriptor.Tables) (d : B) (p : Nat) :
    (MetadataSetting.decC tb d p).1 = MetadataSetting.dec tb d p := by
  unfold MetadataSetting.decC MetadataSetting.dec
  refine erase_bind (readNC_fst ..) fun ⟨sig, p⟩ => ?_
  dsimp only
  split
  · refine erase_bind (readNC_fst ..) fun ⟨key, p⟩ => ?_
    refine erase_bind (readBoolC_fst ..) fun ⟨cos, p⟩ => ?_
    refine erase_bind (readSkipC_fst ..) fun ⟨_, p⟩ => ?_
    refine erase_bind (readLenBlockC_fst ..) fun ⟨data, p⟩ => ?_
    refine erase_bind (MetadataSetting.typedDataC_fst tb key data) fun x => ?_
    rfl
  · rfl

theorem MetadataSetting.decC_cost (tb : Descriptor.Tables) : CostR 6 16 16 (MetadataSetting.decC tb) := by
  intro d p hp
  apply Cost.mono
  case h =>
    unfold MetadataSetting.decC
    cbind (readNC_cost 4)
    cif
    apply Cost.bind (readNC_cost 4)
    intro key p2 _ _
    dsimp only
    cbind readBoolC_cost
    cbind (readSkipC_cost 3)
    apply Cost.bind_credit (c := 5) (a₂ := 0) (b₂ := 8) (k₂ := 0) (readLenBlockC_cost 0 4 1)
    intro data p5 h5 hp5
    dsimp only
    have hl := readLenBlockC_ok h5
    have hw := MetadataSetting.typedDataC_w tb key data
    exact (Cost.step (a := 0) (b := 0) (k := 0) hw.1 hw.2 fun x _ => Cost.ok _ hp5).mono
      (Nat.le_refl _) (by omega) (Nat.le_refl _)
  cside

theorem MetadataSetting.cc_c (tb : Descriptor.Tables) : (MetadataSetting.cc tb).c = MetadataSetting.codec tb := rfl
theorem MetadataSetting.cc_sound (tb : Descriptor.Tables) : (MetadataSetting.cc tb).Sound :=
  CC.hand_sound (MetadataSetting.decC_fst tb) (MetadataSetting.decC_cost tb)

theorem MetadataSettings.decC_fst (tb : Descriptor.Tables) (d : B) (p : Nat) :
    (MetadataSettings.decC tb d p).1 = (MetadataSettings.codec tb).dec d p := by
  unfold MetadataSettings.decC MetadataSettings.codec
  dsimp only
  refine erase_bind (readUC_fst ..) fun ⟨n, p⟩ => ?_
  exact readCountC_fst (MetadataSetting.decC_fst tb) n d p

/-- an item that succeeds consumed ≥ 16 bytes: the bound does not mention the count -/
theorem MetadataSettings.decC_cost (tb : Descriptor.Tables) : CostR 23 18 4 (MetadataSettings.decC tb) := by
  intro d p hp
  apply Cost.mono
  case h =>
    unfold MetadataSettings.decC
    cbind (readUC_cost 4)
    exact readCountC_cost (fun q hq => MetadataSetting.decC_cost tb d q hq) (by decide) _ _ (by assumption)
  cside

theorem MetadataSettings.cc_c (tb : Descriptor.Tables) : (MetadataSettings.cc tb).c = MetadataSettings.codec tb := rfl
theorem MetadataSettings.cc_sound (tb : Descriptor.Tables) : (MetadataSettings.cc tb).Sound :=
  CC.hand_sound (MetadataSettings.decC_fst tb) (MetadataSettings.decC_cost tb)

/-! ## tagged_blocks.py: the classes that wrap descriptor blocks -/

theorem SmartObjectLayerData.decC_fst (tb : Descriptor.Tables) (d : B) (p : Nat) :
    (SmartObjectLayerData.decC tb d p).1 = SmartObjectLayerData.dec tb d p := by
  unfold SmartObjectLayerData.decC SmartObjectLayerData.dec
  refine erase_bind (readNC_fst ..) fun ⟨kind, p⟩ => ?_
  refine erase_bind (readUC_fst ..) fun ⟨version, p⟩ => ?_
  refine erase_bind (DescriptorCost.Block.decC_fst ..) fun ⟨data, p⟩ => ?_
  dsimp only
  split <;> rfl

theorem SmartObjectLayerData.decC_cost (tb : Descriptor.Tables) : CostR 4 9 24 (SmartObjectLayerData.decC tb) := by
  intro d p hp
  apply Cost.mono
  case h =>
    unfold SmartObjectLayerData.decC
    cbind (readNC_cost 4)
    cbind (readUC_cost 4)
    cbind (DescriptorCost.Block.decC_cost tb d _ (by assumption))
    cif
    cdone
  cside

theorem SmartObjectLayerData.cc_c (tb : Descriptor.Tables) (pad : Nat) :
    (SmartObjectLayerData.cc tb pad).c = SmartObjectLayerData.codec tb pad := rfl
theorem SmartObjectLayerData.cc_sound (tb : Descriptor.Tables) (pad : Nat) : (SmartObjectLayerData.cc tb pad).Sound :=
  CC.hand_sound (SmartObjectLayerData.decC_fst tb) (SmartObjectLayerData.decC_cost tb)

theorem PlacedLayerData.decC_fst (tb : Descriptor.Tables) (d : B) (p : Nat) :
    (PlacedLayerData.decC tb d p).1 = PlacedLayerData.dec tb d p := by
  unfold PlacedLayerData.decC PlacedLayerData.dec
  refine erase_bind (readNC_fst ..) fun ⟨kind, p⟩ => ?_
  refine erase_bind (readUC_fst ..) fun ⟨version, p⟩ => ?_
  refine erase_bind (readPascalC_fst ..) fun ⟨uuid, p⟩ => ?_
  refine erase_bind (readUC_fst ..) fun ⟨page, p⟩ => ?_
  refine erase_bind (readUC_fst ..) fun ⟨total, p⟩ => ?_
  refine erase_bind (readUC_fst ..) fun ⟨aa, p⟩ => ?_
  refine erase_bind (readUC_fst ..) fun ⟨lt, p⟩ => ?_
  refine erase_bind (readCountC_fst readF64C_fst ..) fun ⟨tr, p⟩ => ?_
  refine erase_bind (DescriptorCost.Block2.decC_fst ..) fun ⟨warp, p⟩ => ?_
  dsimp only
  split <;> rfl

theorem PlacedLayerData.decC_cost (tb : Descriptor.Tables) : CostR 4 33 109 (PlacedLayerData.decC tb) := by
  intro d p hp
  apply Cost.mono
  case h =>
    unfold PlacedLayerData.decC
    cbind (readNC_cost 4)
    cbind (readUC_cost 4)
    cbind (readPascalC_cost 1)
    cbind (readUC_cost 4)
    cbind (readUC_cost 4)
    cbind (readUC_cost 4)
    cbind (readUC_cost 4)
    cbind (readCountC_cost_fixed (fun q hq => readF64C_cost) 8 _ (by assumption))
    cbind (DescriptorCost.Block2.decC_cost tb d _ (by assumption))
    cif
    cdone
  cside

theorem PlacedLayerData.cc_c (tb : Descriptor.Tables) (pad : Nat) :
    (PlacedLayerData.cc tb pad).c = PlacedLayerData.codec tb pad := rfl
theorem PlacedLayerData.cc_sound (tb : Descriptor.Tables) (pad : Nat) : (PlacedLayerData.cc tb pad).Sound :=
  CC.hand_sound (PlacedLayerData.decC_fst tb) (PlacedLayerData.decC_cost tb)

theorem TypeToolObjectSetting.decC_fst (tb : Descriptor.Tables) (d : B) (p : Nat) :
    (TypeToolObjectSetting.decC tb d p).1 = TypeToolObjectSetting.dec tb d p := by
  unfold TypeToolObjectSetting.decC TypeToolObjectSetting.dec
  refine erase_bind (readUC_fst ..) fun ⟨version, p⟩ => ?_
  refine erase_bind (readCountC_fst readF64C_fst ..) fun ⟨tr, p⟩ => ?_
  refine erase_bind (readUC_fst ..) fun ⟨tv, p⟩ => ?_
  refine erase_bind (DescriptorCost.Block.decC_fst ..) fun ⟨text, p⟩ => ?_
  refine erase_bind (readUC_fst ..) fun ⟨wv, p⟩ => ?_
  refine erase_bind (DescriptorCost.Block.decC_fst ..) fun ⟨warp, p⟩ => ?_
  refine erase_bind (readI32C_fst ..) fun ⟨l, p⟩ => ?_
  refine erase_bind (readI32C_fst ..) fun ⟨t, p⟩ => ?_
  refine erase_bind (readI32C_fst ..) fun ⟨r, p⟩ => ?_
  refine erase_bind (readI32C_fst ..) fun ⟨b, p⟩ => ?_
  dsimp only
  split <;> rfl

theorem TypeToolObjectSetting.decC_cost (tb : Descriptor.Tables) : CostR 4 33 102 (TypeToolObjectSetting.decC tb) := by
  intro d p hp
  apply Cost.mono
  case h =>
    unfold TypeToolObjectSetting.decC
    cbind (readUC_cost 2)
    cbind (readCountC_cost_fixed (fun q hq => readF64C_cost) 6 _ (by assumption))
    cbind (readUC_cost 2)
    cbind (DescriptorCost.Block.decC_cost tb d _ (by assumption))
    cbind (readUC_cost 2)
    cbind (DescriptorCost.Block.decC_cost tb d _ (by assumption))
    cbind readI32C_cost
    cbind readI32C_cost
    cbind readI32C_cost
    cbind readI32C_cost
    cif
    cdone
  cside

theorem TypeToolObjectSetting.cc_c (tb : Descriptor.Tables) (pad : Nat) :
    (TypeToolObjectSetting.cc tb pad).c = TypeToolObjectSetting.codec tb pad := rfl
theorem TypeToolObjectSetting.cc_sound (tb : Descriptor.Tables) (pad : Nat) : (TypeToolObjectSetting.cc tb pad).Sound :=
  CC.hand_sound (TypeToolObjectSetting.decC_fst tb) (TypeToolObjectSetting.decC_cost tb)

/-! ## linked_layer.py -/

theorem LinkedLayer.readTsC_fst (d : B) (p : Nat) : (LinkedLayer.readTsC d p).1 = LinkedLayer.readTs d p := by
  unfold LinkedLayer.readTsC LinkedLayer.readTs
  refine erase_bind (readUC_fst ..) fun ⟨y, p⟩ => ?_
  refine erase_bind (readCountC_fst (readUC_fst 1) ..) fun ⟨fs, p⟩ => ?_
  refine erase_bind (readF64C_fst ..) fun ⟨s, p⟩ => ?_
  rfl

theorem LinkedLayer.readTsC_cost : CostR 1 10 16 LinkedLayer.readTsC := by
  intro d p hp
  apply Cost.mono
  case h =>
    unfold LinkedLayer.readTsC
    cbind (readUC_cost 4)
    cbind (readCountC_cost_fixed (fun q hq => readUC_cost 1) 4 _ (by assumption))
    cbind readF64C_cost
    cdone
  cside

theorem LinkedLayer.kindDecC_fst (tb : Descriptor.Tables) (kind : B) (version datasize : Nat) (d : B) (p : Nat) :
    (LinkedLayer.kindDecC tb kind version datasize d p).1 = LinkedLayer.kindDec tb kind version datasize d p := by
  unfold LinkedLayer.kindDecC LinkedLayer.kindDec
  refine erase_bind ?_ fun ⟨k, p'⟩ => ?_
  · split
    · refine erase_bind (DescriptorCost.Block.decC_fst ..) fun ⟨lf, p⟩ => ?_
      refine erase_bind ?_ fun ⟨ts, p⟩ => ?_
      · split
        · exact optItemC_fst LinkedLayer.readTsC_fst d _
        · rfl
      refine erase_bind (readUC_fst ..) fun ⟨fsz, p⟩ => ?_
      refine erase_bind ?_ fun ⟨dt, p⟩ => ?_
      · split
        · exact optItemC_fst (readSizedC_fst datasize) d _
        · rfl
      rfl
    · split
      · refine erase_bind (readSkipC_fst ..) fun ⟨_, p⟩ => ?_
        rfl
      · rfl
  · dsimp only
    split
    · refine erase_bind (readSizedC_fst ..) fun ⟨dt, p⟩ => ?_
      dsimp only
      split <;> rfl
    · rfl

theorem LinkedLayer.kindDecC_cost (tb : Descriptor.Tables) (kind : B) (version datasize : Nat) :
    CostR 4 20 0 (LinkedLayer.kindDecC tb kind version datasize) := by
  intro d p hp
  apply Cost.mono
  case h =>
    unfold LinkedLayer.kindDecC
    apply Cost.bind
    · cite
      · cbind (DescriptorCost.Block.decC_cost tb d _ (by assumption))
        apply Cost.bind
        · cite
          · exact optItemC_cost (LinkedLayer.readTsC_cost d _ (by assumption))
          · cdone
        intro _ _ _ _
        dsimp only
        cbind (readUC_cost 8)
        apply Cost.bind
        · cite
          · exact optItemC_cost (readSizedC_cost datasize)
          · cdone
        intro _ _ _ _
        dsimp only
        cdone
      · cite
        · cbind (readSkipC_cost 8)
          cdone
        · cdone
    · intro k p' _ _
      dsimp only
      cite
      · cbind (readSizedC_cost datasize)
        cif
        cdone
      · cdone
  cside

theorem LinkedLayer.tailDecC_fst (version : Nat) (d : B) (p : Nat) :
    (LinkedLayer.tailDecC version d p).1 = LinkedLayer.tailDec version d p := by
  unfold LinkedLayer.tailDecC LinkedLayer.tailDec
  refine erase_bind ?_ fun ⟨cid, p⟩ => ?_
  · split
    · exact optItemC_fst (readUStrC_fst 1) d _
    · rfl
  refine erase_bind ?_ fun ⟨mt, p⟩ => ?_
  · split
    · exact optItemC_fst readF64C_fst d _
    · rfl
  refine erase_bind ?_ fun ⟨ls, p⟩ => ?_
  · split
    · exact optItemC_fst (readUC_fst 1) d _
    · rfl
  rfl

theorem LinkedLayer.tailDecC_cost (version : Nat) : CostR 1 5 0 (LinkedLayer.tailDecC version) := by
  intro d p hp
  apply Cost.mono
  case h =>
    unfold LinkedLayer.tailDecC
    apply Cost.bind
    · cite
      · exact optItemC_cost (readUStrC_cost 1)
      · cdone
    intro _ _ _ _
    dsimp only
    apply Cost.bind
    · cite
      · exact optItemC_cost readF64C_cost
      · cdone
    intro _ _ _ _
    dsimp only
    apply Cost.bind
    · cite
      · exact optItemC_cost (readUC_cost 1)
      · cdone
    intro _ _ _ _
    dsimp only
    cdone
  cside

theorem LinkedLayer.decC_fst (tb : Descriptor.Tables) (d : B) (p : Nat) :
    (LinkedLayer.decC tb d p).1 = LinkedLayer.dec tb d p := by
  unfold LinkedLayer.decC LinkedLayer.dec
  refine erase_bind (readNC_fst ..) fun ⟨kind, p⟩ => ?_
  dsimp only
  split
  · refine erase_bind (readUC_fst ..) fun ⟨version, p⟩ => ?_
    dsimp only
    split
    · refine erase_bind (readPascalC_fst ..) fun ⟨uuid, p⟩ => ?_
      refine erase_bind (readUStrC_fst ..) fun ⟨filename, p⟩ => ?_
      refine erase_bind (readNC_fst ..) fun ⟨filetype, p⟩ => ?_
      refine erase_bind (readNC_fst ..) fun ⟨creator, p⟩ => ?_
      refine erase_bind (readUC_fst ..) fun ⟨datasize, p⟩ => ?_
      refine erase_bind (readUC_fst ..) fun ⟨flag, p⟩ => ?_
      refine erase_bind ?_ fun ⟨openFile, p⟩ => ?_
      · split
        · exact optItemC_fst (DescriptorCost.Block.decC_fst tb) d _
        · rfl
      refine erase_bind (LinkedLayer.kindDecC_fst ..) fun ⟨k, p⟩ => ?_
      refine erase_bind (LinkedLayer.tailDecC_fst ..) fun ⟨⟨cid, mt, ls⟩, p⟩ => ?_
      refine erase_bind ?_ fun ⟨data, p⟩ => ?_
      · split
        · exact optItemC_fst (readSizedC_fst datasize) d _
        · rfl
      rfl
    · rfl
  · rfl

theorem LinkedLayer.decC_cost (tb : Descriptor.Tables) : CostR 4 45 30 (LinkedLayer.decC tb) := by
  intro d p hp
  apply Cost.mono
  case h =>
    unfold LinkedLayer.decC
    cbind (readNC_cost 4)
    cif
    cbind (readUC_cost 4)
    cif
    cbind (readPascalC_cost 1)
    cbind (readUStrC_cost 1)
    cbind (readNC_cost 4)
    cbind (readNC_cost 4)
    cbind (readUC_cost 8)
    cbind (readUC_cost 1)
    apply Cost.bind
    · cite
      · exact optItemC_cost (DescriptorCost.Block.decC_cost tb d _ (by assumption))
      · cdone
    intro _ _ _ _
    dsimp only
    cbind (LinkedLayer.kindDecC_cost tb _ _ _ d _ (by assumption))
    cbind (LinkedLayer.tailDecC_cost _ d _ (by assumption))
    apply Cost.bind
    · cite
      · exact optItemC_cost (readSizedC_cost _)
      · cdone
    intro _ _ _ _
    dsimp only
    cdone
  cside

theorem LinkedLayer.cc_c (tb : Descriptor.Tables) (pad : Nat) : (LinkedLayer.cc tb pad).c = LinkedLayer.codec tb pad := rfl
theorem LinkedLayer.cc_sound (tb : Descriptor.Tables) (pad : Nat) : (LinkedLayer.cc tb pad).Sound :=
  CC.hand_sound (LinkedLayer.decC_fst tb) (LinkedLayer.decC_cost tb)

theorem LinkedLayers.itemC_cost (tb : Descriptor.Tables) : CostR 6 50 8 (LinkedLayers.itemC tb) := by
  intro d p hp
  apply Cost.mono
  case h =>
    unfold LinkedLayers.itemC
    apply Cost.bind_credit (c := 5) (a₂ := 0) (b₂ := 46) (k₂ := 0) (readLenBlockC_cost 0 8 4)
    intro data p1 h1 hp1
    dsimp only
    have hl := readLenBlockC_ok h1
    exact (Cost.enter (a := 0) (b := 0) (k := 0) (LinkedLayer.decC_cost tb data 0 (Nat.zero_le _))
      fun y _ => Cost.ok _ hp1).mono (Nat.le_refl _) (by omega) (Nat.le_refl _)
  cside

theorem LinkedLayers.decC_fst (tb : Descriptor.Tables) (d : B) (p : Nat) :
    (LinkedLayers.decC tb d p).1 = (LinkedLayers.codec tb).dec d p := by
  unfold LinkedLayers.decC LinkedLayers.codec
  dsimp only
  refine readWhileC_fst (isReadableC_fst 8) (fun d p => ?_) d p
  unfold LinkedLayers.itemC
  refine erase_bind (readLenBlockC_fst ..) fun ⟨data, p⟩ => ?_
  refine erase_ok (enterBlock_fst data) ?_
  refine erase_bind (LinkedLayer.decC_fst tb data 0) fun ⟨x, _⟩ => ?_
  rfl

/-- `while is_readable(fp, 8)`: an item that succeeds consumed the 8 bytes of its length -/
theorem LinkedLayers.decC_cost (tb : Descriptor.Tables) : CostR 66 70 0 (LinkedLayers.decC tb) := by
  intro d p hp
  exact (readWhileC_cost 8 (fun q hq => LinkedLayers.itemC_cost tb d q hq) (by decide) p hp).mono
    (by decide) (by decide) (by decide)

theorem LinkedLayers.cc_c (tb : Descriptor.Tables) : (LinkedLayers.cc tb).c = LinkedLayers.codec tb := rfl
theorem LinkedLayers.cc_sound (tb : Descriptor.Tables) : (LinkedLayers.cc tb).Sound :=
  CC.hand_sound (LinkedLayers.decC_fst tb) (LinkedLayers.decC_cost tb)

end PsdVerif.PayloadCost
