/-
C06 — the counting twins of Model/PayloadCostDesc.lean (the payload readers that call the descriptor reader) erase to
the readers of the payload models and obey the cost judgement with the constants recorded in their `CC.hand`.

`SliceV6` / `SlicesV6` / `Slices` do NOT obey it (`SliceV6.decC_not_cost`: a slice that succeeds is not paid by the bytes it
consumed, because its speculative descriptor read may scan everything that is left and then be undone). What holds:
`SliceV6.decC_left` (≤ 4 · bytes LEFT + 42, ≥ 69 bytes consumed on success), `SlicesV6.decC_left` and `Slices.decC_left`
(QUADRATIC in the bytes left, whatever the count). They are not in `descTable` (see `descNotLinear`).
-/
import PsdVerif.Model.PayloadCostDesc
import PsdVerif.Lemmas.DescriptorCost
import PsdVerif.Lemmas.PayloadCostSimple
import PsdVerif.Lemmas.Payload3Resources

namespace PsdVerif.PayloadCost
open PsdVerif PsdVerif.Codec PsdVerif.PsdCost PsdVerif.Payload PsdVerif.Payload3 PsdVerif.Safe PsdVerif.SafeCost

/-- a general `if`: both branches are runs -/
macro "cite" : tactic => `(tactic| (apply Cost.ite; all_goals try intro _))

/-! ### nested runs -/

/-- `with io.BytesIO(data) as f: v = inner(f)`, the value post-processed without a read: at most
`(aᵢ + 1) · len(data) + bᵢ + 1`, and no loop ran out of fuel -/
theorem nested_val {α β : Type} {ai bi ki : Nat} {data : B} {inner : CE (β × Nat)} {f : β × Nat → CE α}
    (hin : Cost ai bi ki data 0 inner) (hf : ∀ y, (f y).2.w = 0 ∧ (f y).1 ≠ .error .other) :
    (enterBlock data >>= fun _ => inner >>= f).2.w ≤ (ai + 1) * data.length + (bi + 1) ∧
    (enterBlock data >>= fun _ => inner >>= f).1 ≠ .error .other := by
  have hw := nested_w_le hin
  have hne := hin.ne_other
  have e1 : (ai + 1) * data.length = ai * data.length + data.length := by rw [Nat.add_mul, Nat.one_mul]
  rw [bind_ok' (enterBlock_fst data)]
  cases h : inner.1 with
  | error e =>
    rw [bind_err' h]
    refine ⟨?_, fun h' => hne (by rw [h]; exact congrArg _ (Except.error.inj h'))⟩
    show ((enterBlock data).2 + inner.2).w ≤ _
    rw [w_add, enterBlock_w]
    omega
  | ok y =>
    rw [bind_ok' h]
    refine ⟨?_, (hf y).2⟩
    show ((enterBlock data).2 + (inner.2 + (f y).2)).w ≤ _
    rw [w_add, w_add, enterBlock_w, (hf y).1]
    omega

/-- the continuation after a block was read: enter it, run `inner` on it at cursor 0, go on with `f` -/
theorem Cost.enter {α β : Type} {ai bi ki a b k : Nat} {d data : B} {q : Nat} {inner : CE (β × Nat)}
    {f : β × Nat → CE (α × Nat)} (hin : Cost ai bi ki data 0 inner) (hf : ∀ y, inner.1 = .ok y → Cost a b k d q (f y)) :
    Cost a ((1 + data.length) + ((ai * data.length + bi) + b)) k d q (enterBlock data >>= fun _ => inner >>= f) :=
  Cost.step (Nat.le_of_eq (enterBlock_w data)) (by intro h; cases h) fun _ _ =>
    Cost.step (nested_w_le hin) hin.ne_other hf

/-! ## tagged_blocks.py: MetadataSettings / MetadataSetting -/

theorem MetadataSetting.typedDataC_fst (tb : Descriptor.Tables) (key data : B) :
    (MetadataSetting.typedDataC tb key data).1 = MetadataSetting.typedData tb key data := by
  unfold MetadataSetting.typedDataC MetadataSetting.typedData
  split
  · refine erase_ok (enterBlock_fst data) ?_
    rw [bind_fst, readUC_fst]
    cases readU 4 data 0 with
    | error e => rfl
    | ok y => obtain ⟨n, q⟩ := y; rfl
  · split
    · refine erase_ok (enterBlock_fst data) ?_
      rw [bind_fst, DescriptorCost.Block.decC_fst]
      cases Descriptor.Block.dec tb data 0 with
      | error e => rfl
      | ok y => obtain ⟨blk, q⟩ := y; rfl
    · rfl

/-- the typed data costs at most five units per byte of the block (it is copied, then parsed as a descriptor) -/
theorem MetadataSetting.typedDataC_w (tb : Descriptor.Tables) (key data : B) :
    (MetadataSetting.typedDataC tb key data).2.w ≤ 5 * data.length + 8 ∧
    (MetadataSetting.typedDataC tb key data).1 ≠ .error .other := by
  unfold MetadataSetting.typedDataC
  split
  · have h := nested_val (f := fun x => match x with | (n, _) => (CE.ok (MetaData.int n) : CE MetaData))
      (readUC_cost 4 (d := data) (p := 0)) (fun ⟨_, _⟩ => ⟨rfl, by intro h; cases h⟩)
    exact ⟨Nat.le_trans h.1 (by omega), h.2⟩
  · split
    · have h := nested_val (f := fun x => match x with | (blk, _) => (CE.ok (MetaData.desc blk) : CE MetaData))
        (DescriptorCost.Block.decC_cost tb data 0 (Nat.zero_le _)) (fun ⟨_, _⟩ => ⟨rfl, by intro h; cases h⟩)
      exact ⟨Nat.le_trans h.1 (by omega), h.2⟩
    · exact ⟨Nat.zero_le _, by intro h; cases h⟩

theorem MetadataSetting.decC_fst (tb : Descriptor.Tables) (d : B) (p : Nat) :
    (MetadataSetting.decC tb d p).1 = MetadataSetting.dec tb d p := by
  unfold MetadataSetting.decC MetadataSetting.dec
  refine erase_bind (readNC_fst ..) fun ⟨sig, p⟩ => ?_
  dsimp only
  split
  · refine erase_bind (readNC_fst ..) fun ⟨key, p⟩ => ?_
    refine erase_bind (readBoolC_fst ..) fun ⟨cos, p⟩ => ?_
    refine erase_bind (readSkipC_fst ..) fun ⟨_, p⟩ => ?_
    refine erase_bind (readLenBlockC_fst ..) fun ⟨data, p⟩ => ?_
    refine erase_bind (MetadataSetting.typedDataC_fst tb key data) fun x => ?_
    rfl
  · rfl

theorem MetadataSetting.decC_cost (tb : Descriptor.Tables) : CostR 6 16 16 (MetadataSetting.decC tb) := by
  intro d p hp
  apply Cost.mono
  case h =>
    unfold MetadataSetting.decC
    cbind (readNC_cost 4)
    cif
    apply Cost.bind (readNC_cost 4)
    intro key p2 _ _
    dsimp only
    cbind readBoolC_cost
    cbind (readSkipC_cost 3)
    apply Cost.bind_credit (c := 5) (a₂ := 0) (b₂ := 8) (k₂ := 0) (readLenBlockC_cost 0 4 1)
    intro data p5 h5 hp5
    dsimp only
    have hl := readLenBlockC_ok h5
    have hw := MetadataSetting.typedDataC_w tb key data
    exact (Cost.step (a := 0) (b := 0) (k := 0) hw.1 hw.2 fun x _ => Cost.ok _ hp5).mono
      (Nat.le_refl _) (by omega) (Nat.le_refl _)
  cside

theorem MetadataSetting.cc_c (tb : Descriptor.Tables) : (MetadataSetting.cc tb).c = MetadataSetting.codec tb := rfl
theorem MetadataSetting.cc_sound (tb : Descriptor.Tables) : (MetadataSetting.cc tb).Sound :=
  CC.hand_sound (MetadataSetting.decC_fst tb) (MetadataSetting.decC_cost tb)

theorem MetadataSettings.decC_fst (tb : Descriptor.Tables) (d : B) (p : Nat) :
    (MetadataSettings.decC tb d p).1 = (MetadataSettings.codec tb).dec d p := by
  unfold MetadataSettings.decC MetadataSettings.codec
  dsimp only
  refine erase_bind (readUC_fst ..) fun ⟨n, p⟩ => ?_
  exact readCountC_fst (MetadataSetting.decC_fst tb) n d p

/-- an item that succeeds consumed ≥ 16 bytes: the bound does not mention the count -/
theorem MetadataSettings.decC_cost (tb : Descriptor.Tables) : CostR 23 18 4 (MetadataSettings.decC tb) := by
  intro d p hp
  apply Cost.mono
  case h =>
    unfold MetadataSettings.decC
    cbind (readUC_cost 4)
    exact readCountC_cost (fun q hq => MetadataSetting.decC_cost tb d q hq) (by decide) _ _ (by assumption)
  cside

theorem MetadataSettings.cc_c (tb : Descriptor.Tables) : (MetadataSettings.cc tb).c = MetadataSettings.codec tb := rfl
theorem MetadataSettings.cc_sound (tb : Descriptor.Tables) : (MetadataSettings.cc tb).Sound :=
  CC.hand_sound (MetadataSettings.decC_fst tb) (MetadataSettings.decC_cost tb)

/-! ## tagged_blocks.py: the classes that wrap descriptor blocks -/

theorem SmartObjectLayerData.decC_fst (tb : Descriptor.Tables) (d : B) (p : Nat) :
    (SmartObjectLayerData.decC tb d p).1 = SmartObjectLayerData.dec tb d p := by
  unfold SmartObjectLayerData.decC SmartObjectLayerData.dec
  refine erase_bind (readNC_fst ..) fun ⟨kind, p⟩ => ?_
  refine erase_bind (readUC_fst ..) fun ⟨version, p⟩ => ?_
  refine erase_bind (DescriptorCost.Block.decC_fst ..) fun ⟨data, p⟩ => ?_
  dsimp only
  split <;> rfl

theorem SmartObjectLayerData.decC_cost (tb : Descriptor.Tables) : CostR 4 9 24 (SmartObjectLayerData.decC tb) := by
  intro d p hp
  apply Cost.mono
  case h =>
    unfold SmartObjectLayerData.decC
    cbind (readNC_cost 4)
    cbind (readUC_cost 4)
    cbind (DescriptorCost.Block.decC_cost tb d _ (by assumption))
    cif
    cdone
  cside

theorem SmartObjectLayerData.cc_c (tb : Descriptor.Tables) (pad : Nat) :
    (SmartObjectLayerData.cc tb pad).c = SmartObjectLayerData.codec tb pad := rfl
theorem SmartObjectLayerData.cc_sound (tb : Descriptor.Tables) (pad : Nat) : (SmartObjectLayerData.cc tb pad).Sound :=
  CC.hand_sound (SmartObjectLayerData.decC_fst tb) (SmartObjectLayerData.decC_cost tb)

theorem PlacedLayerData.decC_fst (tb : Descriptor.Tables) (d : B) (p : Nat) :
    (PlacedLayerData.decC tb d p).1 = PlacedLayerData.dec tb d p := by
  unfold PlacedLayerData.decC PlacedLayerData.dec
  refine erase_bind (readNC_fst ..) fun ⟨kind, p⟩ => ?_
  refine erase_bind (readUC_fst ..) fun ⟨version, p⟩ => ?_
  refine erase_bind (readPascalC_fst ..) fun ⟨uuid, p⟩ => ?_
  refine erase_bind (readUC_fst ..) fun ⟨page, p⟩ => ?_
  refine erase_bind (readUC_fst ..) fun ⟨total, p⟩ => ?_
  refine erase_bind (readUC_fst ..) fun ⟨aa, p⟩ => ?_
  refine erase_bind (readUC_fst ..) fun ⟨lt, p⟩ => ?_
  refine erase_bind (readCountC_fst readF64C_fst ..) fun ⟨tr, p⟩ => ?_
  refine erase_bind (DescriptorCost.Block2.decC_fst ..) fun ⟨warp, p⟩ => ?_
  dsimp only
  split <;> rfl

theorem PlacedLayerData.decC_cost (tb : Descriptor.Tables) : CostR 4 33 109 (PlacedLayerData.decC tb) := by
  intro d p hp
  apply Cost.mono
  case h =>
    unfold PlacedLayerData.decC
    cbind (readNC_cost 4)
    cbind (readUC_cost 4)
    cbind (readPascalC_cost 1)
    cbind (readUC_cost 4)
    cbind (readUC_cost 4)
    cbind (readUC_cost 4)
    cbind (readUC_cost 4)
    cbind (readCountC_cost_fixed (fun q hq => readF64C_cost) 8 _ (by assumption))
    cbind (DescriptorCost.Block2.decC_cost tb d _ (by assumption))
    cif
    cdone
  cside

theorem PlacedLayerData.cc_c (tb : Descriptor.Tables) (pad : Nat) :
    (PlacedLayerData.cc tb pad).c = PlacedLayerData.codec tb pad := rfl
theorem PlacedLayerData.cc_sound (tb : Descriptor.Tables) (pad : Nat) : (PlacedLayerData.cc tb pad).Sound :=
  CC.hand_sound (PlacedLayerData.decC_fst tb) (PlacedLayerData.decC_cost tb)

theorem TypeToolObjectSetting.decC_fst (tb : Descriptor.Tables) (d : B) (p : Nat) :
    (TypeToolObjectSetting.decC tb d p).1 = TypeToolObjectSetting.dec tb d p := by
  unfold TypeToolObjectSetting.decC TypeToolObjectSetting.dec
  refine erase_bind (readUC_fst ..) fun ⟨version, p⟩ => ?_
  refine erase_bind (readCountC_fst readF64C_fst ..) fun ⟨tr, p⟩ => ?_
  refine erase_bind (readUC_fst ..) fun ⟨tv, p⟩ => ?_
  refine erase_bind (DescriptorCost.Block.decC_fst ..) fun ⟨text, p⟩ => ?_
  refine erase_bind (readUC_fst ..) fun ⟨wv, p⟩ => ?_
  refine erase_bind (DescriptorCost.Block.decC_fst ..) fun ⟨warp, p⟩ => ?_
  refine erase_bind (readI32C_fst ..) fun ⟨l, p⟩ => ?_
  refine erase_bind (readI32C_fst ..) fun ⟨t, p⟩ => ?_
  refine erase_bind (readI32C_fst ..) fun ⟨r, p⟩ => ?_
  refine erase_bind (readI32C_fst ..) fun ⟨b, p⟩ => ?_
  dsimp only
  split <;> rfl

theorem TypeToolObjectSetting.decC_cost (tb : Descriptor.Tables) : CostR 4 33 102 (TypeToolObjectSetting.decC tb) := by
  intro d p hp
  apply Cost.mono
  case h =>
    unfold TypeToolObjectSetting.decC
    cbind (readUC_cost 2)
    cbind (readCountC_cost_fixed (fun q hq => readF64C_cost) 6 _ (by assumption))
    cbind (readUC_cost 2)
    cbind (DescriptorCost.Block.decC_cost tb d _ (by assumption))
    cbind (readUC_cost 2)
    cbind (DescriptorCost.Block.decC_cost tb d _ (by assumption))
    cbind readI32C_cost
    cbind readI32C_cost
    cbind readI32C_cost
    cbind readI32C_cost
    cif
    cdone
  cside

theorem TypeToolObjectSetting.cc_c (tb : Descriptor.Tables) (pad : Nat) :
    (TypeToolObjectSetting.cc tb pad).c = TypeToolObjectSetting.codec tb pad := rfl
theorem TypeToolObjectSetting.cc_sound (tb : Descriptor.Tables) (pad : Nat) : (TypeToolObjectSetting.cc tb pad).Sound :=
  CC.hand_sound (TypeToolObjectSetting.decC_fst tb) (TypeToolObjectSetting.decC_cost tb)

/-! ## linked_layer.py -/

theorem LinkedLayer.readTsC_fst (d : B) (p : Nat) : (LinkedLayer.readTsC d p).1 = LinkedLayer.readTs d p := by
  unfold LinkedLayer.readTsC LinkedLayer.readTs
  refine erase_bind (readUC_fst ..) fun ⟨y, p⟩ => ?_
  refine erase_bind (readCountC_fst (readUC_fst 1) ..) fun ⟨fs, p⟩ => ?_
  refine erase_bind (readF64C_fst ..) fun ⟨s, p⟩ => ?_
  rfl

theorem LinkedLayer.readTsC_cost : CostR 1 10 16 LinkedLayer.readTsC := by
  intro d p hp
  apply Cost.mono
  case h =>
    unfold LinkedLayer.readTsC
    cbind (readUC_cost 4)
    cbind (readCountC_cost_fixed (fun q hq => readUC_cost 1) 4 _ (by assumption))
    cbind readF64C_cost
    cdone
  cside

theorem LinkedLayer.kindDecC_fst (tb : Descriptor.Tables) (kind : B) (version datasize : Nat) (d : B) (p : Nat) :
    (LinkedLayer.kindDecC tb kind version datasize d p).1 = LinkedLayer.kindDec tb kind version datasize d p := by
  unfold LinkedLayer.kindDecC LinkedLayer.kindDec
  refine erase_bind ?_ fun ⟨k, p'⟩ => ?_
  · split
    · refine erase_bind (DescriptorCost.Block.decC_fst ..) fun ⟨lf, p⟩ => ?_
      refine erase_bind ?_ fun ⟨ts, p⟩ => ?_
      · split
        · exact optItemC_fst LinkedLayer.readTsC_fst d _
        · rfl
      refine erase_bind (readUC_fst ..) fun ⟨fsz, p⟩ => ?_
      refine erase_bind ?_ fun ⟨dt, p⟩ => ?_
      · split
        · exact optItemC_fst (readSizedC_fst datasize) d _
        · rfl
      rfl
    · split
      · refine erase_bind (readSkipC_fst ..) fun ⟨_, p⟩ => ?_
        rfl
      · rfl
  · dsimp only
    split
    · refine erase_bind (readSizedC_fst ..) fun ⟨dt, p⟩ => ?_
      dsimp only
      split <;> rfl
    · rfl

theorem LinkedLayer.kindDecC_cost (tb : Descriptor.Tables) (kind : B) (version datasize : Nat) :
    CostR 4 20 0 (LinkedLayer.kindDecC tb kind version datasize) := by
  intro d p hp
  apply Cost.mono
  case h =>
    unfold LinkedLayer.kindDecC
    apply Cost.bind
    · cite
      · cbind (DescriptorCost.Block.decC_cost tb d _ (by assumption))
        apply Cost.bind
        · cite
          · exact optItemC_cost (LinkedLayer.readTsC_cost d _ (by assumption))
          · cdone
        intro _ _ _ _
        dsimp only
        cbind (readUC_cost 8)
        apply Cost.bind
        · cite
          · exact optItemC_cost (readSizedC_cost datasize)
          · cdone
        intro _ _ _ _
        dsimp only
        cdone
      · cite
        · cbind (readSkipC_cost 8)
          cdone
        · cdone
    · intro k p' _ _
      dsimp only
      cite
      · cbind (readSizedC_cost datasize)
        cif
        cdone
      · cdone
  cside

theorem LinkedLayer.tailDecC_fst (version : Nat) (d : B) (p : Nat) :
    (LinkedLayer.tailDecC version d p).1 = LinkedLayer.tailDec version d p := by
  unfold LinkedLayer.tailDecC LinkedLayer.tailDec
  refine erase_bind ?_ fun ⟨cid, p⟩ => ?_
  · split
    · exact optItemC_fst (readUStrC_fst 1) d _
    · rfl
  refine erase_bind ?_ fun ⟨mt, p⟩ => ?_
  · split
    · exact optItemC_fst readF64C_fst d _
    · rfl
  refine erase_bind ?_ fun ⟨ls, p⟩ => ?_
  · split
    · exact optItemC_fst (readUC_fst 1) d _
    · rfl
  rfl

theorem LinkedLayer.tailDecC_cost (version : Nat) : CostR 1 5 0 (LinkedLayer.tailDecC version) := by
  intro d p hp
  apply Cost.mono
  case h =>
    unfold LinkedLayer.tailDecC
    apply Cost.bind
    · cite
      · exact optItemC_cost (readUStrC_cost 1)
      · cdone
    intro _ _ _ _
    dsimp only
    apply Cost.bind
    · cite
      · exact optItemC_cost readF64C_cost
      · cdone
    intro _ _ _ _
    dsimp only
    apply Cost.bind
    · cite
      · exact optItemC_cost (readUC_cost 1)
      · cdone
    intro _ _ _ _
    dsimp only
    cdone
  cside

theorem LinkedLayer.decC_fst (tb : Descriptor.Tables) (d : B) (p : Nat) :
    (LinkedLayer.decC tb d p).1 = LinkedLayer.dec tb d p := by
  unfold LinkedLayer.decC LinkedLayer.dec
  refine erase_bind (readNC_fst ..) fun ⟨kind, p⟩ => ?_
  dsimp only
  split
  · refine erase_bind (readUC_fst ..) fun ⟨version, p⟩ => ?_
    dsimp only
    split
    · refine erase_bind (readPascalC_fst ..) fun ⟨uuid, p⟩ => ?_
      refine erase_bind (readUStrC_fst ..) fun ⟨filename, p⟩ => ?_
      refine erase_bind (readNC_fst ..) fun ⟨filetype, p⟩ => ?_
      refine erase_bind (readNC_fst ..) fun ⟨creator, p⟩ => ?_
      refine erase_bind (readUC_fst ..) fun ⟨datasize, p⟩ => ?_
      refine erase_bind (readUC_fst ..) fun ⟨flag, p⟩ => ?_
      refine erase_bind ?_ fun ⟨openFile, p⟩ => ?_
      · split
        · exact optItemC_fst (DescriptorCost.Block.decC_fst tb) d _
        · rfl
      refine erase_bind (LinkedLayer.kindDecC_fst ..) fun ⟨k, p⟩ => ?_
      refine erase_bind (LinkedLayer.tailDecC_fst ..) fun ⟨⟨cid, mt, ls⟩, p⟩ => ?_
      refine erase_bind ?_ fun ⟨data, p⟩ => ?_
      · split
        · exact optItemC_fst (readSizedC_fst datasize) d _
        · rfl
      rfl
    · rfl
  · rfl

theorem LinkedLayer.decC_cost (tb : Descriptor.Tables) : CostR 4 45 30 (LinkedLayer.decC tb) := by
  intro d p hp
  apply Cost.mono
  case h =>
    unfold LinkedLayer.decC
    cbind (readNC_cost 4)
    cif
    cbind (readUC_cost 4)
    cif
    cbind (readPascalC_cost 1)
    cbind (readUStrC_cost 1)
    cbind (readNC_cost 4)
    cbind (readNC_cost 4)
    cbind (readUC_cost 8)
    cbind (readUC_cost 1)
    apply Cost.bind
    · cite
      · exact optItemC_cost (DescriptorCost.Block.decC_cost tb d _ (by assumption))
      · cdone
    intro _ _ _ _
    dsimp only
    cbind (LinkedLayer.kindDecC_cost tb _ _ _ d _ (by assumption))
    cbind (LinkedLayer.tailDecC_cost _ d _ (by assumption))
    apply Cost.bind
    · cite
      · exact optItemC_cost (readSizedC_cost _)
      · cdone
    intro _ _ _ _
    dsimp only
    cdone
  cside

theorem LinkedLayer.cc_c (tb : Descriptor.Tables) (pad : Nat) : (LinkedLayer.cc tb pad).c = LinkedLayer.codec tb pad := rfl
theorem LinkedLayer.cc_sound (tb : Descriptor.Tables) (pad : Nat) : (LinkedLayer.cc tb pad).Sound :=
  CC.hand_sound (LinkedLayer.decC_fst tb) (LinkedLayer.decC_cost tb)

theorem LinkedLayers.itemC_cost (tb : Descriptor.Tables) : CostR 6 50 8 (LinkedLayers.itemC tb) := by
  intro d p hp
  apply Cost.mono
  case h =>
    unfold LinkedLayers.itemC
    apply Cost.bind_credit (c := 5) (a₂ := 0) (b₂ := 46) (k₂ := 0) (readLenBlockC_cost 0 8 4)
    intro data p1 h1 hp1
    dsimp only
    have hl := readLenBlockC_ok h1
    exact (Cost.enter (a := 0) (b := 0) (k := 0) (LinkedLayer.decC_cost tb data 0 (Nat.zero_le _))
      fun y _ => Cost.ok _ hp1).mono (Nat.le_refl _) (by omega) (Nat.le_refl _)
  cside

theorem LinkedLayers.decC_fst (tb : Descriptor.Tables) (d : B) (p : Nat) :
    (LinkedLayers.decC tb d p).1 = (LinkedLayers.codec tb).dec d p := by
  unfold LinkedLayers.decC LinkedLayers.codec
  dsimp only
  refine readWhileC_fst (isReadableC_fst 8) (fun d p => ?_) d p
  unfold LinkedLayers.itemC
  refine erase_bind (readLenBlockC_fst ..) fun ⟨data, p⟩ => ?_
  refine erase_ok (enterBlock_fst data) ?_
  refine erase_bind (LinkedLayer.decC_fst tb data 0) fun ⟨x, _⟩ => ?_
  rfl

/-- `while is_readable(fp, 8)`: an item that succeeds consumed the 8 bytes of its length -/
theorem LinkedLayers.decC_cost (tb : Descriptor.Tables) : CostR 66 70 0 (LinkedLayers.decC tb) := by
  intro d p hp
  exact (readWhileC_cost 8 (fun q hq => LinkedLayers.itemC_cost tb d q hq) (by decide) p hp).mono
    (by decide) (by decide) (by decide)

theorem LinkedLayers.cc_c (tb : Descriptor.Tables) : (LinkedLayers.cc tb).c = LinkedLayers.codec tb := rfl
theorem LinkedLayers.cc_sound (tb : Descriptor.Tables) : (LinkedLayers.cc tb).Sound :=
  CC.hand_sound (LinkedLayers.decC_fst tb) (LinkedLayers.decC_cost tb)

/-! ## adjustment_layers.py: ColorLookup; vector.py: VectorStrokeContentSetting -/

open PsdVerif.DescriptorCost in
theorem ColorLookup.decC_fst (tb : Descriptor.Tables) (d : B) (p : Nat) :
    (ColorLookup.decC tb d p).1 = ColorLookup.dec tb d p := by
  unfold ColorLookup.decC ColorLookup.dec
  refine Er.bind (er_readUC 2) (fun ver => Er.bind (er_readUC 4) fun dv =>
    Er.bind (er_readBodyC tb (er_decBodyC tb _)) fun x => ?_) d p
  split
  · exact Er.pure _
  · exact Er.fail _

open PsdVerif.DescriptorCost in
theorem ColorLookup.decC_cost (tb : Descriptor.Tables) : CostR 4 8 18 (ColorLookup.decC tb) := by
  intro d p hp
  apply Cost.mono
  case h =>
    unfold ColorLookup.decC
    rb (readUC_cost 2)
    rb (readUC_cost 4)
    rb (readBodyC_cost tb (fun t q hq => decBodyC_inv tb _ t q hq) _ (by assumption))
    split
    · exact Cost.rpure _ (by assumption)
    · exact Cost.rfail 0 (by decide)
  all_goals decide

theorem ColorLookup.cc_c (tb : Descriptor.Tables) (pad : Nat) : (ColorLookup.cc tb pad).c = ColorLookup.codec tb pad := rfl
theorem ColorLookup.cc_sound (tb : Descriptor.Tables) (pad : Nat) : (ColorLookup.cc tb pad).Sound :=
  CC.hand_sound (ColorLookup.decC_fst tb) (ColorLookup.decC_cost tb)

open PsdVerif.DescriptorCost in
theorem VectorStrokeContentSetting.decC_fst (tb : Descriptor.Tables) (d : B) (p : Nat) :
    (VectorStrokeContentSetting.decC tb d p).1 = VectorStrokeContentSetting.dec tb d p := by
  unfold VectorStrokeContentSetting.decC VectorStrokeContentSetting.dec
  exact Er.bind (er_readNC 4) (fun key => Er.bind (er_readUC 4) fun ver =>
    Er.bind (er_readBodyC tb (er_decBodyC tb _)) fun x => Er.pure _) d p

open PsdVerif.DescriptorCost in
theorem VectorStrokeContentSetting.decC_cost (tb : Descriptor.Tables) : CostR 4 8 20 (VectorStrokeContentSetting.decC tb) := by
  intro d p hp
  apply Cost.mono
  case h =>
    unfold VectorStrokeContentSetting.decC
    rb (readNC_cost 4)
    rb (readUC_cost 4)
    rb (readBodyC_cost tb (fun t q hq => decBodyC_inv tb _ t q hq) _ (by assumption))
    exact Cost.rpure _ (by assumption)
  all_goals decide

theorem VectorStrokeContentSetting.cc_c (tb : Descriptor.Tables) (pad : Nat) :
    (VectorStrokeContentSetting.cc tb pad).c = VectorStrokeContentSetting.codec tb pad := rfl
theorem VectorStrokeContentSetting.cc_sound (tb : Descriptor.Tables) (pad : Nat) : (VectorStrokeContentSetting.cc tb pad).Sound :=
  CC.hand_sound (VectorStrokeContentSetting.decC_fst tb) (VectorStrokeContentSetting.decC_cost tb)

/-! ## image_resources.py: the descriptor blocks as payloads -/

theorem DescriptorResource.cc_c (tb : Descriptor.Tables) : (DescriptorResource.cc tb).c = DescriptorResource.codec tb := rfl
theorem DescriptorResource.cc_sound (tb : Descriptor.Tables) : (DescriptorResource.cc tb).Sound :=
  CC.hand_sound (DescriptorCost.Block.decC_fst tb) (DescriptorCost.Block.decC_cost tb)

theorem Descriptor2Payload.cc_c (tb : Descriptor.Tables) (pad : Nat) :
    (Descriptor2Payload.cc tb pad).c = Descriptor2Payload.codec tb pad := rfl
theorem Descriptor2Payload.cc_sound (tb : Descriptor.Tables) (pad : Nat) : (Descriptor2Payload.cc tb pad).Sound :=
  CC.hand_sound (DescriptorCost.Block2.decC_fst tb) (DescriptorCost.Block2.decC_cost tb)

theorem DescriptorPayload.cc_c (tb : Descriptor.Tables) (pad : Nat) :
    (DescriptorPayload.cc tb pad).c = DescriptorPayload.codec tb pad := rfl
theorem DescriptorPayload.cc_sound (tb : Descriptor.Tables) (pad : Nat) : (DescriptorPayload.cc tb pad).Sound :=
  CC.hand_sound (DescriptorCost.Block.decC_fst tb) (DescriptorCost.Block.decC_cost tb)

/-! ## image_resources.py: Slices / SlicesV6 / SliceV6

`SliceV6.read` ends with a SPECULATIVE `DescriptorBlock.read` that is undone (`fp.seek(current_position)`) when it raises
`ValueError` / `IOError` or returns a block whose classID is four zero bytes. An attempt that is undone consumed nothing,
yet it may have read everything that was left in the stream (`read_unicode_string`: `fp.read(2 * count)` with a `count`
taken from the data). So a slice that SUCCEEDS is not paid by the bytes it consumed: the judgement `Cost` fails for
`SliceV6`, and what holds is `Weak`: ticks + bytes ≤ a · (bytes LEFT) + b whatever the outcome. `SlicesV6` then runs
`for _ in range(count): SliceV6.read(fp)`: every slice consumes ≥ 69 bytes, and every slice may scan the rest of the
stream: the bound is QUADRATIC in the bytes left (`Quad`), not linear. -/

/-- paid by the bytes that were LEFT, also when the run succeeds (which then consumed ≥ `k` bytes) -/
def Weak {β : Type} (a b k : Nat) (d : B) (p : Nat) (x : CE (β × Nat)) : Prop :=
  match x.1 with
  | .ok (_, p') => p + k ≤ p' ∧ p' ≤ d.length ∧ x.2.w ≤ a * (d.length - p) + b
  | .error e => e ≠ .other ∧ x.2.w ≤ a * (d.length - p) + b

theorem Weak.of_ok {β : Type} {a b k : Nat} {d : B} {p : Nat} {x : CE (β × Nat)} {v : β} {p' : Nat}
    (h : Weak a b k d p x) (hx : x.1 = .ok (v, p')) : p + k ≤ p' ∧ p' ≤ d.length ∧ x.2.w ≤ a * (d.length - p) + b := by
  unfold Weak at h; rw [hx] at h; exact h

theorem Weak.of_error {β : Type} {a b k : Nat} {d : B} {p : Nat} {x : CE (β × Nat)} {e : Err}
    (h : Weak a b k d p x) (hx : x.1 = .error e) : e ≠ .other ∧ x.2.w ≤ a * (d.length - p) + b := by
  unfold Weak at h; rw [hx] at h; exact h

theorem Weak.intro {β : Type} {a b k : Nat} {d : B} {p : Nat} {x : CE (β × Nat)}
    (hok : ∀ v p', x.1 = .ok (v, p') → p + k ≤ p' ∧ p' ≤ d.length ∧ x.2.w ≤ a * (d.length - p) + b)
    (herr : ∀ e, x.1 = .error e → e ≠ .other ∧ x.2.w ≤ a * (d.length - p) + b) : Weak a b k d p x := by
  unfold Weak
  cases hx : x.1 with
  | error e => exact herr e hx
  | ok y => obtain ⟨v, p'⟩ := y; exact hok v p' hx

theorem Weak.w_le {β : Type} {a b k : Nat} {d : B} {p : Nat} {x : CE (β × Nat)} (h : Weak a b k d p x) :
    x.2.w ≤ a * (d.length - p) + b := by
  cases hx : x.1 with
  | error e => exact (h.of_error hx).2
  | ok y => obtain ⟨v, p'⟩ := y; exact (h.of_ok hx).2.2

theorem Weak.ne_other {β : Type} {a b k : Nat} {d : B} {p : Nat} {x : CE (β × Nat)} (h : Weak a b k d p x) :
    x.1 ≠ .error .other := fun hx => (h.of_error hx).1 rfl

theorem Weak.of_cost {β : Type} {a b k : Nat} {d : B} {p : Nat} {x : CE (β × Nat)} (h : Cost a b k d p x) :
    Weak a b k d p x := by
  refine Weak.intro (fun v p' hx => ?_) (fun e hx => h.of_error hx)
  have h1 := h.of_ok hx
  have : a * (p' - p) ≤ a * (d.length - p) := Nat.mul_le_mul_left a (by omega)
  exact ⟨h1.1, h1.2.1, by omega⟩

theorem Weak.mono {β : Type} {a a' b b' k k' : Nat} {d : B} {p : Nat} {x : CE (β × Nat)}
    (h : Weak a' b' k' d p x) (ha : a' ≤ a) (hb : b' ≤ b) (hk : k ≤ k') : Weak a b k d p x := by
  have : a' * (d.length - p) ≤ a * (d.length - p) := Nat.mul_le_mul_right _ ha
  refine Weak.intro (fun v p' hx => ?_) (fun e hx => ?_)
  · have h1 := h.of_ok hx
    exact ⟨by omega, h1.2.1, by omega⟩
  · have h1 := h.of_error hx
    exact ⟨h1.1, by omega⟩

/-- a prefix that obeys `Cost`, then a continuation that obeys `Weak` -/
theorem Weak.bind {α β : Type} {a₁ a₂ b₁ b₂ k₁ k₂ : Nat} {d : B} {p : Nat} {m : CE (β × Nat)}
    {f : β × Nat → CE (α × Nat)} (hm : Cost a₁ b₁ k₁ d p m)
    (hf : ∀ v p₁, m.1 = .ok (v, p₁) → p₁ ≤ d.length → Weak a₂ b₂ k₂ d p₁ (f (v, p₁))) :
    Weak (max a₁ a₂) (b₁ + b₂) (k₁ + k₂) d p (m >>= f) := by
  have hm' := hm.mono (Nat.le_max_left a₁ a₂) (Nat.le_refl _) (Nat.le_refl _)
  cases hm1 : m.1 with
  | error e =>
    rw [bind_err' hm1]
    refine Weak.intro (fun _ _ hx => by cases hx) (fun e' hx => ?_)
    cases hx
    have h1 := hm'.of_error hm1
    exact ⟨h1.1, by show m.2.w ≤ _; omega⟩
  | ok y =>
    obtain ⟨v, p₁⟩ := y
    have h1 := hm'.of_ok hm1
    have h2' := (hf v p₁ hm1 h1.2.1).mono (Nat.le_max_right a₁ a₂) (Nat.le_refl _) (Nat.le_refl _)
    rw [bind_ok' hm1]
    have hs := mul_split (max a₁ a₂) (x := p₁ - p) (y := d.length - p₁) (z := d.length - p) (by omega)
    refine Weak.intro (fun v' p' hx => ?_) (fun e' hx => ?_)
    · have h2 := h2'.of_ok hx
      refine ⟨by omega, h2.2.1, ?_⟩
      show (m.2 + (f (v, p₁)).2).w ≤ _
      rw [w_add]
      omega
    · have h2 := h2'.of_error hx
      refine ⟨h2.1, ?_⟩
      show (m.2 + (f (v, p₁)).2).w ≤ _
      rw [w_add]
      omega

/-- a step of bounded cost that does not move the cursor (a peek, a condition) -/
theorem Weak.step {α γ : Type} {a b k n : Nat} {d : B} {p : Nat} {m : CE γ} {f : γ → CE (α × Nat)}
    (hm : m.2.w ≤ n) (hne : m.1 ≠ .error .other) (hf : ∀ y, m.1 = .ok y → Weak a b k d p (f y)) :
    Weak a (n + b) k d p (m >>= f) := by
  cases hm1 : m.1 with
  | error e =>
    rw [bind_err' hm1]
    refine Weak.intro (fun _ _ hx => by cases hx) (fun e' hx => ?_)
    cases hx
    refine ⟨fun h => hne (by rw [hm1, h]), ?_⟩
    show m.2.w ≤ _
    omega
  | ok y =>
    have h2' := hf y hm1
    rw [bind_ok' hm1]
    refine Weak.intro (fun v' p' hx => ?_) (fun e' hx => ?_)
    · have h2 := h2'.of_ok hx
      refine ⟨h2.1, h2.2.1, ?_⟩
      show (m.2 + (f y).2).w ≤ _
      rw [w_add]
      omega
    · have h2 := h2'.of_error hx
      refine ⟨h2.1, ?_⟩
      show (m.2 + (f y).2).w ≤ _
      rw [w_add]
      omega

/-- the last statement builds the value: no read, same cursor -/
theorem Weak.bind_pure {α β : Type} {a b k : Nat} {d : B} {p : Nat} {m : CE (β × Nat)} {f : β × Nat → CE (α × Nat)}
    (hm : Weak a b k d p m) (hf : ∀ v p₁, (f (v, p₁)).2.w = 0 ∧ ∃ v', (f (v, p₁)).1 = .ok (v', p₁)) :
    Weak a b k d p (m >>= f) := by
  cases hm1 : m.1 with
  | error e =>
    rw [bind_err' hm1]
    refine Weak.intro (fun _ _ hx => by cases hx) (fun e' hx => ?_)
    cases hx
    exact hm.of_error hm1
  | ok y =>
    obtain ⟨v, p₁⟩ := y
    have h1 := hm.of_ok hm1
    obtain ⟨hw, v', hv⟩ := hf v p₁
    rw [bind_ok' hm1]
    refine Weak.intro (fun v'' p' hx => ?_) (fun e' hx => ?_)
    · have hx' : (f (v, p₁)).1 = .ok (v'', p') := hx
      rw [hv] at hx'
      cases hx'
      refine ⟨h1.1, h1.2.1, ?_⟩
      show (m.2 + (f (v, p₁)).2).w ≤ _
      rw [w_add, hw]
      omega
    · have hx' : (f (v, p₁)).1 = .error e' := hx
      rw [hv] at hx'
      cases hx'

/-- `wbind h`: the next statement obeys `Cost` with `h`, the rest of the block obeys `Weak` -/
macro "wbind " t:term : tactic => `(tactic| (apply Weak.bind $t; intro _ _ _ _; try dsimp only))

theorem readUC_w_le_d (w : Nat) (d : B) (p : Nat) : (readUC w d p).2.w ≤ w + 1 := by
  unfold readUC
  have h0 : (readNC w d p).2.w = 1 + min w (d.length - p) := rfl
  cases h : (readNC w d p).1 with
  | error e =>
    rw [bind_err' h]
    show (readNC w d p).2.w ≤ _
    omega
  | ok y =>
    obtain ⟨bs, p'⟩ := y
    rw [bind_ok' h]
    show ((readNC w d p).2 + (CE.ok (beVal bs, p') : CE (Nat × Nat)).2).w ≤ _
    rw [w_add, ok_w]
    omega

/-! ### SliceV6 -/

theorem SliceV6.peekDataC_fst (tb : Descriptor.Tables) (d : B) (p : Nat) :
    (SliceV6.peekDataC tb d p).1 = SliceV6.peekData tb d p := by
  unfold SliceV6.peekDataC SliceV6.peekData
  refine erase_ok (isReadableC_fst 4 d p) ?_
  split
  · rw [bind_fst, readUC_fst]
    cases readU 4 d p with
    | error e => rfl
    | ok y =>
      obtain ⟨version, q⟩ := y
      dsimp only
      by_cases hv : version = 16
      · rw [if_pos hv]
        split
        · unfold SliceV6.tryBlockC
          dsimp only
          rw [DescriptorCost.Block.decC_fst]
          cases Descriptor.Block.dec tb d p with
          | ok z => obtain ⟨blk, p'⟩ := z; rfl
          | error e => cases e <;> rfl
        · contradiction
      · rw [if_neg hv]
        split
        · contradiction
        · rfl
  · rfl

/-- the attempt: at most `4 · (bytes left) + 7`, whether its result is kept or undone -/
theorem SliceV6.tryBlockC_weak (tb : Descriptor.Tables) {d : B} {p : Nat} (hp : p ≤ d.length) :
    Weak 4 7 0 d p (SliceV6.tryBlockC tb d p) := by
  have ha := DescriptorCost.Block.decC_cost tb d p hp
  have hw := ha.w_le
  unfold SliceV6.tryBlockC
  refine Weak.intro (fun v p' hx => ?_) (fun e hx => ?_)
  · refine ⟨?_, ?_, hw⟩
    all_goals
      dsimp only at hx
      split at hx
      · rename_i blk p'' hb
        have h1 := ha.of_ok hb
        split at hx <;> cases hx <;> omega
      all_goals first | (cases hx; omega) | cases hx
  · refine ⟨?_, hw⟩
    dsimp only at hx
    split at hx
    · split at hx <;> cases hx
    · cases hx
    · cases hx
    · cases hx
    · rename_i e' hb
      cases hx
      exact (ha.of_error hb).1

/-- the speculative read: at most `4 · (bytes left) + 17`, whether its result is kept or undone -/
theorem SliceV6.peekDataC_weak (tb : Descriptor.Tables) {d : B} {p : Nat} (hp : p ≤ d.length) :
    Weak 4 17 0 d p (SliceV6.peekDataC tb d p) := by
  unfold SliceV6.peekDataC
  refine Weak.step (n := 5) (a := 4) (b := 12) (by rw [isReadableC_w']; omega) (by intro h; cases h) fun r _ => ?_
  split
  · refine Weak.step (n := 5) (a := 4) (b := 7) (readUC_w_le_d 4 d p) (readUC_cost 4).ne_other fun y _ => ?_
    obtain ⟨version, q⟩ := y
    dsimp only
    split
    · exact SliceV6.tryBlockC_weak tb hp
    · exact (Weak.of_cost (Cost.ok _ hp)).mono (by decide) (by decide) (by decide)
  · exact (Weak.of_cost (Cost.ok _ hp)).mono (by decide) (by decide) (by decide)

theorem SliceV6.assocDecC_fst (head : Row) (d : B) (p : Nat) : (SliceV6.assocDecC head d p).1 = SliceV6.assocDec head d p := by
  unfold SliceV6.assocDecC SliceV6.assocDec
  split
  · rw [bind_fst, fmtDecC_fst]
    cases fmtDec [U 4] d p with
    | error e => rfl
    | ok y => obtain ⟨r, p'⟩ := y; rfl
  · rfl

theorem SliceV6.assocDecC_cost (head : Row) : CostR 1 1 0 (SliceV6.assocDecC head) := by
  intro d p hp
  apply Cost.mono
  case h =>
    unfold SliceV6.assocDecC
    cite
    · cbind (fmtDecC_cost [U 4])
      cdone
    · cdone
  cside

theorem SliceV6.decC_fst (tb : Descriptor.Tables) (d : B) (p : Nat) : (SliceV6.decC tb d p).1 = SliceV6.dec tb d p := by
  unfold SliceV6.decC SliceV6.dec
  refine erase_bind (fmtDecC_fst ..) fun ⟨head, p⟩ => ?_
  refine erase_bind (SliceV6.assocDecC_fst ..) fun ⟨assoc, p⟩ => ?_
  refine erase_bind (readUStrC_fst 1 ..) fun ⟨name, p⟩ => ?_
  refine erase_bind (fmtDecC_fst ..) fun ⟨st, p⟩ => ?_
  refine erase_bind (fmtDecC_fst ..) fun ⟨bbox, p⟩ => ?_
  refine erase_bind (readUStrC_fst 1 ..) fun ⟨url, p⟩ => ?_
  refine erase_bind (readUStrC_fst 1 ..) fun ⟨target, p⟩ => ?_
  refine erase_bind (readUStrC_fst 1 ..) fun ⟨message, p⟩ => ?_
  refine erase_bind (readUStrC_fst 1 ..) fun ⟨altTag, p⟩ => ?_
  refine erase_bind (fmtDecC_fst ..) fun ⟨html, p⟩ => ?_
  refine erase_bind (readUStrC_fst 1 ..) fun ⟨cellText, p⟩ => ?_
  refine erase_bind (fmtDecC_fst ..) fun ⟨align, p⟩ => ?_
  refine erase_bind (fmtDecC_fst ..) fun ⟨argb, p⟩ => ?_
  refine erase_bind (SliceV6.peekDataC_fst ..) fun ⟨data, p⟩ => ?_
  rfl

/-- one slice: `4 · (bytes LEFT) + 42`; when it succeeds it consumed ≥ 69 bytes -/
theorem SliceV6.decC_weak (tb : Descriptor.Tables) {d : B} {p : Nat} (hp : p ≤ d.length) :
    Weak 4 42 69 d p (SliceV6.decC tb d p) := by
  apply Weak.mono
  case h =>
    unfold SliceV6.decC
    wbind (fmtDecC_cost SliceV6.headFmt)
    wbind (SliceV6.assocDecC_cost _ d _ (by assumption))
    wbind (readUStrC_cost 1)
    wbind (fmtDecC_cost [U 4])
    wbind (fmtDecC_cost SliceV6.bboxFmt)
    wbind (readUStrC_cost 1)
    wbind (readUStrC_cost 1)
    wbind (readUStrC_cost 1)
    wbind (readUStrC_cost 1)
    wbind (fmtDecC_cost [Q])
    wbind (readUStrC_cost 1)
    wbind (fmtDecC_cost [U 4, U 4])
    wbind (fmtDecC_cost SliceV6.argbFmt)
    exact Weak.bind_pure (SliceV6.peekDataC_weak tb (by assumption)) (fun _ _ => ⟨rfl, _, rfl⟩)
  all_goals decide

/-- the statement in plain words: whatever the outcome, at most `4 · (bytes left) + 42`, and no loop ran out of fuel -/
theorem SliceV6.decC_left (tb : Descriptor.Tables) (d : B) (p : Nat) (hp : p ≤ d.length) :
    (SliceV6.decC tb d p).2.w ≤ 4 * (d.length - p) + 42 ∧ (SliceV6.decC tb d p).1 ≠ .error .other :=
  ⟨(SliceV6.decC_weak tb hp).w_le, (SliceV6.decC_weak tb hp).ne_other⟩

/-! ### the judgement `Cost` fails for SliceV6: a witness

A slice without a descriptor followed by the `bait` — eight bytes that read as the head of a descriptor block whose
name is 2³¹ − 1 UTF-16 units long (and equally as the id 16 and the group id of a next slice), then `2m + 1` more bytes:
the speculative read copies all of them, fails to decode an odd number of bytes (`UnicodeDecodeError`, a `ValueError`)
and is undone. The slice consumed its own bytes only; it cost more than `2m + 1`. -/

/-- `00 00 00 10` (the version 16 of a descriptor block — or the id of the next slice), `7F FF FF FF` (the length of the
block's name in UTF-16 units — or the group id of the next slice), then an odd number of bytes -/
def SliceV6.bait (m : Nat) : B := [0, 0, 0, 16, 127, 255, 255, 255] ++ List.replicate (2 * m + 1) 0

theorem unitsOfBytes_odd (m : Nat) : Unicode.unitsOfBytes (List.replicate (2 * m + 1) 0) = none := by
  induction m with
  | zero => rfl
  | succ m ih =>
    have : 2 * (m + 1) + 1 = (2 * m + 1) + 1 + 1 := by omega
    rw [this, List.replicate_succ, List.replicate_succ]
    unfold Unicode.unitsOfBytes
    rw [ih]

theorem drop_pre (pre t : B) (i : Nat) : (pre ++ t).drop (pre.length + i) = t.drop i := by
  rw [← List.drop_drop, List.drop_left]

theorem SliceV6.bait_len (m : Nat) : (SliceV6.bait m).length = 2 * m + 9 := by
  unfold SliceV6.bait
  simp only [List.length_append, List.length_replicate, List.length_cons, List.length_nil]
  omega

theorem SliceV6.bait_readU (pre : B) (m : Nat) : readU 4 (pre ++ SliceV6.bait m) pre.length = .ok (16, pre.length + 4) := by
  have hl := SliceV6.bait_len m
  unfold readU readN
  rw [if_pos (by rw [List.length_append]; omega), List.drop_left]
  rfl

theorem SliceV6.bait_readU32 (pre : B) (m : Nat) :
    Unicode.readU32 (pre ++ SliceV6.bait m) (pre.length + 4) = .ok (2147483647, pre.length + 4 + 4) := by
  unfold Unicode.readU32 Unicode.slice
  rw [drop_pre]
  rfl

theorem SliceV6.bait_raw (pre : B) (m : Nat) (hm : 2 * m + 1 ≤ 4294967294) :
    Unicode.slice (pre ++ SliceV6.bait m) (pre.length + 4 + 4) (2 * 2147483647) = List.replicate (2 * m + 1) 0 := by
  unfold Unicode.slice
  rw [Nat.add_assoc, drop_pre]
  show List.take _ (List.replicate (2 * m + 1) 0) = _
  rw [List.take_of_length_le]
  rw [List.length_replicate]; omega

theorem SliceV6.bait_readStr (pre : B) (m : Nat) (hm : 2 * m + 1 ≤ 4294967294) :
    Descriptor.readStr (pre ++ SliceV6.bait m) (pre.length + 4) = .error .unicodeError := by
  unfold Descriptor.readStr Unicode.readUnicodeString
  rw [SliceV6.bait_readU32]
  dsimp only
  rw [SliceV6.bait_raw pre m hm, unitsOfBytes_odd]
  rfl

theorem SliceV6.bait_block (tb : Descriptor.Tables) (pre : B) (m : Nat) (hm : 2 * m + 1 ≤ 4294967294) :
    Descriptor.Block.dec tb (pre ++ SliceV6.bait m) pre.length = .error .unicodeError := by
  unfold Descriptor.Block.dec Descriptor.rbind
  rw [SliceV6.bait_readU]
  dsimp only
  unfold Descriptor.readBody Descriptor.rbind
  rw [SliceV6.bait_readStr pre m hm]

/-- the attempt on the bait is undone — it consumed nothing — and it cost more than the `2m + 1` bytes it copied -/
theorem SliceV6.tryBlockC_bait (tb : Descriptor.Tables) (pre : B) (m : Nat) (hm : 2 * m + 1 ≤ 4294967294) :
    (SliceV6.tryBlockC tb (pre ++ SliceV6.bait m) pre.length).1 = .ok (none, pre.length) ∧
    2 * m + 8 ≤ (SliceV6.tryBlockC tb (pre ++ SliceV6.bait m) pre.length).2.w := by
  constructor
  · unfold SliceV6.tryBlockC
    dsimp only
    rw [DescriptorCost.Block.decC_fst, SliceV6.bait_block tb pre m hm]
  · show 2 * m + 8 ≤ (DescriptorCost.Block.decC tb (pre ++ SliceV6.bait m) pre.length).2.w
    unfold DescriptorCost.Block.decC DescriptorCost.rbindC
    have h1 : (readUC 4 (pre ++ SliceV6.bait m) pre.length).1 = .ok (16, pre.length + 4) := by
      rw [readUC_fst]; exact SliceV6.bait_readU pre m
    rw [bind_ok' h1]
    dsimp only
    unfold DescriptorCost.readBodyC DescriptorCost.rbindC
    have h2 : (DescriptorCost.readStrC (pre ++ SliceV6.bait m) (pre.length + 4)).1 = .error .unicodeError := by
      rw [DescriptorCost.er_readStrC]; exact SliceV6.bait_readStr pre m hm
    rw [bind_err' h2]
    show 2 * m + 8 ≤ ((readUC 4 (pre ++ SliceV6.bait m) pre.length).2 + (readUStrC 1 (pre ++ SliceV6.bait m) (pre.length + 4)).2).w
    rw [w_add]
    have hw : (readUStrC 1 (pre ++ SliceV6.bait m) (pre.length + 4)).2.w =
        3 + (4 + (Unicode.slice (pre ++ SliceV6.bait m) (pre.length + 4 + 4) (2 * 2147483647)).length +
          (Unicode.slice (pre ++ SliceV6.bait m)
            (pre.length + 4 + 4 + (Unicode.slice (pre ++ SliceV6.bait m) (pre.length + 4 + 4) (2 * 2147483647)).length)
            (Unicode.padLen (4 + 2 * 2147483647) 1)).length) := by
      unfold readUStrC
      rw [SliceV6.bait_readU32]
      rfl
    rw [hw, SliceV6.bait_raw pre m hm, List.length_replicate]
    omega

theorem le_w_bind_ok {α β : Type} {m : CE β} {f : β → CE α} {a : β} {n : Nat} (h : m.1 = .ok a) (hn : n ≤ (f a).2.w) :
    n ≤ (m >>= f).2.w := by
  rw [bind_ok' h]
  show n ≤ (m.2 + (f a).2).w
  rw [w_add]
  omega

theorem SliceV6.peekDataC_bait (tb : Descriptor.Tables) (pre : B) (m : Nat) (hm : 2 * m + 1 ≤ 4294967294) :
    (SliceV6.peekDataC tb (pre ++ SliceV6.bait m) pre.length).1 = .ok (none, pre.length) ∧
    2 * m + 8 ≤ (SliceV6.peekDataC tb (pre ++ SliceV6.bait m) pre.length).2.w := by
  have hl := SliceV6.bait_len m
  have hr : isReadable 4 (pre ++ SliceV6.bait m) pre.length = true := by
    unfold isReadable
    rw [List.length_append]
    exact decide_eq_true (by omega)
  have h0 : (isReadableC 4 (pre ++ SliceV6.bait m) pre.length).1 = .ok true := by rw [isReadableC_fst, hr]
  have h1 : (readUC 4 (pre ++ SliceV6.bait m) pre.length).1 = .ok (16, pre.length + 4) := by
    rw [readUC_fst]; exact SliceV6.bait_readU pre m
  have ht := SliceV6.tryBlockC_bait tb pre m hm
  unfold SliceV6.peekDataC
  constructor
  · rw [bind_ok' h0]
    dsimp only
    rw [if_pos rfl, bind_ok' h1]
    dsimp only
    rw [if_pos rfl]
    exact ht.1
  · refine le_w_bind_ok h0 ?_
    dsimp only
    rw [if_pos rfl]
    refine le_w_bind_ok h1 ?_
    dsimp only
    rw [if_pos rfl]
    exact ht.2

theorem le_w_bind_left {α β : Type} {m : CE β} {f : β → CE α} {a : β} {n : Nat} (h : m.1 = .ok a) (hn : n ≤ m.2.w) :
    n ≤ (m >>= f).2.w := by
  rw [bind_ok' h]
  show n ≤ (m.2 + (f a).2).w
  rw [w_add]
  omega

/-- a slice without a descriptor, followed by the bait: the slice is read, it consumed exactly its own bytes, and it
cost more than the `2m + 1` bytes that follow the bait's header -/
theorem SliceV6.decC_bait_at (tb : Descriptor.Tables) {x : SliceV6} (hwf : SliceV6.WF tb x) (hf : SliceV6.Fits tb x)
    (hx : x.data = none) (m : Nat) (hm : 2 * m + 1 ≤ 4294967294) {d : B} {p : Nat}
    (h : At d p (SliceV6.encT tb x ++ SliceV6.bait m))
    (hend : d.length = p + (SliceV6.encT tb x).length + (2 * m + 9)) :
    (SliceV6.decC tb d p).1 = .ok (x, p + (SliceV6.encT tb x).length) ∧ 2 * m + 8 ≤ (SliceV6.decC tb d p).2.w := by
  obtain ⟨wa, w1, w2, w3, w4, w5, w6, w7, wd⟩ := hwf
  obtain ⟨f1, f2, f3, f4, f5, f6, f7, f8, f9, f10, f11, f12, f13, f14⟩ := hf
  obtain ⟨head, assoc, name, st, bbox, url, target, message, altTag, html, cellText, align, argb, data⟩ := x
  simp only at hx
  subst hx
  simp only [SliceV6.assocWritten] at wa f2
  have hnone : optT (Descriptor.Block.encT tb 1) (none : Option Descriptor.Block) = [] := rfl
  simp only [SliceV6.encT, SliceV6.tailT, SliceV6.assocWritten, hnone, List.append_assoc, List.append_nil] at h hend ⊢
  obtain ⟨e1, h⟩ := fmt_step' (fs := SliceV6.headFmt) rfl f1 (fmtWF_of_plain _ _ rfl) h
  obtain ⟨e2, h⟩ := SliceV6.assoc_step wa f2 h
  obtain ⟨e3, h⟩ := ustr_step w1 f3 h
  obtain ⟨e4, h⟩ := fmt_step' (fs := [U 4]) rfl f4 (fmtWF_of_plain _ _ rfl) h
  obtain ⟨e5, h⟩ := fmt_step' (fs := SliceV6.bboxFmt) rfl f5 (fmtWF_of_plain _ _ rfl) h
  obtain ⟨e6, h⟩ := ustr_step w2 f6 h
  obtain ⟨e7, h⟩ := ustr_step w3 f7 h
  obtain ⟨e8, h⟩ := ustr_step w4 f8 h
  obtain ⟨e9, h⟩ := ustr_step w5 f9 h
  obtain ⟨e10, h⟩ := fmt_step' (fs := [Q]) rfl f10 w7 h
  obtain ⟨e11, h⟩ := ustr_step w6 f11 h
  obtain ⟨e12, h⟩ := fmt_step' (fs := [U 4, U 4]) rfl f12 (fmtWF_of_plain _ _ rfl) h
  obtain ⟨e13, h⟩ := fmt_step' (fs := SliceV6.argbFmt) rfl f13 (fmtWF_of_plain _ _ rfl) h
  obtain ⟨pre, post, rfl, hq⟩ := h
  have hl := SliceV6.bait_len m
  have hpost : post = [] := by
    apply List.eq_nil_of_length_eq_zero
    simp only [List.length_append] at hend hq
    omega
  subst hpost
  simp only [List.append_nil] at e1 e2 e3 e4 e5 e6 e7 e8 e9 e10 e11 e12 e13 ⊢
  have hk := SliceV6.peekDataC_bait tb pre m hm
  rw [hq] at hk
  have e14 := hk.1
  rw [SliceV6.peekDataC_fst] at e14
  constructor
  · rw [SliceV6.decC_fst]
    simp only [SliceV6.dec, bind, Except.bind, e1, e2, e3, e4, e5, e6, e7, e8, e9, e10, e11, e12, e13, e14]
    simp only [List.length_append, Nat.add_assoc]
  · unfold SliceV6.decC
    refine le_w_bind_ok (by rw [fmtDecC_fst]; exact e1) ?_
    dsimp only
    refine le_w_bind_ok (by rw [SliceV6.assocDecC_fst]; exact e2) ?_
    dsimp only
    refine le_w_bind_ok (by rw [readUStrC_fst]; exact e3) ?_
    dsimp only
    refine le_w_bind_ok (by rw [fmtDecC_fst]; exact e4) ?_
    dsimp only
    refine le_w_bind_ok (by rw [fmtDecC_fst]; exact e5) ?_
    dsimp only
    refine le_w_bind_ok (by rw [readUStrC_fst]; exact e6) ?_
    dsimp only
    refine le_w_bind_ok (by rw [readUStrC_fst]; exact e7) ?_
    dsimp only
    refine le_w_bind_ok (by rw [readUStrC_fst]; exact e8) ?_
    dsimp only
    refine le_w_bind_ok (by rw [readUStrC_fst]; exact e9) ?_
    dsimp only
    refine le_w_bind_ok (by rw [fmtDecC_fst]; exact e10) ?_
    dsimp only
    refine le_w_bind_ok (by rw [readUStrC_fst]; exact e11) ?_
    dsimp only
    refine le_w_bind_ok (by rw [fmtDecC_fst]; exact e12) ?_
    dsimp only
    refine le_w_bind_ok (by rw [fmtDecC_fst]; exact e13) ?_
    dsimp only
    exact le_w_bind_left hk.1 hk.2

/-- a slice of 69 zero bytes -/
def SliceV6.blank : SliceV6 :=
  ⟨[.int 0, .int 0, .int 0], none, [], [.int 0], [.int 0, .int 0, .int 0, .int 0], [], [], [], [], [.int 0], [],
    [.int 0, .int 0], [.int 0, .int 0, .int 0, .int 0], none⟩

theorem SliceV6.blank_wf (tb : Descriptor.Tables) : SliceV6.WF tb SliceV6.blank :=
  ⟨by decide, by decide, by decide, by decide, by decide, by decide, by decide, by decide, trivial⟩

theorem SliceV6.blank_fits (tb : Descriptor.Tables) : SliceV6.Fits tb SliceV6.blank :=
  ⟨by decide, by decide, by decide, by decide, by decide, by decide, by decide, by decide, by decide, by decide,
    by decide, by decide, by decide, trivial⟩

theorem SliceV6.blank_len (tb : Descriptor.Tables) : (SliceV6.encT tb SliceV6.blank).length = 69 := rfl

/-- the 69 + 9 + 2m bytes `blank ++ bait m`: `SliceV6.read` returns the blank slice at cursor 69 and costs ≥ 2m + 8 -/
theorem SliceV6.decC_blank_bait (tb : Descriptor.Tables) (m : Nat) (hm : 2 * m + 1 ≤ 4294967294) :
    (SliceV6.decC tb (SliceV6.encT tb SliceV6.blank ++ SliceV6.bait m) 0).1 = .ok (SliceV6.blank, 69) ∧
    2 * m + 8 ≤ (SliceV6.decC tb (SliceV6.encT tb SliceV6.blank ++ SliceV6.bait m) 0).2.w := by
  have h := SliceV6.decC_bait_at tb (SliceV6.blank_wf tb) (SliceV6.blank_fits tb) rfl m hm
    (d := SliceV6.encT tb SliceV6.blank ++ SliceV6.bait m) (p := 0) (At.self _)
    (by rw [List.length_append, SliceV6.bait_len]; omega)
  rw [SliceV6.blank_len] at h
  exact h

/-- so `SliceV6` does not obey `Cost`, whatever the coefficient and the constant (below the 2³² a length field can hold):
a slice that succeeds is NOT paid by the bytes it consumed -/
theorem SliceV6.decC_not_cost (tb : Descriptor.Tables) (a b k : Nat) (hb : a * 69 + b < 4294967294) :
    ¬ CostR a b k (SliceV6.decC tb) := by
  intro h
  have hw := SliceV6.decC_blank_bait tb ((a * 69 + b) / 2) (by omega)
  have hc := (h _ 0 (Nat.zero_le _)).of_ok hw.1
  have h2 := hc.2.2
  have e : a * (69 - 0) = a * 69 := rfl
  rw [e] at h2
  omega


/-! ### SlicesV6 / Slices: quadratic -/

/-- ticks + bytes ≤ (bytes left + 1) · (a · (bytes left) + b), whatever the outcome -/
def Quad {β : Type} (a b : Nat) (d : B) (p : Nat) (x : CE (β × Nat)) : Prop :=
  match x.1 with
  | .ok (_, p') => p ≤ p' ∧ p' ≤ d.length ∧ x.2.w ≤ (d.length - p + 1) * (a * (d.length - p) + b)
  | .error e => e ≠ .other ∧ x.2.w ≤ (d.length - p + 1) * (a * (d.length - p) + b)

theorem Quad.of_ok {β : Type} {a b : Nat} {d : B} {p : Nat} {x : CE (β × Nat)} {v : β} {p' : Nat}
    (h : Quad a b d p x) (hx : x.1 = .ok (v, p')) :
    p ≤ p' ∧ p' ≤ d.length ∧ x.2.w ≤ (d.length - p + 1) * (a * (d.length - p) + b) := by
  unfold Quad at h; rw [hx] at h; exact h

theorem Quad.of_error {β : Type} {a b : Nat} {d : B} {p : Nat} {x : CE (β × Nat)} {e : Err}
    (h : Quad a b d p x) (hx : x.1 = .error e) :
    e ≠ .other ∧ x.2.w ≤ (d.length - p + 1) * (a * (d.length - p) + b) := by
  unfold Quad at h; rw [hx] at h; exact h

theorem Quad.intro {β : Type} {a b : Nat} {d : B} {p : Nat} {x : CE (β × Nat)}
    (hok : ∀ v p', x.1 = .ok (v, p') → p ≤ p' ∧ p' ≤ d.length ∧ x.2.w ≤ (d.length - p + 1) * (a * (d.length - p) + b))
    (herr : ∀ e, x.1 = .error e → e ≠ .other ∧ x.2.w ≤ (d.length - p + 1) * (a * (d.length - p) + b)) :
    Quad a b d p x := by
  unfold Quad
  cases hx : x.1 with
  | error e => exact herr e hx
  | ok y => obtain ⟨v, p'⟩ := y; exact hok v p' hx

theorem Quad.w_le {β : Type} {a b : Nat} {d : B} {p : Nat} {x : CE (β × Nat)} (h : Quad a b d p x) :
    x.2.w ≤ (d.length - p + 1) * (a * (d.length - p) + b) := by
  cases hx : x.1 with
  | error e => exact (h.of_error hx).2
  | ok y => obtain ⟨v, p'⟩ := y; exact (h.of_ok hx).2.2

theorem Quad.ne_other {β : Type} {a b : Nat} {d : B} {p : Nat} {x : CE (β × Nat)} (h : Quad a b d p x) :
    x.1 ≠ .error .other := fun hx => (h.of_error hx).1 rfl

/-- the bound grows with both constants and with the bytes left -/
theorem quad_mono {a a' b b' r r' : Nat} (ha : a ≤ a') (hb : b ≤ b') (hr : r ≤ r') :
    (r + 1) * (a * r + b) ≤ (r' + 1) * (a' * r' + b') :=
  Nat.mul_le_mul (by omega) (Nat.add_le_add (Nat.mul_le_mul ha hr) hb)

theorem Quad.mono {β : Type} {a a' b b' : Nat} {d : B} {p : Nat} {x : CE (β × Nat)}
    (h : Quad a' b' d p x) (ha : a' ≤ a) (hb : b' ≤ b) : Quad a b d p x := by
  have hq := quad_mono (r := d.length - p) ha hb (Nat.le_refl _)
  refine Quad.intro (fun v p' hx => ?_) (fun e hx => ?_)
  · have h1 := h.of_ok hx
    exact ⟨h1.1, h1.2.1, Nat.le_trans h1.2.2 hq⟩
  · have h1 := h.of_error hx
    exact ⟨h1.1, Nat.le_trans h1.2 hq⟩

theorem Quad.of_weak {β : Type} {a b k : Nat} {d : B} {p : Nat} {x : CE (β × Nat)} (h : Weak a b k d p x) :
    Quad a b d p x := by
  have hq : a * (d.length - p) + b ≤ (d.length - p + 1) * (a * (d.length - p) + b) :=
    Nat.le_mul_of_pos_left _ (by omega)
  refine Quad.intro (fun v p' hx => ?_) (fun e hx => ?_)
  · have h1 := h.of_ok hx
    exact ⟨by omega, h1.2.1, Nat.le_trans h1.2.2 hq⟩
  · have h1 := h.of_error hx
    exact ⟨h1.1, Nat.le_trans h1.2 hq⟩

theorem Quad.of_cost {β : Type} {a b k : Nat} {d : B} {p : Nat} {x : CE (β × Nat)} (h : Cost a b k d p x) :
    Quad a b d p x := Quad.of_weak (Weak.of_cost h)

/-- `for _ in range(n)` over items that obey `Weak` and consume ≥ 1 byte when they succeed: at most `bytes left`
iterations succeed, each costs at most `a · (bytes left) + b + 1` -/
theorem readCountC_quad {α : Type} {item : RC α} {a b k : Nat} {d : B}
    (hi : ∀ p, p ≤ d.length → Weak a b k d p (item d p)) (hk : 1 ≤ k) (n : Nat) (p : Nat) (hp : p ≤ d.length) :
    Quad a (b + 1) d p (readCountC item n d p) := by
  induction n generalizing p with
  | zero =>
    unfold readCountC Quad
    exact ⟨Nat.le_refl _, hp, Nat.zero_le _⟩
  | succ n ih =>
    unfold readCountC
    rw [bind_ok' tick_fst]
    have hX : (d.length - p + 1) * (a * (d.length - p) + (b + 1)) =
        (d.length - p) * (a * (d.length - p) + (b + 1)) + (a * (d.length - p) + (b + 1)) := Nat.succ_mul _ _
    cases h1 : (item d p).1 with
    | error e' =>
      rw [bind_err' h1]
      have i1 := (hi p hp).of_error h1
      unfold Quad
      refine ⟨i1.1, ?_⟩
      show (PsdCost.tick.2 + (item d p).2).w ≤ _
      rw [w_add, tick_w, hX]
      omega
    | ok y =>
      obtain ⟨a1, p1⟩ := y
      have i1 := (hi p hp).of_ok h1
      rw [bind_ok' h1]
      dsimp only
      have hrest : (d.length - p1 + 1) * (a * (d.length - p1) + (b + 1)) ≤
          (d.length - p) * (a * (d.length - p) + (b + 1)) :=
        Nat.mul_le_mul (by omega) (Nat.add_le_add (Nat.mul_le_mul_left a (by omega)) (Nat.le_refl _))
      cases h2 : (readCountC item n d p1).1 with
      | error e' =>
        rw [bind_err' h2]
        have i2 := (ih p1 i1.2.1).of_error h2
        unfold Quad
        refine ⟨i2.1, ?_⟩
        show (PsdCost.tick.2 + ((item d p).2 + (readCountC item n d p1).2)).w ≤ _
        rw [w_add, w_add, tick_w, hX]
        omega
      | ok z =>
        obtain ⟨as, p2⟩ := z
        have i2 := (ih p1 i1.2.1).of_ok h2
        rw [bind_ok' h2]
        unfold Quad
        refine ⟨by dsimp only; omega, i2.2.1, ?_⟩
        show (PsdCost.tick.2 + ((item d p).2 + ((readCountC item n d p1).2 + (CE.ok (a1 :: as, p2) : CE (List α × Nat)).2))).w ≤ _
        rw [w_add, w_add, w_add, tick_w, ok_w, hX]
        omega

/-- a prefix that obeys `Cost`, then a continuation that obeys `Quad` -/
theorem Quad.bind {α β : Type} {a₁ a₂ b₁ b₂ k₁ : Nat} {d : B} {p : Nat} {m : CE (β × Nat)}
    {f : β × Nat → CE (α × Nat)} (hm : Cost a₁ b₁ k₁ d p m)
    (hf : ∀ v p₁, m.1 = .ok (v, p₁) → p₁ ≤ d.length → Quad a₂ b₂ d p₁ (f (v, p₁))) :
    Quad a₂ (b₂ + (a₁ + b₁)) d p (m >>= f) := by
  -- (r + 1) · (a₂ r + b₂ + a₁ + b₁) = (r + 1) · (a₂ r + b₂) + r · (a₁ + b₁) + (a₁ + b₁)
  have hsplit : (d.length - p + 1) * (a₂ * (d.length - p) + (b₂ + (a₁ + b₁))) =
      (d.length - p + 1) * (a₂ * (d.length - p) + b₂) + ((d.length - p) * a₁ + (d.length - p) * b₁ + (a₁ + b₁)) := by
    rw [← Nat.add_assoc, Nat.mul_add (d.length - p + 1) (a₂ * (d.length - p) + b₂) (a₁ + b₁),
      Nat.succ_mul (d.length - p) (a₁ + b₁), Nat.mul_add (d.length - p) a₁ b₁]
  have hpre := hm.w_le
  have hc : a₁ * (d.length - p) = (d.length - p) * a₁ := Nat.mul_comm _ _
  cases hm1 : m.1 with
  | error e =>
    rw [bind_err' hm1]
    refine Quad.intro (fun _ _ hx => by cases hx) (fun e' hx => ?_)
    cases hx
    have h1 := hm.of_error hm1
    refine ⟨h1.1, ?_⟩
    show m.2.w ≤ _
    rw [hsplit]
    omega
  | ok y =>
    obtain ⟨v, p₁⟩ := y
    have h1 := hm.of_ok hm1
    have h2' := hf v p₁ hm1 h1.2.1
    rw [bind_ok' hm1]
    have hq := quad_mono (a := a₂) (b := b₂) (r := d.length - p₁) (r' := d.length - p) (Nat.le_refl _) (Nat.le_refl _) (by omega)
    refine Quad.intro (fun v' p' hx => ?_) (fun e' hx => ?_)
    · have h2 := h2'.of_ok hx
      refine ⟨by omega, h2.2.1, ?_⟩
      show (m.2 + (f (v, p₁)).2).w ≤ _
      rw [w_add, hsplit]
      omega
    · have h2 := h2'.of_error hx
      refine ⟨h2.1, ?_⟩
      show (m.2 + (f (v, p₁)).2).w ≤ _
      rw [w_add, hsplit]
      omega

/-- the last statement builds the value: no read, same cursor -/
theorem Quad.bind_pure {α β : Type} {a b : Nat} {d : B} {p : Nat} {m : CE (β × Nat)} {f : β × Nat → CE (α × Nat)}
    (hm : Quad a b d p m) (hf : ∀ v p₁, (f (v, p₁)).2.w = 0 ∧ ∃ v', (f (v, p₁)).1 = .ok (v', p₁)) :
    Quad a b d p (m >>= f) := by
  cases hm1 : m.1 with
  | error e =>
    rw [bind_err' hm1]
    refine Quad.intro (fun _ _ hx => by cases hx) (fun e' hx => ?_)
    cases hx
    exact hm.of_error hm1
  | ok y =>
    obtain ⟨v, p₁⟩ := y
    have h1 := hm.of_ok hm1
    obtain ⟨hw, v', hv⟩ := hf v p₁
    rw [bind_ok' hm1]
    refine Quad.intro (fun v'' p' hx => ?_) (fun e' hx => ?_)
    · have hx' : (f (v, p₁)).1 = .ok (v'', p') := hx
      rw [hv] at hx'
      cases hx'
      refine ⟨h1.1, h1.2.1, ?_⟩
      show (m.2 + (f (v, p₁)).2).w ≤ _
      rw [w_add, hw]
      exact h1.2.2
    · have hx' : (f (v, p₁)).1 = .error e' := hx
      rw [hv] at hx'
      cases hx'

/-- `qbind h`: the next statement obeys `Cost` with `h`, the rest of the block obeys `Quad` -/
macro "qbind " t:term : tactic => `(tactic| (apply Quad.bind $t; intro _ _ _ _; try dsimp only))

theorem SlicesV6.decC_fst (tb : Descriptor.Tables) (d : B) (p : Nat) : (SlicesV6.decC tb d p).1 = SlicesV6.dec tb d p := by
  unfold SlicesV6.decC SlicesV6.dec
  refine erase_bind (fmtDecC_fst ..) fun ⟨bbox, p⟩ => ?_
  refine erase_bind (readUStrC_fst 1 ..) fun ⟨name, p⟩ => ?_
  refine erase_bind (readUC_fst ..) fun ⟨count, p⟩ => ?_
  refine erase_bind (readCountC_fst (SliceV6.decC_fst tb) ..) fun ⟨items, p⟩ => ?_
  rfl

/-- `for _ in range(count): SliceV6.read(fp)`: quadratic in the bytes left, whatever the count -/
theorem SlicesV6.decC_quad (tb : Descriptor.Tables) {d : B} {p : Nat} (hp : p ≤ d.length) :
    Quad 4 51 d p (SlicesV6.decC tb d p) := by
  apply Quad.mono
  case h =>
    unfold SlicesV6.decC
    qbind (fmtDecC_cost SliceV6.bboxFmt)
    qbind (readUStrC_cost 1)
    qbind (readUC_cost 4)
    exact Quad.bind_pure (readCountC_quad (fun q hq => SliceV6.decC_weak tb hq) (by decide) _ _ (by assumption))
      (fun _ _ => ⟨rfl, _, rfl⟩)
  all_goals decide

theorem SlicesV6.decC_left (tb : Descriptor.Tables) (d : B) (p : Nat) (hp : p ≤ d.length) :
    (SlicesV6.decC tb d p).2.w ≤ (d.length - p + 1) * (4 * (d.length - p) + 51) ∧
    (SlicesV6.decC tb d p).1 ≠ .error .other :=
  ⟨(SlicesV6.decC_quad tb hp).w_le, (SlicesV6.decC_quad tb hp).ne_other⟩

theorem Slices.decC_fst (tb : Descriptor.Tables) (d : B) (p : Nat) : (Slices.decC tb d p).1 = Slices.dec tb d p := by
  unfold Slices.decC Slices.dec
  refine erase_bind (readUC_fst ..) fun ⟨version, p⟩ => ?_
  dsimp only
  split
  · split
    · refine erase_bind (SlicesV6.decC_fst ..) fun ⟨x, p⟩ => ?_
      rfl
    · refine erase_bind (DescriptorCost.Block.decC_fst ..) fun ⟨b, p⟩ => ?_
      rfl
  · rfl

theorem Slices.decC_quad (tb : Descriptor.Tables) {d : B} {p : Nat} (_hp : p ≤ d.length) :
    Quad 4 53 d p (Slices.decC tb d p) := by
  apply Quad.mono
  case h =>
    unfold Slices.decC
    qbind (readUC_cost 4)
    split
    · split
      · exact Quad.bind_pure (SlicesV6.decC_quad tb (by assumption)) (fun _ _ => ⟨rfl, _, rfl⟩)
      · exact (Quad.bind_pure (Quad.of_cost (DescriptorCost.Block.decC_cost tb d _ (by assumption)))
          (fun _ _ => ⟨rfl, _, rfl⟩)).mono (Nat.le_refl _) (by decide)
    · exact (Quad.of_cost (Cost.error 0 (by decide))).mono (by decide) (by decide)
  all_goals decide

theorem Slices.decC_left (tb : Descriptor.Tables) (d : B) (p : Nat) (hp : p ≤ d.length) :
    (Slices.decC tb d p).2.w ≤ (d.length - p + 1) * (4 * (d.length - p) + 53) ∧
    (Slices.decC tb d p).1 ≠ .error .other :=
  ⟨(Slices.decC_quad tb hp).w_le, (Slices.decC_quad tb hp).ne_other⟩

/-! ## the table of the unit -/

/-- the classes of this unit that obey `Cost` with the constants proved above (a shape does not depend on the tables
`tb`: `descTable_cc` ties every row to the `cc` of its class) -/
def descTable : List (String × Sh) := [
  ("MetadataSetting", .hand "MetadataSetting" 6 16 16 [⟨"count", 4⟩]),
  ("MetadataSettings", .hand "MetadataSettings" 23 18 4 [⟨"count", 16⟩, ⟨"count", 4⟩]),
  ("SmartObjectLayerData", .hand "SmartObjectLayerData" 4 9 24 [⟨"count", 4⟩]),
  ("PlacedLayerData", .hand "PlacedLayerData" 4 33 109 [⟨"fixed", 8⟩, ⟨"count", 4⟩]),
  ("TypeToolObjectSetting", .hand "TypeToolObjectSetting" 4 33 102 [⟨"fixed", 8⟩, ⟨"count", 4⟩, ⟨"count", 4⟩]),
  ("LinkedLayer", .hand "LinkedLayer" 4 45 30 [⟨"count", 4⟩, ⟨"count", 4⟩, ⟨"fixed", 1⟩]),
  ("LinkedLayers", .hand "LinkedLayers" 66 70 0 [⟨"while", 8⟩, ⟨"count", 4⟩, ⟨"count", 4⟩, ⟨"fixed", 1⟩]),
  ("ColorLookup", .hand "ColorLookup" 4 8 18 [⟨"count", 4⟩]),
  ("VectorStrokeContentSetting", .hand "VectorStrokeContentSetting" 4 8 20 [⟨"count", 4⟩]),
  ("DescriptorBlock", .hand "DescriptorBlock" 4 7 16 [⟨"count", 4⟩]),
  ("DescriptorBlock2", .hand "DescriptorBlock2" 4 8 20 [⟨"count", 4⟩])]

theorem descTable_cc (tb : Descriptor.Tables) (pad : Nat) : descTable = [
    ("MetadataSetting", (MetadataSetting.cc tb).sh),
    ("MetadataSettings", (MetadataSettings.cc tb).sh),
    ("SmartObjectLayerData", (SmartObjectLayerData.cc tb pad).sh),
    ("PlacedLayerData", (PlacedLayerData.cc tb pad).sh),
    ("TypeToolObjectSetting", (TypeToolObjectSetting.cc tb pad).sh),
    ("LinkedLayer", (LinkedLayer.cc tb pad).sh),
    ("LinkedLayers", (LinkedLayers.cc tb).sh),
    ("ColorLookup", (ColorLookup.cc tb pad).sh),
    ("VectorStrokeContentSetting", (VectorStrokeContentSetting.cc tb pad).sh),
    ("DescriptorBlock", (DescriptorResource.cc tb).sh),
    ("DescriptorBlock2", (Descriptor2Payload.cc tb pad).sh)] := rfl

theorem DescriptorPayload.cc_sh (tb : Descriptor.Tables) (pad : Nat) :
    (DescriptorPayload.cc tb pad).sh = (DescriptorResource.cc tb).sh := rfl

theorem desc_body_progress : descTable.all (fun e => e.2.bodyProgress) = true := by decide

/-- the classes of this unit that do NOT obey `Cost` (an undone speculative read is paid by nothing): for them
`SliceV6.decC_left` (linear in the bytes LEFT), `SlicesV6.decC_left` and `Slices.decC_left` (QUADRATIC) are what holds -/
def descNotLinear : List String := ["SliceV6", "SlicesV6", "Slices"]

end PsdVerif.PayloadCost
