/-
Lemmas for C18: the parser on the token stream of a well-formed tree. Core Lean only.
-/
import PsdVerif.Lemmas.EngineDataTree

namespace PsdVerif.EngineData

theorem Toks_inv {d : BL} {tok : BL} {ty : Tok} {ts : List (BL × Tok)} (h : Toks d ((tok, ty) :: ts)) :
    ∃ rest, nextTok d = .ok (some (tok, ty, rest)) ∧ Toks rest ts := by
  cases h with
  | cons h0 h1 => exact ⟨_, h0, h1⟩

theorem Toks_inv_nil {d : BL} (h : Toks d []) : nextTok d = .ok none := by
  cases h with
  | nil h0 => exact h0

theorem insertKey_new (acc : List (BL × Val)) (k : BL) (v : Val) (h : ∀ p ∈ acc, p.1 ≠ k) :
    insertKey acc k v = acc ++ [(k, v)] := by
  have : acc.any (fun p => p.1 == k) = false := by
    rw [List.any_eq_false]
    intro p hp; simpa using h p hp
  simp [insertKey, this]

theorem any_key_false {t : List (BL × Val)} {k : BL} (h : (!(t.any (fun p => p.1 == k))) = true) :
    ∀ q ∈ t, q.1 ≠ k := by
  intro q hq
  simp only [Bool.not_eq_true', List.any_eq_false] at h
  simpa using h q hq

mutual
/-- The dictionary loop reads the pairs of a well-formed dictionary back and goes on with
what follows them. -/
theorem parse_pairs (hf : FloatOK) (items : List (BL × Val)) (h : wfPairs items = true) (f : Nat) (d : BL)
    (acc : List (BL × Val)) (ts : List (BL × Tok)) (ht : Toks d (tokPairs items ++ ts))
    (hfuel : (tokPairs items ++ ts).length + 1 ≤ f) (hacc : ∀ p ∈ acc, ∀ q ∈ items, p.1 ≠ q.1) :
    ∃ d' f', Toks d' ts ∧ ts.length + 1 ≤ f' ∧ parseDict f d acc = parseDict f' d' (acc ++ items) := by
  match items with
  | [] => exact ⟨d, f, by simpa [tokPairs] using ht, by simpa [tokPairs] using hfuel, by simp⟩
  | (k, v) :: t =>
    rw [wfPairs] at h
    simp only [Bool.and_eq_true] at h
    obtain ⟨⟨⟨hk, hkt⟩, hv⟩, hT⟩ := h
    have hkt' := any_key_false hkt
    rw [tokPairs] at ht hfuel
    simp only [List.cons_append, List.append_assoc] at ht hfuel
    obtain ⟨rest, hn1, ht1⟩ := Toks_inv ht
    have hkey : (0x2F :: k).filter (· != 0x2F) = k := key_name k hk
    have hnew : ∀ p ∈ acc, p.1 ≠ k := fun p hp => hacc p hp (k, v) (by simp)
    have hacc' : ∀ (w : Val), ∀ p ∈ acc ++ [(k, w)], ∀ q ∈ t, p.1 ≠ q.1 := by
      intro w p hp q hq
      rcases List.mem_append.mp hp with hp | hp
      · exact hacc p hp q (by simp [hq])
      · simp at hp; subst hp; exact fun e => hkt' q hq e.symm
    obtain ⟨f0, rfl⟩ : ∃ f0, f = f0 + 1 := ⟨f - 1, by simp at hfuel; omega⟩
    match v with
    | .sc s =>
      rw [wfVal] at hv
      rw [tokVal] at ht1 hfuel
      simp only [List.cons_append, List.nil_append, List.singleton_append] at ht1 hfuel
      obtain ⟨rest2, hn2, ht2⟩ := Toks_inv ht1
      obtain ⟨d', f', hd', hf', he⟩ := parse_pairs hf t hT f0 rest2 (acc ++ [(k, .sc s)]) ts ht2
        (by simp at hfuel ⊢; omega) (hacc' _)
      refine ⟨d', f', hd', hf', ?_⟩
      have hval := (scalarOK hf s hv).val
      rw [parseDict]
      simp only [hn1, hn2, hkey]
      cases s <;> first
        | (cases hv; done)
        | (simp only [tyOf] at hval ⊢; rw [hval]; simp only []; rw [insertKey_new _ _ _ hnew, he]; simp)
    | .dict items' =>
      rw [wfVal] at hv
      rw [tokVal] at ht1 hfuel
      simp only [List.cons_append, List.append_assoc, List.singleton_append] at ht1 hfuel
      obtain ⟨rest2, hn2, ht2⟩ := Toks_inv ht1
      obtain ⟨d1, f1, hd1, hf1, he1⟩ := parse_pairs hf items' hv f0 rest2 [] (tGG :: (tokPairs t ++ ts)) ht2
        (by simp at hfuel ⊢; omega) (by simp)
      obtain ⟨f1', rfl⟩ : ∃ f1', f1 = f1' + 1 := ⟨f1 - 1, by simp at hf1; omega⟩
      obtain ⟨r, hn3, ht3⟩ := Toks_inv hd1
      have hnested : parseDict f0 rest2 [] = .ok (items', r) := by
        rw [he1, parseDict]
        simp only [hn3, tGG, List.nil_append]
      obtain ⟨d', f', hd', hf', he⟩ := parse_pairs hf t hT f0 r (acc ++ [(k, .dict items')]) ts ht3
        (by simp at hfuel ⊢; omega) (hacc' _)
      refine ⟨d', f', hd', hf', ?_⟩
      rw [parseDict]
      simp only [hn1, hn2, hkey, tLL, hnested]
      rw [insertKey_new _ _ _ hnew, he]
      simp
    | .list elems =>
      rw [wfVal] at hv
      rw [tokVal] at ht1 hfuel
      simp only [List.cons_append, List.append_assoc, List.singleton_append] at ht1 hfuel
      obtain ⟨rest2, hn2, ht2⟩ := Toks_inv ht1
      obtain ⟨d1, f1, hd1, hf1, he1⟩ := parse_elems hf elems hv f0 rest2 [] (tRB :: (tokPairs t ++ ts)) ht2
        (by simp at hfuel ⊢; omega)
      obtain ⟨f1', rfl⟩ : ∃ f1', f1 = f1' + 1 := ⟨f1 - 1, by simp at hf1; omega⟩
      obtain ⟨r, hn3, ht3⟩ := Toks_inv hd1
      have hnested : parseList f0 rest2 [] = .ok (elems, r) := by
        rw [he1, parseList]
        simp only [hn3, tRB, List.nil_append]
      obtain ⟨d', f', hd', hf', he⟩ := parse_pairs hf t hT f0 r (acc ++ [(k, .list elems)]) ts ht3
        (by simp at hfuel ⊢; omega) (hacc' _)
      refine ⟨d', f', hd', hf', ?_⟩
      rw [parseDict]
      simp only [hn1, hn2, hkey, tLB, hnested]
      rw [insertKey_new _ _ _ hnew, he]
      simp

theorem parse_elems (hf : FloatOK) (elems : List Val) (h : wfElems elems = true) (f : Nat) (d : BL)
    (acc : List Val) (ts : List (BL × Tok)) (ht : Toks d (tokElems elems ++ ts))
    (hfuel : (tokElems elems ++ ts).length + 1 ≤ f) :
    ∃ d' f', Toks d' ts ∧ ts.length + 1 ≤ f' ∧ parseList f d acc = parseList f' d' (acc ++ elems) := by
  match elems with
  | [] => exact ⟨d, f, by simpa [tokElems] using ht, by simpa [tokElems] using hfuel, by simp⟩
  | v :: t =>
    rw [wfElems] at h
    simp only [Bool.and_eq_true] at h
    obtain ⟨hv, hT⟩ := h
    rw [tokElems] at ht hfuel
    simp only [List.append_assoc] at ht hfuel
    obtain ⟨f0, rfl⟩ : ∃ f0, f = f0 + 1 := ⟨f - 1, by omega⟩
    match v with
    | .sc s =>
      rw [wfVal] at hv
      rw [tokVal] at ht hfuel
      simp only [List.cons_append, List.nil_append, List.singleton_append] at ht hfuel
      obtain ⟨rest, hn1, ht1⟩ := Toks_inv ht
      obtain ⟨d', f', hd', hf', he⟩ := parse_elems hf t hT f0 rest (acc ++ [.sc s]) ts ht1
        (by simp at hfuel ⊢; omega)
      refine ⟨d', f', hd', hf', ?_⟩
      have hval := (scalarOK hf s hv).val
      rw [parseList]
      simp only [hn1]
      cases s <;> first
        | (cases hv; done)
        | (simp only [tyOf] at hval ⊢; rw [hval]; simp only []; rw [he]; simp)
    | .dict items' =>
      rw [wfVal] at hv
      rw [tokVal] at ht hfuel
      simp only [List.cons_append, List.append_assoc, List.singleton_append] at ht hfuel
      obtain ⟨rest, hn1, ht1⟩ := Toks_inv ht
      obtain ⟨d1, f1, hd1, hf1, he1⟩ := parse_pairs hf items' hv f0 rest [] (tGG :: (tokElems t ++ ts)) ht1
        (by simp at hfuel ⊢; omega) (by simp)
      obtain ⟨f1', rfl⟩ : ∃ f1', f1 = f1' + 1 := ⟨f1 - 1, by simp at hf1; omega⟩
      obtain ⟨r, hn3, ht3⟩ := Toks_inv hd1
      have hnested : parseDict f0 rest [] = .ok (items', r) := by
        rw [he1, parseDict]
        simp only [hn3, tGG, List.nil_append]
      obtain ⟨d', f', hd', hf', he⟩ := parse_elems hf t hT f0 r (acc ++ [.dict items']) ts ht3
        (by simp at hfuel ⊢; omega)
      refine ⟨d', f', hd', hf', ?_⟩
      rw [parseList]
      simp only [hn1, tLL, hnested]
      rw [he]
      simp
    | .list elems' =>
      rw [wfVal] at hv
      rw [tokVal] at ht hfuel
      simp only [List.cons_append, List.append_assoc, List.singleton_append] at ht hfuel
      obtain ⟨rest, hn1, ht1⟩ := Toks_inv ht
      obtain ⟨d1, f1, hd1, hf1, he1⟩ := parse_elems hf elems' hv f0 rest [] (tRB :: (tokElems t ++ ts)) ht1
        (by simp at hfuel ⊢; omega)
      obtain ⟨f1', rfl⟩ : ∃ f1', f1 = f1' + 1 := ⟨f1 - 1, by simp at hf1; omega⟩
      obtain ⟨r, hn3, ht3⟩ := Toks_inv hd1
      have hnested : parseList f0 rest [] = .ok (elems', r) := by
        rw [he1, parseList]
        simp only [hn3, tRB, List.nil_append]
      obtain ⟨d', f', hd', hf', he⟩ := parse_elems hf t hT f0 r (acc ++ [.list elems']) ts ht3
        (by simp at hfuel ⊢; omega)
      refine ⟨d', f', hd', hf', ?_⟩
      rw [parseList]
      simp only [hn1, tLB, hnested]
      rw [he]
      simp
end

/-- The parser reads a well-formed tree back from any byte string whose token stream is
the tree's. -/
theorem parse_of_toks (hf : FloatOK) (l : Layout) (t : Tree) (h : wfPairs t = true) (d : BL)
    (ht : Toks d (tokensOf l t)) : parse d = .ok t := by
  have hlen := Toks_length ht
  unfold parse
  cases l with
  | indented =>
    simp only [tokensOf] at ht hlen
    obtain ⟨rest, hn1, ht1⟩ := Toks_inv ht
    obtain ⟨d', f', hd', hf', he⟩ := parse_pairs hf t h d.length rest [] [tGG] ht1
      (by simp at hlen ⊢; omega) (by simp)
    obtain ⟨f1, rfl⟩ : ∃ f1, f' = f1 + 1 := ⟨f' - 1, by simp at hf'; omega⟩
    obtain ⟨r, hn3, _⟩ := Toks_inv hd'
    rw [parseDict]
    simp only [hn1, tLL, he, List.nil_append]
    rw [parseDict]
    simp only [hn3, tGG]
  | compact =>
    simp only [tokensOf] at ht hlen
    have ht' : Toks d (tokPairs t ++ []) := by simpa using ht
    obtain ⟨d', f', hd', hf', he⟩ := parse_pairs hf t h (d.length + 1) d [] [] ht'
      (by simp at hlen ⊢; omega) (by simp)
    obtain ⟨f1, rfl⟩ : ∃ f1, f' = f1 + 1 := ⟨f' - 1, by simp at hf'; omega⟩
    have hn := Toks_inv_nil hd'
    rw [he, parseDict]
    simp only [hn, List.nil_append]

mutual
theorem enc_val (v : Val) (h : wfVal v = true) : encodableVal v = true := by
  match v with
  | .dict items => rw [wfVal] at h; rw [encodableVal]; exact enc_pairs items h
  | .list elems => rw [wfVal] at h; rw [encodableVal]; exact enc_elems elems h
  | .sc s =>
    rw [wfVal] at h
    cases s <;> simp_all [encodableVal, wfScalar]
theorem enc_pairs (ps : List (BL × Val)) (h : wfPairs ps = true) : encodablePairs ps = true := by
  match ps with
  | [] => rfl
  | (k, v) :: t =>
    rw [wfPairs] at h; simp only [Bool.and_eq_true] at h
    rw [encodablePairs]; simp [enc_val v h.1.2, enc_pairs t h.2]
theorem enc_elems (es : List Val) (h : wfElems es = true) : encodableElems es = true := by
  match es with
  | [] => rfl
  | v :: t =>
    rw [wfElems] at h; simp only [Bool.and_eq_true] at h
    rw [encodableElems]; simp [enc_val v h.1, enc_elems t h.2]
end

end PsdVerif.EngineData
