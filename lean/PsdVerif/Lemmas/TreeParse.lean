/-
Helper lemmas for C08 (parse/flatten inverse laws). Core Lean only.
-/
import PsdVerif.Model.TreeParse

namespace PsdVerif.Tree

theorem flatten_append (a b : List Node) : flatten (a ++ b) = flatten a ++ flatten b := by
  induction a with
  | nil => simp [flatten]
  | cons n ns ih => simp [flatten, ih, List.append_assoc]

theorem flatten_snoc (a : List Node) (n : Node) : flatten (a ++ [n]) = flatten a ++ n.flatten := by
  simp [flatten_append, flatten]

theorem run_append (s : St) (a b : List Rec) :
    run s (a ++ b) = match run s a with | .ok s' => run s' b | .error e => .error e := by
  induction a generalizing s with
  | nil => simp [run]
  | cons r rs ih =>
    simp only [List.cons_append, run]
    cases step s r with
    | error e => rfl
    | ok s' => exact ih s'

/-- Appending a list of finished nodes to the current group. -/
def St.pushAll (s : St) (f : List Node) : St := f.foldl St.push s

theorem pushAll_frame (root : List Node) (b : Nat) (k : List Node) (fs : List Frame) (f : List Node) :
    St.pushAll ⟨root, ⟨b, k⟩ :: fs⟩ f = ⟨root, ⟨b, k ++ f⟩ :: fs⟩ := by
  induction f generalizing k with
  | nil => simp [St.pushAll]
  | cons n ns ih =>
    simp only [St.pushAll, List.foldl_cons, St.push]
    have := ih (k ++ [n])
    simp only [St.pushAll] at this
    rw [this]; simp

theorem pushAll_root (root : List Node) (f : List Node) :
    St.pushAll ⟨root, []⟩ f = ⟨root ++ f, []⟩ := by
  induction f generalizing root with
  | nil => simp [St.pushAll]
  | cons n ns ih =>
    simp only [St.pushAll, List.foldl_cons, St.push]
    have := ih (root ++ [n])
    simp only [St.pushAll] at this
    rw [this]; simp

mutual
theorem run_flatten_node : ∀ (n : Node) (s : St), run s n.flatten = .ok (s.push n)
  | .layer p, s => by simp [Node.flatten, run, step]
  | .group c b a ch, s => by
    simp only [Node.flatten, run, step]
    rw [run_append, run_flatten_list ch]
    have h := pushAll_frame s.root b [] s.stack ch
    simp only [St.pushAll] at h
    simp only [h, run, step, List.nil_append]
theorem run_flatten_list : ∀ (f : List Node) (s : St), run s (flatten f) = .ok (f.foldl St.push s)
  | [], s => by simp [flatten, run]
  | n :: ns, s => by
    simp only [flatten, List.foldl_cons]
    rw [run_append, run_flatten_node n s]
    exact run_flatten_list ns (s.push n)
end


/-! ### The records consumed so far can be read back from the state -/

def unparseFrames : List Frame → List Rec
  | [] => []
  | f :: fs => unparseFrames fs ++ (.bounding f.bound :: flatten f.kids)

/-- The record sequence a state has consumed. -/
def St.unparse (s : St) : List Rec := flatten s.root ++ unparseFrames s.stack

theorem unparse_push (s : St) (n : Node) : (s.push n).unparse = s.unparse ++ n.flatten := by
  obtain ⟨root, stack⟩ := s
  cases stack with
  | nil => simp [St.push, St.unparse, unparseFrames, flatten_snoc]
  | cons f fs => simp [St.push, St.unparse, unparseFrames, flatten_snoc, List.append_assoc]

theorem step_unparse (s s' : St) (r : Rec) (h : step s r = .ok s') : s'.unparse = s.unparse ++ [r] := by
  cases r with
  | leaf p =>
    simp only [step, Except.ok.injEq] at h
    subst h; simp [unparse_push, Node.flatten]
  | bounding p =>
    simp only [step, Except.ok.injEq] at h
    subst h; simp [St.unparse, unparseFrames, flatten]
  | closing p a =>
    obtain ⟨root, stack⟩ := s
    cases stack with
    | nil => simp [step] at h
    | cons f fs =>
      simp only [step, Except.ok.injEq] at h
      subst h
      rw [unparse_push]
      simp [Node.flatten, St.unparse, unparseFrames, List.append_assoc]

theorem run_unparse (s s' : St) (rs : List Rec) (h : run s rs = .ok s') : s'.unparse = s.unparse ++ rs := by
  induction rs generalizing s with
  | nil => simp only [run, Except.ok.injEq] at h; subst h; simp
  | cons r rs ih =>
    simp only [run] at h
    cases hs : step s r with
    | error e => simp [hs] at h
    | ok s1 =>
      simp only [hs] at h
      rw [ih s1 h, step_unparse s s1 r hs]; simp

/-! ### Outcome by nesting depth -/

theorem push_stack_length (s : St) (n : Node) : (s.push n).stack.length = s.stack.length := by
  obtain ⟨root, stack⟩ := s
  cases stack <;> simp [St.push]

theorem run_depth (s : St) (rs : List Rec) :
    match run s rs with
    | .ok s' => depthRun s.stack.length rs = some s'.stack.length
    | .error e => e = .assertionError ∧ depthRun s.stack.length rs = none := by
  induction rs generalizing s with
  | nil => simp [run, depthRun]
  | cons r rs ih =>
    cases r with
    | leaf p =>
      simp only [run, step, depthRun]
      have := ih (s.push (.layer p))
      rwa [push_stack_length] at this
    | bounding p =>
      simp only [run, step, depthRun]
      exact ih { s with stack := ⟨p, []⟩ :: s.stack }
    | closing p a =>
      obtain ⟨root, stack⟩ := s
      cases stack with
      | nil => simp [run, step, depthRun]
      | cons f fs =>
        simp only [run, step, depthRun, List.length_cons]
        have := ih (St.push ⟨root, fs⟩ (.group p f.bound a f.kids))
        rwa [push_stack_length] at this

/-! ### Well-nested record sequences (stated without reference to trees) -/

inductive WellNested : List Rec → Prop
  | nil : WellNested []
  | leaf (p : Nat) {rs : List Rec} : WellNested rs → WellNested (.leaf p :: rs)
  | group (b c : Nat) (a : Bool) {inner rest : List Rec} :
      WellNested inner → WellNested rest → WellNested (.bounding b :: (inner ++ .closing c a :: rest))

mutual
theorem wellNested_node : ∀ (n : Node) (rest : List Rec), WellNested rest → WellNested (n.flatten ++ rest)
  | .layer p, rest, h => by simpa [Node.flatten] using WellNested.leaf p h
  | .group c b a ch, rest, h => by
    have := WellNested.group b c a (wellNested_flatten ch) h
    simpa [Node.flatten, List.append_assoc] using this
theorem wellNested_flatten : ∀ (f : List Node), WellNested (flatten f)
  | [] => by simpa [flatten] using WellNested.nil
  | n :: ns => by
    simpa [flatten] using wellNested_node n (flatten ns) (wellNested_flatten ns)
end

theorem wellNested_exists_forest (rs : List Rec) (h : WellNested rs) : ∃ f, flatten f = rs := by
  induction h with
  | nil => exact ⟨[], by simp [flatten]⟩
  | leaf p _ ih =>
    obtain ⟨f, hf⟩ := ih
    exact ⟨.layer p :: f, by simp [flatten, Node.flatten, hf]⟩
  | group b c a _ _ ih1 ih2 =>
    obtain ⟨fi, hi⟩ := ih1
    obtain ⟨fr, hr⟩ := ih2
    exact ⟨.group c b a fi :: fr, by simp [flatten, Node.flatten, hi, hr, List.append_assoc]⟩

/-! ### Occurrence of a node anywhere in a forest -/

/-- `n` occurs in the forest `f` (as a child at some depth). -/
inductive Occurs (n : Node) : List Node → Prop
  | here {f : List Node} : n ∈ f → Occurs n f
  | inside {f : List Node} {c b : Nat} {a : Bool} {ch : List Node} :
      Node.group c b a ch ∈ f → Occurs n ch → Occurs n f

theorem flatten_mem_split (n : Node) (f : List Node) (h : n ∈ f) :
    ∃ pre post, flatten f = pre ++ n.flatten ++ post := by
  obtain ⟨l1, l2, rfl⟩ := List.append_of_mem h
  exact ⟨flatten l1, flatten l2, by simp [flatten_append, flatten, List.append_assoc]⟩

theorem occurs_split (n : Node) (f : List Node) (h : Occurs n f) :
    ∃ pre post, flatten f = pre ++ n.flatten ++ post := by
  induction h with
  | here hm => exact flatten_mem_split n _ hm
  | @inside f c b a ch hm _ ih =>
    obtain ⟨p1, q1, h1⟩ := flatten_mem_split _ _ hm
    obtain ⟨p2, q2, h2⟩ := ih
    refine ⟨p1 ++ .bounding b :: p2, q2 ++ .closing c a :: q1, ?_⟩
    rw [h1]; simp [Node.flatten, h2, List.append_assoc]

theorem split_unique {α : Type} (x : α) (p p' q q' : List α) (h1 : x ∉ p) (h2 : x ∉ p')
    (h : p ++ x :: q = p' ++ x :: q') : p = p' ∧ q = q' := by
  induction p generalizing p' with
  | nil =>
    cases p' with
    | nil => simpa using h
    | cons y ys =>
      simp only [List.nil_append, List.cons_append, List.cons.injEq] at h
      exact absurd (by simp [h.1]) h2
  | cons z zs ih =>
    cases p' with
    | nil =>
      simp only [List.nil_append, List.cons_append, List.cons.injEq] at h
      exact absurd (by simp [h.1]) h1
    | cons y ys =>
      simp only [List.cons_append, List.cons.injEq] at h
      have := ih ys (fun hm => h1 (List.mem_cons_of_mem _ hm)) (fun hm => h2 (List.mem_cons_of_mem _ hm)) h.2
      exact ⟨by rw [h.1, this.1], this.2⟩


/-! ### Registry lookup -/

/-- first key present in a priority list of (key, value) pairs -/
def firstOf (has : String → Bool) : List (String × String) → Option String
  | [] => none
  | (k, v) :: rest => if has k then some v else firstOf has rest

theorem firstAdj_append (has : String → Bool) (a b : List AdjEntry) :
    firstAdj has (a ++ b) = match firstAdj has a with | some h => some h | none => firstAdj has b := by
  induction a with
  | nil => simp [firstAdj]
  | cons e es ih =>
    simp only [List.cons_append, firstAdj]
    split <;> simp_all

theorem firstAdj_map (has : String → Bool) (fl : Bool) (l : List (String × String)) :
    firstAdj has (l.map fun kv => ⟨kv.1, kv.2, fl⟩) = (firstOf has l).map fun k => ⟨k, fl⟩ := by
  induction l with
  | nil => simp [firstAdj, firstOf]
  | cons kv rest ih =>
    obtain ⟨k, v⟩ := kv
    simp only [List.map_cons, firstAdj, firstOf]
    split <;> simp_all

end PsdVerif.Tree
