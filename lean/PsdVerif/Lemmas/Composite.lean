/-
Algebra of the compositor model (C11, C13): union, clip, safe division, one
`_apply_source` step, and the pass-through-group exit.
-/
import PsdVerif.Model.Composite
import Mathlib.Tactic.Linarith
import Mathlib.Tactic.Ring
import Mathlib.Tactic.FieldSimp
import Mathlib.Tactic.Positivity
import Mathlib.Algebra.Order.Field.Rat

namespace PsdVerif.Composite

/-- a value in the unit interval -/
def Unit01 (v : Rat) : Prop := 0 ≤ v ∧ v ≤ 1

def ColorOk (c : Color) : Prop := ∀ ch, Unit01 (c ch)

theorem union_comm (a b : Rat) : union a b = union b a := by unfold union; ring
theorem union_assoc (a b c : Rat) : union (union a b) c = union a (union b c) := by unfold union; ring
@[simp] theorem union_zero (a : Rat) : union a 0 = a := by unfold union; ring
@[simp] theorem zero_union (a : Rat) : union 0 a = a := by unfold union; ring

theorem union_unit {b s : Rat} (hb : Unit01 b) (hs : Unit01 s) : Unit01 (union b s) := by
  obtain ⟨hb0, hb1⟩ := hb; obtain ⟨hs0, hs1⟩ := hs
  unfold union Unit01
  constructor <;> nlinarith [mul_nonneg hb0 hs0, mul_nonneg (sub_nonneg.2 hb1) (sub_nonneg.2 hs1)]

theorem union_eq (b s : Rat) : union b s = (1 - s) * b + s := by unfold union; ring

theorem clip_unit (v : Rat) : Unit01 (clip v) := by
  unfold clip Unit01
  split
  · exact ⟨le_refl _, by norm_num⟩
  · split
    · exact ⟨by norm_num, le_refl _⟩
    · constructor <;> linarith

theorem clip_id {v : Rat} (h : Unit01 v) : clip v = v := by
  obtain ⟨h0, h1⟩ := h
  unfold clip
  rw [if_neg (by linarith), if_neg (by linarith)]

theorem divide_self_mul {a b : Rat} (hb : b ≠ 0) : divide a b * b = a := by
  unfold divide; rw [if_neg hb]; field_simp

/-- the quotient the compositor forms is in range whenever the numerator is between 0 and the denominator -/
theorem divide_unit {n d : Rat} (h0 : 0 ≤ n) (h1 : n ≤ d) : Unit01 (divide n d) := by
  unfold divide
  by_cases hd : d = 0
  · rw [if_pos hd]; exact ⟨by norm_num, le_refl _⟩
  · rw [if_neg hd]
    have hdpos : 0 < d := lt_of_le_of_ne (le_trans h0 h1) (Ne.symm hd)
    exact ⟨div_nonneg h0 hdpos.le, (div_le_one hdpos).2 h1⟩

/-- `clip (divide n d) * d = n` when `0 ≤ n ≤ d` (also for `d = 0`, where `n = 0`) -/
theorem clip_divide_mul {n d : Rat} (h0 : 0 ≤ n) (h1 : n ≤ d) : clip (divide n d) * d = n := by
  rw [clip_id (divide_unit h0 h1)]
  by_cases hd : d = 0
  · subst hd; have : n = 0 := le_antisymm h1 h0; simp [this]
  · exact divide_self_mul hd

/-! ### state invariant -/

structure Inv (st : PState) : Prop where
  a0 : Unit01 st.a0
  sg : Unit01 st.sg
  ag : Unit01 st.ag
  ag_le : st.ag ≤ st.sg
  a_eq : st.a = union st.a0 st.ag
  c : ColorOk st.c
  c0 : ColorOk st.c0

theorem Inv.a (h : Inv st) : Unit01 st.a := by rw [h.a_eq]; exact union_unit h.a0 h.ag

theorem inv_init {color : Color} {alpha : Rat} (hc : ColorOk color) (ha : Unit01 alpha) (iso : Bool) :
    Inv (PState.init color alpha iso) := by
  unfold PState.init
  cases iso <;> simp only [Bool.false_eq_true, if_false, if_true]
  · exact ⟨ha, ⟨le_refl _, by norm_num⟩, ⟨le_refl _, by norm_num⟩, le_refl _, by simp, hc, hc⟩
  · exact ⟨⟨le_refl _, by norm_num⟩, ⟨le_refl _, by norm_num⟩, ⟨le_refl _, by norm_num⟩, le_refl _, by simp, hc, hc⟩

/-- a source the compositor may be given: `0 ≤ alpha ≤ shape ≤ 1`, colour in range -/
structure SrcOk (color : Color) (shape alpha : Rat) : Prop where
  a0 : 0 ≤ alpha
  as : alpha ≤ shape
  s1 : shape ≤ 1
  c : ColorOk color

/-- a blend function that keeps the unit interval (C12's range theorems) -/
def BlendOk (bl : Color → Color → Color) : Prop :=
  ∀ cb cs, ColorOk cb → ColorOk cs → ColorOk (bl cb cs)

theorem applySource_inv {bl : Color → Color → Color} {st : PState} {color : Color} {shape alpha : Rat}
    (h : Inv st) (hs : SrcOk color shape alpha) (ko : Bool) :
    Inv (applySource bl st color shape alpha ko) := by
  have hsh : Unit01 shape := ⟨le_trans hs.a0 hs.as, hs.s1⟩
  have hal : Unit01 alpha := ⟨hs.a0, le_trans hs.as hs.s1⟩
  unfold applySource
  obtain ⟨g0, g1⟩ := h.ag; obtain ⟨b0, b1⟩ := h.a0
  have e1 : 0 ≤ 1 - shape := sub_nonneg.2 hs.s1
  have e2 : 0 ≤ shape - alpha := sub_nonneg.2 hs.as
  have hle := h.ag_le
  refine ⟨h.a0, union_unit h.sg hsh, ?_, ?_, rfl, fun ch => clip_unit _, h.c0⟩
  · cases ko <;> simp only [Bool.false_eq_true, if_false, if_true]
    · exact union_unit h.ag hal
    · constructor
      · have := mul_nonneg e1 g0; have := mul_nonneg e2 b0; linarith [hs.a0]
      · have := mul_le_mul_of_nonneg_left g1 e1; have := mul_le_mul_of_nonneg_left b1 e2; linarith
  · cases ko <;> simp only [Bool.false_eq_true, if_false, if_true]
    · rw [union_eq, union_eq]
      have := mul_le_mul_of_nonneg_left hle (sub_nonneg.2 hal.2)
      have := mul_le_mul_of_nonneg_left hle e1
      have : (1 - alpha) * st.ag ≤ (1 - shape) * st.sg + (shape - alpha) := by
        have h3 : (shape - alpha) * st.ag ≤ (shape - alpha) := mul_le_of_le_one_right e2 g1
        nlinarith
      linarith
    · rw [union_eq]
      have := mul_le_mul_of_nonneg_left hle e1
      have h3 : (shape - alpha) * st.a0 ≤ (shape - alpha) := mul_le_of_le_one_right e2 b1
      linarith

/-- The colour numerator of a non-knockout step: `(1-α)·a·c + α·((1-a)·Cs + a·B(c,Cs))`. -/
def stepNum (bl : Color → Color → Color) (st : PState) (color : Color) (alpha : Rat) (ch : Nat) : Rat :=
  (1 - alpha) * st.a * st.c ch + alpha * ((1 - st.a) * color ch + st.a * bl st.c color ch)

theorem stepNum_bounds {bl : Color → Color → Color} {st : PState} {color : Color} {shape alpha : Rat}
    (h : Inv st) (hs : SrcOk color shape alpha) (hb : BlendOk bl) (ch : Nat) :
    0 ≤ stepNum bl st color alpha ch ∧ stepNum bl st color alpha ch ≤ union st.a alpha := by
  obtain ⟨a0, a1⟩ := h.a
  obtain ⟨c0, c1⟩ := h.c ch
  obtain ⟨s0, s1⟩ := hs.c ch
  obtain ⟨b0, b1⟩ := hb st.c color h.c hs.c ch
  have al1 : alpha ≤ 1 := le_trans hs.as hs.s1
  have m0 : 0 ≤ (1 - st.a) * color ch + st.a * bl st.c color ch := by
    have := mul_nonneg (sub_nonneg.2 a1) s0; have := mul_nonneg a0 b0; linarith
  have m1 : (1 - st.a) * color ch + st.a * bl st.c color ch ≤ 1 := by
    have := mul_le_mul_of_nonneg_left s1 (sub_nonneg.2 a1)
    have := mul_le_mul_of_nonneg_left b1 a0; linarith
  unfold stepNum
  constructor
  · have := mul_nonneg (mul_nonneg (sub_nonneg.2 al1) a0) c0
    have := mul_nonneg hs.a0 m0; linarith
  · rw [union_eq]
    have h1 : (1 - alpha) * st.a * st.c ch ≤ (1 - alpha) * st.a :=
      mul_le_of_le_one_right (mul_nonneg (sub_nonneg.2 al1) a0) c1
    have h2 := mul_le_mul_of_nonneg_left m1 hs.a0
    linarith

/-- New alpha of a step (either branch of `knockout` for `ag` when not knockout). -/
theorem applySource_a (bl : Color → Color → Color) (st : PState) (color : Color) (shape alpha : Rat) (h : Inv st) :
    (applySource bl st color shape alpha false).a = union st.a alpha := by
  unfold applySource
  simp only [Bool.false_eq_true, if_false]
  rw [h.a_eq, union_assoc]

/-- **One step, multiplied out** (non-knockout): new colour × new alpha = the PDF numerator.
This is the basic compositing formula of PDF 1.7 §11.3.6 in premultiplied form, and for
`shape ≠ alpha` the shape terms cancel: `(1-s) + (s-α) = 1-α`. -/
theorem applySource_mul {bl : Color → Color → Color} {st : PState} {color : Color} {shape alpha : Rat}
    (h : Inv st) (hs : SrcOk color shape alpha) (hb : BlendOk bl) (ch : Nat) :
    (applySource bl st color shape alpha false).c ch * (applySource bl st color shape alpha false).a
      = stepNum bl st color alpha ch := by
  have ha := applySource_a bl st color shape alpha h
  obtain ⟨n0, n1⟩ := stepNum_bounds h hs hb ch
  rw [ha]
  have hc : (applySource bl st color shape alpha false).c ch
      = clip (divide (stepNum bl st color alpha ch) (union st.a alpha)) := by
    unfold applySource stepNum
    simp only [Bool.false_eq_true, if_false]
    rw [h.a_eq, union_assoc]
    congr 2
    ring
  rw [hc]
  exact clip_divide_mul n0 n1

/-- the new colour of a non-knockout step, in closed form -/
theorem applySource_c (bl : Color → Color → Color) (st : PState) (color : Color) (shape alpha : Rat) (h : Inv st)
    (ch : Nat) :
    (applySource bl st color shape alpha false).c ch
      = clip (divide (stepNum bl st color alpha ch) (union st.a alpha)) := by
  unfold applySource stepNum
  simp only [Bool.false_eq_true, if_false]
  rw [h.a_eq, union_assoc]
  congr 2
  ring

@[simp] theorem applySource_sg (bl : Color → Color → Color) (st : PState) (color : Color) (shape alpha : Rat) (ko : Bool) :
    (applySource bl st color shape alpha ko).sg = union st.sg shape := rfl
@[simp] theorem applySource_ag (bl : Color → Color → Color) (st : PState) (color : Color) (shape alpha : Rat) :
    (applySource bl st color shape alpha false).ag = union st.ag alpha := by
  unfold applySource; simp
@[simp] theorem applySource_a0 (bl : Color → Color → Color) (st : PState) (color : Color) (shape alpha : Rat) (ko : Bool) :
    (applySource bl st color shape alpha ko).a0 = st.a0 := rfl
@[simp] theorem applySource_c0 (bl : Color → Color → Color) (st : PState) (color : Color) (shape alpha : Rat) (ko : Bool) :
    (applySource bl st color shape alpha ko).c0 = st.c0 := rfl

/-! ### runs of sources that may depend on the current colour and alpha -/

structure Src where
  color : Color
  shape : Rat
  alpha : Rat
  bl : Color → Color → Color

def Src.Ok (s : Src) : Prop := SrcOk s.color s.shape s.alpha ∧ BlendOk s.bl

/-- A layer seen as a source generator: what it contributes may depend on the
compositor's current colour and alpha (a nested non-knockout group reads them as
its backdrop), on nothing else. -/
abbrev Gen := Color → Rat → Src

def Gen.Ok (g : Gen) : Prop := ∀ c a, ColorOk c → Unit01 a → (g c a).Ok

def stepGen (st : PState) (g : Gen) : PState :=
  let s := g st.c st.a
  applySource s.bl st s.color s.shape s.alpha false

def runGens (st : PState) : List Gen → PState
  | [] => st
  | g :: gs => runGens (stepGen st g) gs

theorem stepGen_inv {st : PState} {g : Gen} (h : Inv st) (hg : g.Ok) : Inv (stepGen st g) :=
  applySource_inv h (hg st.c st.a h.c h.a).1 false

theorem runGens_inv {st : PState} {gs : List Gen} (h : Inv st) (hg : ∀ g ∈ gs, Gen.Ok g) : Inv (runGens st gs) := by
  induction gs generalizing st with
  | nil => exact h
  | cons g gs ih =>
    exact ih (stepGen_inv h (hg g (List.mem_cons_self ..))) (fun g' hg' => hg g' (List.mem_cons_of_mem _ hg'))

/-- coupling between the inline run `t` and the run `u` inside a pass-through group
entered from state `st` -/
structure Coupled (st t u : PState) : Prop where
  c : t.c = u.c
  a : t.a = u.a
  ag : t.ag = union st.ag u.ag
  sg : t.sg = union st.sg u.sg
  a0 : t.a0 = st.a0
  c0 : t.c0 = st.c0
  ua0 : u.a0 = st.a
  uc0 : u.c0 = st.c
  it : Inv t
  iu : Inv u
  /-- `0 ≤ C_n·α_n − (1−α_g)·α₀·C₀ ≤ α_g`: the backdrop-removal formula stays in range -/
  x : ∀ ch, 0 ≤ u.c ch * u.a - (1 - u.ag) * st.a * st.c ch ∧ u.c ch * u.a - (1 - u.ag) * st.a * st.c ch ≤ u.ag

theorem coupled_init {st : PState} (h : Inv st) : Coupled st st (PState.init st.c st.a false) := by
  refine ⟨rfl, ?_, ?_, ?_, rfl, rfl, ?_, rfl, h, inv_init h.c h.a false, ?_⟩
  · simp [PState.init]
  · simp [PState.init]
  · simp [PState.init]
  · simp [PState.init]
  · intro ch
    simp only [PState.init, Bool.false_eq_true, if_false]
    constructor <;> linarith [mul_comm (st.c ch) st.a]

theorem coupled_step {st t u : PState} (g : Gen) (hg : g.Ok) (h : Coupled st t u) :
    Coupled st (stepGen t g) (stepGen u g) := by
  have hsrc := hg t.c t.a h.it.c h.it.a
  have e : g u.c u.a = g t.c t.a := by rw [h.c, h.a]
  unfold stepGen
  simp only [e]
  generalize g t.c t.a = s at hsrc
  obtain ⟨hs, hb⟩ := hsrc
  have hc : ∀ ch, (applySource s.bl t s.color s.shape s.alpha false).c ch
      = (applySource s.bl u s.color s.shape s.alpha false).c ch := by
    intro ch
    rw [applySource_c _ _ _ _ _ h.it, applySource_c _ _ _ _ _ h.iu]
    unfold stepNum
    rw [h.c, h.a]
  refine ⟨funext hc, ?_, ?_, ?_, ?_, ?_, ?_, ?_, applySource_inv h.it hs false, applySource_inv h.iu hs false, ?_⟩
  · rw [applySource_a _ _ _ _ _ h.it, applySource_a _ _ _ _ _ h.iu, h.a]
  · simp [h.ag, union_assoc]
  · simp [h.sg, union_assoc]
  · simp [h.a0]
  · simp [h.c0]
  · simp [h.ua0]
  · simp [h.uc0]
  · intro ch
    rw [applySource_mul h.iu hs hb ch]
    obtain ⟨x0, x1⟩ := h.x ch
    simp only [applySource_ag]
    have al1 : s.alpha ≤ 1 := le_trans hs.as hs.s1
    -- m := (1-a)·Cs + a·B ∈ [0,1]
    obtain ⟨a0, a1⟩ := h.iu.a
    obtain ⟨s0, s1⟩ := hs.c ch
    obtain ⟨b0, b1⟩ := hb u.c s.color h.iu.c hs.c ch
    have m0 : 0 ≤ (1 - u.a) * s.color ch + u.a * s.bl u.c s.color ch := by
      have := mul_nonneg (sub_nonneg.2 a1) s0; have := mul_nonneg a0 b0; linarith
    have m1 : (1 - u.a) * s.color ch + u.a * s.bl u.c s.color ch ≤ 1 := by
      have := mul_le_mul_of_nonneg_left s1 (sub_nonneg.2 a1)
      have := mul_le_mul_of_nonneg_left b1 a0; linarith
    have key : stepNum s.bl u s.color s.alpha ch - (1 - union u.ag s.alpha) * st.a * st.c ch
        = (1 - s.alpha) * (u.c ch * u.a - (1 - u.ag) * st.a * st.c ch)
          + s.alpha * ((1 - u.a) * s.color ch + u.a * s.bl u.c s.color ch) := by
      unfold stepNum union; ring
    rw [key, union_eq]
    have p1 := mul_nonneg (sub_nonneg.2 al1) x0
    have p2 := mul_nonneg hs.a0 m0
    have p3 := mul_le_mul_of_nonneg_left x1 (sub_nonneg.2 al1)
    have p4 := mul_le_mul_of_nonneg_left m1 hs.a0
    constructor <;> linarith

theorem coupled_run {st t u : PState} (gs : List Gen) (hg : ∀ g ∈ gs, Gen.Ok g) (h : Coupled st t u) :
    Coupled st (runGens t gs) (runGens u gs) := by
  induction gs generalizing t u with
  | nil => exact h
  | cons g gs ih =>
    exact ih (fun g' hg' => hg g' (List.mem_cons_of_mem _ hg')) (coupled_step g (hg g (List.mem_cons_self ..)) h)

/-- normal blend: the source colour -/
def blNormal : Color → Color → Color := fun _ cs => cs

/-- **Leaving a pass-through group.** Compositing the group's result (backdrop removed)
onto the state the group was entered from, with normal blending, full opacity and no
mask, gives the inline state: same shape, alpha, and the same colour wherever the
result alpha is not zero. -/
theorem passthrough_exit {st t u : PState} (h : Coupled st t u) (hst : Inv st) :
    let grouped := applySource blNormal st (finishColor u) u.sg u.ag false
    grouped.sg = t.sg ∧ grouped.ag = t.ag ∧ grouped.a = t.a ∧ grouped.a0 = t.a0 ∧ grouped.c0 = t.c0 ∧
      (t.a ≠ 0 → ∀ ch, grouped.c ch = t.c ch) := by
  intro grouped
  have hua : u.a = union st.a u.ag := by rw [h.iu.a_eq, h.ua0]
  refine ⟨by simp [grouped, h.sg], by simp [grouped, h.ag], ?_, by simp [grouped, h.a0], by simp [grouped, h.c0], ?_⟩
  · show (applySource blNormal st (finishColor u) u.sg u.ag false).a = t.a
    rw [applySource_a _ _ _ _ _ hst, h.a, hua]
  · intro hta ch
    show (applySource blNormal st (finishColor u) u.sg u.ag false).c ch = t.c ch
    rw [applySource_c _ _ _ _ _ hst]
    obtain ⟨x0, x1⟩ := h.x ch
    have hua0 : u.a ≠ 0 := by rw [← h.a]; exact hta
    -- the numerator equals C_n·α_n
    have hnum : stepNum blNormal st (finishColor u) u.ag ch = u.c ch * u.a := by
      unfold stepNum blNormal
      by_cases hag : u.ag = 0
      · -- nothing was painted inside the group
        rw [hag] at x0 x1 ⊢
        have : u.c ch * u.a = st.a * st.c ch := by linarith
        rw [this]; ring
      · have hfc : finishColor u ch * u.ag = u.c ch * u.a - (1 - u.ag) * st.a * st.c ch := by
          unfold finishColor
          rw [h.uc0, h.ua0]
          have e : u.c ch + (u.c ch - st.c ch) * (divide st.a u.ag - st.a)
              = divide (u.c ch * u.a - (1 - u.ag) * st.a * st.c ch) u.ag := by
            unfold divide; rw [if_neg hag, if_neg hag, hua]; unfold union; field_simp; ring
          rw [e]
          exact clip_divide_mul x0 x1
        have : (1 - u.ag) * st.a * st.c ch + u.ag * ((1 - st.a) * finishColor u ch + st.a * finishColor u ch)
            = (1 - u.ag) * st.a * st.c ch + finishColor u ch * u.ag := by ring
        rw [this, hfc]; ring
    rw [hnum, ← hua, h.c]
    have hcu := h.iu.c ch
    unfold divide
    rw [if_neg hua0]
    have : u.c ch * u.a / u.a = u.c ch := by field_simp
    rw [this]
    exact clip_id hcu

end PsdVerif.Composite
