/-
C01 payload unit 4 — psd/patterns.py: the laws of `VirtualMemoryArray`, `VirtualMemoryArrayList`, `Pattern`, `Patterns`.
-/
import PsdVerif.Lemmas.PayloadSimple
import PsdVerif.Model.PayloadPatterns

namespace PsdVerif.Payload
open PsdVerif PsdVerif.Codec

/-- `read_fmt("nX")` for an unsigned width: `n` integers back to back -/
theorem readUList_step {w n : Nat} {vs : List Nat} (hn : vs.length = n) (hf : listFits (FitsU w) vs) {d : B} {p : Nat} {rest : B}
    (h : At d p (listT (beBytes w) vs ++ rest)) :
    readCount (readU w) n d p = .ok (vs, p + w * n) ∧ At d (p + w * n) rest := by
  have hl := length_listT_const (beBytes w) w vs (fun v _ => length_beBytes w v)
  rw [hn] at hl
  obtain ⟨e, h'⟩ := Psd.readCount_step (readU w) (beBytes w) vs
    (fun v hv d p h => by rw [readU_at h (hf v hv), length_beBytes]) h
  rw [hn, hl] at e
  rw [hl] at h'
  exact ⟨e, h'⟩

theorem readI16List_step {n : Nat} {vs : List Int} (hn : vs.length = n) (hf : listFits FitsI16 vs) {d : B} {p : Nat} {rest : B}
    (h : At d p (listT i16T vs ++ rest)) :
    readCount readI16 n d p = .ok (vs, p + 2 * n) ∧ At d (p + 2 * n) rest := by
  have hl := length_listT_const i16T 2 vs (fun v _ => length_i16T v)
  rw [hn] at hl
  obtain ⟨e, h'⟩ := Psd.readCount_step readI16 i16T vs
    (fun v hv d p h => by rw [readI16_at h (hf v hv), length_i16T]) h
  rw [hn, hl] at e
  rw [hl] at h'
  exact ⟨e, h'⟩

theorem readPy_sub (k n : Nat) {d : B} {p : Nat} (h : p + n ≤ d.length) :
    readPy (((k + n : Nat) : Int) - (k : Int)) d p = readUpTo n d p := by
  have e : (((k + n : Nat) : Int) - (k : Int)) = (n : Int) := by omega
  rw [e]
  unfold readPy
  have : ¬ ((n : Int) < 0) := by omega
  rw [if_neg this]
  simp only [Int.toNat_natCast]
  rw [if_neg (not_overflows_of_le (by omega))]

/-! ## VirtualMemoryArray -/

namespace VMAContent

theorem length_bodyT (c : VMAContent) (h4 : c.rectangle.length = 4) : c.bodyT.length = 23 + c.data.length := by
  have hl := length_listT_const (beBytes 4) 4 c.rectangle (fun v _ => length_beBytes 4 v)
  simp only [bodyT, List.length_append, length_beBytes, hl, h4]

theorem bodyP_eq (c : VMAContent) : c.bodyP = (c.bodyT, c.bodyT.length) := by
  simp only [bodyP, bodyT, wBytes_eq, wSeq_eq, List.append_assoc]

end VMAContent

namespace VMA

theorem encP_eq (x : VMA) : x.encP = (x.encT, x.encT.length) := by
  obtain ⟨iw, c⟩ := x
  unfold encP encT
  by_cases h0 : iw = 0
  · simp only [h0, if_true, wBytes_eq, List.append_nil]
  · simp only [h0, if_false]
    cases c with
    | none => simp only [wBytes_eq, wSeq_eq]
    | some c => simp only [VMAContent.bodyP_eq, wBytes_eq, wLenBlock_eq, wSeq_eq]

theorem dec_step {x : VMA} (hwf : x.WF) (hf : x.Fits) {d : B} {p : Nat} {rest : B} (h : At d p (x.encT ++ rest)) :
    dec d p = .ok (x, p + x.encT.length) ∧ At d (p + x.encT.length) rest := by
  refine ⟨?_, h.right⟩
  obtain ⟨iw, c⟩ := x
  obtain ⟨fiw, fc⟩ := hf
  have hwf : contentWF iw c := hwf
  simp only at fiw fc
  unfold encT at h ⊢
  by_cases h0 : iw = 0
  · have hc : c = none := by
      cases c with
      | none => rfl
      | some c => exact absurd h0 hwf.1
    subst hc
    simp only [h0, if_true, List.append_nil] at h ⊢
    obtain ⟨e1, _⟩ := readU_step h (by decide)
    simp only [dec, bind, Except.bind, e1, if_true, length_beBytes]
  · simp only [h0, if_false] at h ⊢
    cases c with
    | none =>
      simp only [List.append_assoc] at h
      obtain ⟨e1, h⟩ := readU_step h fiw
      obtain ⟨e2, _⟩ := readU_step h (by decide)
      simp only [dec, bind, Except.bind, e1, if_neg h0, e2, if_true, List.length_append, length_beBytes, Nat.add_assoc]
    | some c =>
      have hcomp : c.compression ∈ Psd.G.compressions := hwf.2
      obtain ⟨f1, ⟨r4, fr⟩, f2, f3, flen⟩ := fc h0
      have hbl := c.length_bodyT r4
      have hne : ¬ c.bodyT.length = 0 := by omega
      have h : At d p (beBytes 4 iw ++ (beBytes 4 c.bodyT.length ++ (beBytes 4 c.depth ++ (listT (beBytes 4) c.rectangle ++
          (beBytes 2 c.pixelDepth ++ (beBytes 1 c.compression ++ (c.data ++ rest))))))) := by
        simpa only [lenBlockT, zeros, List.replicate_zero, List.nil_append, padAmount_one, List.append_nil, VMAContent.bodyT,
          List.append_assoc] using h
      obtain ⟨e1, h⟩ := readU_step h fiw
      obtain ⟨e2, h⟩ := readU_step h flen
      obtain ⟨e3, h⟩ := readU_step h f1
      obtain ⟨e4, h⟩ := readUList_step r4 fr h
      obtain ⟨e5, h⟩ := readU_step h f2
      obtain ⟨e6, h⟩ := readU_step h f3
      have e7 := readUpTo_at h.left
      have hpy : readPy ((c.bodyT.length : Int) - 23) d (p + 4 + 4 + 4 + 4 * 4 + 2 + 1) =
          readUpTo c.data.length d (p + 4 + 4 + 4 + 4 * 4 + 2 + 1) := by
        rw [hbl]; exact readPy_sub 23 c.data.length (by have := h.left.bound; omega)
      simp only [dec, bind, Except.bind, e1, if_neg h0, e2, if_neg hne, e3, e4, e5, e6, hpy, e7, if_pos hcomp]
      simp only [List.length_append, length_beBytes, length_lenBlockT, padAmount_one, hbl, Nat.add_assoc]
      congr 2
      omega

theorem rt : codec.RtAnywhere := fun _ hwf hf _ _ h => (dec_step hwf hf h.nil_right).1
theorem count : codec.Count := encP_eq

end VMA

/-! ## VirtualMemoryArrayList -/

namespace VMAL

theorem bodyP_eq (x : VMAL) : x.bodyP = (x.bodyT, x.bodyT.length) := by
  simp only [bodyP, bodyT]
  rw [wList_eq VMA.encP VMA.encT x.channels (fun c _ => c.encP_eq)]
  simp only [wBytes_eq, wSeq_eq]

theorem encP_eq (x : VMAL) : x.encP = (x.encT, x.encT.length) := by
  simp only [encP, encT, bodyP_eq, wBytes_eq, wLenBlock_eq, wSeq_eq]

theorem dec_step {x : VMAL} (hwf : x.WF) (hf : x.Fits) {d : B} {p : Nat} {rest : B} (h : At d p (x.encT ++ rest)) :
    dec d p = .ok (x, p + x.encT.length) ∧ At d (p + x.encT.length) rest := by
  refine ⟨?_, h.right⟩
  obtain ⟨hv, hch⟩ := hwf
  obtain ⟨fv, ⟨r4, fr⟩, ⟨h2, fn⟩, fch, flen⟩ := hf
  have h : At d p (beBytes 4 x.version ++ (lenBlockT 0 4 1 x.bodyT ++ rest)) := by
    simpa only [encT, List.append_assoc] using h
  obtain ⟨e1, h⟩ := readU_step h fv
  obtain ⟨e2, _⟩ := readLenBlock_step h flen (by decide)
  -- the nested stream
  have hn : At x.bodyT 0 (listT (beBytes 4) x.rectangle ++ (beBytes 4 (x.channels.length - 2) ++ (listT VMA.encT x.channels ++ []))) := by
    have := At.self x.bodyT
    simpa only [bodyT, List.append_assoc, List.append_nil] using this
  obtain ⟨n1, hn⟩ := readUList_step r4 fr hn
  obtain ⟨n2, hn⟩ := readU_step hn fn
  obtain ⟨n3, _⟩ := Psd.readCount_step VMA.dec VMA.encT x.channels
    (fun c hc d p h => (VMA.dec_step (hch c hc) (fch c hc) h.nil_right).1) hn
  have hcnt : x.channels.length - 2 + 2 = x.channels.length := by omega
  obtain ⟨version, rect, chans⟩ := x
  simp only at *
  subst hv
  simp only [dec, bind, Except.bind, e1, if_true, e2, n1, n2, hcnt, n3, encT, List.length_append, length_beBytes, Nat.add_assoc]

theorem rt : codec.RtAnywhere := fun _ hwf hf _ _ h => (dec_step hwf hf h.nil_right).1
theorem count : codec.Count := encP_eq

end VMAL

/-! ## Pattern -/

namespace Pattern

theorem length_rowT (row : List Nat) : (rowT row).length = row.length := by
  have := length_listT_const (beBytes 1) 1 row (fun v _ => length_beBytes 1 v)
  simpa [rowT] using this

theorem rows_step {rows : List (List Nat)} (hf : listFits (fun (row : List Nat) => row.length = 3 ∧ listFits (FitsU 1) row) rows)
    {d : B} {p : Nat} {rest : B} (h : At d p (listT rowT rows ++ rest)) :
    readCount (readCount (readU 1) 3) rows.length d p = .ok (rows, p + 3 * rows.length) ∧ At d (p + 3 * rows.length) rest := by
  have hl := length_listT_const rowT 3 rows (fun r hr => by rw [length_rowT, (hf r hr).1])
  obtain ⟨e, h'⟩ := Psd.readCount_step (readCount (readU 1) 3) rowT rows
    (fun r hr d p h => by
      have h' : At d p (listT (beBytes 1) r ++ []) := by simpa [rowT] using h
      have := (readUList_step (hf r hr).1 (hf r hr).2 h').1
      rw [this, length_rowT, (hf r hr).1]) h
  rw [hl] at e h'
  exact ⟨e, h'⟩

theorem tableP_eq (t : Option (List (List Nat))) : tableP t = (tableT t, (tableT t).length) := by
  cases t with
  | none => rfl
  | some rows =>
    cases rows with
    | nil => rfl
    | cons r rs =>
      simp only [tableP, tableT]
      rw [wList_eq (fun row => wBytes (rowT row)) rowT (r :: rs) (fun row _ => rfl)]
      simp only [wBytes_eq, wSeq_eq]

theorem encP_eq (x : Pattern) : x.encP = (x.encT, x.encT.length) := by
  simp only [encP, encT, wUStr_eq, tableP_eq, VMAL.encP_eq, wPascal_eq, wBytes_eq, wSeq_eq, List.append_assoc]

theorem dec_step {x : Pattern} (hwf : x.WF) (hf : x.Fits) {d : B} {p : Nat} {rest : B} (h : At d p (x.encT ++ rest)) :
    dec d p = .ok (x, p + x.encT.length) ∧ At d (p + x.encT.length) rest := by
  refine ⟨?_, h.right⟩
  obtain ⟨version, mode, point, name, pid, table, data⟩ := x
  obtain ⟨hv, hmode, ⟨hpy, hnp⟩, hascii, htable, hdata⟩ := hwf
  obtain ⟨fv, fm, ⟨p2, fp⟩, fname, fid, ftab, fdata⟩ := hf
  simp only at hv hmode hpy hnp hascii htable hdata fv fm p2 fp fname fid ftab fdata
  subst hv
  have hL : (encT ⟨1, mode, point, name, pid, table, data⟩).length = 4 + (4 + (2 * 2 + ((ustrT 1 name).length +
      ((pascalT 1 pid).length + ((tableT table).length + data.encT.length))))) := by
    have hl := length_listT_const i16T 2 point (fun v _ => length_i16T v)
    simp only [encT, List.length_append, length_beBytes, hl, p2]; omega
  rw [hL]
  have h0 : At d p (beBytes 4 1 ++ (beBytes 4 mode ++ (listT i16T point ++ (ustrT 1 name ++
      (pascalT 1 pid ++ (tableT table ++ (data.encT ++ rest))))))) := by
    simpa only [encT, List.append_assoc] using h
  obtain ⟨e1, h1⟩ := readU_step h0 fv
  obtain ⟨e2, h2⟩ := readU_step h1 fm
  obtain ⟨e3, h3⟩ := readI16List_step p2 fp h2
  obtain ⟨e4, h4⟩ := readUStr_step ⟨hpy, fname⟩ hnp (by decide) h3
  obtain ⟨e5, h5⟩ := readPascal_step h4 fid
  cases table with
  | some rows =>
    obtain ⟨hdec, h256⟩ := htable
    have hidx : mode = GP.colorModeIndexed := of_decide_eq_true hdec
    clear hdec
    have hrne : rows ≠ [] := by intro hnil; rw [hnil] at h256; simp at h256
    obtain ⟨r0, rs, rfl⟩ := List.exists_cons_of_ne_nil hrne
    simp only [tableT, tableFits, List.append_assoc] at h5 ftab ⊢
    obtain ⟨e6, h6⟩ := rows_step ftab h5
    rw [h256] at e6 h6
    obtain ⟨e7, h7⟩ := readSkip_step h6
    obtain ⟨e8, _⟩ := VMAL.dec_step hdata fdata h7
    have hl := length_listT_const rowT 3 (r0 :: rs) (fun r hr => by rw [length_rowT, (ftab r hr).1])
    simp only [dec, bind, Except.bind, e1, if_true, e2, if_pos hmode, e3, e4, e5, hascii, if_pos hidx, e6, e7, e8]
    simp only [List.length_append, hl, h256, length_zeros, Nat.add_assoc]
  | none =>
    have hidx : ¬ mode = GP.colorModeIndexed := of_decide_eq_false htable
    simp only [tableT, List.nil_append] at h5 ⊢
    obtain ⟨e8, _⟩ := VMAL.dec_step hdata fdata h5
    simp only [dec, bind, Except.bind, e1, if_true, e2, if_pos hmode, e3, e4, e5, hascii, if_neg hidx, e8]
    simp only [List.length_nil, Nat.zero_add, Nat.add_assoc]

theorem rt : codec.RtAnywhere := fun _ hwf hf _ _ h => (dec_step hwf hf h.nil_right).1
theorem count : codec.Count := encP_eq

end Pattern

/-! ## Patterns -/

theorem Patterns.rt : Patterns.codec.RtAtEnd := by
  intro xs hwf hf d p h hend
  simp only [Patterns.codec] at *
  apply readWhile_at (isReadable 4) _ (fun (x : Pattern) => lenBlockT 0 4 4 x.encT) xs _ _ h
  · exact isReadable_false (by omega)
  · intro x hx q hq
    have hl := length_lenBlockT 0 4 4 x.encT
    refine ⟨isReadable_of_at hq (by omega), ?_⟩
    have e1 := readLenBlock_at hq (hf x hx).2 (by decide)
    have e2 := (Pattern.dec_step (hwf x hx) (hf x hx).1 (At.self x.encT).nil_right).1
    simp only [bind, Except.bind, e1, e2]
  · intro x _; have hl := length_lenBlockT 0 4 4 x.encT; omega

theorem Patterns.count : Patterns.codec.Count := by
  intro xs
  simp only [Patterns.codec]
  exact wList_eq _ _ xs (fun x _ => by rw [Pattern.encP_eq, wLenBlock_eq])

end PsdVerif.Payload
