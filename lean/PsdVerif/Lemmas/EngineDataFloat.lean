/-
Lemmas for C18: the Float token of a decimal in normal form (`Dec.wf`). Core Lean only.
-/
import PsdVerif.Lemmas.EngineDataTree

namespace PsdVerif.EngineData

/-! ### tokens of the shape  sign ++ ip ++ "." ++ fp -/

def signB (neg : Bool) : BL := if neg then [0x2D] else []

theorem isDigit_dot : isDigit 0x2E = false := by decide

theorem unsigned_head (ip fp : BL) (hip : ∀ b ∈ ip, isDigit b = true) :
    ∃ h r, ip ++ 0x2E :: fp = h :: r ∧ h ≠ 0x2D ∧ (isDigit h = true ∨ h = 0x2E) := by
  cases ip with
  | nil => exact ⟨0x2E, fp, rfl, by decide, Or.inr rfl⟩
  | cons a t =>
    have ha := hip a (by simp)
    exact ⟨a, t ++ 0x2E :: fp, rfl, (digit_facts a ha).2.2.1, Or.inl ha⟩

theorem dec_takeWhile (ip fp : BL) (hip : ∀ b ∈ ip, isDigit b = true) :
    (ip ++ 0x2E :: fp).takeWhile isDigit = ip :=
  takeWhile_all isDigit ip _ hip (Or.inr ⟨0x2E, fp, rfl, isDigit_dot⟩)

theorem dec_dropWhile (ip fp : BL) (hip : ∀ b ∈ ip, isDigit b = true) :
    (ip ++ 0x2E :: fp).dropWhile isDigit = 0x2E :: fp :=
  dropWhile_all isDigit ip _ hip (Or.inr ⟨0x2E, fp, rfl, isDigit_dot⟩)

theorem optMinus_signed (neg : Bool) (ip fp : BL) (hip : ∀ b ∈ ip, isDigit b = true) :
    optMinus (signB neg ++ (ip ++ 0x2E :: fp)) = ip ++ 0x2E :: fp := by
  cases neg with
  | true => simp [signB, optMinus]
  | false =>
    obtain ⟨h, r, e, hne, _⟩ := unsigned_head ip fp hip
    simp only [signB, Bool.false_eq_true, if_false, List.nil_append]
    rw [e]; simp [optMinus, hne]

theorem decOfToken_shape (neg : Bool) (ip fp : BL) (hip : ∀ b ∈ ip, isDigit b = true)
    (hfp : ∀ b ∈ fp, isDigit b = true) :
    decOfToken (signB neg ++ (ip ++ 0x2E :: fp)) = ⟨neg, parseNat (ip ++ fp), fp.length⟩ := by
  simp only [decOfToken, optMinus_signed neg ip fp hip, dec_takeWhile ip fp hip, dec_dropWhile ip fp hip,
    List.drop_succ_cons, List.drop_zero, takeWhile_digits fp hfp]
  cases neg with
  | true => simp [signB]
  | false =>
    obtain ⟨h, r, e, hne, _⟩ := unsigned_head ip fp hip
    simp only [signB, Bool.false_eq_true, if_false, List.nil_append]
    rw [e]; simp [hne]

theorem plain_shape (neg : Bool) (ip fp : BL) (hip : ∀ b ∈ ip, isDigit b = true)
    (hfp : ∀ b ∈ fp, isDigit b = true) : Plain (signB neg ++ (ip ++ 0x2E :: fp)) := by
  apply plain_digits_like
  · cases neg <;> simp [signB]
  · intro b hb
    simp only [List.mem_append, List.mem_cons] at hb
    rcases hb with hb | hb | hb | hb
    · cases neg
      · simp [signB] at hb
      · simp [signB] at hb; exact Or.inr (Or.inl hb)
    · exact Or.inl (hip b hb)
    · exact Or.inr (Or.inr hb)
    · exact Or.inl (hfp b hb)

theorem classify_shape (neg : Bool) (ip fp : BL) (hip : ∀ b ∈ ip, isDigit b = true)
    (hfp : ∀ b ∈ fp, isDigit b = true) (hne : fp ≠ []) :
    classify (signB neg ++ (ip ++ 0x2E :: fp)) = some .numberDec := by
  have om := optMinus_signed neg ip fp hip
  have tw := dec_takeWhile ip fp hip
  have dw := dec_dropWhile ip fp hip
  have twf := takeWhile_digits fp hfp
  have dwf := dropWhile_digits fp hfp
  have hnum : reNumber (signB neg ++ (ip ++ 0x2E :: fp)) = false := by
    simp [reNumber, om, tw, dw, isEnd]
  have hdec : reNumberDec (signB neg ++ (ip ++ 0x2E :: fp)) = true := by
    simp [reNumberDec, om, dw, twf, dwf, isEnd, hne]
  -- the first six expressions fail on the first byte
  have hhead : ∃ h r, signB neg ++ (ip ++ 0x2E :: fp) = h :: r ∧ (isDigit h = true ∨ h = 0x2D ∨ h = 0x2E) := by
    cases neg with
    | true => exact ⟨0x2D, ip ++ 0x2E :: fp, rfl, Or.inr (Or.inl rfl)⟩
    | false =>
      obtain ⟨h, r, e, _, hh⟩ := unsigned_head ip fp hip
      refine ⟨h, r, by simpa [signB] using e, ?_⟩
      rcases hh with hh | hh
      · exact Or.inl hh
      · exact Or.inr (Or.inr hh)
  obtain ⟨h, r, e, hh⟩ := hhead
  have hfirst : h ≠ 0x5D ∧ h ≠ 0x5B ∧ h ≠ 0x74 ∧ h ≠ 0x66 ∧ h ≠ 0x3E ∧ h ≠ 0x3C ∧ h ≠ 0x0A := by
    rcases hh with hh | rfl | rfl
    · obtain ⟨_, _, _, _, a4, a5, a6, a7, a8, a9, a10, _⟩ := digit_facts h hh
      exact ⟨a4, a5, a6, a7, a8, a9, a10⟩
    · decide
    · decide
  obtain ⟨a4, a5, a6, a7, a8, a9, a10⟩ := hfirst
  unfold classify
  rw [hnum, hdec]
  rw [e]
  simp [reArrayEnd, reArrayStart, reBoolean, reDictEnd, reDictStart, reNoop, stripPre, cTrue, cFalse, isEnd,
    a4, a5, a6, a7, a8, a9, a10, Ne.symm a6, Ne.symm a7, Ne.symm a8, Ne.symm a9]

/-! ### fixed-width digits -/

theorem fixDigits_digits (w n : Nat) : ∀ b ∈ fixDigits w n, isDigit b = true := by
  induction w generalizing n with
  | zero => intro b hb; simp [fixDigits] at hb
  | succ w ih =>
    intro b hb
    simp only [fixDigits, List.mem_append, List.mem_singleton] at hb
    rcases hb with hb | rfl
    · exact ih _ b hb
    · exact isDigit_digitByte _ (by omega)

theorem fixDigits_length (w n : Nat) : (fixDigits w n).length = w := by
  induction w generalizing n with
  | zero => rfl
  | succ w ih => simp [fixDigits, ih]

theorem parseNat_fixDigits (x : BL) (w n : Nat) (h : n < 10 ^ w) :
    parseNat (x ++ fixDigits w n) = parseNat x * 10 ^ w + n := by
  induction w generalizing n with
  | zero => simp at h; subst h; simp [fixDigits]
  | succ w ih =>
    have hw : n / 10 < 10 ^ w := by rw [Nat.pow_succ] at h; omega
    rw [fixDigits, ← List.append_assoc, parseNat_append, ih _ hw, digitByte_toNat _ (by omega), Nat.pow_succ,
      ← Nat.mul_assoc]
    omega

theorem fixDigits_mul_pow (a b x : Nat) :
    fixDigits (a + b) (x * 10 ^ b) = fixDigits a x ++ List.replicate b 0x30 := by
  induction b with
  | zero => simp
  | succ b ih =>
    have e1 : x * 10 ^ (b + 1) / 10 = x * 10 ^ b := by
      rw [Nat.pow_succ, ← Nat.mul_assoc]; omega
    have e2 : x * 10 ^ (b + 1) % 10 = 0 := by
      rw [Nat.pow_succ, ← Nat.mul_assoc]; omega
    rw [← Nat.add_assoc, fixDigits, e1, e2, ih, List.replicate_succ', List.append_assoc]
    rfl

/-! ### rstrip -/

theorem rstrip_zeros (p : BL) (n : Nat) : rstripZeros (p ++ List.replicate n 0x30) = rstripZeros p := by
  unfold rstripZeros
  rw [List.reverse_append, List.reverse_replicate]
  congr 1
  induction n with
  | zero => rfl
  | succ n ih => simp [List.replicate_succ, List.dropWhile, ih]

theorem rstrip_stop (p : BL) (x : UInt8) (hx : x ≠ 0x30) : rstripZeros (p ++ [x]) = p ++ [x] := by
  unfold rstripZeros
  simp [List.reverse_append, List.dropWhile, hx]

theorem replace2_nodot (l : BL) (h : ∀ b ∈ l, b ≠ 0x2E) : replace2 0x30 0x2E [0x2E] l = l := by
  induction l with
  | nil => rfl
  | cons a t ih =>
    have iht := ih (fun b hb => h b (by simp [hb]))
    rw [replace2_cons _ _ _ _ _ ?_, iht]
    right
    cases t with
    | nil => simp
    | cons b t => simp; exact h b (by simp)

/-! ### the shape of `writeFloat` -/

theorem m8_arith (mant k : Nat) (h1 : 1 ≤ k) (h8 : k ≤ 8) :
    mant * 10 ^ (8 - k) / 10 ^ 8 = mant / 10 ^ k ∧
    mant * 10 ^ (8 - k) % 10 ^ 8 = (mant % 10 ^ k) * 10 ^ (8 - k) := by
  have : k = 1 ∨ k = 2 ∨ k = 3 ∨ k = 4 ∨ k = 5 ∨ k = 6 ∨ k = 7 ∨ k = 8 := by omega
  rcases this with rfl | rfl | rfl | rfl | rfl | rfl | rfl | rfl <;> (simp; try omega)

theorem digit_ne_dot (b : UInt8) (h : isDigit b = true) : b ≠ 0x2E := (digit_facts b h).2.2.2.1

theorem writeFloat_shape (d : Dec) (h : d.wf = true) :
    ∃ ip, writeFloat d = signB d.neg ++ (ip ++ 0x2E :: fixDigits d.k (d.mant % 10 ^ d.k)) ∧
      (∀ b ∈ ip, isDigit b = true) ∧
      parseNat (ip ++ fixDigits d.k (d.mant % 10 ^ d.k)) = d.mant := by
  obtain ⟨neg, mant, k⟩ := d
  simp only [Dec.wf, Bool.and_eq_true, decide_eq_true_eq, Bool.or_eq_true, beq_iff_eq, bne_iff_ne] at h
  obtain ⟨⟨h1, h8⟩, hnorm⟩ := h
  obtain ⟨k', rfl⟩ : ∃ k', k = k' + 1 := ⟨k - 1, by omega⟩
  obtain ⟨a1, a2⟩ := m8_arith mant (k' + 1) h1 h8
  have hm8 : m8 ⟨neg, mant, k' + 1⟩ = mant * 10 ^ (8 - (k' + 1)) := by simp [m8, h8]
  have hF : mant % 10 ^ (k' + 1) < 10 ^ (k' + 1) := Nat.mod_lt _ (Nat.pow_pos (by decide))
  -- the last digit of the fractional part
  have hlast : mant % 10 ^ (k' + 1) % 10 = mant % 10 := by
    rw [Nat.pow_succ, Nat.mul_comm, Nat.mod_mul]; omega
  have hfix8 : fixDigits 8 (mant % 10 ^ (k' + 1) * 10 ^ (8 - (k' + 1)))
      = fixDigits (k' + 1) (mant % 10 ^ (k' + 1)) ++ List.replicate (8 - (k' + 1)) 0x30 := by
    have := fixDigits_mul_pow (k' + 1) (8 - (k' + 1)) (mant % 10 ^ (k' + 1))
    rwa [show k' + 1 + (8 - (k' + 1)) = 8 by omega] at this
  -- the rendering before the `0.` → `.` replacement
  have hcanon : (let v := rstripZeros (fmt8 ⟨neg, mant, k' + 1⟩)
      if v.getLast? = some 0x2E then v ++ [0x30] else v)
      = signB neg ++ (D (mant / 10 ^ (k' + 1)) ++ 0x2E :: fixDigits (k' + 1) (mant % 10 ^ (k' + 1))) := by
    simp only [fmt8, hm8, a1, a2, hfix8, natDigits_eq]
    rw [fixDigits]
    rw [show (if neg = true then [0x2D] else []) = signB neg from rfl]
    have assoc : signB neg ++ D (mant / 10 ^ (k' + 1)) ++ [0x2E] ++
        (fixDigits k' (mant % 10 ^ (k' + 1) / 10) ++ [digitByte (mant % 10 ^ (k' + 1) % 10)]
          ++ List.replicate (8 - (k' + 1)) 0x30)
        = (signB neg ++ D (mant / 10 ^ (k' + 1)) ++ [0x2E] ++ fixDigits k' (mant % 10 ^ (k' + 1) / 10)
          ++ [digitByte (mant % 10 ^ (k' + 1) % 10)]) ++ List.replicate (8 - (k' + 1)) 0x30 := by
      simp [List.append_assoc]
    rw [assoc, rstrip_zeros, hlast]
    by_cases hz : mant % 10 = 0
    · -- only possible with one fractional digit: "…x.0" is stripped to "…x." and gets its 0 back
      have hk : k' = 0 := by
        rcases hnorm with hk | hk
        · omega
        · exact absurd hz hk
      subst hk
      rw [hz]
      have e0 : digitByte 0 = 0x30 := rfl
      simp only [fixDigits, List.append_nil, e0]
      have := rstrip_zeros (signB neg ++ D (mant / 10 ^ (0 + 1)) ++ [0x2E]) 1
      simp only [List.replicate_one] at this
      rw [this, rstrip_stop _ _ (by decide)]
      simp [List.getLast?_concat]
    · have hne : digitByte (mant % 10) ≠ 0x30 := by
        intro e
        have := congrArg UInt8.toNat e
        rw [digitByte_toNat _ (by omega)] at this
        simp at this; omega
      rw [rstrip_stop _ _ hne]
      have hnd : digitByte (mant % 10) ≠ 0x2E := digit_ne_dot _ (isDigit_digitByte _ (by omega))
      simp only [List.getLast?_concat, Option.some.injEq, hnd, if_false]
      simp [List.append_assoc]
  refine ⟨if 0 < mant ∧ mant < 10 ^ (k' + 1) then [] else D (mant / 10 ^ (k' + 1)), ?_, ?_, ?_⟩
  · unfold writeFloat
    simp only []
    simp only [] at hcanon
    rw [hcanon]
    by_cases hsmall : 0 < mant ∧ mant < 10 ^ (k' + 1)
    · simp only [hsmall, and_self, if_true, List.nil_append]
      have hI : mant / 10 ^ (k' + 1) = 0 := Nat.div_eq_of_lt hsmall.2
      have hD0 : D 0 = [0x30] := by rw [D]; rfl
      rw [hI, hD0]
      have hfd : ∀ b ∈ fixDigits (k' + 1) (mant % 10 ^ (k' + 1)), b ≠ 0x2E :=
        fun b hb => digit_ne_dot b (fixDigits_digits _ _ b hb)
      cases neg with
      | false =>
        simp only [signB, Bool.false_eq_true, if_false, List.nil_append, List.singleton_append]
        rw [replace2.eq_def]
        simp [replace2_nodot _ hfd]
      | true =>
        simp only [signB, if_true, List.singleton_append, List.cons_append, List.nil_append]
        rw [replace2_cons _ _ _ _ _ (Or.inl (by decide)), replace2.eq_def]
        simp [replace2_nodot _ hfd]
    · simp only [hsmall, if_false]
  · intro b hb
    split at hb
    · cases hb
    · exact D_digits _ b hb
  · by_cases hsmall : 0 < mant ∧ mant < 10 ^ (k' + 1)
    · simp only [hsmall, and_self, if_true, List.nil_append]
      have := parseNat_fixDigits [] (k' + 1) _ hF
      simp only [List.nil_append] at this
      rw [this, Nat.mod_eq_of_lt hsmall.2]
      simp [parseNat]
    · simp only [hsmall, if_false]
      rw [parseNat_fixDigits _ _ _ hF, parseNat_D]
      exact Nat.div_add_mod' mant (10 ^ (k' + 1))

theorem floatOK : FloatOK := by
  intro d h
  obtain ⟨ip, hw, hip, hval⟩ := writeFloat_shape d h
  have hfp := fixDigits_digits d.k (d.mant % 10 ^ d.k)
  have hk : 1 ≤ d.k := by
    simp only [Dec.wf, Bool.and_eq_true, decide_eq_true_eq] at h
    exact h.1.1
  have hne : fixDigits d.k (d.mant % 10 ^ d.k) ≠ [] := by
    intro e
    have := fixDigits_length d.k (d.mant % 10 ^ d.k)
    rw [e] at this; simp at this; omega
  refine ⟨Or.inr ?_, ?_, ?_⟩
  · show Plain (writeFloat d)
    rw [hw]; exact plain_shape _ _ _ hip hfp
  · show classify (writeFloat d) = some .numberDec
    rw [hw]; exact classify_shape _ _ _ hip hfp hne
  · show valueOfToken .numberDec (writeFloat d) = some (.ok (.flt d))
    simp only [valueOfToken]
    rw [hw, decOfToken_shape _ _ _ hip hfp, hval, fixDigits_length]

end PsdVerif.EngineData
