/-
C11 for effect-carrying trees: the code model (`applyFxNode`, `Model/CompositeFx.lean`) refines the published
model extended to fills, vector masks, the vector stroke and layer effects (`specFxNode`,
`Model/CompositeFxSpec.lean`), by mutual induction over the tree.
-/
import PsdVerif.Model.CompositeFxSpec
import PsdVerif.Lemmas.CompositeFx
import PsdVerif.Lemmas.CompositeSpecRefine

namespace PsdVerif.Composite

theorem applyOverlays_rel {B : Mode → Color → Color → Color} (hB : BOk B) (V bbox : Rect) (x y : Int) {shape alpha : Rat}
    (ha0 : 0 ≤ alpha) (has : alpha ≤ shape) (hs1 : shape ≤ 1) {st : PState} {σ : SState} (hst : Inv st) (hr : Rel st σ)
    (es : List Overlay) (hok : ∀ e ∈ es, OverlayOk e) :
    Rel (applyOverlays B V bbox x y shape alpha st es) (specOverlays .pdf17 B V bbox x y shape alpha σ es) ∧
      Inv (applyOverlays B V bbox x y shape alpha st es) := by
  induction es generalizing st σ with
  | nil => exact ⟨hr, hst⟩
  | cons e es ih =>
    have he := hok e (List.mem_cons_self ..)
    have hsrc : SrcOk (pasteAt V bbox x y e.color white) (shape * overlayShape V bbox x y e)
        (alpha * overlayShape V bbox x y e * e.opacity) := overlaySrc_ok he V bbox x y ha0 has hs1
    unfold applyOverlays specOverlays
    exact ih (applySource_inv hst hsrc false)
      (applySource_rel hst hr hsrc (hB e.mode) (fun ch => by ring) false)
      (fun e' he' => hok e' (List.mem_cons_of_mem _ he'))

theorem applyStrokeFx_rel {B : Mode → Color → Color → Color} (hB : BOk B) (V bbox : Rect) (x y : Int) {lop : Rat}
    (hl : Unit01 lop) {st : PState} {σ : SState} (hst : Inv st) (hr : Rel st σ) (ss : List StrokeFx)
    (hok : ∀ s ∈ ss, StrokeFxOk s) :
    Rel (applyStrokeFx B V bbox x y lop st ss) (specStrokeFx .pdf17 B V bbox x y lop σ ss) ∧
      Inv (applyStrokeFx B V bbox x y lop st ss) := by
  induction ss generalizing st σ with
  | nil => exact ⟨hr, hst⟩
  | cons s ss ih =>
    have hs := hok s (List.mem_cons_self ..)
    have hsrc : SrcOk (pasteAt V bbox x y s.color black) (pasteAt V bbox x y (s.shape V) 0)
        (pasteAt V bbox x y (s.shape V) 0 * (s.opacity * lop)) := strokeFxSrc_ok hs V bbox x y hl
    unfold applyStrokeFx specStrokeFx
    exact ih (applySource_inv hst hsrc false)
      (applySource_rel hst hr hsrc (hB s.mode) (fun ch => by ring) false)
      (fun s' hs' => hok s' (List.mem_cons_of_mem _ hs'))

/-- an object with effects enters the group the same way on both sides: its own element, then one element per effect -/
theorem finishFx_rel {B : Mode → Color → Color → Color} (hB : BOk B) (force : Bool) {pr : Props} {fx : Fx} (hp : PropsOk pr)
    (hf : FxOk fx) (V : Rect) (x y : Int) {st : PState} {σ : SState} (hst : Inv st) (hr : Rel st σ) {color Pj : Color}
    {shape alpha : Rat} (hc : ColorOk color) (ha0 : 0 ≤ alpha) (has : alpha ≤ shape) (hs1 : shape ≤ 1)
    (hP : ∀ ch, Pj ch = color ch * alpha) :
    Rel (finishFx B force V x y st pr fx color shape alpha) (specFinishFx .pdf17 B force V x y σ pr fx Pj shape alpha) := by
  have hown : SrcOk color (shape * (maskFactorsFx force pr fx V x y).1 * pr.fill)
      (alpha * ((maskFactorsFx force pr fx V x y).1 * (maskFactorsFx force pr fx V x y).2 * pr.opacity) * pr.fill) :=
    ownSrc_ok force hp hf V x y hc ha0 has hs1
  obtain ⟨b0, b1, b2⟩ := masked_bounds force hp hf V x y ha0 has hs1
  unfold finishFx specFinishFx
  simp only
  have h1inv := applySource_inv (bl := B pr.mode) hst hown pr.knockout
  have h1 : Rel (applySource (B pr.mode) st color (shape * (maskFactorsFx force pr fx V x y).1 * pr.fill)
        (alpha * ((maskFactorsFx force pr fx V x y).1 * (maskFactorsFx force pr fx V x y).2 * pr.opacity) * pr.fill) pr.knockout)
      (specSource .pdf17 (B pr.mode) σ
        (fun ch => ((maskFactorsFx force pr fx V x y).1 * (maskFactorsFx force pr fx V x y).2 * pr.opacity * pr.fill) * Pj ch)
        (shape * (maskFactorsFx force pr fx V x y).1 * pr.fill)
        (alpha * ((maskFactorsFx force pr fx V x y).1 * (maskFactorsFx force pr fx V x y).2 * pr.opacity) * pr.fill) pr.knockout) := by
    apply applySource_rel hst hr hown (hB pr.mode)
    intro ch
    rw [hP ch]; ring
  obtain ⟨h2, h2inv⟩ := applyOverlays_rel hB V pr.bbox x y b0 b1 b2 h1inv h1 fx.overlays hf.overlays
  exact (applyStrokeFx_rel hB V pr.bbox x y hp.opacity h2inv h2 fx.strokeFx hf.strokeFx).1

/-- the vector stroke: the colour the code's sub-compositor hands back is the published group colour with the
backdrop removed, taken with the object's alpha -/
theorem strokeObject_rel {B : Mode → Color → Color → Color} (hB : BOk B) (V : Rect) (x y : Int) {color Pj : Color} {aj : Rat}
    (hc : ColorOk color) (ha : Unit01 aj) (hP : ∀ ch, Pj ch = color ch * aj) (stroke : Option VStroke)
    (hs : optStrokeOk stroke) (ch : Nat) :
    specStrokeObject .pdf17 B V x y Pj aj stroke ch = strokeObject B V x y color aj stroke ch * aj := by
  cases stroke with
  | none => exact hP ch
  | some s =>
    have hs' : VStrokeOk s := hs
    unfold specStrokeObject strokeObject
    simp only
    have hsh : Unit01 (pasteAt V s.canvas x y s.shape 0) := pasteAt_unit hs'.shape unit01_zero
    obtain ⟨o0, o1⟩ := hs'.opacity
    have hsrc : SrcOk (pasteAt V s.box x y s.color white) (pasteAt V s.canvas x y s.shape 0)
        (pasteAt V s.canvas x y s.shape 0 * s.opacity) := by
      refine ⟨mul_nonneg hsh.1 o0, ?_, hsh.2, pasteAt_color hs'.color white_ok⟩
      calc pasteAt V s.canvas x y s.shape 0 * s.opacity ≤ pasteAt V s.canvas x y s.shape 0 * 1 :=
            mul_le_mul_of_nonneg_left o1 hsh.1
        _ = _ := mul_one _
    have i0 := inv_init hc ha false
    have r0 : Rel (PState.init color aj false) (SState.init Pj aj false) := rel_init false hP
    have r1 := applySource_rel i0 r0 hsrc (hB s.mode) (Ps := fun ch => pasteAt V s.canvas x y s.shape 0 * s.opacity *
      pasteAt V s.box x y s.color white ch) (fun ch => by ring) false
    have i1 := applySource_inv (bl := B s.mode) i0 hsrc false
    have x1 := applySource_xinv i0 (xinv_init color aj false) hsrc (hB s.mode) false
    generalize hst1 : applySource (B s.mode) (PState.init color aj false) (pasteAt V s.box x y s.color white)
      (pasteAt V s.canvas x y s.shape 0) (pasteAt V s.canvas x y s.shape 0 * s.opacity) false = st1 at r1 i1 x1
    generalize specSource .pdf17 (B s.mode) (SState.init Pj aj false)
      (fun ch => pasteAt V s.canvas x y s.shape 0 * s.opacity * pasteAt V s.box x y s.color white ch)
      (pasteAt V s.canvas x y s.shape 0) (pasteAt V s.canvas x y s.shape 0 * s.opacity) false = σ1 at r1
    have hfm := finishColor_mul i1 x1 ch
    have hgc : groupColor σ1 ch = groupNum st1 ch := by
      unfold groupColor groupNum
      rw [r1.P ch, r1.P0 ch, r1.ag]; ring
    rw [r1.ag]
    by_cases hag : st1.ag = 0
    · rw [if_pos hag]
      by_cases haj : aj = 0
      · rw [hP ch, haj]; ring
      · -- nothing of the stroke at this pixel: the sub-compositor hands the object's colour back
        have hal : pasteAt V s.canvas x y s.shape 0 * s.opacity = 0 := by
          have : st1.ag = pasteAt V s.canvas x y s.shape 0 * s.opacity := by
            rw [← hst1]; simp [PState.init]
          rw [← this]; exact hag
        have hz := applySource_zero_alpha (B s.mode) (PState.init color aj false) i0 (pasteAt V s.box x y s.color white)
          (pasteAt V s.canvas x y s.shape 0)
        rw [hal] at hst1
        rw [hst1] at hz
        obtain ⟨_, _, hzc⟩ := hz
        have ha0 : (PState.init color aj false).a ≠ 0 := by simpa [PState.init] using haj
        have hc1 : st1.c ch = color ch := by
          have := hzc ha0 ch
          simpa [PState.init] using this
        have hc0 : st1.c0 ch = color ch := by rw [← hst1]; simp [PState.init]
        have : finishColor st1 ch = color ch := by
          unfold finishColor
          rw [hc1, hc0, sub_self, zero_mul, add_zero]
          exact clip_id (hc ch)
        rw [this, hP ch]
    · rw [if_neg hag, hgc, ← hfm]
      field_simp

mutual
/-- **The compositor with effects refines the published model with effects** (knockout group-alpha rule as coded):
one layer with everything below it and everything it carries. -/
theorem applyFxNode_rel {B : Mode → Color → Color → Color} (hB : BOk B) (force : Bool) (V : Rect) (x y : Int) (cc : Bool)
    (st : PState) (σ : SState) (hst : Inv st) (hr : Rel st σ) :
    (n : FxNode) → fxNodeOk n → Rel (applyFxNode B force V x y cc st n) (specFxNode .pdf17 B force V x y cc σ n)
  | .adjustment _, _ => by unfold applyFxNode specFxNode; exact hr
  | .leaf pr fx src stroke clips, hn => by
    obtain ⟨hp, hf, hsrc, hstk, hcl⟩ := hn
    unfold applyFxNode specFxNode
    by_cases hv : (!pr.visible) = true
    · simp only [hv, if_true]; exact hr
    simp only [hv, Bool.false_eq_true, if_false]
    by_cases hz : intersect V pr.bbox = Rect.zero
    · simp only [hz, if_true]; exact hr
    simp only [hz, if_false]
    by_cases hk : (!cc && pr.clipping && pr.hasClipTarget) = true
    · simp only [hk, if_true]; exact hr
    simp only [hk, Bool.false_eq_true, if_false]
    have hc0 := leafColor_ok force V x y pr fx hsrc
    have hs0 := leafShape_unit force V x y pr fx hsrc
    generalize leafColor force V x y pr fx src = color0 at hc0 ⊢
    generalize leafShape force V x y pr fx src = shape0 at hs0 ⊢
    have i0 := inv_init hc0 hs0 false
    by_cases he : clips.isEmpty = true
    · simp only [he, if_true]
      apply finishFx_rel hB force hp hf V x y hst hr (strokeObject_ok B V x y shape0 hc0 stroke) hs0.1 (le_refl _) hs0.2
      exact strokeObject_rel hB V x y hc0 hs0 (fun ch => by ring) stroke hstk
    · simp only [he, Bool.false_eq_true, if_false]
      have hrel := applyFxClips_rel hB force V x y (PState.init color0 shape0 false)
        (SState.init (fun ch => shape0 * color0 ch) shape0 false) i0 (rel_init false (fun ch => by ring)) clips hcl
      have hinv := applyFxClips_inv B force V x y _ i0 clips hcl
      apply finishFx_rel hB force hp hf V x y hst hr (strokeObject_ok B V x y shape0 hinv.c stroke) hs0.1 (le_refl _) hs0.2
      apply strokeObject_rel hB V x y hinv.c hs0 _ stroke hstk
      intro ch
      exact clipGroupColor_rel hrel hinv (by rw [applyFxClips_a0, init_a0_false]) ch
  | .group pr fx passThrough children clips, hn => by
    obtain ⟨hp, hf, hch, hcl⟩ := hn
    unfold applyFxNode specFxNode
    by_cases hv : (!pr.visible) = true
    · simp only [hv, if_true]; exact hr
    simp only [hv, Bool.false_eq_true, if_false]
    by_cases hz : intersect V pr.bbox = Rect.zero
    · simp only [hz, if_true]; exact hr
    simp only [hz, if_false]
    by_cases hk : (!cc && pr.clipping && pr.hasClipTarget) = true
    · simp only [hk, if_true]; exact hr
    simp only [hk, Bool.false_eq_true, if_false]
    have hcb : ColorOk (if pr.knockout = true then st.c0 else st.c) := by split; exact hst.c0; exact hst.c
    have hab : Unit01 (if pr.knockout = true then st.a0 else st.a) := by split; exact hst.a0; exact hst.a
    have eab : (if pr.knockout = true then σ.a0 else σ.a) = (if pr.knockout = true then st.a0 else st.a) := by
      split; exact hr.a0; exact hr.a
    have hPb : ∀ ch, (if pr.knockout = true then σ.P0 else σ.P) ch
        = (if pr.knockout = true then st.c0 else st.c) ch * (if pr.knockout = true then st.a0 else st.a) := by
      intro ch; split; exact hr.P0 ch; exact hr.P ch
    rw [eab]
    generalize (if pr.knockout = true then st.c0 else st.c) = colorB at hcb hPb ⊢
    generalize (if pr.knockout = true then st.a0 else st.a) = alphaB at hab hPb ⊢
    generalize (if pr.knockout = true then σ.P0 else σ.P) = Pb at hPb ⊢
    have i1 := inv_init hcb hab (!passThrough)
    have hsub := applyFxList_inv B force (intersect V pr.bbox) x y _ i1 children hch
    have hxsub := applyFxList_xinv hB force (intersect V pr.bbox) x y _ i1 (xinv_init colorB alphaB (!passThrough)) children hch
    have hsrel := applyFxList_rel hB force (intersect V pr.bbox) x y (PState.init colorB alphaB (!passThrough))
      (SState.init Pb alphaB (!passThrough)) i1 (rel_init (!passThrough) hPb) children hch
    have hfc : ColorOk (finishColor (applyFxList B force (intersect V pr.bbox) x y (PState.init colorB alphaB (!passThrough)) children)) :=
      fun ch => clip_unit _
    have hgc : ∀ ch, groupColor (specFxList .pdf17 B force (intersect V pr.bbox) x y (SState.init Pb alphaB (!passThrough)) children) ch
        = finishColor (applyFxList B force (intersect V pr.bbox) x y (PState.init colorB alphaB (!passThrough)) children) ch
          * (applyFxList B force (intersect V pr.bbox) x y (PState.init colorB alphaB (!passThrough)) children).ag := by
      intro ch
      rw [finishColor_mul hsub hxsub ch]
      unfold groupColor groupNum
      rw [hsrel.P ch, hsrel.P0 ch, hsrel.ag]; ring
    rw [hsrel.sg, hsrel.ag]
    generalize specFxList .pdf17 B force (intersect V pr.bbox) x y (SState.init Pb alphaB (!passThrough)) children = σsub at hgc hsrel ⊢
    generalize applyFxList B force (intersect V pr.bbox) x y (PState.init colorB alphaB (!passThrough)) children = sub
      at hsub hxsub hsrel hfc hgc ⊢
    by_cases hin : (intersect V pr.bbox).contains x y = true
    · simp only [hin, if_true]
      have i0 := inv_init hfc hsub.ag false
      by_cases he : clips.isEmpty = true
      · simp only [he, if_true]
        exact finishFx_rel hB force hp hf V x y hst hr hfc hsub.ag.1 hsub.ag_le hsub.sg.2 hgc
      · simp only [he, Bool.false_eq_true, if_false]
        have hrel := applyFxClips_rel hB force V x y (PState.init (finishColor sub) sub.ag false)
          (SState.init (groupColor σsub) sub.ag false) i0 (rel_init false hgc) clips hcl
        have hinv := applyFxClips_inv B force V x y _ i0 clips hcl
        apply finishFx_rel hB force hp hf V x y hst hr hinv.c hsub.ag.1 hsub.ag_le hsub.sg.2
        intro ch
        exact clipGroupColor_rel hrel hinv (by rw [applyFxClips_a0, init_a0_false]) ch
    · simp only [hin, Bool.false_eq_true, if_false]
      have i0 := inv_init white_ok unit01_zero false
      by_cases he : clips.isEmpty = true
      · simp only [he, if_true]
        exact finishFx_rel hB force hp hf V x y hst hr white_ok (le_refl _) (le_refl _) (by norm_num) (fun ch => by ring)
      · simp only [he, Bool.false_eq_true, if_false]
        have hrel := applyFxClips_rel hB force V x y (PState.init white 0 false)
          (SState.init (fun _ => 0) 0 false) i0 (rel_init false (fun ch => by ring)) clips hcl
        have hinv := applyFxClips_inv B force V x y _ i0 clips hcl
        apply finishFx_rel hB force hp hf V x y hst hr hinv.c (le_refl _) (le_refl _) (by norm_num)
        intro ch
        exact clipGroupColor_rel hrel hinv (by rw [applyFxClips_a0, init_a0_false]) ch

theorem applyFxList_rel {B : Mode → Color → Color → Color} (hB : BOk B) (force : Bool) (V : Rect) (x y : Int)
    (st : PState) (σ : SState) (hst : Inv st) (hr : Rel st σ) :
    (ns : List FxNode) → fxListOk ns → Rel (applyFxList B force V x y st ns) (specFxList .pdf17 B force V x y σ ns)
  | [], _ => by unfold applyFxList specFxList; exact hr
  | n :: rest, h => by
    unfold applyFxList specFxList
    exact applyFxList_rel hB force V x y _ _ (applyFxNode_inv B force V x y false st hst n h.1)
      (applyFxNode_rel hB force V x y false st σ hst hr n h.1) rest h.2

theorem applyFxClips_rel {B : Mode → Color → Color → Color} (hB : BOk B) (force : Bool) (V : Rect) (x y : Int)
    (st : PState) (σ : SState) (hst : Inv st) (hr : Rel st σ) :
    (ns : List FxNode) → fxListOk ns → Rel (applyFxClips B force V x y st ns) (specFxClips .pdf17 B force V x y σ ns)
  | [], _ => by unfold applyFxClips specFxClips; exact hr
  | n :: rest, h => by
    unfold applyFxClips specFxClips
    exact applyFxClips_rel hB force V x y _ _ (applyFxNode_inv B force V x y true st hst n h.1)
      (applyFxNode_rel hB force V x y true st σ hst hr n h.1) rest h.2
end

/-- **Whole documents with effects.** -/
theorem compositeFxDoc_rel {B : Mode → Color → Color → Color} (hB : BOk B) (force : Bool) (V : Rect) (x y : Int) {color : Color}
    {alpha : Rat} (hc : ColorOk color) (ha : Unit01 alpha) (layers : List FxNode) (hl : fxListOk layers) :
    (compositeFxDoc B force V x y color alpha layers).2.1
        = (specFxDoc .pdf17 B force V x y (fun ch => alpha * color ch) alpha layers).2.1 ∧
    (compositeFxDoc B force V x y color alpha layers).2.2
        = (specFxDoc .pdf17 B force V x y (fun ch => alpha * color ch) alpha layers).2.2 ∧
    ∀ ch, (compositeFxDoc B force V x y color alpha layers).1 ch * (compositeFxDoc B force V x y color alpha layers).2.2
      = (specFxDoc .pdf17 B force V x y (fun ch => alpha * color ch) alpha layers).1 ch := by
  have i0 := inv_init hc ha false
  have hrel := applyFxList_rel hB force V x y (PState.init color alpha false)
    (SState.init (fun ch => alpha * color ch) alpha false) i0 (rel_init false (fun ch => by ring)) layers hl
  have hinv := applyFxList_inv B force V x y _ i0 layers hl
  have hx := applyFxList_xinv hB force V x y _ i0 (xinv_init color alpha false) layers hl
  unfold compositeFxDoc specFxDoc
  refine ⟨hrel.sg.symm, hrel.ag.symm, ?_⟩
  intro ch
  simp only
  rw [finishColor_mul hinv hx ch]
  unfold groupColor groupNum
  rw [hrel.P ch, hrel.P0 ch, hrel.ag]; ring

end PsdVerif.Composite
