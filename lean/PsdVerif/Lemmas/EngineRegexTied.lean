/-
C06 — the regular expressions of `psd_tools/psd/engine_data.py` cannot backtrack catastrophically.

* `engine_patterns_tied` / `engine_flags_tied`: the table regenerated from the working tree on this run IS the committed
  snapshot (every `compile_re(r"…")` of the module, in source order; the flags of `compile_re`);
* `engine_patterns_safe`: every pattern of the snapshot parses (it stays inside the syntax `EngineRegex.parse` reads) and
  satisfies `EngineRegex.safe` - the decidable sufficient condition (1)-(4) of Model/EngineRegex.lean. That the condition
  bounds the work of CPython's backtracking engine by O(1) per byte and per pattern is TRUSTED (stated there, not proved);
* `seeded_pattern_unsafe`: the variant of `UTF16_END` of seeded/C06-2 (`(?:\\.|[^\)])*`, the class no longer excludes the
  backslash) does NOT satisfy it; `unsafe_*`: the classical exponential shapes are refused too;
* `sample_*`: for every pattern, on a handful of subjects (edge cases: `\)`, `\\)`, empty, a trailing line feed for `$`,
  a second line feed), THREE things agree: what CPython's `re` answered (`(match.start(), match.end())` of
  `pattern.search(subject)`, recorded here as literals when this file was written), what the reference matcher
  `EngineRegex.search` answers on the parsed pattern, and the byte predicate of `Model/EngineData.lean` the C18 model and the
  cost model use in place of the pattern (`reString`, `reNumber`, …; for `UTF16_END` the span `strToken` cuts off, for
  `DIVIDER` the spans `next` computes with `takeWhile` / `dropWhile`).

Core Lean only. Evaluation by `decide +kernel` (the functions are structurally recursive).
-/
import PsdVerif.Model.EngineData
import PsdVerif.Model.EngineRegex
import PsdVerif.Model.EngineRegexTables
import PsdVerif.Generated.EnginePatterns

namespace PsdVerif.EngineRegexTied
open PsdVerif PsdVerif.EngineData PsdVerif.EngineRegex PsdVerif.EngineRegexTables

theorem engine_patterns_tied : Generated.EnginePatterns.patterns = EngineRegexTables.patterns := by decide

theorem engine_flags_tied : Generated.EnginePatterns.flags = EngineRegexTables.flags := by decide

/-- every pattern the module compiles parses and passes the no-catastrophic-backtracking check -/
theorem engine_patterns_safe :
    EngineRegexTables.patterns.all (fun p => match parse p.2 with | some r => safe r | none => false) = true := by
  decide +kernel

/-- fourteen patterns: the twelve token types, the divider, the end of a string -/
theorem engine_patterns_count : EngineRegexTables.patterns.length = 14 := by decide

/-- the seeded defect: `^\(\xfe\xff(?:\\.|[^\)])*\)` -/
theorem seeded_pattern_unsafe : (parse "^\\(\\xfe\\xff(?:\\\\.|[^\\)])*\\)").map safe = some false := by
  decide +kernel

/-- … which differs from the current `UTF16_END` by the two characters `\\` inside the class -/
theorem current_utf16_end : patternOf "Tokenizer.UTF16_END" = some "^\\(\\xfe\\xff(?:\\\\.|[^\\\\\\)])*\\)" := by
  decide

/-! the check refuses the textbook shapes, and what it cannot read -/

theorem unsafe_nested_star : (parse "^(a*)*b").map safe = some false := by decide +kernel
theorem unsafe_star_then_same : (parse "^a*a").map safe = some false := by decide +kernel
theorem unsafe_overlapping_alts : (parse "^(a|a)*b").map safe = some false := by decide +kernel
theorem unsafe_dot_star : (parse "^.*$").map safe = some false := by decide +kernel
theorem unsafe_unanchored : (parse "a+b").map safe = some false := by decide +kernel
/-- the tiling exception needs a continuation without quantifier (or one the second byte cannot enter) -/
theorem unsafe_tiling_long_excursion :
    (parse "^(?:[^\\)]|\\\\\\))*\\)[^z]*z").map safe = some false := by decide +kernel
theorem unread_counted : parse "^a{2}" = none := by decide +kernel
theorem unread_lazy : parse "^a*?" = none := by decide +kernel
theorem unread_lookahead : parse "^(?=a)a" = none := by decide +kernel
theorem unread_word_class : parse "^\\w+$" = none := by decide +kernel

/-! ## Samples: CPython = reference matcher = byte predicate -/

/-- for a token pattern: `bool(pattern.search(token))` -/
def samplesOK (name : String) (model : BL → Bool) (xs : List (BL × Option (Nat × Nat))) : Bool :=
  match (patternOf name).bind parse with
  | none => false
  | some r => xs.all (fun x => search r x.1 == x.2 && model x.1 == x.2.isSome)

/-- for the two patterns of the tokenizer: the span -/
def spansOK (name : String) (model : BL → Option (Nat × Nat)) (xs : List (BL × Option (Nat × Nat))) : Bool :=
  match (patternOf name).bind parse with
  | none => false
  | some r => xs.all (fun x => search r x.1 == x.2 && model x.1 == x.2)

/-- `DIVIDER.search(rest)` as `EngineData.next` has it: `match.start()` = the length of the token it takes
(`takeWhile (!isDiv ·)`), `match.end()` = what it consumes (up to the rest it returns); no match = no divider byte -/
def divModel (d : BL) : Option (Nat × Nat) :=
  if (d.dropWhile (fun x => !isDiv x)).isEmpty then none
  else some ((d.takeWhile (fun x => !isDiv x)).length,
             d.length - ((d.dropWhile (fun x => !isDiv x)).dropWhile isDiv).length)

/-- `UTF16_END.search(rest)` as `EngineData.next` has it: only evaluated after `startswith(b"(\xfe\xff")`; the match is
the token `strToken` cuts off -/
def strModel (d : BL) : Option (Nat × Nat) :=
  if strStart d then (strToken d).map (fun x => (0, x.1.length)) else none

/-- `EngineToken.ARRAY_END` = `^\]$` -/
theorem sample_array_end : samplesOK "EngineToken.ARRAY_END" reArrayEnd [
    ([93], some (0, 1)),
    ([93, 10], some (0, 1)),
    ([], none),
    ([93, 93], none),
    ([93, 10, 10], none),
    ([91], none),
    ([120, 93], none),
    ([10, 93], none)] = true := by decide +kernel

/-- `EngineToken.ARRAY_START` = `^\[$` -/
theorem sample_array_start : samplesOK "EngineToken.ARRAY_START" reArrayStart [
    ([91], some (0, 1)),
    ([91, 10], some (0, 1)),
    ([], none),
    ([91, 91], none),
    ([91, 10, 10], none),
    ([93], none),
    ([120, 91], none),
    ([91, 32], none)] = true := by decide +kernel

/-- `EngineToken.BOOLEAN` = `^(true|false)$` -/
theorem sample_boolean : samplesOK "EngineToken.BOOLEAN" reBoolean [
    ([116, 114, 117, 101], some (0, 4)),
    ([102, 97, 108, 115, 101], some (0, 5)),
    ([116, 114, 117, 101, 10], some (0, 4)),
    ([116, 114, 117, 101, 102, 97, 108, 115, 101], none),
    ([116, 114, 117], none),
    ([], none),
    ([102, 97, 108, 115, 101, 120], none),
    ([120, 116, 114, 117, 101], none),
    ([102, 97, 108, 115, 101, 10, 10], none),
    ([84, 114, 117, 101], none)] = true := by decide +kernel

/-- `EngineToken.DICT_END` = `^>>(\x00)*$` -/
theorem sample_dict_end : samplesOK "EngineToken.DICT_END" reDictEnd [
    ([62, 62], some (0, 2)),
    ([62, 62, 0, 0], some (0, 4)),
    ([62, 62, 0, 10], some (0, 3)),
    ([62], none),
    ([62, 62, 120], none),
    ([62, 62, 0, 120], none),
    ([], none),
    ([62, 62, 10], some (0, 2)),
    ([62, 62, 10, 0], none),
    ([62, 62, 62], none)] = true := by decide +kernel

/-- `EngineToken.DICT_START` = `^<<$` -/
theorem sample_dict_start : samplesOK "EngineToken.DICT_START" reDictStart [
    ([60, 60], some (0, 2)),
    ([60, 60, 10], some (0, 2)),
    ([60], none),
    ([60, 60, 60], none),
    ([], none),
    ([60, 60, 10, 10], none),
    ([60, 60, 0], none)] = true := by decide +kernel

/-- `EngineToken.NOOP` = `^$` -/
theorem sample_noop : samplesOK "EngineToken.NOOP" reNoop [
    ([], some (0, 0)),
    ([10], some (0, 0)),
    ([10, 10], none),
    ([97], none),
    ([32], none),
    ([0], none)] = true := by decide +kernel

/-- `EngineToken.NUMBER` = `^-?\d+$` -/
theorem sample_number : samplesOK "EngineToken.NUMBER" reNumber [
    ([48], some (0, 1)),
    ([45, 49, 50], some (0, 3)),
    ([49, 50, 10], some (0, 2)),
    ([45], none),
    ([], none),
    ([49, 46, 53], none),
    ([49, 50, 97], none),
    ([45, 45, 49], none),
    ([45, 48, 10], some (0, 2)),
    ([49, 50, 10, 10], none),
    ([43, 49], none),
    ([48, 48, 49, 50, 51, 52, 53, 54, 55, 56, 57, 48, 49, 50, 51, 52, 53, 54, 55, 56, 57, 48], some (0, 22))] = true := by decide +kernel

/-- `EngineToken.NUMBER_WITH_DECIMAL` = `^-?\d*\.\d+$` -/
theorem sample_number_with_decimal : samplesOK "EngineToken.NUMBER_WITH_DECIMAL" reNumberDec [
    ([46, 53], some (0, 2)),
    ([45, 46, 53], some (0, 3)),
    ([49, 46, 53], some (0, 3)),
    ([49, 46], none),
    ([46], none),
    ([45, 49, 46, 50, 53, 10], some (0, 5)),
    ([49, 46, 50, 46, 51], none),
    ([], none),
    ([49], none),
    ([45, 46], none),
    ([49, 46, 53, 120], none),
    ([45, 48, 48, 46, 53, 48, 48], some (0, 7))] = true := by decide +kernel

/-- `EngineToken.PROPERTY` = `^\/[a-zA-Z0-9_]+$` -/
theorem sample_property : samplesOK "EngineToken.PROPERTY" reProperty [
    ([47, 97], some (0, 2)),
    ([47, 65, 98, 95, 57], some (0, 5)),
    ([47], none),
    ([47, 97, 32, 98], none),
    ([47, 97, 10], some (0, 2)),
    ([97], none),
    ([], none),
    ([47, 47, 97], none),
    ([47, 97, 47], none),
    ([47, 254], none)] = true := by decide +kernel

/-- `EngineToken.STRING` = `^\((\xfe\xff([^\)]|\\\))*)\)$` -/
theorem sample_string : samplesOK "EngineToken.STRING" reString [
    ([40, 254, 255, 41], some (0, 4)),
    ([40, 254, 255, 0, 97, 41], some (0, 6)),
    ([40, 254, 255, 92, 41, 41], some (0, 6)),
    ([40, 254, 255, 92, 92, 41], some (0, 6)),
    ([40, 254, 255, 92, 92, 41, 41], some (0, 7)),
    ([40, 254, 255, 92, 41], some (0, 5)),
    ([40, 254, 255], none),
    ([40, 254, 255, 41, 120], none),
    ([40, 254, 255, 41, 10], some (0, 4)),
    ([40, 254, 255, 97, 41, 98, 41], none),
    ([40, 254, 255, 97, 92, 41, 98, 41], some (0, 8)),
    ([], none),
    ([40, 254, 41], none),
    ([40, 254, 255, 10, 41], some (0, 5)),
    ([40, 254, 255, 92, 41, 92, 41, 92, 41, 120], none)] = true := by decide +kernel

/-- `EngineToken.UNKNOWN_TAG` = `^\([a-zA-Z0-9]*\)$` -/
theorem sample_unknown_tag : samplesOK "EngineToken.UNKNOWN_TAG" reTag [
    ([40, 104, 119, 105, 100, 41], some (0, 6)),
    ([40, 41], some (0, 2)),
    ([40, 97, 49, 41], some (0, 4)),
    ([40, 97, 32, 98, 41], none),
    ([40, 97, 41, 10], some (0, 3)),
    ([40, 97], none),
    ([97, 41], none),
    ([], none),
    ([40, 40, 97, 41, 41], none),
    ([40, 97, 41, 41], none),
    ([40, 95, 41], none)] = true := by decide +kernel

/-- `EngineToken.UNKNOWN_TAG2` = `^--\(\.-0$` -/
theorem sample_unknown_tag2 : samplesOK "EngineToken.UNKNOWN_TAG2" reTag2 [
    ([45, 45, 40, 46, 45, 48], some (0, 6)),
    ([45, 45, 40, 46, 45, 48, 10], some (0, 6)),
    ([45, 45, 40, 46, 45], none),
    ([45, 45, 40, 120, 45, 48], none),
    ([], none),
    ([45, 45, 40, 46, 45, 48, 48], none),
    ([120, 45, 45, 40, 46, 45, 48], none)] = true := by decide +kernel

/-- `Tokenizer.DIVIDER` = `[ \n\t]+` -/
theorem sample_divider : spansOK "Tokenizer.DIVIDER" divModel [
    ([65, 66, 32, 10, 9, 67], some (2, 5)),
    ([97, 98, 99], none),
    ([], none),
    ([32], some (0, 1)),
    ([97, 32], some (1, 2)),
    ([32, 97], some (0, 1)),
    ([97, 13, 98], none),
    ([97, 11, 98, 9, 99], some (3, 4)),
    ([10, 10], some (0, 2)),
    ([40, 254, 255, 41, 32, 120], some (4, 5))] = true := by decide +kernel

/-- `Tokenizer.UTF16_END` = `^\(\xfe\xff(?:\\.|[^\\\)])*\)` -/
theorem sample_utf16_end : spansOK "Tokenizer.UTF16_END" strModel [
    ([40, 254, 255, 41, 114, 101, 115, 116], some (0, 4)),
    ([40, 254, 255, 92, 41, 41, 120, 41], some (0, 6)),
    ([40, 254, 255, 92, 92, 41, 120, 41], some (0, 6)),
    ([40, 254, 255, 97, 98, 99], none),
    ([40, 254, 255, 92, 41], none),
    ([40, 254, 255, 92], none),
    ([40, 254], none),
    ([], none),
    ([120, 40, 254, 255, 41], none),
    ([40, 254, 255, 97, 98, 41, 10, 41], some (0, 6)),
    ([40, 254, 255, 10, 41], some (0, 5)),
    ([40, 254, 255, 92, 10, 41], some (0, 6)),
    ([40, 254, 255, 92, 92, 92, 92, 92, 92], none),
    ([40, 254, 255, 92, 41, 92, 41, 92, 41, 41], some (0, 10))] = true := by decide +kernel

end PsdVerif.EngineRegexTied
