/-
C14 — every operation keeps the caches of attached containers fresh (assembly, mirrors
Lemmas/TreeStep.lean and TreeStep2.lean).
-/
import PsdVerif.Lemmas.TreeFreshPrim

namespace PsdVerif.TreeSt

/-- well-formed tree with fresh caches -/
structure Good (s : State) : Prop where
  inv : Inv s
  fresh : Fresh s

theorem good_refuse {s : State} (h : Good s) (r : Err × List Id) : Good (refuse s r).1 :=
  ⟨inv_refuse h.inv r, fresh_refuse r h.fresh⟩

theorem good_splice {cfg : Cfg} (hc : CacheCfg cfg) {s : State} (h : Good s) (g : Id) (xs : List Id)
    (lo hi : Nat) (hlh : lo ≤ hi) (out : Out)
    (hg : s.isGroup g = true) (hdet : ∀ x, x ∈ xs → Detached s x) (hnd : xs.Nodup)
    (hchk : checkValid cfg s g xs = none)
    (hne : (finishInsert cfg (setChildren s g ((s.children g).take lo ++ xs ++ (s.children g).drop hi)) g out).2 ≠ recErr) :
    Good (finishInsert cfg (setChildren s g ((s.children g).take lo ++ xs ++ (s.children g).drop hi)) g out).1 := by
  refine ⟨inv_splice h.inv hc.self g xs lo hi hlh out hg hdet hnd hchk hne, ?_⟩
  have hv := checkValid_none h.inv.contOnly hc.self xs hchk
  apply fresh_finishInsert_relist hc h.inv h.fresh g _ out hg
  · exact nodup_splice _ xs hlh (h.inv.nodup g) hnd (fun y hy hyl => hdet y hy g hyl)
  · intro y hy
    rcases mem_splice hy with h' | h'
    · exact .inl h'
    · exact .inr ⟨hdet y h', hv y h'⟩
  · exact hne

theorem good_opExtend {cfg : Cfg} (hc : CacheCfg cfg) {s : State} (h : Good s) (g : Id) (xs : List Id)
    (hg : s.isGroup g = true) (hdet : ∀ x, x ∈ xs → Detached s x) (hnd : xs.Nodup)
    (hne : (opExtend cfg s g xs).2 ≠ recErr) : Good (opExtend cfg s g xs).1 := by
  unfold opExtend at hne ⊢
  split
  · exact good_refuse h _
  · rename_i hchk
    rw [hchk] at hne
    simp only at hne
    rw [append_eq_splice] at hne ⊢
    exact good_splice hc h g xs _ _ (Nat.le_refl _) _ hg hdet hnd hchk hne

theorem good_opAppend {cfg : Cfg} (hc : CacheCfg cfg) {s : State} (h : Good s) (g x : Id)
    (hg : s.isGroup g = true) (hdet : Detached s x) (hne : (opAppend cfg s g x).2 ≠ recErr) :
    Good (opAppend cfg s g x).1 := by
  unfold opAppend at hne ⊢
  split
  · exact h
  · rename_i hxg
    rw [if_neg hxg] at hne
    exact good_opExtend hc h g [x] hg (fun y hy => by rw [List.mem_singleton.mp hy]; exact hdet)
      (nodup_single x) hne

theorem good_opInsert {cfg : Cfg} (hc : CacheCfg cfg) {s : State} (h : Good s) (g : Id) (k : Int) (x : Id)
    (hg : s.isGroup g = true) (hdet : Detached s x) (hne : (opInsert cfg s g k x).2 ≠ recErr) :
    Good (opInsert cfg s g k x).1 := by
  unfold opInsert at hne ⊢
  split
  · exact good_refuse h _
  · rename_i hchk
    rw [hchk] at hne
    simp only at hne
    simp only [insertAt_eq_splice] at hne ⊢
    exact good_splice hc h g [x] _ _ (Nat.le_refl _) _ hg
      (fun y hy => by rw [List.mem_singleton.mp hy]; exact hdet) (nodup_single x)
      (checkSingle_none hchk) hne

theorem good_opSetitem {cfg : Cfg} (hc : CacheCfg cfg) {s : State} (h : Good s) (g : Id) (k : Int) (x : Id)
    (hg : s.isGroup g = true) (hdet : Detached s x) (hne : (opSetitem cfg s g k x).2 ≠ recErr) :
    Good (opSetitem cfg s g k x).1 := by
  unfold opSetitem at hne ⊢
  split
  · exact good_refuse h _
  · rename_i hchk
    rw [hchk] at hne
    simp only at hne ⊢
    split
    · exact h
    · rename_i j hj
      rw [hj] at hne
      simp only at hne
      have hlt := normIdx_lt hj
      rw [set_eq_splice _ _ _ hlt] at hne ⊢
      exact good_splice hc h g [x] _ _ (Nat.le_succ _) _ hg
        (fun y hy => by rw [List.mem_singleton.mp hy]; exact hdet) (nodup_single x)
        (checkSingle_none hchk) hne

theorem good_opSetslice {cfg : Cfg} (hc : CacheCfg cfg) {s : State} (h : Good s) (g : Id)
    (a b : Option Int) (xs : List Id)
    (hg : s.isGroup g = true) (hdet : ∀ x, x ∈ xs → Detached s x) (hnd : xs.Nodup)
    (hne : (opSetslice cfg s g a b xs).2 ≠ recErr) : Good (opSetslice cfg s g a b xs).1 := by
  unfold opSetslice at hne ⊢
  split
  · exact good_refuse h _
  · rename_i hchk
    rw [hchk] at hne
    simp only [sliceAssign] at hne ⊢
    exact good_splice hc h g xs _ _ (sliceBounds_le _ a b) _ hg hdet hnd hchk hne

theorem good_shrink {cfg : Cfg} (hc : CacheCfg cfg) {s : State} (h : Good s) (k : Id) (hk : k < s.next) (l' : List Id)
    (hnd : l'.Nodup) (hsub : ∀ y, y ∈ l' → y ∈ s.children k) (o : Out) :
    Good (finishRemove cfg (setChildren s k l') k o).1 :=
  ⟨inv_finishRemove (inv_shrink h.inv k l' hnd hsub) k o, fresh_finishRemove_shrink hc h.inv h.fresh k hk l' hnd hsub o⟩

theorem good_opRemove {cfg : Cfg} (hc : CacheCfg cfg) {s : State} (h : Good s) (g x : Id) (hg : g < s.next) :
    Good (opRemove cfg s g x).1 := by
  unfold opRemove
  split
  · exact good_shrink hc h g hg _ ((List.erase_sublist).nodup (h.inv.nodup g)) (fun y hy => List.mem_of_mem_erase hy) _
  · exact h

theorem good_opPop {cfg : Cfg} (hc : CacheCfg cfg) {s : State} (h : Good s) (g : Id) (k : Int) (hg : g < s.next) :
    Good (opPop cfg s g k).1 := by
  unfold opPop
  simp only
  split
  · exact h
  · split
    · exact h
    · exact good_shrink hc h g hg _ ((List.eraseIdx_sublist ..).nodup (h.inv.nodup g))
        (fun y hy => (List.eraseIdx_sublist ..).subset hy) _

theorem good_opClear {cfg : Cfg} (hc : CacheCfg cfg) {s : State} (h : Good s) (g : Id) (hg : g < s.next) :
    Good (opClear cfg s g).1 := by
  unfold opClear
  exact good_shrink hc h g hg [] List.nodup_nil (fun y hy => by cases hy) _

theorem good_opDelitem {cfg : Cfg} (hc : CacheCfg cfg) {s : State} (h : Good s) (g : Id) (k : Int) (hg : g < s.next) :
    Good (opDelitem cfg s g k).1 := by
  unfold opDelitem
  simp only
  split
  · exact h
  · exact good_shrink hc h g hg _ ((List.eraseIdx_sublist ..).nodup (h.inv.nodup g))
      (fun y hy => (List.eraseIdx_sublist ..).subset hy) _

theorem good_opDelslice {cfg : Cfg} (hc : CacheCfg cfg) {s : State} (h : Good s) (g : Id) (a b : Option Int)
    (hg : g < s.next) : Good (opDelslice cfg s g a b).1 := by
  unfold opDelslice
  simp only [sliceAssign, List.append_nil]
  have hsub := take_append_drop_sublist (s.children g) (sliceBounds_le (s.children g).length a b)
  exact good_shrink hc h g hg _ (hsub.nodup (h.inv.nodup g)) (fun y hy => hsub.subset hy) _

theorem good_detach {cfg : Cfg} (hc : CacheCfg cfg) {s : State} (h : Good s) (x p : Id) : Good (detach cfg s x p).1 := by
  unfold detach
  split
  · rename_i hx
    exact good_opRemove hc h p x (h.inv.live p x hx).1
  · exact h

theorem good_then_append {cfg : Cfg} (hc : CacheCfg cfg) (r1 : State × Out) (g x : Id) (o : Out)
    (h1 : Good r1.1) (hg : r1.1.isGroup g = true) (hdet : Detached r1.1 x)
    (hne : (if r1.2.isError = true then r1
      else if (opAppend cfg r1.1 g x).2.isError = true then opAppend cfg r1.1 g x
      else ((opAppend cfg r1.1 g x).1, o)).2 ≠ recErr) :
    Good (if r1.2.isError = true then r1
      else if (opAppend cfg r1.1 g x).2.isError = true then opAppend cfg r1.1 g x
      else ((opAppend cfg r1.1 g x).1, o)).1 := by
  by_cases e1 : r1.2.isError = true
  · rw [if_pos e1]; exact h1
  · rw [if_neg e1] at hne ⊢
    by_cases e2 : (opAppend cfg r1.1 g x).2.isError = true
    · rw [if_pos e2] at hne ⊢
      exact good_opAppend hc h1 g x hg hdet hne
    · rw [if_neg e2]
      exact good_opAppend hc h1 g x hg hdet (ne_rec_of_not_isError e2)

theorem good_opMoveToGroup {cfg : Cfg} (hc : CacheCfg cfg) {s : State} (h : Good s) (x g : Id)
    (hne : (opMoveToGroup cfg s x g).2 ≠ recErr) : Good (opMoveToGroup cfg s x g).1 := by
  have i := h.inv
  unfold opMoveToGroup at hne ⊢
  by_cases h1 : (!s.isLayer x) = true
  · rw [if_pos h1]; exact h
  · rw [if_neg h1] at hne ⊢
    by_cases h2 : (!s.isGroup g) = true
    · rw [if_pos h2]; exact h
    · rw [if_neg h2] at hne ⊢
      have hg' : s.isGroup g = true := by simpa using h2
      by_cases h3 : g = x
      · rw [if_pos h3]; exact h
      · rw [if_neg h3] at hne ⊢
        cases hd : (if s.cont x = true then desc s x else Except.ok []) with
        | error e => simp only [hd]; exact h
        | ok ds =>
          simp only [hd] at hne ⊢
          by_cases h4 : g ∈ ds
          · rw [if_pos h4]; exact good_refuse h _
          · rw [if_neg h4] at hne ⊢
            cases hp : s.parent x with
            | none =>
              simp only [hp] at hne ⊢
              have hdet : Detached s x :=
                detached_of_not_listed_by_parent i (fun p' hp' => by rw [hp] at hp'; cases hp')
              exact good_then_append hc (s, Out.none) g x _ h hg' hdet hne
            | some p =>
              simp only [hp] at hne ⊢
              by_cases hcp : s.cont p = true
              · simp only [hcp, if_true] at hne ⊢
                exact good_then_append hc (detach cfg s x p) g x _ (good_detach hc h x p)
                  (by rw [(detach_frame cfg s x p).isGroup]; exact hg')
                  (detached_after_detach (cfg := cfg) i hp) hne
              · simp only [hcp] at hne ⊢
                have hdet : Detached s x := by
                  apply detached_of_not_listed_by_parent i
                  intro p' hp' hx
                  rw [hp] at hp'; cases hp'
                  exact hcp (i.contOnly p (List.ne_nil_of_mem hx))
                exact good_then_append hc (s, Out.none) g x _ h hg' hdet hne

theorem fresh_reprAll {s : State} (l : List Id) (f : Fresh s) : Fresh (reprAll s l).1 :=
  fresh_of_step (reprAll_same s l) (fun g => cacheOk_reprAll l g) f

theorem good_warnRepr {s : State} (h : Good s) (x : Id) : Good (warnRepr s x).1 := by
  refine ⟨inv_warnRepr h.inv x, ?_⟩
  unfold warnRepr
  have hf := fresh_reprAll [x] h.fresh
  split <;> (rename_i heq; rw [heq] at hf; exact hf)

theorem good_updateRecord {cfg : Cfg} {s : State} (h : Good s) (k : Id) : Good (updateRecord cfg s k) :=
  ⟨(updateRecord_same cfg s k).inv h.inv, fresh_updateRecord h.fresh k⟩

theorem good_opDeleteLayer {cfg : Cfg} (hc : CacheCfg cfg) {s : State} (h : Good s) (x : Id) :
    Good (opDeleteLayer cfg s x).1 := by
  unfold opDeleteLayer
  split
  · exact h
  · split
    · exact good_warnRepr h x
    · split
      · exact good_warnRepr h x
      · simp only
        split
        · exact good_detach hc h x _
        · unfold finishRemove
          exact good_updateRecord (good_detach hc h x _) _

theorem good_then_insert {cfg : Cfg} (hc : CacheCfg cfg) (r1 : State × Out) (p : Id) (n : Int) (x : Id)
    (o : Out) (h1 : Good r1.1) (hg : r1.1.isGroup p = true) (hdet : Detached r1.1 x)
    (hne : (if r1.2.isError = true then r1
      else if (opInsert cfg r1.1 p n x).2.isError = true then opInsert cfg r1.1 p n x
      else ((opInsert cfg r1.1 p n x).1, o)).2 ≠ recErr) :
    Good (if r1.2.isError = true then r1
      else if (opInsert cfg r1.1 p n x).2.isError = true then opInsert cfg r1.1 p n x
      else ((opInsert cfg r1.1 p n x).1, o)).1 := by
  by_cases e1 : r1.2.isError = true
  · rw [if_pos e1]; exact h1
  · rw [if_neg e1] at hne ⊢
    by_cases e2 : (opInsert cfg r1.1 p n x).2.isError = true
    · rw [if_pos e2] at hne ⊢
      exact good_opInsert hc h1 p n x hg hdet hne
    · rw [if_neg e2]
      exact good_opInsert hc h1 p n x hg hdet (ne_rec_of_not_isError e2)

theorem good_opMoveUp {cfg : Cfg} (hc : CacheCfg cfg) {s : State} (h : Good s) (x : Id) (k : Int)
    (hne : (opMoveUp cfg s x k).2 ≠ recErr) : Good (opMoveUp cfg s x k).1 := by
  have i := h.inv
  unfold opMoveUp at hne ⊢
  by_cases h1 : (!s.isLayer x) = true
  · rw [if_pos h1]; exact h
  · rw [if_neg h1] at hne ⊢
    cases hp : s.parent x with
    | none => simp only [hp]; exact h
    | some p =>
      simp only [hp] at hne ⊢
      by_cases hcp : (!s.cont p) = true
      · rw [if_pos hcp]; exact h
      · rw [if_neg hcp] at hne ⊢
        by_cases hx : x ∈ s.children p
        · rw [if_pos hx] at hne ⊢
          have hplive := (i.live p x hx).1
          have g1 : Good (opRemove cfg s p x).1 := good_opRemove hc h p x hplive
          have hdet : Detached (opRemove cfg s p x).1 x := by
            have := detached_after_detach (cfg := cfg) i hp
            unfold detach at this
            rwa [if_pos hx] at this
          have hg1 : (opRemove cfg s p x).1.isGroup p = true := by
            rw [(opRemove_frame cfg s p x).isGroup]
            exact isGroup_iff.mpr ⟨hplive, by simpa using hcp⟩
          exact good_then_insert hc (opRemove cfg s p x) p _ x _ g1 hg1 hdet hne
        · rw [if_neg hx]; exact good_refuse h _

theorem good_moveAll {cfg : Cfg} (hc : CacheCfg cfg) (n : Id) (s : State) (h : Good s) (xs : List Id)
    (hne : (moveAll cfg n s xs).2 ≠ recErr) : Good (moveAll cfg n s xs).1 := by
  induction xs generalizing s with
  | nil => exact h
  | cons x xs ih =>
    simp only [moveAll] at hne ⊢
    by_cases h1 : (opMoveToGroup cfg s x n).2.isError = true
    · rw [if_pos h1] at hne ⊢
      exact good_opMoveToGroup hc h x n hne
    · rw [if_neg h1] at hne ⊢
      exact ih _ (good_opMoveToGroup hc h x n (ne_rec_of_not_isError h1)) hne

theorem good_alloc {s : State} (h : Good s) (k : Kind) (p : Option Id) (b : BBox) : Good (alloc s k p b) :=
  ⟨inv_alloc h.inv k p b, fresh_alloc h.inv h.fresh k p b⟩

theorem good_opNewGroup {cfg : Cfg} (hc : CacheCfg cfg) {s : State} (h : Good s) (p : Option Id)
    (hne : (opNewGroup cfg s p).2 ≠ recErr) : Good (opNewGroup cfg s p).1 := by
  unfold opNewGroup at hne ⊢
  have g1 := good_alloc h .group none BBox.zero
  cases p with
  | none => exact g1
  | some p =>
    simp only at hne ⊢
    by_cases hg : s.isGroup p = true
    · rw [if_pos hg] at hne ⊢
      by_cases h1 : (opMoveToGroup cfg (alloc s .group none BBox.zero) s.next p).2.isError = true
      · rw [if_pos h1] at hne ⊢
        exact good_opMoveToGroup hc g1 _ p hne
      · rw [if_neg h1]
        exact good_opMoveToGroup hc g1 _ p (ne_rec_of_not_isError h1)
    · rw [if_neg hg]
      exact g1

theorem good_glBody {cfg : Cfg} (hc : CacheCfg cfg) {s : State} (h : Good s) (par : Option Id)
    (xs : List Id) (hall : ∀ x, x ∈ xs → s.isLayer x = true)
    (hne : (glBody cfg s par xs).2 ≠ recErr) : Good (glBody cfg s par xs).1 := by
  have i := h.inv
  unfold glBody at hne ⊢
  simp only at hne ⊢
  have g1 := good_alloc h .group none BBox.zero
  by_cases hm : (moveAll cfg s.next (alloc s .group none BBox.zero) xs).2.isError = true
  · rw [if_pos hm] at hne ⊢
    exact good_moveAll hc _ _ g1 _ hne
  · rw [if_neg hm] at hne ⊢
    have g2 := good_moveAll hc s.next _ g1 xs (ne_rec_of_not_isError hm)
    have hdet : Detached (moveAll cfg s.next (alloc s .group none BBox.zero) xs).1 s.next := by
      intro c hc'
      rcases moveAll_adds cfg s.next _ xs c _ hc' with h' | h'
      · exact alloc_detached i .group none BBox.zero c h'
      · exact Nat.lt_irrefl _ (isLayer_iff.mp (hall _ h'.2)).1
    cases par with
    | none => exact g2
    | some q =>
      simp only at hne ⊢
      by_cases hq : s.isGroup q = true
      · rw [if_pos hq] at hne ⊢
        have hq' : (moveAll cfg s.next (alloc s .group none BBox.zero) xs).1.isGroup q = true := by
          rw [(moveAll_frame cfg s.next _ xs).isGroup]
          have := isGroup_iff.mp hq
          apply isGroup_iff.mpr
          refine ⟨Nat.lt_succ_of_lt this.1, ?_⟩
          have hne' : q ≠ s.next := Nat.ne_of_lt this.1
          simpa [alloc, State.cont, upd, hne'] using this.2
        by_cases h2 : (opAppend cfg (moveAll cfg s.next (alloc s .group none BBox.zero) xs).1 q s.next).2.isError = true
        · rw [if_pos h2] at hne ⊢
          exact good_opAppend hc g2 q _ hq' hdet hne
        · rw [if_neg h2]
          exact good_opAppend hc g2 q _ hq' hdet (ne_rec_of_not_isError h2)
      · rw [if_neg hq]
        exact g2

theorem good_opGroupLayers {cfg : Cfg} (hc : CacheCfg cfg) {s : State} (h : Good s)
    (hpre : cfg.groupLayersPrecheck = true) (xs : List Id) (p : Option Id)
    (hne : (opGroupLayers cfg s xs p).2 ≠ recErr) : Good (opGroupLayers cfg s xs p).1 := by
  unfold opGroupLayers at hne ⊢
  cases xs with
  | nil => exact h
  | cons x0 rest =>
    simp only at hne ⊢
    by_cases h0 : (!s.isLayer x0) = true
    · rw [if_pos h0]; exact h
    · rw [if_neg h0] at hne ⊢
      cases hp : glPre cfg s (glParent cfg s p x0) (x0 :: rest) with
      | some r => simp only [hp]; exact good_refuse h _
      | none =>
        simp only [hp] at hne ⊢
        exact good_glBody hc h _ _ (glPre_none_layers hpre hp) hne

/-- **Freshness step**: under the guard and below the recursion limit an operation keeps the tree
well-formed and every cached box of a layer that is in a document fresh. -/
theorem good_step (s : State) (op : Op) (h : Good s) (hg : Guard s op)
    (hne : (step .current s op).2 ≠ .error .recursionError) : Good (step .current s op).1 := by
  have hc := CacheCfg.current
  cases op with
  | append g x =>
    simp only [step, Op.target] at hne ⊢
    split
    · exact h
    · rename_i hh; rw [if_neg hh] at hne
      exact good_opAppend hc h g x (by simpa using hh) hg hne
  | extend g xs =>
    simp only [step, Op.target] at hne ⊢
    split
    · exact h
    · rename_i hh; rw [if_neg hh] at hne
      exact good_opExtend hc h g xs (by simpa using hh) hg.1 hg.2 hne
  | insert g k x =>
    simp only [step, Op.target] at hne ⊢
    split
    · exact h
    · rename_i hh; rw [if_neg hh] at hne
      exact good_opInsert hc h g k x (by simpa using hh) hg hne
  | remove g x =>
    simp only [step, Op.target]
    split
    · exact h
    · rename_i hh
      exact good_opRemove hc h g x (isGroup_iff.mp (by simpa using hh)).1
  | pop g k =>
    simp only [step, Op.target]
    split
    · exact h
    · rename_i hh
      exact good_opPop hc h g k (isGroup_iff.mp (by simpa using hh)).1
  | clear g =>
    simp only [step, Op.target]
    split
    · exact h
    · rename_i hh
      exact good_opClear hc h g (isGroup_iff.mp (by simpa using hh)).1
  | setitem g k x =>
    simp only [step, Op.target] at hne ⊢
    split
    · exact h
    · rename_i hh; rw [if_neg hh] at hne
      exact good_opSetitem hc h g k x (by simpa using hh) hg hne
  | setslice g a b xs =>
    simp only [step, Op.target] at hne ⊢
    split
    · exact h
    · rename_i hh; rw [if_neg hh] at hne
      exact good_opSetslice hc h g a b xs (by simpa using hh) hg.1 hg.2 hne
  | delitem g k =>
    simp only [step, Op.target]
    split
    · exact h
    · rename_i hh
      exact good_opDelitem hc h g k (isGroup_iff.mp (by simpa using hh)).1
  | delslice g a b =>
    simp only [step, Op.target]
    split
    · exact h
    · rename_i hh
      exact good_opDelslice hc h g a b (isGroup_iff.mp (by simpa using hh)).1
  | deleteLayer x => exact good_opDeleteLayer hc h x
  | moveToGroup x g => exact good_opMoveToGroup hc h x g hne
  | moveUp x k => exact good_opMoveUp hc h x k hne
  | moveDown x k => exact good_opMoveUp hc h x (-k) hne
  | newGroup p => exact good_opNewGroup hc h p hne
  | groupLayers xs p => exact good_opGroupLayers hc h rfl xs p hne
  | newLayer p bx => exact good_alloc h _ _ _
  | newDoc bx => exact good_alloc h _ _ _
  | setVisible x v => exact ⟨inv_opSetVisible h.inv x v, fresh_opSetVisible hc h.inv h.fresh x v⟩
  | setLeft x v => exact ⟨inv_opSetOffset h.inv x true v, fresh_opSetOffset hc h.inv h.fresh x true v⟩
  | setTop x v => exact ⟨inv_opSetOffset h.inv x false v, fresh_opSetOffset hc h.inv h.fresh x false v⟩
  | setAttr x =>
    simp only [step, Op.target]
    split <;> exact h
  | setBlocks x ks =>
    simp only [step, Op.target]
    split
    · exact h
    · exact ⟨(sameTree_blocks s _).inv h.inv, fresh_of_step (sameTree_blocks s _) (fun g c => c.congr (sameTree_blocks s _) rfl) h.fresh⟩
  | observe o => exact ⟨(observe_same s o).inv h.inv, fresh_observe o h.fresh⟩

theorem good_run (s : State) (ops : List Op) (h : Good s) (hg : Guarded .current s ops) :
    Good (runState .current s ops) := by
  induction ops generalizing s with
  | nil => exact h
  | cons op ops ih =>
    obtain ⟨hgd, hne, hrest⟩ := hg
    exact ih _ (good_step s op h hgd hne) hrest

end PsdVerif.TreeSt
