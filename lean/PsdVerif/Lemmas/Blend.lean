/-
Helper lemmas and hypothesis vocabulary for C12 (blend functions).  Mathlib single modules only.
-/
import Mathlib.Tactic.Linarith
import Mathlib.Tactic.Ring
import Mathlib.Tactic.FieldSimp
import Mathlib.Tactic.Positivity
import Mathlib.Tactic.NormNum
import Mathlib.Algebra.Order.Field.Basic
import Mathlib.Algebra.Order.Field.Rat
import PsdVerif.Model.Blend

namespace PsdVerif.Blend

/-- a colour component: `x ∈ [0,1]` -/
def unit (x : Rat) : Prop := 0 ≤ x ∧ x ≤ 1

theorem eps_pos : 0 < eps := by unfold eps; norm_num
theorem eps_lt_one : eps < 1 := by unfold eps; norm_num

theorem rmin_le_left (a b : Rat) : rmin a b ≤ a := by unfold rmin; split_ifs <;> linarith
theorem rmin_le_right (a b : Rat) : rmin a b ≤ b := by unfold rmin; split_ifs <;> linarith
theorem le_rmin {a b c : Rat} (h1 : c ≤ a) (h2 : c ≤ b) : c ≤ rmin a b := by
  unfold rmin; split_ifs <;> assumption
theorem le_rmax_left (a b : Rat) : a ≤ rmax a b := by unfold rmax; split_ifs <;> linarith
theorem le_rmax_right (a b : Rat) : b ≤ rmax a b := by unfold rmax; split_ifs <;> linarith
theorem rmax_le {a b c : Rat} (h1 : a ≤ c) (h2 : b ≤ c) : rmax a b ≤ c := by
  unfold rmax; split_ifs <;> assumption
theorem rmin_eq_min (a b : Rat) : rmin a b = min a b := by
  unfold rmin; split_ifs with h
  · exact (min_eq_left h).symm
  · exact (min_eq_right (le_of_lt (not_le.mp h))).symm
theorem rmax_eq_max (a b : Rat) : rmax a b = max a b := by
  unfold rmax; split_ifs with h
  · exact (max_eq_right h).symm
  · exact (max_eq_left (le_of_lt (not_le.mp h))).symm
theorem rabs_eq_abs (a : Rat) : rabs a = |a| := by
  unfold rabs; split_ifs with h
  · exact (abs_of_neg h).symm
  · exact (abs_of_nonneg (not_lt.mp h)).symm
theorem smin_eq_min (a b : Rat) : Spec.smin a b = min a b := by
  unfold Spec.smin; split_ifs with h
  · exact (min_eq_right (le_of_lt h)).symm
  · exact (min_eq_left (not_lt.mp h)).symm
theorem smax_eq_max (a b : Rat) : Spec.smax a b = max a b := by
  unfold Spec.smax; split_ifs with h
  · exact (max_eq_right (le_of_lt h)).symm
  · exact (max_eq_left (not_lt.mp h)).symm

/-- The one estimate behind every `ε`-ed mode: for `x ≥ 0` and a denominator `d ≥ δ > 0`,
`min(1, x/(d+ε))` (code) and `min(1, x/d)` (published) differ by at most `ε/δ`. -/
theorem min_div_eps_near {x d δ : Rat} (hx : 0 ≤ x) (hδ : 0 < δ) (hd : δ ≤ d) :
    |min 1 (x / (d + eps)) - min 1 (x / d)| ≤ eps / δ := by
  have he := eps_pos
  have hd0 : 0 < d := lt_of_lt_of_le hδ hd
  have hde : 0 < d + eps := by linarith
  have hle : x / (d + eps) ≤ x / d := div_le_div_of_nonneg_left hx hd0 (by linarith)
  have hu0 : 0 ≤ x / (d + eps) := div_nonneg hx hde.le
  have hbound : eps / d ≤ eps / δ := div_le_div_of_nonneg_left he.le hδ hd
  have hdiff : x / d - x / (d + eps) = x / (d + eps) * (eps / d) := by
    field_simp; ring
  have hmono : min 1 (x / (d + eps)) ≤ min 1 (x / d) := min_le_min le_rfl hle
  rw [abs_sub_comm, abs_of_nonneg (by linarith)]
  have hed : 0 ≤ eps / d := div_nonneg he.le hd0.le
  by_cases h1 : 1 ≤ x / (d + eps)
  · rw [min_eq_left h1, min_eq_left (le_trans h1 hle)]; simp; positivity
  · have h1' : x / (d + eps) < 1 := not_le.mp h1
    rw [min_eq_right h1'.le]
    have : min 1 (x / d) - x / (d + eps) ≤ x / d - x / (d + eps) := by
      have := min_le_right 1 (x / d); linarith
    calc min 1 (x / d) - x / (d + eps) ≤ x / (d + eps) * (eps / d) := by rw [← hdiff]; exact this
      _ ≤ 1 * (eps / d) := by apply mul_le_mul_of_nonneg_right h1'.le hed
      _ ≤ eps / δ := by rw [one_mul]; exact hbound

/-! ### `offDiscontinuity`: the hypotheses of the `_near_spec` theorems

They exclude only jump sets of the PUBLISHED formulas and ask that a denominator of the published
formula that is not 0 be at least `δ` (true of all 8- and 16-bit data with `δ = 1/65535`, see
`Props.C12.offDisc_*_of_grid`).  `tol δ = ε/δ` is the resulting bound. -/
def tol (δ : Rat) : Rat := eps / δ
/-- colour dodge: `Cs = 1` (value 1) or `1 - Cs ≥ δ` -/
def offDiscDodge (δ _Cb Cs : Rat) : Prop := Cs = 1 ∨ δ ≤ 1 - Cs
/-- colour burn: `Cs = 0` (value 0) or `Cs ≥ δ` -/
def offDiscBurn (δ _Cb Cs : Rat) : Prop := Cs = 0 ∨ δ ≤ Cs
def offDiscVivid (δ Cb Cs : Rat) : Prop :=
  (Cs ≤ 1 / 2 → offDiscBurn δ Cb (2 * Cs)) ∧ (1 / 2 < Cs → offDiscDodge δ Cb (2 * Cs - 1))
/-- divide: `Cs ≥ δ`, or `Cs = 0` with `Cb ≥ δ` (excluded: `0/0` and `0 < Cb < δ` over black) -/
def offDiscDivide (δ Cb Cs : Rat) : Prop := δ ≤ Cs ∨ (Cs = 0 ∧ δ ≤ Cb)
/-- hard mix: off the jump line `Cb + Cs = 1` (by `δ` on the upper side, where the code's
`0.999999` moves the threshold) -/
def offDiscHardMix (δ Cb Cs : Rat) : Prop := Cb + Cs < 1 ∨ 1 + δ ≤ Cb + Cs
/-- `SetSat`: zero saturation or saturation at least `δ` -/
def offDiscSat (δ : Rat) (c : RGB) : Prop := c.max3 = c.min3 ∨ δ ≤ c.max3 - c.min3

theorem tol_nonneg {δ : Rat} (hδ : 0 < δ) : 0 ≤ tol δ := div_nonneg eps_pos.le hδ.le

end PsdVerif.Blend
