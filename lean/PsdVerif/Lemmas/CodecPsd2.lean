/-
Round-trip and count laws of the skeleton parts inside a layer record: flags, mask data,
blending ranges, channel info, the record itself.
-/
import PsdVerif.Lemmas.CodecPsd1

namespace PsdVerif.Psd
open PsdVerif PsdVerif.Codec

/-! ## flags -/

theorem Flags8.ofNat_toNat (f : Flags8) : Flags8.ofNat f.toNat = f := by
  obtain ⟨a, b, c, d, e, g, h, i⟩ := f
  cases a <;> cases b <;> cases c <;> cases d <;> cases e <;> cases g <;> cases h <;> cases i <;> rfl

theorem Flags8.toNat_lt (f : Flags8) : f.toNat < 256 ^ 1 := by
  obtain ⟨a, b, c, d, e, g, h, i⟩ := f
  cases a <;> cases b <;> cases c <;> cases d <;> cases e <;> cases g <;> cases h <;> cases i <;> decide

theorem LayerFlags.ofNat_toNat (f : LayerFlags) : LayerFlags.ofNat f.toNat = f := by
  obtain ⟨a, b, c, d, e, g, h, i⟩ := f
  cases a <;> cases b <;> cases c <;> cases d <;> cases e <;> cases g <;> cases h <;> cases i <;> rfl

theorem LayerFlags.toNat_lt (f : LayerFlags) : f.toNat < 256 ^ 1 := Flags8.toNat_lt _

/-! ## mask parameters -/

theorem length_optT (w : Nat) (o : Option Nat) : (optT w o).length = if o.isSome then w else 0 := by
  cases o <;> simp [optT, length_beBytes]

theorem readOpt_step {d : B} {p w : Nat} {o : Option Nat} {rest : B} (h : At d p (optT w o ++ rest))
    (hf : optFits w o) :
    readOpt o.isSome w d p = .ok (o, p + (optT w o).length) ∧ At d (p + (optT w o).length) rest := by
  cases o with
  | none => simpa [readOpt, optT] using h
  | some n =>
    simp only [optT, optFits] at h hf ⊢
    obtain ⟨e, h'⟩ := readU_step h hf
    simp only [readOpt, Option.isSome_some, if_true, e, length_beBytes]
    exact ⟨trivial, h'⟩

theorem MaskParameters.mask_lt (m : MaskParameters) : m.mask < 256 ^ 1 := by
  obtain ⟨a, b, c, e⟩ := m
  cases a <;> cases b <;> cases c <;> cases e <;> simp [MaskParameters.mask, bit]

theorem MaskParameters.mask_bits (m : MaskParameters) :
    decide (m.mask % 2 = 1) = m.userMaskDensity.isSome ∧ decide (m.mask / 2 % 2 = 1) = m.userMaskFeather.isSome ∧
    decide (m.mask / 4 % 2 = 1) = m.vectorMaskDensity.isSome ∧ decide (m.mask / 8 % 2 = 1) = m.vectorMaskFeather.isSome := by
  obtain ⟨a, b, c, e⟩ := m
  cases a <;> cases b <;> cases c <;> cases e <;> simp [MaskParameters.mask, bit]

theorem MaskParameters.length_encT (m : MaskParameters) :
    m.encT.length = 1 + (optT 1 m.userMaskDensity).length + (optT 8 m.userMaskFeather).length +
      (optT 1 m.vectorMaskDensity).length + (optT 8 m.vectorMaskFeather).length := by
  simp only [MaskParameters.encT, List.length_append, length_beBytes]

theorem MaskParameters.dec_step {m : MaskParameters} (hf : m.Fits) {d : B} {p : Nat} {rest : B}
    (hat : At d p (m.encT ++ rest)) :
    MaskParameters.dec d p = .ok (m, p + m.encT.length) ∧ At d (p + m.encT.length) rest := by
  obtain ⟨f1, f2, f3, f4⟩ := hf
  obtain ⟨b1, b2, b3, b4⟩ := m.mask_bits
  rw [MaskParameters.length_encT]
  simp only [MaskParameters.encT, List.append_assoc] at hat
  obtain ⟨e0, hat⟩ := readU_step hat m.mask_lt
  obtain ⟨e1, hat⟩ := readOpt_step hat f1
  obtain ⟨e2, hat⟩ := readOpt_step hat f2
  obtain ⟨e3, hat⟩ := readOpt_step hat f3
  obtain ⟨e4, hat⟩ := readOpt_step hat f4
  refine ⟨?_, by simpa only [Nat.add_assoc] using hat⟩
  simp only [MaskParameters.dec, bind, Except.bind, e0, b1, b2, b3, b4, e1, e2, e3, e4]
  simp only [Nat.add_assoc]

theorem MaskParameters.encP_eq (m : MaskParameters) : m.encP = (m.encT, m.encT.length) := by
  simp only [MaskParameters.encP, MaskParameters.encT, wBytes_eq, wNil, W.seq, List.nil_append,
    Nat.zero_add, List.length_append, List.append_assoc, Nat.add_assoc]

/-! ## mask data -/

theorem MaskReal.length_encT (r : MaskReal) : r.encT.length = 18 := by
  simp [MaskReal.encT, length_beBytes, length_i32T]

theorem MaskReal.dec_step {r : MaskReal} (hf : r.Fits) {d : B} {p : Nat} {rest : B} (hat : At d p (r.encT ++ rest)) :
    MaskReal.dec d p = .ok (r, p + r.encT.length) ∧ At d (p + r.encT.length) rest := by
  obtain ⟨f1, f2, f3, f4, f5⟩ := hf
  rw [MaskReal.length_encT]
  simp only [MaskReal.encT, List.append_assoc] at hat
  obtain ⟨e0, hat⟩ := readU_step hat r.flags.toNat_lt
  obtain ⟨e1, hat⟩ := readU_step hat f1
  obtain ⟨e2, hat⟩ := readI32_step hat f2
  obtain ⟨e3, hat⟩ := readI32_step hat f3
  obtain ⟨e4, hat⟩ := readI32_step hat f4
  obtain ⟨e5, hat⟩ := readI32_step hat f5
  refine ⟨?_, hat⟩
  simp only [MaskReal.dec, bind, Except.bind, e0, e1, e2, e3, e4, e5, Flags8.ofNat_toNat]

theorem MaskData.length_fixedT (m : MaskData) : m.fixedT.length = 18 := by
  simp [MaskData.fixedT, length_beBytes, length_i32T]

theorem MaskData.length_bodyT_mod (m : MaskData) : m.bodyT.length % 4 = 0 := by
  simp only [MaskData.bodyT, List.length_append, length_zeros]
  exact add_padAmount_mod _ 4 (by decide)

theorem MaskData.length_bodyT_ge (m : MaskData) : 18 ≤ m.bodyT.length := by
  simp only [MaskData.bodyT, MaskData.unpaddedT, List.length_append, MaskData.length_fixedT]; omega

/-- the reader's test `length >= 36` selects the real fields exactly when they were written -/
theorem MaskData.real_gate {m : MaskData} (hwf : m.WF) : decide (m.bodyT.length ≥ 36) = m.real.isSome := by
  obtain ⟨_, _, h3⟩ := hwf
  have hmod := m.length_bodyT_mod
  have hlt := padAmount_lt m.unpaddedT.length 4 (by decide)
  simp only [MaskData.bodyT, List.length_append, length_zeros] at hmod ⊢
  cases hr : m.real with
  | none =>
    have := h3 hr
    simp only [Option.isSome_none, decide_eq_false_iff_not]; omega
  | some r =>
    have : 36 ≤ m.unpaddedT.length := by
      simp only [MaskData.unpaddedT, MaskData.realT, hr, List.length_append, MaskData.length_fixedT,
        MaskReal.length_encT]; omega
    simp only [Option.isSome_some, decide_eq_true_eq]; omega

theorem paramsDec_step {applied : Bool} {ps : Option MaskParameters} (hpar : applied = true ↔ ps.isSome)
    (hf : maskParamsFits applied ps) {d : B} {q : Nat} {rest : B} (hq : At d q (maskParamsT applied ps ++ rest)) :
    (if applied = true then optItem MaskParameters.dec d q else .ok (none, q)) =
      .ok (ps, q + (maskParamsT applied ps).length) := by
  cases applied with
  | false =>
    have : ps = none := by
      cases ps with
      | none => rfl
      | some x => have := hpar.mpr rfl; cases this
    subst this
    simp [maskParamsT]
  | true =>
    obtain ⟨x, rfl⟩ := Option.isSome_iff_exists.mp (hpar.mp rfl)
    simp only [maskParamsT, maskParamsFits] at hq hf ⊢
    obtain ⟨e7, _⟩ := MaskParameters.dec_step hf hq
    simp [optItem, e7]

theorem MaskData.bodyDec_step {m : MaskData} (hf : m.Fits)
    (hpar : m.flags.parametersApplied = true ↔ m.parameters.isSome)
    {L : Nat} (hgate : decide (L ≥ 36) = m.real.isSome) {d : B} {p : Nat} {rest : B}
    (hat : At d p (m.unpaddedT ++ rest)) :
    MaskData.bodyDec L d p = .ok (m, p + m.unpaddedT.length) := by
  obtain ⟨t, l, b, r, bg, fl, params, real⟩ := m
  obtain ⟨f1, f2, f3, f4, f5, f6, f7⟩ := hf
  simp only at f1 f2 f3 f4 f5 f6 f7 hpar hgate
  simp only [MaskData.unpaddedT, MaskData.fixedT, MaskData.realT, MaskData.paramsT, List.append_assoc,
    List.length_append, length_i32T, length_beBytes] at hat ⊢
  obtain ⟨e1, hat⟩ := readI32_step hat f1
  obtain ⟨e2, hat⟩ := readI32_step hat f2
  obtain ⟨e3, hat⟩ := readI32_step hat f3
  obtain ⟨e4, hat⟩ := readI32_step hat f4
  obtain ⟨e5, hat⟩ := readU_step hat f5
  obtain ⟨e6, hat⟩ := readU_step hat (Flags8.toNat_lt fl)
  simp only [MaskData.bodyDec, bind, Except.bind, e1, e2, e3, e4, e5, e6, Flags8.ofNat_toNat]
  cases real with
  | none =>
    simp only [Option.isSome_none, decide_eq_false_iff_not] at hgate
    simp only [List.nil_append, if_neg hgate, List.length_nil, Nat.zero_add] at hat ⊢
    rw [paramsDec_step hpar f7 hat]
    simp only [Nat.add_assoc]
  | some rl =>
    simp only [Option.isSome_some, decide_eq_true_eq] at hgate
    simp only [List.append_assoc, if_pos hgate, realFits] at hat f6 ⊢
    obtain ⟨e7, hat⟩ := MaskReal.dec_step f6 hat
    have e7' : optItem MaskReal.dec d (p + 4 + 4 + 4 + 4 + 1 + 1) =
        .ok (some rl, p + 4 + 4 + 4 + 4 + 1 + 1 + rl.encT.length) := by simp [optItem, e7]
    simp only [e7']
    rw [paramsDec_step hpar f7 hat]
    simp only [Nat.add_assoc]

theorem MaskData.bodyDec_at {m : MaskData} (hwf : m.WF) :
    ∃ q, MaskData.bodyDec m.bodyT.length m.bodyT 0 = .ok (m, q) :=
  ⟨_, MaskData.bodyDec_step hwf.1 hwf.2.1 (MaskData.real_gate hwf) (At.self _)⟩

theorem length_maskT_ge (m : Option MaskData) : 4 ≤ (maskT m).length := by
  cases m with
  | none => simp [maskT, length_beBytes]
  | some m => simp only [maskT, MaskData.encT, length_lenBlockT]; omega

theorem maskDec_step {m : Option MaskData} (hwf : maskWF m) (hf : maskFits m) {d : B} {p : Nat} {rest : B}
    (hat : At d p (maskT m ++ rest)) :
    maskDec d p = .ok (m, p + (maskT m).length) ∧ At d (p + (maskT m).length) rest := by
  refine ⟨?_, hat.right⟩
  have hat := hat.left
  cases m with
  | none =>
    have hat' : At d p (lenBlockT 0 4 1 []) := by
      simpa [maskT, lenBlockT, zeros, padAmount_one] using hat
    have e := readLenBlock_at hat' (by decide) (by decide)
    simp only [maskDec, bind, Except.bind, e]
    simp [maskT, lenBlockT, zeros, padAmount_one, length_beBytes]
  | some m =>
    simp only [maskT, MaskData.encT, maskWF, maskFits] at hat hwf hf ⊢
    have e := readLenBlock_at hat hf.2 (by decide)
    obtain ⟨q, e2⟩ := MaskData.bodyDec_at hwf
    have hne : ¬ m.bodyT.length = 0 := by have := m.length_bodyT_ge; omega
    simp only [maskDec, bind, Except.bind, e, if_neg hne, e2]

theorem MaskData.bodyP_eq (m : MaskData) : m.bodyP = (m.bodyT, m.bodyT.length) := by
  obtain ⟨t, l, b, r, bg, fl, params, real⟩ := m
  cases real <;> cases hfl : MaskFlags.parametersApplied fl <;> cases params <;>
    simp only [MaskData.bodyP, MaskData.bodyT, MaskData.unpaddedT, MaskData.fixedT, MaskData.realT,
      MaskData.paramsT, maskParamsT, MaskReal.encT, hfl, MaskParameters.encP_eq, wBytes_eq, wSeq_eq, wPad_eq,
      List.append_assoc, List.append_nil]

theorem maskP_eq (m : Option MaskData) : maskP m = (maskT m, (maskT m).length) := by
  cases m with
  | none => rfl
  | some m => simp only [maskP, maskT, MaskData.encP, MaskData.encT, MaskData.bodyP_eq, wLenBlock_eq]

/-! ## blending ranges -/

theorem Range4.length_encT (r : Range4) : r.encT.length = 8 := by simp [Range4.encT, length_beBytes]

theorem Range4.dec_step {r : Range4} (hf : r.Fits) {d : B} {p : Nat} {rest : B} (hat : At d p (r.encT ++ rest)) :
    Range4.dec d p = .ok (r, p + r.encT.length) ∧ At d (p + r.encT.length) rest := by
  obtain ⟨f1, f2, f3, f4⟩ := hf
  rw [Range4.length_encT]
  simp only [Range4.encT, List.append_assoc] at hat
  obtain ⟨e1, hat⟩ := readU_step hat f1
  obtain ⟨e2, hat⟩ := readU_step hat f2
  obtain ⟨e3, hat⟩ := readU_step hat f3
  obtain ⟨e4, hat⟩ := readU_step hat f4
  exact ⟨by simp only [Range4.dec, bind, Except.bind, e1, e2, e3, e4], hat⟩

theorem Range4.encP_eq (r : Range4) : r.encP = (r.encT, r.encT.length) := by
  simp only [Range4.encP, Range4.encT, wBytes_eq, wSeq_eq, List.append_assoc]

theorem BlendingRanges.bodyP_eq (r : BlendingRanges) : r.bodyP = (r.bodyT, r.bodyT.length) := by
  obtain ⟨c, cs⟩ := r
  cases c <;> cases cs <;>
    simp [BlendingRanges.bodyP, BlendingRanges.bodyT, Range4.encP_eq, wNil, W.seq,
      wList_eq Range4.encP Range4.encT _ (fun r _ => r.encP_eq)]

theorem BlendingRanges.encP_eq (r : BlendingRanges) : r.encP = (r.encT, r.encT.length) := by
  simp only [BlendingRanges.encP, BlendingRanges.encT, BlendingRanges.bodyP_eq, wLenBlock_eq]

theorem BlendingRanges.dec_step {r : BlendingRanges} (hwf : r.WF) {d : B} {p : Nat} {rest : B}
    (hat : At d p (r.encT ++ rest)) :
    BlendingRanges.dec d p = .ok (r, p + r.encT.length) ∧ At d (p + r.encT.length) rest := by
  refine ⟨?_, hat.right⟩
  have hat := hat.left
  obtain ⟨⟨f1, f2, f3⟩, hshape⟩ := hwf
  unfold BlendingRanges.encT at hat ⊢
  have e := readLenBlock_at hat f3 (by decide)
  obtain ⟨c, cs⟩ := r
  simp only at hshape f1 f2
  rcases hshape with ⟨rfl, rfl⟩ | ⟨hc, hcs⟩
  · simp only [BlendingRanges.dec, bind, Except.bind, e]
    simp [BlendingRanges.bodyT]
  · obtain ⟨c, rfl⟩ := Option.isSome_iff_exists.mp hc
    obtain ⟨cs, rfl⟩ := Option.isSome_iff_exists.mp hcs
    simp only at f1 f2
    have hne : ¬ (BlendingRanges.bodyT ⟨some c, some cs⟩).length = 0 := by
      simp only [BlendingRanges.bodyT, List.length_append, Range4.length_encT]; omega
    simp only [BlendingRanges.dec, bind, Except.bind, e, if_neg hne]
    have hself := At.self (BlendingRanges.bodyT ⟨some c, some cs⟩)
    generalize hD : BlendingRanges.bodyT ⟨some c, some cs⟩ = D at hself ⊢
    have hD' : D = c.encT ++ listT Range4.encT cs := by rw [← hD]; rfl
    have hlen : D.length = 8 + (listT Range4.encT cs).length := by
      rw [hD', List.length_append, Range4.length_encT]
    rw [hD'] at hself
    obtain ⟨e1, h2⟩ := Range4.dec_step f1 hself
    rw [← hD'] at e1 h2
    rw [e1]
    simp only
    have e2 : readWhile (isReadable 8) (optItem Range4.dec) D (0 + c.encT.length) =
        .ok (cs, 0 + c.encT.length + (listT Range4.encT cs).length) := by
      apply readWhile_at (isReadable 8) (optItem Range4.dec) Range4.encT cs
      · intro x hx q hq
        refine ⟨isReadable_of_at hq (by rw [Range4.length_encT]; omega), ?_⟩
        have := (Range4.dec_step (f2 x hx) hq.nil_right).1
        simp only [optItem, this]
      · intro x _; rw [Range4.length_encT]; omega
      · exact h2
      · apply isReadable_false; rw [Range4.length_encT]; omega
    rw [e2]

/-! ## channel info -/

theorem ChannelInfo.length_encT (v : Nat) (c : ChannelInfo) : (c.encT v).length = 2 + secW v := by
  simp [ChannelInfo.encT, length_i16T, length_beBytes]

theorem ChannelInfo.dec_at {v : Nat} {c : ChannelInfo} (hwf : c.WF v) {d : B} {p : Nat} (hat : At d p (c.encT v)) :
    ChannelInfo.dec v d p = .ok (c, p + (c.encT v).length) := by
  obtain ⟨hid, f1, f2⟩ := hwf
  rw [ChannelInfo.length_encT]
  simp only [ChannelInfo.encT] at hat
  obtain ⟨e1, hat⟩ := readI16_step hat f1
  have e2 := readU_at hat f2
  simp only [ChannelInfo.dec, bind, Except.bind, e1, e2, if_pos hid, Nat.add_assoc]

theorem ChannelInfo.encP_eq (v : Nat) (c : ChannelInfo) : c.encP v = (c.encT v, (c.encT v).length) := rfl

/-! ## layer record -/

theorem LayerRecord.extraDec_gen {v : Nat} {r : LayerRecord}
    (hm : maskWF r.maskData) (hmf : maskFits r.maskData) (hr : r.blendingRanges.WF) (hn : r.name.length < 256)
    (ht : taggedBlocksWF v r.taggedBlocks) {d : B} {p : Nat} (hat : At d p (r.extraUnpaddedT v))
    (hend : d.length < p + (r.extraUnpaddedT v).length + 8) :
    LayerRecord.extraDec v d p =
      .ok ((r.maskData, r.blendingRanges, r.name, r.taggedBlocks), p + (r.extraUnpaddedT v).length) := by
  simp only [LayerRecord.extraUnpaddedT, List.append_assoc, List.length_append] at hat hend ⊢
  obtain ⟨e1, hat⟩ := maskDec_step hm hmf hat
  obtain ⟨e2, hat⟩ := BlendingRanges.dec_step hr hat
  obtain ⟨e3, hat⟩ := readPascal_step hat hn
  have e4 := taggedBlocksDec_at (v := v) (pad := 1) (Or.inl rfl) ht none hat (by intro e he; cases he)
    (by
      unfold taggedCond
      rw [isReadable_false (by omega)]
      rfl)
  simp only [LayerRecord.extraDec, bind, Except.bind, e1, e2, e3, e4]
  simp only [Nat.add_assoc]

theorem LayerRecord.extraDec_at {v : Nat} {r : LayerRecord}
    (hm : maskWF r.maskData) (hmf : maskFits r.maskData) (hr : r.blendingRanges.WF) (hn : r.name.length < 256)
    (ht : taggedBlocksWF v r.taggedBlocks) :
    ∃ q, LayerRecord.extraDec v (r.extraT v) 0 =
      .ok ((r.maskData, r.blendingRanges, r.name, r.taggedBlocks), q) := by
  refine ⟨_, LayerRecord.extraDec_gen hm hmf hr hn ht (At.self (r.extraT v)).left ?_⟩
  have := padAmount_lt (r.extraUnpaddedT v).length 2 (by decide)
  simp only [LayerRecord.extraT, List.length_append, length_zeros]
  omega

theorem readCount_step {α : Type} (item : R α) (enc : α → B) (vs : List α)
    (hitem : ∀ v ∈ vs, ∀ d p, At d p (enc v) → item d p = .ok (v, p + (enc v).length))
    {d : B} {p : Nat} {rest : B} (h : At d p (listT enc vs ++ rest)) :
    readCount item vs.length d p = .ok (vs, p + (listT enc vs).length) ∧ At d (p + (listT enc vs).length) rest :=
  ⟨readCount_at item enc vs hitem h.left, h.right⟩

theorem LayerRecord.length_encT (v : Nat) (r : LayerRecord) :
    (r.encT v).length = 4 + 4 + 4 + 4 + 2 + (listT (ChannelInfo.encT v) r.channelInfo).length + 4 + 4 + 1 + 1 + 1 +
      (lenBlockT 1 4 1 (r.extraT v)).length := by
  simp only [LayerRecord.encT, LayerRecord.fixedT, List.length_append, length_i32T, length_beBytes, length_pack4s]

theorem LayerRecord.length_ge (v : Nat) (r : LayerRecord) : 34 ≤ (r.encT v).length := by
  rw [LayerRecord.length_encT, length_lenBlockT]; omega

theorem LayerRecord.dec_step {v : Nat} {r : LayerRecord} (hwf : r.WF v) {d : B} {p : Nat} {rest : B}
    (hat : At d p (r.encT v ++ rest)) :
    LayerRecord.dec v d p = .ok (r, p + (r.encT v).length) ∧ At d (p + (r.encT v).length) rest := by
  refine ⟨?_, hat.right⟩
  have hat := hat.left
  obtain ⟨hvalid, hfits, hci, hm, hr, ht⟩ := hwf
  obtain ⟨f1, f2, f3, f4, f5, f6, f7, f8, f9, f10, f11, f12, f13⟩ := hfits
  obtain ⟨v1, v2, v3, v4⟩ := hvalid
  have hl : ∀ s ∈ G.recordSignatures, s.length = 4 := by decide
  have hb : ∀ s ∈ G.blendModes, s.length = 4 := by decide
  have hs : pack4s r.signature = r.signature := pack4s_of_length (hl _ v1)
  have hbm : pack4s r.blendMode = r.blendMode := pack4s_of_length (hb _ v2)
  rw [LayerRecord.length_encT]
  simp only [LayerRecord.encT, LayerRecord.fixedT, List.append_assoc, hs, hbm] at hat
  obtain ⟨e1, hat⟩ := readI32_step hat f1
  obtain ⟨e2, hat⟩ := readI32_step hat f2
  obtain ⟨e3, hat⟩ := readI32_step hat f3
  obtain ⟨e4, hat⟩ := readI32_step hat f4
  obtain ⟨e5, hat⟩ := readU_step hat f5
  obtain ⟨e6, hat⟩ := readCount_step (ChannelInfo.dec v) (ChannelInfo.encT v) r.channelInfo
    (fun c hc d p h => ChannelInfo.dec_at ⟨hci c hc, f6 c hc⟩ h) hat
  obtain ⟨e7, hat⟩ := readN_step hat (hl _ v1)
  obtain ⟨e8, hat⟩ := readN_step hat (hb _ v2)
  obtain ⟨e9, hat⟩ := readU_step hat f7
  obtain ⟨e10, hat⟩ := readU_step hat f8
  obtain ⟨e11, hat⟩ := readU_step hat r.flags.toNat_lt
  have e12 := readLenBlock_at hat f13 (by decide)
  obtain ⟨q, e13⟩ := LayerRecord.extraDec_at (v := v) hm f9 hr f11 ht
  simp only [LayerRecord.dec, bind, Except.bind, e1, e2, e3, e4, e5, e6, e7, e8, e9, e10, e11, e12, e13,
    LayerFlags.ofNat_toNat]
  rw [if_pos ⟨v1, v2, v3, v4⟩]
  congr 2
  omega

theorem LayerRecord.extraP_eq (v : Nat) (r : LayerRecord) : r.extraP v = (r.extraT v, (r.extraT v).length) := by
  simp only [LayerRecord.extraP, LayerRecord.extraT, LayerRecord.extraUnpaddedT, maskP_eq, BlendingRanges.encP_eq,
    wPascal_eq, taggedBlocksP_eq, wSeq_eq, wPad_eq, wNil, W.seq, List.nil_append, Nat.zero_add,
    List.length_append, List.append_assoc, Nat.add_assoc]

theorem LayerRecord.encP_eq (v : Nat) (r : LayerRecord) : r.encP v = (r.encT v, (r.encT v).length) := by
  simp only [LayerRecord.encP, LayerRecord.encT, LayerRecord.extraP_eq, wLenBlock_eq, wBytes_eq,
    wList_eq (ChannelInfo.encP v) (ChannelInfo.encT v) _ (fun c _ => c.encP_eq v), wSeq_eq, List.append_assoc]

end PsdVerif.Psd
