/-
C02 — what the lenient reader can return, part 2: header, colour mode data, image resources, tagged blocks,
mask data, blending ranges, channel info.

For each reader `X.dec`:  `X.dec_ok : X.dec d p = .ok (v, p') → <everything `X.WF`/`X.Fits` asks of the fields>`.
Lengths the writer *derives* (the `FitsU w body.length` clauses of `Fits`) are not facts about what was read:
they are the hypotheses `…LenFits` of `dec_encodable`, and follow from `PSD.enc … = .ok _` in `resave_stable`.
-/
import PsdVerif.Lemmas.Lenient1

namespace PsdVerif.Psd
open PsdVerif PsdVerif.Codec

/-! ## header, colour mode data -/

theorem Header.dec_ok {d : B} {p : Nat} {h : Header} {p' : Nat} (hd : Header.dec d p = .ok (h, p')) : h.Valid := by
  unfold Header.dec at hd
  obtain ⟨⟨a1, p1⟩, _, hd⟩ := bind_ok hd
  obtain ⟨⟨a2, p2⟩, _, hd⟩ := bind_ok hd
  obtain ⟨⟨a3, p3⟩, _, hd⟩ := bind_ok hd
  obtain ⟨⟨a4, p4⟩, _, hd⟩ := bind_ok hd
  obtain ⟨⟨a5, p5⟩, _, hd⟩ := bind_ok hd
  obtain ⟨⟨a6, p6⟩, _, hd⟩ := bind_ok hd
  obtain ⟨⟨a7, p7⟩, _, hd⟩ := bind_ok hd
  obtain ⟨⟨a8, p8⟩, _, hd⟩ := bind_ok hd
  dsimp only at hd
  split at hd
  · cases hd; assumption
  · cases hd

theorem colorModeDec_ok {d : B} {p : Nat} {v : B} {p' : Nat} (hd : colorModeDec d p = .ok (v, p')) :
    FitsU 4 v.length := readLenBlock_ok hd

/-! ## image resources -/

theorem Resource.dec_ok {d : B} {p : Nat} {r : Resource} {p' : Nat} (hd : Resource.dec d p = .ok (r, p')) : r.WF := by
  unfold Resource.dec at hd
  obtain ⟨⟨sig, p1⟩, _, hd⟩ := bind_ok hd
  obtain ⟨⟨key, p2⟩, e2, hd⟩ := bind_ok hd
  obtain ⟨⟨name, p3⟩, e3, hd⟩ := bind_ok hd
  obtain ⟨⟨data, p4⟩, e4, hd⟩ := bind_ok hd
  dsimp only at hd
  split at hd
  · rename_i hs
    cases hd
    exact ⟨hs, (readU_ok e2).1, readPascal_ok e3, readLenBlock_ok e4⟩
  · cases hd

/-- everything but the derived length of the section -/
theorem resourcesDec_ok {d : B} {p : Nat} {rs : List Resource} {p' : Nat} (hd : resourcesDec d p = .ok (rs, p')) :
    (∀ r ∈ rs, r.WF) ∧ (rs.map Resource.key).Nodup := by
  unfold resourcesDec at hd
  obtain ⟨⟨data, p1⟩, _, hd⟩ := bind_ok hd
  obtain ⟨⟨items, p2⟩, e2, hd⟩ := bind_ok hd
  dsimp only at hd
  cases hd
  refine ⟨?_, nodup_odict _ _⟩
  intro r hr
  obtain ⟨q, q', _, hi⟩ := readWhile_ok e2 r (mem_odict _ _ _ hr)
  exact Resource.dec_ok (optItem_some hi)

theorem resourcesDec_wf {d : B} {p : Nat} {rs : List Resource} {p' : Nat} (hd : resourcesDec d p = .ok (rs, p'))
    (hlen : FitsU 4 (resourcesBodyT rs).length) : resourcesWF rs ∧ resourcesFits rs := by
  obtain ⟨h1, h2⟩ := resourcesDec_ok hd
  exact ⟨⟨h1, h2, hlen⟩, fun r hr => (h1 r hr).2, hlen⟩

/-! ## tagged blocks -/

theorem TaggedBlock.dec_ok {v pad : Nat} {d : B} {p : Nat} {t : TaggedBlock} {p' : Nat}
    (hd : TaggedBlock.dec v pad d p = .ok (some t, p')) : t.WF v := by
  unfold TaggedBlock.dec at hd
  obtain ⟨⟨sig, p1⟩, _, hd⟩ := bind_ok hd
  dsimp only at hd
  split at hd
  · rename_i hs
    obtain ⟨⟨key, p2⟩, e2, hd⟩ := bind_ok hd
    obtain ⟨⟨data, p3⟩, e3, hd⟩ := bind_ok hd
    dsimp only at hd
    cases hd
    exact ⟨hs, (readN_ok e2).1, readLenBlock_ok e3⟩
  · cases hd

theorem taggedBlocksDec_ok {v pad : Nat} {endPos : Option Nat} {d : B} {p : Nat} {ts : List TaggedBlock} {p' : Nat}
    (hd : taggedBlocksDec v pad endPos d p = .ok (ts, p')) : taggedBlocksWF v ts := by
  unfold taggedBlocksDec at hd
  obtain ⟨⟨items, p1⟩, e1, hd⟩ := bind_ok hd
  dsimp only at hd
  cases hd
  refine ⟨?_, nodup_odict _ _⟩
  intro t ht
  obtain ⟨q, q', _, hi⟩ := readWhile_ok e1 t (mem_odict _ _ _ ht)
  exact TaggedBlock.dec_ok hi

theorem taggedBlocksWF_fits {v : Nat} {ts : List TaggedBlock} (h : taggedBlocksWF v ts) : ∀ t ∈ ts, t.Fits v :=
  fun t ht => (h.1 t ht).2.2

/-! ## mask data -/

theorem readOpt_ok {c : Bool} {w : Nat} {d : B} {p : Nat} {o : Option Nat} {p' : Nat}
    (h : readOpt c w d p = .ok (o, p')) : optFits w o ∧ (o.isSome = c) := by
  unfold readOpt at h
  split at h
  · rename_i hc
    split at h
    · rename_i n q hn
      cases h
      exact ⟨(readU_ok hn).1, by simp [hc]⟩
    · cases h
  · rename_i hc
    cases h
    exact ⟨trivial, by simp at hc; simp [hc]⟩

theorem MaskParameters.dec_ok {d : B} {p : Nat} {m : MaskParameters} {p' : Nat}
    (hd : MaskParameters.dec d p = .ok (m, p')) : m.Fits := by
  unfold MaskParameters.dec at hd
  obtain ⟨⟨n, p1⟩, _, hd⟩ := bind_ok hd
  obtain ⟨⟨a, p2⟩, e2, hd⟩ := bind_ok hd
  obtain ⟨⟨b, p3⟩, e3, hd⟩ := bind_ok hd
  obtain ⟨⟨c, p4⟩, e4, hd⟩ := bind_ok hd
  obtain ⟨⟨e, p5⟩, e5, hd⟩ := bind_ok hd
  dsimp only at hd
  cases hd
  exact ⟨(readOpt_ok e2).1, (readOpt_ok e3).1, (readOpt_ok e4).1, (readOpt_ok e5).1⟩

theorem MaskReal.dec_ok {d : B} {p : Nat} {m : MaskReal} {p' : Nat} (hd : MaskReal.dec d p = .ok (m, p')) : m.Fits := by
  unfold MaskReal.dec at hd
  obtain ⟨⟨fl, p1⟩, _, hd⟩ := bind_ok hd
  obtain ⟨⟨bg, p2⟩, e2, hd⟩ := bind_ok hd
  obtain ⟨⟨a, p3⟩, e3, hd⟩ := bind_ok hd
  obtain ⟨⟨b, p4⟩, e4, hd⟩ := bind_ok hd
  obtain ⟨⟨c, p5⟩, e5, hd⟩ := bind_ok hd
  obtain ⟨⟨e, p6⟩, e6, hd⟩ := bind_ok hd
  dsimp only at hd
  cases hd
  exact ⟨(readU_ok e2).1, (readI32_ok e3).1, (readI32_ok e4).1, (readI32_ok e5).1, (readI32_ok e6).1⟩

/-- what `MaskData._read_body(fp, length)` returns: all fields fit, the parameters are there exactly when the flag
says so, the real fields exactly when the block is at least 36 bytes long -/
theorem MaskData.bodyDec_ok {length : Nat} {d : B} {p : Nat} {m : MaskData} {p' : Nat}
    (hd : MaskData.bodyDec length d p = .ok (m, p')) :
    m.Fits ∧ (m.flags.parametersApplied = true ↔ m.parameters.isSome) ∧ (m.real.isSome ↔ length ≥ 36) := by
  unfold MaskData.bodyDec at hd
  obtain ⟨⟨a1, p1⟩, e1, hd⟩ := bind_ok hd
  obtain ⟨⟨a2, p2⟩, e2, hd⟩ := bind_ok hd
  obtain ⟨⟨a3, p3⟩, e3, hd⟩ := bind_ok hd
  obtain ⟨⟨a4, p4⟩, e4, hd⟩ := bind_ok hd
  obtain ⟨⟨bg, p5⟩, e5, hd⟩ := bind_ok hd
  obtain ⟨⟨fl, p6⟩, e6, hd⟩ := bind_ok hd
  obtain ⟨⟨real, p7⟩, e7, hd⟩ := bind_ok hd
  obtain ⟨⟨params, p8⟩, e8, hd⟩ := bind_ok hd
  dsimp only at hd
  cases hd
  -- the real fields
  have hreal : realFits real ∧ (real.isSome ↔ length ≥ 36) := by
    split at e7
    · rename_i hl
      unfold optItem at e7
      split at e7
      · rename_i r q hr
        cases e7
        exact ⟨MaskReal.dec_ok hr, by simp [hl]⟩
      · cases e7
    · rename_i hl
      cases e7
      exact ⟨trivial, by simp [hl]⟩
  have hpar : maskParamsFits (MaskFlags.parametersApplied (Flags8.ofNat fl)) params ∧
      (MaskFlags.parametersApplied (Flags8.ofNat fl) = true ↔ params.isSome) := by
    split at e8
    · rename_i ha
      unfold optItem at e8
      split at e8
      · rename_i q r hq
        cases e8
        rw [ha]
        exact ⟨MaskParameters.dec_ok hq, by simp⟩
      · cases e8
    · rename_i ha
      cases e8
      have ha' : MaskFlags.parametersApplied (Flags8.ofNat fl) = false := by simpa using ha
      rw [ha']
      exact ⟨trivial, by simp⟩
  exact ⟨⟨(readI32_ok e1).1, (readI32_ok e2).1, (readI32_ok e3).1, (readI32_ok e4).1, (readU_ok e5).1, hreal.1, hpar.1⟩,
    hpar.2, hreal.2⟩

/-- the clause of `MaskData.WF` that the reader does not guarantee: a block shorter than 36 bytes holds no real
fields; when it nevertheless holds both feathers (18 + 17 = 35 bytes) the writer pads it to 36 bytes, which are
then read as real fields -/
def MaskData.Stable (m : MaskData) : Prop := m.real = none → m.unpaddedT.length ≤ 32

instance (m : MaskData) : Decidable m.Stable := by unfold MaskData.Stable; exact inferInstance

def maskStable : Option MaskData → Prop
  | some m => m.Stable
  | none => True

instance (m : Option MaskData) : Decidable (maskStable m) := by
  cases m <;> simp only [maskStable] <;> exact inferInstance

theorem length_optT_le (w : Nat) (o : Option Nat) : (optT w o).length ≤ w := by
  cases o <;> simp [optT, length_beBytes]

theorem MaskParameters.length_encT_le (m : MaskParameters) : m.encT.length ≤ 19 := by
  have h1 := length_optT_le 1 m.userMaskDensity
  have h2 := length_optT_le 8 m.userMaskFeather
  have h3 := length_optT_le 1 m.vectorMaskDensity
  have h4 := length_optT_le 8 m.vectorMaskFeather
  simp only [MaskParameters.encT, List.length_append, length_beBytes]
  omega

theorem MaskData.length_bodyT_le (m : MaskData) : m.bodyT.length ≤ 60 := by
  have hfixed : m.fixedT.length = 18 := by
    simp [MaskData.fixedT, length_i32T, length_beBytes]
  have hreal : m.realT.length ≤ 18 := by
    unfold MaskData.realT
    cases m.real with
    | none => simp
    | some r => simp [MaskReal.encT, length_i32T, length_beBytes]
  have hpar : m.paramsT.length ≤ 19 := by
    unfold MaskData.paramsT maskParamsT
    split
    · exact MaskParameters.length_encT_le _
    · simp
  have hpad := padAmount_lt m.unpaddedT.length 4 (by decide)
  simp only [MaskData.bodyT, MaskData.unpaddedT, List.length_append, length_zeros] at hpad ⊢
  omega

theorem maskDec_ok {d : B} {p : Nat} {m : Option MaskData} {p' : Nat} (hd : maskDec d p = .ok (m, p'))
    (hst : maskStable m) : maskWF m ∧ maskFits m := by
  unfold maskDec at hd
  obtain ⟨⟨data, p1⟩, e1, hd⟩ := bind_ok hd
  dsimp only at hd
  split at hd
  · cases hd; exact ⟨trivial, trivial⟩
  · obtain ⟨⟨m', p2⟩, e2, hd⟩ := bind_ok hd
    dsimp only at hd
    cases hd
    obtain ⟨h1, h2, _⟩ := MaskData.bodyDec_ok e2
    refine ⟨⟨h1, h2, hst⟩, h1, ?_⟩
    have := m'.length_bodyT_le
    have h60 : (60 : Nat) < 256 ^ 4 := by decide
    unfold FitsU; omega

/-! ## blending ranges -/

theorem Range4.dec_ok {d : B} {p : Nat} {r : Range4} {p' : Nat} (hd : Range4.dec d p = .ok (r, p')) : r.Fits := by
  unfold Range4.dec at hd
  obtain ⟨⟨a, p1⟩, e1, hd⟩ := bind_ok hd
  obtain ⟨⟨b, p2⟩, e2, hd⟩ := bind_ok hd
  obtain ⟨⟨c, p3⟩, e3, hd⟩ := bind_ok hd
  obtain ⟨⟨e, p4⟩, e4, hd⟩ := bind_ok hd
  dsimp only at hd
  cases hd
  exact ⟨(readU_ok e1).1, (readU_ok e2).1, (readU_ok e3).1, (readU_ok e4).1⟩

/-- `LayerBlendingRanges.read` returns `(None, None)` or `(composite, list)`: never one without the other -/
theorem BlendingRanges.dec_ok {d : B} {p : Nat} {r : BlendingRanges} {p' : Nat} (hd : BlendingRanges.dec d p = .ok (r, p')) :
    ((r.composite = none ∧ r.channels = none) ∨ (r.composite.isSome ∧ r.channels.isSome)) ∧
    (match r.composite with | some c => c.Fits | none => True) ∧
    (match r.channels with | some cs => ∀ c ∈ cs, c.Fits | none => True) := by
  unfold BlendingRanges.dec at hd
  obtain ⟨⟨data, p1⟩, e1, hd⟩ := bind_ok hd
  dsimp only at hd
  split at hd
  · cases hd; exact ⟨Or.inl ⟨rfl, rfl⟩, trivial, trivial⟩
  · obtain ⟨⟨comp, q⟩, e2, hd⟩ := bind_ok hd
    obtain ⟨⟨chans, q2⟩, e3, hd⟩ := bind_ok hd
    dsimp only at hd
    cases hd
    refine ⟨Or.inr ⟨rfl, rfl⟩, Range4.dec_ok e2, ?_⟩
    intro c hc
    obtain ⟨q3, q4, _, hi⟩ := readWhile_ok e3 c hc
    exact Range4.dec_ok (optItem_some hi)

theorem BlendingRanges.dec_wf {d : B} {p : Nat} {r : BlendingRanges} {p' : Nat} (hd : BlendingRanges.dec d p = .ok (r, p'))
    (hlen : FitsU 4 r.bodyT.length) : r.WF := by
  obtain ⟨h1, h2, h3⟩ := BlendingRanges.dec_ok hd
  exact ⟨⟨h2, h3, hlen⟩, h1⟩

/-! ## channel info -/

theorem ChannelInfo.dec_ok {v : Nat} {d : B} {p : Nat} {c : ChannelInfo} {p' : Nat}
    (hd : ChannelInfo.dec v d p = .ok (c, p')) : c.WF v := by
  unfold ChannelInfo.dec at hd
  obtain ⟨⟨id, p1⟩, e1, hd⟩ := bind_ok hd
  obtain ⟨⟨len, p2⟩, e2, hd⟩ := bind_ok hd
  dsimp only at hd
  split at hd
  · rename_i hi
    cases hd
    exact ⟨hi, (readI16_ok e1).1, (readU_ok e2).1⟩
  · cases hd

end PsdVerif.Psd
