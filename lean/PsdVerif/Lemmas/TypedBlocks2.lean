/-
C01 (typed documents) — Model/TypedBlocks.lean, part 2: the typed layer record and the typed layer info on what their
writers wrote (the proofs of Lemmas/CodecPsd2.lean / Lemmas/PayloadLayerInfo1.lean with the typed block list in place of
the skeleton's), the law of `payKit` from the law of the kit below it, and the law at every level.
-/
import PsdVerif.Lemmas.TypedBlocks1

namespace PsdVerif.Typed
open PsdVerif PsdVerif.Codec PsdVerif.Psd PsdVerif.Payload PsdVerif.Payload.PCodec

/-! ### lists -/

theorem listT_map {α β : Type} (f : β → B) (g : α → β) (xs : List α) : listT f (xs.map g) = listT (fun x => f (g x)) xs := by
  induction xs with
  | nil => rfl
  | cons x xs ih => simp only [List.map_cons, listT, ih]

/-- `readCount` on a written list whose items are read back as `f item` -/
theorem readCount_map_at {α : Type} (item : R α) (enc : α → B) (f : α → α) (vs : List α)
    (hitem : ∀ v ∈ vs, ∀ d p, At d p (enc v) → item d p = .ok (f v, p + (enc v).length))
    {d : B} {p : Nat} (h : At d p (listT enc vs)) :
    readCount item vs.length d p = .ok (vs.map f, p + (listT enc vs).length) := by
  induction vs generalizing p with
  | nil => simp [readCount, listT]
  | cons v vs ih =>
    simp only [listT] at h ⊢
    simp only [List.length_cons, readCount]
    rw [hitem v (by simp) d p h.left]
    simp only
    rw [ih (fun x hx => hitem x (by simp [hx])) h.right]
    simp only [List.length_append, Nat.add_assoc, List.map_cons]

theorem channelListDec_congr : ∀ (a b : List LayerRecord), a.map LayerRecord.channelInfo = b.map LayerRecord.channelInfo →
    channelImageDec a = channelImageDec b := by
  intro a
  induction a with
  | nil => intro b h; cases b with
    | nil => rfl
    | cons _ _ => simp at h
  | cons x a ih =>
    intro b h
    cases b with
    | nil => simp at h
    | cons y b =>
      simp only [List.map_cons, List.cons.injEq] at h
      funext d p
      have := ih b h.2
      unfold channelImageDec at this ⊢
      simp only [readFor, h.1, this]

/-! ## the typed layer record -/

namespace Rec
variable {P : Type} {K : Kit P}

theorem flat_refresh (hK : K.Law) (v : Nat) (r : Rec P) : (r.refresh K).flat K v = r.flat K v := by
  simp only [flat, refresh, map_flat_refresh hK]

theorem extraDec_gen (hK : K.Law) {v : Nat} {r : Rec P}
    (hm : maskWF r.base.maskData) (hmf : maskFits r.base.maskData) (hr : r.base.blendingRanges.WF)
    (hn : r.base.name.length < 256) (ht : taggedBlocksWF v (r.blocks.map (Blk.flat K v 1))) (hty : blksTyped K v 1 r.blocks)
    {d : B} {p : Nat} (hat : At d p ((r.flat K v).extraUnpaddedT v))
    (hend : d.length < p + ((r.flat K v).extraUnpaddedT v).length + 8) :
    extraDec K v d p =
      .ok ((r.base.maskData, r.base.blendingRanges, r.base.name, r.blocks.map (Blk.refresh K)),
        p + ((r.flat K v).extraUnpaddedT v).length) := by
  simp only [LayerRecord.extraUnpaddedT, flat, ← blksT_flat, List.append_assoc, List.length_append] at hat hend ⊢
  obtain ⟨e1, hat⟩ := maskDec_step hm hmf hat
  obtain ⟨e2, hat⟩ := BlendingRanges.dec_step hr hat
  obtain ⟨e3, hat⟩ := readPascal_step hat hn
  have e4 := blksDec_at hK (v := v) (pad := 1) (Or.inl rfl) ht hty none hat (by intro e he; cases he)
    (by
      unfold taggedCond
      rw [isReadable_false (by omega)]
      rfl)
  simp only [extraDec, bind, Except.bind, e1, e2, e3, e4]
  simp only [Nat.add_assoc]

theorem extraDec_at (hK : K.Law) {v : Nat} {r : Rec P}
    (hm : maskWF r.base.maskData) (hmf : maskFits r.base.maskData) (hr : r.base.blendingRanges.WF)
    (hn : r.base.name.length < 256) (ht : taggedBlocksWF v (r.blocks.map (Blk.flat K v 1))) (hty : blksTyped K v 1 r.blocks) :
    ∃ q, extraDec K v ((r.flat K v).extraT v) 0 =
      .ok ((r.base.maskData, r.base.blendingRanges, r.base.name, r.blocks.map (Blk.refresh K)), q) := by
  refine ⟨_, extraDec_gen hK hm hmf hr hn ht hty (At.self ((r.flat K v).extraT v)).left ?_⟩
  have := padAmount_lt ((r.flat K v).extraUnpaddedT v).length 2 (by decide)
  simp only [LayerRecord.extraT, List.length_append, length_zeros]
  omega

/-- `LayerRecord.read` with the typed block reader on what `LayerRecord.write` wrote: the record with its blocks as their
writers left them -/
theorem dec_step (hK : K.Law) {v : Nat} {r : Rec P} (hwf : (r.flat K v).WF v) (hty : r.Typed K v) {d : B} {p : Nat} {rest : B}
    (hat : At d p ((r.flat K v).encT v ++ rest)) :
    dec K v d p = .ok (r.refresh K, p + ((r.flat K v).encT v).length) ∧ At d (p + ((r.flat K v).encT v).length) rest := by
  refine ⟨?_, hat.right⟩
  have hat := hat.left
  obtain ⟨base, blocks⟩ := r
  obtain ⟨top, left, bottom, right, cis, sig, bm, opacity, clipping, flags, mask, ranges, name, tbs⟩ := base
  obtain ⟨hR, hty⟩ := hty
  simp only at hR hty
  subst hR
  obtain ⟨hvalid, hfits, hci, hm, hr, ht⟩ := hwf
  obtain ⟨f1, f2, f3, f4, f5, f6, f7, f8, f9, f10, f11, f12, f13⟩ := hfits
  obtain ⟨v1, v2, v3, v4⟩ := hvalid
  simp only [flat] at f1 f2 f3 f4 f5 f6 f7 f8 f9 f10 f11 f12 f13 v1 v2 v3 v4 hci hm hr ht hat
  have hl : ∀ s ∈ G.recordSignatures, s.length = 4 := by decide
  have hb : ∀ s ∈ G.blendModes, s.length = 4 := by decide
  have hs : pack4s sig = sig := pack4s_of_length (hl _ v1)
  have hbm : pack4s bm = bm := pack4s_of_length (hb _ v2)
  rw [LayerRecord.length_encT]
  simp only [LayerRecord.encT, LayerRecord.fixedT, List.append_assoc, hs, hbm] at hat
  obtain ⟨e1, hat⟩ := readI32_step hat f1
  obtain ⟨e2, hat⟩ := readI32_step hat f2
  obtain ⟨e3, hat⟩ := readI32_step hat f3
  obtain ⟨e4, hat⟩ := readI32_step hat f4
  obtain ⟨e5, hat⟩ := readU_step hat f5
  obtain ⟨e6, hat⟩ := readCount_step (ChannelInfo.dec v) (ChannelInfo.encT v) cis
    (fun c hc d p h => ChannelInfo.dec_at ⟨hci c hc, f6 c hc⟩ h) hat
  obtain ⟨e7, hat⟩ := readN_step hat (hl _ v1)
  obtain ⟨e8, hat⟩ := readN_step hat (hb _ v2)
  obtain ⟨e9, hat⟩ := readU_step hat f7
  obtain ⟨e10, hat⟩ := readU_step hat f8
  obtain ⟨e11, hat⟩ := readU_step hat flags.toNat_lt
  have e12 := readLenBlock_at hat f13 (by decide)
  obtain ⟨q, e13⟩ := extraDec_at hK (v := v)
    (r := ⟨⟨top, left, bottom, right, cis, sig, bm, opacity, clipping, flags, mask, ranges, name, []⟩, blocks⟩) hm f9 hr f11 ht hty
  simp only [flat] at e13
  simp only [dec, bind, Except.bind, e1, e2, e3, e4, e5, e6, e7, e8, e9, e10, e11, e12, e13, LayerFlags.ofNat_toNat]
  rw [if_pos ⟨v1, v2, v3, v4⟩]
  simp only [refresh, flat]
  congr 2
  omega

end Rec

/-! ## the typed layer info -/

namespace Info
variable {P : Type} {K : Kit P}

theorem refreshRecords_map_flat (K : Kit P) (v : Nat) : ∀ (recs : List (Rec P)) (css : List (List ChannelData)),
    refreshRecords (recs.map (Rec.flat K v)) css = (refreshRecsCI recs css).map (Rec.flat K v) := by
  intro recs
  induction recs with
  | nil => intro css; cases css <;> rfl
  | cons r recs ih =>
    intro css
    cases css with
    | nil => rfl
    | cons cs css =>
      simp only [List.map_cons, refreshRecords, refreshRecsCI, ih css]
      rfl

theorem refreshRecsCI_map_refresh (K : Kit P) : ∀ (recs : List (Rec P)) (css : List (List ChannelData)),
    refreshRecsCI (recs.map (Rec.refresh K)) css = (refreshRecsCI recs css).map (Rec.refresh K) := by
  intro recs
  induction recs with
  | nil => intro css; cases css <;> rfl
  | cons r recs ih =>
    intro css
    cases css with
    | nil => rfl
    | cons cs css =>
      simp only [List.map_cons, refreshRecsCI, ih css]
      rfl

theorem typed_of_mem_refreshRecsCI (K : Kit P) (v : Nat) : ∀ (recs : List (Rec P)) (css : List (List ChannelData)),
    (∀ r ∈ recs, r.Typed K v) → ∀ r ∈ refreshRecsCI recs css, r.Typed K v := by
  intro recs
  induction recs with
  | nil => intro css _ r hr; cases css <;> simp [refreshRecsCI] at hr
  | cons r0 recs ih =>
    intro css h r hr
    cases css with
    | nil => exact h r hr
    | cons cs css =>
      simp only [refreshRecsCI, List.mem_cons] at hr
      rcases hr with rfl | hr
      · exact h r0 (by simp)
      · exact ih css (fun x hx => h x (by simp [hx])) r hr

theorem map_flat_map_refresh (hK : K.Law) (v : Nat) (recs : List (Rec P)) :
    (recs.map (Rec.refresh K)).map (Rec.flat K v) = recs.map (Rec.flat K v) := by
  simp only [List.map_map]
  apply List.map_congr_left
  intro r _
  exact Rec.flat_refresh hK v r

theorem flat_deep (hK : K.Law) (v : Nat) (li : Info P) : (deep K li).flat K v = li.flat K v := by
  obtain ⟨n, rs, css⟩ := li
  cases rs with
  | none => rfl
  | some rs => simp only [deep, flat, Option.map_some, map_flat_map_refresh hK]

/-- the skeleton view of the object after `LayerInfoBlock.write` is the skeleton's object after `write` -/
theorem flat_blockRefresh (hK : K.Law) (v : Nat) (li : Info P) :
    (li.blockRefresh K).flat K v = Payload.blockRefresh (li.flat K v) := by
  obtain ⟨n, rs, css⟩ := li
  cases rs with
  | none => rfl
  | some rs =>
    cases rs with
    | nil => cases css with
      | none => rfl
      | some css => cases css <;> rfl
    | cons r rs =>
      cases css with
      | none => simp only [blockRefresh, deep, flat, Option.map_some, map_flat_map_refresh hK, Payload.blockRefresh, List.map_cons,
          Rec.flat_refresh hK]
      | some css =>
        cases css with
        | nil => simp only [blockRefresh, deep, flat, Option.map_some, map_flat_map_refresh hK, Payload.blockRefresh, List.map_cons,
            Rec.flat_refresh hK]
        | cons c cs =>
          have h1 := refreshRecsCI_map_refresh K (r :: rs) (c :: cs)
          have h2 := refreshRecords_map_flat K v (r :: rs) (c :: cs)
          simp only [List.map_cons] at h1 h2
          simp only [blockRefresh, deep, flat, Option.map_some, List.map_cons, Payload.blockRefresh, h1, h2,
            map_flat_map_refresh hK]

/-- the same for the main layer info -/
theorem flat_refresh (hK : K.Law) (v : Nat) (li : Info P) : (li.refresh K).flat K v = (li.flat K v).refresh := by
  by_cases h0 : li.layerCount = 0
  · have h0' : (li.flat K v).layerCount = 0 := h0
    simp only [refresh, LayerInfo.refresh, if_pos h0, if_pos h0']
  · have h0' : ¬ (li.flat K v).layerCount = 0 := h0
    have hb := flat_blockRefresh hK v li
    simp only [refresh, LayerInfo.refresh, if_neg h0, if_neg h0']
    exact hb

theorem blockRefresh_of_shapes (K : Kit P) (v : Nat) (n : Int) (recs : List (Rec P)) (css : List (List ChannelData))
    (h : shapesAgree (recs.map (Rec.flat K v)) css) :
    blockRefresh K ⟨n, some recs, some css⟩ = ⟨n, some ((refreshRecsCI recs css).map (Rec.refresh K)), some css⟩ := by
  cases recs with
  | nil => cases css with
    | nil => rfl
    | cons c cs => simp [shapesAgree] at h
  | cons r rs => cases css with
    | nil => simp [shapesAgree] at h
    | cons c cs =>
      have h1 := refreshRecsCI_map_refresh K (r :: rs) (c :: cs)
      simp only [List.map_cons] at h1
      simp only [blockRefresh, deep, Option.map_some, List.map_cons, h1]

theorem payloadFits_refreshRecsCI (K : Kit P) (v : Nat) : ∀ (recs : List (Rec P)) (css : List (List ChannelData)),
    (∀ r ∈ refreshRecsCI recs css, Rec.payloadFits K v r) ↔ ∀ r ∈ recs, Rec.payloadFits K v r := by
  intro recs
  induction recs with
  | nil => intro css; cases css <;> exact Iff.rfl
  | cons r recs ih =>
    intro css
    cases css with
    | nil => exact Iff.rfl
    | cons cs css =>
      simp only [refreshRecsCI, List.forall_mem_cons, ih css]
      exact Iff.rfl

theorem payloadFits_map_refresh (hK : K.Law) (v : Nat) (recs : List (Rec P)) :
    (∀ r ∈ recs.map (Rec.refresh K), Rec.payloadFits K v r) ↔ ∀ r ∈ recs, Rec.payloadFits K v r := by
  simp only [List.forall_mem_map, Rec.payloadFits, Rec.refresh, Blk.refresh, hK.fits_refresh]

/-- the payload widths of the nested blocks do not change when the object is refreshed -/
theorem payloadFits_blockRefresh (hK : K.Law) (v : Nat) (li : Info P) :
    (li.blockRefresh K).payloadFits K v ↔ li.payloadFits K v := by
  obtain ⟨n, rs, css⟩ := li
  cases rs with
  | none => exact Iff.rfl
  | some rs =>
    have hd : (deep K ⟨n, some rs, css⟩).records = some (rs.map (Rec.refresh K)) := rfl
    unfold blockRefresh
    rw [hd]
    cases rs with
    | nil => exact Iff.rfl
    | cons r rs =>
      cases css with
      | none => exact payloadFits_map_refresh hK v (r :: rs)
      | some css =>
        cases css with
        | nil => exact payloadFits_map_refresh hK v (r :: rs)
        | cons c cs =>
          simp only [List.map_cons, payloadFits, optAll]
          have h1 := payloadFits_refreshRecsCI K v ((r :: rs).map (Rec.refresh K)) (c :: cs)
          simp only [List.map_cons] at h1
          rw [h1]
          have h2 := payloadFits_map_refresh hK v (r :: rs)
          simp only [List.map_cons] at h2
          exact h2

theorem payloadFits_refresh (hK : K.Law) (v : Nat) (li : Info P) :
    (li.refresh K).payloadFits K v ↔ li.payloadFits K v := by
  by_cases h0 : li.layerCount = 0
  · simp only [refresh, if_pos h0]
  · have := payloadFits_blockRefresh hK v li
    simp only [refresh, if_neg h0]
    exact this

/-- `LayerInfo._read_body` with the typed record reader on what `LayerInfoBlock.write` (= `_write_body`) wrote, anywhere in
a stream: the object as the writers left it; the cursor stops where the body ends -/
theorem bodyDec_at (hK : K.Law) {v pad : Nat} {li : Info P} (hwf : LayerInfoBlock.WF v (li.flat K v)) (hty : li.Typed K v)
    (hf : LayerInfoBlock.Fits v (li.flat K v)) {d : B} {p : Nat} (hat : At d p (LayerInfoBlock.encT v pad (li.flat K v))) :
    bodyDec K v d p = .ok (li.blockRefresh K, p + LayerInfoBlock.bodyLen v (li.flat K v)) := by
  obtain ⟨n, rs, css⟩ := li
  unfold LayerInfoBlock.WF at hwf
  cases rs with
  | none => simp [flat] at hwf
  | some recs =>
    cases css with
    | none => simp [flat] at hwf
    | some css =>
      simp only [flat, Option.map_some] at hwf hf hat ⊢
      obtain ⟨hcount, hshape, hrecs, hch⟩ := hwf
      obtain ⟨g1, _, _⟩ := hf
      simp only at g1
      simp only [Typed, optAll] at hty
      have href := Payload.blockRefresh_of_shapes n (recs.map (Rec.flat K v)) css hshape
      rw [blockRefresh_of_shapes K v n recs css hshape]
      unfold LayerInfoBlock.encT LayerInfoBlock.bodyLen at *
      rw [href] at hat ⊢
      rw [refreshRecords_map_flat] at hat hrecs ⊢
      generalize hR : refreshRecsCI recs css = R at *
      have hRlen : R.length = n.natAbs := by
        have := length_refreshRecords (recs.map (Rec.flat K v)) css
        rw [refreshRecords_map_flat, hR] at this
        simp only [List.length_map] at this hcount
        omega
      have hRty : ∀ r ∈ R, r.Typed K v := by
        rw [← hR]; exact typed_of_mem_refreshRecsCI K v recs css hty
      have hun : LayerInfo.bodyUnpaddedT v ⟨n, some (R.map (Rec.flat K v)), some css⟩ =
          i16T n ++ (listT (fun r => (Rec.flat K v r).encT v) R ++ channelImageT css) := by
        simp only [LayerInfo.bodyUnpaddedT, optListT_listT, optListT_channelImageT, List.append_assoc, listT_map]
      simp only [LayerInfo.bodyT, hun, List.append_assoc] at hat
      obtain ⟨e2, hat⟩ := readI16_step hat g1
      have e3 := readCount_map_at (Rec.dec K v) (fun r => (Rec.flat K v r).encT v) (Rec.refresh K) R
        (fun r hr d p h => (Rec.dec_step hK (hrecs _ (List.mem_map_of_mem hr)) (hRty r hr) h.nil_right).1) hat.left
      have hat := hat.right
      rw [hRlen] at e3
      have e4 := channelImageDec_at (recs.map (Rec.flat K v)) css hshape hch hat.left
      rw [refreshRecords_map_flat, hR] at e4
      have hcong : channelImageDec ((R.map (Rec.refresh K)).map Rec.base) = channelImageDec (R.map (Rec.flat K v)) := by
        apply channelListDec_congr
        simp only [List.map_map]
        rfl
      simp only [bodyDec, bind, Except.bind, e2, e3, hcong, e4, hun, List.length_append, length_i16T]
      congr 2
      omega

end Info

/-! ## the kit of `Pay P` from the kit of `P` -/

section pay
variable {P : Type} {K : Kit P} (tb : Descriptor.Tables)

theorem payKit_law (hK : K.Law) : (payKit tb K).Law where
  rt := by
    intro version pad key x hwf hf
    cases x with
    | raw b =>
      simp only [payKit, Pay.WF] at hwf
      simp only [payKit, Pay.dec, hwf, Pay.encT, Pay.refresh]
    | cls c v =>
      simp only [payKit, Pay.WF] at hwf
      simp only [payKit, Pay.Fits] at hf
      have e := TClass.rt tb pad c v hwf.2 hf ((c.codec tb pad).encT v) 0 (At.self _) (by omega)
      rw [TClass.dec_pad] at e
      simp only [payKit, Pay.dec, hwf.1, Pay.encT, Pay.refresh, e]
    | info li =>
      simp only [payKit, Pay.WF] at hwf
      simp only [payKit, Pay.Fits] at hf
      have e := Info.bodyDec_at hK (pad := innerPad pad) hwf.2.1 hwf.2.2 hf.1 (At.self _)
      simp only [payKit, Pay.dec, hwf.1, Pay.encT, Pay.refresh, e]
  encT_refresh := by
    intro version pad x
    cases x with
    | raw b => rfl
    | cls c v => rfl
    | info li =>
      simp only [payKit, Pay.encT, Pay.refresh, Info.flat_blockRefresh hK, LayerInfoBlock.encT_refresh]
  fits_refresh := by
    intro version pad x
    cases x with
    | raw b => exact Iff.rfl
    | cls c v => exact Iff.rfl
    | info li =>
      simp only [payKit, Pay.Fits, Pay.refresh, Info.flat_blockRefresh hK, LayerInfoBlock.Fits_refresh]
      apply and_congr_right
      intro _
      exact Info.payloadFits_blockRefresh hK version li
  count := by
    intro version pad x
    cases x with
    | raw b => rfl
    | cls c v => exact TClass.count tb pad c v
    | info li => exact LayerInfoBlock.encP_eq version (innerPad pad) (li.flat K version)

end pay

/-! ## every level -/

theorem kitBelow_law (tb : Descriptor.Tables) : ∀ n, (kitBelow tb n).Law
  | 0 => emptyKit_law
  | n + 1 => payKit_law tb (kitBelow_law tb n)

theorem kitN_law (tb : Descriptor.Tables) (n : Nat) : (kitN tb n).Law := payKit_law tb (kitBelow_law tb n)

/-! ## the main layer info: `LayerInfo.read` (length prefix, count-0 shortcut) around the typed body reader -/

namespace Info
variable {P : Type} {K : Kit P}

theorem skeleton_refresh_of_count {li : LayerInfo} (h0 : ¬ li.layerCount = 0) : li.refresh = Payload.blockRefresh li := by
  unfold LayerInfo.refresh Payload.blockRefresh
  rw [if_neg h0]
  obtain ⟨n, rs, css⟩ := li
  rcases rs with _ | (_ | ⟨r, rs⟩) <;> rcases css with _ | (_ | ⟨c, cs⟩) <;> rfl

theorem refresh_of_count {li : Info P} (h0 : ¬ li.layerCount = 0) : li.refresh K = li.blockRefresh K := by
  unfold refresh blockRefresh
  rw [if_neg h0]

theorem blockRefresh_layerCount (li : Info P) : (li.blockRefresh K).layerCount = li.layerCount := by
  unfold blockRefresh; split <;> rfl

/-- `LayerInfo.read` with the typed record reader on what `LayerInfo.write` wrote -/
theorem dec_step (hK : K.Law) {v pad : Nat} {li : Info P} (hwf : (li.flat K v).WF v pad) (hty : li.Typed K v)
    {d : B} {p : Nat} {rest : B} (hat : At d p ((li.flat K v).encT v pad ++ rest)) :
    dec K v d p = .ok (li.refresh K, p + ((li.flat K v).encT v pad).length) ∧
      At d (p + ((li.flat K v).encT v pad).length) rest := by
  refine ⟨?_, hat.right⟩
  have hat := hat.left
  have hw := secW_pos v
  by_cases h0 : li.layerCount = 0
  · have h0' : (li.flat K v).layerCount = 0 := h0
    unfold LayerInfo.WF at hwf
    unfold LayerInfo.encT at hat ⊢
    simp only [h0', if_true] at hwf hat ⊢
    have hpos : (0 : Nat) < 256 ^ secW v := Nat.pow_pos (by decide)
    have e1 := readU_at hat hpos
    have hno : ¬ overflows (p + secW v) d :=
      not_overflows_of_le (by have := hat.bound; simp only [length_beBytes] at this; omega)
    obtain ⟨n, rs, css⟩ := li
    simp only [flat] at hwf
    simp only at h0
    subst h0
    obtain ⟨hr, hc⟩ := hwf
    cases rs with
    | some _ => simp at hr
    | none =>
      subst hc
      simp only [dec, bind, Except.bind, e1, if_true, refresh, length_beBytes, Nat.add_zero, Nat.le_refl, if_neg hno]
  · have h0' : ¬ (li.flat K v).layerCount = 0 := h0
    have hsk := skeleton_refresh_of_count h0'
    unfold LayerInfo.WF at hwf
    unfold LayerInfo.encT at hat ⊢
    simp only [if_neg h0'] at hwf hat ⊢
    rw [hsk] at hat ⊢
    have hbw : LayerInfoBlock.WF v (li.flat K v) ∧ LayerInfoBlock.Fits v (li.flat K v) ∧
        FitsU (secW v) ((Payload.blockRefresh (li.flat K v)).bodyT v pad).length := by
      generalize li.flat K v = s at hwf hsk ⊢
      obtain ⟨n, rs, css⟩ := s
      cases rs with
      | none => simp at hwf
      | some rs =>
        cases css with
        | none => simp at hwf
        | some css =>
          simp only at hwf
          obtain ⟨hcount, hshape, hrecs, hch, hfits⟩ := hwf
          rw [hsk] at hfits
          obtain ⟨g1, g2, g3, g4⟩ := hfits
          refine ⟨⟨hcount, hshape, hrecs, hch⟩, ⟨?_, g2, ?_⟩, g4⟩
          · simpa [Payload.blockRefresh_layerCount] using g1
          · simpa [Payload.blockRefresh_channels] using g3
    obtain ⟨hbwf, hbf, g4⟩ := hbw
    have hbody : (Payload.blockRefresh (li.flat K v)).bodyT v pad = LayerInfoBlock.encT v pad (li.flat K v) := rfl
    rw [hbody] at hat g4 ⊢
    generalize hB : LayerInfoBlock.encT v pad (li.flat K v) = body at *
    have hlen := LayerInfoBlock.length_encT v pad (li.flat K v)
    rw [hB] at hlen
    have hbl : 2 ≤ LayerInfoBlock.bodyLen v (li.flat K v) := by
      unfold LayerInfoBlock.bodyLen LayerInfo.bodyUnpaddedT
      simp only [List.length_append, length_i16T]; omega
    have hne : ¬ body.length = 0 := by omega
    unfold lenBlockT at hat
    simp only [zeros, List.replicate_zero, List.nil_append, List.append_assoc] at hat
    obtain ⟨e1, hat⟩ := readU_step hat g4
    have hat := hat.left
    have hno : ¬ overflows (p + secW v + body.length) d :=
      not_overflows_of_le (by have := hat.bound; omega)
    have e2 := bodyDec_at hK (pad := pad) hbwf hty hbf (hB ▸ hat)
    have hnc : normCount0 (li.blockRefresh K) = li.blockRefresh K := by
      unfold normCount0
      rw [if_neg (by rw [blockRefresh_layerCount]; exact h0)]
    have hle : p + secW v + LayerInfoBlock.bodyLen v (li.flat K v) ≤ p + secW v + body.length := by omega
    simp only [dec, bind, Except.bind, e1, if_neg hne, e2, hnc, if_pos hle, if_neg hno, refresh_of_count h0]
    simp only [length_lenBlockT, padAmount_one]
    congr 2
    omega

end Info

end PsdVerif.Typed
