/-
Lemmas for C18: the Integer, Bool and Property tokens. Core Lean only.
-/
import PsdVerif.Lemmas.EngineDataTokens

namespace PsdVerif.EngineData

/-! ### digits -/

theorem digitByte_toNat (d : Nat) (h : d < 10) : (digitByte d).toNat = 48 + d := by
  simp [digitByte, UInt8.toNat_ofNat']; omega

theorem isDigit_digitByte (d : Nat) (h : d < 10) : isDigit (digitByte d) = true := by
  simp [isDigit, digitByte_toNat d h]; omega

/-- Facts about a digit byte used to exclude the other token classes. -/
theorem digit_facts (b : UInt8) (h : isDigit b = true) :
    isDiv b = false ∧ b ≠ 0x28 ∧ b ≠ 0x2D ∧ b ≠ 0x2E ∧ b ≠ 0x5D ∧ b ≠ 0x5B ∧ b ≠ 0x74 ∧ b ≠ 0x66 ∧
    b ≠ 0x3E ∧ b ≠ 0x3C ∧ b ≠ 0x0A ∧ b ≠ 0x2F := by
  have hb : 48 ≤ b.toNat ∧ b.toNat ≤ 57 := by simpa [isDigit] using h
  refine ⟨?_, ?_, ?_, ?_, ?_, ?_, ?_, ?_, ?_, ?_, ?_, ?_⟩
  · cases hd : isDiv b with
    | false => rfl
    | true =>
      simp only [isDiv, Bool.or_eq_true, beq_iff_eq] at hd
      rcases hd with (rfl | rfl) | rfl <;> simp at hb
  all_goals (rintro rfl; simp at hb)

/-- Digits of `n`, most significant first (specification of `natDigits`). -/
def D (n : Nat) : BL := if n < 10 then [digitByte n] else D (n / 10) ++ [digitByte (n % 10)]
termination_by n
decreasing_by omega

theorem natDigitsAux_eq (f : Nat) : ∀ (n : Nat) (acc : BL), n < f → natDigitsAux f n acc = D n ++ acc := by
  induction f with
  | zero => intro n acc h; omega
  | succ f ih =>
    intro n acc h
    rw [D]
    by_cases h10 : n < 10
    · simp [natDigitsAux, h10]
    · simp only [natDigitsAux, h10, if_false]
      rw [ih (n / 10) _ (by omega)]
      simp

theorem natDigits_eq (n : Nat) : natDigits n = D n := by
  simp [natDigits, natDigitsAux_eq (n + 1) n [] (by omega)]

theorem D_digits (n : Nat) : ∀ b ∈ D n, isDigit b = true := by
  induction n using D.induct with
  | case1 n h => rw [D]; simp [h]; exact isDigit_digitByte n h
  | case2 n h ih =>
    rw [D]; simp only [h, if_false]
    intro b hb
    rcases List.mem_append.mp hb with hb | hb
    · exact ih b hb
    · simp at hb; subst hb; exact isDigit_digitByte _ (by omega)

theorem D_ne_nil (n : Nat) : D n ≠ [] := by
  rw [D]; split <;> simp

theorem parseNat_append (x : BL) (b : UInt8) : parseNat (x ++ [b]) = 10 * parseNat x + (b.toNat - 48) := by
  simp [parseNat, List.foldl_append]

theorem parseNat_D (n : Nat) : parseNat (D n) = n := by
  induction n using D.induct with
  | case1 n h => rw [D]; simp [h, parseNat, digitByte_toNat n h]
  | case2 n h ih =>
    rw [D]; simp only [h, if_false]
    rw [parseNat_append, ih, digitByte_toNat _ (by omega)]
    omega

theorem takeWhile_digits (l : BL) (h : ∀ b ∈ l, isDigit b = true) : l.takeWhile isDigit = l := by
  have := takeWhile_all isDigit l [] h (Or.inl rfl)
  simpa using this

theorem dropWhile_digits (l : BL) (h : ∀ b ∈ l, isDigit b = true) : l.dropWhile isDigit = [] := by
  have := dropWhile_all isDigit l [] h (Or.inl rfl)
  simpa using this

/-! ### Integer -/

theorem D_head (n : Nat) : ∃ a t, D n = a :: t ∧ isDigit a = true := by
  cases h : D n with
  | nil => exact absurd h (D_ne_nil n)
  | cons a t => exact ⟨a, t, rfl, D_digits n a (by simp [h])⟩

theorem writeInt_cases (i : Int) :
    (i < 0 ∧ writeInt i = 0x2D :: D i.natAbs) ∨ (0 ≤ i ∧ writeInt i = D i.natAbs) := by
  unfold writeInt
  by_cases h : i < 0
  · left; simp [h, natDigits_eq]
  · right; simp [h, natDigits_eq]; omega

theorem plain_digits_like (l : BL) (hne : l ≠ []) (h : ∀ b ∈ l, isDigit b = true ∨ b = 0x2D ∨ b = 0x2E) :
    Plain l := by
  refine ⟨hne, ?_, ?_⟩
  · intro b hb
    rcases h b hb with h | rfl | rfl
    · exact (digit_facts b h).1
    · decide
    · decide
  · cases l with
    | nil => exact absurd rfl hne
    | cons a t =>
      intro hh
      simp at hh
      subst hh
      rcases h 0x28 (by simp) with h | h | h
      · revert h; decide
      · revert h; decide
      · revert h; decide

theorem plain_writeInt (i : Int) : Plain (writeInt i) := by
  rcases writeInt_cases i with ⟨_, h⟩ | ⟨_, h⟩
  · rw [h]
    apply plain_digits_like _ (by simp)
    intro b hb
    simp at hb
    rcases hb with rfl | hb
    · right; left; rfl
    · left; exact D_digits _ b hb
  · rw [h]
    exact plain_digits_like _ (D_ne_nil _) (fun b hb => Or.inl (D_digits _ b hb))

/-- A token made of an optional minus sign and digits classifies as NUMBER. -/
theorem classify_number (t : BL) (hne : t ≠ []) (hd : ∀ b ∈ t, isDigit b = true) (neg : Bool) :
    classify ((if neg then [0x2D] else []) ++ t) = some .number := by
  cases t with
  | nil => exact absurd rfl hne
  | cons a r =>
    have ha := digit_facts a (hd a (by simp))
    obtain ⟨_, a1, a2, a3, a4, a5, a6, a7, a8, a9, a10, a11⟩ := ha
    have tw := takeWhile_digits (a :: r) hd
    have dw := dropWhile_digits (a :: r) hd
    cases neg with
    | false =>
      have om : optMinus (a :: r) = a :: r := by simp [optMinus, a2]
      simp [classify, reArrayEnd, reArrayStart, reBoolean, reDictEnd, reDictStart, reNoop, reNumber,
        stripPre, cTrue, cFalse, isEnd, a4, a5, a6, a7, a8, a9, a10, om, tw, dw, Ne.symm a6, Ne.symm a7,
        Ne.symm a8, Ne.symm a9]
    | true =>
      have om : optMinus (0x2D :: a :: r) = a :: r := by simp [optMinus]
      simp only [if_true, List.cons_append, List.nil_append]
      simp [classify, reArrayEnd, reArrayStart, reBoolean, reDictEnd, reDictStart, reNoop, reNumber,
        stripPre, cTrue, cFalse, isEnd, om, tw, dw]

theorem classify_writeInt (i : Int) : classify (writeInt i) = some .number := by
  rcases writeInt_cases i with ⟨_, h⟩ | ⟨_, h⟩
  · rw [h]; exact classify_number (D i.natAbs) (D_ne_nil _) (D_digits _) true
  · rw [h]; exact classify_number (D i.natAbs) (D_ne_nil _) (D_digits _) false

theorem intOfToken_writeInt (i : Int) : intOfToken (writeInt i) = i := by
  rcases writeInt_cases i with ⟨hi, h⟩ | ⟨hi, h⟩
  · rw [h]
    simp only [intOfToken, if_true]
    rw [takeWhile_digits _ (D_digits _), parseNat_D]
    omega
  · rw [h]
    obtain ⟨a, t, hat, had⟩ := D_head i.natAbs
    have a2 := (digit_facts a had).2.2.1
    have : intOfToken (D i.natAbs) = ((parseNat ((D i.natAbs).takeWhile isDigit) : Nat) : Int) := by
      rw [hat]; simp [intOfToken, a2]
    rw [this, takeWhile_digits _ (D_digits _), parseNat_D]
    omega

/-! ### Bool -/

theorem plain_bool (b : Bool) : Plain (if b then cTrue else cFalse) := by
  cases b <;> refine ⟨by decide, by decide, by decide⟩

theorem classify_bool (b : Bool) : classify (if b then cTrue else cFalse) = some .boolean := by
  cases b <;> decide

theorem value_bool (b : Bool) :
    valueOfToken .boolean (if b then cTrue else cFalse) = some (.ok (.bool b)) := by
  cases b <;> rfl

/-! ### Property (dictionary keys) -/

/-- Property names: non-empty, over `[A-Za-z0-9_]`. -/
def wfName (k : BL) : Bool := !k.isEmpty && k.all isWord

theorem word_facts (b : UInt8) (h : isWord b = true) :
    isDiv b = false ∧ b ≠ 0x2F ∧ b ≠ 0x28 := by
  have hb : (48 ≤ b.toNat ∧ b.toNat ≤ 57) ∨ (65 ≤ b.toNat ∧ b.toNat ≤ 90) ∨ (97 ≤ b.toNat ∧ b.toNat ≤ 122)
      ∨ b = 0x5F := by
    simp only [isWord, isAlnum, isDigit, isUpper, isLower, Bool.or_eq_true, Bool.and_eq_true,
      decide_eq_true_eq, beq_iff_eq] at h
    rcases h with ((h | h) | h) | h
    · exact Or.inl h
    · exact Or.inr (Or.inl h)
    · exact Or.inr (Or.inr (Or.inl h))
    · exact Or.inr (Or.inr (Or.inr h))
  refine ⟨?_, ?_, ?_⟩
  · cases hd : isDiv b with
    | false => rfl
    | true =>
      simp only [isDiv, Bool.or_eq_true, beq_iff_eq] at hd
      rcases hd with (rfl | rfl) | rfl <;> simp at hb
  all_goals (rintro rfl; simp at hb)

theorem plain_key (k : BL) (h : wfName k = true) : Plain (0x2F :: k) := by
  simp [wfName] at h
  refine ⟨by simp, ?_, by simp⟩
  intro b hb
  simp at hb
  rcases hb with rfl | hb
  · decide
  · exact (word_facts b (h.2 b hb)).1

theorem classify_key (k : BL) (h : wfName k = true) : classify (0x2F :: k) = some .property := by
  simp [wfName] at h
  obtain ⟨hne, hw⟩ := h
  have tw : k.takeWhile isWord = k := by
    have := takeWhile_all isWord k [] hw (Or.inl rfl); simpa using this
  have dw : k.dropWhile isWord = [] := by
    have := dropWhile_all isWord k [] hw (Or.inl rfl); simpa using this
  have hne' : k ≠ [] := by intro h; subst h; simp at hne
  simp [classify, reArrayEnd, reArrayStart, reBoolean, reDictEnd, reDictStart, reNoop, reNumber, reNumberDec,
    reProperty, stripPre, cTrue, cFalse, isEnd, optMinus, isDigit, tw, dw, hne']

theorem key_name (k : BL) (h : wfName k = true) : (0x2F :: k).filter (· != 0x2F) = k := by
  simp [wfName] at h
  have : ∀ b ∈ k, (b != 0x2F) = true := fun b hb => by
    simpa using (word_facts b (h.2 b hb)).2.1
  simp [List.filter_eq_self.mpr this]

end PsdVerif.EngineData
