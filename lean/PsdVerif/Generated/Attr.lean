-- REGENERATED from /repo by harness/extract.py on every run. Do not edit.
namespace PsdVerif.Generated.Attr

/-- `constants.BlendMode`: (member name, 4-byte key) in definition order -/
def blendModes : List (String × List UInt8) := [
  ("PASS_THROUGH", [112, 97, 115, 115]),
  ("NORMAL", [110, 111, 114, 109]),
  ("DISSOLVE", [100, 105, 115, 115]),
  ("DARKEN", [100, 97, 114, 107]),
  ("MULTIPLY", [109, 117, 108, 32]),
  ("COLOR_BURN", [105, 100, 105, 118]),
  ("LINEAR_BURN", [108, 98, 114, 110]),
  ("DARKER_COLOR", [100, 107, 67, 108]),
  ("LIGHTEN", [108, 105, 116, 101]),
  ("SCREEN", [115, 99, 114, 110]),
  ("COLOR_DODGE", [100, 105, 118, 32]),
  ("LINEAR_DODGE", [108, 100, 100, 103]),
  ("LIGHTER_COLOR", [108, 103, 67, 108]),
  ("OVERLAY", [111, 118, 101, 114]),
  ("SOFT_LIGHT", [115, 76, 105, 116]),
  ("HARD_LIGHT", [104, 76, 105, 116]),
  ("VIVID_LIGHT", [118, 76, 105, 116]),
  ("LINEAR_LIGHT", [108, 76, 105, 116]),
  ("PIN_LIGHT", [112, 76, 105, 116]),
  ("HARD_MIX", [104, 77, 105, 120]),
  ("DIFFERENCE", [100, 105, 102, 102]),
  ("EXCLUSION", [115, 109, 117, 100]),
  ("SUBTRACT", [102, 115, 117, 98]),
  ("DIVIDE", [102, 100, 105, 118]),
  ("HUE", [104, 117, 101, 32]),
  ("SATURATION", [115, 97, 116, 32]),
  ("COLOR", [99, 111, 108, 114]),
  ("LUMINOSITY", [108, 117, 109, 32])
]
def blendKeys : List (List UInt8) := blendModes.map (·.2)

/-- code points of the bytes 0x80..0xFF in Python's `mac_roman` codec -/
def macRomanHigh : List Nat := [196, 197, 199, 201, 209, 214, 220, 225, 224, 226, 228, 227, 229, 231, 233, 232, 234, 235, 237, 236, 238, 239, 241, 243, 242, 244, 246, 245, 250, 249, 251, 252, 8224, 176, 162, 163, 167, 8226, 182, 223, 174, 169, 8482, 180, 168, 8800, 198, 216, 8734, 177, 8804, 8805, 165, 181, 8706, 8721, 8719, 960, 8747, 170, 186, 937, 230, 248, 191, 161, 172, 8730, 402, 8776, 8710, 171, 187, 8230, 160, 192, 195, 213, 338, 339, 8211, 8212, 8220, 8221, 8216, 8217, 247, 9674, 255, 376, 8260, 8364, 8249, 8250, 64257, 64258, 8225, 183, 8218, 8222, 8240, 194, 202, 193, 203, 200, 205, 206, 207, 204, 211, 212, 63743, 210, 218, 219, 217, 305, 710, 732, 175, 728, 729, 730, 184, 733, 731, 711]

/-- `Tag.UNICODE_LAYER_NAME` -/
def tagLuni : List UInt8 := [108, 117, 110, 105]
/-- `Tag.SECTION_DIVIDER_SETTING` -/
def tagLsct : List UInt8 := [108, 115, 99, 116]
/-- `Tag.NESTED_SECTION_DIVIDER_SETTING` -/
def tagLsdk : List UInt8 := [108, 115, 100, 107]
/-- `Tag.PROTECTED_SETTING` -/
def tagLspf : List UInt8 := [108, 115, 112, 102]
def clippingBase : Nat := 0
def clippingNonBase : Nat := 1
def clippingValues : List Nat := [0, 1]
def dividerOpen : Nat := 1
def dividerClosed : Nat := 2
def dividerValues : List Nat := [0, 1, 2, 3]
/-- `ProtectedFlags` -/
def protectedFlags : List (String × Nat) := [("TRANSPARENCY", 1), ("COMPOSITE", 2), ("POSITION", 4), ("NESTING", 8), ("COMPLETE", 2147483648)]

/-- attrs fields of psd/layer_and_mask.py: where the default value comes from -/
def recordDefaults : List (String × String) := [
  ("ChannelData.compression", "immutable"),
  ("ChannelData.data", "immutable"),
  ("ChannelDataList._items", "factory"),
  ("ChannelImageData._items", "factory"),
  ("ChannelInfo.id", "immutable"),
  ("ChannelInfo.length", "immutable"),
  ("GlobalLayerMaskInfo.overlay_color", "immutable"),
  ("GlobalLayerMaskInfo.opacity", "immutable"),
  ("GlobalLayerMaskInfo.kind", "immutable"),
  ("LayerAndMaskInformation.layer_info", "immutable"),
  ("LayerAndMaskInformation.global_layer_mask_info", "immutable"),
  ("LayerAndMaskInformation.tagged_blocks", "immutable"),
  ("LayerBlendingRanges.composite_ranges", "factory"),
  ("LayerBlendingRanges.channel_ranges", "factory"),
  ("LayerFlags.transparency_protected", "immutable"),
  ("LayerFlags.visible", "immutable"),
  ("LayerFlags.obsolete", "immutable"),
  ("LayerFlags.photoshop_v5_later", "immutable"),
  ("LayerFlags.pixel_data_irrelevant", "immutable"),
  ("LayerFlags.undocumented_1", "immutable"),
  ("LayerFlags.undocumented_2", "immutable"),
  ("LayerFlags.undocumented_3", "immutable"),
  ("LayerInfo.layer_count", "immutable"),
  ("LayerInfo.layer_records", "immutable"),
  ("LayerInfo.channel_image_data", "immutable"),
  ("LayerInfoBlock.layer_count", "immutable"),
  ("LayerInfoBlock.layer_records", "immutable"),
  ("LayerInfoBlock.channel_image_data", "immutable"),
  ("LayerRecord.top", "immutable"),
  ("LayerRecord.left", "immutable"),
  ("LayerRecord.bottom", "immutable"),
  ("LayerRecord.right", "immutable"),
  ("LayerRecord.channel_info", "factory"),
  ("LayerRecord.signature", "immutable"),
  ("LayerRecord.blend_mode", "immutable"),
  ("LayerRecord.opacity", "immutable"),
  ("LayerRecord.clipping", "immutable"),
  ("LayerRecord.flags", "factory"),
  ("LayerRecord.mask_data", "immutable"),
  ("LayerRecord.blending_ranges", "factory"),
  ("LayerRecord.name", "immutable"),
  ("LayerRecord.tagged_blocks", "factory"),
  ("LayerRecords._items", "factory"),
  ("MaskData.top", "immutable"),
  ("MaskData.left", "immutable"),
  ("MaskData.bottom", "immutable"),
  ("MaskData.right", "immutable"),
  ("MaskData.background_color", "immutable"),
  ("MaskData.flags", "factory"),
  ("MaskData.parameters", "immutable"),
  ("MaskData.real_flags", "immutable"),
  ("MaskData.real_background_color", "immutable"),
  ("MaskData.real_top", "immutable"),
  ("MaskData.real_left", "immutable"),
  ("MaskData.real_bottom", "immutable"),
  ("MaskData.real_right", "immutable"),
  ("MaskFlags.pos_relative_to_layer", "immutable"),
  ("MaskFlags.mask_disabled", "immutable"),
  ("MaskFlags.invert_mask", "immutable"),
  ("MaskFlags.user_mask_from_render", "immutable"),
  ("MaskFlags.parameters_applied", "immutable"),
  ("MaskFlags.undocumented_1", "immutable"),
  ("MaskFlags.undocumented_2", "immutable"),
  ("MaskFlags.undocumented_3", "immutable"),
  ("MaskParameters.user_mask_density", "immutable"),
  ("MaskParameters.user_mask_feather", "immutable"),
  ("MaskParameters.vector_mask_density", "immutable"),
  ("MaskParameters.vector_mask_feather", "immutable")
]

end PsdVerif.Generated.Attr
