-- REGENERATED from /repo by harness/extract.py on every run. Do not edit.
namespace PsdVerif.Generated.Attr

/-- `constants.BlendMode`: (member name, 4-byte key) in definition order -/
def blendModes : List (String × List UInt8) := [
  ("PASS_THROUGH", [112, 97, 115, 115]),
  ("NORMAL", [110, 111, 114, 109]),
  ("DISSOLVE", [100, 105, 115, 115]),
  ("DARKEN", [100, 97, 114, 107]),
  ("MULTIPLY", [109, 117, 108, 32]),
  ("COLOR_BURN", [105, 100, 105, 118]),
  ("LINEAR_BURN", [108, 98, 114, 110]),
  ("DARKER_COLOR", [100, 107, 67, 108]),
  ("LIGHTEN", [108, 105, 116, 101]),
  ("SCREEN", [115, 99, 114, 110]),
  ("COLOR_DODGE", [100, 105, 118, 32]),
  ("LINEAR_DODGE", [108, 100, 100, 103]),
  ("LIGHTER_COLOR", [108, 103, 67, 108]),
  ("OVERLAY", [111, 118, 101, 114]),
  ("SOFT_LIGHT", [115, 76, 105, 116]),
  ("HARD_LIGHT", [104, 76, 105, 116]),
  ("VIVID_LIGHT", [118, 76, 105, 116]),
  ("LINEAR_LIGHT", [108, 76, 105, 116]),
  ("PIN_LIGHT", [112, 76, 105, 116]),
  ("HARD_MIX", [104, 77, 105, 120]),
  ("DIFFERENCE", [100, 105, 102, 102]),
  ("EXCLUSION", [115, 109, 117, 100]),
  ("SUBTRACT", [102, 115, 117, 98]),
  ("DIVIDE", [102, 100, 105, 118]),
  ("HUE", [104, 117, 101, 32]),
  ("SATURATION", [115, 97, 116, 32]),
  ("COLOR", [99, 111, 108, 114]),
  ("LUMINOSITY", [108, 117, 109, 32])
]
def blendKeys : List (List UInt8) := blendModes.map (·.2)

/-- code points of the bytes 0x80..0xFF in Python's `mac_roman` codec -/
def macRomanHigh : List Nat := [196, 197, 199, 201, 209, 214, 220, 225, 224, 226, 228, 227, 229, 231, 233, 232, 234, 235, 237, 236, 238, 239, 241, 243, 242, 244, 246, 245, 250, 249, 251, 252, 8224, 176, 162, 163, 167, 8226, 182, 223, 174, 169, 8482, 180, 168, 8800, 198, 216, 8734, 177, 8804, 8805, 165, 181, 8706, 8721, 8719, 960, 8747, 170, 186, 937, 230, 248, 191, 161, 172, 8730, 402, 8776, 8710, 171, 187, 8230, 160, 192, 195, 213, 338, 339, 8211, 8212, 8220, 8221, 8216, 8217, 247, 9674, 255, 376, 8260, 8364, 8249, 8250, 64257, 64258, 8225, 183, 8218, 8222, 8240, 194, 202, 193, 203, 200, 205, 206, 207, 204, 211, 212, 63743, 210, 218, 219, 217, 305, 710, 732, 175, 728, 729, 730, 184, 733, 731, 711]

/-- `Tag.UNICODE_LAYER_NAME` -/
def tagLuni : List UInt8 := [108, 117, 110, 105]
/-- `Tag.SECTION_DIVIDER_SETTING` -/
def tagLsct : List UInt8 := [108, 115, 99, 116]
/-- `Tag.NESTED_SECTION_DIVIDER_SETTING` -/
def tagLsdk : List UInt8 := [108, 115, 100, 107]
/-- `Tag.PROTECTED_SETTING` -/
def tagLspf : List UInt8 := [108, 115, 112, 102]
def clippingBase : Nat := 0
def clippingNonBase : Nat := 1
def clippingValues : List Nat := [0, 1]
def dividerOpen : Nat := 1
def dividerClosed : Nat := 2
def dividerValues : List Nat := [0, 1, 2, 3]
/-- `ProtectedFlags` -/
def protectedFlags : List (String × Nat) := [("TRANSPARENCY", 1), ("COMPOSITE", 2), ("POSITION", 4), ("NESTING", 8), ("COMPLETE", 2147483648)]

end PsdVerif.Generated.Attr
