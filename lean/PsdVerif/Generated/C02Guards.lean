-- REGENERATED from /repo by harness/extract.py on every run. Do not edit.
namespace PsdVerif.Generated.C02Guards
/-- (class, field tests that guard a READ of an optional part, field tests that guard a WRITE), atoms of the
`if`/`while`/conditional tests of the reader / writer methods that mention stored fields of the class only;
`X is (not) None` is `X`; `self.`/`cls.` dropped; source order, duplicates removed -/
def rows : List (String × List String × List String) := [
  ("adjustments.Curves", ["is_map", "version == 1"], ["is_map", "extra"]),
  ("adjustments.GradientMap", ["version == 3"], ["version == 3"]),
  ("adjustments.Levels", [], ["extra_version"]),
  ("adjustments.PhotoFilter", ["version == 3"], ["version == 3"]),
  ("color.Color", ["id == ColorSpaceID.LAB"], ["id == ColorSpaceID.LAB"]),
  ("effects_layer.OuterGlowInfo", ["version >= 2"], ["native_color"]),
  ("effects_layer.InnerGlowInfo", ["version >= 2"], ["version >= 2"]),
  ("effects_layer.BevelInfo", ["version >= 2"], ["version >= 2"]),
  ("filter_effects.FilterEffect", [], ["extra"]),
  ("filter_effects.FilterEffectExtra", [], ["is_written"]),
  ("image_resources.ImageResource", ["key in TYPES"], []),
  ("image_resources.Slices", ["version == 6"], []),
  ("image_resources.SliceV6", ["origin == 1"], ["associated_id", "origin == 1", "data"]),
  ("layer_and_mask.LayerAndMaskInformation", [], ["layer_info", "global_layer_mask_info", "tagged_blocks"]),
  ("layer_and_mask.LayerInfo", [], ["layer_count == 0", "layer_records", "channel_image_data"]),
  ("layer_and_mask.LayerBlendingRanges", [], ["composite_ranges", "channel_ranges"]),
  ("layer_and_mask.LayerRecord", [], ["mask_data"]),
  ("layer_and_mask.MaskData", ["flags.parameters_applied"], ["real_flags", "flags.parameters_applied", "parameters"]),
  ("layer_and_mask.MaskParameters", [], ["user_mask_density", "user_mask_feather", "vector_mask_density", "vector_mask_feather"]),
  ("layer_and_mask.GlobalLayerMaskInfo", [], ["overlay_color"]),
  ("linked_layer.LinkedLayer", ["open_file", "kind == LinkedLayerType.EXTERNAL", "version > 3", "version > 2", "kind == LinkedLayerType.ALIAS", "kind == LinkedLayerType.DATA", "version >= 5", "version >= 6", "version >= 7", "version == 2"], ["open_file", "kind == LinkedLayerType.EXTERNAL", "version > 3", "version > 2", "kind == LinkedLayerType.ALIAS", "kind == LinkedLayerType.DATA", "child_id", "mod_time", "lock_state", "version == 2"]),
  ("patterns.Pattern", ["image_mode == ColorMode.INDEXED"], ["color_table"]),
  ("patterns.VirtualMemoryArray", [], ["depth"]),
  ("tagged_blocks.MetadataSetting", ["key in (b'mdyn', b'sgrp')", "key in _KNOWN_KEYS"], []),
  ("tagged_blocks.SectionDividerSetting", ["signature"], ["blend_mode", "signature", "sub_type"]),
  ("tagged_blocks.TypeToolObjectSetting", ["b'EngineData' in text_data"], [])
]
end PsdVerif.Generated.C02Guards
