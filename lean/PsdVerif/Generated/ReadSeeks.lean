-- REGENERATED from /repo by harness/extract.py on every run. Do not edit.
namespace PsdVerif.Generated.ReadSeeks
/-- every `seek` / `truncate` of the reading functions of psd/*.py, utils.py, compression/*.py:
(module, function, call, "loop" when it lies inside a loop of its function else "straight") -/
def seeks : List (String × String × String × String) := [
  ("psd/image_resources.py", "SliceV6.read", "seek(-4, 1)", "straight"),
  ("psd/image_resources.py", "SliceV6.read", "seek(current_position)", "straight"),
  ("psd/layer_and_mask.py", "GlobalLayerMaskInfo.read", "seek(pos)", "straight"),
  ("psd/layer_and_mask.py", "LayerAndMaskInformation.read", "seek(end_pos, 0)", "straight"),
  ("psd/layer_and_mask.py", "LayerInfo.read", "seek(end_pos, 0)", "straight"),
  ("psd/tagged_blocks.py", "TaggedBlock.read", "seek(-4, 1)", "straight"),
  ("utils.py", "is_readable", "seek(-read_size, 1)", "straight"),
  ("utils.py", "read_fmt", "seek(-len(data), 1)", "straight")
]
end PsdVerif.Generated.ReadSeeks
