-- REGENERATED from /repo by harness/extract.py on every run. Do not edit.
namespace PsdVerif.Generated.Payload
/-- keys of `tagged_blocks.TYPES` registered for `LayerInfoBlock`, sorted -/
def layerInfoBlockKeys : List (List UInt8) := [[76, 114, 49, 54], [76, 114, 51, 50]]
def layerInfoBlockBases : List String := ["LayerInfo"]
/-- body of `LayerInfoBlock.read` -/
def layerInfoBlockRead : String := "return cls._read_body(fp, encoding, version)"
/-- body of `LayerInfoBlock.write` -/
def layerInfoBlockWrite : String := "return self._write_body(fp, encoding, version, padding)"
/-- `inner_padding = ...` in `TaggedBlock.write` -/
def taggedBlockInnerPadding : String := "1 if padding == 4 else 4"
/-- how `TaggedBlock.write` writes a payload object -/
def taggedBlockPayloadWrite : String := "self.data.write(f, padding=inner_padding, version=version)"
/-- how `TaggedBlock.read` reads a payload object -/
def taggedBlockPayloadRead : String := "kls.frombytes(raw_data, version=version)"
/-- the bodies `LayerInfoBlock` inherits: (class, method, statements; docstrings and logger calls dropped) -/
def layerInfoBodies : List (String × String × String) := [
  ("LayerInfo", "_read_body", "start_pos = fp.tell(); layer_count = read_fmt('h', fp)[0]; layer_records = LayerRecords.read(fp, layer_count, encoding, version); channel_image_data = ChannelImageData.read(fp, layer_records); return cls(layer_count, layer_records, channel_image_data)"),
  ("LayerInfo", "_write_body", "start_pos = fp.tell(); written = write_fmt(fp, 'h', self.layer_count); if self.layer_records: self._update_channel_length() written += self.layer_records.write(fp, encoding, version); if self.channel_image_data: written += self.channel_image_data.write(fp); written += write_padding(fp, written, padding); return written"),
  ("LayerInfo", "_update_channel_length", "if not self.layer_records or not self.channel_image_data: return; for layer, lengths in zip(self.layer_records, self.channel_image_data._lengths): for channel_info, length in zip(layer.channel_info, lengths): channel_info.length = length")
]
/-- members of `constants.SectionDivider` -/
def sectionDividerKinds : List Nat := [0, 1, 2, 3]
/-- members of `constants.SheetColorType` -/
def sheetColors : List Nat := [0, 1, 2, 3, 4, 5, 6, 7, 8, 9, 10, 11]
/-- `ColorSpaceID.LAB` -/
def colorSpaceLab : Nat := 7
/-- `MetadataSetting._KNOWN_SIGNATURES` -/
def metadataSignatures : List (List UInt8) := [[56, 66, 73, 77], [56, 69, 76, 69]]
/-- the keys whose data is one `I` (`if key in (...)` of `MetadataSetting.read`) -/
def metadataIntKeys : List (List UInt8) := [[109, 100, 121, 110], [115, 103, 114, 112]]
/-- `MetadataSetting._KNOWN_KEYS`, sorted -/
def metadataDescriptorKeys : List (List UInt8) := [[99, 109, 108, 115], [99, 117, 115, 116], [101, 120, 116, 110], [109, 108, 115, 116], [115, 103, 114, 112], [116, 109, 108, 110]]
/-- options of the validator of `Annotation.kind` -/
def annotationKinds : List (List UInt8) := [[116, 120, 116, 65], [115, 110, 100, 77]]
/-- options of the validator of `Annotation.marker` -/
def annotationMarkers : List (List UInt8) := [[116, 120, 116, 67], [115, 110, 100, 77]]
/-- the tests of the `if` statements of SectionDividerSetting.read / write -/
def sectionDividerConditions : List (String × String × String) := [
  ("SectionDividerSetting", "read", "is_readable(fp, 8); signature is not None and is_readable(fp, 4)"),
  ("SectionDividerSetting", "write", "self.signature and self.blend_mode; self.sub_type is not None")
]
/-- `EffectsLayer.EFFECT_TYPES`: (key, class name), in the order of the dict -/
def effectTypes : List (List UInt8 × String) := [([99, 109, 110, 83], "CommonStateInfo"), ([100, 115, 100, 119], "ShadowInfo"), ([105, 115, 100, 119], "ShadowInfo"), ([111, 103, 108, 119], "OuterGlowInfo"), ([105, 103, 108, 119], "InnerGlowInfo"), ([98, 101, 118, 108], "BevelInfo"), ([115, 111, 102, 105], "SolidFillInfo")]
/-- members of `constants.EffectOSType`, sorted -/
def effectKeys : List (List UInt8) := [[98, 101, 118, 108], [99, 109, 110, 83], [100, 115, 100, 119], [105, 103, 108, 119], [105, 115, 100, 119], [111, 103, 108, 119], [115, 111, 102, 105]]
/-- the tests of the `if` statements of read / write of the effect infos with a version-dependent trailer -/
def effectConditions : List (String × String × String) := [
  ("OuterGlowInfo", "read", "version >= 2"),
  ("OuterGlowInfo", "write", "self.native_color"),
  ("InnerGlowInfo", "read", "version >= 2"),
  ("InnerGlowInfo", "write", "self.version >= 2"),
  ("BevelInfo", "read", "version >= 2"),
  ("BevelInfo", "write", "self.version >= 2")
]
/-- `ColorMode.INDEXED` -/
def colorModeIndexed : Nat := 2
/-- the tests of the `if` statements of read / write of Pattern and VirtualMemoryArray -/
def patternConditions : List (String × String × String) := [
  ("Pattern", "read", "image_mode == ColorMode.INDEXED"),
  ("Pattern", "write", "self.color_table"),
  ("VirtualMemoryArray", "read", "is_written == 0; length == 0"),
  ("VirtualMemoryArray", "write", "self.is_written == 0; self.depth is None")
]
/-- members of `constants.LinkedLayerType`, sorted -/
def linkedLayerTypes : List (List UInt8) := [[108, 105, 70, 65], [108, 105, 70, 68], [108, 105, 70, 69]]
def linkedData : List UInt8 := [108, 105, 70, 68]
def linkedExternal : List UInt8 := [108, 105, 70, 69]
def linkedAlias : List UInt8 := [108, 105, 70, 65]
/-- `range_(min, max)` validator of `LinkedLayer.version` -/
def linkedVersionMin : Nat := 1
def linkedVersionMax : Nat := 7
/-- the tests of the `if` statements of `LinkedLayer.read` / `write`, in source order -/
def linkedConditions : List (String × String × String) := [
  ("LinkedLayer", "read", "open_file; kind == LinkedLayerType.EXTERNAL; version > 3; version > 2; kind == LinkedLayerType.ALIAS; kind == LinkedLayerType.DATA; version >= 5; version >= 6; version >= 7; kind == LinkedLayerType.EXTERNAL and version == 2"),
  ("LinkedLayer", "write", "self.open_file is not None; self.kind == LinkedLayerType.EXTERNAL; self.version > 3; self.version > 2; self.kind == LinkedLayerType.ALIAS; self.kind == LinkedLayerType.DATA; self.child_id is not None; self.mod_time is not None; self.lock_state is not None; self.kind == LinkedLayerType.EXTERNAL and self.version == 2")
]
/-- options of the validators of SmartObjectLayerData.kind / .version -/
def smartObjectKinds : List (List UInt8) := [[115, 111, 76, 68]]
def smartObjectVersions : List Nat := [4, 5]
/-- options of the validator of PlacedLayerData.version; members of PlacedLayerType -/
def placedVersions : List Nat := [3]
def placedLayerTypes : List Nat := [0, 1, 2, 3]
/-- options of the validators of TypeToolObjectSetting.text_version / .warp_version -/
def typeToolTextVersions : List Nat := [50]
def typeToolWarpVersions : List Nat := [1]
/-- unit2: `tagged_blocks.TYPES` restricted to the modelled classes: (key, class name), sorted -/
def unit2Registry : List (List UInt8 × String) := [
  ([65, 110, 110, 111], "Annotations"),
  ([70, 77, 115, 107], "FilterMask"),
  ([76, 77, 115, 107], "UserMask"),
  ([77, 116, 49, 54], "EmptyElement"),
  ([77, 116, 51, 50], "EmptyElement"),
  ([77, 116, 114, 110], "EmptyElement"),
  ([80, 120, 83, 68], "PixelSourceData2"),
  ([98, 114, 115, 116], "ChannelBlendingRestrictionsSetting"),
  ([99, 108, 98, 108], "ByteElement"),
  ([102, 102, 120, 105], "Bytes"),
  ([102, 120, 114, 112], "ReferencePoint"),
  ([105, 79, 112, 97], "ByteElement"),
  ([105, 110, 102, 120], "ByteElement"),
  ([107, 110, 107, 111], "ByteElement"),
  ([108, 99, 108, 114], "SheetColorSetting"),
  ([108, 109, 103, 109], "ByteElement"),
  ([108, 110, 115, 114], "Bytes"),
  ([108, 115, 99, 116], "SectionDividerSetting"),
  ([108, 115, 100, 107], "SectionDividerSetting"),
  ([108, 115, 112, 102], "ProtectedSetting"),
  ([108, 117, 110, 105], "StringElement"),
  ([108, 121, 105, 100], "IntegerElement"),
  ([108, 121, 118, 114], "IntegerElement"),
  ([110, 118, 114, 116], "EmptyElement"),
  ([112, 97, 116, 116], "EmptyElement"),
  ([112, 111, 115, 116], "ShortIntegerElement"),
  ([115, 104, 109, 100], "MetadataSettings"),
  ([115, 110, 50, 80], "IntegerElement"),
  ([116, 104, 114, 115], "ShortIntegerElement"),
  ([116, 115, 108, 121], "ByteElement"),
  ([118, 109, 103, 109], "ByteElement"),
  ([118, 111, 119, 118], "IntegerElement")
]
/-- unit3: `tagged_blocks.TYPES` restricted to the modelled classes: (key, class name), sorted -/
def unit3Registry : List (List UInt8 × String) := [
  ([108, 114, 70, 88], "EffectsLayer")
]
/-- unit4: `tagged_blocks.TYPES` restricted to the modelled classes: (key, class name), sorted -/
def unit4Registry : List (List UInt8 × String) := [
  ([80, 97, 116, 50], "Patterns"),
  ([80, 97, 116, 51], "Patterns"),
  ([80, 97, 116, 116], "Patterns")
]
/-- unit5: `tagged_blocks.TYPES` restricted to the modelled classes: (key, class name), sorted -/
def unit5Registry : List (List UInt8 × String) := [
  ([108, 110, 107, 50], "LinkedLayers"),
  ([108, 110, 107, 51], "LinkedLayers"),
  ([108, 110, 107, 68], "LinkedLayers"),
  ([108, 110, 107, 69], "LinkedLayers")
]
/-- unit6: `tagged_blocks.TYPES` restricted to the modelled classes: (key, class name), sorted -/
def unit6Registry : List (List UInt8 × String) := [
  ([80, 108, 76, 100], "PlacedLayerData"),
  ([83, 111, 76, 69], "SmartObjectLayerData"),
  ([83, 111, 76, 100], "SmartObjectLayerData"),
  ([84, 121, 83, 104], "TypeToolObjectSetting"),
  ([112, 108, 76, 100], "PlacedLayerData")
]
/-- unit1: calls of utils primitives (class, method, primitive, arguments), in source order -/
def unit1Calls : List (String × String × String × String) := [
  ("LayerInfoBlock", "read", "<none>", ""),
  ("LayerInfoBlock", "write", "<none>", ""),
  ("LayerInfo", "_read_body", "read_fmt", "'h', fp"),
  ("LayerInfo", "_write_body", "write_fmt", "fp, 'h', self.layer_count"),
  ("LayerInfo", "_write_body", "write_padding", "fp, written, padding"),
  ("LayerInfo", "_update_channel_length", "<none>", ""),
  ("TaggedBlock", "read", "read_fmt", "'4s', fp"),
  ("TaggedBlock", "read", "read_fmt", "'4s', fp"),
  ("TaggedBlock", "read", "read_length_block", "fp, fmt=fmt, padding=padding"),
  ("TaggedBlock", "write", "write_fmt", "fp, '4s4s', self.signature, key"),
  ("TaggedBlock", "write", "write_bytes", "f, self.data"),
  ("TaggedBlock", "write", "write_length_block", "fp, writer, fmt=fmt, padding=padding"),
  ("TaggedBlock", "_length_format", "<none>", "")
]
/-- unit2: calls of utils primitives (class, method, primitive, arguments), in source order -/
def unit2Calls : List (String × String × String × String) := [
  ("EmptyElement", "read", "<none>", ""),
  ("EmptyElement", "write", "<none>", ""),
  ("NumericElement", "read", "read_fmt", "'d', fp"),
  ("NumericElement", "write", "write_fmt", "fp, 'd', self.value"),
  ("IntegerElement", "read", "read_fmt", "'I', fp"),
  ("IntegerElement", "write", "write_fmt", "fp, 'I', self.value"),
  ("ShortIntegerElement", "read", "read_fmt", "'H2x', fp"),
  ("ShortIntegerElement", "read", "read_fmt", "'H', fp"),
  ("ShortIntegerElement", "write", "write_fmt", "fp, 'H2x', self.value"),
  ("ByteElement", "read", "read_fmt", "'B3x', fp"),
  ("ByteElement", "read", "read_fmt", "'B', fp"),
  ("ByteElement", "write", "write_fmt", "fp, 'B3x', self.value"),
  ("BooleanElement", "read", "read_fmt", "'?3x', fp"),
  ("BooleanElement", "read", "read_fmt", "'?', fp"),
  ("BooleanElement", "write", "write_fmt", "fp, '?3x', self.value"),
  ("StringElement", "read", "read_unicode_string", "fp, padding=padding"),
  ("StringElement", "write", "write_unicode_string", "fp, self.value, padding=padding"),
  ("Color", "read", "read_fmt", "'H', fp"),
  ("Color", "read", "read_fmt", "'4h', fp"),
  ("Color", "read", "read_fmt", "'4H', fp"),
  ("Color", "write", "write_fmt", "fp, 'H', id"),
  ("Color", "write", "write_fmt", "fp, '4h', *self.values"),
  ("Color", "write", "write_fmt", "fp, '4H', *self.values"),
  ("Bytes", "read", "<none>", ""),
  ("Bytes", "write", "write_bytes", "fp, self.value"),
  ("ProtectedSetting", "read", "<inherited>", ""),
  ("ProtectedSetting", "write", "<inherited>", ""),
  ("SheetColorSetting", "read", "read_fmt", "'H6x', fp"),
  ("SheetColorSetting", "write", "write_fmt", "fp, 'H6x', self.value.value"),
  ("ReferencePoint", "read", "read_fmt", "'2d', fp"),
  ("ReferencePoint", "write", "write_fmt", "fp, '2d', *self._items"),
  ("SectionDividerSetting", "read", "read_fmt", "'I', fp"),
  ("SectionDividerSetting", "read", "is_readable", "fp, 8"),
  ("SectionDividerSetting", "read", "read_fmt", "'4s', fp"),
  ("SectionDividerSetting", "read", "read_fmt", "'4s', fp"),
  ("SectionDividerSetting", "read", "is_readable", "fp, 4"),
  ("SectionDividerSetting", "read", "read_fmt", "'I', fp"),
  ("SectionDividerSetting", "write", "write_fmt", "fp, 'I', self.kind.value"),
  ("SectionDividerSetting", "write", "write_fmt", "fp, '4s4s', self.signature, self.blend_mode.value"),
  ("SectionDividerSetting", "write", "write_fmt", "fp, 'I', self.sub_type"),
  ("UserMask", "read", "read_fmt", "'HBx', fp"),
  ("UserMask", "write", "write_fmt", "fp, 'HBx', self.opacity, self.flag"),
  ("FilterMask", "read", "read_fmt", "'H', fp"),
  ("FilterMask", "write", "write_fmt", "fp, 'H', self.opacity"),
  ("ChannelBlendingRestrictionsSetting", "read", "is_readable", "fp, 4"),
  ("ChannelBlendingRestrictionsSetting", "read", "read_fmt", "'I', fp"),
  ("ChannelBlendingRestrictionsSetting", "write", "write_fmt", "fp, '%dI' % len(self), *self._items"),
  ("MetadataSettings", "read", "read_fmt", "'I', fp"),
  ("MetadataSettings", "write", "write_fmt", "fp, 'I', len(self)"),
  ("MetadataSetting", "read", "read_fmt", "'4s', fp"),
  ("MetadataSetting", "read", "read_fmt", "'4s?3x', fp"),
  ("MetadataSetting", "read", "read_length_block", "fp"),
  ("MetadataSetting", "read", "read_fmt", "'I', f"),
  ("MetadataSetting", "write", "write_fmt", "fp, '4s4s?3x', self.signature, self.key, self.copy_on_sheet"),
  ("MetadataSetting", "write", "write_fmt", "fp, 'I', self.data"),
  ("MetadataSetting", "write", "write_bytes", "f, self.data"),
  ("MetadataSetting", "write", "write_length_block", "fp, writer"),
  ("PixelSourceData2", "read", "is_readable", "fp, 8"),
  ("PixelSourceData2", "read", "read_length_block", "fp, fmt='Q'"),
  ("PixelSourceData2", "write", "write_length_block", "fp, lambda f, item=item: write_bytes(f, item), fmt='Q'"),
  ("PixelSourceData2", "write", "write_bytes", "f, item"),
  ("PixelSourceData2", "write", "write_padding", "fp, written, padding"),
  ("Annotations", "read", "read_fmt", "'2HI', fp"),
  ("Annotations", "read", "read_fmt", "'I', fp"),
  ("Annotations", "write", "write_fmt", "fp, '2HI', self.major_version, self.minor_version, len(self)"),
  ("Annotations", "write", "write_fmt", "fp, 'I', len(data) + 4"),
  ("Annotations", "write", "write_bytes", "fp, data"),
  ("Annotations", "write", "write_padding", "fp, written, 4"),
  ("Annotation", "read", "read_fmt", "'4s2BH', fp"),
  ("Annotation", "read", "read_fmt", "'4i', fp"),
  ("Annotation", "read", "read_fmt", "'4i', fp"),
  ("Annotation", "read", "read_pascal_string", "fp, 'macroman', padding=2"),
  ("Annotation", "read", "read_pascal_string", "fp, 'macroman', padding=2"),
  ("Annotation", "read", "read_pascal_string", "fp, 'macroman', padding=2"),
  ("Annotation", "read", "read_fmt", "'I4s', fp"),
  ("Annotation", "read", "read_length_block", "fp"),
  ("Annotation", "write", "write_fmt", "fp, '4s2BH', self.kind, self.is_open, self.flags, self.optional_blocks"),
  ("Annotation", "write", "write_fmt", "fp, '4i', *self.icon_location"),
  ("Annotation", "write", "write_fmt", "fp, '4i', *self.popup_location"),
  ("Annotation", "write", "write_pascal_string", "fp, self.author, 'macroman', padding=2"),
  ("Annotation", "write", "write_pascal_string", "fp, self.name, 'macroman', padding=2"),
  ("Annotation", "write", "write_pascal_string", "fp, self.mod_date, 'macroman', padding=2"),
  ("Annotation", "write", "write_fmt", "fp, 'I4s', len(self.data) + 12, self.marker"),
  ("Annotation", "write", "write_length_block", "fp, lambda f: write_bytes(f, self.data)"),
  ("Annotation", "write", "write_bytes", "f, self.data")
]
/-- unit3: calls of utils primitives (class, method, primitive, arguments), in source order -/
def unit3Calls : List (String × String × String × String) := [
  ("CommonStateInfo", "read", "read_fmt", "'IB2x', fp"),
  ("CommonStateInfo", "write", "write_fmt", "fp, 'IB2x', *attr.astuple(self)"),
  ("ShadowInfo", "read", "read_fmt", "'IIIiI', fp"),
  ("ShadowInfo", "read", "read_fmt", "'4s', fp"),
  ("ShadowInfo", "read", "read_fmt", "'4s', fp"),
  ("ShadowInfo", "read", "read_fmt", "'3B', fp"),
  ("ShadowInfo", "write", "write_fmt", "fp, 'IIIiI', self.version, self.blur, self.intensity, self.angle, self.distance"),
  ("ShadowInfo", "write", "write_fmt", "fp, '4s4s3B', b'8BIM', self.blend_mode.value, self.enabled, self.use_global_angle, self.opacity"),
  ("_GlowInfo", "_read_body", "read_fmt", "'III', fp"),
  ("_GlowInfo", "_read_body", "read_fmt", "'4s', fp"),
  ("_GlowInfo", "_read_body", "read_fmt", "'4s', fp"),
  ("_GlowInfo", "_read_body", "read_fmt", "'2B', fp"),
  ("_GlowInfo", "_write_body", "write_fmt", "fp, 'III', self.version, self.blur, self.intensity"),
  ("_GlowInfo", "_write_body", "write_fmt", "fp, '4s4s2B', b'8BIM', self.blend_mode.value, self.enabled, self.opacity"),
  ("OuterGlowInfo", "read", "<none>", ""),
  ("OuterGlowInfo", "write", "<none>", ""),
  ("InnerGlowInfo", "read", "read_fmt", "'B', fp"),
  ("InnerGlowInfo", "write", "write_fmt", "fp, 'B', self.invert"),
  ("BevelInfo", "read", "read_fmt", "'Ii2I', fp"),
  ("BevelInfo", "read", "read_fmt", "'4s4s', fp"),
  ("BevelInfo", "read", "read_fmt", "'4s4s', fp"),
  ("BevelInfo", "read", "read_fmt", "'3B', fp"),
  ("BevelInfo", "read", "read_fmt", "'3B', fp"),
  ("BevelInfo", "write", "write_fmt", "fp, 'Ii2I', self.version, self.angle, self.depth, self.blur"),
  ("BevelInfo", "write", "write_fmt", "fp, '4s4s4s4s', b'8BIM', self.highlight_blend_mode.value, b'8BIM', self.shadow_blend_mode.value"),
  ("BevelInfo", "write", "write_fmt", "fp, '6B', self.bevel_style, self.highlight_opacity, self.shadow_opacity, self.enabled, self.use_global_angle, self.direction"),
  ("SolidFillInfo", "read", "read_fmt", "'I', fp"),
  ("SolidFillInfo", "read", "read_fmt", "'4s4s', fp"),
  ("SolidFillInfo", "read", "read_fmt", "'2B', fp"),
  ("SolidFillInfo", "write", "write_fmt", "fp, 'I4s4s', self.version, b'8BIM', self.blend_mode.value"),
  ("SolidFillInfo", "write", "write_fmt", "fp, '2B', self.opacity, self.enabled"),
  ("EffectsLayer", "read", "read_fmt", "'2H', fp"),
  ("EffectsLayer", "read", "read_fmt", "'4s', fp"),
  ("EffectsLayer", "read", "read_fmt", "'4s', fp"),
  ("EffectsLayer", "read", "read_length_block", "fp"),
  ("EffectsLayer", "write", "write_fmt", "fp, '2H', self.version, len(self)"),
  ("EffectsLayer", "write", "write_fmt", "fp, '4s4s', b'8BIM', key.value"),
  ("EffectsLayer", "write", "write_length_block", "fp, self[key].write"),
  ("EffectsLayer", "write", "write_padding", "fp, written, 4")
]
/-- unit4: calls of utils primitives (class, method, primitive, arguments), in source order -/
def unit4Calls : List (String × String × String × String) := [
  ("Patterns", "read", "is_readable", "fp, 4"),
  ("Patterns", "read", "read_length_block", "fp, padding=4"),
  ("Patterns", "write", "write_length_block", "fp, item.write, padding=4"),
  ("Pattern", "read", "read_fmt", "'I', fp"),
  ("Pattern", "read", "read_fmt", "'I', fp"),
  ("Pattern", "read", "read_fmt", "'2h', fp"),
  ("Pattern", "read", "read_unicode_string", "fp"),
  ("Pattern", "read", "read_pascal_string", "fp, encoding='ascii', padding=1"),
  ("Pattern", "read", "read_fmt", "'3B', fp"),
  ("Pattern", "read", "read_fmt", "'4x', fp"),
  ("Pattern", "write", "write_fmt", "fp, '2I', self.version, self.image_mode.value"),
  ("Pattern", "write", "write_fmt", "fp, '2h', *self.point"),
  ("Pattern", "write", "write_unicode_string", "fp, self.name"),
  ("Pattern", "write", "write_pascal_string", "fp, self.pattern_id, encoding='ascii', padding=1"),
  ("Pattern", "write", "write_fmt", "fp, '3B', *row"),
  ("Pattern", "write", "write_fmt", "fp, '4x'"),
  ("VirtualMemoryArrayList", "read", "read_fmt", "'I', fp"),
  ("VirtualMemoryArrayList", "read", "read_length_block", "fp"),
  ("VirtualMemoryArrayList", "read", "read_fmt", "'4I', f"),
  ("VirtualMemoryArrayList", "read", "read_fmt", "'I', f"),
  ("VirtualMemoryArrayList", "write", "write_fmt", "fp, 'I', self.version"),
  ("VirtualMemoryArrayList", "write", "write_length_block", "fp, lambda f: self._write_body(f)"),
  ("VirtualMemoryArrayList", "_write_body", "write_fmt", "fp, '4I', *self.rectangle"),
  ("VirtualMemoryArrayList", "_write_body", "write_fmt", "fp, 'I', len(self.channels) - 2"),
  ("VirtualMemoryArray", "read", "read_fmt", "'I', fp"),
  ("VirtualMemoryArray", "read", "read_fmt", "'I', fp"),
  ("VirtualMemoryArray", "read", "read_fmt", "'I', fp"),
  ("VirtualMemoryArray", "read", "read_fmt", "'4I', fp"),
  ("VirtualMemoryArray", "read", "read_fmt", "'HB', fp"),
  ("VirtualMemoryArray", "write", "write_fmt", "fp, 'I', self.is_written"),
  ("VirtualMemoryArray", "write", "write_fmt", "fp, 'I', 0"),
  ("VirtualMemoryArray", "write", "write_length_block", "fp, lambda f: self._write_body(f)"),
  ("VirtualMemoryArray", "_write_body", "write_fmt", "fp, 'I', self.depth"),
  ("VirtualMemoryArray", "_write_body", "write_fmt", "fp, '4I', *self.rectangle"),
  ("VirtualMemoryArray", "_write_body", "write_fmt", "fp, 'HB', self.pixel_depth, self.compression.value"),
  ("VirtualMemoryArray", "_write_body", "write_bytes", "fp, self.data")
]
/-- unit5: calls of utils primitives (class, method, primitive, arguments), in source order -/
def unit5Calls : List (String × String × String × String) := [
  ("LinkedLayers", "read", "is_readable", "fp, 8"),
  ("LinkedLayers", "read", "read_length_block", "fp, fmt='Q', padding=4"),
  ("LinkedLayers", "write", "write_length_block", "fp, item.write, fmt='Q', padding=4"),
  ("LinkedLayer", "read", "read_fmt", "'4s', fp"),
  ("LinkedLayer", "read", "read_fmt", "'I', fp"),
  ("LinkedLayer", "read", "read_pascal_string", "fp, 'macroman', padding=1"),
  ("LinkedLayer", "read", "read_unicode_string", "fp"),
  ("LinkedLayer", "read", "read_fmt", "'4s4sQB', fp"),
  ("LinkedLayer", "read", "read_fmt", "'I4Bd', fp"),
  ("LinkedLayer", "read", "read_fmt", "'Q', fp"),
  ("LinkedLayer", "read", "read_fmt", "'8x', fp"),
  ("LinkedLayer", "read", "read_unicode_string", "fp"),
  ("LinkedLayer", "read", "read_fmt", "'d', fp"),
  ("LinkedLayer", "read", "read_fmt", "'B', fp"),
  ("LinkedLayer", "write", "write_fmt", "fp, '4sI', self.kind.value, self.version"),
  ("LinkedLayer", "write", "write_pascal_string", "fp, self.uuid, 'macroman', padding=1"),
  ("LinkedLayer", "write", "write_unicode_string", "fp, self.filename"),
  ("LinkedLayer", "write", "write_fmt", "fp, '4s4sQB', self.filetype, self.creator, len(self.data) if self.data is not None else 0, self.open_file is not None"),
  ("LinkedLayer", "write", "write_fmt", "fp, 'I4Bd', *self.timestamp"),
  ("LinkedLayer", "write", "write_fmt", "fp, 'Q', self.filesize"),
  ("LinkedLayer", "write", "write_bytes", "fp, self.data"),
  ("LinkedLayer", "write", "write_fmt", "fp, '8x'"),
  ("LinkedLayer", "write", "write_bytes", "fp, self.data"),
  ("LinkedLayer", "write", "write_unicode_string", "fp, self.child_id"),
  ("LinkedLayer", "write", "write_fmt", "fp, 'd', self.mod_time"),
  ("LinkedLayer", "write", "write_fmt", "fp, 'B', self.lock_state"),
  ("LinkedLayer", "write", "write_bytes", "fp, self.data"),
  ("LinkedLayer", "write", "write_padding", "fp, written, padding")
]
/-- unit6: calls of utils primitives (class, method, primitive, arguments), in source order -/
def unit6Calls : List (String × String × String × String) := [
  ("SmartObjectLayerData", "read", "read_fmt", "'4sI', fp"),
  ("SmartObjectLayerData", "write", "write_fmt", "fp, '4sI', self.kind, self.version"),
  ("SmartObjectLayerData", "write", "write_padding", "fp, written, padding"),
  ("PlacedLayerData", "read", "read_fmt", "'4sI', fp"),
  ("PlacedLayerData", "read", "read_pascal_string", "fp, 'macroman', padding=1"),
  ("PlacedLayerData", "read", "read_fmt", "'4I', fp"),
  ("PlacedLayerData", "read", "read_fmt", "'8d', fp"),
  ("PlacedLayerData", "write", "write_fmt", "fp, '4sI', self.kind, self.version"),
  ("PlacedLayerData", "write", "write_pascal_string", "fp, self.uuid, 'macroman', padding=1"),
  ("PlacedLayerData", "write", "write_fmt", "fp, '4I', self.page, self.total_pages, self.anti_alias, self.layer_type.value"),
  ("PlacedLayerData", "write", "write_fmt", "fp, '8d', *self.transform"),
  ("PlacedLayerData", "write", "write_padding", "fp, written, padding"),
  ("TypeToolObjectSetting", "read", "read_fmt", "'H', fp"),
  ("TypeToolObjectSetting", "read", "read_fmt", "'6d', fp"),
  ("TypeToolObjectSetting", "read", "read_fmt", "'H', fp"),
  ("TypeToolObjectSetting", "read", "read_fmt", "'H', fp"),
  ("TypeToolObjectSetting", "read", "read_fmt", "'4i', fp"),
  ("TypeToolObjectSetting", "write", "write_fmt", "fp, 'H6d', self.version, *self.transform"),
  ("TypeToolObjectSetting", "write", "write_fmt", "fp, 'H', self.text_version"),
  ("TypeToolObjectSetting", "write", "write_fmt", "fp, 'H', self.warp_version"),
  ("TypeToolObjectSetting", "write", "write_fmt", "fp, '4i', self.left, self.top, self.right, self.bottom"),
  ("TypeToolObjectSetting", "write", "write_padding", "fp, written, padding")
]
end PsdVerif.Generated.Payload
