-- REGENERATED from /repo by harness/extract.py on every run. Do not edit.
import PsdVerif.Model.Switches
namespace PsdVerif.Generated.Switches
open PsdVerif.Switches
/-- every place where src/psd_tools flips process-wide state that belongs to another module (stdlib, attrs, numpy, PIL ...) -/
def sites : List Site := [
  { site := "psd_tools.api:10", callee := "warnings.catch_warnings", atRuntime := true, restored := true },
  { site := "psd_tools.api:11", callee := "warnings.simplefilter", atRuntime := true, restored := true },
  { site := "psd_tools.composite:609", callee := "numpy.errstate", atRuntime := true, restored := true }
]
end PsdVerif.Generated.Switches
