-- REGENERATED from /repo by harness/extract.py on every run. Do not edit.

namespace PsdVerif.Generated.Reopen

/-- `PSD._get_layer_info`: keys of the `for key in (...)` loop; the data of the first one present is returned -/
def readerKeys : List String := ["LAYER_16", "LAYER_32"]
/-- … else its final `return` -/
def readerFallback : String := "self.layer_and_mask_information.layer_info"
/-- `PSD._get_layer_info`: every attribute chain rooted at `self` it reads (maximal ones, sorted) -/
def readerReads : List String := ["self.layer_and_mask_information.layer_info", "self.layer_and_mask_information.tagged_blocks"]
/-- `PSD._iter_layers`: the expression bound to `layer_info` -/
def iterSource : String := "self._get_layer_info()"
/-- `PSDImage._init`: what the record loop iterates over -/
def initSource : String := "self._record._iter_layers()"
/-- `PSDImage.save`: its first statement -/
def saveFirst : String := "self._update_record()"
/-- `_update_record`: guard of the early return (nothing is rebuilt), the call that rebuilds the lists -/
def rebuildGuard : String := "not self._updated_layers"
def rebuildCall : String := "_build_record_tree(self)"
/-- `_update_record`: `if not ….layer_info: ….layer_info = LayerInfo()` is present -/
def createsLayerInfo : Bool := true
/-- `_update_record`: the expression bound to `layer_info` before the rebuilt lists are stored … -/
def writerTarget : String := "self._record._get_layer_info()"
/-- … and the attributes of it that are assigned -/
def writerStores : List (String × String) := [("layer_records", "layer_records"), ("channel_image_data", "channel_image_data"), ("layer_count", "len(layer_records)")]
/-- writer and reader go through the same accessor (`_get_layer_info`) -/
def writerViaReader : Bool := true

/-- `_build_record_tree`: the loop, the classes of the `isinstance` test, the calls on `layer_records` and
on `channel_image_data` in source order (`group:` = inside the `isinstance` branch), the value returned -/
def loopOver : String := "for layer in layer_group"
def groupClasses : List String := ["Group", "Artboard"]
def recordSteps : List String := ["group:append(layer._bounding_record)", "group:recurse(layer)", "group:extend(tmp_layer_records)", "append(layer._record)"]
def channelSteps : List String := ["group:append(layer._bounding_channels)", "group:recurse(layer)", "group:extend(tmp_channel_image_data)", "append(layer._channels)"]
def returns : String := "(layer_records, channel_image_data)"

end PsdVerif.Generated.Reopen
