-- REGENERATED from /repo by harness/extract.py on every run. Do not edit.
namespace PsdVerif.Generated.C03Save
/-- every assignment to an attribute named `compression` inside a function of psd_tools (file:function:target) -/
def compressionStores : List String := ["psd/patterns.py:set_data:self.compression"]
/-- the `set_data` calls of `PSDImage.save` -/
def saveSetData : List String := ["self._record.image_data.set_data(planes, self._record.header)"]
/-- attribute / item assignments of `PSDImage.save` after that call -/
def saveStoresAfterSetData : List String := ["version_info.has_composite"]
end PsdVerif.Generated.C03Save
