-- REGENERATED from /repo by harness/extract.py on every run. Do not edit.
namespace PsdVerif.Generated.Strings

/-- (module, scope, primitive, encoding literal | "param" | "", padding literal | 0 = passed through) -/
def sites : List (String × String × String × String × Nat) := [
  ("psd/adjustments.py", "GradientMap.read", "read_unicode_string", "", 1),
  ("psd/adjustments.py", "GradientMap.write", "write_unicode_string", "", 1),
  ("psd/base.py", "StringElement.read", "read_unicode_string", "", 0),
  ("psd/base.py", "StringElement.write", "write_unicode_string", "", 0),
  ("psd/descriptor.py", "_DescriptorMixin._read_body", "read_unicode_string", "", 1),
  ("psd/descriptor.py", "_DescriptorMixin._write_body", "write_unicode_string", "", 1),
  ("psd/descriptor.py", "Property.read", "read_unicode_string", "", 1),
  ("psd/descriptor.py", "Property.write", "write_unicode_string", "", 1),
  ("psd/descriptor.py", "Class.read", "read_unicode_string", "", 1),
  ("psd/descriptor.py", "Class.write", "write_unicode_string", "", 1),
  ("psd/descriptor.py", "EnumeratedReference.read", "read_unicode_string", "", 1),
  ("psd/descriptor.py", "EnumeratedReference.write", "write_unicode_string", "", 1),
  ("psd/descriptor.py", "Offset.read", "read_unicode_string", "", 1),
  ("psd/descriptor.py", "Offset.write", "write_unicode_string", "", 1),
  ("psd/descriptor.py", "Name.read", "read_unicode_string", "", 1),
  ("psd/descriptor.py", "Name.read", "read_unicode_string", "", 1),
  ("psd/descriptor.py", "Name.write", "write_unicode_string", "", 1),
  ("psd/descriptor.py", "Name.write", "write_unicode_string", "", 1),
  ("psd/filter_effects.py", "FilterEffect.read", "read_pascal_string", "ascii", 1),
  ("psd/filter_effects.py", "FilterEffect.write", "write_pascal_string", "ascii", 1),
  ("psd/image_resources.py", "ImageResource.read", "read_pascal_string", "param", 2),
  ("psd/image_resources.py", "ImageResource.write", "write_pascal_string", "param", 2),
  ("psd/image_resources.py", "AlphaNamesPascal.read", "read_pascal_string", "mac-roman", 1),
  ("psd/image_resources.py", "AlphaNamesPascal.write", "write_pascal_string", "mac-roman", 1),
  ("psd/image_resources.py", "AlphaNamesUnicode.read", "read_unicode_string", "", 1),
  ("psd/image_resources.py", "AlphaNamesUnicode.write", "write_unicode_string", "", 1),
  ("psd/image_resources.py", "PascalString.read", "read_pascal_string", "mac-roman", 2),
  ("psd/image_resources.py", "PascalString.write", "write_pascal_string", "mac-roman", 1),
  ("psd/image_resources.py", "SlicesV6.read", "read_unicode_string", "", 1),
  ("psd/image_resources.py", "SlicesV6.write", "write_unicode_string", "", 1),
  ("psd/image_resources.py", "SliceV6.read", "read_unicode_string", "", 1),
  ("psd/image_resources.py", "SliceV6.read", "read_unicode_string", "", 1),
  ("psd/image_resources.py", "SliceV6.read", "read_unicode_string", "", 1),
  ("psd/image_resources.py", "SliceV6.read", "read_unicode_string", "", 1),
  ("psd/image_resources.py", "SliceV6.read", "read_unicode_string", "", 1),
  ("psd/image_resources.py", "SliceV6.read", "read_unicode_string", "", 1),
  ("psd/image_resources.py", "SliceV6.write", "write_unicode_string", "", 1),
  ("psd/image_resources.py", "SliceV6.write", "write_unicode_string", "", 1),
  ("psd/image_resources.py", "SliceV6.write", "write_unicode_string", "", 1),
  ("psd/image_resources.py", "SliceV6.write", "write_unicode_string", "", 1),
  ("psd/image_resources.py", "SliceV6.write", "write_unicode_string", "", 1),
  ("psd/image_resources.py", "SliceV6.write", "write_unicode_string", "", 1),
  ("psd/image_resources.py", "URLItem.read", "read_unicode_string", "", 1),
  ("psd/image_resources.py", "URLItem.write", "write_unicode_string", "", 1),
  ("psd/image_resources.py", "VersionInfo.read", "read_unicode_string", "", 1),
  ("psd/image_resources.py", "VersionInfo.read", "read_unicode_string", "", 1),
  ("psd/image_resources.py", "VersionInfo.write", "write_unicode_string", "", 1),
  ("psd/image_resources.py", "VersionInfo.write", "write_unicode_string", "", 1),
  ("psd/layer_and_mask.py", "LayerRecord._read_extra", "read_pascal_string", "param", 4),
  ("psd/layer_and_mask.py", "LayerRecord._write_extra", "write_pascal_string", "param", 4),
  ("psd/linked_layer.py", "LinkedLayer.read", "read_pascal_string", "mac-roman", 1),
  ("psd/linked_layer.py", "LinkedLayer.read", "read_unicode_string", "", 1),
  ("psd/linked_layer.py", "LinkedLayer.read", "read_unicode_string", "", 1),
  ("psd/linked_layer.py", "LinkedLayer.write", "write_pascal_string", "mac-roman", 1),
  ("psd/linked_layer.py", "LinkedLayer.write", "write_unicode_string", "", 1),
  ("psd/linked_layer.py", "LinkedLayer.write", "write_unicode_string", "", 1),
  ("psd/patterns.py", "Pattern.read", "read_unicode_string", "", 1),
  ("psd/patterns.py", "Pattern.read", "read_pascal_string", "ascii", 1),
  ("psd/patterns.py", "Pattern.write", "write_unicode_string", "", 1),
  ("psd/patterns.py", "Pattern.write", "write_pascal_string", "ascii", 1),
  ("psd/tagged_blocks.py", "Annotation.read", "read_pascal_string", "mac-roman", 2),
  ("psd/tagged_blocks.py", "Annotation.read", "read_pascal_string", "mac-roman", 2),
  ("psd/tagged_blocks.py", "Annotation.read", "read_pascal_string", "mac-roman", 2),
  ("psd/tagged_blocks.py", "Annotation.write", "write_pascal_string", "mac-roman", 2),
  ("psd/tagged_blocks.py", "Annotation.write", "write_pascal_string", "mac-roman", 2),
  ("psd/tagged_blocks.py", "Annotation.write", "write_pascal_string", "mac-roman", 2),
  ("psd/tagged_blocks.py", "PlacedLayerData.read", "read_pascal_string", "mac-roman", 1),
  ("psd/tagged_blocks.py", "PlacedLayerData.write", "write_pascal_string", "mac-roman", 1)
]

/-- `Layer.name` setter: encoding tested, fallback string, exclusive bound on len(value) -/
def nameTestEncoding : String := "mac-roman"
def nameFallback : List Nat := [63]
def nameBound : Nat := 256
/-- `LayerRecord._legacy_name`: fallback strings returned and integer constants (empty when the method is absent) -/
def legacyFallbacks : List (List Nat) := [[63]]
def legacyBounds : List Nat := [255]
/-- utils.py: (primitive, 'encode' | 'decode', the arguments of that codec call, parameters the body rebinds) -/
def primitiveCodecs : List (String × String × List String × List String) := [
  ("read_pascal_string", "decode", ["encoding"], []),
  ("write_pascal_string", "encode", ["encoding"], []),
  ("read_unicode_string", "decode", ["'utf-16-be'", "'surrogatepass'"], []),
  ("write_unicode_string", "encode", ["'utf-16-be'", "'surrogatepass'"], [])
]
/-- what each reader call site does with the string read -/
def readerUses : List (String × String × String × String) := [
  ("psd/adjustments.py", "GradientMap.read", "read_unicode_string", "assign"),
  ("psd/base.py", "StringElement.read", "read_unicode_string", "argument"),
  ("psd/descriptor.py", "_DescriptorMixin._read_body", "read_unicode_string", "assign"),
  ("psd/descriptor.py", "Property.read", "read_unicode_string", "assign"),
  ("psd/descriptor.py", "Class.read", "read_unicode_string", "assign"),
  ("psd/descriptor.py", "EnumeratedReference.read", "read_unicode_string", "assign"),
  ("psd/descriptor.py", "Offset.read", "read_unicode_string", "assign"),
  ("psd/descriptor.py", "Name.read", "read_unicode_string", "assign"),
  ("psd/descriptor.py", "Name.read", "read_unicode_string", "assign"),
  ("psd/filter_effects.py", "FilterEffect.read", "read_pascal_string", "assign"),
  ("psd/image_resources.py", "ImageResource.read", "read_pascal_string", "assign"),
  ("psd/image_resources.py", "SlicesV6.read", "read_unicode_string", "assign"),
  ("psd/image_resources.py", "SliceV6.read", "read_unicode_string", "assign"),
  ("psd/image_resources.py", "SliceV6.read", "read_unicode_string", "assign"),
  ("psd/image_resources.py", "SliceV6.read", "read_unicode_string", "assign"),
  ("psd/image_resources.py", "SliceV6.read", "read_unicode_string", "assign"),
  ("psd/image_resources.py", "SliceV6.read", "read_unicode_string", "assign"),
  ("psd/image_resources.py", "SliceV6.read", "read_unicode_string", "assign"),
  ("psd/image_resources.py", "URLItem.read", "read_unicode_string", "assign"),
  ("psd/image_resources.py", "VersionInfo.read", "read_unicode_string", "assign"),
  ("psd/image_resources.py", "VersionInfo.read", "read_unicode_string", "assign"),
  ("psd/image_resources.py", "PascalString.read", "read_pascal_string", "argument"),
  ("psd/image_resources.py", "AlphaNamesPascal.read", "read_pascal_string", "argument"),
  ("psd/image_resources.py", "AlphaNamesUnicode.read", "read_unicode_string", "argument"),
  ("psd/layer_and_mask.py", "LayerRecord._read_extra", "read_pascal_string", "assign"),
  ("psd/linked_layer.py", "LinkedLayer.read", "read_pascal_string", "assign"),
  ("psd/linked_layer.py", "LinkedLayer.read", "read_unicode_string", "assign"),
  ("psd/linked_layer.py", "LinkedLayer.read", "read_unicode_string", "assign"),
  ("psd/patterns.py", "Pattern.read", "read_unicode_string", "assign"),
  ("psd/patterns.py", "Pattern.read", "read_pascal_string", "assign"),
  ("psd/tagged_blocks.py", "Annotation.read", "read_pascal_string", "assign"),
  ("psd/tagged_blocks.py", "Annotation.read", "read_pascal_string", "assign"),
  ("psd/tagged_blocks.py", "Annotation.read", "read_pascal_string", "assign"),
  ("psd/tagged_blocks.py", "PlacedLayerData.read", "read_pascal_string", "assign")
]
/-- per element class: codecs named by its reader call sites, in order, and by its writer call sites -/
def codecPairs : List (String × List String × List String) := [
  ("psd/adjustments.py:GradientMap.*", ["utf-16"], ["utf-16"]),
  ("psd/base.py:StringElement.*", ["utf-16"], ["utf-16"]),
  ("psd/descriptor.py:_DescriptorMixin._*_body", ["utf-16"], ["utf-16"]),
  ("psd/descriptor.py:Property.*", ["utf-16"], ["utf-16"]),
  ("psd/descriptor.py:Class.*", ["utf-16"], ["utf-16"]),
  ("psd/descriptor.py:EnumeratedReference.*", ["utf-16"], ["utf-16"]),
  ("psd/descriptor.py:Offset.*", ["utf-16"], ["utf-16"]),
  ("psd/descriptor.py:Name.*", ["utf-16", "utf-16"], ["utf-16", "utf-16"]),
  ("psd/filter_effects.py:FilterEffect.*", ["ascii"], ["ascii"]),
  ("psd/image_resources.py:ImageResource.*", ["param"], ["param"]),
  ("psd/image_resources.py:AlphaNamesPascal.*", ["mac-roman"], ["mac-roman"]),
  ("psd/image_resources.py:AlphaNamesUnicode.*", ["utf-16"], ["utf-16"]),
  ("psd/image_resources.py:PascalString.*", ["mac-roman"], ["mac-roman"]),
  ("psd/image_resources.py:SlicesV6.*", ["utf-16"], ["utf-16"]),
  ("psd/image_resources.py:SliceV6.*", ["utf-16", "utf-16", "utf-16", "utf-16", "utf-16", "utf-16"], ["utf-16", "utf-16", "utf-16", "utf-16", "utf-16", "utf-16"]),
  ("psd/image_resources.py:URLItem.*", ["utf-16"], ["utf-16"]),
  ("psd/image_resources.py:VersionInfo.*", ["utf-16", "utf-16"], ["utf-16", "utf-16"]),
  ("psd/layer_and_mask.py:LayerRecord._*_extra", ["param"], ["param"]),
  ("psd/linked_layer.py:LinkedLayer.*", ["mac-roman", "utf-16", "utf-16"], ["mac-roman", "utf-16", "utf-16"]),
  ("psd/patterns.py:Pattern.*", ["utf-16", "ascii"], ["utf-16", "ascii"]),
  ("psd/tagged_blocks.py:Annotation.*", ["mac-roman", "mac-roman", "mac-roman"], ["mac-roman", "mac-roman", "mac-roman"]),
  ("psd/tagged_blocks.py:PlacedLayerData.*", ["mac-roman"], ["mac-roman"])
]
/-- API functions that store a caller-supplied layer name: (scope, parameter, how the unicode block is stored, guard) -/
def nameEntryPoints : List (String × String × String × String) := [
  ("Layer.name", "value", "set_data", "always"),
  ("Group.new", "name", "set_data", "always"),
  ("PixelLayer.frompil", "layer_name", "setter", "always")
]

/-- `bytes([i]).decode('mac_roman')` for i in 0..255 (0x110000 = undefined) -/
def macRomanTable : List Nat := [0, 1, 2, 3, 4, 5, 6, 7, 8, 9, 10, 11, 12, 13, 14, 15, 16, 17, 18, 19, 20, 21, 22, 23, 24, 25, 26, 27, 28, 29, 30, 31, 32, 33, 34, 35, 36, 37, 38, 39, 40, 41, 42, 43, 44, 45, 46, 47, 48, 49, 50, 51, 52, 53, 54, 55, 56, 57, 58, 59, 60, 61, 62, 63, 64, 65, 66, 67, 68, 69, 70, 71, 72, 73, 74, 75, 76, 77, 78, 79, 80, 81, 82, 83, 84, 85, 86, 87, 88, 89, 90, 91, 92, 93, 94, 95, 96, 97, 98, 99, 100, 101, 102, 103, 104, 105, 106, 107, 108, 109, 110, 111, 112, 113, 114, 115, 116, 117, 118, 119, 120, 121, 122, 123, 124, 125, 126, 127, 196, 197, 199, 201, 209, 214, 220, 225, 224, 226, 228, 227, 229, 231, 233, 232, 234, 235, 237, 236, 238, 239, 241, 243, 242, 244, 246, 245, 250, 249, 251, 252, 8224, 176, 162, 163, 167, 8226, 182, 223, 174, 169, 8482, 180, 168, 8800, 198, 216, 8734, 177, 8804, 8805, 165, 181, 8706, 8721, 8719, 960, 8747, 170, 186, 937, 230, 248, 191, 161, 172, 8730, 402, 8776, 8710, 171, 187, 8230, 160, 192, 195, 213, 338, 339, 8211, 8212, 8220, 8221, 8216, 8217, 247, 9674, 255, 376, 8260, 8364, 8249, 8250, 64257, 64258, 8225, 183, 8218, 8222, 8240, 194, 202, 193, 203, 200, 205, 206, 207, 204, 211, 212, 63743, 210, 218, 219, 217, 305, 710, 732, 175, 728, 729, 730, 184, 733, 731, 711]
/-- `bytes([i]).decode('mac_cyrillic')` for i in 0..255 (0x110000 = undefined) -/
def macCyrillicTable : List Nat := [0, 1, 2, 3, 4, 5, 6, 7, 8, 9, 10, 11, 12, 13, 14, 15, 16, 17, 18, 19, 20, 21, 22, 23, 24, 25, 26, 27, 28, 29, 30, 31, 32, 33, 34, 35, 36, 37, 38, 39, 40, 41, 42, 43, 44, 45, 46, 47, 48, 49, 50, 51, 52, 53, 54, 55, 56, 57, 58, 59, 60, 61, 62, 63, 64, 65, 66, 67, 68, 69, 70, 71, 72, 73, 74, 75, 76, 77, 78, 79, 80, 81, 82, 83, 84, 85, 86, 87, 88, 89, 90, 91, 92, 93, 94, 95, 96, 97, 98, 99, 100, 101, 102, 103, 104, 105, 106, 107, 108, 109, 110, 111, 112, 113, 114, 115, 116, 117, 118, 119, 120, 121, 122, 123, 124, 125, 126, 127, 1040, 1041, 1042, 1043, 1044, 1045, 1046, 1047, 1048, 1049, 1050, 1051, 1052, 1053, 1054, 1055, 1056, 1057, 1058, 1059, 1060, 1061, 1062, 1063, 1064, 1065, 1066, 1067, 1068, 1069, 1070, 1071, 8224, 176, 1168, 163, 167, 8226, 182, 1030, 174, 169, 8482, 1026, 1106, 8800, 1027, 1107, 8734, 177, 8804, 8805, 1110, 181, 1169, 1032, 1028, 1108, 1031, 1111, 1033, 1113, 1034, 1114, 1112, 1029, 172, 8730, 402, 8776, 8710, 171, 187, 8230, 160, 1035, 1115, 1036, 1116, 1109, 8211, 8212, 8220, 8221, 8216, 8217, 247, 8222, 1038, 1118, 1039, 1119, 8470, 1025, 1105, 1103, 1072, 1073, 1074, 1075, 1076, 1077, 1078, 1079, 1080, 1081, 1082, 1083, 1084, 1085, 1086, 1087, 1088, 1089, 1090, 1091, 1092, 1093, 1094, 1095, 1096, 1097, 1098, 1099, 1100, 1101, 1102, 8364]

end PsdVerif.Generated.Strings
