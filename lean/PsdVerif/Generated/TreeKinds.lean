-- REGENERATED from /repo by harness/extract.py on every run. Do not edit.
import PsdVerif.Model.TreeParse

namespace PsdVerif.Generated.TreeKinds
open PsdVerif.Tree

/-- `PSDImage._init`: the if/elif dispatch chain, the registry `api.adjustments.TYPES` in
    registration order, the shape condition and override, the default class. -/
def tables : KindTables where
  chain := [
    .test "TypeLayer" "type" ["TYPE_TOOL_OBJECT_SETTING", "TYPE_TOOL_INFO"],
    .test "SmartObjectLayer" "smartobject" ["SMART_OBJECT_LAYER_DATA1", "SMART_OBJECT_LAYER_DATA2", "PLACED_LAYER1", "PLACED_LAYER2"],
    .registry]
  registry := [
    ⟨"SOLID_COLOR_SHEET_SETTING", "solidcolorfill", true⟩,
    ⟨"PATTERN_FILL_SETTING", "patternfill", true⟩,
    ⟨"GRADIENT_FILL_SETTING", "gradientfill", true⟩,
    ⟨"CONTENT_GENERATOR_EXTRA_DATA", "brightnesscontrast", false⟩,
    ⟨"CURVES", "curves", false⟩,
    ⟨"EXPOSURE", "exposure", false⟩,
    ⟨"LEVELS", "levels", false⟩,
    ⟨"VIBRANCE", "vibrance", false⟩,
    ⟨"HUE_SATURATION", "huesaturation", false⟩,
    ⟨"COLOR_BALANCE", "colorbalance", false⟩,
    ⟨"BLACK_AND_WHITE", "blackandwhite", false⟩,
    ⟨"PHOTO_FILTER", "photofilter", false⟩,
    ⟨"CHANNEL_MIXER", "channelmixer", false⟩,
    ⟨"COLOR_LOOKUP", "colorlookup", false⟩,
    ⟨"INVERT", "invert", false⟩,
    ⟨"POSTERIZE", "posterize", false⟩,
    ⟨"THRESHOLD", "threshold", false⟩,
    ⟨"SELECTIVE_COLOR", "selectivecolor", false⟩,
    ⟨"GRADIENT_MAP", "gradientmap", false⟩]
  shapeKeys := ["VECTOR_ORIGINATION_DATA", "VECTOR_MASK_SETTING1", "VECTOR_MASK_SETTING2", "VECTOR_STROKE_DATA", "VECTOR_STROKE_CONTENT_DATA"]
  overrideNone := true   -- classes: type(None), FillLayer
  overrideFill := true
  shapeKind := "shape"
  defaultKind := "pixel"

/-- keys consulted for the section divider, later ones override earlier ones -/
def dividerKeys : List String := ["SECTION_DIVIDER_SETTING", "NESTED_SECTION_DIVIDER_SETTING"]
/-- divider kinds for which the record is treated as an ordinary layer -/
def ignoredKinds : List String := ["OTHER"]
/-- divider kinds that push a new group on the stack -/
def pushKinds : List String := ["BOUNDING_SECTION_DIVIDER"]
/-- divider kinds that pop the stack and finish the group -/
def popKinds : List String := ["OPEN_FOLDER", "CLOSED_FOLDER"]
/-- keys whose presence on the group record re-types the group as an artboard -/
def artboardKeys : List String := ["ARTBOARD_DATA1", "ARTBOARD_DATA2", "ARTBOARD_DATA3"]
/-- members of `constants.SectionDivider` with their values -/
def sectionDivider : List (String × Nat) := [("OTHER", 0), ("OPEN_FOLDER", 1), ("CLOSED_FOLDER", 2), ("BOUNDING_SECTION_DIVIDER", 3)]
/-- the record list is iterated in file order (`reversed(...)` absent) -/
def iteratesReversed : Bool := false
/-- the expression the record loop of `_init` iterates over -/
def loopSource : String := "self._record._iter_layers()"

/-- the dispatch closure: the body of the record loop of `_init` and every function / method of psd_image.py it
    calls (transitively): the functions followed, … -/
def dispatchFunctions : List String := []
/-- … the `<record>.flags.<name>` attributes it reads, … -/
def dispatchFlags : List String := ["pixel_data_irrelevant"]
/-- … the `Tag.<X>` names it consults (sorted), … -/
def dispatchTags : List String := ["ARTBOARD_DATA1", "ARTBOARD_DATA2", "ARTBOARD_DATA3", "NESTED_SECTION_DIVIDER_SETTING", "PLACED_LAYER1", "PLACED_LAYER2", "SECTION_DIVIDER_SETTING", "SMART_OBJECT_LAYER_DATA1", "SMART_OBJECT_LAYER_DATA2", "TYPE_TOOL_INFO", "TYPE_TOOL_OBJECT_SETTING", "VECTOR_MASK_SETTING1", "VECTOR_MASK_SETTING2", "VECTOR_ORIGINATION_DATA", "VECTOR_STROKE_CONTENT_DATA", "VECTOR_STROKE_DATA"]
/-- … and the module-level / class-level mutable containers, `global` names and memoising decorators it touches:
    anything here can make the kind of a record depend on records seen before -/
def dispatchState : List String := []

/-- the (record, channel list) pairs: every `self.<slot> = <expr>` of api/layers.py / api/psd_image.py for the slots
    `_record`, `_channels`, `_bounding_record`, `_bounding_channels`: (function, slot, expression) -/
def pairStores : List (String × String × String) := [("Layer.__init__", "_record", "record"),
  ("Layer.__init__", "_channels", "channels"),
  ("Group.__init__", "_bounding_record", "None"),
  ("Group.__init__", "_bounding_channels", "None"),
  ("Group._set_bounding_records", "_bounding_record", "_bounding_record"),
  ("Group._set_bounding_records", "_bounding_channels", "_bounding_channels"),
  ("PixelLayer._convert", "_channels", "new_layer._channels"),
  ("PSDImage.__init__", "_record", "data")]
/-- every call of `_set_bounding_records`: (calling function, arguments) -/
def pairCalls : List (String × String) := [("Group.new", "_bounding_record, _bounding_channels"),
  ("Artboard._move", "group._bounding_record, group._bounding_channels"),
  ("PSDImage._init", "record, channels")]
/-- the `append`s of `_build_record_tree` in source order: (list, expression) -/
def flattenAppends : List (String × String) := [("layer_records", "layer._bounding_record"),
  ("channel_image_data", "layer._bounding_channels"),
  ("layer_records", "layer._record"),
  ("channel_image_data", "layer._channels")]

end PsdVerif.Generated.TreeKinds
