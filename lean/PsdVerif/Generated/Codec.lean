-- REGENERATED from /repo by harness/extract.py on every run. Do not edit.
namespace PsdVerif.Generated.Codec
/-- `FileHeader._FORMAT` -/
def headerFormat : String := "4sH6xHIIHH"
/-- default (= only accepted) `FileHeader.signature` -/
def headerSignature : List UInt8 := [56, 66, 80, 83]
def headerVersions : List Nat := [1, 2]
def channelsMin : Nat := 1
def channelsMax : Nat := 56
def heightMin : Nat := 1
def heightMax : Nat := 300000
def widthMin : Nat := 1
def widthMax : Nat := 300000
def headerDepths : List Nat := [1, 8, 16, 32]
/-- `ColorMode` values -/
def colorModes : List Nat := [0, 1, 2, 3, 4, 7, 8, 9]
/-- signatures accepted by `ImageResource` -/
def resourceSignatures : List (List UInt8) := [[56, 66, 73, 77], [65, 103, 72, 103], [68, 67, 83, 82], [77, 101, 83, 97], [80, 72, 85, 84]]
/-- signatures accepted by `LayerRecord` -/
def recordSignatures : List (List UInt8) := [[56, 66, 73, 77]]
/-- `BlendMode` values -/
def blendModes : List (List UInt8) := [[99, 111, 108, 114], [100, 97, 114, 107], [100, 105, 102, 102], [100, 105, 115, 115], [100, 105, 118, 32], [100, 107, 67, 108], [102, 100, 105, 118], [102, 115, 117, 98], [104, 76, 105, 116], [104, 77, 105, 120], [104, 117, 101, 32], [105, 100, 105, 118], [108, 76, 105, 116], [108, 98, 114, 110], [108, 100, 100, 103], [108, 103, 67, 108], [108, 105, 116, 101], [108, 117, 109, 32], [109, 117, 108, 32], [110, 111, 114, 109], [111, 118, 101, 114], [112, 76, 105, 116], [112, 97, 115, 115], [115, 76, 105, 116], [115, 97, 116, 32], [115, 99, 114, 110], [115, 109, 117, 100], [118, 76, 105, 116]]
def opacityMin : Nat := 0
def opacityMax : Nat := 255
/-- `Clipping` values -/
def clippings : List Nat := [0, 1]
/-- `ChannelID` values -/
def channelIds : List Int := [(-3), (-2), (-1), (0), (1), (2), (3), (4), (5), (6), (7), (8), (9)]
/-- `Compression` values accepted by `ChannelData` / `ImageData` -/
def compressions : List Nat := [0, 1, 2, 3]
def imageCompressions : List Nat := [0, 1, 2, 3]
/-- `GlobalLayerMaskKind` values and the attribute defaults of `GlobalLayerMaskInfo` -/
def glmKinds : List Nat := [0, 1, 128]
def glmDefaultOpacity : Nat := 0
def glmDefaultKind : Nat := 128
/-- `TaggedBlock._SIGNATURES` -/
def blockSignatures : List (List UInt8) := [[56, 66, 54, 52], [56, 66, 73, 77]]
/-- `TaggedBlock._BIG_KEYS` (keys whose length field is 8 bytes in a PSB), sorted -/
def bigKeys : List (List UInt8) := [[65, 108, 112, 104], [70, 69, 76, 83], [70, 69, 105, 100], [70, 77, 115, 107], [70, 88, 105, 100], [76, 77, 115, 107], [76, 97, 121, 114], [76, 114, 49, 54], [76, 114, 51, 50], [77, 116, 49, 54], [77, 116, 51, 50], [77, 116, 114, 110], [80, 120, 83, 68], [97, 114, 116, 100], [99, 105, 110, 102], [101, 120, 116, 100], [101, 120, 116, 110], [108, 110, 107, 50], [108, 110, 107, 51], [108, 110, 107, 69], [112, 116, 104, 115]]
end PsdVerif.Generated.Codec
