-- REGENERATED from /repo by harness/extract.py on every run. Do not edit.
namespace PsdVerif.Generated.Pixels
/-- `numpy_io.EXPECTED_CHANNELS` -/
def expectedChannels : List (String × Nat) := [("BITMAP", 1), ("GRAYSCALE", 1), ("RGB", 3), ("CMYK", 4)]
/-- `ColorMode.channels(mode)` -/
def colorModeChannels : List (String × Nat) := [("BITMAP", 1), ("GRAYSCALE", 1), ("RGB", 3), ("CMYK", 4)]
/-- `ColorMode.channels(mode, True)` -/
def colorModeChannelsAlpha : List (String × Nat) := [("BITMAP", 2), ("GRAYSCALE", 2), ("RGB", 4), ("CMYK", 5)]
/-- `pil_io.get_pil_channels(mode)` -/
def pilChannels : List (String × Nat) := [("1", 1), ("L", 1), ("LA", 3), ("RGB", 3), ("RGBA", 3), ("CMYK", 4)]
/-- `pil_io.get_pil_depth(mode)` -/
def pilDepth : List (String × Nat) := [("1", 8), ("L", 8), ("LA", 8), ("RGB", 8), ("RGBA", 8), ("CMYK", 8)]
/-- `pil_io.get_pil_mode(color_mode, alpha)` -/
def pilMode : List (String × Bool × String) := [("BITMAP", false, "1"), ("BITMAP", true, "1"), ("GRAYSCALE", false, "L"), ("GRAYSCALE", true, "LA"), ("RGB", false, "RGB"), ("RGB", true, "RGBA"), ("CMYK", false, "CMYK"), ("CMYK", true, "CMYK")]
/-- `pil_io.get_color_mode(mode).name` -/
def colorModeOf : List (String × String) := [("1", "BITMAP"), ("L", "GRAYSCALE"), ("LA", "GRAYSCALE"), ("RGB", "RGB"), ("RGBA", "RGB"), ("CMYK", "CMYK")]
end PsdVerif.Generated.Pixels
