-- REGENERATED from /repo by harness/extract.py on every run. Do not edit.

namespace PsdVerif.Generated.MergedPixels

/-! `PSDImage._merged_planes` -/

/-- the dict `scale` -/
def scaleTable : List (Nat × Option Nat) := [(8, some 255), (16, some 65535), (32, none)]
/-- test of the first `return None` (depths / modes that are not regenerated) … -/
def guard : String := "header.depth not in scale or self.color_mode not in (ColorMode.GRAYSCALE, ColorMode.RGB, ColorMode.CMYK)"
/-- … the colour modes it names … -/
def supportedModes : List String := ["GRAYSCALE", "RGB", "CMYK"]
/-- … and the tests of ALL the `return None` of the function -/
def noneReturns : List String := ["header.depth not in scale or self.color_mode not in (ColorMode.GRAYSCALE, ColorMode.RGB, ColorMode.CMYK)"]
/-- the nested `plane(values)`, statement by statement -/
def planeBody : List String := ["if header.depth == 32: { return values.astype('>f4').tobytes() }", "values = np.round(np.clip(values, 0.0, 1.0) * scale[header.depth])", "return values.astype('>u%d' % (header.depth // 8)).tobytes()"]
/-- the call into the compositor and the names its result is bound to -/
def compositeCall : String := "composite(self, force=True)"
def compositeTargets : List String := ["color", "_", "alpha"]
/-- `n`, `transparency` -/
def nExpr : String := "EXPECTED_CHANNELS[self.color_mode]"
def transparencyExpr : String := "header.channels > n and has_transparency(self)"
/-- flattening on white: guard and statement -/
def flattenGuard : String := "not transparency or self.color_mode == ColorMode.RGB"
def flattenStmt : String := "color = color * alpha + (1.0 - alpha)"
/-- the planes that are there, or their replacement -/
def oldPlanes : String := "try: { planes = self._record.image_data.get_data(header) } except Exception: { planes = [plane(np.ones_like(alpha))] * header.channels }"
/-- the colour planes, the transparency plane, the value returned -/
def colourLoop : String := "for index in range(n): { planes[index] = plane(color[:, :, index]) }"
def alphaStore : String := "index = get_transparency_index(self) % header.channels; planes[max(index, n)] = plane(alpha[:, :, 0])"
def returns : String := "planes"
/-- every `constant - x` of the function (a colour inversion would be one) -/
def constMinus : List String := ["1.0 - alpha"]
/-- heads of the top-level statements -/
def topLevel : List String := ["header = self._record.header", "scale = {8: 255, 16: 65535, 32: None}", "if header.depth not in scale or self.color_mode not in (ColorMode.GRAYSCALE, ColorMode.RGB, ColorMode.CMYK):", "def plane(values: np.ndarray) -> bytes:", "color, _, alpha = composite(self, force=True)", "n = EXPECTED_CHANNELS[self.color_mode]", "transparency = header.channels > n and has_transparency(self)", "if not transparency or self.color_mode == ColorMode.RGB:", "try:", "for index in range(n):", "if transparency:", "return planes"]

/-! `PSDImage.save`, `PSDImage.viewbox` -/

def saveGuard : String := "self._updated_layers"
def saveSteps : List String := ["planes = self._merged_planes()", "if planes is not None: { self._record.image_data.set_data(planes, self._record.header); version_info = self.image_resources.get_data(Resource.VERSION_INFO); if version_info: { version_info.has_composite = True } }"]
/-- does `save` assign `_updated_layers` -/
def saveAssignsFlag : Bool := false
def viewbox : String := "(self.left, self.top, self.right, self.bottom)"
/-- the properties it is made of, for a `PSDImage` -/
def boxParts : List (String × String) := [("left", "0"), ("top", "0"), ("right", "self.width"), ("bottom", "self.height"), ("width", "self._record.header.width"), ("height", "self._record.header.height")]

/-! `psd_tools.composite.composite` -/

def compositeDefaults : List (String × String) := [("color", "1.0"), ("alpha", "0.0"), ("viewport", "None"), ("layer_filter", "None"), ("force", "False"), ("as_layer", "False")]
def viewportDefault : String := "viewport = group.viewbox"
def emptyDocument : String := "if isinstance(group, PSDImage) and len(group) == 0: { color, shape = (group.numpy('color'), group.numpy('shape')); if viewport != group.viewbox: { color = paste(viewport, group.bbox, color, 1.0); shape = paste(viewport, group.bbox, shape) }; return (color, shape, shape) }"
def filterDefault : String := "layer_filter or Layer.is_visible"
def isolated : String := "False; if not isinstance(group, PSDImage): { isolated = group.blend_mode != BlendMode.PASS_THROUGH }"
def compositorCall : String := "Compositor(viewport, color, alpha, isolated, layer_filter, force)"
def compositeLoop : String := "for layer in target_group: { compositor.apply(layer) }"
def compositeReturns : String := "compositor.finish()"

end PsdVerif.Generated.MergedPixels
