-- REGENERATED from /repo by harness/extract.py on every run. Do not edit.
namespace PsdVerif.Generated.ClipCompositor

/-- tests of the early returns of `Compositor.apply`, in order -/
def applySkips : List String := ["self._layer_filter is not None and (not self._layer_filter(layer))", "isinstance(layer, AdjustmentLayer)", "_intersect(self._viewport, self._bbox(layer)) == (0, 0, 0, 0)", "not clip_compositing and layer.clipping_layer and layer._has_clip_target"]
/-- what `_apply_clip_layers` iterates over -/
def clipIter : String := "layer.clip_layers"
/-- how it composites each element (anything else in the loop body is listed by its statement kind) -/
def clipCalls : List String := ["compositor.apply(clip_layer, clip_compositing=True)"]
/-- callers of `_apply_clip_layers` with the test they sit under -/
def clipCallers : List String := ["_get_group: if layer.has_clip_layers()", "_get_object: if layer.has_clip_layers()"]
/-- `_bbox`: when the cached box of the layer is used -/
def bboxCachedWhen : String := "not isinstance(layer, GroupMixin) or isinstance(layer, Artboard) or self._layer_filter is None or (self._layer_filter is Layer.is_visible) -> return layer.bbox"
/-- `_bbox`: what the union ranges over, per comprehension / loop -/
def bboxIter : List String := ["layer", "boxes"]
/-- `_bbox`: every condition a child must meet to be counted, per comprehension / loop -/
def bboxChildTests : List String := ["self._layer_filter(child)", "box != (0, 0, 0, 0)"]

end PsdVerif.Generated.ClipCompositor
