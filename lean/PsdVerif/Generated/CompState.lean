-- REGENERATED from /repo by harness/extract.py on every run. Do not edit.
namespace PsdVerif.Generated.CompState

/-- stores in the read path of the compositor that outlive the call (file:function: what) -/
def stores : List String := ["api/numpy_io.py:_remove_background: store color[a > 0]",
  "api/numpy_io.py:_remove_background: store data[:, :, :3]",
  "composite/blend.py:_clip_color: store C[C < 0.0]",
  "composite/blend.py:_clip_color: store C[C > 1]",
  "composite/blend.py:_clip_color: store C[index]",
  "composite/blend.py:_clip_color: store C[index]"]
/-- what each `return` of `composite.paste` hands back -/
def pasteReturns : List String := ["local view",
  "local view"]

end PsdVerif.Generated.CompState
