-- REGENERATED from /repo by harness/extract.py on every run. Do not edit.
namespace PsdVerif.Generated.Rle
/-- `MAX_LEN` in compression/rle.py -/
def maxLenPy : Nat := 127
/-- `MAX_LEN` in compression/_rle.pyx (unsigned char) -/
def maxLenPyx : Nat := 127
/-- The statement of compression/__init__.py that binds `rle_impl`, from the AST: number of such
statements, modules the `try` body imports as `rle_impl`, exception classes caught, modules the handler
imports as `rle_impl`, statements of body / handler that are not that import, `else`/`finally` statements,
and the names the handler READS that no earlier module-level statement (nor the handler itself, nor
builtins) binds - a NameError in exactly the configuration in which the fallback runs. -/
def selStatements : Nat := 1
def selTryImports : List String := ["_rle"]
def selCatches : List String := ["ImportError"]
def selHandlerImports : List String := ["rle"]
def selOtherStatements : Nat := 0
def selUnboundInHandler : List String := []
/-- everything in rle.py through which one call could influence a later one (`global` declarations,
module-level mutable objects read by a function, memoising decorators, mutable defaults) -/
def rleModuleState : List String := []
end PsdVerif.Generated.Rle
