-- REGENERATED from /repo by harness/extract.py on every run. Do not edit.
namespace PsdVerif.Generated.Rle
/-- `MAX_LEN` in compression/rle.py -/
def maxLenPy : Nat := 127
/-- `MAX_LEN` in compression/_rle.pyx (unsigned char) -/
def maxLenPyx : Nat := 127
end PsdVerif.Generated.Rle
