-- REGENERATED from /repo by harness/extract.py on every run. Do not edit.
namespace PsdVerif.Generated.EnginePatterns
/-- every regular expression psd/engine_data.py compiles, (name, pattern text as `re` is given it), in source order -/
def patterns : List (String × String) := [
  ("EngineToken.ARRAY_END", "^\\]$"),
  ("EngineToken.ARRAY_START", "^\\[$"),
  ("EngineToken.BOOLEAN", "^(true|false)$"),
  ("EngineToken.DICT_END", "^>>(\\x00)*$"),
  ("EngineToken.DICT_START", "^<<$"),
  ("EngineToken.NOOP", "^$"),
  ("EngineToken.NUMBER", "^-?\\d+$"),
  ("EngineToken.NUMBER_WITH_DECIMAL", "^-?\\d*\\.\\d+$"),
  ("EngineToken.PROPERTY", "^\\/[a-zA-Z0-9_]+$"),
  ("EngineToken.STRING", "^\\((\\xfe\\xff([^\\)]|\\\\\\))*)\\)$"),
  ("EngineToken.UNKNOWN_TAG", "^\\([a-zA-Z0-9]*\\)$"),
  ("EngineToken.UNKNOWN_TAG2", "^--\\(\\.-0$"),
  ("Tokenizer.DIVIDER", "[ \\n\\t]+"),
  ("Tokenizer.UTF16_END", "^\\(\\xfe\\xff(?:\\\\.|[^\\\\\\)])*\\)")
]
/-- the flags expression of `compile_re` -/
def flags : String := "re.S"
end PsdVerif.Generated.EnginePatterns
